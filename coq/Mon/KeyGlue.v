(* Monitor tying the symbolic key glue (Model/SymKeys.v) to the code: where Keygen / ParseIdentity wrap,
   unwrap or unlock, and under which tests of the password / the key's locked flag. (C18) *)
From Coq Require Import List Bool NArith String.
Import ListNotations.
From STFS Require Import Skel Sound Events Check Locks.
Open Scope string_scope.
Open Scope N_scope.

(* bits 0-1: password (0 unknown, 1 empty, 2 non-empty); bit 2: wrapped/unwrapped; bits 3-4: locked flag
   (0 unknown, 1 false, 2 true); bits 5-6: format case (0 unknown, 1 age, 2 pgp, 3 other) *)
Definition kget (q i : N) : N := N.land (N.shiftr q i) 3.
Definition kset (q i v : N) : N := N.lor (N.land q (N.lnot (N.shiftl 3 i) 64)) (N.shiftl v i).

Definition wrap_calls : list string := ["age.NewScryptRecipient"; "age.NewScryptIdentity"].
Definition unlock_calls : list string := ["identity.PrivateKey.Decrypt"; "subkey.PrivateKey.Decrypt"].

Definition kstep (q : N) (e : ev) : N :=
  if (q =? ERR) || (q =? DEAD) then q else
  match e with
  | Case t l =>
      if String.eqb t "encryptionFormat" then
        kset q 5 (if String.eqb l "config.EncryptionFormatAgeKey" then 1 else if String.eqb l "config.EncryptionFormatPGPKey" then 2 else 3)
      else q
  | Tst a b =>
      if String.eqb a "password == ''" then kset q 0 (if b then 1 else 2)
      else if String.eqb a "identity.PrivateKey.Encrypted" || String.eqb a "subkey.PrivateKey.Encrypted" then kset q 3 (if b then 2 else 1)
      else q
  | Ext c _ =>
      if mem_str c wrap_calls then (if kget q 0 =? 2 then N.setbit q 2 else ERR)
      else if mem_str c unlock_calls then (if kget q 3 =? 2 then q else ERR)
      else q
  | RetNil | RetTailOk _ =>
      if kget q 5 =? 1 then
        (* age: the password was consulted, and the key is (un)wrapped exactly when it is non-empty *)
        (if (kget q 0 =? 2) && N.testbit q 2 then q else if (kget q 0 =? 1) && negb (N.testbit q 2) then q else ERR)
      else q
  | RetErr _ => q
  | _ => q
  end.
Definition k_exit (_ : exit) (q : N) : bool := negb (q =? ERR).
