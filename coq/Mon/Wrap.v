(* Monitor for C09 (encryption): every header reaches the tar writer through SignHeader then
   EncryptHeader, every content copy happens after an encryptor was set up for it. *)
From Coq Require Import List Bool NArith String.
Import ListNotations.
From STFS Require Import Skel Sound Events Check Locks.
Open Scope string_scope.
Open Scope N_scope.

(* bits: 0 signed, 1 encrypted, 2 encryptor ready; bits 8.. call depth (the rules apply to the write
   operation itself, at depth 1 or 2 (Archive -> archive), not to the replay it triggers afterwards) *)
Definition wdepth (q : N) : N := N.shiftr q 8.
Definition wstep (q : N) (e : ev) : N :=
  if (q =? ERR) || (q =? DEAD) then q else
  match e with
  | Enter f => if String.eqb "recovery.Index" f then N.setbit (q + 256) 7 else q + 256
  | Leave f => if String.eqb "recovery.Index" f then N.clearbit (q - 256) 7 else q - 256
  | Res c true =>
      if String.eqb c "signature.SignHeader" then N.clearbit (N.setbit q 0) 1
      else if String.eqb c "encryption.EncryptHeader" then (if N.testbit q 0 then N.setbit q 1 else ERR)
      else if String.eqb c "encryption.Encrypt" then N.setbit q 2
      else q
  | Ext c _ =>
      if N.testbit q 7 then q else
      if String.eqb c "tw.WriteHeader" then (if N.testbit q 0 && N.testbit q 1 then N.land q (N.lnot 7 64) else ERR)
      else if String.eqb c "io.Copy" || String.eqb c "io.CopyBuffer" then (if N.testbit q 2 then q else ERR)
      else q
  | _ => q
  end.
Definition w_exit (_ : exit) (q : N) : bool := negb (q =? ERR).

(* does a statement mention a call at all (non-vacuity of the monitor on an entry) *)
Fixpoint mentions (c : string) (s : stm) : bool :=
  match s with
  | Ev _ (Ext c' _) => String.eqb c c'
  | Seq a b | Choice a b | Finally a b | CallChk _ a b => mentions c a || mentions c b
  | Loop a => mentions c a
  | _ => false
  end.
