(* Monitor `Guard` (C15): assume-and-forbid over three tracked atoms.
   The monitor is started in a state that fixes some atoms (e.g. f.readOnly = true);
   a branch event contradicting a known atom makes the path infeasible (DEAD);
   a forbidden (mutating) event makes it ERR. *)
From Coq Require Import List Bool NArith String.
Import ListNotations.
From STFS Require Import Skel Sound Events Check Locks.
Open Scope string_scope.
Open Scope N_scope.

(* atoms: 2 bits each: 0 unknown, 1 false, 2 true *)
Definition atom_ix (a : string) : option N :=
  if String.eqb a "f.readOnly" then Some 0 else
  if String.eqb a "f.flags.Write" then Some 2 else
  if String.eqb a "f.writeBuf != nil" then Some 4 else None.
Definition get_atom (q i : N) : N := N.land (N.shiftr q i) 3.
Definition set_atom (q i v : N) : N := N.lor (N.land q (N.lnot (N.shiftl 3 i) 64)) (N.shiftl v i).
Definition enc (b : bool) : N := if b then 2 else 1.
Definition PERM : N := 8.   (* bit 8: the last error value named was os.ErrPermission *)
Definition TESTED : N := 9. (* bit 9: the path branched on f.flags.Write *)

Definition meta_mut (c : string) : bool :=
  mem_str c ["metadata.UpsertHeader"; "metadata.UpdateHeaderMetadata"; "metadata.MoveHeader";
             "metadata.DeleteHeader"; "metadata.PurgeAllHeaders"].

Section Guard.
  Variable allow_meta : bool.

  Definition is_mut (e : ev) : bool :=
    match e with
    | Lk m => String.eqb m "opLock@W"
    | Cb n _ => String.eqb n "f.getFileBuffer"
    | Ext c _ => String.eqb c "prim.GetWriter" || (negb allow_meta && meta_mut c)
    | _ => false
    end.

  Definition gstep (q : N) (e : ev) : N :=
    if (q =? ERR) || (q =? DEAD) then q else
    if is_mut e then ERR else
    match e with
    | Tst a b => match atom_ix a with
                 | Some i => let q := if i =? 2 then N.setbit q TESTED else q in
                             let v := get_atom q i in
                             if v =? 0 then set_atom q i (enc b)
                             else if v =? enc b then q else DEAD
                 | None => q end
    | Asg l r => if String.eqb l "f.writeBuf" then set_atom q 4 (enc (negb (String.eqb r "nil")))
                 else if String.eqb l "f.readOnly" || String.eqb l "f.flags.Write" || String.eqb l "f.flags" then ERR
                 else q
    | RetErr x => if String.eqb x "os.ErrPermission" then N.setbit q PERM else N.clearbit q PERM
    | RetNil | RetTailOk _ => N.clearbit q PERM
    | _ => q
    end.

  (* exit predicate for a call that must refuse with a permission error *)
  Definition refuses (x : exit) (q : N) : bool :=
    (q =? DEAD) || (negb (q =? ERR) && match x with XR KErr => N.testbit q PERM | _ => false end).
  (* handle methods may reject a directory handle before they look at the write flag; once the
     flag was consulted the error must be the permission error *)
  Definition refuses_file (x : exit) (q : N) : bool :=
    (q =? DEAD) || (negb (q =? ERR) &&
       match x with XR KErr => N.testbit q PERM || negb (N.testbit q TESTED) | _ => false end).
  (* exit predicate for a call that merely must not mutate; the write buffer must still be absent *)
  Definition quiet (x : exit) (q : N) : bool :=
    (q =? DEAD) || (negb (q =? ERR) && negb (get_atom q 4 =? 2)).
End Guard.

Definition q_readonly : N := set_atom 0 0 2.                       (* f.readOnly = true *)
Definition q_nowrite : N := set_atom (set_atom 0 2 1) 4 1.         (* flags.Write = false, writeBuf = nil *)
