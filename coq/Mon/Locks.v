(* Monitor `Locks` (C10, C11b): lock discipline over the regenerated skeleton. *)
From Coq Require Import List Bool NArith String.
Import ListNotations.
From STFS Require Import Skel Sound Events Check.
Open Scope string_scope.
Open Scope N_scope.

Definition ERR : N := 2 ^ 62.
Definition DEAD : N := 2 ^ 61.

Definition lock_ix (m : string) : option N :=
  if String.eqb m "ioLock" then Some 0 else
  if String.eqb m "opLock@R" then Some 1 else
  if String.eqb m "opLock@W" then Some 2 else
  if String.eqb m "drive" then Some 3 else
  if String.eqb m "readerLock" then Some 4 else None.
Definition lock_mask : N := 31.
Definition flag_base : N := 8.

Fixpoint index_of (s : string) (l : list string) (i : N) : option N :=
  match l with [] => None | x :: r => if String.eqb s x then Some i else index_of s r (i + 1) end.

Definition mem_str (s : string) (l : list string) : bool := existsb (String.eqb s) l.

Section Locks.
  Variable flags : list string.
  Variable allow : list string.   (* Spawn targets and Panic sites tolerated (known findings) *)

  Definition mstep (q : N) (e : ev) : N :=
    if (q =? ERR) || (q =? DEAD) then q else
    match e with
    | Lk m => match lock_ix m with
              | Some i => if N.testbit q i then ERR else N.setbit q i
              | None => ERR end
    | Ul m => match lock_ix m with
              | Some i => if N.testbit q i then N.clearbit q i else ERR
              | None => ERR end
    | SetF f b => match index_of f flags 0 with
                  | Some i => if b then N.setbit q (flag_base + i) else N.clearbit q (flag_base + i)
                  | None => q end
    | Tst a b => match index_of a flags 0 with
                 | Some i => if Bool.eqb (N.testbit q (flag_base + i)) b then q else DEAD
                 | None => q end
    | Spawn f => if mem_str f allow then q else ERR
    | Panic s => if mem_str s allow then q else ERR
    | _ => q
    end.

  (* at every exit of the top-level call: no lock held (or the path was infeasible) *)
  Definition ok_exit (_ : exit) (q : N) : bool :=
    (q =? DEAD) || (negb (q =? ERR) && (N.land q lock_mask =? 0)).
End Locks.
