(* Monitor for C03 (codec pipeline order): on the write side every content copy goes into a compressor
   that was set up over an encryptor set up for that pass (Encrypt, then Compress, then the copy), and
   the stream is finished inside-out (compressor.Flush, compressor.Close, encryptor.Close) before the
   next header is written and before the operation reports success; on the read side the copy to the
   caller happens after Decrypt and then Decompress were set up (the inverse order). *)
From Coq Require Import List Bool NArith String.
Import ListNotations.
From STFS Require Import Skel Sound Events Check Locks.
Open Scope string_scope.
Open Scope N_scope.

(* bits: 0 encryptor ready, 1 compressor ready, 2 copied, 3 flushed, 4 compressor closed;
   bit 7: inside recovery.Index (the replay reads, it does not write content) *)
Definition cpending (q : N) : bool := negb (N.land q 31 =? 0).
Definition cstep (q : N) (e : ev) : N :=
  if (q =? ERR) || (q =? DEAD) then q else
  match e with
  | Enter f => if String.eqb "recovery.Index" f then N.setbit q 7 else q
  | Leave f => if String.eqb "recovery.Index" f then N.clearbit q 7 else q
  | Res c true =>
      if N.testbit q 7 then q else
      if String.eqb c "encryption.Encrypt" then (if cpending q then ERR else 1)
      else if String.eqb c "compression.Compress" then (if N.land q 31 =? 1 then 3 else ERR)
      else q
  | Ext c _ =>
      if N.testbit q 7 then q else
      if String.eqb c "io.Copy" || String.eqb c "io.CopyBuffer" then (if N.land q 31 =? 3 then N.setbit q 2 else ERR)
      else if String.eqb c "compressor.Flush" then (if N.land q 31 =? 7 then N.setbit q 3 else ERR)
      else if String.eqb c "compressor.Close" then (if N.land q 31 =? 15 then N.setbit q 4 else ERR)
      else if String.eqb c "encryptor.Close" then (if N.land q 31 =? 31 then N.land q (N.lnot 31 64) else ERR)
      else if String.eqb c "tw.WriteHeader" then (if cpending q then ERR else q)
      else q
  | _ => q
  end.
(* a successful return leaves no stream open; error returns may (the tape is then abandoned) *)
Definition c_exit (x : exit) (q : N) : bool :=
  negb (q =? ERR) && (negb (may_ok x) || negb (cpending q)).

(* read side, low bits: 0 nothing set up, 1 decryptor ready, 3 decompressor over it, 8 a raw copy was made
   (entries that are not regular files carry no encoded content; nothing may be decoded after it);
   bits 8..: call depth; copies made inside callees (header decryption reads through its own buffers) are
   not content copies of Fetch *)
Definition rlow (q : N) : N := N.land q 255.
Definition rset (q v : N) : N := N.lor (N.shiftl (N.shiftr q 8) 8) v.
Definition rstep (q : N) (e : ev) : N :=
  if (q =? ERR) || (q =? DEAD) then q else
  match e with
  | Enter _ => q + 256
  | Leave _ => q - 256
  | Res c true =>
      if String.eqb c "encryption.Decrypt" then (if rlow q =? 0 then rset q 1 else ERR)
      else if String.eqb c "compression.Decompress" then (if rlow q =? 1 then rset q 3 else ERR)
      else q
  | Ext c _ =>
      if String.eqb c "io.Copy" && (N.shiftr q 8 =? 1)
      then (if rlow q =? 3 then q else if rlow q =? 0 then rset q 8 else ERR)
      else q
  | _ => q
  end.
Definition r_exit (_ : exit) (q : N) : bool := negb (q =? ERR).
