(* Monitors for C08 (signatures): an accepting return requires a successful library verification,
   and nothing is indexed / handed out before the header verifier accepted it. *)
From Coq Require Import List Bool NArith String.
Import ListNotations.
From STFS Require Import Skel Sound Events Check Locks.
Open Scope string_scope.
Open Scope N_scope.

Definition lib_verify : list string :=
  ["minisign.Verify"; "verifier.Verify"; "recipients[0].PrimaryKey.VerifySignature"].

(* bits: 0-1 case (0 unknown, 1 NoneKey, 2 other); 2 verified; 3 header verified; 4 content streaming; 5 content verified *)
Definition get_case (q : N) : N := N.land q 3.
Definition set_case (q v : N) : N := N.lor (N.land q (N.lnot 3 16)) v.

Section VerifyMon.
  Variable extra_ok : list string.   (* further callees whose success counts as verification (delegation) *)

  Definition vstep (q : N) (e : ev) : N :=
    if (q =? ERR) || (q =? DEAD) then q else
    match e with
    | Case t l => if String.eqb t "signatureFormat" then set_case q (if String.eqb l "config.NoneKey" then 1 else 2) else q
    | Tst a b => if String.eqb a "signatureFormat == config.NoneKey" then set_case q (if b then 1 else 2) else q
    | Res c true => if mem_str c lib_verify || mem_str c extra_ok then N.setbit q 2 else q
    | RetNil | RetTailOk _ => if (get_case q =? 1) || N.testbit q 2 then q else ERR
    | _ => q
    end.

  (* a success may not be reported through an unclassified `return err` either *)
  Definition v_exit (x : exit) (q : N) : bool :=
    (q =? DEAD) || (negb (q =? ERR) && match x with XR KUnk => false | XN => false | _ => true end).
End VerifyMon.

Section IndexMon.
  Variable check_ret : bool.

  (* bits 8.. : call depth below the entry (returns of inlined callees are not the entry's verdict) *)
  Definition depth (q : N) : N := N.shiftr q 8.
  Definition istep (q : N) (e : ev) : N :=
    if (q =? ERR) || (q =? DEAD) then q else
    match e with
    | Ext c _ => if String.eqb c "tr.Next" then N.lor (N.land q 7) (N.shiftl (depth q) 8) else q
    | Res c true =>
        if String.eqb c "verifyHeader" || String.eqb c "signature.VerifyHeader" then N.setbit q 3
        else if String.eqb c "signature.Verify" then N.setbit q 4
        else if String.eqb c "verify" then N.setbit q 5 else q
    | Enter f => if String.eqb f "recovery.indexHeader" && negb (N.testbit q 3) then ERR else q + 256
    | Leave f => q - 256
    | Cb n _ => if mem_str n ["onHeader"; "getDst"; "mkdirAll"] then (if N.testbit q 3 then q else ERR) else q
    | RetNil | RetTailOk _ =>
        if check_ret && (depth q =? 1) then (if N.testbit q 3 && (negb (N.testbit q 4) || N.testbit q 5) then q else ERR) else q
    | _ => q
    end.
  Definition i_exit (_ : exit) (q : N) : bool := negb (q =? ERR).
End IndexMon.
