(* Monitors for C11 over the regenerated skeleton.
   Order:  locks are taken in the fixed order ioLock < opLock@R < opLock@W < drive < readerLock (a lock is only
           requested while every lock held ranks below it), never twice, and none is held at the exit.
   Atomic: in the methods of STFS and File every action on state shared between callers (index store, inventory,
           operations, drive manager, the handle's buffers and pipes) happens while that call holds ioLock. *)
From Coq Require Import List Bool NArith String.
Import ListNotations.
From STFS Require Import Skel Sound Events Check Locks.
Open Scope string_scope.
Open Scope N_scope.

Section Order.
  Variable flags : list string.
  Variable allow : list string.
  Definition ostep (q : N) (e : ev) : N :=
    if (q =? ERR) || (q =? DEAD) then q else
    match e with
    | Lk m => match lock_ix m with
              | Some i => if N.shiftr (N.land q lock_mask) i =? 0 then mstep flags allow q e else ERR
              | None => ERR end
    | _ => mstep flags allow q e
    end.
End Order.

Definition shared_call (f : string) : bool :=
  String.prefix "inventory." f || String.prefix "operations.Operations." f || String.prefix "recovery." f || String.prefix "prim." f
  || String.prefix "metadata." f.
Definition shared_ext (c : string) : bool :=
  String.prefix "metadata." c || String.prefix "f.writeBuf." c || String.prefix "f.readOpReader." c || String.prefix "f.readOpWriter." c
  || String.eqb c "io.CopyN" || String.prefix "inventory." c.
Definition shared_cb (c : string) : bool := String.eqb c "f.getFileBuffer" || String.eqb c "f.cleanWriteBuf".

(* reads of the index store that change nothing *)
Definition shared_read_call (f : string) : bool := String.prefix "inventory." f || String.prefix "metadata.Get" f.
Definition shared_read_ext (c : string) : bool := String.prefix "metadata.Get" c.

(* phase: 0 ioLock not taken yet, 1 held, 2 released.  Every shared action must happen in phase 1; the one
   tolerated exception is a read-only look-up in phase 0 (validation before the call takes the lock: an early
   refusal linearizes at the look-up; on the continuing path the locked section validates again).  Bit 8 records
   that such a pre-lock read happened, bit 9 that the lock was taken a second time, so that the methods which do
   either can be listed exactly. *)
Definition aphase (q : N) : N := N.land q 3.
Definition aset (q p : N) : N := N.lor (N.land q (N.lnot 3 16)) p.
Definition astep (q : N) (e : ev) : N :=
  if (q =? ERR) || (q =? DEAD) then q else
  let shared (is_read : bool) :=
    if aphase q =? 1 then q
    else if (aphase q =? 0) && is_read then N.setbit q 8
    else ERR in
  match e with
  | Lk m => if String.eqb m "ioLock" then (if aphase q =? 2 then N.setbit (aset q 1) 9 else aset q 1) else q
  | Ul m => if String.eqb m "ioLock" then aset q 2 else q
  | Enter f => if shared_call f then shared (shared_read_call f) else q
  | Ext c _ => if shared_ext c then shared (shared_read_ext c) else q
  | Cb c _ => if shared_cb c then shared false else q
  | _ => q
  end.
Definition a_exit (_ : exit) (q : N) : bool := negb (q =? ERR).
(* strict variant: no pre-lock read either *)
Definition a_exit_strict (_ : exit) (q : N) : bool := negb (q =? ERR) && negb (N.testbit q 8).
(* one critical section per call (bit 9: the lock was taken again after it was released) *)
Definition a_exit_single (_ : exit) (q : N) : bool := negb (q =? ERR) && negb (N.testbit q 9).
