(* M1 / Prefix: what recovery.Index makes of a tape cut after n bytes (C06, C16).
   Observed on the implementation and confirmed by the every-byte sweep of the correspondence run:
   a member's header is applied as soon as its whole header group (m_hb blocks) is inside the
   prefix; a cut inside the member's data makes Index return an error after the header was
   applied; cuts inside a header group, inside padding or inside a trailer end indexing cleanly. *)
From Coq Require Import List NArith ZArith Bool.
Import ListNotations.
From STFS Require Import Str Db Tape Index.
Open Scope N_scope.

Definition hdr_end (p : N * member) : N := (fst p + m_hb (snd p)) * 512.
Definition data_end (p : N * member) : N := hdr_end p + m_enc (snd p).

Definition all_members (t : tape) : list (N * member) :=
  flat_map (fun p => match snd p with TM m => [(fst p, m)] | TT => [] end) (with_starts t 0).

Definition applied (t : tape) (n : N) : list (N * member) := filter (fun p => hdr_end p <=? n) (all_members t).
Definition complete (t : tape) (n : N) : list (N * member) := filter (fun p => data_end p <=? n) (all_members t).
Definition torn (t : tape) (n : N) : bool :=
  existsb (fun p => (hdr_end p <=? n) && (n <? data_end p)) (all_members t).

(* index rebuilt from the first n bytes, and whether Index reported an error *)
Definition index_prefix (c : cfg) (t : tape) (n : N) : pstate * res unit * bool :=
  (index_loop c (applied t n) 0 0 None false p_empty, torn t n).

(* what Fetch at a row position returns on the cut tape: the data only if the record is wholly there *)
Definition fetch_prefix (c : cfg) (t : tape) (n : N) (rec blk : N) : option content :=
  match filter (fun p => fst p =? off_of (c_rs c) rec blk) (all_members t) with
  | p :: _ => if data_end p <=? n then match m_data (snd p) with Some d => Some d | None => Some [] end else None
  | [] => None
  end.

(* comparison with the sweep: (n, error reported, number of headers applied) *)
Definition prefix_mismatches (t : tape) (obs : list (N * bool * nat)) : list N :=
  flat_map (fun o => let '(n, err, k) := o in
                     if Bool.eqb (torn t n) err && (length (applied t n) =? k)%nat then [] else [n]) obs.
