(* M1 / Fs: pkg/inventory and the afero.Fs methods of pkg/fs/filesystem.go (precondition
   checks through inventory.Stat, then one operation), plus whole-file open/write/close
   and read paths of pkg/fs/file.go.  Symlink-specific branches are modelled only where a
   plain history can reach them; calls that would need more return [OOther 900].
   Definitions only. *)
From Coq Require Import List NArith ZArith Bool.
Import ListNotations.
From STFS Require Import Str Db Tape Index Ops.
Open Scope N_scope.

Definition E_unmodelled : N := 900.

(* inventory.Stat(name, symlink) *)
Definition inv_stat (p : pstate) (name : str) (symlink : bool) : pstate * res hdr :=
  let with_slash := trim_suffix [slash] name ++ [slash] in
  let '(p, lk) :=
    if symlink then
      match get_header_by_linkname p name with
      | (p, NoRows) => get_header_by_linkname p with_slash
      | x => x
      end
    else (p, NoRows) in
  let proceed (p : pstate) (nm : str) (link : option row) : pstate * res hdr :=
    let '(p, r) := match get_header p nm with
                   | (p, NoRows) => get_header p (trim_suffix [slash] nm ++ [slash])
                   | x => x end in
    match r with
    | Ok d =>
      match link with
      | None => if negb (eqb_str (r_link d) []) then (p, NoRows) else (p, Ok (hdr_of_row d))
      | Some l => (p, Ok (hdr_of_row (set_link (set_name d (r_link l)) (r_name l))))
      end
    | NoRows => (p, NoRows) | Unique => (p, Unique) | Fail e => (p, Fail e)
    end in
  if symlink then
    match lk with
    | Ok l => proceed p (r_name l) (Some l)
    | NoRows => (p, NoRows) | Unique => (p, Unique) | Fail e => (p, Fail e)
    end
  else proceed p name None.

(* inventory.List *)
Definition inv_list (p : pstate) (name : str) (limit : option nat) : pstate * res (list hdr) :=
  match get_direct_children p name limit with
  | (p, Ok l) => (p, Ok (map hdr_of_row l))
  | (p, NoRows) => (p, NoRows) | (p, Unique) => (p, Unique) | (p, Fail e) => (p, Fail e)
  end.

Definition perm_bits (m : N) : N := N.land m 4095.

(* the tar header mknodeWithoutLocking hands to Archive (after tar.FileInfoHeader) *)
Definition mknode_hdr (c : cfg) (dir : bool) (name link : str) (perm : N) (now : Z) : hdr :=
  {| h_tf := if dir then TypeDir else match link with [] => TypeReg | _ => TypeSymlink end;
     h_name := name; h_link := link; h_size := 0; h_mode := perm_bits perm;
     h_uid := c_uid c; h_gid := c_gid c; h_uname := c_uname c; h_gname := c_gname c;
     h_mtime := now; h_atime := 0%Z; h_ctime := 0%Z; h_pax := [] |}.

Definition mknode (c : cfg) (s : sys) (dir : bool) (name : str) (perm : N) (overwrite : bool) (link : str) (initializing : bool) : sys * outc :=
  if c_readonly c then (s, OPerm) else
  archive_op c s [{| f_hdr := mknode_hdr c dir name link perm (clk s); f_data := [] |}] overwrite initializing.

Definition stat_s (s : sys) (name : str) (symlink : bool) : sys * res hdr :=
  let '(p, r) := inv_stat (db s) name symlink in (set_db s p, r).

(* parent must exist and be a directory *)
Definition parent_check (s : sys) (name : str) : sys * outc :=
  match stat_s s (path_dir name) false with
  | (s, Ok ph) => if h_tf ph =? TypeDir then (s, OOk) else (s, OIsFile)
  | (s, NoRows) => (s, ONotExist)
  | (s, e) => (s, outc_of_res e)
  end.

(* STFS.Mkdir *)
Definition fs_mkdir (c : cfg) (s : sys) (name0 : str) (perm : N) : sys * outc :=
  if c_readonly c then (s, OPerm) else
  let name := path_clean name0 in
  match parent_check s name with
  | (s, OOk) =>
    match stat_s s name false with
    | (s, Ok _) => (s, OExist)
    | (s, _) =>
      match stat_s s name true with
      | (s, Ok _) => (s, OExist)
      | (s, _) => mknode c s true name perm false [] false
      end
    end
  | x => x
  end.

(* STFS.MkdirAll *)
Fixpoint mkdirall_loop (c : cfg) (s : sys) (cur : str) (first : bool) (parts : list str) (perm : N) : sys * outc :=
  match parts with
  | [] => (s, OOk)
  | part :: rest =>
    let cur' := if first && eqb_str part [] then [slash]
                else match cur with [] => part | _ => path_join2 cur part end in
    match stat_s s cur' false with
    | (s, Ok h) => if h_tf h =? TypeDir then mkdirall_loop c s cur' false rest perm else (s, OIsFile)
    | (s, NoRows) =>
      match stat_s s cur' true with
      | (s, Ok h) => if h_tf h =? TypeDir then mkdirall_loop c s cur' false rest perm else (s, OIsFile)
      | (s, NoRows) =>
        match mknode c s true cur' perm false [] false with
        | (s, OOk) => mkdirall_loop c s cur' false rest perm
        | x => x
        end
      | (s, e) => (s, outc_of_res e)
      end
    | (s, e) => (s, outc_of_res e)
    end
  end.
Definition fs_mkdirall (c : cfg) (s : sys) (name0 : str) (perm : N) : sys * outc :=
  if c_readonly c then (s, OPerm) else
  mkdirall_loop c s [] true (split_slash (path_clean name0)) perm.

(* STFS.removeWithoutLocking *)
Definition fs_remove_nl (c : cfg) (s : sys) (name : str) : sys * outc :=
  if c_readonly c then (s, OPerm) else
  let '(s, r) := match stat_s s name false with
                 | (s, NoRows) => stat_s s name true
                 | x => x end in
  match r with
  | Ok h =>
    if (h_tf h =? TypeDir) && eqb_str (h_link h) [] then
      match inv_list (db s) name None with
      | (p, Ok l) => match l with
                     | [] => delete_op c (set_db s p) name
                     | _ => (set_db s p, ONotEmpty)
                     end
      | (p, e) => (set_db s p, outc_of_res e)
      end
    else delete_op c s name
  | NoRows => (s, ONotExist)
  | e => (s, outc_of_res e)
  end.
Definition fs_remove (c : cfg) (s : sys) (name0 : str) : sys * outc :=
  if c_readonly c then (s, OPerm) else fs_remove_nl c s (path_clean name0).

(* STFS.RemoveAll: a missing entry is not an error *)
Definition fs_removeall (c : cfg) (s : sys) (name0 : str) : sys * outc :=
  if c_readonly c then (s, OPerm) else
  match delete_op c s (path_clean name0) with
  | (s, ONotExist) => (s, OOk)
  | x => x
  end.

(* STFS.Rename *)
(* Rename compares names in one spelling: "a/b", "./a/b" and "/a/b" are the same entry, "." and "" the root *)
Definition spelling (n : str) : str :=
  let c := path_clean n in
  if eqb_str c [46] then [slash] else slash :: trim_prefix [slash] c.

Definition fs_rename (c : cfg) (s : sys) (old0 new0 : str) : sys * outc :=
  if c_readonly c then (s, OPerm) else
  match old0, new0 with
  | [], _ | _, [] => (s, OInvalid)
  | _, _ =>
    let old := path_clean old0 in
    let new := path_clean new0 in
    let '(p, rt) := get_root_path (db s) in
    let s := set_db s p in
    match rt with
    | None => (s, OInvalid)
    | Some r =>
      if eqb_str r old || eqb_str (spelling r) (spelling old) then (s, OInvalid) else
      let '(s, src) := match stat_s s old false with
                       | (s, NoRows) => stat_s s old true
                       | x => x end in
      match src with
      | Ok sh =>
        if eqb_str old new || eqb_str (spelling old) (spelling new) then (s, OOk) else
        if (h_tf sh =? TypeDir) && has_prefix (trim_suffix [slash] (spelling old) ++ [slash]) (spelling new) then (s, OInvalid) else
        match parent_check s new with
        | (s, OOk) =>
          match stat_s s new false with
          | (s, Ok th) =>
            if negb (h_tf th =? h_tf sh) then (s, OExist)
            else match fs_remove_nl c s new with
                 | (s, OOk) => move_op c s old new
                 | x => x
                 end
          | (s, _) => move_op c s old new
          end
        | x => x
        end
      | NoRows => (s, ONotExist)
      | e => (s, outc_of_res e)
      end
    end
  end.

(* Chmod / Chown / Chtimes: look the entry up (following a link), patch the header, Update(replace=false) *)
Definition fs_update_meta (c : cfg) (s : sys) (name0 : str) (patch : hdr -> hdr) : sys * outc :=
  if c_readonly c then (s, OPerm) else
  match name0 with
  | [] => (s, OInvalid)
  | _ =>
    let name := path_clean name0 in
    let '(s, r) :=
      match stat_s s name false with
      | (s, NoRows) =>
        match stat_s s name true with
        | (s, Ok lh) => stat_s s (h_link lh) false
        | x => x
        end
      | x => x
      end in
    match r with
    | Ok h => update_op c s [{| f_hdr := patch h; f_data := [] |}] false false
    | NoRows => (s, ONotExist)
    | e => (s, outc_of_res e)
    end
  end.

Definition patch_mode (m : N) (h : hdr) : hdr :=
  {| h_tf := h_tf h; h_name := h_name h; h_link := h_link h; h_size := h_size h; h_mode := perm_bits m;
     h_uid := h_uid h; h_gid := h_gid h; h_uname := h_uname h; h_gname := h_gname h;
     h_mtime := h_mtime h; h_atime := h_atime h; h_ctime := h_ctime h; h_pax := h_pax h |}.
Definition patch_owner (u g : N) (h : hdr) : hdr :=
  {| h_tf := h_tf h; h_name := h_name h; h_link := h_link h; h_size := h_size h; h_mode := perm_bits (h_mode h);
     h_uid := u; h_gid := g; h_uname := h_uname h; h_gname := h_gname h;
     h_mtime := h_mtime h; h_atime := h_atime h; h_ctime := h_ctime h; h_pax := h_pax h |}.
Definition patch_times (a m : Z) (h : hdr) : hdr :=
  {| h_tf := h_tf h; h_name := h_name h; h_link := h_link h; h_size := h_size h; h_mode := perm_bits (h_mode h);
     h_uid := h_uid h; h_gid := h_gid h; h_uname := h_uname h; h_gname := h_gname h;
     h_mtime := m; h_atime := a; h_ctime := h_ctime h; h_pax := h_pax h |}.

(* ---- handles (whole-file use) *)

Record flags := { fl_read : bool; fl_write : bool; fl_append : bool; fl_trunc : bool }.
Record oflag := { o_acc : N (* 0 RDONLY, 1 WRONLY, 2 RDWR *); o_append : bool; o_create : bool; o_excl : bool; o_trunc : bool }.

Definition decode_flags (c : cfg) (o : oflag) : flags :=
  if c_readonly c then
    {| fl_read := (o_acc o =? 0) || (o_acc o =? 2); fl_write := false; fl_append := false; fl_trunc := false |}
  else
    {| fl_read := (o_acc o =? 0) || (o_acc o =? 2); fl_write := (o_acc o =? 1) || (o_acc o =? 2);
       fl_append := o_append o; fl_trunc := o_trunc o |}.

Record handle := { hd_path : str; hd_link : str; hd_flags : flags; hd_info : hdr;
                   hd_buf : option content (* write buffer, present once the handle entered write mode *) }.

(* STFS.OpenFile (entries reached through a link name are not modelled) *)
Definition fs_openfile (c : cfg) (s : sys) (name0 : str) (o : oflag) (perm : N) : sys * outc * option handle :=
  match name0 with
  | [] => (s, OInvalid, None)
  | _ =>
    let name := path_clean name0 in
    let fl := decode_flags c o in
    let finish (s : sys) (h : hdr) (created : bool) : sys * outc * option handle :=
      if negb created && negb (c_readonly c) && o_create o && o_excl o then (s, OExist, None)
      else if (h_tf h =? TypeDir) && (fl_write fl || fl_append fl || fl_trunc fl) then (s, OIsDir, None)
      else
        (* O_TRUNC is applied when opening: the handle enters write mode with an empty buffer *)
        let buf := if fl_write fl && fl_trunc fl && negb (h_tf h =? TypeDir) && negb (h_size h =? 0)
                   then Some [] else None in
        (s, OOk, Some {| hd_path := h_name h; hd_link := h_link h; hd_flags := fl; hd_info := h; hd_buf := buf |}) in
    match stat_s s name false with
    | (s, Ok h) => finish s h false
    | (s, NoRows) =>
      match stat_s s name true with
      | (s, NoRows) =>
        if negb (c_readonly c) && o_create o then
          match parent_check s name with
          | (s, OOk) =>
            match mknode c s false name perm false [] false with
            | (s, OOk) =>
              match stat_s s name false with
              | (s, Ok h) => finish s h true
              | (s, NoRows) => (s, ONotExist, None)
              | (s, e) => (s, outc_of_res e, None)
              end
            | (s, e) => (s, e, None)
            end
          | (s, e) => (s, e, None)
          end
        else (s, ONotExist, None)
      | (s, Ok _) => (s, OOther E_unmodelled, None)
      | (s, e) => (s, outc_of_res e, None)
      end
    | (s, e) => (s, outc_of_res e, None)
    end
  end.

(* STFS.Create *)
Definition fs_create (c : cfg) (s : sys) (name0 : str) : sys * outc * option handle :=
  if c_readonly c then (s, OPerm, None) else
  match name0 with
  | [] => (s, OInvalid, None)
  | _ =>
    let name := path_clean name0 in
    match parent_check s name with
    | (s, OOk) => fs_openfile c s name {| o_acc := 2; o_append := false; o_create := true; o_excl := false; o_trunc := true |} 438
    | (s, e) => (s, e, None)
    end
  end.

(* content a read of the entry at [path] returns: Restore -> GetHeader -> Fetch at the row's position *)
Definition read_path (c : cfg) (s : sys) (path : str) : sys * res content :=
  let '(p, r) := match get_header (db s) (trim_suffix [slash] path) with
                 | (p, NoRows) => get_header p (trim_suffix [slash] path ++ [slash])
                 | x => x end in
  match r with
  | Ok d => match fetch_at c (tp s) (r_rec d) (r_blk d) with
            | Some x => (set_db s p, Ok x)
            | None => (set_db s p, Fail 20)
            end
  | NoRows => (set_db s p, NoRows) | Unique => (set_db s p, Unique) | Fail e => (set_db s p, Fail e)
  end.

(* first write on a handle: enterWriteMode (load, truncate, position), then one Write of [d] *)
Definition handle_write_all (c : cfg) (s : sys) (hd : handle) (d : content) : sys * outc * option content :=
  if h_tf (hd_info hd) =? TypeDir then (s, OIsDir, None) else
  if negb (fl_write (hd_flags hd)) then (s, OPerm, None) else
  match hd_buf hd with
  | Some b0 => (s, OOk, Some (coverlay b0 (if fl_append (hd_flags hd) then clen b0 else 0) d))
  | None =>
  let '(s, st) := stat_s s (hd_path hd) false in
  let exists_ := match st with Ok h => negb (h_size h =? 0) | _ => false end in
  match st with
  | Unique | Fail _ => (s, outc_of_res st, None)
  | _ =>
    let '(s, loaded) := if exists_ then
                          match read_path c s (hd_path hd) with
                          | (s, Ok x) => (s, Some x)
                          | (s, _) => (s, None)
                          end
                        else (s, Some []) in
    match loaded with
    | None => (s, OOther 21, None)
    | Some buf0 =>
      let buf1 := if fl_trunc (hd_flags hd) then [] else buf0 in
      let pos := if fl_append (hd_flags hd) then clen buf1 else 0 in
      (s, OOk, Some (coverlay buf1 pos d))
    end
  end
  end.

(* the header Update receives from syncWithoutLocking: name, mode, size and modification time of the handle's
   FileInfo, owner and access/change times of the entry (handed to tar.FileInfoHeader through Sys()) *)
Definition flush_hdr (hd : handle) (size : N) : hdr :=
  let i := hd_info hd in
  {| h_tf := TypeReg; h_name := hd_path hd; h_link := hd_link hd; h_size := size; h_mode := perm_bits (h_mode i);
     h_uid := h_uid i; h_gid := h_gid i; h_uname := h_uname i; h_gname := h_gname i;
     h_mtime := h_mtime i; h_atime := h_atime i; h_ctime := h_ctime i; h_pax := [] |}.

(* the content changes at the flush: the modification time is the clock's *)
Definition stamp_mtime (h : hdr) (now : Z) : hdr :=
  {| h_tf := h_tf h; h_name := h_name h; h_link := h_link h; h_size := h_size h; h_mode := h_mode h;
     h_uid := h_uid h; h_gid := h_gid h; h_uname := h_uname h; h_gname := h_gname h;
     h_mtime := now; h_atime := h_atime h; h_ctime := h_ctime h; h_pax := h_pax h |}.

Definition handle_close (c : cfg) (s : sys) (hd : handle) (buf : option content) : sys * outc :=
  match buf with
  | None => (s, OOk)
  | Some b => update_op c s [{| f_hdr := stamp_mtime (flush_hdr hd (clen b)) (clk s); f_data := b |}] true true
  end.

(* ---- calls of the differential alphabet *)

Inductive call :=
| CMkdir (n : str) (perm : N)
| CMkdirAll (n : str) (perm : N)
| CRemove (n : str)
| CRemoveAll (n : str)
| CRename (a b : str)
| CChmod (n : str) (m : N)
| CChown (n : str) (u g : N)
| CChtimes (n : str) (a m : Z)
| CCreateFile (n : str) (d : content)                 (* Create; Write d if non-empty; Close *)
| CWriteFile (n : str) (o : oflag) (perm : N) (d : content) (force : bool)  (* OpenFile; Write d (if non-empty or force); Close *)
| CArchive (fs : list file)
| CUpdate (fs : list file) (replace : bool)
| CDelete (n : str)
| CMove (a b : str)
| CInitialize (rootp : str)
| CReopen
| CNop.

Definition write_close (c : cfg) (s : sys) (hd : handle) (d : content) (force : bool) : sys * outc :=
  match d, force with
  | [], false => handle_close c s hd (hd_buf hd)
  | _, _ =>
    match handle_write_all c s hd d with
    | (s, OOk, Some b) => handle_close c s hd (Some b)
    | (s, e, _) => (s, e)     (* the harness closes the handle; nothing is buffered *)
    end
  end.

(* STFS.Initialize *)
Definition fs_initialize (c : cfg) (s : sys) (rootp : str) : sys * outc :=
  let '(p, rt) := get_root_path (db s) in
  let s := set_db s p in
  match rt with
  | Some _ => (s, OOk)
  | None =>
    let mkdir_root (s : sys) : sys * outc :=
      if c_readonly c then (s, OPerm) else
      match mknode c s true rootp 511 true [] true with
      | (s, OOk) => let '(p, _) := get_root_path (db s) in (set_db s p, OOk)
      | x => x
      end in
    match tp s with
    | [] => mkdir_root s      (* no drive file yet: GetReader fails *)
    | _ =>
      match index_tape c (tp s) 0 0 None true false (db s) with
      | (p, Ok _) => let '(p, r) := get_root_path p in
                     (set_db s p, match r with Some _ => OOk | None => OOther 30 end)
      | (p, _) =>
        (* a damaged tail: keep what could be indexed if it contains a root *)
        match get_root_path p with
        | (p', Some _) => (set_db s p', OOk)
        | (p', None) => mkdir_root (set_db s p')
        end
      end
    end
  end.

Definition step (c : cfg) (s : sys) (k : call) : sys * outc :=
  match k with
  | CMkdir n perm => fs_mkdir c s n perm
  | CMkdirAll n perm => fs_mkdirall c s n perm
  | CRemove n => fs_remove c s n
  | CRemoveAll n => fs_removeall c s n
  | CRename a b => fs_rename c s a b
  | CChmod n m => fs_update_meta c s n (patch_mode m)
  | CChown n u g => fs_update_meta c s n (patch_owner u g)
  | CChtimes n a m => fs_update_meta c s n (patch_times a m)
  | CCreateFile n d =>
    match fs_create c s n with
    | (s, OOk, Some hd) => write_close c s hd d false
    | (s, e, _) => (s, e)
    end
  | CWriteFile n o perm d force =>
    match fs_openfile c s n o perm with
    | (s, OOk, Some hd) => write_close c s hd d force
    | (s, e, _) => (s, e)
    end
  | CArchive fs => if c_readonly c then (s, OOther 40) else archive_op c s fs false false
  | CUpdate fs replace => update_op c s fs replace false
  | CDelete n => delete_op c s n
  | CMove a b => move_op c s a b
  | CInitialize rootp => fs_initialize c s rootp
  | CReopen => (set_db s (p_open (rows (db s))), OOk)
  | CNop => (s, OOk)
  end.

(* ---- the visible tree, as a walk with Readdir from the root (what the harness does) *)

Record entry := { e_path : str; e_tf : N; e_size : N; e_mode : N; e_uid : N; e_gid : N; e_mtime : Z;
                  e_link : str; e_data : option content }.

Definition entry_of (c : cfg) (s : sys) (path : str) (h : hdr) : entry :=
  {| e_path := path; e_tf := h_tf h; e_size := h_size h; e_mode := perm_bits (h_mode h);
     e_uid := h_uid h; e_gid := h_gid h; e_mtime := h_mtime h; e_link := h_link h;
     e_data := if tf_regular (h_tf h) then
                 match read_path c s (h_name h) with (_, Ok x) => Some x | _ => None end
               else None |}.

Fixpoint walk (fuel : nat) (c : cfg) (s : sys) (dir : str) : list entry :=
  match fuel with
  | O => []
  | S f =>
    match inv_list (db s) dir None with
    | (_, Ok hs) =>
      flat_map (fun h =>
        let path := path_join2 dir (path_base (h_name h)) in
        entry_of c s path h :: (if h_tf h =? TypeDir then walk f c s path else [])) hs
    | _ => []
    end
  end.

Definition view (c : cfg) (s : sys) : list entry :=
  match stat_s s [slash] false with
  | (_, Ok h) => entry_of c s [slash] h :: (if h_tf h =? TypeDir then walk 16 c s [slash] else [])
  | _ => []
  end.
