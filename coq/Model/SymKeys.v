(* Sym / Keys: the glue of pkg/utility/keygen.go and pkg/keys/identity.go over abstract
   primitives.  The primitives (scrypt/age wrapping, OpenPGP key locking, minisign's KDF) and the laws
   assumed of them are Section variables / hypotheses — visible in the type of every theorem after
   the section closes; nothing is declared as an axiom.  (C18) *)
From Coq Require Import List Bool String.
Import ListNotations.

Section Keys.
  Variable key blob : Type.             (* secret key material; serialised private-key bytes *)
  Variable pw_eqb : string -> string -> bool.
  Hypothesis pw_eqb_spec : forall a b, pw_eqb a b = true <-> a = b.

  (* --- age: identity string, optionally wrapped with a scrypt recipient *)
  Variable age_plain : key -> blob.                       (* identity.String() *)
  Variable age_wrap : string -> blob -> blob.             (* age.Encrypt to NewScryptRecipient(password) *)
  Variable age_parse_plain : blob -> option key.          (* age.ParseX25519Identity *)
  Variable age_unwrap : string -> blob -> option blob.    (* age.Decrypt with NewScryptIdentity(password) *)
  Hypothesis age_parse_plain_ok : forall k, age_parse_plain (age_plain k) = Some k.
  Hypothesis age_parse_wrapped : forall p b, age_parse_plain (age_wrap p b) = None.
  Hypothesis age_unwrap_wrap : forall p p' b, age_unwrap p' (age_wrap p b) = if pw_eqb p p' then Some b else None.
  Hypothesis age_unwrap_plain : forall p k, age_unwrap p (age_plain k) = None.

  Definition is_empty (p : string) : bool := match p with EmptyString => true | _ => false end.

  (* generateEncryptionKey (age) / ParseIdentity (age): both branch on password != "" *)
  Definition age_keygen (p : string) (k : key) : blob :=
    if is_empty p then age_plain k else age_wrap p (age_plain k).
  Definition age_parse (priv : blob) (p : string) : option key :=
    if is_empty p then age_parse_plain priv
    else match age_unwrap p priv with Some b => age_parse_plain b | None => None end.

  (* --- OpenPGP: keys are always locked with the password (even the empty one) *)
  Variable pgp_lock : string -> key -> blob.              (* helper.GenerateKey(..., passphrase) + Serialize *)
  Variable pgp_plain : key -> blob.                       (* a key that was never locked (not produced by Keygen) *)
  Variable pgp_encrypted : blob -> bool.                  (* PrivateKey.Encrypted *)
  Variable pgp_unlock : string -> blob -> option key.     (* PrivateKey.Decrypt *)
  Variable pgp_read_plain : blob -> option key.
  Hypothesis pgp_lock_encrypted : forall p k, pgp_encrypted (pgp_lock p k) = true.
  Hypothesis pgp_plain_not_encrypted : forall k, pgp_encrypted (pgp_plain k) = false.
  Hypothesis pgp_unlock_lock : forall p p' k, pgp_unlock p' (pgp_lock p k) = if pw_eqb p p' then Some k else None.
  Hypothesis pgp_read_plain_ok : forall k, pgp_read_plain (pgp_plain k) = Some k.

  Definition pgp_keygen (p : string) (k : key) : blob := pgp_lock p k.
  (* ParseIdentity (pgp) after the fix: unlock whenever the key is locked; an unlocked key takes no password *)
  Definition pgp_parse (priv : blob) (p : string) : option key :=
    if pgp_encrypted priv then pgp_unlock p priv
    else if is_empty p then pgp_read_plain priv else None.
  (* the code before the fix: unlock only when a non-empty password is given *)
  Definition pgp_parse_old (priv : blob) (p : string) : option key :=
    if is_empty p then (if pgp_encrypted priv then None (* parses, but the key stays locked: unusable *) else pgp_read_plain priv)
    else pgp_unlock p priv.

  (* --- minisign: EncryptKey / DecryptKey with its own KDF, for every password *)
  Variable ms_encrypt : string -> key -> blob.
  Variable ms_decrypt : string -> blob -> option key.
  Hypothesis ms_decrypt_encrypt : forall p p' k, ms_decrypt p' (ms_encrypt p k) = if pw_eqb p p' then Some k else None.

  Lemma pw_eqb_refl p : pw_eqb p p = true.
  Proof. apply pw_eqb_spec. reflexivity. Qed.
  Lemma pw_eqb_neq p p' : p <> p' -> pw_eqb p p' = false.
  Proof. intro H. destruct (pw_eqb p p') eqn:E; [|reflexivity]. apply pw_eqb_spec in E. contradiction. Qed.
  Lemma is_empty_spec p : is_empty p = true <-> p = EmptyString.
  Proof. destruct p; cbn; split; intro H; try reflexivity; discriminate. Qed.

  Theorem age_roundtrip : forall p k, age_parse (age_keygen p k) p = Some k.
  Proof.
    intros p k. unfold age_parse, age_keygen. destruct (is_empty p).
    - apply age_parse_plain_ok.
    - rewrite age_unwrap_wrap, pw_eqb_refl. apply age_parse_plain_ok.
  Qed.
  Theorem age_wrong_password : forall p p' k, p' <> p -> age_parse (age_keygen p k) p' = None.
  Proof.
    intros p p' k Hne. unfold age_parse, age_keygen.
    destruct (is_empty p) eqn:Ep; destruct (is_empty p') eqn:Ep'.
    - apply is_empty_spec in Ep, Ep'. congruence.
    - rewrite age_unwrap_plain. reflexivity.
    - apply age_parse_wrapped.
    - rewrite age_unwrap_wrap, pw_eqb_neq; [reflexivity|congruence].
  Qed.

  Theorem pgp_roundtrip : forall p k, pgp_parse (pgp_keygen p k) p = Some k.
  Proof. intros p k. unfold pgp_parse, pgp_keygen. rewrite pgp_lock_encrypted, pgp_unlock_lock, pw_eqb_refl. reflexivity. Qed.
  Theorem pgp_wrong_password : forall p p' k, p' <> p -> pgp_parse (pgp_keygen p k) p' = None.
  Proof.
    intros p p' k Hne. unfold pgp_parse, pgp_keygen. rewrite pgp_lock_encrypted, pgp_unlock_lock, pw_eqb_neq; [reflexivity|congruence].
  Qed.
  (* the defect that was fixed: a pair generated with the empty password did not work *)
  Theorem pgp_old_empty_password_refuted : forall k, pgp_parse_old (pgp_keygen EmptyString k) EmptyString = None.
  Proof. intro k. unfold pgp_parse_old, pgp_keygen. cbn. rewrite pgp_lock_encrypted. reflexivity. Qed.

  Theorem minisign_roundtrip : forall p k, ms_decrypt p (ms_encrypt p k) = Some k.
  Proof. intros. rewrite ms_decrypt_encrypt, pw_eqb_refl. reflexivity. Qed.
  Theorem minisign_wrong_password : forall p p' k, p' <> p -> ms_decrypt p' (ms_encrypt p k) = None.
  Proof. intros p p' k H. rewrite ms_decrypt_encrypt, pw_eqb_neq; [reflexivity|congruence]. Qed.
End Keys.
