(* M1 / Db: the SQLite index (pkg/persisters/metadata.go) as a list of rows in rowid
   (= insertion) order with in-place updates, including the cached root state and the
   SQL semantics that are part of the behaviour (DESIGN.md §1 F4).  Definitions only. *)
From Coq Require Import List NArith ZArith Bool.
Import ListNotations.
From STFS Require Import Str.
Open Scope N_scope.

Definition TypeReg : N := 48.
Definition TypeDir : N := 53.
Definition TypeSymlink : N := 50.

(* the STFS.* PAX records, kept as an association list sorted by key (json.Marshal order) *)
Definition pax := list (str * str).
Fixpoint pax_get (k : str) (p : pax) : option str :=
  match p with [] => None | (k', v) :: r => if eqb_str k k' then Some v else pax_get k r end.
Fixpoint pax_set (k v : str) (p : pax) : pax :=
  match p with
  | [] => [(k, v)]
  | (k', v') :: r => if eqb_str k k' then (k, v) :: r
                     else if ltb_str k k' then (k, v) :: p else (k', v') :: pax_set k v r
  end.
Definition pax_del (k : str) (p : pax) : pax := filter (fun kv => negb (eqb_str k (fst kv))) p.
Fixpoint eqb_pax (a b : pax) : bool :=
  match a, b with
  | [], [] => true
  | (k, v) :: a', (k', v') :: b' => eqb_str k k' && eqb_str v v' && eqb_pax a' b'
  | _, _ => false
  end.

(* tar header as the code manipulates it (archive/tar.Header, projected) *)
Record hdr := {
  h_tf : N; h_name : str; h_link : str; h_size : N; h_mode : N;
  h_uid : N; h_gid : N; h_uname : str; h_gname : str;
  h_mtime : Z; h_atime : Z; h_ctime : Z; h_pax : pax }.

Record row := {
  r_name : str; r_link : str; r_tf : N; r_size : N; r_mode : N;
  r_uid : N; r_gid : N; r_uname : str; r_gname : str;
  r_mtime : Z; r_atime : Z; r_ctime : Z;
  r_rec : N; r_blk : N; r_lkrec : N; r_lkblk : N; r_del : bool; r_pax : pax }.

(* converters.TarHeaderToDBHeader / DBHeaderToTarHeader *)
Definition row_of_hdr (rec lkrec blk lkblk : N) (h : hdr) : row :=
  {| r_name := h_name h; r_link := h_link h; r_tf := h_tf h; r_size := h_size h; r_mode := h_mode h;
     r_uid := h_uid h; r_gid := h_gid h; r_uname := h_uname h; r_gname := h_gname h;
     r_mtime := h_mtime h; r_atime := h_atime h; r_ctime := h_ctime h;
     r_rec := rec; r_blk := blk; r_lkrec := lkrec; r_lkblk := lkblk; r_del := false; r_pax := h_pax h |}.
Definition hdr_of_row (r : row) : hdr :=
  {| h_tf := r_tf r; h_name := r_name r; h_link := r_link r; h_size := r_size r; h_mode := r_mode r;
     h_uid := r_uid r; h_gid := r_gid r; h_uname := r_uname r; h_gname := r_gname r;
     h_mtime := r_mtime r; h_atime := r_atime r; h_ctime := r_ctime r; h_pax := r_pax r |}.

Definition set_name (r : row) (n : str) : row :=
  {| r_name := n; r_link := r_link r; r_tf := r_tf r; r_size := r_size r; r_mode := r_mode r;
     r_uid := r_uid r; r_gid := r_gid r; r_uname := r_uname r; r_gname := r_gname r;
     r_mtime := r_mtime r; r_atime := r_atime r; r_ctime := r_ctime r;
     r_rec := r_rec r; r_blk := r_blk r; r_lkrec := r_lkrec r; r_lkblk := r_lkblk r; r_del := r_del r; r_pax := r_pax r |}.
Definition set_link (r : row) (l : str) : row :=
  {| r_name := r_name r; r_link := l; r_tf := r_tf r; r_size := r_size r; r_mode := r_mode r;
     r_uid := r_uid r; r_gid := r_gid r; r_uname := r_uname r; r_gname := r_gname r;
     r_mtime := r_mtime r; r_atime := r_atime r; r_ctime := r_ctime r;
     r_rec := r_rec r; r_blk := r_blk r; r_lkrec := r_lkrec r; r_lkblk := r_lkblk r; r_del := r_del r; r_pax := r_pax r |}.
Definition set_lk (r : row) (lkrec lkblk : N) (del : bool) : row :=
  {| r_name := r_name r; r_link := r_link r; r_tf := r_tf r; r_size := r_size r; r_mode := r_mode r;
     r_uid := r_uid r; r_gid := r_gid r; r_uname := r_uname r; r_gname := r_gname r;
     r_mtime := r_mtime r; r_atime := r_atime r; r_ctime := r_ctime r;
     r_rec := r_rec r; r_blk := r_blk r; r_lkrec := lkrec; r_lkblk := lkblk; r_del := del; r_pax := r_pax r |}.

Record pstate := { rows : list row; root : str; root_empty : bool }.
Definition p_empty : pstate := {| rows := []; root := []; root_empty := false |}.
Definition with_rows (p : pstate) (l : list row) : pstate :=
  {| rows := l; root := root p; root_empty := root_empty p |}.

Inductive res (A : Type) := Ok (a : A) | NoRows | Unique | Fail (code : N).
Arguments Ok {A} a. Arguments NoRows {A}. Arguments Unique {A}. Arguments Fail {A} code.

Definition live (r : row) : bool := negb (r_del r).
Definition key_eq (n l : str) (r : row) : bool := eqb_str (r_name r) n && eqb_str (r_link r) l.

(* headerExistsExact *)
Definition exists_exact (p : pstate) (n : str) : bool :=
  existsb (fun r => live r && eqb_str (r_name r) n) (rows p).

(* getSanitizedPath: returns the stored spelling of a caller's name and the updated cache *)
Definition sanitize (p : pstate) (name : str) : pstate * str :=
  if is_root_name name || eqb_str name (root p) then (p, root p) else
  let '(p, early) :=
    if eqb_str (root p) [] && is_abs name && negb (root_empty p) then
      if exists_exact p [] then ({| rows := rows p; root := root p; root_empty := true |}, None)
      else ({| rows := rows p; root := name; root_empty := root_empty p |}, Some name)
    else (p, None) in
  match early with
  | Some n => (p, n)
  | None =>
    let rt := root p in
    if is_abs rt && is_abs name then (p, name) else
    if eqb_str rt [] then (p, path_join2 [] (trim_prefix [slash] name)) else
    if eqb_str rt [dot] then (p, path_join2 [dot] (trim_prefix [slash] name)) else
    if eqb_str rt [dot; slash] then (p, [dot; slash] ++ trim_prefix [slash] (trim_prefix [dot; slash] name)) else
    if eqb_str rt [slash] then (p, path_join2 [slash] (trim_prefix [slash] name)) else
    if negb (is_abs rt || has_prefix [dot; slash] rt) then (p, name) else
    (p, [dot; slash] ++ path_clean (trim_prefix [slash] name))
  end.

(* select ... limit 1 by primary-key order: smallest linkname among the matches *)
Fixpoint min_link (l : list row) (best : option row) : option row :=
  match l with
  | [] => best
  | r :: t => match best with
              | None => min_link t (Some r)
              | Some b => if ltb_str (r_link r) (r_link b) then min_link t (Some r) else min_link t best
              end
  end.

Definition find_by_name (p : pstate) (n : str) : option row :=
  min_link (filter (fun r => live r && eqb_str (r_name r) n) (rows p)) None.

(* GetRootPath: cached, else the live name with the fewest slashes (first such row) *)
Fixpoint min_depth_row (l : list row) (best : option row) : option row :=
  match l with
  | [] => best
  | r :: t => match best with
              | None => min_depth_row t (Some r)
              | Some b => if slash_count (r_name r) <? slash_count (r_name b) then min_depth_row t (Some r)
                          else min_depth_row t best
              end
  end.
Definition get_root_path (p : pstate) : pstate * option str :=
  match root p with
  | _ :: _ => (p, Some (root p))
  | [] => match min_depth_row (filter live (rows p)) None with
          | None => (p, None)
          | Some r => ({| rows := rows p; root := r_name r; root_empty := root_empty p |}, Some (r_name r))
          end
  end.

(* Open(): reads the root into the cache *)
Definition p_open (l : list row) : pstate := fst (get_root_path {| rows := l; root := []; root_empty := false |}).

Fixpoint replace_row (n l : str) (new : row) (t : list row) : list row :=
  match t with
  | [] => []
  | r :: t' => if key_eq n l r then new :: t' else r :: replace_row n l new t'
  end.
Definition has_key (t : list row) (n l : str) : bool := existsb (key_eq n l) t.

(* UpsertHeader: insert if the key is absent, then overwrite every non-key column *)
Definition upsert (p : pstate) (r0 : row) (initializing : bool) : pstate * res unit :=
  let '(p, n) := if initializing then (p, r_name r0) else sanitize p (r_name r0) in
  let r := set_name r0 n in
  if has_key (rows p) n (r_link r) then (with_rows p (replace_row n (r_link r) r (rows p)), Ok tt)
  else (with_rows p (rows p ++ [r]), Ok tt).

(* UpdateHeaderMetadata: overwrite every non-key column of the row with that key, if any *)
Definition update_meta (p : pstate) (r0 : row) : pstate * res unit :=
  let '(p, n) := sanitize p (r_name r0) in
  let r := set_name r0 n in
  (with_rows p (replace_row n (r_link r) r (rows p)), Ok tt).

(* MoveHeader: first delete the rows that occupy the new name (same link names as the rows to be
   moved; live or tombstoned), then
   update headers set name = new, lastknown... where name = old (all rows, tombstones too);
   a primary-key collision fails the whole statement *)
Definition move_rows (p : pstate) (old new : str) (lkrec lkblk : N) : pstate * res unit :=
  let '(p, new') := sanitize p new in
  let '(p, old') := sanitize p old in
  let moved := filter (fun r => eqb_str (r_name r) old') (rows p) in
  let rows1 := if eqb_str new' old' then rows p
               else filter (fun r => negb (eqb_str (r_name r) new'
                                           && existsb (fun m => eqb_str (r_link m) (r_link r)) moved)) (rows p) in
  let stay := filter (fun r => negb (eqb_str (r_name r) old')) rows1 in
  if existsb (fun m => has_key stay new' (r_link m)) moved then (with_rows p rows1, Unique)
  else (with_rows p (map (fun r => if eqb_str (r_name r) old'
                                   then set_lk (set_name r new') lkrec lkblk (r_del r) else r) rows1), Ok tt).

Definition get_header (p : pstate) (name : str) : pstate * res row :=
  let '(p, n) := sanitize p name in
  match find_by_name p n with Some r => (p, Ok r) | None => (p, NoRows) end.

(* table scan: first live row with that linkname *)
Definition get_header_by_linkname (p : pstate) (link : str) : pstate * res row :=
  let '(p, l) := sanitize p link in
  match filter (fun r => live r && eqb_str (r_link r) l) (rows p) with
  | r :: _ => (p, Ok r)
  | [] => (p, NoRows)
  end.

Definition not_self (name : str) (r : row) : bool :=
  let pre := trim_suffix [slash] (r_name r) in
  negb (eqb_str name pre) && negb (eqb_str name (pre ++ [slash])).

(* GetHeaderChildren: LIKE <dir>/%, then the exact-prefix filter, then "not the directory itself" *)
Definition get_children (p : pstate) (name : str) : pstate * list row :=
  let '(p, n) := sanitize p name in
  let prefix := trim_suffix [slash] n ++ [slash] in
  (p, filter (fun r => live r && sql_like (prefix ++ [pct]) (r_name r)
                       && has_prefix prefix (r_name r) && not_self n r) (rows p)).

Definition min_slashes (l : list row) : option N :=
  match l with
  | [] => None
  | r :: t => Some (fold_left (fun m x => N.min m (slash_count (r_name x))) t (slash_count (r_name r)))
  end.

Definition ends_slash (x : str) : bool := has_suffix [slash] x.

(* one of the two SQL queries of GetHeaderDirectChildren *)
Definition direct_query (p : pstate) (prefix : str) (use_link : bool) (root_depth : N) (sql_limit : option nat) : list row :=
  let pk := fun r => if use_link then r_link r else r_name r in
  let sel := filter (fun r =>
      let k := pk r in
      let d := sql_depth k prefix in
      sql_like (prefix ++ [pct]) k
      && ((d =? root_depth) || (ends_slash k && (d =? root_depth + 1)))
      && live r
      && (use_link || eqb_str (r_link r) [])
      && negb (is_root_name k)) (rows p) in
  match sql_limit with Some k => firstn k sel | None => sel end.

Definition is_direct_child (prefix : str) (n : str) : bool :=
  match prefix with
  | [] => true
  | _ => has_prefix prefix n
         && negb (existsb (fun c => c =? slash) (trim_suffix [slash] (trim_prefix prefix n)))
  end.

(* GetHeaderDirectChildren(name, limit); limit <= 0 means "all" (given as None) *)
Definition get_direct_children (p : pstate) (name : str) (limit : option nat) : pstate * res (list row) :=
  let '(p, n) := sanitize p name in
  let lim := match limit with Some k => Some (S k) | None => None end in     (* "we want <=, not <" *)
  let isroot := is_root_name n in
  let prefix := if isroot then [] else trim_suffix [slash] n ++ [slash] in
  match (if isroot then min_slashes (filter live (rows p)) else Some 0) with
  | None => (p, Fail 1)
  | Some root_depth =>
    let sql_limit := match lim with Some k => Some (S k) | None => None end in
    let names := direct_query p prefix false root_depth sql_limit in
    let links_raw := direct_query p prefix true root_depth sql_limit in
    (* the link query does not select the name column: the target looked up is "" = the root *)
    let '(p, links) := fold_left (fun acc lr =>
        let '(p, out) := acc in
        let '(p, tr) := get_header p [] in
        match tr with
        | Ok t => (p, out ++ [set_link (set_name t (r_link lr)) []])
        | _ => (p, out ++ [set_link (set_name lr (r_link lr)) []])
        end) links_raw (p, []) in
    let all := filter (fun r => is_direct_child prefix (r_name r) && not_self n r) (names ++ links) in
    match lim with
    | None => (p, Ok all)
    | Some k => if (length all <? k)%nat || (length all =? 0)%nat then (p, Ok all)
                else (p, Ok (firstn (k - 1) all))
    end
  end.

(* DeleteHeader: tombstone the live row with that name *)
Definition delete_row (p : pstate) (name : str) (lkrec lkblk : N) : pstate * res row :=
  let '(p, n) := sanitize p name in
  match find_by_name p n with
  | None => (p, NoRows)
  | Some r => let r' := set_lk r lkrec lkblk true in
              (with_rows p (replace_row n (r_link r) r' (rows p)), Ok r')
  end.

(* GetLastIndexedRecordAndBlock: the (lastknownrecord, lastknownblock) maximising rs*rec+blk, tombstones included *)
Definition last_indexed (p : pstate) (rs : N) : N * N :=
  fold_left (fun best r => if fst best * rs + snd best <? r_lkrec r * rs + r_lkblk r
                           then (r_lkrec r, r_lkblk r) else best) (rows p) (0, 0).

Definition purge (p : pstate) : pstate := p_empty.

Definition live_rows (p : pstate) : list row := filter live (rows p).
