(* M1 / Norm: the two stored-name representations (DESIGN.md §1 F1): a live index stores "/" and
   "/a/f", a rebuilt one "" and "a/f".  [norm_row] maps the former to the latter. *)
From Coq Require Import List NArith ZArith Bool.
Import ListNotations.
From STFS Require Import Str Db Tape Index Ops Fs Diff.
Open Scope N_scope.

Definition norm_name (n : str) : str :=
  match n with
  | c :: r => if c =? slash then r else n
  | [] => []
  end.
Definition norm_row (r : row) : row := set_name r (norm_name (r_name r)).

(* the filesystem-level calls with absolute names (the domain of the C01 row theorem) *)
Definition fs_call (k : call) : bool :=
  match k with
  | CMkdir n _ | CMkdirAll n _ | CRemove n | CRemoveAll n | CChmod n _ | CChown n _ _ | CChtimes n _ _
  | CCreateFile n _ | CWriteFile n _ _ _ _ => is_abs n
  | CRename a b => is_abs a && is_abs b
  | CInitialize r => eqb_str r [slash]
  | CReopen | CNop => true
  | _ => false
  end.

(* rows of a rebuild of the current tape equal the normalised live rows (checked per reachable state) *)
Definition rows_norm_ok (c : cfg) (s : sys) : bool :=
  match rebuild c (tp s) with
  | (p, Ok _) => eqb_list eqb_row (rows p) (map norm_row (rows (db s)))
  | _ => false
  end.

Fixpoint rows_norm_all (c : cfg) (s : sys) (h : list (call * env)) : bool :=
  match h with
  | [] => true
  | (k, e) :: r => let s' := fst (step c (with_env s e) k) in rows_norm_ok c s' && rows_norm_all c s' r
  end.
