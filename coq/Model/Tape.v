(* M1 / Tape: the append-only tar log at member granularity, block arithmetic of positions
   (pkg/recovery/index.go:133-154, fetch.go:38-42).  Definitions only. *)
From Coq Require Import List NArith ZArith Bool.
Import ListNotations.
From STFS Require Import Str Db.
Open Scope N_scope.

(* content of a regular file: a list of pieces (seed, offset, length), each denoting a slice of
   the deterministic byte pattern of that seed (seed 0 = zero bytes); the harness expands
   pieces to bytes when comparing *)
Definition piece := (N * N * N)%type.
Definition content := list piece.
Definition plen (p : piece) : N := snd p.
Definition clen (c : content) : N := fold_right (fun p a => plen p + a) 0 c.
Fixpoint ctake (n : N) (c : content) : content :=
  match c with
  | [] => []
  | (sd, off, l) :: r => if n =? 0 then [] else if l <=? n then (sd, off, l) :: ctake (n - l) r else [(sd, off, n)]
  end.
Fixpoint cdrop (n : N) (c : content) : content :=
  match c with
  | [] => []
  | (sd, off, l) :: r => if n =? 0 then c else if l <=? n then cdrop (n - l) r else (sd, off + n, l - n) :: r
  end.
Definition czeros (n : N) : content := if n =? 0 then [] else [(0, 0, n)].
(* write [d] at offset [at_] into [c] (zero-filling a gap) *)
Definition coverlay (c : content) (at_ : N) (d : content) : content :=
  let n := clen c in
  (if at_ <=? n then ctake at_ c else c ++ czeros (at_ - n)) ++ d ++ cdrop (at_ + clen d) c.

Record member := {
  m_hdr : hdr;        (* header as written (name carries the codec suffix, size = encoded size) *)
  m_hb : N;           (* header blocks (>= 1; 3 for a short-name PAX header) *)
  m_data : option content; (* content carried by the member, if any *)
  m_enc : N           (* bytes of (encoded) data on tape *)
}.

Inductive titem := TM (m : member) | TT.   (* TT: the two-block end-of-archive trailer *)
Definition tape := list titem.

Definition cdiv (a b : N) : N := (a + (b - 1)) / b.
Definition item_blocks (i : titem) : N :=
  match i with TM m => m_hb m + cdiv (m_enc m) 512 | TT => 2 end.
Definition tape_blocks (t : tape) : N := fold_right (fun i acc => item_blocks i + acc) 0 t.

(* (record, block) of a block offset: index.go computes record = total / rs, block = total - record*rs *)
Definition pos_of (rs off : N) : N * N := (off / rs, off - (off / rs) * rs).
Definition off_of (rs rec blk : N) : N := rs * rec + blk.

(* items with their start block *)
Fixpoint with_starts (t : tape) (at_ : N) : list (N * titem) :=
  match t with
  | [] => []
  | i :: r => (at_, i) :: with_starts r (at_ + item_blocks i)
  end.

Definition members_of (t : tape) : list member :=
  flat_map (fun i => match i with TM m => [m] | TT => [] end) t.

(* the members starting at or after block [from], with their start blocks; None if [from]
   is not the start of an item (the reader would then parse garbage) *)
Definition members_from (t : tape) (from : N) : option (list (N * member)) :=
  let ws := with_starts t 0 in
  if (from =? tape_blocks t) || existsb (fun p => fst p =? from) ws then
    Some (flat_map (fun p => match snd p with TM m => if from <=? fst p then [(fst p, m)] else [] | TT => [] end) ws)
  else None.

Definition member_at (t : tape) (off : N) : option member :=
  match filter (fun p => fst p =? off) (with_starts t 0) with
  | (_, TM m) :: _ => Some m
  | _ => None
  end.
