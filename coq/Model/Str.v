(* M1 / Str: byte strings and the Go / SQLite string operations the code uses.
   Names are lists of bytes (N < 256).  Definitions only; lemmas live in Proofs/. *)
From Coq Require Import String Ascii List NArith Bool.
Import ListNotations.
Open Scope N_scope.

Definition str := list N.
Definition slash : N := 47.
Definition dot : N := 46.

(* conversion from Coq string literals, used by generated case files and examples *)
Fixpoint s (x : string) : str :=
  match x with
  | EmptyString => []
  | String c r => N_of_ascii c :: s r
  end.

Fixpoint eqb_str (a b : str) : bool :=
  match a, b with
  | [], [] => true
  | x :: a', y :: b' => (x =? y) && eqb_str a' b'
  | _, _ => false
  end.

Fixpoint ltb_str (a b : str) : bool :=   (* bytewise order, used for primary-key order *)
  match a, b with
  | [], [] => false
  | [], _ :: _ => true
  | _ :: _, [] => false
  | x :: a', y :: b' => (x <? y) || ((x =? y) && ltb_str a' b')
  end.

Fixpoint has_prefix (p x : str) : bool :=       (* strings.HasPrefix(x, p) *)
  match p, x with
  | [], _ => true
  | a :: p', b :: x' => (a =? b) && has_prefix p' x'
  | _ :: _, [] => false
  end.

Definition has_suffix (p x : str) : bool := has_prefix (rev p) (rev x).

Definition trim_prefix (p x : str) : str :=     (* strings.TrimPrefix(x, p) *)
  if has_prefix p x then skipn (length p) x else x.

Definition trim_suffix (p x : str) : str :=     (* strings.TrimSuffix(x, p) *)
  if has_suffix p x then firstn (length x - length p) x else x.

(* strings.Split(x, "/") : always at least one component *)
Fixpoint split_aux (x : str) (cur : str) : list str :=
  match x with
  | [] => [rev cur]
  | c :: r => if c =? slash then rev cur :: split_aux r [] else split_aux r (c :: cur)
  end.
Definition split_slash (x : str) : list str := split_aux x [].

Fixpoint join_slash (l : list str) : str :=
  match l with
  | [] => []
  | [a] => a
  | a :: r => a ++ slash :: join_slash r
  end.

Definition is_dot (c : str) : bool := eqb_str c [dot].
Definition is_dotdot (c : str) : bool := eqb_str c [dot; dot].

(* Go path.Clean / filepath.Clean on slash-separated paths.
   [stk] is the reversed stack of kept components. *)
Fixpoint clean_comps (rooted : bool) (l : list str) (stk : list str) : list str :=
  match l with
  | [] => rev stk
  | c :: r =>
    if eqb_str c [] || is_dot c then clean_comps rooted r stk
    else if is_dotdot c then
      match stk with
      | top :: stk' => if is_dotdot top then clean_comps rooted r (c :: stk)
                       else clean_comps rooted r stk'
      | [] => if rooted then clean_comps rooted r stk else clean_comps rooted r (c :: stk)
      end
    else clean_comps rooted r (c :: stk)
  end.

Definition path_clean (x : str) : str :=
  match x with
  | [] => [dot]
  | c :: _ =>
    let rooted := c =? slash in
    let body := join_slash (clean_comps rooted (split_slash x) []) in
    if rooted then slash :: body
    else match body with [] => [dot] | _ => body end
  end.

(* path.Join(a, b): join the non-empty elements with "/" and Clean; "" if all are empty *)
Definition path_join2 (a b : str) : str :=
  match a, b with
  | [], [] => []
  | [], _ => path_clean b
  | _, [] => path_clean a
  | _, _ => path_clean (a ++ slash :: b)
  end.

(* index just after the last slash *)
Fixpoint last_slash_aux (x : str) (i : nat) (best : nat) : nat :=
  match x with
  | [] => best
  | c :: r => last_slash_aux r (S i) (if c =? slash then S i else best)
  end.
Definition upto_last_slash (x : str) : str := firstn (last_slash_aux x 0 0) x.
Definition after_last_slash (x : str) : str := skipn (last_slash_aux x 0 0) x.

Definition path_dir (x : str) : str := path_clean (upto_last_slash x).     (* filepath.Dir *)

Fixpoint strip_trailing_slashes (r : str) : str :=   (* on the reversed string *)
  match r with
  | c :: r' => if c =? slash then strip_trailing_slashes r' else r
  | [] => []
  end.
Definition path_base (x : str) : str :=                                    (* path.Base *)
  match x with
  | [] => [dot]
  | _ =>
    let y := rev (strip_trailing_slashes (rev x)) in
    match y with
    | [] => [slash]
    | _ => after_last_slash y
    end
  end.

Definition is_root_name (x : str) : bool :=                                (* pathext.IsRoot(x, false) *)
  eqb_str x [] || eqb_str x [dot] || eqb_str x [slash] || eqb_str x [dot; slash].

Definition is_abs (x : str) : bool := match x with c :: _ => c =? slash | [] => false end.

(* ---- SQLite string functions (on bytes; the generators keep names ASCII where it matters) *)

Definition slash_count (x : str) : N := N.of_nat (length (filter (fun c => c =? slash) x)).

(* replace(x, p, ''): remove every occurrence of p, scanning left to right; p = '' leaves x alone *)
Fixpoint sql_remove_all (fuel : nat) (p x : str) : str :=
  match fuel with
  | O => x
  | S f =>
    match x with
    | [] => []
    | c :: r => if has_prefix p x then sql_remove_all f p (skipn (length p) x)
                else c :: sql_remove_all f p r
    end
  end.
Definition sql_replace_empty (x p : str) : str :=
  match p with [] => x | _ => sql_remove_all (S (length x)) p x end.

(* the depth expression of GetHeaderDirectChildren *)
Definition sql_depth (pk prefix : str) : N := slash_count (sql_replace_empty pk prefix).

Definition lower (c : N) : N := if (65 <=? c) && (c <=? 90) then c + 32 else c.
Definition pct : N := 37.
Definition usc : N := 95.

(* x LIKE pat with % and _ wildcards, ASCII case-insensitive, no ESCAPE *)
Fixpoint sql_like (pat x : str) {struct pat} : bool :=
  match pat with
  | [] => match x with [] => true | _ => false end
  | pc :: pat' =>
    if pc =? pct then
      (fix any (y : str) : bool :=
         sql_like pat' y || match y with [] => false | _ :: y' => any y' end) x
    else match x with
         | [] => false
         | c :: x' => ((pc =? usc) || (lower pc =? lower c)) && sql_like pat' x'
         end
  end.

(* decimal rendering of sizes, used for STFS.UncompressedSize *)
Fixpoint digits_aux (fuel : nat) (n : N) (acc : str) : str :=
  match fuel with
  | O => acc
  | S f => let acc' := (48 + n mod 10) :: acc in
           if n / 10 =? 0 then acc' else digits_aux f (n / 10) acc'
  end.
Definition decimal (n : N) : str := digits_aux 40 n [].
Fixpoint undecimal_aux (x : str) (acc : N) : option N :=
  match x with
  | [] => Some acc
  | c :: r => if (48 <=? c) && (c <=? 57) then undecimal_aux r (acc * 10 + (c - 48)) else None
  end.
Definition undecimal (x : str) : option N := match x with [] => None | _ => undecimal_aux x 0 end.
