(* M1 / Diff: executable comparison of model runs with observations of the implementation
   (the correspondence check, DESIGN.md §2.3).  The harness writes case files that apply
   [mismatches] to the histories it ran on the real code. *)
From Coq Require Import List NArith ZArith Bool.
Import ListNotations.
From STFS Require Import Str Db Tape Index Ops Fs.
Open Scope N_scope.

Definition eqb_content (a b : content) : bool :=
  (* compared after expansion by the harness; here piece lists are normalised and compared *)
  let fix go (a b : content) : bool :=
    match a, b with
    | [], [] => true
    | (s1, o1, l1) :: a', (s2, o2, l2) :: b' => (s1 =? s2) && (o1 =? o2) && (l1 =? l2) && go a' b'
    | _, _ => false
    end in go a b.

(* merge adjacent pieces of the same pattern so that equal contents have equal piece lists *)
Fixpoint cnorm (c : content) : content :=
  match c with
  | [] => []
  | (sd, off, l) :: r =>
    if l =? 0 then cnorm r else
    match cnorm r with
    | (sd2, off2, l2) :: r' =>
      if (sd =? sd2) && ((sd =? 0) || (off + l =? off2)) then (sd, (if sd =? 0 then 0 else off), l + l2) :: r'
      else (sd, (if sd =? 0 then 0 else off), l) :: (sd2, off2, l2) :: r'
    | [] => [(sd, (if sd =? 0 then 0 else off), l)]
    end
  end.

Definition eqb_row (a b : row) : bool :=
  eqb_str (r_name a) (r_name b) && eqb_str (r_link a) (r_link b) && (r_tf a =? r_tf b) && (r_size a =? r_size b)
  && (r_mode a =? r_mode b) && (r_uid a =? r_uid b) && (r_gid a =? r_gid b)
  && eqb_str (r_uname a) (r_uname b) && eqb_str (r_gname a) (r_gname b)
  && (r_mtime a =? r_mtime b)%Z && (r_atime a =? r_atime b)%Z && (r_ctime a =? r_ctime b)%Z
  && (r_rec a =? r_rec b) && (r_blk a =? r_blk b) && (r_lkrec a =? r_lkrec b) && (r_lkblk a =? r_lkblk b)
  && Bool.eqb (r_del a) (r_del b) && eqb_pax (r_pax a) (r_pax b).

Definition eqb_opt {A} (f : A -> A -> bool) (a b : option A) : bool :=
  match a, b with Some x, Some y => f x y | None, None => true | _, _ => false end.

Definition eqb_entry (a b : entry) : bool :=
  eqb_str (e_path a) (e_path b) && (e_tf a =? e_tf b) && (e_size a =? e_size b) && (e_mode a =? e_mode b)
  && (e_uid a =? e_uid b) && (e_gid a =? e_gid b) && (e_mtime a =? e_mtime b)%Z && eqb_str (e_link a) (e_link b)
  && eqb_opt (fun x y => eqb_content (cnorm x) (cnorm y)) (e_data a) (e_data b).

Fixpoint eqb_list {A} (f : A -> A -> bool) (a b : list A) : bool :=
  match a, b with
  | [], [] => true
  | x :: a', y :: b' => f x y && eqb_list f a' b'
  | _, _ => false
  end.

Definition eqb_outc (a b : outc) : bool :=
  match a, b with
  | OOk, OOk | ONotExist, ONotExist | OExist, OExist | OPerm, OPerm | OInvalid, OInvalid
  | OIsDir, OIsDir | OIsFile, OIsFile | ONotEmpty, ONotEmpty => true
  | OOther _, OOther _ => true
  | _, _ => false
  end.

(* insertion sort of the walk by path, the order in which the harness reports it *)
Fixpoint ins_entry (e : entry) (l : list entry) : list entry :=
  match l with
  | [] => [e]
  | x :: r => if ltb_str (e_path x) (e_path e) then x :: ins_entry e r else e :: l
  end.
Definition sort_entries (l : list entry) : list entry := fold_right ins_entry [] l.

Record obs := { ob_out : outc; ob_rows : list row; ob_view : list entry; ob_blocks : N }.

Record env := { ev_hb : list N; ev_enc : list N; ev_now : Z }.

Definition with_env (s : sys) (e : env) : sys :=
  {| tp := tp s; db := db s; hbq := ev_hb e; encq := ev_enc e; clk := ev_now e |}.

Definition init_sys : sys := {| tp := []; db := p_empty; hbq := []; encq := []; clk := 0%Z |}.

Definition observe (c : cfg) (s : sys) (o : outc) : obs :=
  {| ob_out := o; ob_rows := rows (db s); ob_view := sort_entries (view c s); ob_blocks := tape_blocks (tp s) |}.

Fixpoint run (c : cfg) (s : sys) (h : list (call * env)) : list obs :=
  match h with
  | [] => []
  | (k, e) :: r => let '(s', o) := step c (with_env s e) k in observe c s' o :: run c s' r
  end.

Fixpoint final (c : cfg) (s : sys) (h : list (call * env)) : sys :=
  match h with
  | [] => s
  | (k, e) :: r => final c (fst (step c (with_env s e) k)) r
  end.

Definition eqb_obs (a b : obs) : bool :=
  eqb_outc (ob_out a) (ob_out b) && eqb_list eqb_row (ob_rows a) (ob_rows b)
  && eqb_list eqb_entry (ob_view a) (ob_view b) && (ob_blocks a =? ob_blocks b).

(* which part differs: 1 outcome, 2 rows, 3 view, 4 tape length *)
Definition diff_kind (a b : obs) : N :=
  if negb (eqb_outc (ob_out a) (ob_out b)) then 1
  else if negb (ob_blocks a =? ob_blocks b) then 4
  else if negb (eqb_list eqb_row (ob_rows a) (ob_rows b)) then 2
  else if negb (eqb_list eqb_entry (ob_view a) (ob_view b)) then 3 else 0.

Fixpoint first_diff (i : nat) (m o : list obs) : option (nat * N) :=
  match m, o with
  | [], [] => None
  | a :: m', b :: o' => if eqb_obs a b then first_diff (S i) m' o' else Some (i, diff_kind a b)
  | _, _ => Some (i, 9)
  end.

Record case := { cs_cfg : cfg; cs_hist : list (call * env); cs_obs : list obs }.

(* indices of the cases on which model and implementation disagree, with the first differing call *)
Fixpoint mismatches_from (i : nat) (cs : list case) : list (nat * nat * N) :=
  match cs with
  | [] => []
  | c :: r =>
    match first_diff 0 (run (cs_cfg c) init_sys (cs_hist c)) (cs_obs c) with
    | None => mismatches_from (S i) r
    | Some (j, k) => (i, j, k) :: mismatches_from (S i) r
    end
  end.
Definition mismatches (cs : list case) : list (nat * nat * N) := mismatches_from 0 cs.
