(* M1 / Index: recovery.indexHeader and the replay loop of recovery.Index over the member-level
   tape (pkg/recovery/index.go).  Definitions only. *)
From Coq Require Import String List NArith ZArith Bool.
Import ListNotations.
From STFS Require Import Str Db Tape.
Open Scope N_scope.
Open Scope string_scope.

Record cfg := {
  c_rs : N;            (* record size in blocks, >= 1 *)
  c_csuf : str;        (* name suffix of the compression format ("" for none) *)
  c_esuf : str;        (* name suffix of the encryption format *)
  c_readonly : bool;
  c_uid : N; c_gid : N; c_uname : str; c_gname : str   (* identity of the running process *)
}.

Definition K_version := s "STFS.Version".
Definition K_action := s "STFS.Action".
Definition K_replaces_content := s "STFS.ReplacesContent".
Definition K_replaces_name := s "STFS.ReplacesName".
Definition K_usize := s "STFS.UncompressedSize".
Definition V_create := s "CREATE".
Definition V_delete := s "DELETE".
Definition V_update := s "UPDATE".
Definition V_true := s "true".
Definition V_false := s "false".
Definition V_1 := s "1".

(* error codes of Fail *)
Close Scope string_scope.

Definition E_atoi : N := 10.
Definition E_version : N := 11.
Definition E_action : N := 12.
Definition E_hdr_missing : N := 13.
Definition E_misaligned : N := 14.

Definition add_suffix (c : cfg) (n : str) : str := n ++ c_csuf c ++ c_esuf c.
Definition remove_suffix (c : cfg) (n : str) : str := trim_suffix (c_csuf c) (trim_suffix (c_esuf c) n).

(* hdr.FileInfo().Mode().IsRegular(): every typeflag without a type bit *)
Definition tf_regular (tf : N) : bool :=
  negb ((tf =? TypeDir) || (tf =? TypeSymlink) || (tf =? 51) || (tf =? 52) || (tf =? 54)).

Definition with_size_name (h : hdr) (sz : N) (n : str) : hdr :=
  {| h_tf := h_tf h; h_name := n; h_link := h_link h; h_size := sz; h_mode := h_mode h;
     h_uid := h_uid h; h_gid := h_gid h; h_uname := h_uname h; h_gname := h_gname h;
     h_mtime := h_mtime h; h_atime := h_atime h; h_ctime := h_ctime h; h_pax := h_pax h |}.

Definition lift {A} (x : pstate * res A) (k : pstate -> A -> pstate * res unit) : pstate * res unit :=
  match x with
  | (p, Ok a) => k p a
  | (p, NoRows) => (p, NoRows)
  | (p, Unique) => (p, Unique)
  | (p, Fail c) => (p, Fail c)
  end.

(* only records that carry encoded content (tape Size > 0) had the codec suffixes added *)
Definition indexed_name (c : cfg) (h0 : hdr) : str :=
  if tf_regular (h_tf h0) && (0 <? h_size h0) then remove_suffix c (h_name h0) else h_name h0.

Definition index_header (c : cfg) (rec blk : N) (h0 : hdr) (initializing : bool) (p : pstate) : pstate * res unit :=
  match (match pax_get K_usize (h_pax h0) with
         | Some v => match undecimal v with Some n => Some n | None => None end
         | None => Some (h_size h0) end) with
  | None => (p, Fail E_atoi)
  | Some sz =>
    let nm := indexed_name c h0 in
    let h := with_size_name h0 sz nm in
    let ver := match pax_get K_version (h_pax h) with Some v => v | None => V_1 end in
    if negb (eqb_str ver V_1) then (p, Fail E_version) else
    let act := match pax_get K_action (h_pax h) with Some v => v | None => V_create end in
    if eqb_str act V_create then upsert p (row_of_hdr rec rec blk blk h) initializing
    else if eqb_str act V_delete then
      lift (delete_row p (h_name h) rec blk) (fun p _ => (p, Ok tt))
    else if eqb_str act V_update then
      let old_name := match pax_get K_replaces_name (h_pax h) with Some o => o | None => h_name h end in
      let moves := match pax_get K_replaces_name (h_pax h) with Some _ => true | None => false end in
      (* rename first (a no-op if it happened before), then edit the row under its new name *)
      let move (p : pstate) : pstate * res unit :=
        if moves then move_rows p old_name (h_name h) rec blk else (p, Ok tt) in
      let content_update (p : pstate) : pstate * res unit :=
        lift (move p) (fun p _ => update_meta p (row_of_hdr rec rec blk blk h)) in
      let meta_update (p : pstate) : pstate * res unit :=
        match get_header p old_name with
        | (p, Ok o) => lift (move p) (fun p _ => update_meta p (row_of_hdr (r_rec o) rec (r_blk o) blk h))
        | (p, NoRows) => move p
        | (p, Unique) => (p, Unique)
        | (p, Fail e) => (p, Fail e)
        end in
      match pax_get K_replaces_content (h_pax h) with
      | Some v => if eqb_str v V_true then content_update p else meta_update p
      | None => meta_update p
      end
    else (p, Fail E_action)
  end.

(* the loop of recovery.Index over the members found from block [from]; [subst] = Some l for the
   write operations (the i-th header after [offset] is replaced by the i-th in-memory header),
   None for a rebuild (the header parsed from the tape is used). *)
Fixpoint index_loop (c : cfg) (ms : list (N * member)) (i offset : nat) (subst : option (list hdr))
         (initializing : bool) (p : pstate) : pstate * res unit :=
  match ms with
  | [] => (p, Ok tt)
  | (start, m) :: rest =>
    if (i <? offset)%nat then index_loop c rest (S i) offset subst initializing p
    else
      let hr := match subst with
                | None => Some (m_hdr m)
                | Some l => nth_error l (i - offset)
                end in
      match hr with
      | None => (p, Fail E_hdr_missing)
      | Some h =>
        let '(rec, blk) := pos_of (c_rs c) start in
        match index_header c rec blk h initializing p with
        | (p, Ok _) => index_loop c rest (S i) offset subst initializing p
        | (p, e) => (p, e)
        end
      end
  end.

Definition index_tape (c : cfg) (t : tape) (from : N) (offset : nat) (subst : option (list hdr))
           (overwrite initializing : bool) (p : pstate) : pstate * res unit :=
  let p := if overwrite then purge p else p in
  match members_from t from with
  | None => (p, Fail E_misaligned)
  | Some ms => index_loop c ms 0 offset subst initializing p
  end.

(* a rebuild: Index(0, 0, overwrite = true, initializing = false, offset 0) with the parsed headers *)
Definition rebuild (c : cfg) (t : tape) : pstate * res unit :=
  index_tape c t 0 0 None true false p_empty.
