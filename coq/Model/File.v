(* M1 / File: the handle state machine of pkg/fs/file.go (streaming read mode, buffered write
   mode with the file-backed write cache), and the reference it is compared with: a byte
   array with a cursor (FileSpec).  Definitions only. *)
From Coq Require Import List NArith ZArith Bool.
Import ListNotations.
From STFS Require Import Str Db Tape Index Ops Fs.
Open Scope N_scope.

Inductive hop :=
| HRead (n : N)
| HReadAt (n : N) (off : Z)
| HSeek (off : Z) (whence : N)        (* 0 start, 1 current, 2 end *)
| HWrite (d : content)
| HWriteAt (d : content) (off : Z)
| HTruncate (size : Z)
| HSync
| HStat.

Inductive hres :=
| RData (d : content) (eof : bool)    (* eof is significant only when d is empty *)
| ROff (o : Z)
| RN (n : N)
| RSize (n : N)
| ROk
| RErr.

Definition cread (c : content) (pos n : N) : content := ctake n (cdrop pos c).
(* writing nothing changes nothing (no zero-fill up to the cursor) *)
Definition cwrite (c : content) (at_ : N) (d : content) : content := if clen d =? 0 then c else coverlay c at_ d.

(* ---------------------------------------------------------------- the reference *)
Record fspec := { sp_data : content; sp_pos : N; sp_fl : flags }.

Definition spec_open (existing : content) (fl : flags) : fspec :=
  {| sp_data := if fl_write fl && fl_trunc fl then [] else existing; sp_pos := 0; sp_fl := fl |}.

Definition spec_step (s : fspec) (o : hop) : fspec * hres :=
  let len := clen (sp_data s) in
  match o with
  | HRead n =>
    if negb (fl_read (sp_fl s)) then (s, RErr) else
    let d := cread (sp_data s) (sp_pos s) n in
    ({| sp_data := sp_data s; sp_pos := sp_pos s + clen d; sp_fl := sp_fl s |}, RData d (clen d =? 0))
  | HReadAt n off =>
    if negb (fl_read (sp_fl s)) || (off <? 0)%Z then (s, RErr) else
    let d := cread (sp_data s) (Z.to_N off) n in (s, RData d (clen d =? 0))
  | HSeek off w =>
    let base := if w =? 0 then 0%Z else if w =? 1 then Z.of_N (sp_pos s) else Z.of_N len in
    let t := (base + off)%Z in
    if (2 <? w) || (t <? 0)%Z then (s, RErr)
    else ({| sp_data := sp_data s; sp_pos := Z.to_N t; sp_fl := sp_fl s |}, ROff t)
  | HWrite d =>
    if negb (fl_write (sp_fl s)) then (s, RErr) else
    let at_ := if fl_append (sp_fl s) && (0 <? clen d) then len else sp_pos s in
    ({| sp_data := cwrite (sp_data s) at_ d; sp_pos := at_ + clen d; sp_fl := sp_fl s |}, RN (clen d))
  | HWriteAt d off =>
    if negb (fl_write (sp_fl s)) || (off <? 0)%Z then (s, RErr) else
    ({| sp_data := cwrite (sp_data s) (Z.to_N off) d; sp_pos := sp_pos s; sp_fl := sp_fl s |}, RN (clen d))
  | HTruncate sz =>
    if negb (fl_write (sp_fl s)) || (sz <? 0)%Z then (s, RErr) else
    let n := Z.to_N sz in
    ({| sp_data := if n <=? len then ctake n (sp_data s) else sp_data s ++ czeros (n - len); sp_pos := sp_pos s; sp_fl := sp_fl s |}, ROk)
  | HSync => (s, ROk)
  | HStat => (s, RSize len)
  end.

(* ---------------------------------------------------------------- the handle of pkg/fs/file.go *)
Record hstate := {
  hs_tape : content;              (* the entry's content on tape: what a (re)started stream delivers *)
  hs_isize : N;                   (* f.info.Size() *)
  hs_rpos : option N;             (* Some k: a stream is open and k bytes of it were consumed *)
  hs_buf : option (content * N);  (* write mode: buffer and its cursor *)
  hs_fl : flags }.

(* OpenFile: O_TRUNC is applied when opening a non-empty file for writing *)
Definition h_open (existing : content) (fl : flags) : hstate :=
  {| hs_tape := existing; hs_isize := clen existing; hs_rpos := None;
     hs_buf := if fl_write fl && fl_trunc fl && negb (clen existing =? 0) then Some ([], 0) else None; hs_fl := fl |}.

(* enterWriteMode *)
Definition enter_write (h : hstate) : hstate :=
  match hs_buf h with
  | Some _ => {| hs_tape := hs_tape h; hs_isize := hs_isize h; hs_rpos := None; hs_buf := hs_buf h; hs_fl := hs_fl h |}
  | None =>
    let pos := match hs_rpos h with Some k => k | None => 0 end in
    let b0 := if fl_trunc (hs_fl h) then [] else hs_tape h in
    {| hs_tape := hs_tape h; hs_isize := hs_isize h; hs_rpos := None; hs_buf := Some (b0, pos); hs_fl := hs_fl h |}
  end.

Definition set_buf (h : hstate) (b : content) (cur : N) : hstate :=
  {| hs_tape := hs_tape h; hs_isize := hs_isize h; hs_rpos := hs_rpos h; hs_buf := Some (b, cur); hs_fl := hs_fl h |}.

(* seekWithoutLocking in read mode: restart the stream when going backwards, skip forward, report the target; the cursor may
   lie behind the end of the content (readBeyond): reads there return nothing *)
Definition seek_read (h : hstate) (dst : N) : hstate :=
  {| hs_tape := hs_tape h; hs_isize := hs_isize h; hs_rpos := Some dst;
     hs_buf := None; hs_fl := hs_fl h |}.

Definition h_seek (h : hstate) (off : Z) (w : N) : hstate * hres :=
  match hs_buf h with
  | Some (b, cur) =>
    let base := if w =? 0 then 0%Z else if w =? 1 then Z.of_N cur else Z.of_N (clen b) in
    let t := (base + off)%Z in
    if (2 <? w) || (t <? 0)%Z then (h, RErr) else (set_buf h b (Z.to_N t), ROff t)
  | None =>
    let cur := match hs_rpos h with Some k => k | None => 0 end in
    let base := if w =? 0 then 0%Z else if w =? 1 then Z.of_N cur else Z.of_N (hs_isize h) in
    let t := (base + off)%Z in
    if (2 <? w) || (t <? 0)%Z then (h, RErr) else (seek_read h (Z.to_N t), ROff t)
  end.

Definition h_read (h : hstate) (n : N) : hstate * hres :=
  if negb (fl_read (hs_fl h)) then (h, RErr) else
  match hs_buf h with
  | Some (b, cur) => let d := cread b cur n in (set_buf h b (cur + clen d), RData d (clen d =? 0))
  | None =>
    let k := match hs_rpos h with Some k => k | None => 0 end in
    let d := cread (hs_tape h) k n in
    ({| hs_tape := hs_tape h; hs_isize := hs_isize h; hs_rpos := Some (k + clen d); hs_buf := None; hs_fl := hs_fl h |},
     RData d (clen d =? 0))
  end.

Definition h_write_at_cursor (h : hstate) (d : content) : hstate * hres :=
  match hs_buf h with
  | Some (b, cur) => (set_buf h (cwrite b cur d) (cur + clen d), RN (clen d))
  | None => (h, RErr)
  end.

(* File.Write with O_APPEND: every write goes to the end, wherever the cursor was moved to *)
Definition to_end_if_append (h : hstate) (d : content) : hstate :=
  if fl_append (hs_fl h) && (0 <? clen d) then match hs_buf h with Some (b, _) => set_buf h b (clen b) | None => h end else h.

Definition hstep (h : hstate) (o : hop) : hstate * hres :=
  match o with
  | HRead n => h_read h n
  | HReadAt n off =>
    (* remember the cursor, seek, read, seek back *)
    if negb (fl_read (hs_fl h)) then (h, RErr) else
    match h_seek h 0 1 with
    | (h0, ROff c) =>
      match h_seek h0 off 0 with
      | (h1, ROff _) =>
        let '(h2, r) := h_read h1 n in
        match h_seek h2 c 0 with
        | (h3, ROff _) => (h3, r)
        | (h3, _) => (h3, RErr)
        end
      | (h1, _) => (h1, RErr)
      end
    | (h0, _) => (h0, RErr)
    end
  | HSeek off w => h_seek h off w
  | HWrite d => if negb (fl_write (hs_fl h)) then (h, RErr) else h_write_at_cursor (to_end_if_append (enter_write h) d) d
  | HWriteAt d off =>
    if negb (fl_write (hs_fl h)) then (h, RErr) else
    match h_seek (enter_write h) 0 1 with
    | (h0, ROff c) =>
      match h_seek h0 off 0 with
      | (h1, ROff _) =>
        let '(h2, r) := h_write_at_cursor h1 d in
        match h_seek h2 c 0 with
        | (h3, ROff _) => (h3, r)
        | (h3, _) => (h3, RErr)
        end
      | (h1, _) => (h1, RErr)
      end
    | (h0, _) => (h0, RErr)
    end
  | HTruncate sz =>
    if negb (fl_write (hs_fl h)) || (sz <? 0)%Z then (h, RErr) else
    let h1 := enter_write h in
    match hs_buf h1 with
    | Some (b, cur) =>
      if (sz <? 0)%Z then (h1, RErr) else
      let n := Z.to_N sz in
      (set_buf h1 (if n <=? clen b then ctake n b else b ++ czeros (n - clen b)) cur, ROk)
    | None => (h1, RErr)
    end
  | HSync =>
    match hs_buf h with
    | Some (b, cur) => ({| hs_tape := b; hs_isize := clen b; hs_rpos := hs_rpos h; hs_buf := Some (b, cur); hs_fl := hs_fl h |}, ROk)
    | None => (h, ROk)
    end
  | HStat => (h, RSize (match hs_buf h with Some (b, _) => clen b | None => hs_isize h end))
  end.

(* Close: flush the buffer; the content a fresh open reads afterwards *)
Definition h_close (h : hstate) : content :=
  match hs_buf h with Some (b, _) => b | None => hs_tape h end.

Fixpoint hrun (h : hstate) (ops : list hop) : hstate * list hres :=
  match ops with
  | [] => (h, [])
  | o :: r => let '(h1, x) := hstep h o in let '(h2, xs) := hrun h1 r in (h2, x :: xs)
  end.
Fixpoint spec_run (s : fspec) (ops : list hop) : fspec * list hres :=
  match ops with
  | [] => (s, [])
  | o :: r => let '(s1, x) := spec_step s o in let '(s2, xs) := spec_run s1 r in (s2, x :: xs)
  end.

(* comparison of results: contents are expanded to bytes (the deterministic pattern of stfsdrv:
   x0 = seed*2654435761+12345, x' = x*1664525+1013904223 mod 2^32, byte = x' >> 24; seed 0 = zeros,
   seed 1000000+b = the literal byte b) *)
Definition lcg (x : N) : N := (x * 1664525 + 1013904223) mod 4294967296.
Fixpoint pat_skip (x : N) (skip : nat) : N :=
  match skip with O => x | S k => pat_skip (lcg x) k end.
Fixpoint pat_take (x : N) (take : nat) : list N :=
  match take with
  | O => []
  | S t => let x' := lcg x in N.shiftr x' 24 :: pat_take x' t
  end.
Definition pat_bytes (x : N) (skip take : nat) : list N := pat_take (pat_skip x skip) take.
Definition expand_piece (p : piece) : list N :=
  let '(sd, off, l) := p in
  if sd =? 0 then repeat 0 (N.to_nat l)
  else if 1000000 <=? sd then repeat (sd - 1000000) (N.to_nat l)
  else pat_bytes ((sd * 2654435761 + 12345) mod 4294967296) (N.to_nat off) (N.to_nat l).
Definition expand (c : content) : list N := flat_map expand_piece c.
Definition ceqb (a b : content) : bool := eqb_str (expand a) (expand b).
Definition cnorm' (c : content) : content := c.
Definition hres_eqb (a b : hres) : bool :=
  match a, b with
  | RData d e, RData d' e' => ceqb (cnorm' d) (cnorm' d') && ((negb (clen d =? 0)) || Bool.eqb e e')
  | ROff o, ROff o' => (o =? o')%Z
  | RN n, RN n' => n =? n'
  | RSize n, RSize n' => n =? n'
  | ROk, ROk => true
  | RErr, RErr => true
  | _, _ => false
  end.

(* one differential case: initial content, flags, ops, observed results and observed final content *)
Record hcase := { hc_init : content; hc_fl : flags; hc_ops : list hop; hc_res : list hres; hc_final : content }.

Fixpoint first_bad (i : nat) (a b : list hres) : option nat :=
  match a, b with
  | [], [] => None
  | x :: a', y :: b' => if hres_eqb x y then first_bad (S i) a' b' else Some i
  | _, _ => Some i
  end.
Definition hcase_bad (c : hcase) : option nat :=
  let '(h, rs) := hrun (h_open (hc_init c) (hc_fl c)) (hc_ops c) in
  match first_bad 0 rs (hc_res c) with
  | Some i => Some i
  | None => if ceqb (cnorm' (h_close h)) (cnorm' (hc_final c)) then None else Some (length (hc_ops c))
  end.
Fixpoint hmismatches_from (i : nat) (cs : list hcase) : list (nat * nat) :=
  match cs with
  | [] => []
  | c :: r => match hcase_bad c with Some j => (i, j) :: hmismatches_from (S i) r | None => hmismatches_from (S i) r end
  end.
Definition hmismatches (cs : list hcase) : list (nat * nat) := hmismatches_from 0 cs.
