(* M1 / Ops: pkg/operations (Archive, Update, Delete, Move, Restore) over the member-level tape
   and the index model.  Each operation appends one archive and replays it into the index
   from the last indexed position, substituting its in-memory headers positionally.
   Definitions only. *)
From Coq Require Import List NArith ZArith Bool.
Import ListNotations.
From STFS Require Import Str Db Tape Index.
Open Scope N_scope.

(* whole-system state: tape, index, and the environment oracle (header block counts and
   encoded sizes observed on the implementation, consumed in order; defaults apply when empty) *)
Record sys := { tp : tape; db : pstate; hbq : list N; encq : list N; clk : Z }.

Definition set_db (s : sys) (p : pstate) : sys :=
  {| tp := tp s; db := p; hbq := hbq s; encq := encq s; clk := clk s |}.
Definition set_tp (s : sys) (t : tape) : sys :=
  {| tp := t; db := db s; hbq := hbq s; encq := encq s; clk := clk s |}.

Definition pop_hb (s : sys) : N * sys :=
  match hbq s with
  | [] => (3, s)
  | h :: r => (h, {| tp := tp s; db := db s; hbq := r; encq := encq s; clk := clk s |})
  end.
Definition pop_enc (s : sys) (plain : N) : N * sys :=
  match encq s with
  | [] => (plain, s)
  | h :: r => (h, {| tp := tp s; db := db s; hbq := hbq s; encq := r; clk := clk s |})
  end.

Inductive outc := OOk | ONotExist | OExist | OPerm | OInvalid | OIsDir | OIsFile | ONotEmpty | OOther (c : N).

Definition outc_of_res {A} (r : res A) : outc :=
  match r with Ok _ => OOk | NoRows => ONotExist | Unique => OOther 1 | Fail c => OOther (100 + c) end.

Definition set_pax (h : hdr) (p : pax) : hdr :=
  {| h_tf := h_tf h; h_name := h_name h; h_link := h_link h; h_size := h_size h; h_mode := h_mode h;
     h_uid := h_uid h; h_gid := h_gid h; h_uname := h_uname h; h_gname := h_gname h;
     h_mtime := h_mtime h; h_atime := h_atime h; h_ctime := h_ctime h; h_pax := p |}.

Record file := { f_hdr : hdr; f_data : content }.

(* the two-pass encode of a regular member: records the plain size, takes the encoded size
   from the oracle, appends the codec suffix *)
Definition encode (c : cfg) (s : sys) (h : hdr) : hdr * N * sys :=
  let '(enc, s) := pop_enc s (h_size h) in
  let h1 := set_pax h (pax_set K_usize (decimal (h_size h)) (h_pax h)) in
  (* an encoder may emit nothing (zstandard for empty content): such a record carries no encoded content and keeps its name *)
  (with_size_name h1 enc (if 0 <? enc then add_suffix c (h_name h1) else h_name h1), enc, s).

Definition mk_member (s : sys) (h : hdr) (d : option content) (enc : N) : member * sys :=
  let '(hb, s) := pop_hb s in
  ({| m_hdr := h; m_hb := hb; m_data := d; m_enc := enc |}, s).

(* append the members as one archive (trailer iff something was written) and replay it *)
Definition append_and_index (c : cfg) (s : sys) (last : N * N) (ms : list member) (hdrs : list hdr)
           (overwrite initializing : bool) : sys * outc :=
  let t' := tp s ++ map TM ms ++ (match ms with [] => [] | _ => [TT] end) in
  let '(p, r) := index_tape c t' (off_of (c_rs c) (fst last) (snd last)) (if overwrite then 0 else 1)%nat
                            (Some hdrs) overwrite initializing (db s) in
  ({| tp := t'; db := p; hbq := hbq s; encq := encq s; clk := clk s |}, outc_of_res r).

Definition is_reg (h : hdr) : bool := tf_regular (h_tf h).

(* Operations.Archive *)
Fixpoint archive_members (c : cfg) (s : sys) (fs : list file) : list member * list hdr * sys :=
  match fs with
  | [] => ([], [], s)
  | f :: r =>
    let h := f_hdr f in
    let '(m, h', s) :=
      if is_reg h && (0 <? h_size h) then
        let '(h', enc, s) := encode c s h in
        let '(m, s) := mk_member s h' (Some (f_data f)) enc in (m, h', s)
      else let '(m, s) := mk_member s h None 0 in (m, h, s) in
    let '(ms, hs, s) := archive_members c s r in
    (m :: ms, h' :: hs, s)
  end.

Definition archive_op (c : cfg) (s : sys) (fs : list file) (overwrite initializing : bool) : sys * outc :=
  let last := if overwrite then (0, 0) else last_indexed (db s) (c_rs c) in
  let '(ms, hs, s) := archive_members c s fs in
  append_and_index c s last ms hs overwrite initializing.

(* a record that carries no content has size 0 on the tape: the entry's size travels in STFS.UncompressedSize, which is added
   from the known size when the header has none yet (entries indexed from a foreign archive) *)
Definition keep_size (h : hdr) : pax :=
  if 0 <? h_size h then
    match pax_get K_usize (h_pax h) with
    | Some _ => h_pax h
    | None => pax_set K_usize (decimal (h_size h)) (h_pax h)
    end
  else h_pax h.

(* Operations.Update *)
Fixpoint update_members (c : cfg) (s : sys) (fs : list file) (replace skip : bool) : list member * list hdr * sys :=
  match fs with
  | [] => ([], [], s)
  | f :: r =>
    let h0 := f_hdr f in
    let h1 := set_pax h0 (pax_del K_replaces_name (pax_set K_action V_update (pax_set K_version V_1 (h_pax h0)))) in
    let carries := is_reg h1 && replace && ((0 <? h_size h1) || skip) in
    let '(h2, enc, s) := if carries then encode c s h1 else (h1, 0, s) in
    let '(m, h', s) :=
      if replace then
        let h3 := set_pax h2 (pax_set K_replaces_content V_true (h_pax h2)) in
        let '(m, s) := mk_member s h3 (if carries then Some (f_data f) else None) enc in (m, h3, s)
      else
        let h3 := with_size_name (set_pax h2 (pax_set K_replaces_content V_false (keep_size h2))) 0 (h_name h2) in
        let '(m, s) := mk_member s h3 None 0 in (m, h3, s) in
    let '(ms, hs, s) := update_members c s r replace skip in
    (m :: ms, h' :: hs, s)
  end.

Definition update_op (c : cfg) (s : sys) (fs : list file) (replace skip : bool) : sys * outc :=
  let last := last_indexed (db s) (c_rs c) in
  let '(ms, hs, s) := update_members c s fs replace skip in
  append_and_index c s last ms hs false false.

(* lookup shared by Delete and Move: by name, else by link name *)
Definition lookup_entry (p : pstate) (name : str) : pstate * res row :=
  match get_header p name with
  | (p, NoRows) => get_header_by_linkname p name
  | x => x
  end.

Fixpoint plain_members (s : sys) (hs : list hdr) : list member * sys :=
  match hs with
  | [] => ([], s)
  | h :: r => let '(m, s) := mk_member s h None 0 in
              let '(ms, s) := plain_members s r in (m :: ms, s)
  end.

(* Operations.Delete *)
Definition delete_op (c : cfg) (s : sys) (name : str) : sys * outc :=
  let last := last_indexed (db s) (c_rs c) in
  match lookup_entry (db s) name with
  | (p, Ok r) =>
    let '(p, kids) := if (r_tf r =? TypeDir) && eqb_str (r_link r) [] then get_children p name else (p, []) in
    let hs := map (fun x => let h := hdr_of_row x in
                            with_size_name (set_pax h (pax_set K_action V_delete (pax_set K_version V_1 (h_pax h)))) 0 (h_name h))
                  (r :: kids) in
    let '(ms, s) := plain_members (set_db s p) hs in
    append_and_index c s last ms hs false false
  | (p, e) => (set_db s p, outc_of_res e)
  end.

(* Operations.Move *)
Definition move_op (c : cfg) (s : sys) (from to : str) : sys * outc :=
  if eqb_str from to then (s, OOk) else
  let last := last_indexed (db s) (c_rs c) in
  match lookup_entry (db s) from with
  | (p, Ok r) =>
    let to := if is_abs to && negb (is_abs (r_name r)) then trim_prefix [slash] to else to in
    if eqb_str from to then (set_db s p, OOk) else
    let '(p, kids) := if r_tf r =? TypeDir then get_children p from else (p, []) in
    let hs := map (fun x =>
                let h := hdr_of_row x in
                let nn := path_join2 to (trim_prefix (trim_prefix [slash] from) (trim_prefix [slash] (r_name x))) in
                with_size_name (set_pax h (pax_set K_replaces_name (r_name x)
                                           (pax_set K_action V_update (pax_set K_version V_1
                                              (pax_del K_replaces_content (keep_size h)))))) 0 nn)
              (r :: kids) in
    let '(ms, s) := plain_members (set_db s p) hs in
    append_and_index c s last ms hs false false
  | (p, e) => (set_db s p, outc_of_res e)
  end.

(* what recovery.Fetch returns for the record at a row's position (no codec: the member's data) *)
Definition fetch_at (c : cfg) (t : tape) (rec blk : N) : option content :=
  match member_at t (off_of (c_rs c) rec blk) with
  | Some m => match m_data m with Some d => Some d | None => Some [] end
  | None => None
  end.
