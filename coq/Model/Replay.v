(* M1 / Replay: re-indexing the whole tape into an index that already reflects a prefix of it
   (recovery.Index(0, 0, overwrite = false), C07). *)
From Coq Require Import List NArith ZArith Bool.
Import ListNotations.
From STFS Require Import Str Db Tape Index Ops Fs Diff Prefix.
Open Scope N_scope.

(* the index a rebuild of the first j records produces *)
Definition prefix_index (c : cfg) (t : tape) (j : nat) : pstate :=
  fst (index_loop c (firstn j (all_members t)) 0 0 None false p_empty).

(* replay of the whole tape into a given index, without wiping it *)
Definition replay_into (c : cfg) (t : tape) (p : pstate) : pstate * res unit :=
  index_tape c t 0 0 None false false p.

Definition row_key_ltb (a b : row) : bool :=
  ltb_str (r_name a) (r_name b) || (eqb_str (r_name a) (r_name b) && ltb_str (r_link a) (r_link b)).
Fixpoint ins_row (r : row) (l : list row) : list row :=
  match l with
  | [] => [r]
  | x :: t => if row_key_ltb x r then x :: ins_row r t else r :: l
  end.
Definition sort_rows (l : list row) : list row := fold_right ins_row [] l.

(* visible part of an index: the live rows, in key order *)
Definition visible (p : pstate) : list row := sort_rows (filter live (rows p)).

Definition res_ok {A} (r : res A) : bool := match r with Ok _ => true | _ => false end.

(* observation of one replay experiment: prefix length j, then the rows after the replay *)
Record replay_obs := { ro_j : nat; ro_ok : bool; ro_rows : list row }.

Definition replay_case_ok (c : cfg) (t : tape) (o : replay_obs) : bool :=
  let '(p, r) := replay_into c t (prefix_index c t (ro_j o)) in
  Bool.eqb (res_ok r) (ro_ok o) && eqb_list eqb_row (sort_rows (rows p)) (sort_rows (ro_rows o)).

Record replay_cases := { rc_cfg : cfg; rc_hist : list (call * env); rc_obs : list replay_obs }.

Fixpoint replay_mismatches_from (i : nat) (cs : list replay_cases) : list (nat * nat) :=
  match cs with
  | [] => []
  | c :: r =>
    let t := tp (final (rc_cfg c) init_sys (rc_hist c)) in
    map (fun o => (i, ro_j o)) (filter (fun o => negb (replay_case_ok (rc_cfg c) t o)) (rc_obs c))
    ++ replay_mismatches_from (S i) r
  end.
Definition replay_mismatches (cs : list replay_cases) : list (nat * nat) := replay_mismatches_from 0 cs.
