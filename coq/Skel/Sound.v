From Coq Require Import List Bool NArith Lia Arith Wf_nat.
Import ListNotations.
From STFS Require Import Skel.

Section Sound.
Variable ev fname : Type.
Variable prog : fname -> option (stmt ev fname).
Variable mstep : N -> ev -> N.
Variable loop_fuel : nat.

Notation stmt := (stmt ev fname).
Notation exec := (exec prog).
Notation post := (post prog mstep loop_fuel).
Notation mrun := (mrun mstep).

Lemma In_union_l q (X Y : sset) : In q X -> In q (union X Y).
Proof. unfold union; intro; apply nodup_In, in_or_app; auto. Qed.
Lemma In_union_r q (X Y : sset) : In q Y -> In q (union X Y).
Proof. unfold union; intro; apply nodup_In, in_or_app; auto. Qed.

Lemma sel_o_union_l A B x q : In q (sel A x) -> In q (sel (o_union A B) x).
Proof. destruct x as [| | |[]]; cbn; apply In_union_l. Qed.
Lemma sel_o_union_r A B x q : In q (sel B x) -> In q (sel (o_union A B) x).
Proof. destruct x as [| | |[]]; cbn; apply In_union_r. Qed.

(* one-step unfolding of [post] *)
Lemma post_unfold fuel (s : stmt) X :
  post fuel s X =
  match s with
  | Skip _ _ => Some (Build_outs X [] [] [] [] [])
  | Ev _ e => Some (Build_outs (nodup N.eq_dec (map (fun q => mstep q e) X)) [] [] [] [] [])
  | Seq a b =>
      match post fuel a X with
      | None => None
      | Some Oa =>
        match post fuel b (oN Oa) with
        | None => None
        | Some Ob => Some (Build_outs (oN Ob) (union (oB Oa) (oB Ob)) (union (oC Oa) (oC Ob))
                                      (union (oOk Oa) (oOk Ob)) (union (oErr Oa) (oErr Ob))
                                      (union (oUnk Oa) (oUnk Ob)))
        end
      end
  | Choice a b =>
      match post fuel a X, post fuel b X with
      | Some Oa, Some Ob => Some (o_union Oa Ob)
      | _, _ => None
      end
  | Loop b =>
      match loop_inv loop_fuel (post fuel b) X with
      | None => None
      | Some (_, Ou) => Some (Build_outs (oB Ou) [] [] (oOk Ou) (oErr Ou) (oUnk Ou))
      end
  | Break _ _ => Some (Build_outs [] X [] [] [] [])
  | Continue _ _ => Some (Build_outs [] [] X [] [] [])
  | Return _ _ KOk => Some (Build_outs [] [] [] X [] [])
  | Return _ _ KErr => Some (Build_outs [] [] [] [] X [])
  | Return _ _ KUnk => Some (Build_outs [] [] [] [] [] X)
  | Finally b d =>
      match post fuel b X with
      | None => None
      | Some Ob =>
        let f := fun Y => match post fuel d Y with Some Od => Some (oN Od) | None => None end in
        match f (oN Ob), f (oOk Ob), f (oErr Ob), f (oUnk Ob) with
        | Some n, Some o, Some e, Some u => Some (Build_outs n (oB Ob) (oC Ob) o e u)
        | _, _, _, _ => None
        end
      end
  | Call _ f =>
      match fuel with
      | 0%nat => None
      | S fuel' =>
        match prog f with
        | None => None
        | Some body =>
          match post fuel' body X with
          | None => None
          | Some Ob => Some (Build_outs (union (oN Ob) (union (oOk Ob) (union (oErr Ob) (oUnk Ob)))) [] [] [] [] [])
          end
        end
      end
  | CallChk f serr sok =>
      match fuel with
      | 0%nat => None
      | S fuel' =>
        match prog f with
        | None => None
        | Some body =>
          match post fuel' body X with
          | None => None
          | Some Ob =>
            let Xerr := union (oN Ob) (union (oErr Ob) (oUnk Ob)) in
            let Xok := union (oN Ob) (union (oOk Ob) (oUnk Ob)) in
            match post fuel serr Xerr, post fuel sok Xok with
            | Some Oe, Some Oo => Some (o_union Oe Oo)
            | _, _ => None
            end
          end
        end
      end
  end.
Proof. destruct fuel; destruct s; reflexivity. Qed.

Lemma loop_inv_spec k (body : sset -> option outs) X A Ou :
  loop_inv k body X = Some (A, Ou) ->
  (forall q, In q X -> In q A) /\ body A = Some Ou /\
  (forall q, In q (oN Ou) -> In q A) /\ (forall q, In q (oC Ou) -> In q A).
Proof.
  revert X; induction k as [|k IH]; intros X H; cbn in H; [discriminate|].
  destruct (body X) as [O1|] eqn:Hb; [|discriminate].
  destruct (subset (oN O1) X && subset (oC O1) X) eqn:Hs.
  - inversion H; subst; clear H. apply andb_true_iff in Hs as [H1 H2].
    repeat split; auto.
    + intros q; apply subset_In; exact H1.
    + intros q; apply subset_In; exact H2.
  - apply IH in H as (Hx & Hb' & Hn & Hc). repeat split; auto.
    intros q Hq; apply Hx, In_union_l, Hq.
Qed.

Definition sound_at (fuel : nat) (s : stmt) : Prop :=
  forall X Ou, post fuel s X = Some Ou ->
  forall t x, exec s t x -> forall q, In q X -> In (mrun q t) (sel Ou x).

Lemma fn_exit_sel_call (Ob : outs) x q :
  is_fn_exit x = true -> In q (sel Ob x) ->
  In q (union (oN Ob) (union (oOk Ob) (union (oErr Ob) (oUnk Ob)))).
Proof.
  destruct x as [| | |[]]; cbn; intros H Hq; try discriminate.
  - apply In_union_l, Hq.
  - apply In_union_r, In_union_l, Hq.
  - apply In_union_r, In_union_r, In_union_l, Hq.
  - apply In_union_r, In_union_r, In_union_r, Hq.
Qed.

Lemma may_err_sel (Ob : outs) x q :
  is_fn_exit x = true -> may_err x = true -> In q (sel Ob x) ->
  In q (union (oN Ob) (union (oErr Ob) (oUnk Ob))).
Proof.
  destruct x as [| | |[]]; cbn; intros H H2 Hq; try discriminate.
  - apply In_union_l, Hq.
  - apply In_union_r, In_union_l, Hq.
  - apply In_union_r, In_union_r, Hq.
Qed.
Lemma may_ok_sel (Ob : outs) x q :
  is_fn_exit x = true -> may_ok x = true -> In q (sel Ob x) ->
  In q (union (oN Ob) (union (oOk Ob) (oUnk Ob))).
Proof.
  destruct x as [| | |[]]; cbn; intros H H2 Hq; try discriminate.
  - apply In_union_l, Hq.
  - apply In_union_r, In_union_l, Hq.
  - apply In_union_r, In_union_r, Hq.
Qed.

Theorem post_sound : forall fuel s, sound_at fuel s.
Proof.
  intro fuel; induction fuel as [fuel IHfuel] using lt_wf_ind.
  induction s as [ | e | a IHa b IHb | a IHa b IHb | b IHb | | | k | b IHb d IHd | f | f serr IHe sok IHo ];
    intros X Ou Hpost t x Hex q Hq; rewrite post_unfold in Hpost.
  - (* Skip *) inversion Hpost; subst; inversion Hex; subst; cbn; exact Hq.
  - (* Ev *) inversion Hpost; subst; inversion Hex; subst; cbn.
    apply nodup_In, in_map_iff; exists q; split; [reflexivity|exact Hq].
  - (* Seq *)
    destruct (post fuel a X) as [Oa|] eqn:Ha; [|discriminate].
    destruct (post fuel b (oN Oa)) as [Ob|] eqn:Hb; [|discriminate].
    inversion Hpost; subst; clear Hpost.
    inversion Hex; subst.
    + rewrite mrun_app.
      match goal with H1 : exec a _ XN, H2 : exec b _ _ |- _ =>
        pose proof (IHa _ _ Ha _ _ H1 _ Hq) as Hmid;
        pose proof (IHb _ _ Hb _ _ H2 _ Hmid) as Hfin end.
      destruct x as [| | |[]]; cbn in *; auto using In_union_r.
    + match goal with H1 : exec a _ _ |- _ => pose proof (IHa _ _ Ha _ _ H1 _ Hq) as Hfin end.
      destruct x as [| | |[]]; cbn in *; auto using In_union_l; congruence.
  - (* Choice *)
    destruct (post fuel a X) as [Oa|] eqn:Ha; [|discriminate].
    destruct (post fuel b X) as [Ob|] eqn:Hb; [|discriminate].
    inversion Hpost; subst; clear Hpost.
    inversion Hex; subst.
    + apply sel_o_union_l; eapply IHa; eauto.
    + apply sel_o_union_r; eapply IHb; eauto.
  - (* Loop *)
    destruct (loop_inv loop_fuel (post fuel b) X) as [[A Ob]|] eqn:Hl; [|discriminate].
    inversion Hpost; subst; clear Hpost.
    apply loop_inv_spec in Hl as (HXA & Hbody & HnA & HcA).
    apply HXA in Hq. clear HXA X.
    remember (Loop b) as lp eqn:Elp.
    revert q Hq.
    induction Hex; try discriminate; (injection Elp as ->); intros q Hq.
    + (* break *) cbn. eapply (IHb _ _ Hbody _ _ Hex _ Hq).
    + (* return *) pose proof (IHb _ _ Hbody _ _ Hex _ Hq) as H; destruct k; cbn in *; exact H.
    + (* normal iteration *) rewrite mrun_app. apply IHHex2; [reflexivity|].
      apply HnA. exact (IHb _ _ Hbody _ _ Hex1 _ Hq).
    + (* continue *) rewrite mrun_app. apply IHHex2; [reflexivity|].
      apply HcA. exact (IHb _ _ Hbody _ _ Hex1 _ Hq).
  - (* Break *) inversion Hpost; subst; inversion Hex; subst; cbn; exact Hq.
  - (* Continue *) inversion Hpost; subst; inversion Hex; subst; cbn; exact Hq.
  - (* Return *) inversion Hex; subst; destruct k; inversion Hpost; subst; cbn; exact Hq.
  - (* Finally *)
    destruct (post fuel b X) as [Ob|] eqn:Hb; [|discriminate].
    cbv beta zeta in Hpost.
    destruct (post fuel d (oN Ob)) as [Od1|] eqn:H1; cbv beta iota in Hpost; [|discriminate].
    destruct (post fuel d (oOk Ob)) as [Od2|] eqn:H2; cbv beta iota in Hpost; [|discriminate].
    destruct (post fuel d (oErr Ob)) as [Od3|] eqn:H3; cbv beta iota in Hpost; [|discriminate].
    destruct (post fuel d (oUnk Ob)) as [Od4|] eqn:H4; cbv beta iota in Hpost; [|discriminate].
    inversion Hpost; subst; clear Hpost.
    inversion Hex; subst. rewrite mrun_app.
    match goal with Hb' : exec b _ _, Hd' : exec d _ XN |- _ =>
      pose proof (IHb _ _ Hb _ _ Hb' _ Hq) as Hmid end.
    destruct x as [| | |[]]; cbn in *; try discriminate.
    + eapply (IHd _ _ H1 _ XN); eauto.
    + eapply (IHd _ _ H2 _ XN); eauto.
    + eapply (IHd _ _ H3 _ XN); eauto.
    + eapply (IHd _ _ H4 _ XN); eauto.
  - (* Call *)
    destruct fuel as [|fuel']; [discriminate|].
    inversion Hex; subst.
    match goal with Hp : prog f = Some _ |- _ => rewrite Hp in Hpost end.
    destruct (post fuel' body X) as [Ob|] eqn:Hb; [|discriminate].
    inversion Hpost; subst; clear Hpost. cbn.
    eapply fn_exit_sel_call; eauto.
    eapply (IHfuel fuel' (Nat.lt_succ_diag_r _)); eauto.
  - (* CallChk *)
    destruct fuel as [|fuel']; [discriminate|].
    inversion Hex; subst;
    match goal with Hp : prog f = Some _ |- _ => rewrite Hp in Hpost end;
    (destruct (post fuel' body X) as [Ob|] eqn:Hb; [|discriminate]);
    cbn zeta in Hpost;
    (destruct (post (S fuel') serr _) as [Oe|] eqn:He; [|discriminate]);
    (destruct (post (S fuel') sok _) as [Oo|] eqn:Ho; [|discriminate]);
    inversion Hpost; subst; clear Hpost; rewrite mrun_app.
    + apply sel_o_union_l. eapply IHe; eauto.
      eapply may_err_sel; eauto.
      eapply (IHfuel fuel' (Nat.lt_succ_diag_r _)); eauto.
    + apply sel_o_union_r. eapply IHo; eauto.
      eapply may_ok_sel; eauto.
      eapply (IHfuel fuel' (Nat.lt_succ_diag_r _)); eauto.
Qed.

End Sound.
