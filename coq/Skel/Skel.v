(* Prototype: control skeleton language, trace semantics, monitor-based
   abstract interpreter and its soundness.  De-risking for DESIGN.md §2.1 (M2). *)
From Coq Require Import List Bool NArith Lia.
Import ListNotations.

Set Implicit Arguments.

Section Skel.
Variable ev : Type.
Variable fname : Type.

Inductive rk := KOk | KErr | KUnk.

Inductive stmt :=
| Skip
| Ev (e : ev)
| Seq (a b : stmt)
| Choice (a b : stmt)
| Loop (s : stmt)
| Break
| Continue
| Return (k : rk)
| Finally (s d : stmt)
| Call (f : fname)
| CallChk (f : fname) (serr sok : stmt).

Inductive exit := XN | XB | XC | XR (k : rk).

Variable prog : fname -> option stmt.

Definition may_err (x : exit) : bool :=
  match x with XR KOk => false | XR _ => true | XN => true | _ => false end.
Definition may_ok (x : exit) : bool :=
  match x with XR KErr => false | XR _ => true | XN => true | _ => false end.
Definition is_fn_exit (x : exit) : bool :=
  match x with XN | XR _ => true | _ => false end.

Inductive exec : stmt -> list ev -> exit -> Prop :=
| E_Skip : exec Skip [] XN
| E_Ev e : exec (Ev e) [e] XN
| E_SeqN a b t1 t2 x : exec a t1 XN -> exec b t2 x -> exec (Seq a b) (t1 ++ t2) x
| E_SeqX a b t x : exec a t x -> x <> XN -> exec (Seq a b) t x
| E_ChL a b t x : exec a t x -> exec (Choice a b) t x
| E_ChR a b t x : exec b t x -> exec (Choice a b) t x
| E_LoopB s t : exec s t XB -> exec (Loop s) t XN
| E_LoopR s t k : exec s t (XR k) -> exec (Loop s) t (XR k)
| E_LoopN s t1 t2 x : exec s t1 XN -> exec (Loop s) t2 x -> exec (Loop s) (t1 ++ t2) x
| E_LoopC s t1 t2 x : exec s t1 XC -> exec (Loop s) t2 x -> exec (Loop s) (t1 ++ t2) x
| E_Break : exec Break [] XB
| E_Continue : exec Continue [] XC
| E_Return k : exec (Return k) [] (XR k)
| E_Finally s d t td x : exec s t x -> is_fn_exit x = true -> exec d td XN ->
                         exec (Finally s d) (t ++ td) x
| E_Call f body t x : prog f = Some body -> exec body t x -> is_fn_exit x = true ->
                      exec (Call f) t XN
| E_CallErr f body serr sok t x t2 x2 :
    prog f = Some body -> exec body t x -> is_fn_exit x = true -> may_err x = true ->
    exec serr t2 x2 -> exec (CallChk f serr sok) (t ++ t2) x2
| E_CallOk f body serr sok t x t2 x2 :
    prog f = Some body -> exec body t x -> is_fn_exit x = true -> may_ok x = true ->
    exec sok t2 x2 -> exec (CallChk f serr sok) (t ++ t2) x2.

(* ---- monitors: deterministic automata over events, states are N ---- *)
Variable mstep : N -> ev -> N.

Fixpoint mrun (q : N) (t : list ev) : N :=
  match t with [] => q | e :: t' => mrun (mstep q e) t' end.

Lemma mrun_app q t1 t2 : mrun q (t1 ++ t2) = mrun (mrun q t1) t2.
Proof. revert q; induction t1 as [|e t1 IH]; intro q; cbn; [reflexivity|apply IH]. Qed.

(* ---- abstract interpreter over sets of monitor states ---- *)
Definition sset := list N.
Definition mem (q : N) (X : sset) : bool := existsb (N.eqb q) X.
Definition subset (X Y : sset) : bool := forallb (fun q => mem q Y) X.
Definition union (X Y : sset) : sset := nodup N.eq_dec (X ++ Y).

Lemma mem_In q X : mem q X = true <-> In q X.
Proof.
  unfold mem; rewrite existsb_exists; split.
  - intros [y [Hy He]]; apply N.eqb_eq in He; subst; exact Hy.
  - intro H; exists q; split; [exact H|apply N.eqb_refl].
Qed.
Lemma subset_In X Y : subset X Y = true -> forall q, In q X -> In q Y.
Proof.
  unfold subset; rewrite forallb_forall; intros H q Hq.
  apply mem_In, H, Hq.
Qed.

Record outs := { oN : sset; oB : sset; oC : sset; oOk : sset; oErr : sset; oUnk : sset }.
Definition sel (Ou : outs) (x : exit) : sset :=
  match x with
  | XN => oN Ou | XB => oB Ou | XC => oC Ou
  | XR KOk => oOk Ou | XR KErr => oErr Ou | XR KUnk => oUnk Ou
  end.
Definition o_empty : outs := Build_outs [] [] [] [] [] [].
Definition o_union (A B : outs) : outs :=
  Build_outs (union (oN A) (oN B)) (union (oB A) (oB B)) (union (oC A) (oC B))
             (union (oOk A) (oOk B)) (union (oErr A) (oErr B)) (union (oUnk A) (oUnk B)).
Definition o_map_all (f : sset -> option sset) (Ou : outs) : option outs :=
  match f (oN Ou), f (oB Ou), f (oC Ou), f (oOk Ou), f (oErr Ou), f (oUnk Ou) with
  | Some a, Some b, Some c, Some d, Some e, Some g => Some (Build_outs a b c d e g)
  | _, _, _, _, _, _ => None
  end.

(* iterate the loop body until the invariant set is closed *)
Fixpoint loop_inv (k : nat) (body : sset -> option outs) (A : sset) : option (sset * outs) :=
  match k with
  | 0%nat => None
  | S k' =>
    match body A with
    | None => None
    | Some Ou =>
      if subset (oN Ou) A && subset (oC Ou) A then Some (A, Ou)
      else loop_inv k' body (union A (union (oN Ou) (oC Ou)))
    end
  end.

Variable loop_fuel : nat.

Fixpoint post (fuel : nat) (s : stmt) (X : sset) {struct fuel} : option outs :=
  let fix go (s : stmt) (X : sset) {struct s} : option outs :=
    match s with
    | Skip => Some (Build_outs X [] [] [] [] [])
    | Ev e => Some (Build_outs (nodup N.eq_dec (map (fun q => mstep q e) X)) [] [] [] [] [])
    | Seq a b =>
      match go a X with
      | None => None
      | Some Oa =>
        match go b (oN Oa) with
        | None => None
        | Some Ob => Some (Build_outs (oN Ob) (union (oB Oa) (oB Ob)) (union (oC Oa) (oC Ob))
                                      (union (oOk Oa) (oOk Ob)) (union (oErr Oa) (oErr Ob))
                                      (union (oUnk Oa) (oUnk Ob)))
        end
      end
    | Choice a b =>
      match go a X, go b X with
      | Some Oa, Some Ob => Some (o_union Oa Ob)
      | _, _ => None
      end
    | Loop b =>
      match loop_inv loop_fuel (go b) X with
      | None => None
      | Some (_, Ou) => Some (Build_outs (oB Ou) [] [] (oOk Ou) (oErr Ou) (oUnk Ou))
      end
    | Break => Some (Build_outs [] X [] [] [] [])
    | Continue => Some (Build_outs [] [] X [] [] [])
    | Return KOk => Some (Build_outs [] [] [] X [] [])
    | Return KErr => Some (Build_outs [] [] [] [] X [])
    | Return KUnk => Some (Build_outs [] [] [] [] [] X)
    | Finally b d =>
      match go b X with
      | None => None
      | Some Ob =>
        let f := fun Y => match go d Y with Some Od => Some (oN Od) | None => None end in
        match f (oN Ob), f (oOk Ob), f (oErr Ob), f (oUnk Ob) with
        | Some n, Some o, Some e, Some u => Some (Build_outs n (oB Ob) (oC Ob) o e u)
        | _, _, _, _ => None
        end
      end
    | Call f =>
      match fuel with
      | 0%nat => None
      | S fuel' =>
        match prog f with
        | None => None
        | Some body =>
          match post fuel' body X with
          | None => None
          | Some Ob => Some (Build_outs (union (oN Ob) (union (oOk Ob) (union (oErr Ob) (oUnk Ob)))) [] [] [] [] [])
          end
        end
      end
    | CallChk f serr sok =>
      match fuel with
      | 0%nat => None
      | S fuel' =>
        match prog f with
        | None => None
        | Some body =>
          match post fuel' body X with
          | None => None
          | Some Ob =>
            let Xerr := union (oN Ob) (union (oErr Ob) (oUnk Ob)) in
            let Xok := union (oN Ob) (union (oOk Ob) (oUnk Ob)) in
            match go serr Xerr, go sok Xok with
            | Some Oe, Some Oo => Some (o_union Oe Oo)
            | _, _ => None
            end
          end
        end
      end
    end
  in go s X.

End Skel.
