(* Event alphabet of the control skeleton emitted by goskel (DESIGN.md §2.1, M2). *)
From Coq Require Import List String Bool.
From STFS Require Import Skel.
Open Scope string_scope.

Inductive ev :=
| Lk (m : string)                 (* m.Lock() *)
| Ul (m : string)                 (* m.Unlock() *)
| Ext (callee site : string)      (* call to code outside the translated packages; may fail or succeed *)
| Cb (name site : string)         (* invocation of a func-typed parameter, field or local *)
| Res (callee : string) (ok : bool) (* branch taken after a checked call: ok = it reported success / true *)
| Tst (atom : string) (b : bool)  (* branch on a recognised atomic condition *)
| SetF (flag : string) (b : bool) (* assignment of a literal to a local bool flag *)
| Asg (lhs rhs : string)          (* write through a field selector or pointer *)
| Case (tag lab : string)         (* switch case taken *)
| RetErr (e : string)             (* return of a named error value *)
| RetNil                          (* explicit nil error result *)
| RetTailOk (callee : string)     (* `return f(...)` and f succeeded *)
| Spawn (f : string)              (* go f() *)
| Panic (site : string)
| Enter (f : string)             (* a translated function's body starts *)
| Leave (f : string).            (* ... and ends (on every exit) *)

Notation SK := (Skip ev string).
Notation BR := (Break ev string).
Notation CT := (Continue ev string).
Notation RT := (Return ev string).
Notation EV := (Ev string).
Notation stm := (stmt ev string).
Notation CL := (@Call ev string).
