(* Generic monitor check over a skeleton program and its soundness corollary
   (DESIGN.md §2.1: `check_sound`). *)
From Coq Require Import List Bool NArith String.
Import ListNotations.
From STFS Require Import Skel Sound Events.
Open Scope string_scope.

Fixpoint lookup {A} (k : string) (l : list (string * A)) : option A :=
  match l with [] => None | (k', v) :: r => if String.eqb k k' then Some v else lookup k r end.

(* Hand-written primitives for the drive manager (pkg/tape/manager.go), see DESIGN §2.1:
   GetWriter/GetReader take the drive lock and may then fail; Close releases it. *)
Definition prim_get_leaky : stm := Seq (EV (Lk "drive")) (Choice (RT KOk) (RT KErr)).
Definition prim_get : stm :=
  Seq (EV (Lk "drive")) (Choice (RT KOk) (Seq (EV (Ul "drive")) (RT KErr))).
Definition prim_get_writer : stm := Seq (EV (Ext "prim.GetWriter" "prim")) prim_get.
Definition prim_close_leaky : stm := Choice (Seq (EV (Ul "drive")) (RT KOk)) (RT KErr).
Definition prim_close : stm := Seq (EV (Ul "drive")) (Choice (RT KOk) (RT KErr)).
Definition ext_any : stm := Choice (RT KOk) (RT KErr).

Section Prog.
  Variable table : list (string * stm).
  Variable prims : list (string * stm).
  (* functions of the translated packages are looked up in the table; unknown
     callees (none are expected) behave like external calls *)
  Definition prog (f : string) : option stm :=
    match lookup f prims with
    | Some b => Some b
    | None => match lookup f table with Some b => Some b | None => Some ext_any end
    end.

  Variable mstep : N -> ev -> N.
  Variable fuel lfuel : nat.

  Definition exits_ok (ok : exit -> N -> bool) (Ou : outs) : bool :=
    forallb (ok XN) (oN Ou) && forallb (ok (XR KOk)) (oOk Ou) &&
    forallb (ok (XR KErr)) (oErr Ou) && forallb (ok (XR KUnk)) (oUnk Ou).

  Definition check_body (ok : exit -> N -> bool) (q0 : N) (body : stm) : bool :=
    match post prog mstep lfuel fuel body [q0] with
    | None => false
    | Some Ou => exits_ok ok Ou
    end.

  Definition check (ok : exit -> N -> bool) (q0 : N) (f : string) : bool :=
    match lookup f table with
    | None => false
    | Some body => check_body ok q0 body
    end.

  Lemma forallb_In {A} (p : A -> bool) l x : forallb p l = true -> In x l -> p x = true.
  Proof. intros H Hx. rewrite forallb_forall in H. exact (H x Hx). Qed.

  Theorem check_body_sound ok q0 body :
    check_body ok q0 body = true ->
    forall t x, exec prog body t x -> is_fn_exit x = true -> ok x (mrun mstep q0 t) = true.
  Proof.
    unfold check_body. destruct (post prog mstep lfuel fuel body [q0]) as [Ou|] eqn:Hp; [|discriminate].
    intros Hok t x Hex Hfx.
    pose proof (@post_sound _ _ prog mstep lfuel fuel body) as Hs. unfold sound_at in Hs.
    pose proof (Hs [q0] Ou Hp t x Hex q0 (or_introl eq_refl)) as Hin. clear Hs.
    unfold exits_ok in Hok.
    apply andb_true_iff in Hok as [Hok Hu]. apply andb_true_iff in Hok as [Hok He].
    apply andb_true_iff in Hok as [Hn Ho].
    destruct x as [| | |[]]; cbn in Hfx; try discriminate; cbn in Hin.
    - exact (forallb_In _ _ _ Hn Hin).
    - exact (forallb_In _ _ _ Ho Hin).
    - exact (forallb_In _ _ _ He Hin).
    - exact (forallb_In _ _ _ Hu Hin).
  Qed.

  Theorem check_sound ok q0 f :
    check ok q0 f = true ->
    exists body, lookup f table = Some body /\
      forall t x, exec prog body t x -> is_fn_exit x = true -> ok x (mrun mstep q0 t) = true.
  Proof.
    unfold check. destruct (lookup f table) as [body|]; [|discriminate].
    intro H. exists body. split; [reflexivity|]. exact (check_body_sound ok q0 body H).
  Qed.
End Prog.

(* every loop of a statement has a way out (a Break or a Return inside it), so that a
   path which reached an error state can be completed; see DESIGN §2.7 *)
Fixpoint has_exit (s : stm) : bool :=
  match s with
  | Break _ _ | Return _ _ _ => true
  | Seq a b | Choice a b => has_exit a || has_exit b
  | Finally a _ => has_exit a
  | CallChk _ a b => has_exit a || has_exit b
  | Loop _ => false  (* a Break inside a nested loop leaves only that loop *)
  | _ => false
  end.
Fixpoint has_return (s : stm) : bool :=
  match s with
  | Return _ _ _ => true
  | Seq a b | Choice a b | CallChk _ a b => has_return a || has_return b
  | Finally a _ => has_return a
  | Loop a => has_return a
  | _ => false
  end.
Fixpoint loops_exit (s : stm) : bool :=
  match s with
  | Loop b => (has_exit b || has_return b) && loops_exit b
  | Seq a b | Choice a b | Finally a b | CallChk _ a b => loops_exit a && loops_exit b
  | _ => true
  end.
