(* C15 — a read-only filesystem never changes the tape or the index: MODEL half (Props/C15.v has the control-flow half).
   Over the executable model M1 (Model/Fs.v [step], Model/File.v [hstep]), for ALL states and ALL histories; proofs in Proofs/T15*.v.

   Vocabulary (Proofs/T15Def.v):  [ro c] = [c_readonly c = true];  [set_ro c b], [wr c] = the same configuration with the switch set;
   [mutator k] = Mkdir MkdirAll Remove RemoveAll Rename Chmod Chown Chtimes Create;  [ro_call k] = every call except the three
   operation-level calls CUpdate / CDelete / CMove, whose model does not look at the switch (a read-only filesystem is constructed
   without a writer for them; see [C15_counter_operations]); [fs_call k] (Model/Norm.v) implies [ro_call k];
   [cachefill p p'] = same rows, and nothing at all changes once a root is cached: the only fields a read can touch are the cache
   fields [root] and [root_empty] of the index state;  [frame s s'] = tape, oracle queues, clock equal and [cachefill] on the index. *)
From Coq Require Import String List NArith ZArith Bool.
Import ListNotations.
From STFS Require Import Str Db Tape Index Ops Fs File Diff Norm.
From STFS Require Import C01Fs2 C01Rows.
From STFS Require Import T15Def T15Db T15Step T15Hist T15Ceq T15View T15Reads T15Handle T15Reach T15Counter.
Open Scope N_scope.

(* ================================================================ A. one call, EVERY state *)
Theorem C15_step_tape : forall c s k, ro c -> fs_call k = true -> tp (fst (step c s k)) = tp s.
Proof. exact T15_step_tape. Qed.
Theorem C15_step_tape_ro_call : forall c s k, ro c -> ro_call k = true ->
  let s' := fst (step c s k) in tp s' = tp s /\ hbq s' = hbq s /\ encq s' = encq s /\ clk s' = clk s.
Proof. exact T15_step_env. Qed.
Theorem C15_step_rows : forall c s k, ro c -> fs_call k = true -> is_init k = false ->
  rows (db (fst (step c s k))) = rows (db s).
Proof. exact T15_step_rows. Qed.
(* what a call other than CInitialize can change at all: the two cache fields of the index state *)
Theorem C15_step_only_cache : forall c s k, ro c -> ro_call k = true -> is_init k = false ->
  let s' := fst (step c s k) in
  s' = set_db s {| rows := rows (db s); root := root (db s'); root_empty := root_empty (db s') |}.
Proof. exact T15_step_only_cache. Qed.
(* ... and nothing once the root is cached (every call but CInitialize and CReopen) *)
Theorem C15_step_frame : forall c s k, ro c -> ro_call k = true -> is_init k = false -> is_reopen k = false ->
  frame s (fst (step c s k)).
Proof. exact T15_step_frame. Qed.
Theorem C15_step_nothing_when_root_cached : forall c s k, ro c -> ro_call k = true -> is_init k = false -> is_reopen k = false ->
  root (db s) <> [] -> fst (step c s k) = s.
Proof. intros c s k R C I O N. apply frame_eq_root; [apply T15_step_frame; assumption|exact N]. Qed.

(* the nine mutators: permission error, and the WHOLE state is the one they were given *)
Theorem C15_mutators_perm : forall c s k, ro c -> mutator k = true -> step c s k = (s, OPerm).
Proof. exact T15_mutator_id. Qed.
Theorem C15_archive_refused : forall c s fs, ro c -> step c s (CArchive fs) = (s, OOther 40).
Proof. exact T15_archive_refused. Qed.

(* OpenFile with ANY flag word, then a write, then Close: the exact table.  The flag word and the permission argument play no role;
   O_CREATE on a missing name answers ONotExist; the write answers OPerm on a non-directory and OIsDir on a directory;
   an empty unforced write (no Write call) is OpenFile + Close and succeeds *)
Theorem C15_writefile_table : forall c s n o perm d force, ro c -> n <> [] ->
  step c s (CWriteFile n o perm d force) =
    match stat_s s (path_clean n) false with
    | (s1, Ok h) => (s1, if empty_write d force then OOk else if h_tf h =? TypeDir then OIsDir else OPerm)
    | (s1, NoRows) =>
      match stat_s s1 (path_clean n) true with
      | (s2, NoRows) => (s2, ONotExist)
      | (s2, Ok _) => (s2, OOther E_unmodelled)
      | (s2, e) => (s2, outc_of_res e)
      end
    | (s1, e) => (s1, outc_of_res e)
    end.
Proof. exact T15_writefile_table. Qed.
Theorem C15_writefile_flags_irrelevant : forall c s n o perm o' perm' d force, ro c ->
  step c s (CWriteFile n o perm d force) = step c s (CWriteFile n o' perm' d force).
Proof. exact T15_writefile_flags_irrelevant. Qed.
Theorem C15_writefile_never_ok : forall c s n o perm d force, ro c -> empty_write d force = false ->
  snd (step c s (CWriteFile n o perm d force)) <> OOk.
Proof. exact T15_writefile_never_ok. Qed.
Theorem C15_openfile_ro : forall c s n o perm, ro c -> n <> [] ->
  fs_openfile c s n o perm =
    match stat_s s (path_clean n) false with
    | (s1, Ok h) => (s1, OOk, Some (ro_handle o h))      (* fl_write = fl_append = fl_trunc = false, no buffer *)
    | (s1, NoRows) =>
      match stat_s s1 (path_clean n) true with
      | (s2, NoRows) => (s2, ONotExist, None)
      | (s2, Ok _) => (s2, OOther E_unmodelled, None)
      | (s2, e) => (s2, outc_of_res e, None)
      end
    | (s1, e) => (s1, outc_of_res e, None)
    end.
Proof. exact T15_openfile_ro. Qed.

(* Initialize never writes: the index is kept when it has a root; with an empty tape it fails with OPerm; otherwise the index is
   the one recovery.Index builds from the (unchanged) tape *)
Theorem C15_initialize : forall c s r, ro c ->
  let s' := fst (fs_initialize c s r) in
  tp s' = tp s /\ hbq s' = hbq s /\ encq s' = encq s /\ clk s' = clk s /\
  (has_root (db s) -> cachefill (db s) (db s') /\ snd (fs_initialize c s r) = OOk) /\
  (~ has_root (db s) -> tp s = [] -> s' = s /\ snd (fs_initialize c s r) = OPerm) /\
  (~ has_root (db s) -> tp s <> [] ->
     cachefill (fst (rebuild c (tp s))) (db s') /\
     snd (fs_initialize c s r) =
       if (match snd (get_root_path (fst (rebuild c (tp s)))) with Some _ => true | None => false end) then OOk
       else match snd (rebuild c (tp s)) with Ok _ => OOther 30 | _ => OPerm end).
Proof. exact T15_initialize. Qed.
Theorem C15_has_root_iff : forall p, ~ has_root p <-> root p = [] /\ filter live (rows p) = [].
Proof. intro p. unfold has_root. rewrite <- get_root_path_none. destruct (snd (get_root_path p)); split; intro H; try congruence; exfalso; apply H; congruence. Qed.

(* ================================================================ B. histories *)
(* no CInitialize, or an index with a live row: tape and rows after EVERY call are the initial ones; every mutator got OPerm *)
Theorem C15_history : forall c, ro c -> forall h s, ro_hist h -> (init_free h \/ has_live (db s)) ->
  tp (final c s h) = tp s /\ rows (db (final c s h)) = rows (db s) /\ Forall2 (ob_ok s) h (run c s h).
Proof. exact T15_history. Qed.
Theorem C15_history_fs_calls : forall c s h, ro c -> Forall (fun ke => fs_call (fst ke) = true) h -> (init_free h \/ has_live (db s)) ->
  tp (final c s h) = tp s /\ rows (db (final c s h)) = rows (db s) /\ Forall2 (ob_ok s) h (run c s h).
Proof. exact T15_history_fs. Qed.
(* CInitialize anywhere, any state: the tape never changes; the rows are the initial ones or those of the index built from that tape *)
Theorem C15_history_any : forall c, ro c -> forall h s, ro_hist h ->
  tp (final c s h) = tp s /\
  (rows (db (final c s h)) = rows (db s) \/ rows (db (final c s h)) = rows (fst (rebuild c (tp s)))) /\
  Forall2 (fun ke ob => ob_blocks ob = tape_blocks (tp s)
                        /\ (ob_rows ob = rows (db s) \/ ob_rows ob = rows (fst (rebuild c (tp s))))
                        /\ (mutator (fst ke) = true -> ob_out ob = OPerm)) h (run c s h).
Proof. exact T15_history_any. Qed.

(* ================================================================ C. reads *)
(* no read consults the switch *)
Theorem C15_view_as_writable : forall c s, view (wr c) s = view c s.
Proof. exact T15_view_wr. Qed.
Theorem C15_read_path_as_writable : forall c b s path, read_path (set_ro c b) s path = read_path c s path.
Proof. exact T15_read_path_set_ro. Qed.
(* stat_s, inv_stat, inv_list, get_direct_children take no configuration at all *)
Theorem C15_openfile_rdonly_as_writable : forall c b s n o perm, plain_rdonly o ->
  fs_openfile (set_ro c b) s n o perm = fs_openfile c s n o perm.
Proof. exact T15_openfile_rdonly_set_ro. Qed.

(* after any read-only history the visible tree (the walk with contents) is the initial one, at every step, and it is the tree a
   writable instance over the same data shows.  [opened]: the cached root is the one Open() computes; see [C15_counter_unopened] *)
Theorem C15_view_history : forall c s h, ro c -> ro_hist h -> opened (db s) -> (init_free h \/ has_live (db s)) ->
  view c (final c s h) = view c s /\ Forall (fun ob => ob_view ob = sort_entries (view c s)) (run c s h).
Proof. exact T15_view_history. Qed.
Theorem C15_view_history_wr : forall c s h, ro c -> ro_hist h -> opened (db s) -> (init_free h \/ has_live (db s)) ->
  view c (final c s h) = view (wr c) s.
Proof. exact T15_view_history_wr. Qed.
(* ... and so does every single read: Stat / Lstat, Readdir, content, OpenFile (outcome and handle) *)
Theorem C15_reads_history : forall c s h, ro c -> ro_hist h -> opened (db s) -> has_live (db s) ->
  let s' := final c s h in
  (forall n sym, snd (stat_s s' n sym) = snd (stat_s s n sym)) /\
  (forall n lim, snd (inv_list (db s') n lim) = snd (inv_list (db s) n lim)) /\
  (forall path, snd (read_path c s' path) = snd (read_path c s path)) /\
  (forall n o perm, snd (fst (fs_openfile c s' n o perm)) = snd (fst (fs_openfile c s n o perm))
                    /\ snd (fs_openfile c s' n o perm) = snd (fs_openfile c s n o perm)) /\
  view c s' = view c s.
Proof. exact T15_reads_history. Qed.

(* ================================================================ D. handles *)
(* the handle machine of Model/File.v has no access to tape or index; on the handle of a read-only instance (any flag word):
   every Write / WriteAt / Truncate is refused, no buffer ever appears, Close has nothing to flush *)
Theorem C15_ro_handle_ops : forall c o existing ops, ro c ->
  let '(h, rs) := hrun (h_open existing (decode_flags c o)) ops in
  Forall2 (fun op r => is_wop op = true -> r = RErr) ops rs /\ h_close h = existing /\ hs_buf h = None.
Proof. exact T15_ro_handle_ops. Qed.
(* reads, seeks and stats answer what the O_RDONLY handle of the writable twin answers (whatever the other bits) *)
Theorem C15_rdonly_handle_as_writable : forall c o existing ops, ro c -> o_acc o = 0 ->
  snd (hrun (h_open existing (decode_flags c o)) ops) = snd (hrun (h_open existing (decode_flags (wr c) o)) ops)
  /\ h_close (fst (hrun (h_open existing (decode_flags c o)) ops)) = h_close (fst (hrun (h_open existing (decode_flags (wr c) o)) ops)).
Proof. exact T15_rdonly_handle_as_writable. Qed.
(* the whole-file handle calls of Model/Fs.v on a handle without write flag, for ANY configuration and state *)
Theorem C15_handle_write_refused : forall c s hd d, fl_write (hd_flags hd) = false ->
  handle_write_all c s hd d = (s, if h_tf (hd_info hd) =? TypeDir then OIsDir else OPerm, None).
Proof. exact T15_handle_write_refused. Qed.
Theorem C15_handle_close_nobuf : forall c s hd, hd_buf hd = None -> handle_close c s hd (hd_buf hd) = (s, OOk).
Proof. exact T15_handle_close_nobuf. Qed.

(* ================================================================ counterexamples kept compiled (Proofs/T15Counter.v) *)
Definition C15_counter_unopened := T15_counter_unopened.
Definition C15_counter_operations := T15_counter_operations.
Definition C15_counter_openfile_bits := T15_counter_openfile_bits.
Definition C15_write_on_directory := T15_write_on_directory.
Definition C15_initialize_builds_index := T15_initialize_builds_index.

(* ================================================================ the hypotheses hold on concrete populated states *)
Lemma forallb_Forall {A} (f : A -> bool) l : forallb f l = true -> Forall (fun x => f x = true) l.
Proof. intro H. apply Forall_forall. apply forallb_forall. exact H. Qed.
Lemma forallb_Forall_neg {A} (f : A -> bool) l : forallb (fun x => negb (f x)) l = true -> Forall (fun x => f x = false) l.
Proof. intro H. apply Forall_forall. intros x I. rewrite forallb_forall in H. specialize (H x I). destruct (f x); [discriminate|reflexivity]. Qed.

(* a read-only history mixing every kind of call: reads, every mutator, OpenFile with write flags + write, Reopen, Initialize, Archive *)
Definition ro_hist_demo : list (call * env) :=
  [(CWriteFile (s "/a/f") rd 0 [] false, e0 10); (CMkdir (s "/x") 493, e0 11); (CMkdirAll (s "/x/y") 493, e0 11);
   (CWriteFile (s "/a/f") rw 420 [(9, 0, 3)] false, e0 12); (CReopen, e0 13); (CInitialize (s "/"), e0 14);
   (CWriteFile (s "/nope") rw 420 [(9, 0, 3)] false, e0 15); (CRemoveAll (s "/"), e0 16); (CRemove (s "/b"), e0 16);
   (CRename (s "/a") (s "/z"), e0 17); (CChmod (s "/b") 256, e0 18); (CChown (s "/b") 1 1, e0 18); (CChtimes (s "/b") 5 5, e0 18);
   (CCreateFile (s "/b") [(4, 0, 9)], e0 19); (CWriteFile (s "/a") rw 420 [] true, e0 20); (CNop, e0 21)].

Example C15_hyps_s1 :
  ro rcfg /\ Forall (fun ke => fs_call (fst ke) = true) ro_hist_demo /\ ro_hist ro_hist_demo /\ opened (db s1) /\ has_live (db s1)
  /\ List.length (view rcfg s1) = 4%nat /\ List.length (tp s1) = 16%nat.
Proof.
  split; [reflexivity|]. split; [apply forallb_Forall; vm_compute; reflexivity|]. split; [apply (forallb_Forall (fun ke => ro_call (fst ke))); vm_compute; reflexivity|].
  split; [unfold opened; vm_compute; reflexivity|]. split; [unfold has_live; vm_compute; discriminate|]. vm_compute. split; reflexivity.
Qed.

(* instances of the theorems on it, and the same facts recomputed by vm_compute (a test of the statements) *)
Example C15_demo_history :
  tp (final rcfg s1 ro_hist_demo) = tp s1 /\ rows (db (final rcfg s1 ro_hist_demo)) = rows (db s1)
  /\ view rcfg (final rcfg s1 ro_hist_demo) = view wcfg s1.
Proof.
  destruct C15_hyps_s1 as (R & _ & H & O & L & _).
  destruct (C15_history rcfg R ro_hist_demo s1 H (or_intror L)) as (A & B & _).
  split; [exact A|]. split; [exact B|]. exact (C15_view_history_wr rcfg s1 ro_hist_demo R H O (or_intror L)).
Qed.
Example C15_demo_outcomes :
  map ob_out (run rcfg s1 ro_hist_demo) =
    [OOk; OPerm; OPerm; OPerm; OOk; OOk; ONotExist; OPerm; OPerm; OPerm; OPerm; OPerm; OPerm; OPerm; OIsDir; OOk]
  /\ eqb_list eqb_entry (view rcfg (final rcfg s1 ro_hist_demo)) (view wcfg s1) = true.
Proof. vm_compute. split; reflexivity. Qed.

(* a foreign "./"-style archive (stored root ""), opened read-only with an empty index: the first Initialize builds the index,
   afterwards the hypotheses of the history theorems hold and the tree stays *)
Definition fh (n : string) (tf sz : N) : hdr :=
  {| h_tf := tf; h_name := s n; h_link := []; h_size := sz; h_mode := 420; h_uid := 1000; h_gid := 1000; h_uname := s "u"; h_gname := s "g";
     h_mtime := 1500000000%Z; h_atime := 0%Z; h_ctime := 0%Z; h_pax := [] |}.
Definition ftape : tape :=
  [TM {| m_hdr := fh "./" 53 0; m_hb := 1; m_data := None; m_enc := 0 |};
   TM {| m_hdr := fh "./d/" 53 0; m_hb := 1; m_data := None; m_enc := 0 |};
   TM {| m_hdr := fh "./d/f" 48 700; m_hb := 1; m_data := Some [(1, 0, 700)]; m_enc := 700 |};
   TM {| m_hdr := fh "./g" 48 10; m_hb := 1; m_data := Some [(2, 0, 10)]; m_enc := 10 |}; TT].
Definition fsys0 : sys := {| tp := ftape; db := p_empty; hbq := []; encq := []; clk := 0%Z |}.
Definition fsys1 : sys := fst (step rcfg fsys0 (CInitialize (s "/"))).
Definition f_hist : list (call * env) := (CWriteFile (s "/d/f") rd 0 [] false, e0 9) :: (CWriteFile (s "/g") rw 0 [(3, 0, 1)] false, e0 9) :: ro_hist_demo.

Example C15_hyps_foreign :
  ~ has_root (db fsys0) /\ tp fsys0 <> [] /\ tp fsys1 = ftape /\ rows (db fsys1) = rows (fst (rebuild rcfg ftape)) /\
  root (db fsys1) = [] /\ opened (db fsys1) /\ has_live (db fsys1) /\ ro_hist f_hist /\ List.length (view rcfg fsys1) = 4%nat.
Proof.
  split; [unfold has_root; vm_compute; intro H; apply H; reflexivity|]. split; [discriminate|].
  split; [vm_compute; reflexivity|]. split; [vm_compute; reflexivity|]. split; [vm_compute; reflexivity|].
  split; [unfold opened; vm_compute; reflexivity|]. split; [unfold has_live; vm_compute; discriminate|].
  split; [apply (forallb_Forall (fun ke => ro_call (fst ke))); vm_compute; reflexivity|]. vm_compute. reflexivity.
Qed.
Example C15_demo_foreign :
  tp (final rcfg fsys1 f_hist) = ftape /\ rows (db (final rcfg fsys1 f_hist)) = rows (db fsys1)
  /\ view rcfg (final rcfg fsys1 f_hist) = view wcfg fsys1
  /\ root_empty (db fsys1) = false /\ root_empty (db (final rcfg fsys1 f_hist)) = true.   (* the cache field that did change *)
Proof.
  destruct C15_hyps_foreign as (_ & _ & T & _ & _ & O & L & H & _).
  destruct (C15_history rcfg eq_refl f_hist fsys1 H (or_intror L)) as (A & B & _).
  split; [rewrite A; exact T|]. split; [exact B|]. split; [exact (C15_view_history_wr rcfg fsys1 f_hist eq_refl H O (or_intror L))|].
  vm_compute. split; reflexivity.
Qed.
(* whole history from the empty index, Initialize included: [C15_history_any] *)
Example C15_demo_foreign_any :
  let h := (CInitialize (s "/"), e0 1) :: f_hist in
  tp (final rcfg fsys0 h) = ftape /\ rows (db (final rcfg fsys0 h)) = rows (fst (rebuild rcfg ftape)).
Proof.
  intro h. assert (H : ro_hist h) by (apply (forallb_Forall (fun ke => ro_call (fst ke))); vm_compute; reflexivity).
  destruct (C15_history_any rcfg eq_refl h fsys0 H) as (A & B & _). split; [exact A|].
  destruct B as [B|B]; [|exact B]. vm_compute. reflexivity.
Qed.

(* per-call statements on the populated state *)
Example C15_demo_step :
  step rcfg s1 (CRemoveAll (s "/")) = (s1, OPerm) /\
  fst (step rcfg s1 (CWriteFile (s "/a/f") rw 420 [(9, 0, 3)] true)) = s1 /\     (* root cached: nothing changes *)
  root (db s1) = s "/".
Proof.
  split; [apply C15_mutators_perm; reflexivity|]. split; [|vm_compute; reflexivity].
  apply C15_step_nothing_when_root_cached; try reflexivity. vm_compute. discriminate.
Qed.

(* handles: a handle of the read-only instance over 10 bytes, opened O_RDWR|O_APPEND|O_TRUNC *)
Definition demo_ops : list hop :=
  [HRead 3; HWrite [(7, 0, 2)]; HSeek 2%Z 1; HWriteAt [(7, 0, 2)] 0; HTruncate 0%Z; HReadAt 4 1; HSync; HStat; HRead 100].
Example C15_demo_handle :
  hrun (h_open [(5, 0, 10)] (decode_flags rcfg rw)) demo_ops =
    ({| hs_tape := [(5, 0, 10)]; hs_isize := 10; hs_rpos := Some 10; hs_buf := None; hs_fl := ro_flags rw |},
     [RData [(5, 0, 3)] false; RErr; ROff 5; RErr; RErr; RData [(5, 1, 4)] false; ROk; RSize 10; RData [(5, 5, 5)] false]).
Proof. vm_compute. reflexivity. Qed.

(* ================================================================ E. end to end: read-only over what the filesystem wrote *)
(* [opened] and [has_live] hold in every state a writable instance reaches from the empty system by Initialize "/" and fs-level calls
   that keep the root (C01 invariant; plain configuration, positive header block counts, as in C01) *)
Theorem C15_written_opened : forall c s, (0 < c_rs c) -> c_readonly c = false -> c_csuf c = [] -> c_esuf c = [] ->
  written c s -> opened (db s) /\ has_live (db s) /\ root (db s) = [slash].
Proof. exact written_opened. Qed.
(* a read-only instance over such a state, ANY history (CInitialize / CReopen anywhere, all mutators, OpenFile with any flags and
   writes): tape and index state (cache fields included) never change, every mutator got OPerm, the tree shown after every call is
   the tree the writable instance shows *)
Theorem C15_ro_over_written : forall c s h, (0 < c_rs c) -> c_readonly c = false -> c_csuf c = [] -> c_esuf c = [] ->
  written c s -> ro_hist h ->
  let c' := set_ro c true in
  tp (final c' s h) = tp s /\ db (final c' s h) = db s /\
  Forall2 (ob_ok s) h (run c' s h) /\
  view c' (final c' s h) = view c s /\
  Forall (fun ob => ob_view ob = sort_entries (view c s)) (run c' s h).
Proof. exact T15_ro_over_written. Qed.

Example C15_hyps_written : (0 < c_rs wcfg) /\ written wcfg s1.
Proof.
  split; [reflexivity|]. exists (e0 1), (tl whist). repeat split; vm_compute; reflexivity.
Qed.
Example C15_demo_written :
  tp (final rcfg s1 ro_hist_demo) = tp s1 /\ db (final rcfg s1 ro_hist_demo) = db s1
  /\ view rcfg (final rcfg s1 ro_hist_demo) = view wcfg s1.
Proof.
  destruct C15_hyps_written as [P W]. destruct C15_hyps_s1 as (_ & _ & H & _).
  destruct (C15_ro_over_written wcfg s1 ro_hist_demo P eq_refl eq_refl eq_refl W H) as (A & B & _ & D & _).
  split; [exact A|]. split; [exact B|exact D].
Qed.

Print Assumptions C15_step_tape.
Print Assumptions C15_step_rows.
Print Assumptions C15_step_only_cache.
Print Assumptions C15_mutators_perm.
Print Assumptions C15_writefile_table.
Print Assumptions C15_initialize.
Print Assumptions C15_history.
Print Assumptions C15_history_any.
Print Assumptions C15_view_history.
Print Assumptions C15_reads_history.
Print Assumptions C15_openfile_rdonly_as_writable.
Print Assumptions C15_ro_handle_ops.
Print Assumptions C15_rdonly_handle_as_writable.
Print Assumptions C15_demo_foreign.
Print Assumptions C15_ro_over_written.
