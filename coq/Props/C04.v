(* C04 — index positions designate the right tape records.
   Arithmetic core and stability (for ALL histories, any calls): positions are record starts with block < record size,
   last-known >= content position, and a position keeps designating the same record under every later history.
   Content (Proofs/T04*.v, for every history of filesystem-level calls: plain configuration, root not removed/renamed
   onto): the position stored for a live regular entry designates a content-carrying record of that entry whose size
   field is the entry's size and whose data is what was last written to that entry (C04_positions_designate_content);
   what a read returns for any name is what the reference says was last written there, after any such history
   (C04_read_is_last_written), also as shown by the walk (C04_walk_shows_last_written).  DESIGN.md section 8. *)
From Coq Require Import List NArith ZArith Bool.
Import ListNotations.
From STFS Require Import Str Db Tape Index Ops Fs Diff File TapeLemmas Append C04Inv C01Str C01Sim T02Ns T02Spec T04Def T04Content T04View T02wNs T02wSpec T02wHist.
Open Scope N_scope.

(* (record, block) computed by the indexer from a block offset: block < record size, and the
   reader's seek formula rs*record+block gets back to exactly that block, for every record size >= 1 *)
Theorem C04_pos_arith : forall rs off, 0 < rs ->
  snd (pos_of rs off) < rs /\ off_of rs (fst (pos_of rs off)) (snd (pos_of rs off)) = off.
Proof. intros rs off H. split; [apply pos_of_blk_lt|apply pos_of_roundtrip]; exact H. Qed.

Theorem C04_pos_unique : forall rs q1 b1 q2 b2, 0 < rs -> b1 < rs -> b2 < rs ->
  off_of rs q1 b1 = off_of rs q2 b2 -> q1 = q2 /\ b1 = b2.
Proof. exact off_of_inj. Qed.

(* the two guard branches of index.go (block < 0, block >= record size) can never be taken *)
Theorem C04_branches_dead : forall rs total, 0 < rs -> total - (total / rs) * rs < rs.
Proof. intros rs total H. exact (index_go_branches_dead rs total H). Qed.

(* a position that designated a record keeps designating it, whatever is called next *)
Theorem C04_positions_stable : forall c h s off m,
  member_at (tp s) off = Some m -> member_at (tp (final c s h)) off = Some m.
Proof.
  intros c h s off m H. destruct (final_extends c h s) as [suf ->]. apply member_at_app. exact H.
Qed.

(* for EVERY history of calls (successful or failing, any environment): every row of the index, live or
   tombstoned, has block components below the record size, its content position and its last-known
   position are starts of records on the tape, and the last-known position is never before the
   content position *)
Theorem C04_positions_wf : forall c h, 0 < c_rs c ->
  forall r, In r (rows (db (final c init_sys h))) ->
    r_blk r < c_rs c /\ r_lkblk r < c_rs c /\
    (exists m, member_at (tp (final c init_sys h)) (off_of (c_rs c) (r_rec r) (r_blk r)) = Some m) /\
    (exists m, member_at (tp (final c init_sys h)) (off_of (c_rs c) (r_lkrec r) (r_lkblk r)) = Some m).
Proof. intros c h H. exact (C04_pos_wf_reachable c h H). Qed.

Theorem C04_lastknown_not_before_content : forall c h, 0 < c_rs c ->
  forall r, In r (rows (db (final c init_sys h))) ->
    off_of (c_rs c) (r_rec r) (r_blk r) <= off_of (c_rs c) (r_lkrec r) (r_lkblk r).
Proof. intros c h H. exact (C04_pos_ord_reachable c h H). Qed.

Theorem C04_positions_designate_content : forall (c : cfg) (e0 : env) (r : list (call * env)),
  plain c -> 0 < c_rs c -> c_readonly c = false -> hb_env e0 -> ok_run4 true r ->
  let h := (CInitialize [slash], e0) :: r in
  forall x : row, In x (rows (db (final c init_sys h))) -> live x = true -> tf_regular (r_tf x) = true ->
  exists m : member,
    member_at (tp (final c init_sys h)) (off_of (c_rs c) (r_rec x) (r_blk x)) = Some m /\
    is_content_record m (r_size x) /\
    content_eq (Some (mdata m)) (last_written c init_sys h w_empty (r_name x)).
Proof. intros c e0 r HP Hrs Hro He Hok h. exact (proj2 (proj2 (T04_reachable c e0 r HP Hrs Hro He Hok))). Qed.

Theorem C04_read_is_last_written : forall (c : cfg) (e0 : env) (r : list (call * env)),
  plain c -> 0 < c_rs c -> c_readonly c = false -> hb_env e0 -> ok_run4 true r ->
  let h := (CInitialize [slash], e0) :: r in
  forall m : str, good m -> content_eq (content_of c (final c init_sys h) m) (last_written c init_sys h w_empty m).
Proof. intros c e0 r HP Hrs Hro He Hok h. exact (proj1 (proj2 (T04_reachable c e0 r HP Hrs Hro He Hok))). Qed.

Theorem C04_walk_shows_last_written : forall (c : cfg) (e0 : env) (r : list (call * env)),
  plain c -> 0 < c_rs c -> c_readonly c = false -> hb_env e0 -> ok_run4 true r ->
  let h := (CInitialize [slash], e0) :: r in
  forall e : entry, In e (view c (final c init_sys h)) ->
  content_eq (e_data e) (last_written c init_sys h w_empty (e_path e)).
Proof. exact T04_view_reachable. Qed.

(* one call: the created file reads back what was written, nobody else's content changes *)
Theorem C04_read_after_create : forall (hr : bool) (c : cfg), plain c -> 0 < c_rs c -> c_readonly c = false ->
  forall s e n d, Good4 hr c s -> hb_env e -> good n -> clen d < 10 ^ 40 ->
  let '(s', o) := step c (with_env s e) (CCreateFile n d) in
  Good4 hr c s' /\
  (forall m, good m -> m <> n -> content_of c s' m = content_of c s m) /\
  (o <> OOk -> content_of c s' n = content_of c s n) /\
  (o = OOk -> content_eq (content_of c s' n) (Some d) /\ ((d <> [] \/ content_of c s n = None) -> content_of c s' n = Some d)).
Proof. exact T04_create. Qed.

(* OpenFile with any flags + Write + Close: the content read back is the reference's overlay (truncate / append / overwrite
   from the start), nobody else's content changes; and over histories that contain such calls *)
Theorem C04_read_after_write_file : forall (hr : bool) (c : cfg), plain c -> 0 < c_rs c -> c_readonly c = false ->
  forall s e n o perm d force, Good4 hr c s -> hb_env e -> good n -> write_bound (abs s) n d ->
  let '(s', _) := step c (with_env s e) (CWriteFile n o perm d force) in
  Good4 hr c s' /\
  (forall m, good m -> m <> n -> content_of c s' m = content_of c s m) /\
  content_eq (content_of c s' n) (spec_content (abs s) n o d force (content_of c s n)).
Proof. exact T04_write_file. Qed.
Theorem C04_read_is_last_written_with_writes : forall (c : cfg) (e0 : env) (r : list (call * env)),
  plain c -> 0 < c_rs c -> c_readonly c = false -> hb_env e0 ->
  let s0 := fst (step c (with_env init_sys e0) (CInitialize [slash])) in
  ok_run4w true c s0 r ->
  Good4 true c (final c s0 r) /\
  (forall m, good m -> content_eq (content_of c (final c s0 r) m) (last_written_w c s0 r w_empty m)).
Proof. exact T04w_reachable. Qed.

Print Assumptions C04_positions_stable.
Print Assumptions C04_read_after_write_file.
Print Assumptions C04_read_is_last_written_with_writes.
Print Assumptions C04_positions_designate_content.
Print Assumptions C04_read_is_last_written.
Print Assumptions C04_walk_shows_last_written.
Print Assumptions C04_positions_wf.
Print Assumptions C04_lastknown_not_before_content.
