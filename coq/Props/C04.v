(* C04 — index positions designate the right tape records (arithmetic core and stability).
   DESIGN.md §3 C04. *)
From Coq Require Import List NArith ZArith Bool.
Import ListNotations.
From STFS Require Import Str Db Tape Index Ops Fs Diff TapeLemmas Append C04Inv.
Open Scope N_scope.

(* (record, block) computed by the indexer from a block offset: block < record size, and the
   reader's seek formula rs*record+block gets back to exactly that block, for every record size >= 1 *)
Theorem C04_pos_arith : forall rs off, 0 < rs ->
  snd (pos_of rs off) < rs /\ off_of rs (fst (pos_of rs off)) (snd (pos_of rs off)) = off.
Proof. intros rs off H. split; [apply pos_of_blk_lt|apply pos_of_roundtrip]; exact H. Qed.

Theorem C04_pos_unique : forall rs q1 b1 q2 b2, 0 < rs -> b1 < rs -> b2 < rs ->
  off_of rs q1 b1 = off_of rs q2 b2 -> q1 = q2 /\ b1 = b2.
Proof. exact off_of_inj. Qed.

(* the two guard branches of index.go (block < 0, block >= record size) can never be taken *)
Theorem C04_branches_dead : forall rs total, 0 < rs -> total - (total / rs) * rs < rs.
Proof. intros rs total H. exact (index_go_branches_dead rs total H). Qed.

(* a position that designated a record keeps designating it, whatever is called next *)
Theorem C04_positions_stable : forall c h s off m,
  member_at (tp s) off = Some m -> member_at (tp (final c s h)) off = Some m.
Proof.
  intros c h s off m H. destruct (final_extends c h s) as [suf ->]. apply member_at_app. exact H.
Qed.

(* for EVERY history of calls (successful or failing, any environment): every row of the index, live or
   tombstoned, has block components below the record size, its content position and its last-known
   position are starts of records on the tape, and the last-known position is never before the
   content position *)
Theorem C04_positions_wf : forall c h, 0 < c_rs c ->
  forall r, In r (rows (db (final c init_sys h))) ->
    r_blk r < c_rs c /\ r_lkblk r < c_rs c /\
    (exists m, member_at (tp (final c init_sys h)) (off_of (c_rs c) (r_rec r) (r_blk r)) = Some m) /\
    (exists m, member_at (tp (final c init_sys h)) (off_of (c_rs c) (r_lkrec r) (r_lkblk r)) = Some m).
Proof. intros c h H. exact (C04_pos_wf_reachable c h H). Qed.

Theorem C04_lastknown_not_before_content : forall c h, 0 < c_rs c ->
  forall r, In r (rows (db (final c init_sys h))) ->
    off_of (c_rs c) (r_rec r) (r_blk r) <= off_of (c_rs c) (r_lkrec r) (r_lkblk r).
Proof. intros c h H. exact (C04_pos_ord_reachable c h H). Qed.

Print Assumptions C04_positions_stable.
Print Assumptions C04_positions_wf.
Print Assumptions C04_lastknown_not_before_content.
