(* C14 — an open file behaves like a byte array with a cursor.
   Reference (FileSpec) and handle model are in Model/File.v; the model is tied to /repo by the
   correspondence run over handle-call sequences and the reference comparison is run side by side on
   the implementation.  The refinement theorem is in Proofs/C14Refine.v once proved (see DESIGN.md §3 C14);
   below: the reference's defining laws on a concrete sequence (a sanity test of the statement). *)
From Coq Require Import List NArith ZArith Bool.
Import ListNotations.
From STFS Require Import Str Db Tape Index Ops Fs File C14Refine.
Open Scope N_scope.

Definition rw : flags := {| fl_read := true; fl_write := true; fl_append := false; fl_trunc := false |}.
Definition demo_ops : list hop :=
  [HRead 3; HSeek 2%Z 1; HWrite [(2, 0, 4)]; HSeek (-1)%Z 2; HRead 5; HTruncate 20%Z; HStat; HSeek 0%Z 0; HRead 100].

Example C14_spec_demo :
  let '(h, rs) := hrun (h_open [(1, 0, 10)] rw) demo_ops in
  let '(s, rs') := spec_run (spec_open [(1, 0, 10)] rw) demo_ops in
  first_bad 0 rs rs' = None /\ ceqb (h_close h) (sp_data s) = true /\ clen (sp_data s) = 20.
Proof. vm_compute. repeat split; reflexivity. Qed.

(* THE THEOREM: every handle call returns what the byte-array reference returns, for EVERY call sequence (seeks beyond the
   end, positioned I/O, O_APPEND and O_TRUNC handles included), every initial content and every flag combination, and the
   content read after Close is the reference's data.  No envelope is left. *)
Theorem C14_handle_refines_bytearray_all : forall existing fl ops,
  let '(h, rs) := hrun (h_open existing fl) ops in
  let '(s, rs') := spec_run (spec_open existing fl) ops in
  results_agree rs rs' /\ ceqb (h_close h) (sp_data s) = true.
Proof. exact C14_refines_all. Qed.

(* ... with SYNTACTICALLY equal results and final piece list, outside one corner of the representation: a handle opened
   O_TRUNC for writing on a non-[] content all of whose pieces have length 0 (zero bytes either way) *)
Theorem C14_handle_refines_bytearray_all_eq : forall existing fl ops,
  no_empty_pieces_corner existing fl ->
  let '(h, rs) := hrun (h_open existing fl) ops in
  let '(s, rs') := spec_run (spec_open existing fl) ops in
  rs = rs' /\ h_close h = sp_data s.
Proof. exact C14_refines_all_eq. Qed.

(* ... in particular when the existing content does not end in zero-length pieces *)
Theorem C14_handle_refines_bytearray_eq : forall existing fl ops,
  notrail existing ->
  let '(h, rs) := hrun (h_open existing fl) ops in
  let '(s, rs') := spec_run (spec_open existing fl) ops in
  rs = rs' /\ h_close h = sp_data s.
Proof. exact C14_refines_eq. Qed.

(* the former statements inside an envelope (no seek beyond the end in read mode; later: no lost cursor when an O_TRUNC
   handle on an empty file enters write mode) have lost their hypotheses: the names stay *)
Theorem C14_handle_refines_bytearray : forall existing fl ops,
  let '(h, rs) := hrun (h_open existing fl) ops in
  let '(s, rs') := spec_run (spec_open existing fl) ops in
  results_agree rs rs' /\ ceqb (h_close h) (sp_data s) = true.
Proof. exact C14_refines. Qed.
Theorem C14_handle_refines_bytearray_wide : forall existing fl ops,
  let '(h, rs) := hrun (h_open existing fl) ops in
  let '(s, rs') := spec_run (spec_open existing fl) ops in
  results_agree rs rs' /\ ceqb (h_close h) (sp_data s) = true.
Proof. exact C14_refines_wide. Qed.

(* the decision procedure used in the examples below answers true on every input *)
Theorem C14_agree_b_always : forall existing fl ops, agree_b existing fl ops = true.
Proof. exact C14_agree_b_all. Qed.

(* a seek beyond the end in read mode used to lose the position (a former restriction; repaired in /repo: a read handle keeps
   its logical cursor behind the end of the stream); the former witnesses now agree *)
Theorem C14_seek_beyond_end_agrees :
  agree_b ten fl_ro [HSeek 20 0; HSeek 0 1] = true /\
  agree_b ten fl_rw [HTruncate (-1); HSeek 20 0; HSeek 0 1] = true /\
  agree_b ten fl_rwa [HSeek 20 0; HSeek 0 1] = true /\
  agree_b ten fl_ro [HSeek 20 0; HReadAt 2 3; HSeek 0 1] = true.
Proof. repeat split; apply seek_beyond_end_agrees. Qed.
(* ... and entering write mode from behind the end zero-fills the hole like the reference *)
Theorem C14_seek_beyond_end_then_write_agrees :
  agree_b ten fl_rw [HSeek 20 0; HWrite [(7, 0, 2)]; HSeek 0 1; HStat; HReadAt 40 0] = true /\
  h_close (fst (hrun (h_open ten fl_rw) [HSeek 20 0; HWrite [(7, 0, 2)]])) = [(5, 0, 10); (0, 0, 10); (7, 0, 2)].
Proof. split; apply seek_beyond_end_then_write_agrees. Qed.
(* an O_TRUNC handle on an empty file used to forget its cursor when entering write mode (the last restriction; repaired in
   /repo); the former witness now agrees: the data lands at the cursor behind a zero-filled hole *)
Theorem C14_trunc_on_empty_agrees :
  agree_b [] fl_rwt [HSeek 20 0; HWrite [(7, 0, 2)]] = true /\
  h_close (fst (hrun (h_open [] fl_rwt) [HSeek 20 0; HWrite [(7, 0, 2)]])) = [(0, 0, 20); (7, 0, 2)] /\
  agree_b [] fl_rwt [HSeek 20 0; HWriteAt [(7, 0, 2)] 3; HSeek 0 1] = true /\
  agree_b [] fl_rwt [HSeek 20 0; HTruncate 3; HSeek 0 1] = true.
Proof. vm_compute. repeat split; reflexivity. Qed.
(* ReadAt/WriteAt moving the cursor used to be a restriction (repaired in /repo); the former witnesses now agree *)
Theorem C14_readat_agrees : agree_b ten fl_ro [HReadAt 2 3; HRead 1] = true.
Proof. exact readat_agrees. Qed.
Theorem C14_writeat_agrees : agree_b ten fl_rw [HWriteAt [(7, 0, 2)] 0; HWrite [(8, 0, 1)]] = true.
Proof. exact writeat_agrees. Qed.
(* O_APPEND handles used to be a restriction too (repaired in /repo); the former witnesses now agree, and the theorems
   above no longer exclude O_APPEND *)
Theorem C14_append_agrees :
  agree_b ten fl_rwa [HWrite [(7, 0, 2)]; HSeek 0 0; HWrite [(8, 0, 1)]] = true /\
  agree_b ten fl_rwa [HWrite []; HRead 4] = true /\
  agree_b ten fl_rwa [HRead 3; HTruncate 5; HRead 2; HWrite [(7, 0, 2)]; HSeek 0 1] = true.
Proof. exact append_agrees. Qed.

Print Assumptions C14_handle_refines_bytearray_all.
Print Assumptions C14_handle_refines_bytearray_all_eq.
Print Assumptions C14_handle_refines_bytearray_eq.
Print Assumptions C14_handle_refines_bytearray.
Print Assumptions C14_handle_refines_bytearray_wide.
