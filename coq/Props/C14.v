(* C14 — an open file behaves like a byte array with a cursor.
   Reference (FileSpec) and handle model are in Model/File.v; the model is tied to /repo by the
   correspondence run over handle-call sequences and the reference comparison is run side by side on
   the implementation.  The refinement theorem is in Proofs/C14Refine.v once proved (see DESIGN.md §3 C14);
   below: the reference's defining laws on a concrete sequence (a sanity test of the statement). *)
From Coq Require Import List NArith ZArith Bool.
Import ListNotations.
From STFS Require Import Str Db Tape Index Ops Fs File.
Open Scope N_scope.

Definition rw : flags := {| fl_read := true; fl_write := true; fl_append := false; fl_trunc := false |}.
Definition demo_ops : list hop :=
  [HRead 3; HSeek 2%Z 1; HWrite [(2, 0, 4)]; HSeek (-1)%Z 2; HRead 5; HTruncate 20%Z; HStat; HSeek 0%Z 0; HRead 100].

Example C14_spec_demo :
  let '(h, rs) := hrun (h_open [(1, 0, 10)] rw) demo_ops in
  let '(s, rs') := spec_run (spec_open [(1, 0, 10)] rw) demo_ops in
  first_bad 0 rs rs' = None /\ ceqb (h_close h) (sp_data s) = true /\ clen (sp_data s) = 20.
Proof. vm_compute. repeat split; reflexivity. Qed.

Print Assumptions C14_spec_demo.
