(* C14 — an open file behaves like a byte array with a cursor.
   Reference (FileSpec) and handle model are in Model/File.v; the model is tied to /repo by the
   correspondence run over handle-call sequences and the reference comparison is run side by side on
   the implementation.  The refinement theorem is in Proofs/C14Refine.v once proved (see DESIGN.md §3 C14);
   below: the reference's defining laws on a concrete sequence (a sanity test of the statement). *)
From Coq Require Import List NArith ZArith Bool.
Import ListNotations.
From STFS Require Import Str Db Tape Index Ops Fs File C14Refine.
Open Scope N_scope.

Definition rw : flags := {| fl_read := true; fl_write := true; fl_append := false; fl_trunc := false |}.
Definition demo_ops : list hop :=
  [HRead 3; HSeek 2%Z 1; HWrite [(2, 0, 4)]; HSeek (-1)%Z 2; HRead 5; HTruncate 20%Z; HStat; HSeek 0%Z 0; HRead 100].

Example C14_spec_demo :
  let '(h, rs) := hrun (h_open [(1, 0, 10)] rw) demo_ops in
  let '(s, rs') := spec_run (spec_open [(1, 0, 10)] rw) demo_ops in
  first_bad 0 rs rs' = None /\ ceqb (h_close h) (sp_data s) = true /\ clen (sp_data s) = 20.
Proof. vm_compute. repeat split; reflexivity. Qed.

(* THE THEOREM: inside the envelope (seeks not beyond the end of the data; everything else, positioned I/O and
   O_APPEND handles included, is unrestricted) every handle call returns what the byte-array reference returns,
   for every initial content, flag combination and call sequence, and the content read after Close is the
   reference's data. *)
Theorem C14_handle_refines_bytearray : forall existing fl ops,
  ops_ok (spec_open existing fl) ops = true ->
  let '(h, rs) := hrun (h_open existing fl) ops in
  let '(s, rs') := spec_run (spec_open existing fl) ops in
  results_agree rs rs' /\ ceqb (h_close h) (sp_data s) = true.
Proof. exact C14_refines. Qed.

(* the same under the wider envelope: any seek once the handle is in write mode; refused seeks anywhere *)
Theorem C14_handle_refines_bytearray_wide : forall existing fl ops,
  ops_ok' (wm_open existing fl) (spec_open existing fl) ops = true ->
  let '(h, rs) := hrun (h_open existing fl) ops in
  let '(s, rs') := spec_run (spec_open existing fl) ops in
  results_agree rs rs' /\ ceqb (h_close h) (sp_data s) = true.
Proof. exact C14_refines_wide. Qed.

(* ... with syntactically equal results and final piece list when the existing content does not end in zero-length pieces *)
Theorem C14_handle_refines_bytearray_eq : forall existing fl ops,
  notrail existing ->
  ops_ok' (wm_open existing fl) (spec_open existing fl) ops = true ->
  let '(h, rs) := hrun (h_open existing fl) ops in
  let '(s, rs') := spec_run (spec_open existing fl) ops in
  rs = rs' /\ h_close h = sp_data s.
Proof. exact C14_refines_eq. Qed.

(* the remaining envelope restriction is necessary: the known finding as a refutation witness *)
Theorem C14_seek_beyond_end_refuted : agree_b ten fl_ro [HSeek 20 0; HSeek 0 1] = false.
Proof. exact needs_seek_bound. Qed.
(* ReadAt/WriteAt moving the cursor used to be a second restriction (repaired in /repo); the former witnesses now agree
   and are inside the envelope *)
Theorem C14_readat_agrees :
  agree_b ten fl_ro [HReadAt 2 3; HRead 1] = true /\ ops_ok (spec_open ten fl_ro) [HReadAt 2 3; HRead 1] = true.
Proof. exact readat_agrees. Qed.
Theorem C14_writeat_agrees :
  agree_b ten fl_rw [HWriteAt [(7, 0, 2)] 0; HWrite [(8, 0, 1)]] = true /\
  ops_ok (spec_open ten fl_rw) [HWriteAt [(7, 0, 2)] 0; HWrite [(8, 0, 1)]] = true.
Proof. exact writeat_agrees. Qed.
(* O_APPEND handles used to be a third restriction (repaired in /repo); the former witnesses now agree, and the theorems
   above no longer exclude O_APPEND *)
Theorem C14_append_agrees :
  agree_b ten fl_rwa [HWrite [(7, 0, 2)]; HSeek 0 0; HWrite [(8, 0, 1)]] = true /\
  agree_b ten fl_rwa [HWrite []; HRead 4] = true /\
  agree_b ten fl_rwa [HRead 3; HTruncate 5; HRead 2; HWrite [(7, 0, 2)]; HSeek 0 1] = true.
Proof. exact append_agrees. Qed.

Print Assumptions C14_handle_refines_bytearray.
Print Assumptions C14_handle_refines_bytearray_wide.
Print Assumptions C14_handle_refines_bytearray_eq.
