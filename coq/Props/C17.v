(* C17 — foreign tar archives open as filesystems; path spellings are interchangeable.
   sanitize = getSanitizedPath with its root shapes.  The rows an index rebuilt from a foreign archive
   gets (names under every root style, positions) are tied to /repo by the correspondence run over
   archives written by archive/tar in ustar/PAX/GNU format (DESIGN.md §3 C17). *)
From Coq Require Import String List NArith ZArith Bool.
Import ListNotations.
From STFS Require Import Str Db Tape Index Ops Fs Diff.
Open Scope N_scope.

(* every spelling of the root resolves to the stored root, whatever its shape *)
Theorem C17_root_spellings : forall p name, is_root_name name = true -> snd (sanitize p name) = root p.
Proof. intros p name H. unfold sanitize. rewrite H. reflexivity. Qed.

Lemma eqb_str_has_prefix x y : eqb_str x y = true -> has_prefix y x = true.
Proof.
  revert y. induction x as [|a x IH]; intros [|b y] H; cbn in *; try discriminate; try reflexivity.
  apply andb_true_iff in H as [H1 H2]. apply N.eqb_eq in H1; subst b. rewrite N.eqb_refl. cbn. apply IH. exact H2.
Qed.
Lemma trim_slash_cons n : trim_prefix [slash] (slash :: n) = n.
Proof. reflexivity. Qed.
Lemma trim_slash_nonabs n : is_abs n = false -> trim_prefix [slash] n = n.
Proof.
  destruct n as [|c n']; [reflexivity|]. unfold is_abs, trim_prefix. cbn [has_prefix]. intro H.
  assert (E : (slash =? c) = false) by (rewrite N.eqb_sym; exact H). rewrite E. reflexivity.
Qed.

(* index rebuilt from an archive whose top entry is "./" or "/" (stored root ""): "/x" and "x" resolve alike *)
Theorem C17_slash_spelling_empty_root : forall p n,
  root p = [] -> root_empty p = true -> is_abs n = false -> is_root_name n = false -> is_root_name (slash :: n) = false ->
  sanitize p (slash :: n) = sanitize p n.
Proof.
  intros p n Hr He Ha Hn Hs. unfold sanitize. rewrite Hs, Hn, Hr, He.
  assert (E1 : eqb_str (slash :: n) [] = false) by reflexivity.
  assert (E2 : eqb_str n [] = false).
  { destruct n; [discriminate Hn|reflexivity]. }
  rewrite E1, E2. cbn [orb negb]. rewrite !andb_false_r. rewrite Hr. cbn [is_abs andb eqb_str].
  rewrite trim_slash_cons, (trim_slash_nonabs n Ha). reflexivity.
Qed.

(* archive below a named top directory (stored root "top"): names are used as they are; the documented
   composition (afero BasePathFs, trusted) prefixes and cleans every spelling *)
Theorem C17_named_root_identity : forall p name,
  root p <> [] -> is_abs (root p) = false -> has_prefix [dot; slash] (root p) = false ->
  eqb_str (root p) [dot] = false -> is_root_name name = false -> eqb_str name (root p) = false ->
  sanitize p name = (p, name).
Proof.
  intros p name Hne Ha Hd Hdot Hn He. unfold sanitize. rewrite Hn, He. cbn [orb].
  assert (E : eqb_str (root p) [] = false). { destruct (root p); [contradiction|reflexivity]. }
  rewrite E. cbn [andb]. rewrite Ha. cbn [andb]. rewrite Hdot.
  assert (E2 : eqb_str (root p) [dot; slash] = false).
  { destruct (eqb_str (root p) [dot; slash]) eqn:Ex; [|reflexivity].
    rewrite (eqb_str_has_prefix _ _ Ex) in Hd. discriminate. }
  rewrite E2.
  assert (E3 : eqb_str (root p) [slash] = false).
  { destruct (root p) as [|a r]; [contradiction|]. cbn in Ha |- *. rewrite Ha. reflexivity. }
  rewrite E3, Hd, ?E. reflexivity.
Qed.

(* a foreign archive in "./" style, rebuilt and viewed: every member under its directory, byte-identical,
   and the alternative spellings of a path resolve to the same row (a test of the statement) *)
Open Scope string_scope.
Definition fh (n : string) (tf sz : N) : hdr :=
  {| h_tf := tf; h_name := s n; h_link := []; h_size := sz; h_mode := 420; h_uid := 1000; h_gid := 1000; h_uname := s "u"; h_gname := s "g";
     h_mtime := 1500000000%Z; h_atime := 0%Z; h_ctime := 0%Z; h_pax := [] |}.
Definition ftape : tape :=
  [TM {| m_hdr := fh "./" 53 0; m_hb := 1; m_data := None; m_enc := 0 |};
   TM {| m_hdr := fh "./d/" 53 0; m_hb := 1; m_data := None; m_enc := 0 |};
   TM {| m_hdr := fh "./d/f" 48 700; m_hb := 1; m_data := Some [(1, 0, 700)]; m_enc := 700 |};
   TM {| m_hdr := fh "./g" 48 10; m_hb := 1; m_data := Some [(2, 0, 10)]; m_enc := 10 |}; TT].
Definition fcfg : cfg := {| c_rs := 20; c_csuf := []; c_esuf := []; c_readonly := false; c_uid := 0; c_gid := 0; c_uname := []; c_gname := [] |}.
Definition fsys : sys := {| tp := ftape; db := fst (rebuild fcfg ftape); hbq := []; encq := []; clk := 0%Z |}.
Example C17_demo :
  map (fun e => (e_path e, e_size e, e_data e)) (sort_entries (view fcfg fsys)) =
    [(s "/", 0, None); (s "/d", 0, None); (s "/d/f", 700, Some [(1, 0, 700)]); (s "/g", 10, Some [(2, 0, 10)])]
  /\ snd (sanitize (db fsys) (s "/d/f")) = snd (sanitize (db fsys) (s "d/f"))
  /\ snd (sanitize (db fsys) (s "./d/f")) = snd (sanitize (db fsys) (s "d/f")).
Proof. vm_compute. repeat split; reflexivity. Qed.

Print Assumptions C17_slash_spelling_empty_root.
Print Assumptions C17_named_root_identity.
