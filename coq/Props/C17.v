(* C17 — foreign tar archives open as filesystems; path spellings are interchangeable.
   sanitize = getSanitizedPath with its root shapes.  The rows an index rebuilt from a foreign archive
   gets (names under every root style, positions) are tied to /repo by the correspondence run over
   archives written by archive/tar in ustar/PAX/GNU format (DESIGN.md §3 C17). *)
From Coq Require Import String List NArith ZArith Bool.
Import ListNotations.
From STFS Require Import Str Db Tape Index Ops Fs Diff.
Open Scope N_scope.

(* every spelling of the root resolves to the stored root, whatever its shape *)
Theorem C17_root_spellings : forall p name, is_root_name name = true -> snd (sanitize p name) = root p.
Proof. intros p name H. unfold sanitize. rewrite H. reflexivity. Qed.

Lemma eqb_str_has_prefix x y : eqb_str x y = true -> has_prefix y x = true.
Proof.
  revert y. induction x as [|a x IH]; intros [|b y] H; cbn in *; try discriminate; try reflexivity.
  apply andb_true_iff in H as [H1 H2]. apply N.eqb_eq in H1; subst b. rewrite N.eqb_refl. cbn. apply IH. exact H2.
Qed.
Lemma trim_slash_cons n : trim_prefix [slash] (slash :: n) = n.
Proof. reflexivity. Qed.
Lemma trim_slash_nonabs n : is_abs n = false -> trim_prefix [slash] n = n.
Proof.
  destruct n as [|c n']; [reflexivity|]. unfold is_abs, trim_prefix. cbn [has_prefix]. intro H.
  assert (E : (slash =? c) = false) by (rewrite N.eqb_sym; exact H). rewrite E. reflexivity.
Qed.

(* index rebuilt from an archive whose top entry is "./" or "/" (stored root ""): "/x" and "x" resolve alike *)
Theorem C17_slash_spelling_empty_root : forall p n,
  root p = [] -> root_empty p = true -> is_abs n = false -> is_root_name n = false -> is_root_name (slash :: n) = false ->
  sanitize p (slash :: n) = sanitize p n.
Proof.
  intros p n Hr He Ha Hn Hs. unfold sanitize. rewrite Hs, Hn, Hr, He.
  assert (E1 : eqb_str (slash :: n) [] = false) by reflexivity.
  assert (E2 : eqb_str n [] = false).
  { destruct n; [discriminate Hn|reflexivity]. }
  rewrite E1, E2. cbn [orb negb]. rewrite !andb_false_r. rewrite Hr. cbn [is_abs andb eqb_str].
  rewrite trim_slash_cons, (trim_slash_nonabs n Ha). reflexivity.
Qed.

(* archive below a named top directory (stored root "top"): names are used as they are; the documented
   composition (afero BasePathFs, trusted) prefixes and cleans every spelling *)
Theorem C17_named_root_identity : forall p name,
  root p <> [] -> is_abs (root p) = false -> has_prefix [dot; slash] (root p) = false ->
  eqb_str (root p) [dot] = false -> is_root_name name = false -> eqb_str name (root p) = false ->
  sanitize p name = (p, name).
Proof.
  intros p name Hne Ha Hd Hdot Hn He. unfold sanitize. rewrite Hn, He. cbn [orb].
  assert (E : eqb_str (root p) [] = false). { destruct (root p); [contradiction|reflexivity]. }
  rewrite E. cbn [andb]. rewrite Ha. cbn [andb]. rewrite Hdot.
  assert (E2 : eqb_str (root p) [dot; slash] = false).
  { destruct (eqb_str (root p) [dot; slash]) eqn:Ex; [|reflexivity].
    rewrite (eqb_str_has_prefix _ _ Ex) in Hd. discriminate. }
  rewrite E2.
  assert (E3 : eqb_str (root p) [slash] = false).
  { destruct (root p) as [|a r]; [contradiction|]. cbn in Ha |- *. rewrite Ha. reflexivity. }
  rewrite E3, Hd, ?E. reflexivity.
Qed.

(* a foreign archive in "./" style, rebuilt and viewed: every member under its directory, byte-identical,
   and the alternative spellings of a path resolve to the same row (a test of the statement) *)
Open Scope string_scope.
Definition fh (n : string) (tf sz : N) : hdr :=
  {| h_tf := tf; h_name := s n; h_link := []; h_size := sz; h_mode := 420; h_uid := 1000; h_gid := 1000; h_uname := s "u"; h_gname := s "g";
     h_mtime := 1500000000%Z; h_atime := 0%Z; h_ctime := 0%Z; h_pax := [] |}.
Definition ftape : tape :=
  [TM {| m_hdr := fh "./" 53 0; m_hb := 1; m_data := None; m_enc := 0 |};
   TM {| m_hdr := fh "./d/" 53 0; m_hb := 1; m_data := None; m_enc := 0 |};
   TM {| m_hdr := fh "./d/f" 48 700; m_hb := 1; m_data := Some [(1, 0, 700)]; m_enc := 700 |};
   TM {| m_hdr := fh "./g" 48 10; m_hb := 1; m_data := Some [(2, 0, 10)]; m_enc := 10 |}; TT].
Definition fcfg : cfg := {| c_rs := 20; c_csuf := []; c_esuf := []; c_readonly := false; c_uid := 0; c_gid := 0; c_uname := []; c_gname := [] |}.
Definition fsys : sys := {| tp := ftape; db := fst (rebuild fcfg ftape); hbq := []; encq := []; clk := 0%Z |}.
Example C17_demo :
  map (fun e => (e_path e, e_size e, e_data e)) (sort_entries (view fcfg fsys)) =
    [(s "/", 0, None); (s "/d", 0, None); (s "/d/f", 700, Some [(1, 0, 700)]); (s "/g", 10, Some [(2, 0, 10)])]
  /\ snd (sanitize (db fsys) (s "/d/f")) = snd (sanitize (db fsys) (s "d/f"))
  /\ snd (sanitize (db fsys) (s "./d/f")) = snd (sanitize (db fsys) (s "d/f")).
Proof. vm_compute. repeat split; reflexivity. Qed.

Print Assumptions C17_slash_spelling_empty_root.
Print Assumptions C17_named_root_identity.

(* ===================================================================================================
   ADDED (T17): theorems for ALL directory trees, each root style, every record size (Proofs/T17*.v).
   [node]/[tree]/[wf]: a directory tree with okc component names (non-empty, no slash, not "." / ".."), siblings
   distinct, header blocks >= 1; [archive_of st t]: the tape a standard tar writer emits (top entry first, a
   directory before its members) in style "./" (DotSlash), "/" (Slash) or "top/" (Named top);
   [opened c tape]: a fresh cache, the tape indexed, the root read (Open + Initialize);
   [expected_entries st t]: every member, under "/" ++ its path (under "top/..." for a named top: the raw model
   has no base-path layer, see Proofs/T17Counter.v), with its size, mode, owner, time and content.
   =================================================================================================== *)
Close Scope string_scope.
From STFS Require Import C01Str C01Sim C01Ops T17Tree T17Str T17Forest T17Db T17Rebuild T17View T17Main T17Gen T17Insert
  T17Mknode T17Spell T17Names T17Coexist.

(* A. the rebuild succeeds and the walk of the visible tree shows exactly the members, each under its directory,
      regular members with the content the writer stored (e_data of [expected_entry]) *)
Theorem C17_foreign_view : forall c st t, plain c -> 0 < c_rs c -> wf_style st -> wf t ->
  (depth_forest (t_kids t) <= 16)%nat ->
  let s := opened c (archive_of st t) in
  snd (rebuild c (archive_of st t)) = Ok tt /\
  view_at c s (view_base st) = expected_entries st t.
Proof. exact T17_foreign_view. Qed.

Theorem C17_foreign_view_dotslash : forall c t, plain c -> 0 < c_rs c -> wf t -> (depth_forest (t_kids t) <= 16)%nat ->
  view c (opened c (archive_of DotSlash t)) = expected_entries DotSlash t.
Proof. exact T17_foreign_view_dotslash. Qed.

Theorem C17_foreign_view_slash : forall c t, plain c -> 0 < c_rs c -> wf t -> (depth_forest (t_kids t) <= 16)%nat ->
  view c (opened c (archive_of Slash t)) = expected_entries Slash t.
Proof. exact T17_foreign_view_slash. Qed.

(* the rows of the rebuilt index *)
Theorem C17_foreign_rows : forall c st t, plain c -> wf_style st -> wf t ->
  exists p, rebuild c (archive_of st t) = (p, Ok tt) /\ rows p = archive_rows c st t /\ root p = [].
Proof. exact T17_rebuild. Qed.

(* every member is listed under its directory (Readdir of the directory at q = its members, archive order) *)
Theorem C17_foreign_listing : forall c st t s q ks, wf_style st -> wf t -> is_open c st t s ->
  lookup q (t_kids t) = Some ks ->
  snd (inv_list (db s) (shown_path st q) None) = Ok (map (fun k => shdr st (item_of q k)) ks).
Proof. exact T17_listing. Qed.

(* every regular member reads back byte-identical; Stat of every member *)
Theorem C17_foreign_read : forall c st t s i, 0 < c_rs c -> wf_style st -> wf t -> is_open c st t s -> In i (items t) ->
  i_dir i = false -> snd (read_path c s (h_name (shdr st i))) = Ok (i_data i).
Proof. exact T17_read. Qed.

Theorem C17_foreign_stat : forall c st t s i, wf_style st -> wf t -> is_open c st t s -> In i (items t) ->
  snd (stat_s s (shown_path st (i_path i)) false) = Ok (shdr st i).
Proof. exact T17_stat. Qed.

(* the walk below any directory with enough fuel: no depth bound *)
Theorem C17_foreign_walk : forall c st t s f q ks, 0 < c_rs c -> wf_style st -> wf t -> is_open c st t s ->
  lookup q (t_kids t) = Some ks -> (depth_forest ks <= f)%nat ->
  walk f c s (shown_path st q) = map (expected_entry st) (flatten_forest q ks).
Proof. exact T17_walk_any_depth. Qed.

(* B. "/d/f", "d/f", "./d/f" (styles "./" and "/"): same stored name, same row, same Stat - also after path.Clean *)
Theorem C17_spellings_sanitize : forall p q n, Foreign p -> q <> [] -> Forall okc q -> In n (spellings q) ->
  snd (sanitize p n) = join_slash q.
Proof. exact T17_spellings_sanitize. Qed.

Theorem C17_spellings_resolve : forall c st t s i n, wf_style st -> style_root st = [] -> wf t -> is_open c st t s ->
  In i (items t) -> i_path i <> [] -> In n (spellings (i_path i)) ->
  (exists a, In (a, i) (istarts 0 (items t)) /\ snd (get_header (db s) n) = Ok (srow st (c_rs c) (a, i))) /\
  snd (stat_s s n false) = Ok (shdr st i) /\
  snd (stat_s s (path_clean n) false) = Ok (shdr st i).
Proof. exact T17_spellings_resolve. Qed.

Theorem C17_root_spellings_resolve : forall c st t s n, wf_style st -> wf t -> is_open c st t s -> is_root_name n = true ->
  snd (stat_s s n false) = Ok (shdr st (top_item t)).
Proof. exact T17_root_spellings_resolve. Qed.

(* named top: the base-path composition Clean(Join(top, spelling)) gives the one stored name *)
Theorem C17_named_base_path : forall top q n, okc top -> q <> [] -> Forall okc q -> In n (spellings q) ->
  path_join2 top n = join_slash (top :: q).
Proof. exact T17_named_base_path. Qed.

(* C. Mkdir / Create of a new name under an existing foreign directory, by any spelling: the call succeeds, the
      visible tree is that of the tree with the new member added (all old members kept), a rebuild of the new tape
      gives the rows of the new index; the post-state satisfies the invariant [Live] again (the calls compose:
      mkdir_live / create_empty_live in Proofs/T17Coexist.v take any [Live] state) *)
Theorem C17_mkdir_coexists : forall c st t s, plain c -> 0 < c_rs c -> c_readonly c = false -> wf_style st -> wf t ->
  is_open c st t s -> hbok s ->
  forall q nm ks0 name0, lookup q (t_kids t) = Some ks0 -> okc nm -> ~ In nm (map node_name ks0) ->
  FsName st (q ++ [nm]) name0 -> forall perm,
    let n := new_dir_node c nm s true perm in
    let t' := tinsert q n t in
    exists s', step c s (CMkdir name0 perm) = (s', OOk) /\
      Live c st t' (istarts 0 (items t) ++ [(tape_blocks (tp s), item_of q n)]) s' /\ hbok s' /\
      ((depth_forest (t_kids t') <= 16)%nat -> view_at c s' (view_base st) = expected_entries st t') /\
      (exists rb, rebuild c (tp s') = (rb, Ok tt) /\ rows rb = rows (db s')).
Proof. exact T17_mkdir_coexists. Qed.

Theorem C17_create_coexists : forall c st t s, plain c -> 0 < c_rs c -> c_readonly c = false -> wf_style st -> wf t ->
  is_open c st t s -> hbok s ->
  forall q nm ks0 name0, lookup q (t_kids t) = Some ks0 -> okc nm -> ~ In nm (map node_name ks0) ->
  FsName st (q ++ [nm]) name0 ->
    let n := new_dir_node c nm s false 438 in
    let t' := tinsert q n t in
    exists s', step c s (CCreateFile name0 []) = (s', OOk) /\
      Live c st t' (istarts 0 (items t) ++ [(tape_blocks (tp s), item_of q n)]) s' /\ hbok s' /\
      ((depth_forest (t_kids t') <= 16)%nat -> view_at c s' (view_base st) = expected_entries st t') /\
      (exists rb, rebuild c (tp s') = (rb, Ok tt) /\ rows rb = rows (db s')).
Proof. exact T17_create_coexists. Qed.

Theorem C17_insert_view : forall st t q n ks0, leaf n -> wf t -> lookup q (t_kids t) = Some ks0 ->
  exists EA EB, expected_entries st t = EA ++ EB /\
                expected_entries st (tinsert q n t) = EA ++ expected_entry st (item_of q n) :: EB.
Proof. exact T17_insert_view. Qed.

Print Assumptions C17_foreign_view.
Print Assumptions C17_foreign_listing.
Print Assumptions C17_foreign_read.
Print Assumptions C17_spellings_resolve.
Print Assumptions C17_mkdir_coexists.
Print Assumptions C17_create_coexists.

(* ===================================================================================================
   ADDED (T20): ARBITRARY further filesystem calls on an opened foreign archive, styles "./" and "/" (stored root "").
   [twin c st t] (Proofs/T20Twin.v): the WRITER TWIN of the opened archive - the same members at the same tape positions,
   an index with the same rows under ABSOLUTE names ("/", "/d/f"), cached root "/": the state a writer instance would be in
   with the foreign members in its index.  No STFS history produced it; its C01 invariant [Inv true] is proved from the
   definition (Proofs/T20Rebuild.v, T20Inv.v), and it is related to the opened archive by the relation of the C16
   simulation (Proofs/T19*.v).  Hence (T19_run_sim) every later history of filesystem-level calls - absolute names, the
   root never removed or renamed onto, header-block counts >= 1 - behaves on the archive as on the twin, and what is
   written survives a rebuild exactly.  The twin's abstract namespace IS the tree and the twin is a [Good] state of the T02
   theorems, so the T02 reference semantics applies from the tree for EVERY well-formed archive (sizes below 10^40, the
   bound of the T02 theorems): original members keep kind, size and content designation under every later call that does
   not touch them, and metadata calls change exactly the metadata.  (Before the fix of Operations.Update / Move - the size
   record is added to a content-less record from the known size, [keep_size] in Model/Ops.v - a non-empty original member
   lost its recorded size under a metadata update and the statement needed [empty_files]; Proofs/T20Counter.v now holds the
   positive facts.)  Plain configuration (a codec suffix changes the names a rebuild stores for foreign members).
   =================================================================================================== *)
From STFS Require Import C01Fs2 C01Rows Norm T19Rel T19Main T20Twin T20Inv T20Main.
From STFS Require T02Ns T02Spec T20Abs T20Good.

(* the opened archive and its twin are in the simulation; in particular the twin satisfies the C01 state invariant *)
Theorem C17_foreign_simulates_twin : forall c st t, plain c -> 0 < c_rs c -> wf_style st -> style_root st = [] -> wf t ->
  Sim c (twin c st t) (opened c (archive_of st t)).
Proof. exact T20_foreign_sim. Qed.

(* followed by arbitrary further filesystem calls *)
Theorem C17_foreign_continuation : forall c st t h, plain c -> 0 < c_rs c -> c_readonly c = false ->
  wf_style st -> style_root st = [] -> wf t ->
  forallb (fun ke => fs_call (fst ke)) h = true -> forallb (fun ke => call_ok (fst ke)) h = true -> forallb hb_ok h = true ->
  let sr := opened c (archive_of st t) in
  let sa := twin c st t in
  let sr' := final c sr h in
  let sa' := final c sa h in
  map ob_out (run c sr h) = map ob_out (run c sa h) /\
  map ob_view (run c sr h) = map ob_view (run c sa h) /\
  map ob_blocks (run c sr h) = map ob_blocks (run c sa h) /\
  Forall2 rows_rel (map ob_rows (run c sa h)) (map ob_rows (run c sr h)) /\
  view c sr' = view c sa' /\
  Inv true c sa' /\ Sim c sa' sr' /\
  (exists p, rebuild c (tp sr') = (p, Ok tt) /\ rows p = rows (db sr') /\ rows_rel (rows (db sa')) (rows (db sr'))) /\
  forall rootp q1 q2 k,
    let s2 := {| tp := tp sr'; db := p_empty; hbq := q1; encq := q2; clk := k |} in
    snd (fs_initialize c s2 rootp) = OOk /\ tp (fst (fs_initialize c s2 rootp)) = tp sr' /\
    view c (fst (fs_initialize c s2 rootp)) = view c sr'.
Proof. exact T20_foreign_continuation. Qed.

(* the twin's abstract namespace (the live rows as name -> attributes, Proofs/T02Ns.v) is the tree: every member at
   "/" ++ its path with its kind, size, permission bits, owner, times, and the tape position of its bytes *)
Theorem C17_twin_is_the_tree : forall c st t, wf_style st -> style_root st = [] ->
  T02Ns.abs (twin c st t) = T20Abs.namespace_of c t.
Proof. exact T20Abs.T20_twin_abs. Qed.

(* every well-formed archive (regular members below 10^40 bytes): the twin is a [Good] state of the T02 theorems, so every
   history whose calls meet the reference's preconditions returns the reference outcomes and has the reference effects,
   started from the namespace of the tree - on the twin and on the opened archive *)
Theorem C17_twin_Good : forall c st t, plain c -> 0 < c_rs c -> wf_style st -> style_root st = [] -> wf t ->
  T20Good.sizes_bounded t -> T02Spec.Good true c (twin c st t).
Proof. exact T20Good.T20_twin_Good. Qed.

Theorem C17_foreign_reference : forall c st t h, plain c -> 0 < c_rs c -> c_readonly c = false ->
  wf_style st -> style_root st = [] -> wf t -> T20Good.sizes_bounded t ->
  let sr := opened c (archive_of st t) in
  let sa := twin c st t in
  T02Spec.ok_run c sa h ->
  T02Ns.abs sa = T20Abs.namespace_of c t /\
  T02Spec.conforms c sa h /\ T02Spec.Good true c (final c sa h) /\
  map ob_out (run c sr h) = map ob_out (run c sa h) /\
  view c (final c sr h) = view c (final c sa h) /\
  T02Ns.abs (final c sr h) = map (fun e => (norm_name (fst e), snd e)) (T02Ns.abs (final c sa h)).
Proof. exact T20Good.T20_foreign_reference. Qed.

Print Assumptions C17_foreign_simulates_twin.
Print Assumptions C17_foreign_continuation.
Print Assumptions C17_twin_is_the_tree.
Print Assumptions C17_twin_Good.
Print Assumptions C17_foreign_reference.

(* ===================================================================================================
   ADDED (T23): ARBITRARY further filesystem calls on an opened foreign archive written BELOW A NAMED TOP DIRECTORY
   (archive  top/ top/d/ top/d/f ...; the rebuilt index stores the root "top" and the names "top/d/f"; the documented
   composition afero.BasePathFs(stfs, "top") - C17_named_base_path - hands STFS the names "top/...").
   Under the cached root "top" getSanitizedPath returns every name unchanged, so the named instance runs the same index
   operations as the writer twin of the tree on the RENAMED names ([psi top]: "/" -> "top", "/d/f" -> "top/d/f"): the
   relation [T23Rel.R top] (same rows up to the renaming, tombstones included; same tape positions and contents) is a
   simulation for every filesystem-level call ([T23Main.Sim], Proofs/T23*.v).  Hence, for every history whose names are
   "top" or "top/q" with q a cleaned relative path ([named_call]) that never removes or renames onto "top"
   ([named_call_ok]), header-block counts >= 1: every call returns on the named instance what the correspondingly renamed
   call returns on the twin - and on the instance opened over the "./" or "/" archive of the same tree (T20) -, the walk
   from "top" shows after every call the entries the twin shows from "/" under the renamed paths, contents included, and
   what is written survives a rebuild exactly (rows of the rebuild of the final tape = rows of the final index).  With
   [T20Good.sizes_bounded] the T02 reference semantics applies from the tree.  Plain configuration.
   Excluded and shown by compiled counterexamples (Proofs/T23Counter.v): names that are not below "top" ("other",
   "/other") or leave it through ".." ("top/../n") succeed but store an entry BESIDE the tree that no walk from "top"
   shows.
   =================================================================================================== *)
From STFS Require T23Rel T23Main.

(* the opened named-top archive and the twin of the tree are in the simulation *)
Theorem C17_named_top_simulates_twin : forall top, okc top -> forall c st t, plain c -> 0 < c_rs c -> wf_style st -> style_root st = [] -> wf t ->
  T23Main.Sim top c (twin c st t) (opened c (archive_of (Named top) t)).
Proof. exact T23Main.T23_named_sim. Qed.

(* one call on any pair of states in the simulation (e.g. after a history) *)
Theorem C17_named_top_step : forall top, okc top -> forall c, plain c -> 0 < c_rs c -> c_readonly c = false ->
  forall sa sr k e, T23Main.Sim top c sa sr ->
  fs_call k = true -> call_ok k = true -> T23Main.clean_call k = true -> hb_ok (k, e) = true ->
  snd (step c (with_env sr e) (T23Rel.ren_call top k)) = snd (step c (with_env sa e) k) /\
  T23Main.Sim top c (fst (step c (with_env sa e) k)) (fst (step c (with_env sr e) (T23Rel.ren_call top k))) /\
  T23Ops.envq (fst (step c (with_env sa e) k)) (fst (step c (with_env sr e) (T23Rel.ren_call top k))).
Proof. exact T23Main.T23_step_sim. Qed.

(* related instances show the same entries: the named one walked from "top", the twin from "/" (any configuration) *)
Theorem C17_named_top_view : forall top, okc top -> forall c sa sr, T23Main.Sim top c sa sr ->
  view_at c sr top = map (T23Rel.ren_entry top) (view c sa).
Proof. exact T23Main.T23_view_sim'. Qed.

(* followed by arbitrary further filesystem calls, the history given as the named instance receives it *)
Theorem C17_named_top_continuation : forall c top st t hN, plain c -> 0 < c_rs c -> c_readonly c = false ->
  okc top -> wf_style st -> style_root st = [] -> wf t ->
  forallb (fun ke => T23Main.named_call top (fst ke)) hN = true ->
  forallb (fun ke => T23Main.named_call_ok top (fst ke)) hN = true ->
  forallb hb_ok hN = true ->
  let h := T23Main.unren_hist top hN in
  let sr := opened c (archive_of (Named top) t) in
  let sa := twin c st t in
  let sr' := final c sr hN in
  let sa' := final c sa h in
  T23Rel.ren_hist top h = hN /\
  forallb (fun ke => fs_call (fst ke)) h = true /\ forallb (fun ke => call_ok (fst ke)) h = true /\ forallb hb_ok h = true /\
  map ob_out (run c sr hN) = map ob_out (run c sa h) /\
  map ob_blocks (run c sr hN) = map ob_blocks (run c sa h) /\
  Forall2 (fun xa xr => T23Main.Sim top c xa xr /\ view_at c xr top = map (T23Rel.ren_entry top) (view c xa))
          (T23Main.states c sa h) (T23Main.states c sr hN) /\
  view_at c sr' top = map (T23Rel.ren_entry top) (view c sa') /\
  Inv true c sa' /\ T23Main.Sim top c sa' sr' /\
  (exists p, rebuild c (tp sr') = (p, Ok tt) /\ rows p = rows (db sr') /\ T23Rel.rows_rel top (rows (db sa')) (rows (db sr'))) /\
  forall rootp q1 q2 k,
    let s2 := {| tp := tp sr'; db := p_empty; hbq := q1; encq := q2; clk := k |} in
    snd (fs_initialize c s2 rootp) = OOk /\ tp (fst (fs_initialize c s2 rootp)) = tp sr' /\
    view_at c (fst (fs_initialize c s2 rootp)) top = view_at c sr' top.
Proof. exact T23Main.T23_named_continuation. Qed.

(* every name "top" / "top/q" (q of okc components) is admitted by [named_call] *)
Theorem C17_named_top_names : forall top q, okc top -> Forall okc q -> T23Main.named_name top (join_slash (top :: q)) = true.
Proof. exact T23Main.named_name_join. Qed.

(* against the instance opened over the "./" or "/" archive of the same tree, each on its own spelling of the history *)
Theorem C17_named_top_vs_foreign : forall c top st t hN, plain c -> 0 < c_rs c -> c_readonly c = false ->
  okc top -> wf_style st -> style_root st = [] -> wf t ->
  forallb (fun ke => T23Main.named_call top (fst ke)) hN = true ->
  forallb (fun ke => T23Main.named_call_ok top (fst ke)) hN = true ->
  forallb hb_ok hN = true ->
  let h := T23Main.unren_hist top hN in
  let sn := opened c (archive_of (Named top) t) in
  let sf := opened c (archive_of st t) in
  map ob_out (run c sn hN) = map ob_out (run c sf h) /\
  map ob_blocks (run c sn hN) = map ob_blocks (run c sf h) /\
  view_at c (final c sn hN) top = map (T23Rel.ren_entry top) (view c (final c sf h)).
Proof. exact T23Main.T23_named_vs_foreign. Qed.

(* against the T02 reference semantics started from the tree *)
Theorem C17_named_top_reference : forall c top st t h, plain c -> 0 < c_rs c -> c_readonly c = false ->
  okc top -> wf_style st -> style_root st = [] -> wf t -> T20Good.sizes_bounded t ->
  let sn := opened c (archive_of (Named top) t) in
  let sa := twin c st t in
  T02Spec.ok_run c sa h ->
  T02Ns.abs sa = T20Abs.namespace_of c t /\
  T02Spec.conforms c sa h /\ T02Spec.Good true c (final c sa h) /\
  map ob_out (run c sn (T23Rel.ren_hist top h)) = map ob_out (run c sa h) /\
  view_at c (final c sn (T23Rel.ren_hist top h)) top = map (T23Rel.ren_entry top) (view c (final c sa h)) /\
  T02Ns.abs (final c sn (T23Rel.ren_hist top h)) = map (fun e => (T23Rel.psi top (fst e), snd e)) (T02Ns.abs (final c sa h)).
Proof. exact T23Main.T23_named_reference. Qed.

Print Assumptions C17_named_top_simulates_twin.
Print Assumptions C17_named_top_step.
Print Assumptions C17_named_top_view.
Print Assumptions C17_named_top_continuation.
Print Assumptions C17_named_top_names.
Print Assumptions C17_named_top_vs_foreign.
Print Assumptions C17_named_top_reference.
