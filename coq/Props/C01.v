(* C01 — the index is a pure function of the tape (rebuild / reopen equivalence).
   The full statement is kept visible; what is machine-checked so far is listed below it.
   The statement itself is decided on the implementation by the rebuild/reopen oracle and on
   the model by the correspondence run (DESIGN.md §3 C01). *)
From Coq Require Import String List NArith ZArith Bool.
Import ListNotations.
From STFS Require Import Str Db Tape Index Ops Fs Diff Norm TapeLemmas Append C01Fs2 C01Rows C01Counter.
Open Scope N_scope.

(* visible tree of a state, and of a tape replayed into a fresh index *)
Definition view_of_rebuild (c : cfg) (s : sys) : list entry :=
  match rebuild c (tp s) with
  | (p, Ok _) => sort_entries (view c {| tp := tp s; db := p; hbq := []; encq := []; clk := 0%Z |})
  | _ => []
  end.
Definition view_of_reopen (c : cfg) (s : sys) : list entry :=
  sort_entries (view c {| tp := tp s; db := p_open (rows (db s)); hbq := []; encq := []; clk := 0%Z |}).

Definition index_ok (o : outc) : bool := match o with OOther _ => false | _ => true end.

(* FULL STATEMENT (not yet proved in Coq; decided by oracle + correspondence on every run):
   after every history whose calls did not fail inside the indexer, a rebuild from the tape alone
   and a reopen of the index show the tree the running instance shows. *)
Definition C01_full_statement : Prop :=
  forall c h, 0 < c_rs c ->
    forallb (fun o => index_ok (ob_out o)) (run c init_sys h) = true ->
    let s := final c init_sys h in
    eqb_list eqb_entry (view_of_rebuild c s) (sort_entries (view c s)) = true /\
    eqb_list eqb_entry (view_of_reopen c s) (sort_entries (view c s)) = true.

(* proved: the rebuild consults nothing but the tape (it starts from the purged index), and the tape
   a rebuild reads is never altered by later calls *)
Theorem C01_rebuild_ignores_index : forall c t p1 p2,
  index_tape c t 0 0 None true false p1 = index_tape c t 0 0 None true false p2.
Proof. intros. unfold index_tape. reflexivity. Qed.

Theorem C01_rebuild_prefix_stable : forall c h s, exists suf, tp (final c s h) = (tp s ++ suf)%list.
Proof. intros c h s. exact (final_extends c h s). Qed.

(* proved for EVERY history of filesystem-level calls (any length, any names, contents, clocks, header sizes
   >= 1 block, record size): the index rebuilt from the tape alone holds exactly the rows of the running
   instance (tombstones included), up to the spelling of names (the rebuild sees the cleaned name the tape
   carries; norm_row drops the leading slash).  Hypotheses beyond the property's own quantifier:
   plain configuration (no codec suffixes), header-block counts of at least one block (a tar header is never
   empty), and two exclusions, each with a compiled counterexample or note in Proofs/C01Counter.v:
   no Reopen after the root itself was removed, and no Rename onto the root. *)
Theorem C01_rows_rebuilt_are_live_rows : forall c e r,
  0 < c_rs c -> c_readonly c = false ->
  c_csuf c = [] -> c_esuf c = [] ->
  forallb hb_ok ((CInitialize [slash], e) :: r) = true ->
  safe true r = true ->
  forallb (fun ke => rename_ok (fst ke)) r = true ->
  forallb (fun ke => fs_call (fst ke)) r = true ->
  let s := final c init_sys ((CInitialize [slash], e) :: r) in
  exists p, rebuild c (tp s) = (p, Ok tt) /\ rows p = map norm_row (rows (db s)).
Proof. exact C01_rows_norm. Qed.

(* the excluded corners are real: the conclusion fails there on the model (and, replayed by the harness, the
   model agrees with the implementation on them) *)
Theorem C01_excluded_corners :
  (~ concl (cf "") ((CInitialize [slash], C01Counter.e0 1) :: r_b)) /\
  (~ concl (cf "") ((CInitialize [slash], C01Counter.e0 1) :: r_c)).
Proof. split; [exact (proj2 (proj2 counter_zero_header_blocks)) | exact (proj2 (proj2 (proj2 (proj2 counter_remove_root_reopen))))]. Qed.

(* the statement holds on a concrete multi-step history with reuse of a deleted name, rename over
   it, content update and chmod (a test of the statement, not the proof) *)
Open Scope string_scope.
Definition demo_cfg : cfg := {| c_rs := 3; c_csuf := []; c_esuf := []; c_readonly := false; c_uid := 0; c_gid := 0; c_uname := s "root"; c_gname := s "0" |}.
Definition e0 (n : Z) : env := {| ev_hb := []; ev_enc := []; ev_now := n |}.
Definition demo_hist : list (call * env) :=
  [(CInitialize (s "/"), e0 1); (CMkdir (s "/a") 493, e0 2); (CCreateFile (s "/a/f") [(1, 0, 700)], e0 3);
   (CRemove (s "/a/f"), e0 4); (CCreateFile (s "/b") [(2, 0, 10)], e0 5); (CRename (s "/b") (s "/a/f"), e0 6);
   (CChmod (s "/a/f") 384, e0 7); (CRename (s "/a") (s "/c"), e0 8)].
Example C01_demo :
  let s := final demo_cfg init_sys demo_hist in
  eqb_list eqb_entry (view_of_rebuild demo_cfg s) (sort_entries (view demo_cfg s)) = true /\
  eqb_list eqb_entry (view_of_reopen demo_cfg s) (sort_entries (view demo_cfg s)) = true /\
  List.length (view demo_cfg s) = 3%nat.
Proof. vm_compute. repeat split; reflexivity. Qed.

Print Assumptions C01_rebuild_prefix_stable.
Print Assumptions C01_rows_rebuilt_are_live_rows.

(* ---------- ANY CONFIGURATION (Proofs/Tcfg*.v): the same statement for arbitrary codec suffixes [c_csuf c], [c_esuf c]
   (any byte strings) and arbitrary encoded sizes.  No hypothesis replaces the plain configuration: the writers add the
   suffix iff the encoded size is positive, the indexer strips it iff the tape size is positive, and the whole run under c is
   the run under [plain_of c] on the tape with the indexed names ([C01_run_any_config]). *)
From STFS Require Import TcfgSim TcfgHist TcfgThms.

Theorem C01_rows_rebuilt_are_live_rows_any_config : forall c e r,
  (0 < c_rs c)%N -> c_readonly c = false ->
  forallb hb_ok ((CInitialize [slash], e) :: r) = true ->
  safe true r = true ->
  forallb (fun ke => rename_ok (fst ke)) r = true ->
  forallb (fun ke => fs_call (fst ke)) r = true ->
  let s := final c init_sys ((CInitialize [slash], e) :: r) in
  exists p, rebuild c (tp s) = (p, Ok tt) /\ rows p = map norm_row (rows (db s)).
Proof. exact C01_rows_norm_any_config. Qed.

(* the observations of a run (outcomes, index rows, visible tree, tape length) do not depend on the codec suffixes *)
Theorem C01_run_any_config : forall c h, run c init_sys h = run (plain_of c) init_sys h.
Proof. exact run_config_independent. Qed.

Theorem C01_rebuild_any_config : forall c t, rebuild (plain_of c) (efft c t) = rebuild c t.
Proof. exact rebuild_eff. Qed.

Print Assumptions C01_rows_rebuilt_are_live_rows_any_config.
Print Assumptions C01_run_any_config.
