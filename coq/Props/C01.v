(* C01 — the index is a pure function of the tape (rebuild / reopen equivalence).
   The full statement is kept visible; what is machine-checked so far is listed below it.
   The statement itself is decided on the implementation by the rebuild/reopen oracle and on
   the model by the correspondence run (DESIGN.md §3 C01). *)
From Coq Require Import String List NArith ZArith Bool.
Import ListNotations.
From STFS Require Import Str Db Tape Index Ops Fs Diff Norm TapeLemmas Append C01Fs2 C01Rows C01Counter.
Open Scope N_scope.

(* visible tree of a state, and of a tape replayed into a fresh index *)
Definition view_of_rebuild (c : cfg) (s : sys) : list entry :=
  match rebuild c (tp s) with
  | (p, Ok _) => sort_entries (view c {| tp := tp s; db := p; hbq := []; encq := []; clk := 0%Z |})
  | _ => []
  end.
Definition view_of_reopen (c : cfg) (s : sys) : list entry :=
  sort_entries (view c {| tp := tp s; db := p_open (rows (db s)); hbq := []; encq := []; clk := 0%Z |}).

Definition index_ok (o : outc) : bool := match o with OOther _ => false | _ => true end.

(* FULL STATEMENT (not yet proved in Coq; decided by oracle + correspondence on every run):
   after every history whose calls did not fail inside the indexer, a rebuild from the tape alone
   and a reopen of the index show the tree the running instance shows. *)
Definition C01_full_statement : Prop :=
  forall c h, 0 < c_rs c ->
    forallb (fun o => index_ok (ob_out o)) (run c init_sys h) = true ->
    let s := final c init_sys h in
    eqb_list eqb_entry (view_of_rebuild c s) (sort_entries (view c s)) = true /\
    eqb_list eqb_entry (view_of_reopen c s) (sort_entries (view c s)) = true.

(* proved: the rebuild consults nothing but the tape (it starts from the purged index), and the tape
   a rebuild reads is never altered by later calls *)
Theorem C01_rebuild_ignores_index : forall c t p1 p2,
  index_tape c t 0 0 None true false p1 = index_tape c t 0 0 None true false p2.
Proof. intros. unfold index_tape. reflexivity. Qed.

Theorem C01_rebuild_prefix_stable : forall c h s, exists suf, tp (final c s h) = (tp s ++ suf)%list.
Proof. intros c h s. exact (final_extends c h s). Qed.

(* proved for EVERY history of filesystem-level calls (any length, any names, contents, clocks, header sizes
   >= 1 block, record size): the index rebuilt from the tape alone holds exactly the rows of the running
   instance (tombstones included), up to the spelling of names (the rebuild sees the cleaned name the tape
   carries; norm_row drops the leading slash).  Hypotheses beyond the property's own quantifier:
   plain configuration (no codec suffixes), header-block counts of at least one block (a tar header is never
   empty), and two exclusions, each with a compiled counterexample or note in Proofs/C01Counter.v:
   no Reopen after the root itself was removed, and no Rename onto the root. *)
Theorem C01_rows_rebuilt_are_live_rows : forall c e r,
  0 < c_rs c -> c_readonly c = false ->
  c_csuf c = [] -> c_esuf c = [] ->
  forallb hb_ok ((CInitialize [slash], e) :: r) = true ->
  safe true r = true ->
  forallb (fun ke => rename_ok (fst ke)) r = true ->
  forallb (fun ke => fs_call (fst ke)) r = true ->
  let s := final c init_sys ((CInitialize [slash], e) :: r) in
  exists p, rebuild c (tp s) = (p, Ok tt) /\ rows p = map norm_row (rows (db s)).
Proof. exact C01_rows_norm. Qed.

(* the excluded corners are real: the conclusion fails there on the model (and, replayed by the harness, the
   model agrees with the implementation on them) *)
Theorem C01_excluded_corners :
  (~ concl (cf "") ((CInitialize [slash], C01Counter.e0 1) :: r_b)) /\
  (~ concl (cf "") ((CInitialize [slash], C01Counter.e0 1) :: r_c)).
Proof. split; [exact (proj2 (proj2 counter_zero_header_blocks)) | exact (proj2 (proj2 (proj2 (proj2 counter_remove_root_reopen))))]. Qed.

(* the statement holds on a concrete multi-step history with reuse of a deleted name, rename over
   it, content update and chmod (a test of the statement, not the proof) *)
Open Scope string_scope.
Definition demo_cfg : cfg := {| c_rs := 3; c_csuf := []; c_esuf := []; c_readonly := false; c_uid := 0; c_gid := 0; c_uname := s "root"; c_gname := s "0" |}.
Definition e0 (n : Z) : env := {| ev_hb := []; ev_enc := []; ev_now := n |}.
Definition demo_hist : list (call * env) :=
  [(CInitialize (s "/"), e0 1); (CMkdir (s "/a") 493, e0 2); (CCreateFile (s "/a/f") [(1, 0, 700)], e0 3);
   (CRemove (s "/a/f"), e0 4); (CCreateFile (s "/b") [(2, 0, 10)], e0 5); (CRename (s "/b") (s "/a/f"), e0 6);
   (CChmod (s "/a/f") 384, e0 7); (CRename (s "/a") (s "/c"), e0 8)].
Example C01_demo :
  let s := final demo_cfg init_sys demo_hist in
  eqb_list eqb_entry (view_of_rebuild demo_cfg s) (sort_entries (view demo_cfg s)) = true /\
  eqb_list eqb_entry (view_of_reopen demo_cfg s) (sort_entries (view demo_cfg s)) = true /\
  List.length (view demo_cfg s) = 3%nat.
Proof. vm_compute. repeat split; reflexivity. Qed.

Print Assumptions C01_rebuild_prefix_stable.
Print Assumptions C01_rows_rebuilt_are_live_rows.

(* ---------- ANY CONFIGURATION (Proofs/Tcfg*.v): the same statement for arbitrary codec suffixes [c_csuf c], [c_esuf c]
   (any byte strings) and arbitrary encoded sizes.  No hypothesis replaces the plain configuration: the writers add the
   suffix iff the encoded size is positive, the indexer strips it iff the tape size is positive, and the whole run under c is
   the run under [plain_of c] on the tape with the indexed names ([C01_run_any_config]). *)
From STFS Require Import TcfgSim TcfgHist TcfgThms.

Theorem C01_rows_rebuilt_are_live_rows_any_config : forall c e r,
  (0 < c_rs c)%N -> c_readonly c = false ->
  forallb hb_ok ((CInitialize [slash], e) :: r) = true ->
  safe true r = true ->
  forallb (fun ke => rename_ok (fst ke)) r = true ->
  forallb (fun ke => fs_call (fst ke)) r = true ->
  let s := final c init_sys ((CInitialize [slash], e) :: r) in
  exists p, rebuild c (tp s) = (p, Ok tt) /\ rows p = map norm_row (rows (db s)).
Proof. exact C01_rows_norm_any_config. Qed.

(* the observations of a run (outcomes, index rows, visible tree, tape length) do not depend on the codec suffixes *)
Theorem C01_run_any_config : forall c h, run c init_sys h = run (plain_of c) init_sys h.
Proof. exact run_config_independent. Qed.

Theorem C01_rebuild_any_config : forall c t, rebuild (plain_of c) (efft c t) = rebuild c t.
Proof. exact rebuild_eff. Qed.

Print Assumptions C01_rows_rebuilt_are_live_rows_any_config.
Print Assumptions C01_run_any_config.

(* ---------- WITH THE OPERATION-LEVEL CALLS (ADDED; Proofs/T22*.v): histories that mix the filesystem-level calls with batched
   CArchive / CUpdate / CDelete / CMove calls (operations.Operations used directly, as the CLI does), successful and failing.
   [ok_hist] (Proofs/T22Def.v) asks of every operation-level call [op_call_ok] IN THE STATE IT IS ISSUED IN:
     Archive: cleaned absolute names, no link names, no caller-supplied STFS action records (any batch size, the empty batch
              included; missing parents, duplicate names, existing / deleted names and the root itself are all allowed);
     Update:  cleaned absolute names that have a live row (with replace = true a tombstoned row is enough);
     Delete:  ANY name, in any spelling (relative, uncleaned), that does not denote the root (missing names are refused
              without writing);
     Move:    cleaned absolute names other than the root (missing source, existing target, target below the source all allowed);
   and of every other call what C01_rows_norm_root_kept asks ([fs_call], [call_ok]).  Each excluded corner that has a
   counterexample is compiled in Proofs/T22Counter.v (Update of an unindexed name: the known finding
   C01-update-of-unindexed-name; Update without replace of a tombstoned name; Archive of the uncleaned name "/b/"; Archive with
   forged DELETE / UPDATE / version / size records; Delete "/" followed by Reopen). *)
From STFS Require T22Test T22Counter T22Demo.
From STFS Require Import C01Ops T22Def T22Step T22Hist.

Theorem C01_rows_rebuilt_with_operations : forall c e r,
  0 < c_rs c -> c_readonly c = false ->
  c_csuf c = [] -> c_esuf c = [] ->
  forallb hb_ok ((CInitialize [slash], e) :: r) = true ->
  ok_hist c init_sys ((CInitialize [slash], e) :: r) = true ->
  let s := final c init_sys ((CInitialize [slash], e) :: r) in
  exists p, rebuild c (tp s) = (p, Ok tt) /\ rows p = map norm_row (rows (db s)).
Proof. exact T22_rows_norm. Qed.

Theorem C01_rows_rebuilt_with_operations_any_config : forall c e r,
  0 < c_rs c -> c_readonly c = false ->
  forallb hb_ok ((CInitialize [slash], e) :: r) = true ->
  ok_hist c init_sys ((CInitialize [slash], e) :: r) = true ->
  let s := final c init_sys ((CInitialize [slash], e) :: r) in
  exists p, rebuild c (tp s) = (p, Ok tt) /\ rows p = map norm_row (rows (db s)).
Proof. exact T22_rows_norm_any_config. Qed.

(* one operation-level call preserves the state invariant of the C01 proof *)
Theorem C01_operation_call_preserves_invariant : forall c s k e,
  0 < c_rs c -> c_readonly c = false -> c_csuf c = [] -> c_esuf c = [] ->
  Inv true c s -> op_call_ok s k = true -> hb_ok (k, e) = true ->
  Inv true c (fst (step c (with_env s e) k)).
Proof. exact T22_step_ok. Qed.

(* the filesystem-only histories of C01_rows_norm_root_kept are instances *)
Theorem C01_fs_histories_are_ok_hist : forall c r s,
  forallb (fun ke => call_ok (fst ke)) r = true -> forallb (fun ke => fs_call (fst ke)) r = true -> ok_hist c s r = true.
Proof. exact ok_hist_of_fs. Qed.

(* the excluded Update of an unindexed name is a real divergence (known finding C01-update-of-unindexed-name) *)
Theorem C01_update_of_unindexed_name_refuted :
  forallb hb_ok T22Counter.h_upd_unindexed = true /\
  ok_hist T22Test.cf init_sys T22Counter.h_upd_unindexed = false /\
  ~ concl T22Test.cf T22Counter.h_upd_unindexed.
Proof. split; [reflexivity|]. split; [reflexivity|]. unfold concl. refute. Qed.

(* non-vacuity: a history with a batched Archive (directory + 2 files), Update with replace, Move of the directory, Delete,
   interleaved with filesystem-level calls, satisfies the hypotheses (Proofs/T22Demo.v) *)
Theorem C01_with_operations_demo :
  forallb hb_ok T22Test.hist1 = true /\ ok_hist T22Test.cf init_sys T22Test.hist1 = true /\
  rows_norm_ok T22Test.cf (final T22Test.cf init_sys T22Test.hist1) = true /\ concl T22Test.cf T22Test.hist1.
Proof.
  split; [exact (proj1 T22Demo.T22_demo_hyps)|]. split; [exact (proj1 (proj2 T22Demo.T22_demo_hyps))|].
  split; [exact (proj1 T22Demo.T22_demo_rows_eval)|exact T22Demo.T22_demo_rows].
Qed.

Print Assumptions C01_rows_rebuilt_with_operations.
Print Assumptions C01_rows_rebuilt_with_operations_any_config.
Print Assumptions C01_operation_call_preserves_invariant.
Print Assumptions C01_update_of_unindexed_name_refuted.
