(* Witnesses for the known finding of C10 on the current source.  If this file stops
   compiling, the finding is no longer reproduced by the skeleton (NOTE, not a violation). *)
From Coq Require Import List Bool NArith String.
Import ListNotations.
From STFS Require Import Skel Sound Events Check Locks Entries Skeleton C10.
Open Scope string_scope.

Theorem C10_read_goroutine_refuted : locks_ok [] "fs.File.Read" = false.
Proof. vm_compute. reflexivity. Qed.
Theorem C10_seek_goroutine_refuted : locks_ok [] "fs.File.Seek" = false.
Proof. vm_compute. reflexivity. Qed.
