(* C15 — a read-only filesystem never changes the tape or the index (control-flow half).
   Over the regenerated skeleton: assuming f.readOnly = true, no path of any STFS method
   reaches a mutating action (write-operation lock, GetWriter, write cache, index-store
   mutation), and every mutator returns os.ErrPermission; assuming a handle has
   flags.Write = false and no write buffer, no path of any File method mutates or creates
   a buffer, and Write/WriteAt/WriteString/Truncate return os.ErrPermission; OpenFile
   grants the write flag only on the !readOnly branch.  DESIGN.md §3 C15. *)
From Coq Require Import List Bool NArith String.
Import ListNotations.
From STFS Require Import Skel Sound Events Check Locks Guard Entries Skeleton.
Open Scope string_scope.

Definition fs_mutators : list string :=
  ["fs.STFS.Create"; "fs.STFS.Mkdir"; "fs.STFS.MkdirAll"; "fs.STFS.Remove"; "fs.STFS.RemoveAll";
   "fs.STFS.Rename"; "fs.STFS.Chmod"; "fs.STFS.Chown"; "fs.STFS.Chtimes"; "fs.STFS.SymlinkIfPossible"].
Definition file_mutators : list string :=
  ["fs.File.Write"; "fs.File.WriteAt"; "fs.File.WriteString"; "fs.File.Truncate"].

Definition stfs_entries : list string := filter (starts "fs.STFS.") exported.
Definition file_entries : list string := filter (starts "fs.File.") exported.

Definition guard_check (allow_meta : bool) (ok : exit -> N -> bool) (q0 : N) (f : string) : bool :=
  check table prims_fixed (gstep allow_meta) 40 40 ok q0 f.

(* (a1) read-only instance: mutators refuse *)
Theorem C15_mutators_refuse : forallb (guard_check false refuses q_readonly) fs_mutators = true.
Proof. vm_compute. reflexivity. Qed.
(* (a2) read-only instance: no other STFS method mutates; Initialize may only rebuild the index *)
Theorem C15_stfs_quiet :
  forallb (fun f => guard_check (String.eqb f "fs.STFS.Initialize") quiet q_readonly f) stfs_entries = true.
Proof. vm_compute. reflexivity. Qed.
(* (a3) handle without the write flag: Inv = (flags.Write = false /\ writeBuf = nil) is preserved
   by every File method and no mutating action is reachable under it *)
Theorem C15_file_quiet : forallb (guard_check false quiet q_nowrite) file_entries = true.
Proof. vm_compute. reflexivity. Qed.
Theorem C15_file_mutators_refuse : forallb (guard_check false refuses_file q_nowrite) file_mutators = true.
Proof. vm_compute. reflexivity. Qed.
(* (a4) OpenFile on a read-only instance never assigns a write/append/truncate flag *)
Definition grants (e : ev) : bool :=
  match e with Asg l _ => mem_str l ["flags.Write"; "flags.Append"; "flags.Truncate"] | _ => false end.
Definition gstep_grant (q : N) (e : ev) : N := if grants e then (if (q =? DEAD)%N then q else ERR) else gstep false q e.
Theorem C15_openfile_grants_nothing :
  check table prims_fixed gstep_grant 40 40 quiet q_readonly "fs.STFS.OpenFile" = true.
Proof. vm_compute. reflexivity. Qed.
(* (a5) the flags are written nowhere else *)
Fixpoint evs (s : stm) : list ev :=
  match s with
  | Ev _ e => [e]
  | Seq a b | Choice a b | Finally a b | CallChk _ a b => evs a ++ evs b
  | Loop a => evs a
  | _ => []
  end.
Definition assigns_flags (p : string * stm) : bool := existsb grants (evs (snd p)).
Theorem C15_flags_only_in_openfile :
  map fst (filter assigns_flags table) = ["fs.STFS.OpenFile"].
Proof. vm_compute. reflexivity. Qed.

Theorem C15_sem : forall f, List.In f stfs_entries ->
  exists body, lookup f table = Some body /\
    forall t x, exec (prog table prims_fixed) body t x -> is_fn_exit x = true ->
      quiet x (mrun (gstep (String.eqb f "fs.STFS.Initialize")) q_readonly t) = true.
Proof.
  intros f Hf. apply check_sound with (fuel := 40%nat) (lfuel := 40%nat).
  pose proof C15_stfs_quiet as H. rewrite forallb_forall in H. exact (H f Hf).
Qed.

Example C15_nonvacuous :
  incl fs_mutators stfs_entries /\ incl file_mutators file_entries /\
  (* the guard monitor does reject an unguarded mutation: the same check started without the
     read-only assumption fails for a mutator *)
  guard_check false quiet 0%N "fs.STFS.Remove" = false.
Proof. vm_compute. repeat split; try reflexivity; intros a Ha; cbn in Ha; intuition (subst; auto 40). Qed.

Print Assumptions C15_sem.
