(* C12 — recursive remove and rename touch exactly the named subtree (selection of the subtree).
   DESIGN.md §3 C12. *)
From Coq Require Import String List NArith ZArith Bool.
Import ListNotations.
From STFS Require Import Str Db Tape Index Ops Fs StrLemmas.
Open Scope N_scope.

(* what Delete / Move / Restore select below a directory: exactly the live rows whose stored name has
   the directory name plus a separator as a prefix, never the directory itself; the LIKE pre-filter
   is implied by the exact prefix, so no child can be lost by it, for any characters in the names *)
Theorem C12_children_exact : forall p name r,
  let '(p', n) := sanitize p name in
  let prefix := trim_suffix [slash] n ++ [slash] in
  In r (snd (get_children p name)) <->
  (In r (rows p') /\ live r = true /\ has_prefix prefix (r_name r) = true /\ not_self n r = true).
Proof. exact get_children_spec. Qed.

Theorem C12_like_implied : forall p x, has_prefix p x = true -> sql_like (p ++ [pct]) x = true.
Proof. exact like_of_prefix. Qed.

(* the raw LIKE alone (the code before the fix) is refuted: underscore, percent and case *)
Open Scope string_scope.
Theorem C12_like_alone_refuted : exists d n : str,
  sql_like (List.app d (s "/%")) n = true /\ has_prefix (List.app d (s "/")) n = false.
Proof. exists (s "/a_"), (s "/ab/x"). split; reflexivity. Qed.

Print Assumptions C12_children_exact.
