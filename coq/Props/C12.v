(* C12 — recursive remove and rename touch exactly the named subtree.
   (1) selection: what Delete / Move select below a directory is exactly the live rows under <dir>/ (for all byte strings);
   (2) effect (Proofs/T02*.v): from every Good state, RemoveAll n removes exactly n and the names below it and leaves every
       other name's entry untouched; Rename old new moves exactly old and the names below it to the corresponding names
       under new (same entries), removes nothing else, and refuses to move a directory into itself -- stated pointwise on
       the namespace (name -> entry).  DESIGN.md section 8. *)
From Coq Require Import String List NArith ZArith Bool.
Import ListNotations.
From STFS Require Import Str Db Tape Index Ops Fs Diff StrLemmas C01Str C01Sim T02Ns T02Str T02Spec.
Open Scope N_scope.

(* what Delete / Move / Restore select below a directory: exactly the live rows whose stored name has
   the directory name plus a separator as a prefix, never the directory itself; the LIKE pre-filter
   is implied by the exact prefix, so no child can be lost by it, for any characters in the names *)
Theorem C12_children_exact : forall p name r,
  let '(p', n) := sanitize p name in
  let prefix := trim_suffix [slash] n ++ [slash] in
  In r (snd (get_children p name)) <->
  (In r (rows p') /\ live r = true /\ has_prefix prefix (r_name r) = true /\ not_self n r = true).
Proof. exact get_children_spec. Qed.

Theorem C12_like_implied : forall p x, has_prefix p x = true -> sql_like (p ++ [pct]) x = true.
Proof. exact like_of_prefix. Qed.

(* the raw LIKE alone (the code before the fix) is refuted: underscore, percent and case *)
Open Scope string_scope.
Theorem C12_like_alone_refuted : exists d n : str,
  sql_like (List.app d (s "/%")) n = true /\ has_prefix (List.app d (s "/")) n = false.
Proof. exists (s "/a_"), (s "/ab/x"). split; reflexivity. Qed.

(* RemoveAll: pointwise effect on the namespace *)
Theorem C12_remove_all_touches_exactly_the_subtree : forall (hr : bool) (c : cfg), plain c -> 0 < c_rs c -> c_readonly c = false ->
  forall s e n v, Good hr c s -> hb_env e -> good n -> n <> [slash] -> lookup (abs s) n = Some v ->
  let '(s', o) := step c (with_env s e) (CRemoveAll n) in
  o = OOk /\ forall m, lookup (abs s') m = if eqb_str m n || below n m then None else lookup (abs s) m.
Proof.
  intros hr c HP Hrs Hro s e n v HG He Gn Hn Hl.
  pose proof (T02_remove_all hr c HP Hrs Hro s e n HG He Gn Hn) as H.
  destruct (step c (with_env s e) (CRemoveAll n)) as [s' o]. destruct H as (_ & Ho & Heq).
  unfold spec_remove_all in Ho, Heq. rewrite Hl in Ho, Heq. cbn [fst snd] in Ho, Heq.
  split; [exact Ho|]. intro m. rewrite (Heq m).
  rewrite (lookup_filter (fun x => eqb_str x n || below n x) (abs s) m). reflexivity.
Qed.
(* corollary: after RemoveAll n neither n nor any name below it has an entry (for every Good state, any present n) *)
Theorem C12_remove_all_leaves_nothing_of_the_subtree : forall (hr : bool) (c : cfg), plain c -> 0 < c_rs c -> c_readonly c = false ->
  forall s e n v, Good hr c s -> hb_env e -> good n -> n <> [slash] -> lookup (abs s) n = Some v ->
  let '(s', o) := step c (with_env s e) (CRemoveAll n) in
  lookup (abs s') n = None /\ forall m, below n m = true -> lookup (abs s') m = None.
Proof.
  intros hr c HP Hrs Hro s e n v HG He Gn Hn Hl.
  pose proof (C12_remove_all_touches_exactly_the_subtree hr c HP Hrs Hro s e n v HG He Gn Hn Hl) as H.
  destruct (step c (with_env s e) (CRemoveAll n)) as [s' o]. destruct H as (_ & Heq). split.
  - rewrite (Heq n), (C01Str.eqb_str_refl n). reflexivity.
  - intros m Hb. rewrite (Heq m), Hb, orb_true_r. reflexivity.
Qed.
(* ... and of a missing name: success, nothing changes *)
Theorem C12_remove_all_missing_is_noop : forall (hr : bool) (c : cfg), plain c -> 0 < c_rs c -> c_readonly c = false ->
  forall s e n, Good hr c s -> hb_env e -> good n -> n <> [slash] -> lookup (abs s) n = None ->
  let '(s', o) := step c (with_env s e) (CRemoveAll n) in
  o = OOk /\ forall m, lookup (abs s') m = lookup (abs s) m.
Proof.
  intros hr c HP Hrs Hro s e n HG He Gn Hn Hl.
  pose proof (T02_remove_all hr c HP Hrs Hro s e n HG He Gn Hn) as H.
  destruct (step c (with_env s e) (CRemoveAll n)) as [s' o]. destruct H as (_ & Ho & Heq).
  unfold spec_remove_all in Ho, Heq. rewrite Hl in Ho, Heq. cbn [fst snd] in Ho, Heq.
  split; [exact Ho|exact Heq].
Qed.
(* Rename: the model does exactly what the reference does (spec_rename: ns_move of the subtree, replacing an empty or
   same-kind target, refusing a move into the own subtree); a refused or failing rename changes nothing *)
Theorem C12_rename_is_the_reference_move : forall (hr : bool) (c : cfg), plain c -> 0 < c_rs c -> c_readonly c = false ->
  forall s e old new, Good hr c s -> hb_env e -> good old -> good new -> new <> [slash] ->
  let '(s', o) := step c (with_env s e) (CRename old new) in
  Good hr c s' /\ o = snd (spec_rename (abs s) old new) /\ ns_eq (abs s') (fst (spec_rename (abs s) old new)).
Proof. exact T02_rename. Qed.
Theorem C12_rename_into_own_subtree_refused : forall (hr : bool) (c : cfg), plain c -> 0 < c_rs c -> c_readonly c = false ->
  forall s e old new sv, Good hr c s -> hb_env e -> good old -> good new -> new <> [slash] -> old <> [slash] ->
  lookup (abs s) old = Some sv -> is_dir sv = true -> old <> new -> has_prefix (pfx old) new = true ->
  let '(s', o) := step c (with_env s e) (CRename old new) in
  o = OInvalid /\ forall m, lookup (abs s') m = lookup (abs s) m.
Proof.
  intros hr c HP Hrs Hro s e old new sv HG He Go Gn Hn Hold Hl Hd Hne Hp.
  pose proof (T02_rename hr c HP Hrs Hro s e old new HG He Go Gn Hn) as H.
  destruct (step c (with_env s e) (CRename old new)) as [s' o]. destruct H as (_ & Ho & Heq).
  unfold spec_rename in Ho, Heq.
  replace (eqb_str old [slash]) with false in Ho, Heq by (symmetry; apply eqb_str_neq; exact Hold).
  rewrite Hl in Ho, Heq.
  replace (eqb_str old new) with false in Ho, Heq by (symmetry; apply eqb_str_neq; exact Hne).
  rewrite Hd, Hp in Ho, Heq. cbn [andb fst snd] in Ho, Heq. split; [exact Ho|exact Heq].
Qed.

(* corollaries: renaming a name without an entry fails with "not exist" and changes no name's entry;
   renaming a present name onto itself succeeds and changes no name's entry *)
Theorem C12_rename_of_missing_name_changes_nothing : forall (hr : bool) (c : cfg), plain c -> 0 < c_rs c -> c_readonly c = false ->
  forall s e old new, Good hr c s -> hb_env e -> good old -> good new -> new <> [slash] -> old <> [slash] ->
  lookup (abs s) old = None ->
  let '(s', o) := step c (with_env s e) (CRename old new) in
  o = ONotExist /\ forall m, lookup (abs s') m = lookup (abs s) m.
Proof.
  intros hr c HP Hrs Hro s e old new HG He Go Gn Hn Hold Hl.
  pose proof (T02_rename hr c HP Hrs Hro s e old new HG He Go Gn Hn) as H.
  destruct (step c (with_env s e) (CRename old new)) as [s' o]. destruct H as (_ & Ho & Heq).
  unfold spec_rename in Ho, Heq.
  replace (eqb_str old [slash]) with false in Ho, Heq by (symmetry; apply eqb_str_neq; exact Hold).
  rewrite Hl in Ho, Heq. cbn [fst snd] in Ho, Heq. split; [exact Ho|exact Heq].
Qed.
Theorem C12_rename_onto_itself_changes_nothing : forall (hr : bool) (c : cfg), plain c -> 0 < c_rs c -> c_readonly c = false ->
  forall s e old sv, Good hr c s -> hb_env e -> good old -> old <> [slash] ->
  lookup (abs s) old = Some sv ->
  let '(s', o) := step c (with_env s e) (CRename old old) in
  o = OOk /\ forall m, lookup (abs s') m = lookup (abs s) m.
Proof.
  intros hr c HP Hrs Hro s e old sv HG He Go Hold Hl.
  pose proof (T02_rename hr c HP Hrs Hro s e old old HG He Go Go Hold) as H.
  destruct (step c (with_env s e) (CRename old old)) as [s' o]. destruct H as (_ & Ho & Heq).
  unfold spec_rename in Ho, Heq.
  replace (eqb_str old [slash]) with false in Ho, Heq by (symmetry; apply eqb_str_neq; exact Hold).
  rewrite Hl, (C01Str.eqb_str_refl old) in Ho, Heq. cbn [fst snd] in Ho, Heq. split; [exact Ho|exact Heq].
Qed.

Print Assumptions C12_children_exact.
Print Assumptions C12_rename_of_missing_name_changes_nothing.
Print Assumptions C12_rename_onto_itself_changes_nothing.
Print Assumptions C12_remove_all_touches_exactly_the_subtree.
Print Assumptions C12_remove_all_leaves_nothing_of_the_subtree.
Print Assumptions C12_rename_is_the_reference_move.
Print Assumptions C12_rename_into_own_subtree_refused.
