(* C16 — opening a filesystem over an existing tape is non-destructive and faithful.
   Model statements (Model/Fs.v fs_initialize, Model/Prefix.v for cut tapes); the cut-tape behaviour
   of the indexer is tied by the C06 sweep, Initialize itself by the FS correspondence run; the
   property is decided on the implementation by the opening oracle (DESIGN.md §3 C16). *)
From Coq Require Import List NArith ZArith Bool.
Import ListNotations.
From STFS Require Import Str Db Tape Index Ops Fs Diff Prefix TapeLemmas Append PrefixLemmas.
Open Scope N_scope.

(* Initialize never removes or rewrites tape content, whatever the index and the tape are *)
Theorem C16_never_rewrites : forall c s rp, exists suf, tp (fst (fs_initialize c s rp)) = tp s ++ suf.
Proof. intros c s rp. exact (fs_initialize_ext c s rp). Qed.

(* with an index that knows a root (current or stale) nothing at all is appended *)
Theorem C16_existing_index_untouched : forall c s rp p r,
  get_root_path (db s) = (p, Some r) -> fs_initialize c s rp = (set_db s p, OOk).
Proof. intros c s rp p r H. unfold fs_initialize. rewrite H. reflexivity. Qed.

(* without an index: if replaying the tape yields a root -- even when the replay stops at a damaged
   tail -- nothing is appended and the index is exactly what the replay produced *)
Theorem C16_rebuild_appends_nothing : forall c s rp p0 p1 res p2 r,
  get_root_path (db s) = (p0, None) -> tp s <> [] ->
  index_tape c (tp s) 0 0 None true false p0 = (p1, res) ->
  get_root_path p1 = (p2, Some r) ->
  tp (fst (fs_initialize c s rp)) = tp s /\ db (fst (fs_initialize c s rp)) = p2.
Proof.
  intros c s rp p0 p1 res p2 r H0 Ht Hi Hr. unfold fs_initialize. rewrite H0.
  destruct (tp (set_db s p0)) eqn:E; [cbn in E; contradiction|]. rewrite <- E. cbn [set_db tp db] in *.
  change (db (set_db s p0)) with p0. change (tp (set_db s p0)) with (tp s). rewrite Hi.
  destruct res; rewrite Hr; cbn; split; reflexivity.
Qed.

(* the only way Initialize appends: no index root, and the tape is empty or replays to no root *)
Theorem C16_appends_only_without_root : forall c s rp,
  tp (fst (fs_initialize c s rp)) <> tp s ->
  snd (get_root_path (db s)) = None /\
  (tp s = [] \/ snd (get_root_path (fst (index_tape c (tp s) 0 0 None true false (fst (get_root_path (db s)))))) = None).
Proof.
  intros c s rp Hne. destruct (get_root_path (db s)) as [p0 [r|]] eqn:H0.
  - exfalso. apply Hne. rewrite (C16_existing_index_untouched c s rp p0 r H0). reflexivity.
  - split; [reflexivity|]. cbn [fst]. destruct (tp s) as [|i t] eqn:Et; [left; reflexivity|right].
    destruct (index_tape c (i :: t) 0 0 None true false p0) as [p1 res] eqn:Hi. cbn [fst].
    destruct (get_root_path p1) as [p2 [r|]] eqn:Hr; [|reflexivity].
    exfalso. apply Hne. rewrite <- Et in Hi.
    assert (Hn : tp s <> []) by (rewrite Et; discriminate).
    destruct (C16_rebuild_appends_nothing c s rp p0 p1 res p2 r H0 Hn Hi Hr) as [H _]. rewrite Et in H. exact H.
Qed.

Print Assumptions C16_appends_only_without_root.
