(* C16 — opening a filesystem over an existing tape is non-destructive and faithful.
   Model statements (Model/Fs.v fs_initialize, Model/Prefix.v for cut tapes); the cut-tape behaviour
   of the indexer is tied by the C06 sweep, Initialize itself by the FS correspondence run; the
   property is decided on the implementation by the opening oracle (DESIGN.md §3 C16). *)
From Coq Require Import List NArith ZArith Bool.
Import ListNotations.
From STFS Require Import Str Db Tape Index Ops Fs Diff Prefix TapeLemmas Append PrefixLemmas.
Open Scope N_scope.

(* Initialize never removes or rewrites tape content, whatever the index and the tape are *)
Theorem C16_never_rewrites : forall c s rp, exists suf, tp (fst (fs_initialize c s rp)) = tp s ++ suf.
Proof. intros c s rp. exact (fs_initialize_ext c s rp). Qed.

(* with an index that knows a root (current or stale) nothing at all is appended *)
Theorem C16_existing_index_untouched : forall c s rp p r,
  get_root_path (db s) = (p, Some r) -> fs_initialize c s rp = (set_db s p, OOk).
Proof. intros c s rp p r H. unfold fs_initialize. rewrite H. reflexivity. Qed.

(* without an index: if replaying the tape yields a root -- even when the replay stops at a damaged
   tail -- nothing is appended and the index is exactly what the replay produced *)
Theorem C16_rebuild_appends_nothing : forall c s rp p0 p1 res p2 r,
  get_root_path (db s) = (p0, None) -> tp s <> [] ->
  index_tape c (tp s) 0 0 None true false p0 = (p1, res) ->
  get_root_path p1 = (p2, Some r) ->
  tp (fst (fs_initialize c s rp)) = tp s /\ db (fst (fs_initialize c s rp)) = p2.
Proof.
  intros c s rp p0 p1 res p2 r H0 Ht Hi Hr. unfold fs_initialize. rewrite H0.
  destruct (tp (set_db s p0)) eqn:E; [cbn in E; contradiction|]. rewrite <- E. cbn [set_db tp db] in *.
  change (db (set_db s p0)) with p0. change (tp (set_db s p0)) with (tp s). rewrite Hi.
  destruct res; rewrite Hr; cbn; split; reflexivity.
Qed.

(* the only way Initialize appends: no index root, and the tape is empty or replays to no root *)
Theorem C16_appends_only_without_root : forall c s rp,
  tp (fst (fs_initialize c s rp)) <> tp s ->
  snd (get_root_path (db s)) = None /\
  (tp s = [] \/ snd (get_root_path (fst (index_tape c (tp s) 0 0 None true false (fst (get_root_path (db s)))))) = None).
Proof.
  intros c s rp Hne. destruct (get_root_path (db s)) as [p0 [r|]] eqn:H0.
  - exfalso. apply Hne. rewrite (C16_existing_index_untouched c s rp p0 r H0). reflexivity.
  - split; [reflexivity|]. cbn [fst]. destruct (tp s) as [|i t] eqn:Et; [left; reflexivity|right].
    destruct (index_tape c (i :: t) 0 0 None true false p0) as [p1 res] eqn:Hi. cbn [fst].
    destruct (get_root_path p1) as [p2 [r|]] eqn:Hr; [|reflexivity].
    exfalso. apply Hne. rewrite <- Et in Hi.
    assert (Hn : tp s <> []) by (rewrite Et; discriminate).
    destruct (C16_rebuild_appends_nothing c s rp p0 p1 res p2 r H0 Hn Hi Hr) as [H _]. rewrite Et in H. exact H.
Qed.

Print Assumptions C16_appends_only_without_root.

(* ---------- T05: the faithfulness half (Proofs/T05Open.v, T05OpenDemo.v), for tapes written by filesystem-level
   histories (hypotheses of C01_rows_rebuilt_are_live_rows_any_config; ANY configuration) *)
From STFS Require Import Norm C01Fs2 C01Rows T05Shape T05Open.

(* over any tape whose rebuild succeeds Initialize appends nothing, whatever index it is handed *)
Theorem C16_rebuildable_tape : forall c s rootp p,
  tp s <> [] -> rebuild c (tp s) = (p, Ok tt) ->
  fs_initialize c s rootp =
    match snd (get_root_path (db s)) with
    | Some _ => (set_db s (fst (get_root_path (db s))), OOk)
    | None => (set_db s (fst (get_root_path p)), match snd (get_root_path p) with Some _ => OOk | None => OOther 30 end)
    end.
Proof. exact T05_initialize_over_rebuildable_tape. Qed.

(* (1) an ABSENT index *)
Theorem C16_absent_index : forall c e r, 0 < c_rs c -> c_readonly c = false ->
  forallb hb_ok ((CInitialize [slash], e) :: r) = true ->
  forallb (fun ke => rename_ok (fst ke)) r = true ->
  forallb (fun ke => fs_call (fst ke)) r = true ->
  safe true r = true ->
  forall rootp q1 q2 k,
  let s := final c init_sys ((CInitialize [slash], e) :: r) in
  let s0 := {| tp := tp s; db := p_empty; hbq := q1; encq := q2; clk := k |} in
  exists p, rebuild c (tp s) = (p, Ok tt) /\ rows p = map norm_row (rows (db s)) /\
    tp (fst (fs_initialize c s0 rootp)) = tp s /\
    db (fst (fs_initialize c s0 rootp)) = fst (get_root_path p) /\
    rows (db (fst (fs_initialize c s0 rootp))) = map norm_row (rows (db s)) /\
    snd (fs_initialize c s0 rootp) = (if existsb live (rows (db s)) then OOk else OOther 30).
Proof. exact T05_open_absent_index. Qed.

(* (2) the CURRENT index reopened *)
Theorem C16_current_index : forall c e r, 0 < c_rs c -> c_readonly c = false ->
  forallb hb_ok ((CInitialize [slash], e) :: r) = true ->
  forallb (fun ke => rename_ok (fst ke)) r = true ->
  forallb (fun ke => fs_call (fst ke)) r = true ->
  safe true r = true ->
  forall rootp,
  let s := final c init_sys ((CInitialize [slash], e) :: r) in
  let s0 := set_db s (p_open (rows (db s))) in
  tp (fst (fs_initialize c s0 rootp)) = tp s /\
  (if existsb live (rows (db s))
   then fs_initialize c s0 rootp = (s0, OOk)
   else rows (db (fst (fs_initialize c s0 rootp))) = map norm_row (rows (db s)) /\ snd (fs_initialize c s0 rootp) = OOther 30).
Proof. exact T05_open_current_index. Qed.

Theorem C16_current_index_root_kept : forall c e r, 0 < c_rs c -> c_readonly c = false ->
  forallb hb_ok ((CInitialize [slash], e) :: r) = true ->
  forallb (fun ke => fs_call (fst ke)) r = true ->
  forallb (fun ke => call_ok (fst ke)) r = true ->
  let s := final c init_sys ((CInitialize [slash], e) :: r) in
  p_open (rows (db s)) = db s /\
  forall rootp, fs_initialize c (set_db s (p_open (rows (db s)))) rootp = (s, OOk).
Proof. exact T05_open_current_index_kept. Qed.

(* (1') an index that is a rebuild of the same tape *)
Theorem C16_rebuilt_index : forall c e r, 0 < c_rs c -> c_readonly c = false ->
  forallb hb_ok ((CInitialize [slash], e) :: r) = true ->
  forallb (fun ke => rename_ok (fst ke)) r = true ->
  forallb (fun ke => fs_call (fst ke)) r = true ->
  safe true r = true ->
  let s := final c init_sys ((CInitialize [slash], e) :: r) in
  forall rootp, let s0 := set_db s (fst (rebuild c (tp s))) in
  tp (fst (fs_initialize c s0 rootp)) = tp s /\
  rows (db (fst (fs_initialize c s0 rootp))) = map norm_row (rows (db s)).
Proof. exact T05_open_rebuilt_index. Qed.

(* (3) continuation: from the current index a later history is the writer's longer history ... *)
Theorem C16_continue_current : forall c e r, 0 < c_rs c -> c_readonly c = false ->
  forallb hb_ok ((CInitialize [slash], e) :: r) = true ->
  forallb (fun ke => call_ok (fst ke)) r = true ->
  forallb (fun ke => fs_call (fst ke)) r = true ->
  let s := final c init_sys ((CInitialize [slash], e) :: r) in
  forall r2, final c (set_db s (p_open (rows (db s)))) r2 = final c init_sys (((CInitialize [slash], e) :: r) ++ r2).
Proof. exact T05_continue_current. Qed.

(* ... from a rebuilt index the state-independent theorems apply (shape, append-only, positions) *)
Theorem C16_continue_rebuilt : forall c t q1 q2 k rootp h, 0 < c_rs c -> archives t ->
  let s0 := {| tp := t; db := p_empty; hbq := q1; encq := q2; clk := k |} in
  let s' := final c (fst (fs_initialize c s0 rootp)) h in
  archives (tp s') /\ (exists l, Forall nonempty l /\ tp s' = t ++ archs l) /\
  C04Inv.pos_wf c s' /\ C04Inv.pos_ord c s'.
Proof. exact T05_continue_rebuilt. Qed.

Print Assumptions C16_absent_index.
Print Assumptions C16_current_index.
Print Assumptions C16_current_index_root_kept.
Print Assumptions C16_continue_current.
Print Assumptions C16_continue_rebuilt.

(* what the instance reopened on the current index SHOWS: the same tree (root never removed) *)
Theorem C16_reopened_shows_the_same_tree : forall c e r, 0 < c_rs c -> c_readonly c = false ->
  forallb hb_ok ((CInitialize [slash], e) :: r) = true ->
  forallb (fun ke => fs_call (fst ke)) r = true ->
  forallb (fun ke => call_ok (fst ke)) r = true ->
  let s := final c init_sys ((CInitialize [slash], e) :: r) in
  forall rootp q1 q2 k,
  let s0 := {| tp := tp s; db := p_open (rows (db s)); hbq := q1; encq := q2; clk := k |} in
  fst (fs_initialize c s0 rootp) = s0 /\ snd (fs_initialize c s0 rootp) = OOk /\ view c s0 = view c s.
Proof. exact T05_reopened_shows_the_same_tree. Qed.
Print Assumptions C16_reopened_shows_the_same_tree.

(* ---------- T19 (ADDED): the instance that CONTINUES from a rebuilt index (Initialize over an absent index).  It caches the
   root "" and stores names without the leading slash, so the history theorems (absolute spelling) do not apply to it; instead
   it is in SIMULATION with the instance that wrote the tape (Proofs/T19Rel.v [R]: same tape items and index rows in the same
   order, tombstones included, equal except the spelling of names -- r_name exactly [norm_name]; h_name and the value of
   STFS.ReplacesName in either spelling).  Plain configuration; the root is never removed or renamed onto ([call_ok]: with
   the root removed the two instances really diverge, Proofs/T19Counter.v). *)
From STFS Require Import C01Sim C01Ops T19Rel T19Index T19Append T19Main.

(* the initial pair *)
Theorem C16_rebuilt_instance_is_related : forall c e r, plain c -> 0 < c_rs c -> c_readonly c = false ->
  forallb hb_ok ((CInitialize [slash], e) :: r) = true ->
  forallb (fun ke => fs_call (fst ke)) r = true ->
  forallb (fun ke => call_ok (fst ke)) r = true ->
  forall rootp q1 q2 k,
  let s := final c init_sys ((CInitialize [slash], e) :: r) in
  let s0 := {| tp := tp s; db := p_empty; hbq := q1; encq := q2; clk := k |} in
  snd (fs_initialize c s0 rootp) = OOk /\ Sim c s (fst (fs_initialize c s0 rootp)).
Proof. exact T19_rel_init. Qed.

(* one call *)
Theorem C16_rebuilt_instance_step : forall c, plain c -> 0 < c_rs c -> c_readonly c = false ->
  forall sa sr k e, Sim c sa sr -> fs_call k = true -> call_ok k = true -> hb_ok (k, e) = true ->
  snd (step c (with_env sr e) k) = snd (step c (with_env sa e) k) /\
  Sim c (fst (step c (with_env sa e) k)) (fst (step c (with_env sr e) k)) /\
  Re (fst (step c (with_env sa e) k)) (fst (step c (with_env sr e) k)).
Proof. exact T19_step_sim. Qed.

(* related instances show the same tree, contents included (any configuration) *)
Theorem C16_related_instances_show_the_same_tree : forall c sa sr, C01Inv.LI true (db sa) -> R sa sr -> view c sr = view c sa.
Proof. exact T19_view_sim. Qed.

(* every later filesystem-level history: outcomes, views and tape lengths of the rebuilt instance are those of the writer *)
Theorem C16_rebuilt_instance_simulates_writer : forall c e r r2, plain c -> 0 < c_rs c -> c_readonly c = false ->
  forallb hb_ok ((CInitialize [slash], e) :: r) = true ->
  forallb (fun ke => fs_call (fst ke)) r = true -> forallb (fun ke => call_ok (fst ke)) r = true ->
  forallb (fun ke => fs_call (fst ke)) r2 = true -> forallb (fun ke => call_ok (fst ke)) r2 = true -> forallb hb_ok r2 = true ->
  forall rootp q1 q2 k,
  let s := final c init_sys ((CInitialize [slash], e) :: r) in
  let sr := fst (fs_initialize c {| tp := tp s; db := p_empty; hbq := q1; encq := q2; clk := k |} rootp) in
  map ob_out (run c sr r2) = map ob_out (run c s r2) /\
  map ob_view (run c sr r2) = map ob_view (run c s r2) /\
  map ob_blocks (run c sr r2) = map ob_blocks (run c s r2) /\
  Forall2 rows_rel (map ob_rows (run c s r2)) (map ob_rows (run c sr r2)) /\
  R (final c s r2) (final c sr r2).
Proof. exact T19_rebuilt_instance_simulates_writer. Qed.

(* "entries written through it afterwards are retrievable and survive a rebuild" *)
Theorem C16_written_after_opening_survive_rebuild : forall c e r r2, plain c -> 0 < c_rs c -> c_readonly c = false ->
  forallb hb_ok ((CInitialize [slash], e) :: r) = true ->
  forallb (fun ke => fs_call (fst ke)) r = true -> forallb (fun ke => call_ok (fst ke)) r = true ->
  forallb (fun ke => fs_call (fst ke)) r2 = true -> forallb (fun ke => call_ok (fst ke)) r2 = true -> forallb hb_ok r2 = true ->
  forall rootp q1 q2 k rootp' q1' q2' k',
  let s := final c init_sys ((CInitialize [slash], e) :: r) in
  let sr := fst (fs_initialize c {| tp := tp s; db := p_empty; hbq := q1; encq := q2; clk := k |} rootp) in
  let sr' := final c sr r2 in
  let s2 := {| tp := tp sr'; db := p_empty; hbq := q1'; encq := q2'; clk := k' |} in
  view c sr' = view c (final c s r2) /\
  snd (fs_initialize c s2 rootp') = OOk /\ tp (fst (fs_initialize c s2 rootp')) = tp sr' /\
  view c (fst (fs_initialize c s2 rootp')) = view c sr' /\
  exists p, rebuild c (tp sr') = (p, Ok tt) /\ rows p = rows (db sr').
Proof. exact T19_written_after_opening_survive_rebuild. Qed.

(* ANY configuration (Proofs/T19Cfg.v): [SimC c sa sr] = [Sim] of the two states with the codec suffixes removed from the names of
   the records that carry content ([TcfgSim.Pl]); for a plain configuration it is [Sim] ([SimC_plain]) *)
From STFS Require Import TcfgSim T19Cfg.

Theorem C16_rebuilt_instance_step_any_config : forall c, 0 < c_rs c -> c_readonly c = false ->
  forall sa sr k e, SimC c sa sr -> fs_call k = true -> call_ok k = true -> hb_ok (k, e) = true ->
  snd (step c (with_env sr e) k) = snd (step c (with_env sa e) k) /\
  SimC c (fst (step c (with_env sa e) k)) (fst (step c (with_env sr e) k)).
Proof. exact T19_step_sim_any_config. Qed.

Theorem C16_rebuilt_instance_simulates_writer_any_config : forall c, 0 < c_rs c -> c_readonly c = false -> forall e r r2,
  forallb hb_ok ((CInitialize [slash], e) :: r) = true ->
  forallb (fun ke => fs_call (fst ke)) r = true -> forallb (fun ke => call_ok (fst ke)) r = true ->
  forallb (fun ke => fs_call (fst ke)) r2 = true -> forallb (fun ke => call_ok (fst ke)) r2 = true -> forallb hb_ok r2 = true ->
  forall rootp q1 q2 k,
  let s := final c init_sys ((CInitialize [slash], e) :: r) in
  let sr := fst (fs_initialize c {| tp := tp s; db := p_empty; hbq := q1; encq := q2; clk := k |} rootp) in
  map ob_out (run c sr r2) = map ob_out (run c s r2) /\
  map ob_view (run c sr r2) = map ob_view (run c s r2) /\
  map ob_blocks (run c sr r2) = map ob_blocks (run c s r2) /\
  Forall2 rows_rel (map ob_rows (run c s r2)) (map ob_rows (run c sr r2)) /\
  SimC c (final c s r2) (final c sr r2).
Proof. exact T19_rebuilt_instance_simulates_writer_any_config. Qed.

Theorem C16_written_after_opening_survive_rebuild_any_config : forall c, 0 < c_rs c -> c_readonly c = false -> forall e r r2,
  forallb hb_ok ((CInitialize [slash], e) :: r) = true ->
  forallb (fun ke => fs_call (fst ke)) r = true -> forallb (fun ke => call_ok (fst ke)) r = true ->
  forallb (fun ke => fs_call (fst ke)) r2 = true -> forallb (fun ke => call_ok (fst ke)) r2 = true -> forallb hb_ok r2 = true ->
  forall rootp q1 q2 k rootp' q1' q2' k',
  let s := final c init_sys ((CInitialize [slash], e) :: r) in
  let sr := fst (fs_initialize c {| tp := tp s; db := p_empty; hbq := q1; encq := q2; clk := k |} rootp) in
  let sr' := final c sr r2 in
  let s2 := {| tp := tp sr'; db := p_empty; hbq := q1'; encq := q2'; clk := k' |} in
  view c sr' = view c (final c s r2) /\
  snd (fs_initialize c s2 rootp') = OOk /\ tp (fst (fs_initialize c s2 rootp')) = tp sr' /\
  view c (fst (fs_initialize c s2 rootp')) = view c sr' /\
  exists p, rebuild c (tp sr') = (p, Ok tt) /\ rows p = rows (db sr').
Proof. exact T19_written_after_opening_survive_rebuild_any_config. Qed.

Print Assumptions C16_rebuilt_instance_is_related.
Print Assumptions C16_rebuilt_instance_step_any_config.
Print Assumptions C16_rebuilt_instance_simulates_writer_any_config.
Print Assumptions C16_written_after_opening_survive_rebuild_any_config.
Print Assumptions C16_rebuilt_instance_step.
Print Assumptions C16_related_instances_show_the_same_tree.
Print Assumptions C16_rebuilt_instance_simulates_writer.
Print Assumptions C16_written_after_opening_survive_rebuild.
