(* C06 — a torn tail never costs more than the torn record (crash prefix-recoverability).
   For EVERY tape and EVERY cut length n (bytes): the headers the indexer applies are those of a
   prefix of the members; every applied member except possibly the last is wholly inside the cut;
   an error is reported exactly when the last applied member's data is cut, and then that member is
   the only one affected; fetching a wholly present record returns what it returns on the intact
   tape.  The cut-to-outcome table itself (Model/Prefix.v) is tied to /repo by the every-byte sweep
   of the correspondence run.  DESIGN.md §3 C06. *)
From Coq Require Import List NArith ZArith Bool Lia.
Import ListNotations.
From STFS Require Import Str Db Tape Index Prefix TapeLemmas PrefixLemmas.
Open Scope N_scope.

Theorem C06_prefix : forall c t n, exists j,
  fst (index_prefix c t n) = index_loop c (firstn j (all_members t)) 0 0 None false p_empty
  /\ applied t n = firstn j (all_members t)
  /\ (forall i k p q, nth_error (applied t n) i = Some p -> nth_error (applied t n) k = Some q -> (i < k)%nat -> data_end p <= n).
Proof.
  intros c t n. destruct (applied_is_prefix t n) as [j Hj]. exists j. repeat split.
  - unfold index_prefix. cbn [fst]. rewrite Hj. reflexivity.
  - exact Hj.
  - intros i k p q. apply applied_complete_but_last.
Qed.

(* an error is reported iff some applied member's data is cut; by the theorem above it is the last one *)
Theorem C06_error_iff_torn : forall c t n,
  snd (index_prefix c t n) = true <-> exists p, In p (applied t n) /\ n < data_end p.
Proof.
  intros c t n. unfold index_prefix, torn. cbn [snd]. rewrite existsb_exists. split.
  - intros [p [Hin H]]. apply andb_true_iff in H as [H1 H2]. exists p. split; [|lia].
    unfold applied. apply filter_In. split; assumption.
  - intros [p [Hin H]]. unfold applied in Hin. apply filter_In in Hin as [Hin H1]. exists p. split; [exact Hin|].
    apply andb_true_iff. split; [exact H1|lia].
Qed.

(* the intact tape: every header applied, no error: the cut model degenerates to the rebuild loop *)
Theorem C06_intact : forall c t,
  index_prefix c t (tape_blocks t * 512) = (index_loop c (all_members t) 0 0 None false p_empty, false).
Proof. intros c t. unfold index_prefix. destruct (full_tape_all_applied t) as [-> ->]. reflexivity. Qed.

(* a record that is wholly inside the cut reads back exactly as on the intact tape; a cut one reports an error *)
Theorem C06_fetch : forall c t n rec blk,
  fetch_prefix c t n rec blk = None \/ fetch_prefix c t n rec blk = fetch_prefix c t (tape_blocks t * 512) rec blk.
Proof.
  intros c t n rec blk. unfold fetch_prefix.
  destruct (filter (fun p => fst p =? off_of (c_rs c) rec blk) (all_members t)) as [|p l] eqn:E; [left; reflexivity|].
  assert (Hin : In p (all_members t)).
  { assert (In p (p :: l)) by (left; reflexivity). rewrite <- E in H. apply filter_In in H. tauto. }
  pose proof (all_members_within t p Hin) as Hw.
  destruct (data_end p <=? n) eqn:E1; [right|left; reflexivity].
  assert ((data_end p <=? tape_blocks t * 512) = true) as -> by lia. reflexivity.
Qed.

(* non-vacuity: a two-member tape cut inside the second member's data *)
Example C06_nonvacuous :
  let h := {| h_tf := 48; h_name := [47; 102]; h_link := []; h_size := 700; h_mode := 420; h_uid := 0; h_gid := 0;
              h_uname := []; h_gname := []; h_mtime := 0%Z; h_atime := 0%Z; h_ctime := 0%Z; h_pax := [] |} in
  let t := [TM {| m_hdr := h; m_hb := 3; m_data := None; m_enc := 0 |}; TT;
            TM {| m_hdr := h; m_hb := 3; m_data := Some [(1, 0, 700)]; m_enc := 700 |}; TT] in
  torn t (8 * 512 + 100) = true /\ length (applied t (8 * 512 + 100)) = 2%nat /\ length (complete t (8 * 512 + 100)) = 1%nat
  /\ torn t (8 * 512 + 700) = false /\ length (applied t (7 * 512 + 511)) = 1%nat.
Proof. vm_compute. repeat split; reflexivity. Qed.

Print Assumptions C06_prefix.
Print Assumptions C06_fetch.
