(* C05 — the tape is append-only and stays a standard tar stream.
   Model M1 (hand-written, tied to /repo by the correspondence run): after every call of every
   history the previous tape is a prefix of the new one, and positions the index designated
   before the call still designate the same records.  DESIGN.md §3 C05. *)
From Coq Require Import List NArith ZArith Bool.
Import ListNotations.
From STFS Require Import Str Db Tape Index Ops Fs Diff TapeLemmas Append.

Theorem C05_step_appends : forall c s k, exists suf, tp (fst (step c s k)) = tp s ++ suf.
Proof. exact step_extends. Qed.

Theorem C05_history_appends : forall c h s, exists suf, tp (final c s h) = tp s ++ suf.
Proof. intros c h s. exact (final_extends c h s). Qed.

Theorem C05_records_stay : forall c s k off m,
  member_at (tp s) off = Some m -> member_at (tp (fst (step c s k))) off = Some m.
Proof. exact step_preserves_members. Qed.

(* non-vacuity: a concrete history that really appends *)
Example C05_nonvacuous :
  let c := {| c_rs := 20; c_csuf := []; c_esuf := []; c_readonly := false; c_uid := 0; c_gid := 0; c_uname := []; c_gname := [] |} in
  let s := final c init_sys [(CInitialize [slash], {| ev_hb := [3%N]; ev_enc := []; ev_now := 1%Z |});
                             (CMkdir (slash :: [97%N]) 493, {| ev_hb := [3%N]; ev_enc := []; ev_now := 2%Z |})] in
  tape_blocks (tp s) = 10%N /\ List.length (rows (db s)) = 2%nat.
Proof. vm_compute. split; reflexivity. Qed.

Print Assumptions C05_history_appends.
