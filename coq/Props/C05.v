(* C05 — the tape is append-only and stays a standard tar stream.
   Model M1 (hand-written, tied to /repo by the correspondence run): after every call of every
   history the previous tape is a prefix of the new one, and positions the index designated
   before the call still designate the same records.  DESIGN.md §3 C05. *)
From Coq Require Import List NArith ZArith Bool.
Import ListNotations.
From STFS Require Import Str Db Tape Index Ops Fs Diff TapeLemmas Append.

Theorem C05_step_appends : forall c s k, exists suf, tp (fst (step c s k)) = tp s ++ suf.
Proof. exact step_extends. Qed.

Theorem C05_history_appends : forall c h s, exists suf, tp (final c s h) = tp s ++ suf.
Proof. intros c h s. exact (final_extends c h s). Qed.

Theorem C05_records_stay : forall c s k off m,
  member_at (tp s) off = Some m -> member_at (tp (fst (step c s k))) off = Some m.
Proof. exact step_preserves_members. Qed.

(* non-vacuity: a concrete history that really appends *)
Example C05_nonvacuous :
  let c := {| c_rs := 20; c_csuf := []; c_esuf := []; c_readonly := false; c_uid := 0; c_gid := 0; c_uname := []; c_gname := [] |} in
  let s := final c init_sys [(CInitialize [slash], {| ev_hb := [3%N]; ev_enc := []; ev_now := 1%Z |});
                             (CMkdir (slash :: [97%N]) 493, {| ev_hb := [3%N]; ev_enc := []; ev_now := 2%Z |})] in
  tape_blocks (tp s) = 10%N /\ List.length (rows (db s)) = 2%nat.
Proof. vm_compute. split; reflexivity. Qed.

Print Assumptions C05_history_appends.

(* ---------- T05: the SHAPE of the tape (Proofs/T05Shape.v, T05Blocks.v, T05Hb.v, T05Refuse.v; corners in T05Counter.v).
   At rest the tape is a concatenation of well-formed archives (one or more members, then one two-block trailer) on the
   512-byte grid, for ALL histories: any calls, any outcomes, any configuration, any environment oracle. *)
From STFS Require Import Prefix T05Shape T05Blocks T05Hb T05Refuse.
Open Scope N_scope.

Theorem C05_tape_is_archives : forall c h, archives (tp (final c init_sys h)).
Proof. exact T05_tape_is_archives. Qed.

Theorem C05_step_appends_archives : forall c s k,
  exists l, Forall nonempty l /\ tp (fst (step c s k)) = tp s ++ flat_map (fun ms => map TM ms ++ [TT]) l.
Proof. exact T05_step_appends_archives. Qed.

(* the decomposition into archives is unique and computed by [parse] *)
Theorem C05_archives_decidable : forall t l, parse t [] = Some l <-> Forall nonempty l /\ t = archs l.
Proof. exact parse_spec. Qed.

(* block arithmetic: members (header group + data rounded up) plus two blocks per archive; bytes are blocks * 512 *)
Theorem C05_blocks_of_archives : forall l,
  tape_blocks (archs l) = fold_right (fun ms a => ms_blocks ms + a) 0 l + 2 * N.of_nat (length l).
Proof. exact tape_blocks_archs_sum. Qed.

Theorem C05_bytes_on_the_grid : forall t, tape_bytes t = tape_blocks t * 512 /\ tape_bytes t mod 512 = 0.
Proof. intro t. split; [apply tape_bytes_blocks|apply tape_bytes_aligned]. Qed.

(* the member table of a tape of archives, with the start block of every member *)
Theorem C05_member_table : forall l, all_members (archs l) = archs_starts 0 l.
Proof. exact all_members_archs. Qed.

(* with non-empty header groups every member is found at the position the indexer computes for it, in every history *)
Theorem C05_members_at_their_positions : forall c h, 0 < c_rs c -> forallb T05Hb.hb_ok h = true ->
  let t := tp (final c init_sys h) in
  NoDup (map fst (all_members t)) /\
  forall st m, In (st, m) (all_members t) ->
    member_at t (off_of (c_rs c) (fst (pos_of (c_rs c) st)) (snd (pos_of (c_rs c) st))) = Some m
    /\ snd (pos_of (c_rs c) st) < c_rs c
    /\ fetch_at c t (fst (pos_of (c_rs c) st)) (snd (pos_of (c_rs c) st)) = Some (match m_data m with Some d => d | None => [] end).
Proof. exact T05_members_at_their_positions. Qed.

(* a refused call appends nothing *)
Theorem C05_refused_precondition_appends_nothing : forall c s k,
  checks_first k = true -> refusal (snd (step c s k)) = true -> tp (fst (step c s k)) = tp s.
Proof. exact T05_refused_precondition_appends_nothing. Qed.

Theorem C05_failed_after_write_is_replay_failure : forall c s k, writes_once k = true ->
  tp (fst (step c s k)) = tp s \/
  exists s1 last ms hs ow ini, tp s1 = tp s /\ ms <> [] /\ step c s k = append_and_index c s1 last ms hs ow ini.
Proof. exact T05_failed_after_write_is_replay_failure. Qed.

Theorem C05_readonly_appends_nothing : forall c s k, c_readonly c = true -> guarded k = true ->
  tp (fst (step c s k)) = tp s.
Proof. exact T05_readonly_appends_nothing. Qed.

Print Assumptions C05_tape_is_archives.
Print Assumptions C05_step_appends_archives.
Print Assumptions C05_members_at_their_positions.
Print Assumptions C05_refused_precondition_appends_nothing.
Print Assumptions C05_failed_after_write_is_replay_failure.

(* in step with the tape ([Sync], the position part of the C01 invariant) before and after: a call that writes at most
   once and does not return OOk has appended nothing -- any configuration, any names *)
From STFS Require Import Norm C01Fs2 C01Rows T05Sync T05Strong.
Theorem C05_failed_call_appends_nothing_sync : forall c s k, 0 < c_rs c -> writes_once_fs k = true ->
  hbq_pos s -> Sync c s -> Sync c (fst (step c s k)) ->
  snd (step c s k) <> OOk -> tp (fst (step c s k)) = tp s.
Proof. exact T05_failed_call_appends_nothing_sync. Qed.

(* after every filesystem-level history (hypotheses of C01_rows_rebuilt_are_live_rows_any_config), for the next call *)
Theorem C05_failed_call_appends_nothing : forall c e r k e1, 0 < c_rs c -> c_readonly c = false ->
  forallb C01Rows.hb_ok ((CInitialize [slash], e) :: r ++ [(k, e1)]) = true ->
  safe true r = true ->
  forallb (fun ke => rename_ok (fst ke)) r = true ->
  forallb (fun ke => fs_call (fst ke)) (r ++ [(k, e1)]) = true ->
  writes_once_fs k = true ->
  let s := final c init_sys ((CInitialize [slash], e) :: r) in
  snd (step c (with_env s e1) k) <> OOk -> tp (fst (step c (with_env s e1) k)) = tp s.
Proof. exact T05_failed_call_appends_nothing. Qed.

Print Assumptions C05_failed_call_appends_nothing.

(* ... and for ALL the calls of the reference theorem C02 (MkdirAll, Rename and CreateFile included, which check
   preconditions between writes), in the states [Good] describes (the live entries form a tree), any configuration:
   a call that fails leaves the tape as it was -- one call, and along every history whose calls meet their preconditions *)
From STFS Require Import T02Ns T02Calls T02Spec T05Strong2.
Theorem C05_failed_call_appends_nothing_all_calls : forall (hr : bool) (c : cfg), 0 < c_rs c -> c_readonly c = false ->
  forall s e k, Good hr c s -> hb_env e -> call_pre (abs s) k ->
  snd (step c (with_env s e) k) <> OOk -> tp (fst (step c (with_env s e) k)) = tp s.
Proof. exact T05_failed_call_appends_nothing_T02_any_config. Qed.

Theorem C05_history_failed_calls_append_nothing : forall (hr : bool) (c : cfg), 0 < c_rs c -> c_readonly c = false ->
  forall r s, Good hr c s -> ok_run c s r -> failed_keep c s r.
Proof. exact T05_history_failed_calls_append_nothing_any_config. Qed.

Print Assumptions C05_failed_call_appends_nothing_all_calls.
Print Assumptions C05_history_failed_calls_append_nothing.

(* ---------- how the drive is opened for writing (regenerated: Gen/Consts.v tape_writer_opens, from pkg/tape/write.go).
   The model's tape is a list that calls extend; on the real drive "extend" is the operating system's append mode: every
   file handed to the tar writer is opened with O_APPEND and never with O_TRUNC, so that each write lands behind whatever
   the drive holds at that moment (also when something else appended in between), never on a position fixed at open time. *)
From Coq Require Import String.
From STFS Require Consts.
Open Scope string_scope.
Definition has_flag (f s : String.string) : bool := match String.index 0 f s with Some _ => true | None => false end.
Theorem C05_writer_opens_in_append_mode :
  forallb (fun p => negb (String.eqb (fst p) "returned") || (has_flag "os.O_APPEND" (snd p) && negb (has_flag "os.O_TRUNC" (snd p))))
          Consts.tape_writer_opens = true
  /\ (2 <= List.length (filter (fun p => String.eqb (fst p) "returned") Consts.tape_writer_opens))%nat
  /\ forallb (fun p => negb (has_flag "os.O_TRUNC" (snd p))) Consts.tape_writer_opens = true.
Proof. vm_compute. repeat split; try reflexivity; repeat constructor. Qed.
Print Assumptions C05_writer_opens_in_append_mode.
