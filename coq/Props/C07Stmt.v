(* The broad formalisation of C07 (all calls, including operation-level Archive with caller-supplied records);
   refuted in Proofs/T07Counter.v, proved for filesystem-level histories in Props/C07.v. *)
From Coq Require Import String List NArith ZArith Bool.
Import ListNotations.
From STFS Require Import Str Db Tape Index Ops Fs Diff Prefix Replay.
Open Scope N_scope.

Definition C07_full_statement : Prop :=
  forall c h j, 0 < c_rs c ->
    let t := tp (final c init_sys h) in
    (j <= length (all_members t))%nat ->
    res_ok (snd (rebuild c t)) = true ->
    let '(p, r) := replay_into c t (prefix_index c t j) in
    res_ok r = true /\ eqb_list eqb_row (visible p) (visible (fst (rebuild c t))) = true.

