(* C13 — the namespace is a well-formed tree; listings agree with lookups.
   PROVED for every history of filesystem-level calls (any length; plain configuration; the root itself is never
   removed or renamed onto): the live rows form a tree (unique names, every entry but the root has a live parent
   that is a directory, names are cleaned absolute) — C13_tree_all_histories; every directory listing exists and is
   exactly the live rows directly below the directory, each once, and every count-limited listing is a prefix of it
   of at most that length — C13_listing_all_histories; the walk from the root shows exactly the live rows, each once
   (down to the walk's depth 16) — C13_walk_all_histories.  Proofs/T13*.v.  C13_limit is the bare limit law, for any
   index.  Agreement of listings with Stat/Open on the implementation is decided by the walk oracle. *)
From Coq Require Import List NArith ZArith Bool Lia.
Import ListNotations.
From STFS Require Import Str Db Tape Index Ops Fs Diff Norm StrLemmas C01Str C01Fs2 C01Rows T13Def T13List T13View T13Tree.
Open Scope N_scope.

Theorem C13_limit : forall p name k l,
  snd (get_direct_children p name (Some k)) = Ok l -> (length l <= k)%nat \/ k = 0%nat.
Proof.
  intros p name k l. unfold get_direct_children.
  destruct (sanitize p name) as [p1 n].
  destruct (if is_root_name n then min_slashes (filter live (rows p1)) else Some 0) as [rd|]; [|discriminate].
  match goal with |- context [fold_left ?f ?l0 ?a] => destruct (fold_left f l0 a) as [p2 links] end.
  cbn [snd].
  match goal with |- context [filter ?f ?l0] => set (all := filter f l0) end.
  destruct ((length all <? S k)%nat || (length all =? 0)%nat) eqn:E; intro H; inversion H; subst l; clear H.
  - apply orb_true_iff in E as [E|E].
    + apply Nat.ltb_lt in E. left. lia.
    + apply Nat.eqb_eq in E. left. lia.
  - left. rewrite firstn_length. lia.
Qed.

Theorem C13_tree_all_histories : forall c e r, 0 < c_rs c -> c_readonly c = false -> c_csuf c = [] -> c_esuf c = [] ->
  forallb hb_ok ((CInitialize [slash], e) :: r) = true ->
  forallb (fun ke => call_ok (fst ke)) r = true -> forallb (fun ke => fs_call (fst ke)) r = true ->
  wf_tree (db (final c init_sys ((CInitialize [slash], e) :: r))).
Proof. exact T13_wf_all_histories. Qed.

Theorem C13_listing_all_histories : forall c e r, 0 < c_rs c -> c_readonly c = false -> c_csuf c = [] -> c_esuf c = [] ->
  forallb hb_ok ((CInitialize [slash], e) :: r) = true ->
  forallb (fun ke => call_ok (fst ke)) r = true -> forallb (fun ke => fs_call (fst ke)) r = true ->
  let p := db (final c init_sys ((CInitialize [slash], e) :: r)) in
  forall d, good d ->
    exists l, snd (get_direct_children p d None) = Ok l /\
      l = filter (fun x => live x && negb (eqb_str (r_name x) [slash]) && eqb_str (path_dir (r_name x)) d) (rows p) /\
      NoDup (map r_name l) /\
      (forall x, In x l <-> (In x (lrows p) /\ r_name x <> [slash] /\ path_dir (r_name x) = d)) /\
      (forall k lk, snd (get_direct_children p d (Some k)) = Ok lk -> exists j, (j <= k)%nat /\ lk = firstn j l).
Proof. exact T13_listing_all_histories. Qed.

Theorem C13_walk_all_histories : forall c e r, 0 < c_rs c -> c_readonly c = false -> c_csuf c = [] -> c_esuf c = [] ->
  forallb hb_ok ((CInitialize [slash], e) :: r) = true ->
  forallb (fun ke => call_ok (fst ke)) r = true -> forallb (fun ke => fs_call (fst ke)) r = true ->
  let s := final c init_sys ((CInitialize [slash], e) :: r) in
  exists l, view c s = map (ent c s) l /\ NoDup l /\
    forall x, In x l <-> (In x (lrows (db s)) /\ slash_count (r_name x) <= 16).
Proof. exact T13_view_all_histories. Qed.

Print Assumptions C13_limit.
Print Assumptions C13_tree_all_histories.
Print Assumptions C13_listing_all_histories.
Print Assumptions C13_walk_all_histories.

(* ---------- ANY CONFIGURATION (Proofs/Tcfg*.v): arbitrary codec suffixes and encoded sizes; no hypothesis replaces the
   plain configuration *)
From STFS Require Import TcfgThms.

Theorem C13_tree_all_histories_any_config : forall c e r, 0 < c_rs c -> c_readonly c = false ->
  forallb hb_ok ((CInitialize [slash], e) :: r) = true ->
  forallb (fun ke => call_ok (fst ke)) r = true -> forallb (fun ke => fs_call (fst ke)) r = true ->
  wf_tree (db (final c init_sys ((CInitialize [slash], e) :: r))).
Proof. exact T13_wf_all_histories_any_config. Qed.

Theorem C13_listing_all_histories_any_config : forall c e r, 0 < c_rs c -> c_readonly c = false ->
  forallb hb_ok ((CInitialize [slash], e) :: r) = true ->
  forallb (fun ke => call_ok (fst ke)) r = true -> forallb (fun ke => fs_call (fst ke)) r = true ->
  let p := db (final c init_sys ((CInitialize [slash], e) :: r)) in
  forall d, good d ->
    exists l, snd (get_direct_children p d None) = Ok l /\
      l = filter (fun x => live x && negb (eqb_str (r_name x) [slash]) && eqb_str (path_dir (r_name x)) d) (rows p) /\
      NoDup (map r_name l) /\
      (forall x, In x l <-> (In x (lrows p) /\ r_name x <> [slash] /\ path_dir (r_name x) = d)) /\
      (forall k lk, snd (get_direct_children p d (Some k)) = Ok lk -> exists j, (j <= k)%nat /\ lk = firstn j l).
Proof. exact T13_listing_all_histories_any_config. Qed.

Theorem C13_walk_all_histories_any_config : forall c e r, 0 < c_rs c -> c_readonly c = false ->
  forallb hb_ok ((CInitialize [slash], e) :: r) = true ->
  forallb (fun ke => call_ok (fst ke)) r = true -> forallb (fun ke => fs_call (fst ke)) r = true ->
  let s := final c init_sys ((CInitialize [slash], e) :: r) in
  exists l, view c s = map (ent c s) l /\ NoDup l /\
    forall x, In x l <-> (In x (lrows (db s)) /\ slash_count (r_name x) <= 16).
Proof. exact T13_view_all_histories_any_config. Qed.

Print Assumptions C13_tree_all_histories_any_config.
Print Assumptions C13_listing_all_histories_any_config.
Print Assumptions C13_walk_all_histories_any_config.
