(* C13 — listings: a count-limited listing returns at most that many entries.  DESIGN.md §3 C13. *)
From Coq Require Import List NArith ZArith Bool Lia.
Import ListNotations.
From STFS Require Import Str Db Tape Index Ops Fs StrLemmas.
Open Scope N_scope.

Theorem C13_limit : forall p name k l,
  snd (get_direct_children p name (Some k)) = Ok l -> (length l <= k)%nat \/ k = 0%nat.
Proof.
  intros p name k l. unfold get_direct_children.
  destruct (sanitize p name) as [p1 n].
  destruct (if is_root_name n then min_slashes (filter live (rows p1)) else Some 0) as [rd|]; [|discriminate].
  match goal with |- context [fold_left ?f ?l0 ?a] => destruct (fold_left f l0 a) as [p2 links] end.
  cbn [snd].
  match goal with |- context [filter ?f ?l0] => set (all := filter f l0) end.
  destruct ((length all <? S k)%nat || (length all =? 0)%nat) eqn:E; intro H; inversion H; subst l; clear H.
  - apply orb_true_iff in E as [E|E].
    + apply Nat.ltb_lt in E. left. lia.
    + apply Nat.eqb_eq in E. left. lia.
  - left. rewrite firstn_length. lia.
Qed.

Print Assumptions C13_limit.
