(* C11 — concurrent callers see a linearizable, race-free filesystem.
   What is proved (all of it re-checked on every run against the skeleton regenerated from /repo):
   (a) lock order: on every path of every exported call and of every goroutine body, locks are requested in the
       fixed order ioLock < opLock@R < opLock@W < drive < readerLock, never twice, and none is held at the exit;
   (b) atomicity: in every method of STFS and File, every action on state shared between callers happens while
       the call holds ioLock; the only tolerated exceptions are read-only look-ups before the lock is taken, and
       the methods that make them are exactly Create and SymlinkIfPossible; every method is one critical section
       (ReadAt used to be two: Seek then Read; repaired);
   (c) generic (Proofs/Conc.v, any number of threads, any interleaving): ordered acquisition => no deadlock among
       lock waits; sections under one mutex => linearizable in release order, respecting real time; instantiated
       with the M1 model's step as the sequential specification;
   (d) the known finding: the streaming read goroutine waits for its consumer while holding the drive: an explicit
       configuration in which every thread is blocked, and where the order premise of (c) fails.
   Data-race freedom is tested (race detector), not proved.  The step from (b) to the machine of (c) -- that a
   method's effect on the shared state, given exclusive access, is M1's step -- is the M1 correspondence of the
   sequential differential runs, re-checked on the linearizations the concurrent harness finds. *)
From Coq Require Import List Bool Arith NArith ZArith String Lia.
Import ListNotations.
From STFS Require Import Skel Sound Events Check Locks Atomic Entries Skeleton Conc.
From STFS Require Consts.
From STFS Require Str Db Tape Index Ops Fs Diff.
Open Scope string_scope.

Definition allow_spawn : list string :=
  ["fs.File.readWithoutLocking$go1"; "fs.File.seekWithoutLocking$go1"; "fs.File.readWithoutLocking$go1#1"; "fs.File.seekWithoutLocking$go1#1"].
Definition C11_entries : list string := api_entries ++ spawned.

(* ---------- (a) lock order ---------- *)
Definition order_ok (f : string) : bool := check table prims_fixed (ostep flags allow_spawn) 40 40 ok_exit 0%N f.
Theorem C11_lock_order : forallb order_ok C11_entries = true.
Proof. vm_compute. reflexivity. Qed.
Theorem C11_lock_order_sem : forall f, List.In f C11_entries ->
  exists body, lookup f table = Some body /\
    forall t x, exec (prog table prims_fixed) body t x -> is_fn_exit x = true ->
      ok_exit x (mrun (ostep flags allow_spawn) 0%N t) = true.
Proof.
  intros f Hf. apply check_sound with (fuel := 40%nat) (lfuel := 40%nat).
  pose proof C11_lock_order as H. rewrite forallb_forall in H. exact (H f Hf).
Qed.

(* what the monitor's acceptance of a lock request means for the configuration of Part A of Conc.v *)
Definition held_of (q : N) : list nat := filter (fun j => N.testbit q (N.of_nat j)) [0; 1; 2; 3; 4]%nat.
Lemma order_link : forall q m i,
  (q =? ERR)%N = false -> (q =? DEAD)%N = false -> lock_ix m = Some i ->
  ostep flags allow_spawn q (Lk m) <> ERR ->
  ordered {| held := held_of q; want := Some (N.to_nat i) |}.
Proof.
  intros q m i He Hd Hi Hacc l Hw h Hh. cbn in Hw. injection Hw as <-.
  unfold ostep in Hacc. rewrite He, Hd in Hacc. cbn [orb] in Hacc. rewrite Hi in Hacc.
  destruct (N.shiftr (N.land q lock_mask) i =? 0)%N eqn:Es; [|exfalso; apply Hacc; reflexivity].
  apply N.eqb_eq in Es.
  unfold held_of in Hh. apply filter_In in Hh as (Hin & Hb).
  destruct (lt_dec h (N.to_nat i)) as [Hlt|Hge]; [exact Hlt|exfalso].
  assert (N.testbit (N.shiftr (N.land q lock_mask) i) (N.of_nat h - i) = true) as Hbit.
  { rewrite N.shiftr_spec by apply N.le_0_l. replace (N.of_nat h - i + i)%N with (N.of_nat h) by lia.
    rewrite N.land_spec, Hb. cbn [andb].
    cbn in Hin. unfold lock_mask. destruct Hin as [<-|[<-|[<-|[<-|[<-|[]]]]]]; reflexivity. }
  rewrite Es in Hbit. rewrite N.bits_0 in Hbit. discriminate.
Qed.

(* ---------- (b) atomicity under ioLock ---------- *)
Definition fs_methods : list string := filter (fun f => String.prefix "fs.STFS." f || String.prefix "fs.File." f) exported.
Definition atomic_ok (f : string) : bool := check table prims_fixed astep 40 40 a_exit 0%N f.
Theorem C11_atomic : forallb atomic_ok fs_methods = true.
Proof. vm_compute. reflexivity. Qed.
Theorem C11_atomic_sem : forall f, List.In f fs_methods ->
  exists body, lookup f table = Some body /\
    forall t x, exec (prog table prims_fixed) body t x -> is_fn_exit x = true -> a_exit x (mrun astep 0%N t) = true.
Proof.
  intros f Hf. apply check_sound with (fuel := 40%nat) (lfuel := 40%nat).
  pose proof C11_atomic as H. rewrite forallb_forall in H. exact (H f Hf).
Qed.
(* the methods that look something up before taking the lock, and the ones with more than one section: exactly these *)
Theorem C11_prelock_reads_exact :
  filter (fun f => negb (check table prims_fixed astep 40 40 a_exit_strict 0%N f)) fs_methods = ["fs.STFS.Create"; "fs.STFS.SymlinkIfPossible"].
Proof. vm_compute. reflexivity. Qed.
Theorem C11_single_section_exact :
  filter (fun f => negb (check table prims_fixed astep 40 40 a_exit_single 0%N f)) fs_methods = [].
Proof. vm_compute. reflexivity. Qed.

(* the look-ups that Create and SymlinkIfPossible make BEFORE taking the lock run next to another caller's locked section: they go
   through the index store, whose connection pool is limited to ONE connection in the regenerated constants (Gen/Consts.v, from
   internal/persisters/sqlite.go), so such a look-up queues behind the other caller's statement instead of meeting a locked database *)
Theorem C11_index_store_single_connection : Consts.index_store_pool = [("SetMaxOpenConns", "1")].
Proof. reflexivity. Qed.

Example C11_monitors_nonvacuous :
  (* a look-up between two locked sections, an index action after the unlock, a lock taken against the order *)
  a_exit XN (mrun astep 0%N [Lk "ioLock"; Ul "ioLock"; Enter "inventory.Stat"; Lk "ioLock"; Ul "ioLock"]) = false /\
  a_exit XN (mrun astep 0%N [Lk "ioLock"; Ul "ioLock"; Enter "operations.Operations.Archive@W"]) = false /\
  a_exit XN (mrun astep 0%N [Enter "operations.Operations.Delete@W"]) = false /\
  a_exit XN (mrun astep 0%N [Lk "ioLock"; Enter "inventory.Stat"; Enter "operations.Operations.Delete@W"; Ul "ioLock"]) = true /\
  ok_exit XN (mrun (ostep flags allow_spawn) 0%N [Lk "drive"; Lk "ioLock"; Ul "ioLock"; Ul "drive"]) = false /\
  ok_exit XN (mrun (ostep flags allow_spawn) 0%N [Lk "ioLock"; Lk "opLock@W"; Lk "drive"; Ul "drive"; Ul "opLock@W"; Ul "ioLock"]) = true /\
  (30 <= List.length fs_methods)%nat.
Proof. vm_compute. repeat split; try reflexivity; repeat constructor. Qed.

(* ---------- (c) consequences, for any number of threads and any interleaving ---------- *)
Theorem C11_no_deadlock_among_locks : forall threads : list tstate,
  threads <> [] -> Forall ordered threads -> exists ts, In ts threads /\ can_step threads ts.
Proof. exact ordered_no_deadlock. Qed.

(* the machine of Conc.v with M1's step as the critical section of a call *)
Section M1.
  Variable c : Index.cfg.
  Definition Op := (Fs.call * Diff.env)%type.
  Definition Loc := (Op * option Ops.outc)%type.
  Definition m1_start (o : Op) : Loc := (o, None).
  Definition m1_micro (l : Loc) (s : Ops.sys) : Loc * Ops.sys :=
    let '(s', r) := Fs.step c (Diff.with_env s (snd (fst l))) (fst (fst l)) in ((fst l, Some r), s').
  Definition m1_result (l : Loc) : option Ops.outc := snd l.

  Lemma m1_seq_op o s s' r :
    seq_op Ops.sys Op Ops.outc Loc m1_start m1_micro m1_result o s s' r -> Fs.step c (Diff.with_env s (snd o)) (fst o) = (s', r).
  Proof.
    intros (l & Hst & Hres). inversion Hst as [|l0 s0 l1 s1 l2 s2 Hr Hm Hrest]; subst.
    - cbn in Hres. discriminate.
    - unfold m1_micro, m1_start in Hm. cbn [fst snd] in Hm.
      destruct (Fs.step c (Diff.with_env s (snd o)) (fst o)) as [sa ra] eqn:E. injection Hm as <- <-.
      inversion Hrest as [|l0 s0 l3 s3 l4 s4 Hr2 Hm2 Hrest2]; subst.
      + cbn in Hres. injection Hres as <-. reflexivity.
      + cbn in Hr2. discriminate.
  Qed.

  (* every interleaved execution of calls whose sections are M1 steps ends, when nobody is inside a section, in
     the state of M1's sequential run of the completed calls in release order, with M1's outcomes *)
  Theorem C11_m1_linearizable : forall s0 tr cf,
    reach Ops.sys Op Ops.outc Loc m1_start m1_micro m1_result (init Ops.sys Op Loc s0) tr cf ->
    owner Ops.sys Op Loc cf = None ->
    seq_run Ops.sys Op Ops.outc Loc m1_start m1_micro m1_result (lin Op Ops.outc tr) s0 (sh Ops.sys Op Loc cf).
  Proof. intros s0 tr cf. apply mutex_linearizable. Qed.

  Theorem C11_m1_final_is_sequential : forall h s0 s1,
    seq_run Ops.sys Op Ops.outc Loc m1_start m1_micro m1_result h s0 s1 ->
    s1 = Diff.final c s0 (map (fun x => snd (fst x)) h).
  Proof.
    intros h s0 s1 H. induction H as [s|t o r rest s sa sb Hop _ IH]; [reflexivity|].
    cbn [map Diff.final fst snd]. apply m1_seq_op in Hop. destruct o as [k e]. cbn [fst snd] in *.
    rewrite Hop. cbn [fst]. exact IH.
  Qed.
End M1.

(* ---------- (d) the streaming read goroutine (known finding C10-read-goroutine) ---------- *)
(* ranks: 0 ioLock, 1 opLock@R, 2 opLock@W, 3 drive, 5 "the pipe has been drained" (released by the consumer's Read).
   consumer: has bytes pending in its pipe, its next Read needs ioLock; writer: inside a mutating call, holds ioLock and
   opLock@W, needs the drive; read goroutine: holds opLock@R and the drive, waits for the pipe to be drained. *)
Definition stream_cfg : list tstate :=
  [ {| held := [5]; want := Some 0 |}; {| held := [0; 2]; want := Some 3 |}; {| held := [1; 3]; want := Some 5 |} ]%nat.
Theorem C11_stream_refuted :
  (forall ts, In ts stream_cfg -> ~ can_step stream_cfg ts) /\ ~ Forall ordered stream_cfg.
Proof.
  split.
  - intros ts [<-|[<-|[<-|[]]]] H; unfold can_step, free in H; cbn in H.
    + apply (H {| held := [0; 2]; want := Some 3 |}%nat); cbn; auto.
    + apply (H {| held := [1; 3]; want := Some 5 |}%nat); cbn; auto.
    + apply (H {| held := [5]; want := Some 0 |}%nat); cbn; auto.
  - intro H. inversion H as [|x l Hx _]; subst. specialize (Hx 0%nat eq_refl 5%nat (or_introl eq_refl)). lia.
Qed.

Print Assumptions C11_lock_order_sem.
Print Assumptions C11_atomic_sem.
Print Assumptions order_link.
Print Assumptions C11_no_deadlock_among_locks.
Print Assumptions C11_m1_linearizable.
Print Assumptions C11_m1_final_is_sequential.
Print Assumptions C11_stream_refuted.
