(* C08 — with signatures on, nothing unsigned or altered is ever accepted (control-flow half, M2).
   Over the skeleton regenerated from the current source:
   (a) VerifyString, VerifyHeader and the closures returned by Verify report success under a signature
       format other than "none" only after the library's verification call reported success;
   (b) Index enters indexHeader, and Query/Fetch invoke their callbacks / hand out content, only after the
       header verifier accepted the header of the same loop iteration; Fetch returns nil only when the
       content verifier accepted as well;
   (c) every call of recovery.Index outside the write operations passes a verifier that is a tail call of
       signature.VerifyHeader; the write operations (which index what they just signed) are the only
       callers that pass a no-op verifier.
   DESIGN.md §3 C08.  The cryptographic half (unforgeability) is an assumption; the forgery stream tests
   the whole on the implementation. *)
From Coq Require Import List Bool NArith String.
Import ListNotations.
From STFS Require Import Skel Sound Events Check Locks Verify Entries Skeleton.
Open Scope string_scope.

Definition vcheck (extra : list string) (q0 : N) (f : string) : bool :=
  check table prims_fixed (vstep extra) 40 40 v_exit q0 f.

(* the closures Verify returns, found by their enclosing function *)
Definition verify_closures : list string :=
  filter (fun f => String.prefix "signature.Verify$ret" f) (map fst table).

Theorem C08_verify_string : vcheck [] 0%N "signature.VerifyString" = true.
Proof. vm_compute. reflexivity. Qed.
Theorem C08_verify_header : vcheck ["signature.VerifyString"] 0%N "signature.VerifyHeader" = true.
Proof. vm_compute. reflexivity. Qed.
Theorem C08_verify_content : forallb (vcheck [] 0%N) verify_closures = true /\ List.length verify_closures = 3%nat.
Proof. vm_compute. split; reflexivity. Qed.

Definition icheck (check_ret : bool) (f : string) : bool :=
  check table prims_fixed (istep check_ret) 40 40 i_exit 0%N f.
Theorem C08_index_after_verify : icheck false "recovery.Index" = true /\ icheck false "recovery.Query" = true.
Proof. vm_compute. split; reflexivity. Qed.
Theorem C08_fetch_after_verify : icheck true "recovery.Fetch" = true.
Proof. vm_compute. reflexivity. Qed.

(* (c) the verifier argument (index 11) at every call site of recovery.Index *)
Definition index_sites : list (string * string) :=
  flat_map (fun c => let '(caller, callee, i, arg) := c in
                     if String.eqb callee "recovery.Index" && String.eqb i "11" then [(caller, arg)] else []) callsites.
Definition write_path (caller : string) : bool := String.prefix "operations.Operations." caller.
(* a verifier literal is genuine if its only successful exit is the tail call of signature.VerifyHeader *)
Definition genuine_verifier (lit : string) : bool := vcheck ["signature.VerifyHeader"] 2%N lit.
Theorem C08_callers_pass_the_verifier :
  forallb (fun s => write_path (fst s) || genuine_verifier (snd s)) index_sites = true
  /\ existsb (fun s => negb (write_path (fst s))) index_sites = true.
Proof. vm_compute. split; reflexivity. Qed.

Theorem C08_sem : forall f, List.In f ["signature.VerifyString"] ->
  exists body, lookup f table = Some body /\
    forall t x, exec (prog table prims_fixed) body t x -> is_fn_exit x = true ->
      v_exit x (mrun (vstep []) 0%N t) = true.
Proof.
  intros f [<-|[]]. apply check_sound with (fuel := 40%nat) (lfuel := 40%nat). exact C08_verify_string.
Qed.

(* non-vacuity: the monitor rejects a verifier that returns nil without verifying (the write paths' no-op) *)
Example C08_nonvacuous :
  existsb (fun s => write_path (fst s) && negb (genuine_verifier (snd s))) index_sites = true.
Proof. vm_compute. reflexivity. Qed.

Print Assumptions C08_sem.
