(* C16 / transfer (T25): "every history theorem transfers through the writer twin" - as theorems.
   The history theorems of C13 (tree, listing = children, walk = live rows), C02 (every call conforms to the reference
   filesystem operation) and C04 (a read returns what was last written) are stated in Props/C13.v, C02.v, C04.v for the
   instance that wrote the tape from [init_sys] (absolute names, cached root "/").  Here they are proved for
   (A) the instance that CONTINUES FROM A REBUILT INDEX ([reader_of c s ...]: Initialize over the writer's tape and an
       absent index; relative spelling "" / "a/f", cached root ""), after any further history r2 of filesystem-level
       calls - ANY configuration -, through the simulation of T19 (Proofs/T19*.v);
   (B) an OPENED FOREIGN ARCHIVE, styles "./" and "/", after any history of filesystem-level calls - plain
       configuration, as T20 -, through the writer twin of T20 (Proofs/T20*.v);
   (C) a foreign archive below a NAMED TOP directory (stored names "top", "top/d/f"), through T23 (Proofs/T23*.v).
   The statements are about the reader's OWN index, calls and walk.  Where C13 / C04 speak about index rows in the absolute
   spelling, the reader's statement uses its stored spelling: the absolute name of a row is [slash :: r_name r], the
   parent row is named [norm_name (path_dir (slash :: r_name r))], the root row is "" (A, B); for (C) the stored names
   are "top/..." and [path_dir] applies to them directly.  A directory may be asked for in either spelling
   ([nrel d nr]: nr = d or nr = norm_name d).
   Each theorem holds after r2 for EVERY r2 that meets the hypotheses, hence after every call of such a history.
   Proofs/T25Core.v (one pair of related states), T25Abs.v (any configuration; namespaces, contents), T25Reader.v (A),
   T25Foreign.v (B), T25Named.v (C), T25Test.v (the theorems applied to concrete histories, computed facts). *)
From Coq Require Import List NArith ZArith Bool.
Import ListNotations.
From STFS Require Import Str Db Tape Index Ops Fs File Diff Norm C01Str C01Sim C01Fs2 C01Rows
  T02Ns T02Spec T04Def T04Content T13Def T17Tree T17View T19Rel T19Cfg T20Twin T20Good
  T25Core T25Abs T25Reader T25Foreign.
From STFS Require T13ListStr T13View T20Abs T23Rel T23Main T25Named.
Open Scope N_scope.

(* ===================================================================================================
   (A) the instance continuing from a rebuilt index; any configuration
   =================================================================================================== *)

(* C13: tree (C13_tree_all_histories), listing (C13_listing_all_histories), walk (C13_walk_all_histories) *)
Theorem C16_reader_C13 : forall c e r r2, 0 < c_rs c -> c_readonly c = false ->
  forallb hb_ok ((CInitialize [slash], e) :: r) = true ->
  forallb (fun ke => fs_call (fst ke)) r = true -> forallb (fun ke => call_ok (fst ke)) r = true ->
  forallb (fun ke => fs_call (fst ke)) r2 = true -> forallb (fun ke => call_ok (fst ke)) r2 = true -> forallb hb_ok r2 = true ->
  forall rootp q1 q2 k,
  let s := final c init_sys ((CInitialize [slash], e) :: r) in
  let sr' := final c (reader_of c s rootp q1 q2 k) r2 in
  let s' := final c s r2 in
  let p := db sr' in
  (* the live rows of the reader's index form a tree: unique names; every live row but the root "" has a live parent row
     that is a directory; names are cleaned absolute names without their leading slash *)
  (NoDup (map r_name (lrows p)) /\
   (forall x, In x (lrows p) -> r_name x <> [] ->
      exists q, In q (lrows p) /\ r_name q = norm_name (path_dir (slash :: r_name x)) /\ r_tf q = TypeDir) /\
   (forall x, In x (lrows p) -> good (slash :: r_name x))) /\
  (* every directory listing (either spelling of d) exists and is exactly the live rows directly below d, each once, in
     index order; a count-limited listing is a prefix of at most that length; it is the writer's listing row by row *)
  (forall d nr, good d -> nrel d nr ->
    exists l, snd (get_direct_children p nr None) = Ok l /\
      l = filter (fun x => live x && negb (eqb_str (r_name x) []) && eqb_str (path_dir (slash :: r_name x)) d) (rows p) /\
      NoDup (map r_name l) /\
      (forall x, In x l <-> (In x (lrows p) /\ r_name x <> [] /\ path_dir (slash :: r_name x) = d)) /\
      (forall j lk, snd (get_direct_children p nr (Some j)) = Ok lk -> exists i, (i <= j)%nat /\ lk = firstn i l) /\
      rows_rel (filter (T13ListStr.childp d) (rows (db s'))) l /\
      snd (inv_list p nr None) = Ok (map hdr_of_row l)) /\
  (* the walk from the root shows the writer's tree: exactly the live rows of the reader's index (to depth 16), each once *)
  view c sr' = view c s' /\
  (exists l, view c sr' = map (fun x => entry_of c sr' (slash :: r_name x) (hdr_of_row x)) l /\ NoDup l /\
     forall x, In x l <-> (In x (lrows p) /\ slash_count (slash :: r_name x) <= 16)).
Proof. intros c e r r2 Hrs Hro. exact (T25_reader_C13 c Hrs Hro e r r2). Qed.

(* C02 (C02_history): every call of r2 on the reader returns the reference's outcome and leaves the reference's namespace,
   the reference being run on the reader's own namespace with the names spelled absolutely ([abs_rd]); the preconditions
   [ok_run_rd] are C02's [ok_run], read on the reader *)
Theorem C16_reader_C02 : forall c e0 r r2, 0 < c_rs c -> c_readonly c = false -> hb_env e0 ->
  let s0 := fst (step c (with_env init_sys e0) (CInitialize [slash])) in
  ok_run c s0 r ->
  forall rootp q1 q2 k,
  let s := final c s0 r in
  let sr := reader_of c s rootp q1 q2 k in
  ok_run_rd c sr r2 ->
  conforms_rd c sr r2 /\
  map ob_out (run c sr r2) = map ob_out (run c s r2) /\
  conforms c s r2 /\ abs_rd sr = abs s /\ abs_rd (final c sr r2) = abs (final c s r2).
Proof. intros c e0 r r2 Hrs Hro. exact (T25_reader_C02 c Hrs Hro e0 r r2). Qed.

(* what [conforms_rd] and [ok_run_rd] say, one call at a time *)
Theorem C16_conforms_rd_step : forall c s k e r,
  conforms_rd c s ((k, e) :: r) <->
  ((exists cid sp, spec_call c (abs_rd s) k (ev_now e) cid = Some sp /\
      snd (step c (with_env s e) k) = snd sp /\ ns_eq (abs_rd (fst (step c (with_env s e) k))) (fst sp)) /\
   conforms_rd c (fst (step c (with_env s e) k)) r).
Proof. intros c s k e r. cbn [conforms_rd]. destruct (step c (with_env s e) k) as [s' o]. reflexivity. Qed.

Theorem C16_abs_rd_lookup : forall s n, lookup (abs_rd s) (slash :: n) = lookup (abs s) n.
Proof. exact lookup_abs_rd. Qed.

(* C04 (C04_read_is_last_written, C04_walk_shows_last_written, C04_positions_designate_content) *)
Theorem C16_reader_C04 : forall c e0 r r2, 0 < c_rs c -> c_readonly c = false -> hb_env e0 ->
  ok_run4 true r -> forallb (fun ke => fs_call (fst ke)) r = true ->
  ok_run4 true r2 -> forallb (fun ke => fs_call (fst ke)) r2 = true ->
  forall rootp q1 q2 k,
  let h := (CInitialize [slash], e0) :: r in
  let s := final c init_sys h in
  let sr := reader_of c s rootp q1 q2 k in
  let sr' := final c sr r2 in
  let w0 := last_written c init_sys h w_empty in
  (forall m nr, good m -> nrel m nr -> content_eq (content_of c sr' nr) (last_written c sr r2 w0 m)) /\
  (forall e, In e (view c sr') -> content_eq (e_data e) (last_written c sr r2 w0 (e_path e))) /\
  (forall x, In x (rows (db sr')) -> live x = true -> tf_regular (r_tf x) = true ->
     exists m, member_at (tp sr') (off_of (c_rs c) (r_rec x) (r_blk x)) = Some m /\
               is_content_record m (r_size x) /\
               content_eq (Some (mdata m)) (last_written c sr r2 w0 (slash :: r_name x))) /\
  last_written c sr r2 w0 = last_written c init_sys (h ++ r2) w_empty.
Proof. intros c e0 r r2 Hrs Hro. exact (T25_reader_C04 c Hrs Hro e0 r r2). Qed.

(* the state-level transfer behind (A) and (B): any pair in the simulation [SimC] (T19's [Sim] for a plain configuration) *)
Theorem C16_transfer_C13 : forall c sa sr, SimC c sa sr -> wf_tree (db sa) -> T13Def.idx_plain (db sa) ->
  wf_tree_rel (db sr) /\
  (forall d nr, good d -> nrel d nr ->
    exists l, snd (get_direct_children (db sr) nr None) = Ok l /\
      l = filter (childp_rel d) (rows (db sr)) /\
      NoDup (map r_name l) /\
      (forall x, In x l <-> (In x (lrows (db sr)) /\ r_name x <> [] /\ path_dir (slash :: r_name x) = d)) /\
      (forall k lk, snd (get_direct_children (db sr) nr (Some k)) = Ok lk -> exists j, (j <= k)%nat /\ lk = firstn j l) /\
      rows_rel (filter (T13ListStr.childp d) (rows (db sa))) l /\
      snd (inv_list (db sr) nr None) = Ok (map hdr_of_row l)) /\
  view c sr = view c sa /\
  (exists l, view c sr = map (ent_rd c sr) l /\ NoDup l /\
     forall x, In x l <-> (In x (lrows (db sr)) /\ slash_count (slash :: r_name x) <= 16)).
Proof. exact T25_C13_rd. Qed.

Theorem C16_transfer_C02 : forall c, 0 < c_rs c -> c_readonly c = false ->
  forall hr r sa sr, SimC c sa sr -> Good hr c sa -> ok_run_rd c sr r ->
  conforms_rd c sr r /\ map ob_out (run c sr r) = map ob_out (run c sa r) /\
  SimC c (final c sa r) (final c sr r) /\ Good hr c (final c sa r).
Proof. exact T25_history_rd. Qed.

Theorem C16_transfer_C04 : forall c, 0 < c_rs c -> c_readonly c = false ->
  forall r sa sr w, SimC c sa sr -> Good4 true c sa ->
  (forall m, good m -> content_eq (content_of c sa m) (w m)) ->
  ok_run4 true r -> forallb (fun ke => fs_call (fst ke)) r = true ->
  SimC c (final c sa r) (final c sr r) /\ Good4 true c (final c sa r) /\
  (forall m nr, good m -> nrel m nr -> content_eq (content_of c (final c sr r) nr) (last_written c sr r w m)) /\
  (forall e, In e (view c (final c sr r)) -> content_eq (e_data e) (last_written c sr r w (e_path e))).
Proof. exact T25_read_is_last_written_rd. Qed.

(* Stat on the reader, with either spelling of a name: the row the writer finds, up to the spelling *)
Theorem C16_transfer_stat : forall c sa sr g nr, SimC c sa sr -> good g -> nrel g nr ->
  match C01Db.find_rows (rows (db sa)) g with
  | Some d => exists hr, snd (stat_s sr nr false) = Ok hr /\ hrel (hdr_of_row d) hr /\ snd (stat_s sa g false) = Ok (hdr_of_row d)
  | None => snd (stat_s sr nr false) = NoRows /\ snd (stat_s sa g false) = NoRows
  end.
Proof. intros c sa sr g nr H G Hn. exact (T25_stat_rd sa sr g nr (SimC_PR c sa sr H) G Hn). Qed.

Print Assumptions C16_reader_C13.
Print Assumptions C16_reader_C02.
Print Assumptions C16_reader_C04.
Print Assumptions C16_transfer_C13.
Print Assumptions C16_transfer_C02.
Print Assumptions C16_transfer_C04.

(* ===================================================================================================
   (B) an opened foreign archive, styles "./" and "/" (stored root ""); plain configuration
   =================================================================================================== *)

(* C13: no bound on the members' sizes is needed *)
Theorem C17_foreign_C13 : forall c st t h, plain c -> 0 < c_rs c -> c_readonly c = false ->
  wf_style st -> style_root st = [] -> wf t ->
  forallb (fun ke => fs_call (fst ke)) h = true -> forallb (fun ke => call_ok (fst ke)) h = true -> forallb hb_ok h = true ->
  let sr' := final c (opened c (archive_of st t)) h in
  let sa' := final c (twin c st t) h in
  let p := db sr' in
  (NoDup (map r_name (lrows p)) /\
   (forall x, In x (lrows p) -> r_name x <> [] ->
      exists q, In q (lrows p) /\ r_name q = norm_name (path_dir (slash :: r_name x)) /\ r_tf q = TypeDir) /\
   (forall x, In x (lrows p) -> good (slash :: r_name x))) /\
  (forall d nr, good d -> nrel d nr ->
    exists l, snd (get_direct_children p nr None) = Ok l /\
      l = filter (fun x => live x && negb (eqb_str (r_name x) []) && eqb_str (path_dir (slash :: r_name x)) d) (rows p) /\
      NoDup (map r_name l) /\
      (forall x, In x l <-> (In x (lrows p) /\ r_name x <> [] /\ path_dir (slash :: r_name x) = d)) /\
      (forall j lk, snd (get_direct_children p nr (Some j)) = Ok lk -> exists i, (i <= j)%nat /\ lk = firstn i l) /\
      rows_rel (filter (T13ListStr.childp d) (rows (db sa'))) l /\
      snd (inv_list p nr None) = Ok (map hdr_of_row l)) /\
  view c sr' = view c sa' /\
  (exists l, view c sr' = map (fun x => entry_of c sr' (slash :: r_name x) (hdr_of_row x)) l /\ NoDup l /\
     forall x, In x l <-> (In x (lrows p) /\ slash_count (slash :: r_name x) <= 16)).
Proof. intros c st t h HP Hrs Hro Hs Hsr Hwf. exact (T25_foreign_C13 c st t HP Hrs Hs Hsr Hwf Hro h). Qed.

(* C02: the reference starts from the namespace of the tree *)
Theorem C17_foreign_C02 : forall c st t h, plain c -> 0 < c_rs c -> c_readonly c = false ->
  wf_style st -> style_root st = [] -> wf t -> sizes_bounded t ->
  let sr := opened c (archive_of st t) in
  let sa := twin c st t in
  ok_run_rd c sr h ->
  abs_rd sr = T20Abs.namespace_of c t /\
  conforms_rd c sr h /\
  map ob_out (run c sr h) = map ob_out (run c sa h) /\
  conforms c sa h /\ abs_rd (final c sr h) = abs (final c sa h).
Proof. intros c st t h HP Hrs Hro Hs Hsr Hwf He. exact (T25_foreign_C02 c st t HP Hrs Hs Hsr Hwf Hro He h). Qed.

(* C04: the members' data count as written ([w_tree t]: the data of the regular member at that path) *)
Theorem C17_foreign_C04 : forall c st t h, plain c -> 0 < c_rs c -> c_readonly c = false ->
  wf_style st -> style_root st = [] -> wf t -> sizes_bounded t ->
  ok_run4 true h -> forallb (fun ke => fs_call (fst ke)) h = true ->
  let sr := opened c (archive_of st t) in
  let sr' := final c sr h in
  (forall m nr, good m -> nrel m nr -> content_of c sr nr = w_tree t m) /\
  (forall m nr, good m -> nrel m nr -> content_eq (content_of c sr' nr) (last_written c sr h (w_tree t) m)) /\
  (forall e, In e (view c sr') -> content_eq (e_data e) (last_written c sr h (w_tree t) (e_path e))) /\
  (forall x, In x (rows (db sr')) -> live x = true -> tf_regular (r_tf x) = true ->
     exists m, member_at (tp sr') (off_of (c_rs c) (r_rec x) (r_blk x)) = Some m /\
               is_content_record m (r_size x) /\
               content_eq (Some (mdata m)) (last_written c sr h (w_tree t) (slash :: r_name x))) /\
  last_written c sr h (w_tree t) = last_written c (twin c st t) h (w_tree t).
Proof. intros c st t h HP Hrs Hro Hs Hsr Hwf He. exact (T25_foreign_C04 c st t HP Hrs Hs Hsr Hwf Hro He h). Qed.

(* the twin is a state of the C04 theorems; what it reads before any call *)
Theorem C17_twin_Good4 : forall c st t, plain c -> 0 < c_rs c -> wf_style st -> style_root st = [] -> wf t -> sizes_bounded t ->
  Good4 true c (twin c st t).
Proof. exact T25_twin_Good4. Qed.

Theorem C17_twin_content : forall c st t, plain c -> 0 < c_rs c -> wf_style st -> style_root st = [] -> wf t ->
  forall m, good m -> content_of c (twin c st t) m = w_tree t m.
Proof. exact T25_twin_content. Qed.

Print Assumptions C17_foreign_C13.
Print Assumptions C17_foreign_C02.
Print Assumptions C17_foreign_C04.

(* ===================================================================================================
   (C) a foreign archive below a NAMED TOP directory (stored names "top", "top/d/f"; cached root "top"); plain
   configuration.  The history [h] is given in absolute names ("/d/f": what the reference and the twin read); the named
   instance receives [T23Rel.ren_hist top h] (names "top/d/f" = [T23Rel.psi top] of them).  [clean_call]: cleaned names.
   =================================================================================================== *)
Theorem C17_named_C13 : forall c top st t h, plain c -> 0 < c_rs c -> c_readonly c = false ->
  okc top -> wf_style st -> style_root st = [] -> wf t ->
  forallb (fun ke => fs_call (fst ke)) h = true -> forallb (fun ke => call_ok (fst ke)) h = true ->
  forallb (fun ke => T23Main.clean_call (fst ke)) h = true -> forallb hb_ok h = true ->
  let sn' := final c (opened c (archive_of (Named top) t)) (T23Rel.ren_hist top h) in
  let sa' := final c (twin c st t) h in
  let p := db sn' in
  (* the tree, in the stored spelling "top/..." *)
  (NoDup (map r_name (lrows p)) /\
   (forall x, In x (lrows p) -> r_name x <> top ->
      exists q, In q (lrows p) /\ r_name q = path_dir (r_name x) /\ r_tf q = TypeDir) /\
   (forall x, In x (lrows p) -> exists g, good g /\ r_name x = T23Rel.psi top g)) /\
  (* listing = direct children *)
  (forall d, good d ->
    exists l, snd (get_direct_children p (T23Rel.psi top d) None) = Ok l /\
      l = filter (fun x => live x && negb (eqb_str (r_name x) top) && eqb_str (path_dir (r_name x)) (T23Rel.psi top d)) (rows p) /\
      NoDup (map r_name l) /\
      (forall x, In x l <-> (In x (lrows p) /\ r_name x <> top /\ path_dir (r_name x) = T23Rel.psi top d)) /\
      (forall j lk, snd (get_direct_children p (T23Rel.psi top d) (Some j)) = Ok lk -> exists i, (i <= j)%nat /\ lk = firstn i l) /\
      T23Rel.rows_rel top (filter (T13ListStr.childp d) (rows (db sa'))) l /\
      snd (inv_list p (T23Rel.psi top d) None) = Ok (map hdr_of_row l)) /\
  (* the walk from "top" = the twin's walk renamed = the live rows *)
  view_at c sn' top = map (T23Rel.ren_entry top) (view c sa') /\
  (exists l, view_at c sn' top = map (fun x => entry_of c sn' (r_name x) (hdr_of_row x)) l /\ NoDup l /\
     forall x, In x l <-> (In x (lrows p) /\ slash_count (r_name x) <= 16)).
Proof. intros c top st t h HP Hrs Hro Htop Hs Hsr Hwf. exact (T25Named.T25_named_C13 c top st t HP Hrs Hro Htop Hs Hsr Hwf h). Qed.

Theorem C17_named_C02 : forall c top st t h, plain c -> 0 < c_rs c -> c_readonly c = false ->
  okc top -> wf_style st -> style_root st = [] -> wf t -> sizes_bounded t ->
  let sn := opened c (archive_of (Named top) t) in
  let sa := twin c st t in
  T25Named.ok_run_named top c sn h ->
  T25Named.abs_named top sn = T20Abs.namespace_of c t /\
  T25Named.conforms_named top c sn h /\
  map ob_out (run c sn (T23Rel.ren_hist top h)) = map ob_out (run c sa h) /\
  conforms c sa h /\ T25Named.abs_named top (final c sn (T23Rel.ren_hist top h)) = abs (final c sa h).
Proof. intros c top st t h HP Hrs Hro Htop Hs Hsr Hwf He. exact (T25Named.T25_named_C02 c top st t HP Hrs Hro Htop Hs Hsr Hwf He h). Qed.

(* what [conforms_named] says, one call at a time: the named instance, called with the renamed call, returns the outcome
   of the reference operation run on its own namespace (names mapped back) and leaves the reference's namespace *)
Theorem C17_conforms_named_step : forall top c s k e r,
  T25Named.conforms_named top c s ((k, e) :: r) <->
  ((exists cid sp, spec_call c (T25Named.abs_named top s) k (ev_now e) cid = Some sp /\
      snd (step c (with_env s e) (T23Rel.ren_call top k)) = snd sp /\
      ns_eq (T25Named.abs_named top (fst (step c (with_env s e) (T23Rel.ren_call top k)))) (fst sp)) /\
   T25Named.conforms_named top c (fst (step c (with_env s e) (T23Rel.ren_call top k))) r).
Proof. intros top c s k e r. cbn [T25Named.conforms_named]. destruct (step c (with_env s e) (T23Rel.ren_call top k)) as [s' o]. reflexivity. Qed.

Theorem C17_named_C04 : forall c top st t h, plain c -> 0 < c_rs c -> c_readonly c = false ->
  okc top -> wf_style st -> style_root st = [] -> wf t -> sizes_bounded t ->
  ok_run4 true h -> forallb (fun ke => fs_call (fst ke)) h = true ->
  let sn := opened c (archive_of (Named top) t) in
  let sn' := final c sn (T23Rel.ren_hist top h) in
  (forall m, good m -> content_of c sn (T23Rel.psi top m) = w_tree t m) /\
  (forall m, good m -> content_eq (content_of c sn' (T23Rel.psi top m)) (T25Named.last_written_named top c sn h (w_tree t) m)) /\
  (forall e, In e (view_at c sn' top) ->
     exists m, good m /\ e_path e = T23Rel.psi top m /\ content_eq (e_data e) (T25Named.last_written_named top c sn h (w_tree t) m)) /\
  T25Named.last_written_named top c sn h (w_tree t) = last_written c (twin c st t) h (w_tree t).
Proof. intros c top st t h HP Hrs Hro Htop Hs Hsr Hwf He. exact (T25Named.T25_named_C04 c top st t HP Hrs Hro Htop Hs Hsr Hwf He h). Qed.

Print Assumptions C17_named_C13.
Print Assumptions C17_named_C02.
Print Assumptions C17_named_C04.
