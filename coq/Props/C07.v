(* C07 — re-indexing over an existing index converges (idempotent replay).
   PROVED for every history of filesystem-level calls (any length, names, contents, clocks; plain configuration,
   the root itself is never removed or renamed onto) and EVERY prefix length j: replaying the whole tape into the
   index of its first j records reports no error and yields the visible index of a rebuild from scratch
   (C07_replay_converges); a second replay changes nothing (C07_replay_idempotent); the rebuild itself succeeds
   (C07_rebuild_succeeds).  Proofs/T07*.v (dirty-name argument over C01's tape invariants).
   The broader formalisation C07_full_statement, which also admits operation-level Archive calls with caller-supplied
   action records, is refuted (C07_forged_record_refuted): a hand-written "rename /b -> /a" record whose source does
   not exist yet is outside the property's histories (the filesystem and operations.Move never write one).
   Tie: Model/Replay.v evaluated against the implementation's rows; replay oracle on the implementation. *)
From Coq Require Import String List NArith ZArith Bool.
Import ListNotations.
From STFS Require Import Str Db Tape Index Ops Fs Diff Norm Prefix Replay C01Fs2 C01Rows C07Stmt T07Replay T07Counter.
Open Scope N_scope.

Theorem C07_replay_converges : forall c e r j,
  0 < c_rs c -> c_readonly c = false -> c_csuf c = [] -> c_esuf c = [] ->
  forallb hb_ok ((CInitialize [slash], e) :: r) = true ->
  forallb (fun ke => call_ok (fst ke)) r = true ->
  forallb (fun ke => fs_call (fst ke)) r = true ->
  let t := tp (final c init_sys ((CInitialize [slash], e) :: r)) in
  let '(p, rr) := replay_into c t (prefix_index c t j) in
  res_ok rr = true /\ eqb_list eqb_row (visible p) (visible (fst (rebuild c t))) = true.
Proof. exact T07_replay_converges. Qed.

Theorem C07_replay_idempotent : forall c e r j,
  0 < c_rs c -> c_readonly c = false -> c_csuf c = [] -> c_esuf c = [] ->
  forallb hb_ok ((CInitialize [slash], e) :: r) = true ->
  forallb (fun ke => call_ok (fst ke)) r = true ->
  forallb (fun ke => fs_call (fst ke)) r = true ->
  let t := tp (final c init_sys ((CInitialize [slash], e) :: r)) in
  let p1 := fst (replay_into c t (prefix_index c t j)) in
  let '(p2, r2) := replay_into c t p1 in
  res_ok r2 = true /\ eqb_list eqb_row (visible p2) (visible p1) = true.
Proof. exact T07_replay_idempotent. Qed.

Theorem C07_rebuild_succeeds : forall c e r,
  0 < c_rs c -> c_readonly c = false -> c_csuf c = [] -> c_esuf c = [] ->
  forallb hb_ok ((CInitialize [slash], e) :: r) = true ->
  forallb (fun ke => call_ok (fst ke)) r = true ->
  forallb (fun ke => fs_call (fst ke)) r = true ->
  res_ok (snd (rebuild c (tp (final c init_sys ((CInitialize [slash], e) :: r))))) = true.
Proof. exact T07_rebuild_ok. Qed.

Theorem C07_forged_record_refuted : ~ C07_full_statement.
Proof. exact counter_full_statement. Qed.

Open Scope string_scope.
Definition demo_cfg : cfg := {| c_rs := 3; c_csuf := []; c_esuf := []; c_readonly := false; c_uid := 0; c_gid := 0; c_uname := s "root"; c_gname := s "0" |}.
Definition e0 (n : Z) : env := {| ev_hb := []; ev_enc := []; ev_now := n |}.
Definition demo_hist : list (call * env) :=
  [(CInitialize (s "/"), e0 1); (CMkdir (s "/a") 493, e0 2); (CCreateFile (s "/a/f") [(1, 0, 700)], e0 3);
   (CRemove (s "/a/f"), e0 4); (CCreateFile (s "/g") [(2, 0, 10)], e0 5); (CRename (s "/g") (s "/a/f"), e0 6);
   (CChmod (s "/a/f") 384, e0 7); (CRename (s "/a") (s "/c"), e0 8); (CRemoveAll (s "/c"), e0 9); (CMkdir (s "/c") 448, e0 10)].
Definition demo_tape : tape := tp (final demo_cfg init_sys demo_hist).

(* every prefix length of the demo tape (a test of the statement, exhaustive over j for this tape) *)
Example C07_demo :
  forallb (fun j => let '(p, r) := replay_into demo_cfg demo_tape (prefix_index demo_cfg demo_tape j) in
                    res_ok r && eqb_list eqb_row (visible p) (visible (fst (rebuild demo_cfg demo_tape))))
          (seq 0 (S (length (all_members demo_tape)))) = true
  /\ (12 <= length (all_members demo_tape))%nat.
Proof. vm_compute. split; [reflexivity|]. repeat constructor. Qed.

(* the second replay changes nothing (same tape, same test) *)
Example C07_demo_idempotent :
  let p1 := fst (replay_into demo_cfg demo_tape (fst (rebuild demo_cfg demo_tape))) in
  eqb_list eqb_row (sort_rows (rows (fst (replay_into demo_cfg demo_tape p1)))) (sort_rows (rows p1)) = true.
Proof. vm_compute. reflexivity. Qed.

Print Assumptions C07_demo.
Print Assumptions C07_replay_converges.
Print Assumptions C07_replay_idempotent.

(* ---------- ANY CONFIGURATION (Proofs/Tcfg*.v): arbitrary codec suffixes and encoded sizes; no hypothesis replaces the
   plain configuration *)
From STFS Require Import TcfgThms.

Theorem C07_replay_converges_any_config : forall c e r j,
  (0 < c_rs c)%N -> c_readonly c = false ->
  forallb hb_ok ((CInitialize [slash], e) :: r) = true ->
  forallb (fun ke => call_ok (fst ke)) r = true ->
  forallb (fun ke => fs_call (fst ke)) r = true ->
  let t := tp (final c init_sys ((CInitialize [slash], e) :: r)) in
  let '(p, rr) := replay_into c t (prefix_index c t j) in
  res_ok rr = true /\ eqb_list eqb_row (visible p) (visible (fst (rebuild c t))) = true.
Proof. exact T07_replay_converges_any_config. Qed.

Theorem C07_replay_idempotent_any_config : forall c e r j,
  (0 < c_rs c)%N -> c_readonly c = false ->
  forallb hb_ok ((CInitialize [slash], e) :: r) = true ->
  forallb (fun ke => call_ok (fst ke)) r = true ->
  forallb (fun ke => fs_call (fst ke)) r = true ->
  let t := tp (final c init_sys ((CInitialize [slash], e) :: r)) in
  let p1 := fst (replay_into c t (prefix_index c t j)) in
  let '(p2, r2) := replay_into c t p1 in
  res_ok r2 = true /\ eqb_list eqb_row (visible p2) (visible p1) = true.
Proof. exact T07_replay_idempotent_any_config. Qed.

Theorem C07_rebuild_succeeds_any_config : forall c e r,
  (0 < c_rs c)%N -> c_readonly c = false ->
  forallb hb_ok ((CInitialize [slash], e) :: r) = true ->
  forallb (fun ke => call_ok (fst ke)) r = true ->
  forallb (fun ke => fs_call (fst ke)) r = true ->
  res_ok (snd (rebuild c (tp (final c init_sys ((CInitialize [slash], e) :: r))))) = true.
Proof. exact T07_rebuild_ok_any_config. Qed.

Print Assumptions C07_replay_converges_any_config.
Print Assumptions C07_replay_idempotent_any_config.
Print Assumptions C07_rebuild_succeeds_any_config.

(* ---------- WITH THE OPERATION-LEVEL CALLS (ADDED; Proofs/T22*.v): histories that mix the filesystem-level calls with batched
   CArchive / CUpdate / CDelete / CMove calls under [ok_hist] (Proofs/T22Def.v; see Props/C01.v for what it asks).  The forged
   rename record of C07_forged_record_refuted is outside [ok_hist] (Archive with a caller-supplied STFS.Action record:
   T22Counter.T22_forged_rename_excluded). *)
From STFS Require T22Test T22Counter T22Demo.
From STFS Require Import T22Def T22Hist.

Theorem C07_replay_converges_with_operations : forall c e r j,
  0 < c_rs c -> c_readonly c = false -> c_csuf c = [] -> c_esuf c = [] ->
  forallb hb_ok ((CInitialize [slash], e) :: r) = true ->
  ok_hist c init_sys ((CInitialize [slash], e) :: r) = true ->
  let t := tp (final c init_sys ((CInitialize [slash], e) :: r)) in
  let '(p, rr) := replay_into c t (prefix_index c t j) in
  res_ok rr = true /\ eqb_list eqb_row (visible p) (visible (fst (rebuild c t))) = true.
Proof. exact T22_replay_converges. Qed.

Theorem C07_replay_idempotent_with_operations : forall c e r j,
  0 < c_rs c -> c_readonly c = false -> c_csuf c = [] -> c_esuf c = [] ->
  forallb hb_ok ((CInitialize [slash], e) :: r) = true ->
  ok_hist c init_sys ((CInitialize [slash], e) :: r) = true ->
  let t := tp (final c init_sys ((CInitialize [slash], e) :: r)) in
  let p1 := fst (replay_into c t (prefix_index c t j)) in
  let '(p2, r2) := replay_into c t p1 in
  res_ok r2 = true /\ eqb_list eqb_row (visible p2) (visible p1) = true.
Proof. exact T22_replay_idempotent. Qed.

Theorem C07_rebuild_succeeds_with_operations : forall c e r,
  0 < c_rs c -> c_readonly c = false -> c_csuf c = [] -> c_esuf c = [] ->
  forallb hb_ok ((CInitialize [slash], e) :: r) = true ->
  ok_hist c init_sys ((CInitialize [slash], e) :: r) = true ->
  res_ok (snd (rebuild c (tp (final c init_sys ((CInitialize [slash], e) :: r))))) = true.
Proof. exact T22_rebuild_ok. Qed.

Theorem C07_replay_converges_with_operations_any_config : forall c e r j,
  (0 < c_rs c)%N -> c_readonly c = false ->
  forallb hb_ok ((CInitialize [slash], e) :: r) = true ->
  ok_hist c init_sys ((CInitialize [slash], e) :: r) = true ->
  let t := tp (final c init_sys ((CInitialize [slash], e) :: r)) in
  let '(p, rr) := replay_into c t (prefix_index c t j) in
  res_ok rr = true /\ eqb_list eqb_row (visible p) (visible (fst (rebuild c t))) = true.
Proof. exact T22_replay_converges_any_config. Qed.

Theorem C07_replay_idempotent_with_operations_any_config : forall c e r j,
  (0 < c_rs c)%N -> c_readonly c = false ->
  forallb hb_ok ((CInitialize [slash], e) :: r) = true ->
  ok_hist c init_sys ((CInitialize [slash], e) :: r) = true ->
  let t := tp (final c init_sys ((CInitialize [slash], e) :: r)) in
  let p1 := fst (replay_into c t (prefix_index c t j)) in
  let '(p2, r2) := replay_into c t p1 in
  res_ok r2 = true /\ eqb_list eqb_row (visible p2) (visible p1) = true.
Proof. exact T22_replay_idempotent_any_config. Qed.

Theorem C07_rebuild_succeeds_with_operations_any_config : forall c e r,
  (0 < c_rs c)%N -> c_readonly c = false ->
  forallb hb_ok ((CInitialize [slash], e) :: r) = true ->
  ok_hist c init_sys ((CInitialize [slash], e) :: r) = true ->
  res_ok (snd (rebuild c (tp (final c init_sys ((CInitialize [slash], e) :: r))))) = true.
Proof. exact T22_rebuild_ok_any_config. Qed.

(* the forged record that refutes the full statement is excluded by [ok_hist]; the demo history of Proofs/T22Demo.v is inside *)
Theorem C07_with_operations_boundary :
  ok_hist T07Counter.cf init_sys T07Counter.h_bad = false /\
  forallb hb_ok T22Test.hist1 = true /\ ok_hist T22Test.cf init_sys T22Test.hist1 = true /\
  T22Test.replay_all T22Test.cf T22Test.hist1 = true.
Proof.
  split; [exact T22Counter.T22_forged_rename_excluded|]. split; [exact (proj1 T22Demo.T22_demo_hyps)|].
  split; [exact (proj1 (proj2 T22Demo.T22_demo_hyps))|exact (proj1 T22Demo.T22_demo_replay_eval)].
Qed.

Print Assumptions C07_replay_converges_with_operations.
Print Assumptions C07_replay_idempotent_with_operations.
Print Assumptions C07_rebuild_succeeds_with_operations.
Print Assumptions C07_replay_converges_with_operations_any_config.
Print Assumptions C07_replay_idempotent_with_operations_any_config.
