(* C07 — re-indexing over an existing index converges (idempotent replay).
   The full statement is kept visible; it is decided on every run by the replay oracle on the
   implementation and by the correspondence of Model/Replay.v; proved so far: the statement on a
   concrete tape with a rename onto a deleted name (the history that failed before the fix), for every
   prefix length, by evaluation (DESIGN.md §3 C07). *)
From Coq Require Import String List NArith ZArith Bool.
Import ListNotations.
From STFS Require Import Str Db Tape Index Ops Fs Diff Prefix Replay.
Open Scope N_scope.

Definition C07_full_statement : Prop :=
  forall c h j, 0 < c_rs c ->
    let t := tp (final c init_sys h) in
    (j <= length (all_members t))%nat ->
    res_ok (snd (rebuild c t)) = true ->
    let '(p, r) := replay_into c t (prefix_index c t j) in
    res_ok r = true /\ eqb_list eqb_row (visible p) (visible (fst (rebuild c t))) = true.

Open Scope string_scope.
Definition demo_cfg : cfg := {| c_rs := 3; c_csuf := []; c_esuf := []; c_readonly := false; c_uid := 0; c_gid := 0; c_uname := s "root"; c_gname := s "0" |}.
Definition e0 (n : Z) : env := {| ev_hb := []; ev_enc := []; ev_now := n |}.
Definition demo_hist : list (call * env) :=
  [(CInitialize (s "/"), e0 1); (CMkdir (s "/a") 493, e0 2); (CCreateFile (s "/a/f") [(1, 0, 700)], e0 3);
   (CRemove (s "/a/f"), e0 4); (CCreateFile (s "/g") [(2, 0, 10)], e0 5); (CRename (s "/g") (s "/a/f"), e0 6);
   (CChmod (s "/a/f") 384, e0 7); (CRename (s "/a") (s "/c"), e0 8); (CRemoveAll (s "/c"), e0 9); (CMkdir (s "/c") 448, e0 10)].
Definition demo_tape : tape := tp (final demo_cfg init_sys demo_hist).

(* every prefix length of the demo tape (a test of the statement, exhaustive over j for this tape) *)
Example C07_demo :
  forallb (fun j => let '(p, r) := replay_into demo_cfg demo_tape (prefix_index demo_cfg demo_tape j) in
                    res_ok r && eqb_list eqb_row (visible p) (visible (fst (rebuild demo_cfg demo_tape))))
          (seq 0 (S (length (all_members demo_tape)))) = true
  /\ (12 <= length (all_members demo_tape))%nat.
Proof. vm_compute. split; [reflexivity|]. repeat constructor. Qed.

(* the second replay changes nothing (same tape, same test) *)
Example C07_demo_idempotent :
  let p1 := fst (replay_into demo_cfg demo_tape (fst (rebuild demo_cfg demo_tape))) in
  eqb_list eqb_row (sort_rows (rows (fst (replay_into demo_cfg demo_tape p1)))) (sort_rows (rows p1)) = true.
Proof. vm_compute. reflexivity. Qed.

Print Assumptions C07_demo.
