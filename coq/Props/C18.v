(* C18 — generated keys work, and only with the right password.
   The glue of Keygen / Parse* (the `password != ""` and "is the key locked" branches) over abstract
   primitives with their laws as hypotheses (Model/SymKeys.v): for every password, including the empty
   one, the generated private half parses with the same password and with no other.  That the real
   libraries satisfy the laws, and that pairs are independent, is tested by the key sweep on the
   implementation.  DESIGN.md §3 C18. *)
From Coq Require Import List Bool String.
From Coq Require Import NArith.
Import ListNotations.
From STFS Require Import SymKeys Skel Sound Events Check Locks KeyGlue Entries Skeleton.
Open Scope string_scope.

Theorem C18_age : forall (key blob : Type) pw_eqb (Hpw : forall a b, pw_eqb a b = true <-> a = b)
  (plain : key -> blob) wrap parse_plain unwrap,
  (forall k, parse_plain (plain k) = Some k) -> (forall p b, parse_plain (wrap p b) = None) ->
  (forall p p' b, unwrap p' (wrap p b) = if pw_eqb p p' then Some b else None) -> (forall p k, unwrap p (plain k) = None) ->
  forall p k, age_parse key blob parse_plain unwrap (age_keygen key blob plain wrap p k) p = Some k
    /\ forall p', p' <> p -> age_parse key blob parse_plain unwrap (age_keygen key blob plain wrap p k) p' = None.
Proof.
  intros key blob pw_eqb Hpw plain wrap parse_plain unwrap H1 H2 H3 H4 p k. split.
  - eapply age_roundtrip; eauto.
  - intros p' Hne. eapply age_wrong_password; eauto.
Qed.

Theorem C18_pgp : forall (key blob : Type) pw_eqb (Hpw : forall a b, pw_eqb a b = true <-> a = b)
  (lock : string -> key -> blob) encrypted unlock read_plain,
  (forall p k, encrypted (lock p k) = true) ->
  (forall p p' k, unlock p' (lock p k) = if pw_eqb p p' then Some k else None) ->
  forall p k, pgp_parse key blob encrypted unlock read_plain (pgp_keygen key blob lock p k) p = Some k
    /\ forall p', p' <> p -> pgp_parse key blob encrypted unlock read_plain (pgp_keygen key blob lock p k) p' = None.
Proof.
  intros key blob pw_eqb Hpw lock encrypted unlock read_plain H1 H2 p k. split.
  - eapply pgp_roundtrip; eauto.
  - intros p' Hne. eapply pgp_wrong_password; eauto.
Qed.

Theorem C18_minisign : forall (key blob : Type) pw_eqb (Hpw : forall a b, pw_eqb a b = true <-> a = b)
  (enc : string -> key -> blob) dec,
  (forall p p' k, dec p' (enc p k) = if pw_eqb p p' then Some k else None) ->
  forall p k, dec p (enc p k) = Some k /\ forall p', p' <> p -> dec p' (enc p k) = None.
Proof.
  intros key blob pw_eqb Hpw enc dec H p k. split.
  - eapply minisign_roundtrip; eauto.
  - intros p' Hne. eapply minisign_wrong_password; eauto.
Qed.

(* the empty-password defect of the code before the fix, as a refutation of the same statement *)
Theorem C18_pgp_old_refuted : forall (key blob : Type) (lock : string -> key -> blob) encrypted unlock read_plain,
  (forall p k, encrypted (lock p k) = true) ->
  forall k, pgp_parse_old key blob encrypted unlock read_plain (pgp_keygen key blob lock EmptyString k) EmptyString = None.
Proof. intros. eapply pgp_old_empty_password_refuted; eauto. Qed.

(* tie of the glue model to the current source (regenerated skeleton): Keygen wraps the age identity and
   ParseIdentity unwraps it exactly under `password != ""`; ParseIdentity unlocks PGP keys only under
   `PrivateKey.Encrypted` *)
Definition kcheck (f : string) : bool := check table prims_fixed kstep 40 40 k_exit 0%N f.
Theorem C18_glue_matches_source :
  kcheck "utility.generateEncryptionKey" = true /\ kcheck "keys.ParseIdentity" = true.
Proof. vm_compute. split; reflexivity. Qed.
Example C18_glue_nonvacuous :
  k_exit XN (mrun kstep 0%N [Case "encryptionFormat" "config.EncryptionFormatAgeKey"; Ext "age.NewScryptIdentity" "x"]) = false.
Proof. vm_compute. reflexivity. Qed.

Print Assumptions C18_age.
Print Assumptions C18_pgp.
Print Assumptions C18_minisign.
