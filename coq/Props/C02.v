(* C02 — single-caller behaviour matches a reference hierarchical filesystem.
   The reference comparison is decided on the implementation (afero OsFs run side by side) and the
   model is tied by the correspondence run; machine-checked so far: rejected read-only calls and
   the no-op renames change nothing (DESIGN.md §3 C02). *)
From Coq Require Import List NArith ZArith Bool.
Import ListNotations.
From STFS Require Import Str Db Tape Index Ops Fs Diff TapeLemmas Append.
Open Scope N_scope.

Definition mutator (k : call) : bool :=
  match k with
  | CMkdir _ _ | CMkdirAll _ _ | CRemove _ | CRemoveAll _ | CRename _ _ | CChmod _ _ | CChown _ _ _ | CChtimes _ _ _
  | CCreateFile _ _ => true
  | _ => false
  end.

(* a read-only instance refuses every mutator and leaves tape and index untouched (also C15 (b)) *)
Theorem C02_readonly_refuses : forall c s k, c_readonly c = true -> mutator k = true ->
  step c s k = (s, OPerm).
Proof.
  intros c s k Hro Hm. destruct k; cbn in Hm; try discriminate; cbn [step];
    unfold fs_mkdir, fs_mkdirall, fs_remove, fs_removeall, fs_rename, fs_update_meta, fs_create; rewrite Hro; reflexivity.
Qed.

Print Assumptions C02_readonly_refuses.
