(* C02 — single-caller behaviour matches a reference hierarchical filesystem.
   PROVED (Proofs/T02*.v): a small executable reference over an abstract namespace (name -> node: kind, mode, owner,
   times, size, content id): spec_mkdir, spec_mkdirall, spec_remove, spec_remove_all, spec_rename, spec_chmod,
   spec_chown, spec_chtimes, spec_create_file; abstraction abs = the live rows of the index.  For every state that
   is Good (C01's tape/index invariant, consistent size records, tree-shaped namespace) and every one of these nine
   calls with a cleaned absolute name, the model's call returns the reference's outcome and leaves exactly the
   reference's namespace (what changed and that nothing else did), and the state stays Good (C02_step); Good holds
   after Initialize (C02_init_good); hence every history of such calls conforms call by call (C02_history).
   Hypotheses: plain configuration, not read-only (the read-only half is C02_readonly_refuses), header-block counts
   >= 1, the root is not removed / renamed onto, and create_pre for CreateFile: size below 10^40, and not "nothing is
   written to an existing EMPTY regular file" - the one recorded deviation (Proofs/T02Counter.v (2)): that call does
   nothing, so the entry keeps its mtime where the reference stamps it (C02_create_existing states the result on every
   existing regular file, this corner included; C02_create_existing_empty the corner alone).  CreateFile on an
   existing regular file is otherwise covered by C02_step: the flush of written content stamps the modification time
   (before, it kept the time the handle saw when it was opened).  There is no hypothesis on the process identity: since the
   flush of a written handle keeps the owner of the entry (the former finding C02-owner-reset-on-flush, repaired), a
   new file written through its handle
   is owned by the creating process, as in the reference.  OpenFile with arbitrary flags
   (CWriteFile) and the relation of abs to the walk (C13_walk_all_histories) are not part of these theorems.
   The reference itself is validated against afero OsFs by the side-by-side runs on the implementation. *)
From Coq Require Import List NArith ZArith Bool.
Import ListNotations.
From STFS Require Import Str Db Tape Index Ops Fs Diff Norm TapeLemmas Append C01Str C01Sim T02Ns T02Spec T04Def T04Content T02wNs T02wSpec T02wHist.
Open Scope N_scope.

Definition mutator (k : call) : bool :=
  match k with
  | CMkdir _ _ | CMkdirAll _ _ | CRemove _ | CRemoveAll _ | CRename _ _ | CChmod _ _ | CChown _ _ _ | CChtimes _ _ _
  | CCreateFile _ _ => true
  | _ => false
  end.

(* a read-only instance refuses every mutator and leaves tape and index untouched (also C15 (b)) *)
Theorem C02_readonly_refuses : forall c s k, c_readonly c = true -> mutator k = true ->
  step c s k = (s, OPerm).
Proof.
  intros c s k Hro Hm. destruct k; cbn in Hm; try discriminate; cbn [step];
    unfold fs_mkdir, fs_mkdirall, fs_remove, fs_removeall, fs_rename, fs_update_meta, fs_create; rewrite Hro; reflexivity.
Qed.

Theorem C02_step : forall (hr : bool) (c : cfg), plain c -> 0 < c_rs c -> c_readonly c = false ->
  forall (s : sys) (e : env) (k : call), Good hr c s -> hb_env e -> call_pre (abs s) k ->
  let '(s', o) := step c (with_env s e) k in
  exists cid sp, spec_call c (abs s) k (ev_now e) cid = Some sp /\
    Good hr c s' /\ o = snd sp /\ ns_eq (abs s') (fst sp).
Proof. exact T02_step. Qed.

Theorem C02_init_good : forall c e, 0 < c_rs c -> c_readonly c = false -> hb_env e ->
  Good true c (fst (step c (with_env init_sys e) (CInitialize [slash]))).
Proof. exact Good_init. Qed.

Theorem C02_history : forall (hr : bool) (c : cfg), plain c -> 0 < c_rs c -> c_readonly c = false ->
  forall (r : list (call * env)) (s : sys), Good hr c s -> ok_run c s r -> conforms c s r /\ Good hr c (final c s r).
Proof. exact T02_history. Qed.

(* CreateFile on an existing regular file: the reference's outcome and the reference's namespace (part of C02_step) -
   or no change at all when nothing is written to an empty file (the case excluded by create_pre) *)
Theorem C02_create_existing : forall (hr : bool) (c : cfg), plain c -> 0 < c_rs c -> c_readonly c = false ->
  forall s e n d v, Good hr c s -> hb_env e -> good n -> n <> [slash] -> clen d < 10 ^ 40 ->
  lookup (abs s) n = Some v -> is_dir v = false ->
  let '(s', o) := step c (with_env s e) (CCreateFile n d) in
  exists cid, Good hr c s' /\ o = snd (spec_create_file c (abs s) n (clen d) (ev_now e) cid) /\
    if (n_size v =? 0) && match d with [] => true | _ => false end then ns_eq (abs s') (abs s)
    else ns_eq (abs s') (fst (spec_create_file c (abs s) n (clen d) (ev_now e) cid)).
Proof. exact T02_create_file_existing_reference. Qed.

(* the excluded case alone: the call succeeds as in the reference and changes nothing; the reference's entry has the
   clock's modification time *)
Theorem C02_create_existing_empty : forall (hr : bool) (c : cfg), plain c -> 0 < c_rs c -> c_readonly c = false ->
  forall s e n v, Good hr c s -> hb_env e -> good n -> n <> [slash] ->
  lookup (abs s) n = Some v -> is_dir v = false -> n_size v = 0 ->
  let '(s', o) := step c (with_env s e) (CCreateFile n []) in
  Good hr c s' /\ ns_eq (abs s') (abs s) /\
  forall cid, o = snd (spec_create_file c (abs s) n 0 (ev_now e) cid) /\
    option_map n_mtime (lookup (fst (spec_create_file c (abs s) n 0 (ev_now e) cid)) n) = Some (ev_now e).
Proof. exact T02_create_file_existing_empty. Qed.

(* create_pre, spelled out: an existing regular file is allowed unless it is empty and nothing is written *)
Theorem C02_create_pre_existing : forall a n d v, lookup a n = Some v -> clen d < 10 ^ 40 ->
  (n_size v <> 0 \/ d <> []) -> create_pre a n d.
Proof.
  intros a n d v Hv Hlen H. split; [exact Hlen|]. rewrite Hv. right. apply andb_false_iff.
  destruct H as [H|H]; [left; apply N.eqb_neq; exact H|right; destruct d; [contradiction|reflexivity]].
Qed.

(* the subtree operations, stated on their own: exactly the reference's namespace *)
Theorem C02_rename : forall (hr : bool) (c : cfg), plain c -> 0 < c_rs c -> c_readonly c = false ->
  forall s e old new, Good hr c s -> hb_env e -> good old -> good new -> new <> [slash] ->
  let '(s', o) := step c (with_env s e) (CRename old new) in
  Good hr c s' /\ o = snd (spec_rename (abs s) old new) /\ ns_eq (abs s') (fst (spec_rename (abs s) old new)).
Proof. exact T02_rename. Qed.
Theorem C02_remove_all : forall (hr : bool) (c : cfg), plain c -> 0 < c_rs c -> c_readonly c = false ->
  forall s e n, Good hr c s -> hb_env e -> good n -> n <> [slash] ->
  let '(s', o) := step c (with_env s e) (CRemoveAll n) in
  Good hr c s' /\ o = snd (spec_remove_all (abs s) n) /\ ns_eq (abs s') (fst (spec_remove_all (abs s) n)).
Proof. exact T02_remove_all. Qed.

(* OpenFile with ANY flag combination + Write + Close (CWriteFile): outcome and namespace are exactly those of the executable
   description spec_write_file_q true (every access mode, O_CREATE, O_EXCL, O_TRUNC, O_APPEND, any data, forced empty writes:
   nothing excluded), and those of the reference spec_write_file outside three recorded corners (write_corner,
   Proofs/T02wCounter.v W1-W3: O_TRUNC on an existing empty file stamps nothing; a zero-byte Write still rewrites the
   record; a directory opened O_RDONLY|O_APPEND answers is-a-directory) *)
Theorem C02_write_file_exact : forall (hr : bool) (c : cfg), plain c -> 0 < c_rs c -> c_readonly c = false ->
  forall s e n o perm d force, Good4 hr c s -> hb_env e -> good n -> write_bound (abs s) n d ->
  let '(s', oc) := step c (with_env s e) (CWriteFile n o perm d force) in
  exists cid, Good4 hr c s' /\ oc = snd (spec_write_file_q true c (abs s) n o perm d force (ev_now e) cid) /\
    ns_eq (abs s') (fst (spec_write_file_q true c (abs s) n o perm d force (ev_now e) cid)).
Proof. exact T02_write_file_exact. Qed.
Theorem C02_write_file : forall (hr : bool) (c : cfg), plain c -> 0 < c_rs c -> c_readonly c = false ->
  forall s e n o perm d force, Good4 hr c s -> hb_env e -> good n -> write_pre (abs s) n o d force ->
  let '(s', oc) := step c (with_env s e) (CWriteFile n o perm d force) in
  exists cid, Good4 hr c s' /\ oc = snd (spec_write_file c (abs s) n o perm d force (ev_now e) cid) /\
    ns_eq (abs s') (fst (spec_write_file c (abs s) n o perm d force (ev_now e) cid)).
Proof. exact T02_write_file. Qed.
(* histories that mix the nine calls with CWriteFile (q = true: nothing excluded; q = false: against the reference) *)
Theorem C02_history_with_writes : forall (hr : bool) (c : cfg), plain c -> 0 < c_rs c -> c_readonly c = false ->
  forall (q : bool) (r : list (call * env)) (s : sys), Good4 hr c s -> ok_run_w c q s r -> conforms_w c q s r /\ Good4 hr c (final c s r).
Proof. exact T02_history_w. Qed.

Print Assumptions C02_readonly_refuses.
Print Assumptions C02_write_file_exact.
Print Assumptions C02_history_with_writes.
Print Assumptions C02_step.
Print Assumptions C02_history.
Print Assumptions C02_create_existing.
Print Assumptions C02_create_existing_empty.
Print Assumptions C02_create_pre_existing.
