(* C10 — every call returns and leaves the drive free, even when something fails.
   Theorems over the skeleton regenerated from /repo (Gen/Skeleton.v): every path of every
   exported call (every error branch = every fault point, any number of loop iterations)
   ends with no lock held.  DESIGN.md §3 C10. *)
From Coq Require Import List Bool NArith String.
Import ListNotations.
From STFS Require Import Skel Sound Events Check Locks Entries Skeleton.
Open Scope string_scope.

(* Known finding (known_findings.json: C10-read-goroutine): the streaming read goroutine
   started by File.Read / File.Seek keeps the read-operation lock and the drive after the
   call returned, and panics on a restore error. *)
Definition allow_spawn : list string :=
  ["fs.File.readWithoutLocking$go1"; "fs.File.seekWithoutLocking$go1";
   "fs.File.readWithoutLocking$go1#1"; "fs.File.seekWithoutLocking$go1#1"].

Definition locks_ok (allow : list string) (f : string) : bool :=
  check table prims_fixed (mstep flags allow) 40 40 ok_exit 0%N f.

Definition C10_entries : list string := api_entries ++ spawned.

Theorem C10_all_paths : forallb (locks_ok allow_spawn) C10_entries = true.
Proof. vm_compute. reflexivity. Qed.

(* what the boolean means: for every terminating path t of the call's skeleton, the lock
   monitor ends in a state with no lock held (or the path is infeasible for the flags) *)
Theorem C10_all_paths_sem : forall f, List.In f C10_entries ->
  exists body, lookup f table = Some body /\
    forall t x, exec (prog table prims_fixed) body t x -> is_fn_exit x = true ->
      ok_exit x (mrun (mstep flags allow_spawn) 0%N t) = true.
Proof.
  intros f Hf. apply check_sound with (fuel := 40%nat) (lfuel := 40%nat).
  pose proof C10_all_paths as H. rewrite forallb_forall in H. exact (H f Hf).
Qed.

(* every loop of the skeleton has a way out, so a path that reached the error state can be completed *)
Theorem C10_loops_exit : forallb (fun p => loops_exit (snd p)) table = true.
Proof. vm_compute. reflexivity. Qed.

(* non-vacuity: the entry list is not empty and contains the mutators *)
Example C10_nonvacuous :
  List.In "fs.STFS.RemoveAll" C10_entries /\ List.In "operations.Operations.Delete@W" C10_entries /\
  List.In "fs.File.Close" C10_entries /\ (40 <= List.length C10_entries)%nat.
Proof. vm_compute. repeat split; auto 60. all: repeat constructor. Qed.

Print Assumptions C10_all_paths_sem.
