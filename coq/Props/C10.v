(* C10 — every call returns and leaves the drive free, even when something fails.
   Theorems over the skeleton regenerated from /repo (Gen/Skeleton.v): every path of every
   exported call (every error branch = every fault point, any number of loop iterations)
   ends with no lock held.  DESIGN.md §3 C10. *)
From Coq Require Import List Bool NArith String.
Import ListNotations.
From STFS Require Import Skel Sound Events Check Locks Entries Skeleton.
Open Scope string_scope.

(* Known finding (known_findings.json: C10-read-goroutine): the streaming read goroutine
   started by File.Read / File.Seek keeps the read-operation lock and the drive after the
   call returned, and panics on a restore error. *)
Definition allow_spawn : list string :=
  ["fs.File.readWithoutLocking$go1"; "fs.File.seekWithoutLocking$go1";
   "fs.File.readWithoutLocking$go1#1"; "fs.File.seekWithoutLocking$go1#1"].

Definition locks_ok (allow : list string) (f : string) : bool :=
  check table prims_fixed (mstep flags allow) 40 40 ok_exit 0%N f.

Definition C10_entries : list string := api_entries ++ spawned.

Theorem C10_all_paths : forallb (locks_ok allow_spawn) C10_entries = true.
Proof. vm_compute. reflexivity. Qed.

(* what the boolean means: for every terminating path t of the call's skeleton, the lock
   monitor ends in a state with no lock held (or the path is infeasible for the flags) *)
Theorem C10_all_paths_sem : forall f, List.In f C10_entries ->
  exists body, lookup f table = Some body /\
    forall t x, exec (prog table prims_fixed) body t x -> is_fn_exit x = true ->
      ok_exit x (mrun (mstep flags allow_spawn) 0%N t) = true.
Proof.
  intros f Hf. apply check_sound with (fuel := 40%nat) (lfuel := 40%nat).
  pose proof C10_all_paths as H. rewrite forallb_forall in H. exact (H f Hf).
Qed.

(* every loop of the skeleton has a way out, so a path that reached the error state can be completed *)
Theorem C10_loops_exit : forallb (fun p => loops_exit (snd p)) table = true.
Proof. vm_compute. reflexivity. Qed.

(* ---- the drive manager itself (pkg/tape/manager.go, regenerated like everything else): the hand-written
   primitives prim.GetReader / prim.GetWriter / prim.Close used for the callers above say "a successful Get
   holds the drive, a failed one holds nothing, Close releases it".  The manager's own skeleton is checked against
   exactly that: on every path GetReader and GetWriter return successfully holding the drive and nothing else, or
   fail holding nothing; Close, entered with the drive held, releases it on every path.  (A Get that can succeed
   without taking the drive - sharing the open reader of another owner - makes the later Close release a lock it
   does not hold: "sync: unlock of unlocked mutex", known_findings.json fixed: C14 tape manager.) *)
Definition drive_only : N := 8.
Definition mgr_get_exit (x : exit) (q : N) : bool :=
  (q =? DEAD)%N ||
  (negb (q =? ERR)%N &&
   match x with
   | XR KOk => (N.land q lock_mask =? drive_only)%N
   | XR KErr => (N.land q lock_mask =? 0)%N
   | _ => false
   end).
Definition mgr_close_exit (x : exit) (q : N) : bool :=
  (q =? DEAD)%N || (negb (q =? ERR)%N && (N.land q lock_mask =? 0)%N).
Definition mgr_getters : list string := ["tape.TapeManager.GetReader"; "tape.TapeManager.GetWriter"].

Theorem C10_drive_manager_get :
  forallb (check table prims_fixed (mstep flags allow_spawn) 40 40 mgr_get_exit 0%N) mgr_getters = true.
Proof. vm_compute. reflexivity. Qed.
Theorem C10_drive_manager_close :
  check table prims_fixed (mstep flags allow_spawn) 40 40 mgr_close_exit drive_only "tape.TapeManager.Close" = true.
Proof. vm_compute. reflexivity. Qed.

Theorem C10_drive_manager_get_sem : forall f, List.In f mgr_getters ->
  exists body, lookup f table = Some body /\
    forall t x, exec (prog table prims_fixed) body t x -> is_fn_exit x = true ->
      mgr_get_exit x (mrun (mstep flags allow_spawn) 0%N t) = true.
Proof.
  intros f Hf. apply check_sound with (fuel := 40%nat) (lfuel := 40%nat).
  pose proof C10_drive_manager_get as H. rewrite forallb_forall in H. exact (H f Hf).
Qed.
Theorem C10_drive_manager_close_sem :
  exists body, lookup "tape.TapeManager.Close" table = Some body /\
    forall t x, exec (prog table prims_fixed) body t x -> is_fn_exit x = true ->
      mgr_close_exit x (mrun (mstep flags allow_spawn) drive_only t) = true.
Proof. apply check_sound with (fuel := 40%nat) (lfuel := 40%nat). exact C10_drive_manager_close. Qed.

(* non-vacuity: the manager's entries are in the regenerated table, and the check does reject a getter that may
   return successfully without the drive (the leaky primitive) *)
Example C10_drive_manager_nonvacuous :
  lookup "tape.TapeManager.GetReader" table <> None /\ lookup "tape.TapeManager.openOrReuseReader" table <> None /\
  lookup "tape.TapeManager.Close" table <> None /\
  check [("leaky", Choice (Seq (EV (Lk "drive")) (RT KOk)) (RT KOk))] [] (mstep flags allow_spawn) 40 40 mgr_get_exit 0%N "leaky" = false.
Proof. vm_compute. repeat split; discriminate. Qed.

Print Assumptions C10_drive_manager_get_sem.
Print Assumptions C10_drive_manager_close_sem.

(* non-vacuity: the entry list is not empty and contains the mutators *)
Example C10_nonvacuous :
  List.In "fs.STFS.RemoveAll" C10_entries /\ List.In "operations.Operations.Delete@W" C10_entries /\
  List.In "fs.File.Close" C10_entries /\ (40 <= List.length C10_entries)%nat.
Proof. vm_compute. repeat split; auto 60. all: repeat constructor. Qed.

Print Assumptions C10_all_paths_sem.
