(* C03 — content and names survive every codec combination.
   Three layers, each tied to the source on every run:
   (1) names: the suffix tables are regenerated from internal/suffix (Gen/Consts.v); for every known
       compression and encryption format and EVERY name, RemoveSuffix (AddSuffix n) = n;
   (2) pipeline order (M2, regenerated skeleton): writers wrap content Encrypt -> Compress -> copy and
       close inside-out before the next header and before success; Fetch unwraps Decrypt -> Decompress;
   (3) content law: with codecs that are inverse to each other (Section hypotheses, validated by running
       the real codecs in the configuration matrix), what the reader delivers is what the writer was given
       and the recorded uncompressed size is its length.
   The statement about names that were never encoded (C03_unencoded_names) is refuted on the current
   tables; see DESIGN.md, findings.  *)
From Coq Require Import List Bool Arith NArith String Ascii Lia.
Import ListNotations.
From STFS Require Import Skel Sound Events Check Locks Codec Entries Skeleton Consts.
From STFS Require Str Db Index C03Names.
Open Scope string_scope.
Open Scope list_scope.

(* ---------- (1) names ---------- *)
Fixpoint tbl_lookup (tag fmt : string) (t : list (string * string * string)) : option string :=
  match t with
  | [] => None
  | (tg, f, s) :: r => if String.eqb tg tag && String.eqb f fmt then Some s else tbl_lookup tag fmt r
  end.
Fixpoint tags (t : list (string * string * string)) (seen : list string) : list string :=
  match t with
  | [] => []
  | (tg, _, _) :: r => if existsb (String.eqb tg) seen then tags r seen else tg :: tags r (tg :: seen)
  end.
Definition fmt_of (c e tag : string) : string := if String.eqb tag "compressionFormat" then c else e.

Definition lst := list ascii.
Definition L := list_ascii_of_string.
Fixpoint leqb (a b : lst) : bool :=
  match a, b with [], [] => true | x :: a', y :: b' => Ascii.eqb x y && leqb a' b' | _, _ => false end.
(* strings.TrimSuffix *)
Definition trim_suffix (n s : lst) : lst :=
  let k := (List.length n - List.length s)%nat in
  if Nat.leb (List.length s) (List.length n) && leqb (skipn k n) s then firstn k n else n.

(* the switch statements run in table order; an unknown format is the default branch: an error *)
Fixpoint add_go (ts : list string) (c e : string) (n : lst) : option lst :=
  match ts with
  | [] => Some n
  | t :: r => match tbl_lookup t (fmt_of c e t) add_suffix_table with
              | Some s => add_go r c e (List.app n (L s))
              | None => None
              end
  end.
Fixpoint remove_go (ts : list string) (c e : string) (n : lst) : option lst :=
  match ts with
  | [] => Some n
  | t :: r => match tbl_lookup t (fmt_of c e t) remove_suffix_table with
              | Some s => remove_go r c e (trim_suffix n (L s))
              | None => None
              end
  end.
Definition add_suffix (n : lst) (c e : string) := add_go (tags add_suffix_table []) c e n.
Definition remove_suffix (n : lst) (c e : string) := remove_go (tags remove_suffix_table []) c e n.

Lemma leqb_refl a : leqb a a = true.
Proof. induction a as [|x a IH]; cbn; [reflexivity|]. rewrite Ascii.eqb_refl, IH. reflexivity. Qed.
Lemma trim_app n s : trim_suffix (n ++ s) s = n.
Proof.
  unfold trim_suffix. rewrite app_length.
  replace (List.length n + List.length s - List.length s)%nat with (List.length n) by lia.
  replace (Nat.leb (List.length s) (List.length n + List.length s)) with true by (symmetry; apply Nat.leb_le; lia).
  rewrite skipn_app, skipn_all, Nat.sub_diag. cbn [skipn app andb]. rewrite leqb_refl.
  rewrite firstn_app, firstn_all, Nat.sub_diag. cbn. apply app_nil_r.
Qed.

(* the suffixes a table assigns, in switch order *)
Fixpoint lookups (ts : list string) (c e : string) (tbl : list (string * string * string)) : option (list lst) :=
  match ts with
  | [] => Some []
  | t :: r => match tbl_lookup t (fmt_of c e t) tbl, lookups r c e tbl with
              | Some s, Some ss => Some (L s :: ss)
              | _, _ => None
              end
  end.
Lemma add_go_spec ts c e : forall n,
  add_go ts c e n = match lookups ts c e add_suffix_table with Some ss => Some (n ++ List.concat ss) | None => None end.
Proof.
  induction ts as [|t r IH]; intro n; cbn [add_go lookups].
  - cbn. rewrite app_nil_r. reflexivity.
  - destruct (tbl_lookup t (fmt_of c e t) add_suffix_table) as [s|]; [|reflexivity].
    rewrite IH. destruct (lookups r c e add_suffix_table) as [ss|]; [|reflexivity].
    cbn [List.concat]. rewrite app_assoc. reflexivity.
Qed.
Lemma remove_go_spec ts c e : forall n,
  remove_go ts c e n = match lookups ts c e remove_suffix_table with Some ss => Some (fold_left trim_suffix ss n) | None => None end.
Proof.
  induction ts as [|t r IH]; intro n; cbn [remove_go lookups]; [reflexivity|].
  destruct (tbl_lookup t (fmt_of c e t) remove_suffix_table) as [s|].
  - rewrite IH. destruct (lookups r c e remove_suffix_table) as [ss|]; reflexivity.
  - reflexivity.
Qed.
Lemma trim_rev ss : forall n, fold_left trim_suffix (rev ss) (n ++ List.concat ss) = n.
Proof.
  induction ss as [|s ss IH]; intro n; cbn [rev List.concat fold_left].
  - apply app_nil_r.
  - rewrite fold_left_app, app_assoc, IH. cbn [fold_left]. apply trim_app.
Qed.

(* finite part, decided by computation over the regenerated tables: for every known pair of formats both
   directions know the format and RemoveSuffix undoes the switches of AddSuffix in reverse order *)
Definition tables_inverse (c e : string) : bool :=
  match lookups (tags add_suffix_table []) c e add_suffix_table,
        lookups (tags remove_suffix_table []) c e remove_suffix_table with
  | Some a, Some r => if list_eq_dec (list_eq_dec ascii_dec) r (rev a) then true else false
  | _, _ => false
  end.
Lemma tables_inverse_all :
  forallb (fun c => forallb (tables_inverse c) KnownEncryptionFormats) KnownCompressionFormats = true.
Proof. vm_compute. reflexivity. Qed.

Theorem C03_suffix_roundtrip : forall c e, In c KnownCompressionFormats -> In e KnownEncryptionFormats ->
  forall n, exists m, add_suffix n c e = Some m /\ remove_suffix m c e = Some n.
Proof.
  intros c e Hc He n.
  pose proof tables_inverse_all as H. rewrite forallb_forall in H. specialize (H c Hc).
  rewrite forallb_forall in H. specialize (H e He). unfold tables_inverse in H.
  unfold add_suffix, remove_suffix. rewrite add_go_spec.
  destruct (lookups (tags add_suffix_table []) c e add_suffix_table) as [a|]; [|discriminate].
  eexists. split; [reflexivity|]. rewrite remove_go_spec.
  destruct (lookups (tags remove_suffix_table []) c e remove_suffix_table) as [r|]; [|discriminate].
  destruct (list_eq_dec (list_eq_dec ascii_dec) r (rev a)) as [->|]; [|discriminate].
  rewrite trim_rev. reflexivity.
Qed.

(* an unsupported format is refused by both directions, never silently passed through *)
Theorem C03_unknown_format_refused : forall n,
  add_suffix n "rot13" "" = None /\ remove_suffix n "" "rot13" = None.
Proof. intro n. split; reflexivity. Qed.

(* FALSE on the current tables: RemoveSuffix returns a name that was never given a suffix unchanged.  This is
   why the indexer must apply it only to records that carry encoded content (C03_indexed_names below; the
   pinned tree applied it to every regular entry: fixed, see known_findings.json). *)
Definition C03_unencoded_names : Prop :=
  forall c e n, In c KnownCompressionFormats -> In e KnownEncryptionFormats -> remove_suffix n c e = Some n.
Theorem C03_unencoded_names_refuted : ~ C03_unencoded_names.
Proof.
  intro H.
  assert (remove_suffix (L "x.gz") "gzip" "" = Some (L "x")) as E by (vm_compute; reflexivity).
  assert (In "gzip" KnownCompressionFormats) as Hc by (cbn; tauto).
  assert (In "" KnownEncryptionFormats) as He by (cbn; tauto).
  pose proof (H "gzip" "" (L "x.gz") Hc He) as H1. rewrite E in H1. discriminate H1.
Qed.

(* the indexer of the M1 model (which the differential runs tie to pkg/recovery/index.go) applies RemoveSuffix
   exactly to the records AddSuffix was applied to *)
Theorem C03_indexed_names : forall (c : Index.cfg) (h : Db.hdr) (n : Str.str),
  (Index.tf_regular (Db.h_tf h) = true -> (0 < Db.h_size h)%N -> Db.h_name h = Index.add_suffix c n -> Index.indexed_name c h = n) /\
  (Db.h_size h = 0%N \/ Index.tf_regular (Db.h_tf h) = false -> Index.indexed_name c h = Db.h_name h).
Proof. intros c h n. split; [apply C03Names.indexed_name_encoded | apply C03Names.indexed_name_plain]. Qed.

(* ---------- (2) pipeline order over the regenerated skeleton ---------- *)
Definition content_writers : list string :=
  ["operations.Operations.archive@W"; "operations.Operations.Update@W"; "operations.Operations.Archive@W"].
Definition ccheck (f : string) : bool := check table prims_fixed cstep 40 40 c_exit 0%N f.
Theorem C03_write_order : forallb ccheck content_writers = true.
Proof. vm_compute. reflexivity. Qed.
Definition rcheck (f : string) : bool := check table prims_fixed rstep 40 40 r_exit 0%N f.
Theorem C03_read_order : rcheck "recovery.Fetch" = true.
Proof. vm_compute. reflexivity. Qed.

Theorem C03_write_order_sem : forall f, List.In f content_writers ->
  exists body, lookup f table = Some body /\
    forall t x, exec (prog table prims_fixed) body t x -> is_fn_exit x = true -> c_exit x (mrun cstep 0%N t) = true.
Proof.
  intros f Hf. apply check_sound with (fuel := 40%nat) (lfuel := 40%nat).
  pose proof C03_write_order as H. rewrite forallb_forall in H. exact (H f Hf).
Qed.
Theorem C03_read_order_sem :
  exists body, lookup "recovery.Fetch" table = Some body /\
    forall t x, exec (prog table prims_fixed) body t x -> is_fn_exit x = true -> r_exit x (mrun rstep 0%N t) = true.
Proof. apply check_sound with (fuel := 40%nat) (lfuel := 40%nat). exact C03_read_order. Qed.

Example C03_order_nonvacuous :
  (* compressor set up before the encryptor; copy without compressor; encryptor closed first *)
  c_exit XN (mrun cstep 0%N [Res "compression.Compress" true]) = false /\
  c_exit XN (mrun cstep 0%N [Res "encryption.Encrypt" true; Ext "io.Copy" "x"]) = false /\
  c_exit XN (mrun cstep 0%N [Res "encryption.Encrypt" true; Res "compression.Compress" true; Ext "io.Copy" "x";
                             Ext "compressor.Flush" "x"; Ext "encryptor.Close" "x"]) = false /\
  c_exit (XR KOk) (mrun cstep 0%N [Res "encryption.Encrypt" true; Res "compression.Compress" true; Ext "io.Copy" "x"]) = false /\
  c_exit (XR KOk) (mrun cstep 0%N [Res "encryption.Encrypt" true; Res "compression.Compress" true; Ext "io.Copy" "x";
                             Ext "compressor.Flush" "x"; Ext "compressor.Close" "x"; Ext "encryptor.Close" "x"]) = true /\
  r_exit XN (mrun rstep 0%N [Enter "recovery.Fetch"; Res "compression.Decompress" true]) = false /\
  r_exit XN (mrun rstep 0%N [Enter "recovery.Fetch"; Res "encryption.Decrypt" true; Ext "io.Copy" "x"]) = false /\
  r_exit XN (mrun rstep 0%N [Enter "recovery.Fetch"; Res "encryption.Decrypt" true; Res "compression.Decompress" true; Ext "io.Copy" "x"]) = true.
Proof. vm_compute. repeat split; reflexivity. Qed.

(* ---------- (3) content law over abstract codecs ---------- *)
Section Content.
  Variable bytes : Type.
  Variable blen : bytes -> N.
  Variables (compress : string -> string -> bytes -> bytes) (decompress : string -> bytes -> option bytes).
  Variables (encrypt : string -> bytes -> bytes) (decrypt : string -> bytes -> option bytes).
  Hypothesis decompress_compress : forall f lvl d, In f KnownCompressionFormats -> decompress f (compress f lvl d) = Some d.
  Hypothesis decrypt_encrypt : forall f d, In f KnownEncryptionFormats -> decrypt f (encrypt f d) = Some d.

  (* what the writers put after the header, in the order C03_write_order establishes *)
  Definition encode (c lvl e : string) (d : bytes) : bytes := encrypt e (compress c lvl d).
  (* what Fetch hands to its caller, in the order C03_read_order establishes *)
  Definition decode (c e : string) (b : bytes) : option bytes :=
    match decrypt e b with Some x => decompress c x | None => None end.
  (* the size records: tar Size is the encoded length, STFS.UncompressedSize the length of what was given *)
  Definition sizes (c lvl e : string) (d : bytes) : N * N := (blen (encode c lvl e d), blen d).

  Theorem C03_content_roundtrip : forall c lvl e d, In c KnownCompressionFormats -> In e KnownEncryptionFormats ->
    decode c e (encode c lvl e d) = Some d /\ snd (sizes c lvl e d) = blen d.
  Proof.
    intros c lvl e d Hc He. unfold decode, encode. rewrite (decrypt_encrypt e _ He), (decompress_compress c lvl d Hc).
    split; reflexivity.
  Qed.
End Content.

Print Assumptions C03_suffix_roundtrip.
Print Assumptions C03_indexed_names.
Print Assumptions C03_write_order_sem.
Print Assumptions C03_read_order_sem.
Print Assumptions C03_content_roundtrip.
Print Assumptions C03_unencoded_names_refuted.
