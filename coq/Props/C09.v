(* C09 — with encryption on, the tape reveals nothing but record sizes (control-flow half, M2).
   Over the regenerated skeleton of Archive / Update / Delete / Move: on every path, for every entry
   kind, action and loop iteration, tw.WriteHeader is reached only after SignHeader and then
   EncryptHeader succeeded on the header since the previous WriteHeader, and every content copy happens
   after encryption.Encrypt set up the encryptor for that pass.  That Encrypt's sink is the tar writer and
   that the ciphers hide their plaintext are assumptions; the marker scan tests the whole on the
   implementation.  DESIGN.md §3 C09. *)
From Coq Require Import List Bool NArith String.
Import ListNotations.
From STFS Require Import Skel Sound Events Check Locks Wrap Entries Skeleton.
Open Scope string_scope.

Definition writers : list string :=
  ["operations.Operations.archive@W"; "operations.Operations.Update@W"; "operations.Operations.Delete@W"; "operations.Operations.Move@W";
   "operations.Operations.Archive@W"; "operations.Operations.Initialize@W"].

Definition wcheck (f : string) : bool := check table prims_fixed wstep 40 40 w_exit 0%N f.

Theorem C09_headers_wrapped : forallb wcheck writers = true.
Proof. vm_compute. reflexivity. Qed.

(* the only functions that write tar headers are the four write operations *)
Definition header_writers : list string :=
  map fst (filter (fun p => mentions "tw.WriteHeader" (snd p)) table).
Theorem C09_only_the_operations_write_headers :
  forallb (fun f => String.prefix "operations.Operations.archive@" f || String.prefix "operations.Operations.Update@" f
                    || String.prefix "operations.Operations.Delete@" f || String.prefix "operations.Operations.Move@" f) header_writers = true
  /\ List.length header_writers = 8%nat.
Proof. vm_compute. split; reflexivity. Qed.

Theorem C09_sem : forall f, List.In f writers ->
  exists body, lookup f table = Some body /\
    forall t x, exec (prog table prims_fixed) body t x -> is_fn_exit x = true -> w_exit x (mrun wstep 0%N t) = true.
Proof.
  intros f Hf. apply check_sound with (fuel := 40%nat) (lfuel := 40%nat).
  pose proof C09_headers_wrapped as H. rewrite forallb_forall in H. exact (H f Hf).
Qed.

(* non-vacuity: the monitor does reject a WriteHeader that was not preceded by the wrappers *)
Example C09_nonvacuous :
  w_exit XN (mrun wstep 0%N [Ext "tw.WriteHeader" "x"]) = false /\
  w_exit XN (mrun wstep 0%N [Res "encryption.EncryptHeader" true; Res "signature.SignHeader" true; Ext "tw.WriteHeader" "x"]) = false /\
  w_exit XN (mrun wstep 0%N [Res "signature.SignHeader" true; Res "encryption.EncryptHeader" true; Ext "tw.WriteHeader" "x"]) = true.
Proof. vm_compute. repeat split; reflexivity. Qed.

Print Assumptions C09_sem.
