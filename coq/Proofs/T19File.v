(* T19 / File: OpenFile / Create / Write / Close on related instances (the calls CCreateFile and CWriteFile). *)
From Coq Require Import List NArith ZArith Bool Lia.
From Coq Require Import ZifyN ZifyBool.
Import ListNotations.
From STFS Require Import Str Db Tape Index Ops Fs Diff Norm StrLemmas C01Str C01Db C01Inv C01Sim C01Tape C01Hdr C01Ops C01Ops2
  C01Reads C01Fs C01Fs2 T13Path T17Str T17Db T19Rel T19Base T19Db T19Index T19Ops T19Reads T19Fs.
Open Scope N_scope.

(* related handles: the reader's handle carries the stored spelling in hd_path and in the name of hd_info *)
Record hdrel (a r : handle) : Prop := {
  hd_p : nrel (hd_path a) (hd_path r);
  hd_l : hd_link r = hd_link a;
  hd_f : hd_flags r = hd_flags a;
  hd_i : hrel (hd_info a) (hd_info r);
  hd_b : hd_buf r = hd_buf a }.

Definition HD (sa : sys) (ha hr : handle) : Prop := hd_good sa ha /\ hdrel ha hr.

Inductive hopt (sa : sys) : option handle -> option handle -> Prop :=
| hopt_none : hopt sa None None
| hopt_some a r : HD sa a r -> hopt sa (Some a) (Some r).

(* any query leaves the reader's rows and cached root alone *)
Lemma get_header_same p x : Foreign p -> same p (fst (get_header p x)).
Proof.
  intro F. unfold get_header. destruct (sanitize_foreign p x F) as (p' & E & S1 & S2). rewrite E.
  destruct (find_by_name p' (T17Db.rel_name x)); cbn [fst]; split; assumption.
Qed.

Section File.
Variable c : cfg.
Hypothesis HP : plain c.
Hypothesis Hrs : 0 < c_rs c.
Hypothesis Hro : c_readonly c = false.

Definition SIMH (x y : sys * outc * option handle) : Prop :=
  snd (fst y) = snd (fst x) /\ GoodE c (fst (fst x)) (fst (fst y)) /\ hopt (fst (fst x)) (snd x) (snd y).

Ltac simh_none HG := split; [reflexivity|split; [exact HG|constructor]].
Ltac k4 HG := split; [reflexivity|split; [reflexivity|split; [reflexivity|exact HG]]].

Lemma read_path_fst sa sr nr : PR (db sa) (db sr) -> exists pr', fst (read_path c sr nr) = set_db sr pr' /\ same (db sr) pr'.
Proof.
  intro H. unfold read_path. pose proof (PR_foreign _ _ H) as F.
  pose proof (get_header_same (db sr) (trim_suffix [slash] nr) F) as S1.
  destruct (get_header (db sr) (trim_suffix [slash] nr)) as [p1 r1]. cbn [fst] in S1.
  assert (K : exists p2 r2, (match r1 with NoRows => get_header p1 (trim_suffix [slash] nr ++ [slash]) | Ok a => (p1, Ok a)
                             | Unique => (p1, Unique) | Fail e => (p1, Fail e) end) = (p2, r2) /\ same (db sr) p2).
  { destruct r1 as [a| | |e]; try (eexists _, _; split; [reflexivity|exact S1]).
    pose proof (get_header_same p1 (trim_suffix [slash] nr ++ [slash]) (foreign_rows _ _ F (proj1 S1) (proj2 S1))) as S2.
    destruct (get_header p1 (trim_suffix [slash] nr ++ [slash])) as [p2 r2]. cbn [fst] in S2.
    eexists _, _. split; [reflexivity|eapply same_trans; eassumption]. }
  destruct K as (p2 & r2 & E & S).
  replace (match r1 with Ok _ | _ => _ end) with (p2, r2) by (symmetry; destruct r1; exact E).
  exists p2. split; [|exact S]. destruct r2 as [d| | |e]; [destruct (fetch_at c (tp sr) (r_rec d) (r_blk d))|..]; reflexivity.
Qed.
Lemma HD_good_name sa sr ha hr : GoodE c sa sr -> HD sa ha hr ->
  good (hd_path ha) /\ hd_link ha = [] /\ live_name (rows (db sa)) (hd_path ha) = true /\ usize_ok (h_pax (hd_info ha)).
Proof.
  intros HG [(Hfr & E1 & E2) _]. destruct (from_row_facts true _ _ (PR_li _ _ (GoodE_PR _ _ _ HG)) Hfr) as (A & B & C & D).
  rewrite E1, E2. repeat split; assumption.
Qed.

(* the first Write on a handle *)
Lemma handle_write_all_sim sa sr ha hr d : GoodE c sa sr -> HD sa ha hr ->
  exists sr' o b, handle_write_all c sa ha d = (sa, o, b) /\ handle_write_all c sr hr d = (sr', o, b) /\ GoodE c sa sr'.
Proof.
  intros HG HH. pose proof HH as [Hgd Hrel]. destruct (HD_good_name sa sr ha hr HG HH) as (G & _).
  pose proof (handle_write_all_lv true c sa ha d (PR_li _ _ (GoodE_PR _ _ _ HG))) as Hfst.
  assert (K : exists sr' , snd (fst (handle_write_all c sr hr d)) = snd (fst (handle_write_all c sa ha d)) /\
              snd (handle_write_all c sr hr d) = snd (handle_write_all c sa ha d) /\
              fst (fst (handle_write_all c sr hr d)) = sr' /\ GoodE c sa sr').
  { unfold handle_write_all. rewrite (hr_tf _ _ (hd_i _ _ Hrel)), (hd_f _ _ Hrel), (hd_b _ _ Hrel).
    destruct (h_tf (hd_info ha) =? TypeDir); [exists sr; k4 HG|].
    destruct (negb (fl_write (hd_flags ha))); [exists sr; k4 HG|].
    destruct (hd_buf ha) as [b0|]; [exists sr; k4 HG|].
    destruct (statF c sa sr (hd_path ha) (hd_path hr) HG G (hd_p _ _ Hrel)) as (sr1 & rr & Ea & Er & HG1 & HR). rewrite Ea, Er.
    destruct (stat_form sa (hd_path ha)) as [h| | |e] eqn:Es; inversion HR as [? h' Hh| | |]; subst;
      try (exists sr1; k4 HG1).
    rewrite (hr_size _ _ Hh). destruct (negb (h_size h =? 0)).
      + pose proof (read_path_sim c sa sr1 (hd_path ha) (hd_path hr) (GoodE_PR _ _ _ HG1) (R_tp _ _ (ge_R _ _ _ HG1)) G (hd_p _ _ Hrel)) as E1.
        pose proof (read_path_lv true c sa (hd_path ha) (PR_li _ _ (GoodE_PR _ _ _ HG))) as E2.
        destruct (read_path_fst sa sr1 (hd_path hr) (GoodE_PR _ _ _ HG1)) as (pr2 & E3 & S3).
        destruct (read_path c sa (hd_path ha)) as [xa ya]. destruct (read_path c sr1 (hd_path hr)) as [xr yr]. cbn [fst snd] in *. subst.
        pose proof (GoodE_set_db c sa sr1 pr2 HG1 S3) as HG2.
        destruct ya as [x| | |e]; exists (set_db sr1 pr2); k4 HG2.
      + exists sr1; k4 HG1. }
  destruct K as (sr' & K1 & K2 & K3 & HG').
  destruct (handle_write_all c sa ha d) as [[xa oa] ba]. destruct (handle_write_all c sr hr d) as [[xr or_] br]. cbn [fst snd] in *. subst.
  exists sr', oa, ba. split; [reflexivity|]. split; [reflexivity|exact HG'].
Qed.
(* Close: one Update(replace = true) of the handle's entry *)
Lemma flush_hdr_rel ha hr sz : hdrel ha hr -> is_abs (hd_path ha) = true -> hrel (flush_hdr ha sz) (flush_hdr hr sz).
Proof.
  intros [P L F I B] Ha. pose proof I as []. constructor; cbn; try assumption; try reflexivity; [congruence|constructor].
Qed.

Lemma handle_close_sim sa sr ha hr buf : GoodE c sa sr -> HD sa ha hr ->
  SIM c (handle_close c sa ha buf) (handle_close c sr hr buf).
Proof.
  intros HG HH. destruct (HD_good_name sa sr ha hr HG HH) as (G & Lk & Lv & _). destruct HH as [_ Hrel].
  unfold handle_close. destruct buf as [b|]; [|split; [reflexivity|exact HG]].
  destruct (ge_env _ _ _ HG) as (_ & _ & Eclk). rewrite Eclk.
  destruct (update_simr c HP Hrs sa sr {| f_hdr := stamp_mtime (flush_hdr ha (clen b)) (clk sa); f_data := b |}
              {| f_hdr := stamp_mtime (flush_hdr hr (clen b)) (clk sa); f_data := b |} true true HG) as (sa' & sr' & E1 & E2 & HG').
  - cbn [f_hdr]. apply hrel_stamp. apply flush_hdr_rel; [exact Hrel|apply good_abs; exact G].
  - reflexivity.
  - exact G.
  - exact Lk.
  - exact I.
  - exact Lv.
  - rewrite E1, E2. split; [reflexivity|exact HG'].
Qed.

Lemma write_close_sim sa sr ha hr d force : GoodE c sa sr -> HD sa ha hr ->
  SIM c (write_close c sa ha d force) (write_close c sr hr d force).
Proof.
  intros HG HH. unfold write_close.
  assert (K : SIM c (match handle_write_all c sa ha d with (s, OOk, Some b) => handle_close c s ha (Some b) | (s, e, _) => (s, e) end)
                    (match handle_write_all c sr hr d with (s, OOk, Some b) => handle_close c s hr (Some b) | (s, e, _) => (s, e) end)).
  { destruct (handle_write_all_sim sa sr ha hr d HG HH) as (sr' & o & b & Ea & Er & HG'). rewrite Ea, Er.
    destruct o; try (split; [reflexivity|exact HG']). destruct b as [b|]; [|split; [reflexivity|exact HG']].
    apply handle_close_sim; assumption. }
  destruct d as [|d0 d'].
  - destruct force; [exact K|]. rewrite (hd_b _ _ (proj2 HH)). apply handle_close_sim; assumption.
  - exact K.
Qed.

(* OpenFile *)
Lemma fs_openfile_sim sa sr n o perm : GoodE c sa sr -> is_abs n = true ->
  SIMH (fs_openfile c sa n o perm) (fs_openfile c sr n o perm).
Proof.
  intros HG Ha. unfold fs_openfile. pose proof (path_clean_abs_good n Ha) as G.
  destruct n as [|n0 n']; [discriminate|]. set (name := path_clean (n0 :: n')) in *. set (fl := decode_flags c o).
  assert (FIN : forall xa xr h hr cr, GoodE c xa xr -> from_row (db xa) h -> hrel h hr ->
    SIMH (if negb cr && negb (c_readonly c) && o_create o && o_excl o then (xa, OExist, None)
          else if (h_tf h =? TypeDir) && (fl_write fl || fl_append fl || fl_trunc fl) then (xa, OIsDir, None)
          else (xa, OOk, Some {| hd_path := h_name h; hd_link := h_link h; hd_flags := fl; hd_info := h;
                                 hd_buf := if fl_write fl && fl_trunc fl && negb (h_tf h =? TypeDir) && negb (h_size h =? 0) then Some [] else None |}))
         (if negb cr && negb (c_readonly c) && o_create o && o_excl o then (xr, OExist, None)
          else if (h_tf hr =? TypeDir) && (fl_write fl || fl_append fl || fl_trunc fl) then (xr, OIsDir, None)
          else (xr, OOk, Some {| hd_path := h_name hr; hd_link := h_link hr; hd_flags := fl; hd_info := hr;
                                 hd_buf := if fl_write fl && fl_trunc fl && negb (h_tf hr =? TypeDir) && negb (h_size hr =? 0) then Some [] else None |}))).
  { intros xa xr h hr cr HX Hfr Hh. rewrite (hr_tf _ _ Hh), (hr_size _ _ Hh).
    destruct (negb cr && negb (c_readonly c) && o_create o && o_excl o); [simh_none HX|].
    destruct ((h_tf h =? TypeDir) && (fl_write fl || fl_append fl || fl_trunc fl)); [simh_none HX|].
    split; [reflexivity|]. split; [exact HX|]. constructor. split.
    - split; [exact Hfr|split; reflexivity].
    - constructor; cbn; try reflexivity; [exact (hr_name _ _ Hh)|exact (hr_link _ _ Hh)|exact Hh]. }
  assert (FR : forall xa xr g h, GoodE c xa xr -> stat_form xa g = Ok h -> from_row (db xa) h).
  { intros xa xr g h HX E. destruct (stat_form_ok c _ _ _ _ HX E) as (d & -> & Hin & Hlv & _). exists d. repeat split; assumption. }
  destruct (statF c sa sr name name HG G (nrel_refl _)) as (sr1 & rr & Ea & Er & HG1 & HR). rewrite Ea, Er.
  destruct (stat_form sa name) as [h| | |e] eqn:Es; inversion HR as [? hr Hh| | |]; subst; try simh_none HG1.
  - apply FIN; [exact HG1|exact (FR _ _ _ _ HG Es)|exact Hh].
  - pose proof (stat_form_root c _ _ _ HG Es) as Hn.
    destruct (statT c sa sr1 name name HG1 G Hn (nrel_refl _)) as (sr2 & Ea2 & Er2 & HG2). rewrite Ea2, Er2.
    destruct (negb (c_readonly c) && o_create o); [|simh_none HG2].
    destruct (parent_check_sim c sa sr2 name HG2 (good_abs _ G)) as (sr3 & o3 & Ea3 & Er3 & HG3). rewrite Ea3, Er3.
    destruct o3; try simh_none HG3.
    destruct (mknode_simr c HP Hrs Hro sa sr3 false name perm HG3 G) as (sa4 & sr4 & E1 & E2 & HG4 & _). rewrite E1, E2.
    destruct (statF c sa4 sr4 name name HG4 G (nrel_refl _)) as (sr5 & rr5 & Ea5 & Er5 & HG5 & HR5). rewrite Ea5, Er5.
    destruct (stat_form sa4 name) as [h| | |e] eqn:Es5; inversion HR5 as [? hr Hh| | |]; subst; try simh_none HG5.
    apply FIN; [exact HG5|exact (FR _ _ _ _ HG4 Es5)|exact Hh].
Qed.

Lemma fs_create_sim sa sr n : GoodE c sa sr -> is_abs n = true -> SIMH (fs_create c sa n) (fs_create c sr n).
Proof.
  intros HG Ha. unfold fs_create. rewrite Hro. pose proof (path_clean_abs_good n Ha) as G.
  destruct n as [|n0 n']; [discriminate|]. set (name := path_clean (n0 :: n')) in *.
  destruct (parent_check_sim c sa sr name HG (good_abs _ G)) as (sr1 & o1 & Ea & Er & HG1). rewrite Ea, Er.
  destruct o1; try simh_none HG1. apply fs_openfile_sim; [exact HG1|apply good_abs; exact G].
Qed.

(* the two file calls of the alphabet *)
Lemma open_then_write_sim (x y : sys * outc * option handle) d force : SIMH x y ->
  SIM c (match x with (s, OOk, Some hd) => write_close c s hd d force | (s, e, _) => (s, e) end)
        (match y with (s, OOk, Some hd) => write_close c s hd d force | (s, e, _) => (s, e) end).
Proof.
  destruct x as [[xa oa] ha]. destruct y as [[xr or_] hr]. intros (E & HG & HO). cbn [fst snd] in *. subst or_.
  destruct oa; try (split; [reflexivity|exact HG]). destruct HO as [|a r HH]; [split; [reflexivity|exact HG]|].
  apply write_close_sim; assumption.
Qed.
End File.
