(* T02w / the reference for  OpenFile(name, flags, perm); Write(d) (performed if d is non-empty or [force]); Close
   ([CWriteFile n o perm d force], Fs.fs_writefile / Fs.step), in the style of [spec_create_file] of T02Ns.v: the
   outcome and the resulting namespace on an ordinary filesystem, and the resulting content.  Definitions and
   list-level lemmas only.

   The reference ([spec_write_file] = [spec_write_file_q false]):
   - the name exists:
       O_CREATE|O_EXCL                                  -> exist, nothing changes
       a directory, opened with write access or O_TRUNC -> is-a-directory
       a directory, opened read-only (O_APPEND allowed) -> the open succeeds; a Write is refused (is-a-directory)
       a file: see below
   - the name does not exist:
       without O_CREATE                                 -> not-exist
       with O_CREATE: the parent is missing -> not-exist, is not a directory -> is-a-file (as Mkdir, [spec_parent]);
                      otherwise a new empty regular file is created, owned by the creating identity, mode = perm,
                      modification time = now, access / change time 0 (as [new_node]) - whatever the access mode -
                      and the call continues as on an existing empty file.  If the Write is then refused (no write
                      access) the call FAILS and the created entry stays: open+write+close is not atomic.
   - on a file: a Write (d non-empty or [force]) through a handle without write access -> permission, nothing else
     changes.  Otherwise the call succeeds.  The entry changes only when something was written (at least one byte:
     [nonempty d]) or the file was truncated (O_TRUNC with write access): then size, modification time (= now) and
     content id change, and mode, owner, group, access and change time are kept ([wnode] = T02Create.flushed_node,
     exactly as in [spec_create_file]; [spec_write_file_is_create_file] in T02wSpec.v).
     New size ([new_size]): base = 0 if truncated, the old size otherwise; base + |d| with O_APPEND, max base |d| without.
     New content ([spec_data]): coverlay (if truncated then [] else old) (if O_APPEND then its length else 0) d.
     O_TRUNC without write access does not truncate (POSIX leaves it unspecified; the implementation does not).

   The implementation ([spec_write_file_q true]) differs from this reference in three corners (compiled examples in
   T02wCounter.v; [write_pre] excludes them; [T02_write_file_exact] in T02wSpec.v covers them with [q = true]):
   (W1) O_TRUNC with write access on an existing EMPTY file and no Write: nothing at all happens (the handle has no
        buffer, Close flushes nothing); the reference stamps the modification time (this is the corner (2) of
        T02Counter.v, [create_pre], seen through OpenFile).
   (W2) a Write of ZERO bytes ([clen d = 0]; performed because [force] is set, or d is a non-empty list of zero-length
        pieces) with write access and without O_TRUNC on an existing file: the handle enters write mode and Close flushes: a new record is written and the modification time is stamped,
        although no byte changed; the reference changes nothing.
   (W3) an existing DIRECTORY opened O_RDONLY|O_APPEND (no O_TRUNC), nothing written: the implementation refuses the
        open (is-a-directory); the reference (and afero's OsFs / MemMapFs) opens it. *)
From Coq Require Import List NArith ZArith Bool Lia.
From Coq Require Import ZifyN ZifyBool.
Import ListNotations.
From STFS Require Import Str Db Tape Index Ops Fs Diff C01Str T02Ns.
Open Scope N_scope.

Definition wr_acc (o : oflag) : bool := (o_acc o =? 1) || (o_acc o =? 2).
(* a Write call is performed *)
Definition writes (d : content) (force : bool) : bool := match d with [] => force | _ => true end.
(* at least one byte *)
Definition nonempty (d : content) : bool := negb (clen d =? 0).

(* the entry after content was flushed: as T02Create.flushed_node *)
Definition wnode (size : N) (now : Z) (cid : N * N) (v : node) : node :=
  {| n_tf := TypeReg; n_size := size; n_mode := n_mode v; n_uid := n_uid v; n_gid := n_gid v;
     n_uname := n_uname v; n_gname := n_gname v;
     n_mtime := now; n_atime := n_atime v; n_ctime := n_ctime v; n_cid := cid |}.

Definition new_size (o : oflag) (old : N) (d : content) : N :=
  let base := if o_trunc o then 0 else old in
  if o_append o then base + clen d else N.max base (clen d).

(* Write; Close on the file entry [v] opened with [o]: the new entry (None: unchanged) and the outcome.
   [q = false]: the reference; [q = true]: the implementation (corners W1, W2) *)
Definition rw_node (q : bool) (o : oflag) (d : content) (force : bool) (now : Z) (cid : N * N) (v : node) : option node * outc :=
  if writes d force then
    if wr_acc o then
      if negb q && negb (nonempty d) && negb (o_trunc o) then (None, OOk)                   (* W2 *)
      else (Some (wnode (new_size o (n_size v) d) now cid v), OOk)
    else (None, OPerm)
  else
    if wr_acc o && o_trunc o && (negb q || negb (n_size v =? 0))                            (* W1 *)
    then (Some (wnode 0 now cid v), OOk) else (None, OOk).

Definition spec_write_file_q (q : bool) (c : cfg) (a : ns) (n : str) (o : oflag) (perm : N) (d : content) (force : bool)
    (now : Z) (cid : N * N) : ns * outc :=
  match lookup a n with
  | Some v =>
    if o_create o && o_excl o then (a, OExist)
    else if is_dir v then
      if wr_acc o || o_trunc o || (q && o_append o) then (a, OIsDir)                        (* W3 *)
      else if writes d force then (a, OIsDir) else (a, OOk)
    else
      match rw_node q o d force now cid v with
      | (Some v', e) => (ns_set a n v', e)
      | (None, e) => (a, e)
      end
  | None =>
    if o_create o then
      match spec_parent a n with
      | OOk =>
        let v := new_node c false perm now cid in
        match rw_node q o d force now cid v with
        | (Some v', e) => (ns_set a n v', e)
        | (None, e) => (ns_set a n v, e)
        end
      | e => (a, e)
      end
    else (a, ONotExist)
  end.

Definition spec_write_file := spec_write_file_q false.

(* the content of the entry after the call, from the content before ([] for a new file) *)
Definition spec_data (o : oflag) (d : content) (force : bool) (old : content) : content :=
  if wr_acc o && writes d force then
    let base := if o_trunc o then [] else old in
    coverlay base (if o_append o then clen base else 0) d
  else if wr_acc o && o_trunc o then [] else old.

(* the corners W1, W2, W3 *)
Definition write_corner (a : ns) (n : str) (o : oflag) (d : content) (force : bool) : bool :=
  match lookup a n with
  | Some v =>
    negb (o_create o && o_excl o) &&
    (if is_dir v then negb (wr_acc o) && negb (o_trunc o) && o_append o && negb (writes d force)        (* W3 *)
     else wr_acc o &&
          (if writes d force then negb (nonempty d) && negb (o_trunc o)                               (* W2 *)
           else o_trunc o && (n_size v =? 0)))                                                        (* W1 *)
  | None => false
  end.

(* ---------- the reference and the implementation agree outside the corners *)
Lemma rw_node_new q c perm o d force now cid :
  let v := new_node c false perm now cid in
  (match rw_node q o d force now cid v with (Some v', _) => v' | (None, _) => v end) =
  (match rw_node true o d force now cid v with (Some v', _) => v' | (None, _) => v end) /\
  snd (rw_node q o d force now cid v) = snd (rw_node true o d force now cid v).
Proof.
  cbn zeta. destruct q; [split; reflexivity|]. unfold rw_node, nonempty.
  destruct (writes d force) eqn:Ew, (wr_acc o), (o_trunc o) eqn:Et, (clen d =? 0) eqn:Ed;
    cbn [negb andb orb new_node n_size N.eqb]; split; try reflexivity.
  all: unfold wnode, new_node, new_size; rewrite ?Et; cbn [n_size n_mode n_uid n_gid n_uname n_gname n_atime n_ctime];
    apply N.eqb_eq in Ed; rewrite Ed; destruct (o_append o); reflexivity.
Qed.

Lemma spec_write_file_q_agree c a n o perm d force now cid : write_corner a n o d force = false ->
  ns_eq (fst (spec_write_file_q true c a n o perm d force now cid)) (fst (spec_write_file c a n o perm d force now cid)) /\
  snd (spec_write_file_q true c a n o perm d force now cid) = snd (spec_write_file c a n o perm d force now cid).
Proof.
  unfold write_corner, spec_write_file, spec_write_file_q. destruct (lookup a n) as [v|] eqn:Ln.
  - destruct (o_create o && o_excl o); cbn [negb andb]; [intros _; split; [apply ns_eq_refl|reflexivity]|].
    destruct (is_dir v).
    + destruct (wr_acc o), (o_trunc o), (o_append o), (writes d force); cbn; intro H; try discriminate; split; try apply ns_eq_refl; reflexivity.
    + unfold rw_node. destruct (wr_acc o), (writes d force), (nonempty d), (o_trunc o), (n_size v =? 0); cbn; intro H; try discriminate;
        split; try apply ns_eq_refl; reflexivity.
  - intros _. destruct (o_create o); [|split; [apply ns_eq_refl|reflexivity]].
    destruct (spec_parent a n); try (split; [apply ns_eq_refl|reflexivity]).
    destruct (rw_node_new false c perm o d force now cid) as (E1 & E2). cbn zeta in *.
    destruct (rw_node true o d force now cid (new_node c false perm now cid)) as [[v1|] e1],
             (rw_node false o d force now cid (new_node c false perm now cid)) as [[v2|] e2]; cbn [fst snd] in *; subst;
      split; try reflexivity; apply ns_eq_refl.
Qed.

(* ---------- every other name is untouched *)
Lemma spec_write_file_other q c a n o perm d force now cid m : eqb_str m n = false ->
  lookup (fst (spec_write_file_q q c a n o perm d force now cid)) m = lookup a m.
Proof.
  intro E. unfold spec_write_file_q. destruct (lookup a n) as [v|].
  - destruct (o_create o && o_excl o); [reflexivity|]. destruct (is_dir v).
    + destruct (wr_acc o || o_trunc o || (q && o_append o)); [reflexivity|]. destruct (writes d force); reflexivity.
    + destruct (rw_node q o d force now cid v) as [[v'|] e]; cbn [fst]; [rewrite lookup_ns_set, E|]; reflexivity.
  - destruct (o_create o); [|reflexivity]. destruct (spec_parent a n); try reflexivity.
    destruct (rw_node q o d force now cid _) as [[v'|] e]; cbn [fst]; rewrite lookup_ns_set, E; reflexivity.
Qed.

(* ---------- what the two sides answer in the corners *)
Lemma write_corner_cases c a n o perm d force now cid v : lookup a n = Some v -> write_corner a n o d force = true ->
  let t := spec_write_file_q true c a n o perm d force now cid in
  let f := spec_write_file c a n o perm d force now cid in
  if is_dir v then (* W3 *) t = (a, OIsDir) /\ f = (a, OOk)
  else if writes d force then (* W2 *) t = (ns_set a n (wnode (n_size v) now cid v), OOk) /\ f = (a, OOk)
  else (* W1 *) t = (a, OOk) /\ f = (ns_set a n (wnode 0 now cid v), OOk) /\ n_size v = 0.
Proof.
  intros Hv. unfold write_corner, spec_write_file, spec_write_file_q. rewrite Hv. cbn zeta.
  destruct (o_create o && o_excl o); cbn [negb andb]; [discriminate|].
  destruct (is_dir v).
  - destruct (wr_acc o), (o_trunc o), (o_append o), (writes d force); cbn; intro H; try discriminate. split; reflexivity.
  - unfold rw_node. destruct (wr_acc o); cbn [andb]; [|discriminate]. destruct (writes d force).
    + unfold nonempty. destruct (clen d =? 0) eqn:Ed; cbn [negb andb]; [|discriminate].
      destruct (o_trunc o) eqn:Et; cbn [negb andb]; [discriminate|]. intros _.
      apply N.eqb_eq in Ed. unfold new_size. rewrite Et, Ed, N.add_0_r, N.max_0_r. destruct (o_append o); split; reflexivity.
    + destruct (o_trunc o); cbn [negb andb orb]; [|discriminate]. intro H. rewrite H. cbn [negb].
      split; [reflexivity|]. split; [reflexivity|]. apply N.eqb_eq. exact H.
Qed.
