(* T19 / Main: an instance that continues from a REBUILT index behaves like the instance that wrote the tape.
   [Sim c sa sr]: the writer [sa] satisfies the C01 invariant (root row live and first), the two instances are related
   by [R] (Proofs/T19Rel.v) and the reader's own tape rebuilds to an index related to the writer's.
   - T19_step_sim : every filesystem-level call (root never removed or renamed onto) returns the same outcome on the
     two instances and keeps them in [Sim];
   - T19_view_sim : related instances show the same tree, contents included (any configuration);
   - T19_rel_init : the writer after any filesystem-level history, and the instance Initialize yields over the same
     tape without an index, are in [Sim];
   - T19_run_sim  : histories; T19_reopen_rebuilt: rebuilding again from the reader's tape gives an instance in [Sim]
     with the writer again (what was written through the rebuilt instance survives a rebuild);
   - T19_rebuilt_continuation_keeps_C01: rows (rebuild (tape of the reader)) = rows (index of the reader), exactly
     (no normalisation: the reader stores the spelling the rebuild produces; Proofs/T19Det.v).
   Plain configuration (c_csuf = c_esuf = []) for the calls. *)
From Coq Require Import List NArith ZArith Bool Lia.
From Coq Require Import ZifyN ZifyBool.
Import ListNotations.
From STFS Require Import Str Db Tape Index Ops Fs Diff Norm StrLemmas C01Str C01Db C01Inv C01Sim C01Tape C01Hdr C01Ops C01Ops2
  C01Reads C01Fs C01Fs2 C01Rows T05Sync TcfgSim T05Open T13Path T17Str T19Rel T19Base T19Db T19Index T19Append T19Ops T19Reads T19Fs T19File.
Open Scope N_scope.

(* [REB c sa sr] (Proofs/T19Append.v): the reader's tape rebuilds, to an index related to the writer's whose rows are exactly
   the rows of the reader's index *)
Definition Sim (c : cfg) (sa sr : sys) : Prop := Inv true c sa /\ R sa sr /\ REB c sa sr.

Lemma Sim_PR c sa sr : Sim c sa sr -> PR (db sa) (db sr).
Proof. intros (HI & HR & _). split; [exact (iv_li _ _ _ HI)|exact (R_db _ _ HR)]. Qed.

Lemma Sim_tape_nonempty c sa sr : Sim c sa sr -> tp sr <> [].
Proof.
  intros (HI & HR & _). destruct (iv_sync _ _ _ HI) as (pre & m & Et & _). intro K. pose proof (R_tp _ _ HR) as T. rewrite K, Et in T.
  apply F2_length in T. rewrite app_length in T. cbn in T. lia.
Qed.

(* ---------- the visible tree (any configuration) *)
Theorem T19_view_sim : forall c sa sr, LI true (db sa) -> R sa sr -> view c sr = view c sa.
Proof. intros c sa sr HL [Ht Hd]. apply view_sim; [split; assumption|exact Ht]. Qed.

Corollary T19_view_sim' : forall c sa sr, Sim c sa sr -> view c sr = view c sa.
Proof. intros c sa sr (HI & HR & _). apply T19_view_sim; [exact (iv_li _ _ _ HI)|exact HR]. Qed.

(* ---------- one call *)
Lemma GoodE_env c sa sr e : Sim c sa sr -> forallb (fun x => 0 <? x) (ev_hb e) = true -> GoodE c (with_env sa e) (with_env sr e).
Proof.
  intros (HI & [Ht Hd] & Hq) Hb. split.
  - eapply Inv_ext; [| |exact HI]; reflexivity.
  - unfold hbok, with_env. cbn [hbq]. apply Forall_forall. intros x Hx. rewrite forallb_forall in Hb. specialize (Hb x Hx). lia.
  - split; assumption.
  - repeat split.
  - exact Hq.
Qed.

Lemma GoodE_Sim c sa sr : GoodE c sa sr -> Sim c sa sr /\ Re sa sr.
Proof. intros [A B C (E1 & E2 & E3) D]. split; [split; [exact A|split; assumption]|]. split; assumption. Qed.

Lemma p_open_rd pa pr : PR pa pr -> same pr (p_open (rows pr)).
Proof.
  intro H. unfold p_open.
  assert (H0 : PR pa {| rows := rows pr; root := []; root_empty := false |}).
  { split; [exact (PR_li _ _ H)|]. destruct (PR_rel _ _ H) as [A B C]. split; [exact A|exact B|reflexivity]. }
  destruct (get_root_path_rd _ _ H0) as (p' & E & [S1 S2]). rewrite E. cbn [fst]. split; [exact S1|].
  rewrite S2. cbn [root]. symmetry. exact (pr_root_r _ _ (PR_rel _ _ H)).
Qed.

Section Step.
Variable c : cfg.
Hypothesis HP : plain c.
Hypothesis Hrs : 0 < c_rs c.
Hypothesis Hro : c_readonly c = false.

Lemma patch_props : (forall m h, h_name (patch_mode m h) = h_name h /\ h_link (patch_mode m h) = h_link h /\ h_pax (patch_mode m h) = h_pax h) /\
  (forall u g h, h_name (patch_owner u g h) = h_name h /\ h_link (patch_owner u g h) = h_link h /\ h_pax (patch_owner u g h) = h_pax h) /\
  (forall a m h, h_name (patch_times a m h) = h_name h /\ h_link (patch_times a m h) = h_link h /\ h_pax (patch_times a m h) = h_pax h).
Proof. repeat split. Qed.

Lemma step_SIM sa sr k : GoodE c sa sr -> fs_call k = true -> call_ok k = true -> SIM c (step c sa k) (step c sr k).
Proof.
  intros HG Hk Hok. unfold call_ok in Hok. apply andb_true_iff in Hok as [Hren Hkept].
  destruct patch_props as (P1 & P2 & P3).
  destruct k; cbn [fs_call] in Hk; try discriminate; cbn [step].
  - apply fs_mkdir_sim; assumption.
  - apply fs_mkdirall_sim; assumption.
  - cbn [root_kept] in Hkept. apply negb_true_iff in Hkept. apply eqb_str_neq in Hkept. apply fs_remove_sim; assumption.
  - cbn [root_kept] in Hkept. apply negb_true_iff in Hkept. apply eqb_str_neq in Hkept. apply fs_removeall_sim; assumption.
  - apply andb_true_iff in Hk as [Ha Hb]. cbn [rename_ok] in Hren. apply negb_true_iff in Hren. apply eqb_str_neq in Hren.
    apply fs_rename_sim; assumption.
  - apply fs_update_meta_sim; try assumption; [apply P1|intros; apply hrel_patch_mode; assumption].
  - apply fs_update_meta_sim; try assumption; [apply P2|intros; apply hrel_patch_owner; assumption].
  - apply fs_update_meta_sim; try assumption; [apply P3|intros; apply hrel_patch_times; assumption].
  - apply (open_then_write_sim c HP Hrs). apply fs_create_sim; assumption.
  - apply (open_then_write_sim c HP Hrs). apply fs_openfile_sim; assumption.
  - (* Initialize: both instances know a root *)
    unfold fs_initialize. rewrite (get_root_path_lv true (db sa) (PR_li _ _ (GoodE_PR _ _ _ HG))).
    destruct (get_root_path_rd _ _ (GoodE_PR _ _ _ HG)) as (pr' & E & S). rewrite E. rewrite set_db_same.
    split; [reflexivity|]. apply GoodE_set_db; assumption.
  - (* Reopen *)
    rewrite (p_open_lv (db sa) (PR_li _ _ (GoodE_PR _ _ _ HG))), set_db_same.
    split; [reflexivity|]. apply GoodE_set_db; [exact HG|]. eapply p_open_rd. exact (GoodE_PR _ _ _ HG).
  - split; [reflexivity|exact HG].
Qed.

Theorem T19_step_sim : forall sa sr k e, Sim c sa sr ->
  fs_call k = true -> call_ok k = true -> hb_ok (k, e) = true ->
  snd (step c (with_env sr e) k) = snd (step c (with_env sa e) k) /\
  Sim c (fst (step c (with_env sa e) k)) (fst (step c (with_env sr e) k)) /\
  Re (fst (step c (with_env sa e) k)) (fst (step c (with_env sr e) k)).
Proof.
  intros sa sr k e HS Hk Hok Hb. destruct (step_SIM _ _ k (GoodE_env c sa sr e HS Hb) Hk Hok) as [E HG].
  split; [exact E|]. apply GoodE_Sim. exact HG.
Qed.

(* ---------- histories *)
Definition obs_rel (a r : obs) : Prop :=
  ob_out r = ob_out a /\ rows_rel (ob_rows a) (ob_rows r) /\ ob_view r = ob_view a /\ ob_blocks r = ob_blocks a.

Theorem T19_run_sim : forall h sa sr, Sim c sa sr ->
  forallb (fun ke => fs_call (fst ke)) h = true -> forallb (fun ke => call_ok (fst ke)) h = true -> forallb hb_ok h = true ->
  Forall2 obs_rel (run c sa h) (run c sr h) /\ Sim c (final c sa h) (final c sr h).
Proof.
  induction h as [|[k e] h IH]; intros sa sr HS H1 H2 H3; cbn [run final]; [split; [constructor|exact HS]|].
  cbn [forallb fst] in H1, H2, H3. apply andb_true_iff in H1 as [K1 H1]. apply andb_true_iff in H2 as [K2 H2]. apply andb_true_iff in H3 as [K3 H3].
  destruct (T19_step_sim sa sr k e HS K1 K2 K3) as (Eo & HS' & _).
  destruct (step c (with_env sa e) k) as [sa' oa]. destruct (step c (with_env sr e) k) as [sr' or_]. cbn [fst snd] in *. subst or_.
  destruct (IH sa' sr' HS' H1 H2 H3) as (IH1 & IH2). split; [|exact IH2]. constructor; [|exact IH1].
  unfold obs_rel, observe. cbn [ob_out ob_rows ob_view ob_blocks]. split; [reflexivity|].
  split; [exact (pr_rows _ _ (R_db _ _ (proj1 (proj2 HS'))))|]. split; [rewrite (T19_view_sim' c sa' sr' HS'); reflexivity|].
  apply tape_rel_blocks. exact (R_tp _ _ (proj1 (proj2 HS'))).
Qed.
End Step.

(* ---------- the initial pair: the writer after a history, the reader Initialize yields over the same tape *)
Lemma rows_rel_NR l : Forall rowok l -> rows_rel l (NR l).
Proof.
  induction 1 as [|a l Ha _ IH]; constructor; [|exact IH]. destruct Ha as (G & _).
  constructor; try reflexivity; [apply good_abs; exact G|apply pax_rel_refl].
Qed.

Lemma tape_rel_refl t : tape_rel t t.
Proof. induction t as [|[m|] t IH]; constructor; try exact IH; constructor. constructor; try reflexivity. apply hrel_refl. Qed.

Lemma plain_of_id c : plain c -> plain_of c = c.
Proof. intros [A B]. destruct c. cbn in *. subst. reflexivity. Qed.

(* opening a tape that rebuilds to an index related to the writer's *)
Lemma open_rebuilt c sa t qr q1 q2 k rootp : LI true (db sa) -> t <> [] -> rebuild c t = (qr, Ok tt) -> prel (db sa) qr ->
  let s0 := {| tp := t; db := p_empty; hbq := q1; encq := q2; clk := k |} in
  snd (fs_initialize c s0 rootp) = OOk /\ tp (fst (fs_initialize c s0 rootp)) = t /\
  prel (db sa) (db (fst (fs_initialize c s0 rootp))) /\ rows qr = rows (db (fst (fs_initialize c s0 rootp))).
Proof.
  intros HL Ht Er Hq s0. rewrite (T05_initialize_over_rebuildable_tape c s0 rootp qr Ht Er).
  change (get_root_path (db s0)) with (p_empty, @None str). cbn [snd fst].
  destruct (get_root_path_rd (db sa) qr (Build_PR _ _ HL Hq)) as (p' & E & S). rewrite E. cbn [fst snd tp db set_db].
  split; [reflexivity|]. split; [reflexivity|]. split; [eapply prel_same; eassumption|symmetry; exact (proj1 S)].
Qed.

Theorem T19_rel_init : forall c e r, plain c -> 0 < c_rs c -> c_readonly c = false ->
  forallb hb_ok ((CInitialize [slash], e) :: r) = true ->
  forallb (fun ke => fs_call (fst ke)) r = true ->
  forallb (fun ke => call_ok (fst ke)) r = true ->
  forall rootp q1 q2 k,
  let s := final c init_sys ((CInitialize [slash], e) :: r) in
  let s0 := {| tp := tp s; db := p_empty; hbq := q1; encq := q2; clk := k |} in
  snd (fs_initialize c s0 rootp) = OOk /\ Sim c s (fst (fs_initialize c s0 rootp)).
Proof.
  intros c e r HP Hrs Hro Hhb Hfs Hok rootp q1 q2 k s s0.
  assert (HI : Inv true c s).
  { pose proof Hhb as Hhb'. cbn [forallb] in Hhb'. apply andb_true_iff in Hhb' as [Hb0 Hb].
    pose proof (init_ok c Hrs Hro e Hb0) as H0.
    pose proof (final_ok_kept c Hrs Hro r) as K. rewrite (plain_of_id c HP) in K.
    destruct (K _ H0 Hfs Hok Hb) as [HI _]. exact HI. }
  destruct (hist_state_kept c e r Hrs Hro Hhb Hfs Hok) as (p & HL & Er & HR & Ht). fold s in HL, Er, HR, Ht.
  assert (Hq : prel (db s) p).
  { split; [|exact (li_root _ _ HL)|exact (r_root _ _ HR)]. rewrite (r_rows _ _ HR). apply rows_rel_NR. apply HL. }
  destruct (open_rebuilt c s (tp s) p q1 q2 k rootp HL Ht Er Hq) as (A & B & C & D). fold s0 in A, B, C, D.
  split; [exact A|]. split; [exact HI|]. split.
  - split; [rewrite B; apply tape_rel_refl|exact C].
  - exists p. rewrite B. split; [exact Er|split; [exact Hq|exact D]].
Qed.

(* ---------- what was written through the rebuilt instance survives a rebuild: opening the READER's tape without an
   index gives an instance that is again related to the writer (and hence shows the same tree as the reader did) *)
Theorem T19_reopen_rebuilt : forall c sa sr rootp q1 q2 k, Sim c sa sr ->
  let s0 := {| tp := tp sr; db := p_empty; hbq := q1; encq := q2; clk := k |} in
  snd (fs_initialize c s0 rootp) = OOk /\ tp (fst (fs_initialize c s0 rootp)) = tp sr /\
  Sim c sa (fst (fs_initialize c s0 rootp)) /\ view c (fst (fs_initialize c s0 rootp)) = view c sr.
Proof.
  intros c sa sr rootp q1 q2 k HS0 s0. pose proof HS0 as (HI & HR & (qr & Eq & Hq & Hrw)).
  pose proof (Sim_tape_nonempty c sa sr HS0) as Ht.
  destruct (open_rebuilt c sa (tp sr) qr q1 q2 k rootp (iv_li _ _ _ HI) Ht Eq Hq) as (A & B & C & D). fold s0 in A, B, C, D.
  assert (HS : Sim c sa (fst (fs_initialize c s0 rootp))).
  { split; [exact HI|]. split; [split; [rewrite B; exact (R_tp _ _ HR)|exact C]|]. exists qr. rewrite B. split; [exact Eq|split; [exact Hq|exact D]]. }
  split; [exact A|]. split; [exact B|]. split; [exact HS|].
  rewrite (T19_view_sim' c _ _ HS). symmetry. apply T19_view_sim'. exact HS0.
Qed.

(* ---------- the C01 statement of the reader: the rows of a rebuild of its tape ARE the rows of its index (no
   normalisation), and they are the writer's rows up to the spelling (names, ReplacesName values) *)
Theorem T19_rebuilt_continuation_keeps_C01 : forall c sa sr, Sim c sa sr ->
  exists p, rebuild c (tp sr) = (p, Ok tt) /\ rows p = rows (db sr) /\ rows_rel (rows (db sa)) (rows (db sr)).
Proof.
  intros c sa sr (HI & HR & (qr & Eq & Hq & Hrw)). exists qr. split; [exact Eq|]. split; [exact Hrw|exact (pr_rows _ _ (R_db _ _ HR))].
Qed.

(* ---------- the two statements of C16 about the continuation from a rebuilt index, from the initial state *)
Lemma obs_rel_maps la lr : Forall2 obs_rel la lr ->
  map ob_out lr = map ob_out la /\ map ob_view lr = map ob_view la /\ map ob_blocks lr = map ob_blocks la /\
  Forall2 rows_rel (map ob_rows la) (map ob_rows lr).
Proof.
  induction 1 as [|a r la lr (A & B & C & D) _ (I1 & I2 & I3 & I4)]; cbn [map]; [repeat split; constructor|].
  rewrite A, C, D, I1, I2, I3. repeat split. constructor; assumption.
Qed.

Theorem T19_rebuilt_instance_simulates_writer : forall c e r r2, plain c -> 0 < c_rs c -> c_readonly c = false ->
  forallb hb_ok ((CInitialize [slash], e) :: r) = true ->
  forallb (fun ke => fs_call (fst ke)) r = true -> forallb (fun ke => call_ok (fst ke)) r = true ->
  forallb (fun ke => fs_call (fst ke)) r2 = true -> forallb (fun ke => call_ok (fst ke)) r2 = true -> forallb hb_ok r2 = true ->
  forall rootp q1 q2 k,
  let s := final c init_sys ((CInitialize [slash], e) :: r) in
  let sr := fst (fs_initialize c {| tp := tp s; db := p_empty; hbq := q1; encq := q2; clk := k |} rootp) in
  map ob_out (run c sr r2) = map ob_out (run c s r2) /\
  map ob_view (run c sr r2) = map ob_view (run c s r2) /\
  map ob_blocks (run c sr r2) = map ob_blocks (run c s r2) /\
  Forall2 rows_rel (map ob_rows (run c s r2)) (map ob_rows (run c sr r2)) /\
  R (final c s r2) (final c sr r2).
Proof.
  intros c e r r2 HP Hrs Hro Hhb Hfs Hok Hfs2 Hok2 Hhb2 rootp q1 q2 k s sr.
  destruct (T19_rel_init c e r HP Hrs Hro Hhb Hfs Hok rootp q1 q2 k) as (_ & HS). fold s in HS. fold sr in HS.
  destruct (T19_run_sim c HP Hrs Hro r2 s sr HS Hfs2 Hok2 Hhb2) as (Hobs & HS').
  destruct (obs_rel_maps _ _ Hobs) as (A & B & C & D). repeat split; try assumption; apply HS'.
Qed.

Theorem T19_written_after_opening_survive_rebuild : forall c e r r2, plain c -> 0 < c_rs c -> c_readonly c = false ->
  forallb hb_ok ((CInitialize [slash], e) :: r) = true ->
  forallb (fun ke => fs_call (fst ke)) r = true -> forallb (fun ke => call_ok (fst ke)) r = true ->
  forallb (fun ke => fs_call (fst ke)) r2 = true -> forallb (fun ke => call_ok (fst ke)) r2 = true -> forallb hb_ok r2 = true ->
  forall rootp q1 q2 k rootp' q1' q2' k',
  let s := final c init_sys ((CInitialize [slash], e) :: r) in
  let sr := fst (fs_initialize c {| tp := tp s; db := p_empty; hbq := q1; encq := q2; clk := k |} rootp) in
  let sr' := final c sr r2 in
  let s2 := {| tp := tp sr'; db := p_empty; hbq := q1'; encq := q2'; clk := k' |} in
  (* what the rebuilt instance shows after its own calls is what the writer would show after the same calls *)
  view c sr' = view c (final c s r2) /\
  (* opening its tape again without an index: nothing appended, success, the same tree *)
  snd (fs_initialize c s2 rootp') = OOk /\ tp (fst (fs_initialize c s2 rootp')) = tp sr' /\
  view c (fst (fs_initialize c s2 rootp')) = view c sr' /\
  (* and the rows of that rebuild are exactly the rows of its index *)
  exists p, rebuild c (tp sr') = (p, Ok tt) /\ rows p = rows (db sr').
Proof.
  intros c e r r2 HP Hrs Hro Hhb Hfs Hok Hfs2 Hok2 Hhb2 rootp q1 q2 k rootp' q1' q2' k' s sr sr' s2.
  destruct (T19_rel_init c e r HP Hrs Hro Hhb Hfs Hok rootp q1 q2 k) as (_ & HS). fold s in HS. fold sr in HS.
  destruct (T19_run_sim c HP Hrs Hro r2 s sr HS Hfs2 Hok2 Hhb2) as (_ & HS'). fold sr' in HS'.
  split; [exact (T19_view_sim' c _ _ HS')|].
  destruct (T19_reopen_rebuilt c _ sr' rootp' q1' q2' k' HS') as (A & B & _ & D). fold s2 in A, B, D.
  split; [exact A|]. split; [exact B|]. split; [exact D|].
  destruct (T19_rebuilt_continuation_keeps_C01 c _ _ HS') as (p & E & F & _). exists p. split; assumption.
Qed.

Print Assumptions T19_step_sim.
Print Assumptions T19_view_sim.
Print Assumptions T19_run_sim.
Print Assumptions T19_rel_init.
Print Assumptions T19_reopen_rebuilt.
Print Assumptions T19_rebuilt_continuation_keeps_C01.
Print Assumptions T19_rebuilt_instance_simulates_writer.
Print Assumptions T19_written_after_opening_survive_rebuild.
