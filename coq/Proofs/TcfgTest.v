(* Tcfg / tests by computation (run BEFORE the proofs): histories under a configuration with the suffixes ".gz" / ".age",
   with entries whose own names end in ".gz", ".age", ".gz.age", empty files, truncation to empty, renames, chmod,
   remove + re-create.  Checked: the C01 statement on every reachable state ([rows_norm_all]), and equality of the
   whole run with the run of the plain configuration. *)
From Coq Require Import String List NArith ZArith Bool.
Import ListNotations.
From STFS Require Import Str Db Tape Index Ops Fs Diff Norm Prefix Replay TcfgSim TcfgOps TcfgFs TcfgHist.
Open Scope string_scope.
Open Scope N_scope.

Definition cf (a b : string) : cfg :=
  {| c_rs := 3; c_csuf := s a; c_esuf := s b; c_readonly := false; c_uid := 0; c_gid := 0;
     c_uname := s "root"; c_gname := s "0" |}.
(* the environment supplies one positive encoded size per call *)
Definition e1 (n : Z) : env := {| ev_hb := []; ev_enc := [33]; ev_now := n |}.
Definition e2 (n : Z) : env := {| ev_hb := [2; 4]; ev_enc := [1; 600]; ev_now := n |}.
Definition wr : oflag := {| o_acc := 1; o_append := false; o_create := false; o_excl := false; o_trunc := true |}.
Definition ap : oflag := {| o_acc := 1; o_append := true; o_create := true; o_excl := false; o_trunc := false |}.

Definition hist1 : list (call * env) :=
  [(CInitialize (s "/"), e1 1); (CMkdir (s "/a") 493, e1 2); (CCreateFile (s "/a/f") [(1, 0, 700)], e1 3);
   (CCreateFile (s "/a/f.gz") [(2, 0, 10)], e2 4); (CCreateFile (s "/a/g.age") [(3, 0, 10)], e1 5);
   (CCreateFile (s "/a/h.gz.age") [(4, 0, 1200)], e1 6); (CCreateFile (s "/a/empty.gz.age") [], e1 7);
   (CMkdir (s "/d.gz.age") 493, e1 8); (CCreateFile (s "/d.gz.age/x") [(5, 0, 3)], e2 9);
   (CWriteFile (s "/a/f") wr 420 [] false, e1 10);                   (* truncate to empty *)
   (CWriteFile (s "/a/f.gz") ap 420 [(6, 0, 5)] false, e1 11);       (* append *)
   (CChmod (s "/a/h.gz.age") 384, e1 12); (CChtimes (s "/a/f.gz") 5 6, e1 13);
   (CRename (s "/a/f.gz") (s "/a/f"), e1 14); (CRename (s "/a") (s "/b.age"), e1 15);
   (CRemove (s "/b.age/g.age"), e1 16); (CCreateFile (s "/b.age/g.age") [(7, 0, 8)], e1 17);
   (CRemoveAll (s "/d.gz.age"), e1 18); (CMkdirAll (s "/d.gz.age/y/z") 493, e1 19);
   (CCreateFile (s "/b.age/h.gz.age") [], e1 20); (CReopen, e1 21); (CCreateFile (s "/b.age/new.gz") [(8, 0, 4)], e1 22)].

(* the same history with NO encoded size supplied (default: the plain size; 0 for the truncation and the empty files)
   and with encoded sizes 0 supplied *)
Definition strip_enc (z : list N) (h : list (call * env)) : list (call * env) :=
  map (fun ke => (fst ke, {| ev_hb := ev_hb (snd ke); ev_enc := z; ev_now := ev_now (snd ke) |})) h.
Definition hist1_noenc := strip_enc [] hist1.
Definition hist1_zero := strip_enc [0; 0] hist1.
Example hist1n_C01 : rows_norm_all (cf ".gz" ".age") init_sys hist1_noenc = true. Proof. vm_compute. reflexivity. Qed.
Example hist1z_C01 : rows_norm_all (cf ".gz" ".age") init_sys hist1_zero = true. Proof. vm_compute. reflexivity. Qed.
Example hist1n_C01_slash : rows_norm_all (cf "/.." "/") init_sys hist1_noenc = true. Proof. vm_compute. reflexivity. Qed.
Example hist1n_run : eqb_list eqb_obs (run (cf ".gz" ".age") init_sys hist1_noenc) (run (plain_of (cf ".gz" ".age")) init_sys hist1_noenc) = true.
Proof. vm_compute. reflexivity. Qed.
Example hist1z_run : eqb_list eqb_obs (run (cf "/.." "/") init_sys hist1_zero) (run (plain_of (cf "/.." "/")) init_sys hist1_zero) = true.
Proof. vm_compute. reflexivity. Qed.
Example hist1n_ok : forallb (fun o => eqb_outc (ob_out o) OOk) (run (cf ".gz" ".age") init_sys hist1_noenc) = true.
Proof. vm_compute. reflexivity. Qed.
Example hist1_C01 : rows_norm_all (cf ".gz" ".age") init_sys hist1 = true. Proof. vm_compute. reflexivity. Qed.
Example hist1_C01_gz : rows_norm_all (cf ".gz" "") init_sys hist1 = true. Proof. vm_compute. reflexivity. Qed.
Example hist1_C01_slash : rows_norm_all (cf "/.." "/") init_sys hist1 = true. Proof. vm_compute. reflexivity. Qed.
Example hist1_run : eqb_list eqb_obs (run (cf ".gz" ".age") init_sys hist1) (run (plain_of (cf ".gz" ".age")) init_sys hist1) = true.
Proof. vm_compute. reflexivity. Qed.
Example hist1_run_slash : eqb_list eqb_obs (run (cf "/.." "/") init_sys hist1) (run (plain_of (cf "/.." "/")) init_sys hist1) = true.
Proof. vm_compute. reflexivity. Qed.
Example hist1_view_len : List.length (view (cf ".gz" ".age") (final (cf ".gz" ".age") init_sys hist1)) = 10%nat.
Proof. vm_compute. reflexivity. Qed.

(* replay convergence (C07) on the final tape, every prefix length *)
Definition replay_all (c : cfg) (t : tape) : bool :=
  forallb (fun j => let '(p, rr) := replay_into c t (prefix_index c t j) in
                    res_ok rr && eqb_list eqb_row (visible p) (visible (fst (rebuild c t))))
          (seq 0 (S (List.length (all_members t)))).
Example hist1n_C07 : replay_all (cf ".gz" ".age") (tp (final (cf ".gz" ".age") init_sys hist1_noenc)) = true.
Proof. vm_compute. reflexivity. Qed.
Example hist1_C07 : replay_all (cf ".gz" ".age") (tp (final (cf ".gz" ".age") init_sys hist1)) = true.
Proof. vm_compute. reflexivity. Qed.

(* the tape of the suffixed run does carry suffixed names: the image tape differs from it *)
Example hist1_tape_differs :
  existsb (fun m => negb (eqb_str (h_name (m_hdr m)) (h_name (m_hdr (effm (cf ".gz" ".age") m)))))
          (members_of (tp (final (cf ".gz" ".age") init_sys hist1))) = true.
Proof. vm_compute. reflexivity. Qed.
