(* T23 / Fs: every filesystem-level call on related instances - the twin called with a cleaned absolute name, the named
   instance with its psi-image "top/..." - returns the same outcome and leaves related instances.
   Plain configuration; the root is never removed or renamed onto (call_ok). *)
From Coq Require Import List NArith ZArith Bool Lia.
From Coq Require Import ZifyN ZifyBool.
Import ListNotations.
From STFS Require T19Db.
From STFS Require Spelling.
From STFS Require Import Str Db Tape Index Ops Fs Diff Norm StrLemmas C01Str C01Db C01Inv C01Sim C01Tape C01Hdr C01Ops C01Ops2
  C01Reads C01Fs C01Fs2 T13Path T17Str T23Rel T23Base T23Db T23Index T23Append T23Ops T23Reads.
Open Scope N_scope.
Set Default Proof Using "All".

Section Top.
Variable top : str.
Hypothesis Htop : okc top.

Section Fs.
Variable c : cfg.
Hypothesis HP : plain c.
Hypothesis Hrs : 0 < c_rs c.
Hypothesis Hro : c_readonly c = false.

Notation psi := (psi top).
Notation rowrel := (rowrel top).
Notation hrel := (hrel top).
Notation rows_rel := (rows_rel top).
Notation GoodE := (GoodE top c).
Notation resrel := T19Db.resrel.
Notation top_nonempty := (T23Base.top_nonempty top Htop).
Notation psi_root := (T23Base.psi_root top Htop).
Notation psi_pth := (T23Base.psi_pth top Htop).
Notation psi_good := (T23Base.psi_good top Htop).
Notation psi_nonroot := (T23Base.psi_nonroot top Htop).
Notation psi_inj := (T23Base.psi_inj top Htop).
Notation psi_eqb := (T23Base.psi_eqb top Htop).
Notation tcs_okc := (T23Base.tcs_okc top Htop).
Notation psi_not_abs := (T23Base.psi_not_abs top Htop).
Notation psi_nonempty := (T23Base.psi_nonempty top Htop).
Notation psi_is_root := (T23Base.psi_is_root top Htop).
Notation psi_clean := (T23Base.psi_clean top Htop).
Notation psi_trim_slash := (T23Base.psi_trim_slash top Htop).
Notation vrel_refl := (T23Base.vrel_refl top Htop).
Notation pax_rel_nil := (T23Base.pax_rel_nil top Htop).
Notation pax_get_rel := (T23Base.pax_get_rel top Htop).
Notation pax_get_rel_rn := (T23Base.pax_get_rel_rn top Htop).
Notation pax_set_rel := (T23Base.pax_set_rel top Htop).
Notation pax_set_rel_eq := (T23Base.pax_set_rel_eq top Htop).
Notation pax_del_rel := (T23Base.pax_del_rel top Htop).
Notation pax_rel_fun := (T23Base.pax_rel_fun top Htop).
Notation hrel_of_rowrel := (T23Base.hrel_of_rowrel top Htop).
Notation rowrel_of_hrel := (T23Base.rowrel_of_hrel top Htop).
Notation rowrel_set_lk := (T23Base.rowrel_set_lk top Htop).
Notation rowrel_set_name := (T23Base.rowrel_set_name top Htop).
Notation rowrel_fun := (T23Base.rowrel_fun top Htop).
Notation rows_rel_fun := (T23Base.rows_rel_fun top Htop).
Notation hrel_wsn := (T23Base.hrel_wsn top Htop).
Notation hrel_wsn_self := (T23Base.hrel_wsn_self top Htop).
Notation hrel_set_pax := (T23Base.hrel_set_pax top Htop).
Notation keep_size_rel := (T23Base.keep_size_rel top Htop).
Notation hrel_patch_mode := (T23Base.hrel_patch_mode top Htop).
Notation hrel_patch_owner := (T23Base.hrel_patch_owner top Htop).
Notation hrel_patch_times := (T23Base.hrel_patch_times top Htop).
Notation hrel_stamp := (T23Base.hrel_stamp top Htop).
Notation rowrel_name_eqb := (T23Base.rowrel_name_eqb top Htop).
Notation rowrel_key_eq := (T23Base.rowrel_key_eq top Htop).
Notation rowrel_live := (T23Base.rowrel_live top Htop).
Notation last_indexed_rel := (T23Base.last_indexed_rel top Htop).
Notation PR_rowok := (T23Db.PR_rowok top Htop).
Notation PR_good_r := (T23Db.PR_good_r top Htop).
Notation prel_with := (T23Db.prel_with top Htop).
Notation sanitize_wr := (T23Db.sanitize_wr top Htop).
Notation sanitize_top := (T23Db.sanitize_top top Htop).
Notation sanitize_nil := (T23Db.sanitize_nil top Htop).
Notation sanitize_rd := (T23Db.sanitize_rd top Htop).
Notation psi_slash_not_root := (T23Db.psi_slash_not_root top Htop).
Notation sanitize_rd_slash := (T23Db.sanitize_rd_slash top Htop).
Notation min_link_rel := (T23Db.min_link_rel top Htop).
Notation find_rows_rel := (T23Db.find_rows_rel top Htop).
Notation get_header_wr := (T23Db.get_header_wr top Htop).
Notation get_header_rd := (T23Db.get_header_rd top Htop).
Notation find_rel := (T23Db.find_rel top Htop).
Notation find_rows_trailing_rd := (T23Db.find_rows_trailing_rd top Htop).
Notation get_header_slash_rd := (T23Db.get_header_slash_rd top Htop).
Notation find_rows_row := (T23Db.find_rows_row top Htop).
Notation inv_stat_false_wr := (T23Db.inv_stat_false_wr top Htop).
Notation inv_stat_false_rd := (T23Db.inv_stat_false_rd top Htop).
Notation stat_res_rel := (T23Db.stat_res_rel top Htop).
Notation links_nil := (T23Db.links_nil top Htop).
Notation gh_link_rd := (T23Db.gh_link_rd top Htop).
Notation inv_stat_true_rd := (T23Db.inv_stat_true_rd top Htop).
Notation lookup_entry_wr := (T23Db.lookup_entry_wr top Htop).
Notation lookup_entry_rd := (T23Db.lookup_entry_rd top Htop).
Notation psi_pth_app := (T23Db.psi_pth_app top Htop).
Notation kid_filter_rel := (T23Db.kid_filter_rel top Htop).
Notation get_children_wr := (T23Db.get_children_wr top Htop).
Notation get_children_rd := (T23Db.get_children_rd top Htop).
Notation kids_rel := (T23Db.kids_rel top Htop).
Notation direct_pred_rel := (T23Db.direct_pred_rel top Htop).
Notation gdc_wr := (T23Db.gdc_wr top Htop).
Notation gdc_rd := (T23Db.gdc_rd top Htop).
Notation inv_list_wr := (T23Db.inv_list_wr top Htop).
Notation inv_list_rd := (T23Db.inv_list_rd top Htop).
Notation replace_row_rel := (T23Db.replace_row_rel top Htop).
Notation has_key_rel := (T23Db.has_key_rel top Htop).
Notation upsert_rows_rel := (T23Db.upsert_rows_rel top Htop).
Notation move_list_rel := (T23Db.move_list_rel top Htop).
Notation REB_same := (T23Ops.REB_same top Htop).
Notation GoodE_PR := (T23Ops.GoodE_PR top Htop).
Notation GoodE_frame := (T23Ops.GoodE_frame top Htop).
Notation root_live_name := (T23Ops.root_live_name top Htop).
Notation mk_member_rel := (T23Ops.mk_member_rel top Htop).
Notation plain_members_rel := (T23Ops.plain_members_rel top Htop).
Notation trim_slash_psi := (T23Ops.trim_slash_psi top Htop).
Notation is_abs_app_rel := (T23Ops.is_abs_app_rel top Htop).
Notation move_name_rd := (T23Ops.move_name_rd top Htop).
Notation finish_simr := (T23Ops.finish_simr top Htop c HP Hrs Hro).
Notation mknode_hdr_rel := (T23Ops.mknode_hdr_rel top Htop c HP Hrs Hro).
Notation mknode_simr := (T23Ops.mknode_simr top Htop c HP Hrs Hro).
Notation encode_rel := (T23Ops.encode_rel top Htop c HP Hrs Hro).
Notation update_members_rel := (T23Ops.update_members_rel top Htop c HP Hrs Hro).
Notation update_simr := (T23Ops.update_simr top Htop c HP Hrs Hro).
Notation del_hdr_rel := (T23Ops.del_hdr_rel top Htop c HP Hrs Hro).
Notation optrel_of_find := (T23Ops.optrel_of_find top Htop c HP Hrs Hro).
Notation delete_op_rel := (T23Ops.delete_op_rel top Htop c HP Hrs Hro).
Notation delete_op_simr := (T23Ops.delete_op_simr top Htop c HP Hrs Hro).
Notation mov_hdr_rel := (T23Ops.mov_hdr_rel top Htop c HP Hrs Hro).
Notation move_op_rel := (T23Ops.move_op_rel top Htop c HP Hrs Hro).
Notation move_op_simr := (T23Ops.move_op_simr top Htop c HP Hrs Hro).
Notation find_root := (T23Reads.find_root top Htop).
Notation find_root_rd := (T23Reads.find_root_rd top Htop).
Notation get_header_dot := (T23Reads.get_header_dot top Htop).
Notation inv_stat_dot := (T23Reads.inv_stat_dot top Htop).
Notation path_dir_join := (T23Reads.path_dir_join top Htop).
Notation path_dir_top := (T23Reads.path_dir_top top Htop).
Notation path_dir_psi := (T23Reads.path_dir_psi top Htop).
Notation inv_stat_parent := (T23Reads.inv_stat_parent top Htop).
Notation read_path_sim := (T23Reads.read_path_sim top Htop c).
Notation entry_of_sim := (T23Reads.entry_of_sim top Htop c).
Notation childp_facts := (T23Reads.childp_facts top Htop c).
Notation walk_sim := (T23Reads.walk_sim top Htop c).
Notation stat_false_wr := (T23Reads.stat_false_wr top Htop c).
Notation stat_false_rd := (T23Reads.stat_false_rd top Htop c).
Notation stat_form_rel := (T23Reads.stat_form_rel top Htop c).
Notation stat_true_wr := (T23Reads.stat_true_wr top Htop c).
Notation stat_true_rd := (T23Reads.stat_true_rd top Htop c).
Notation view_sim := (T23Reads.view_sim top Htop c).

(* same outcome, related results *)
Definition SIM (x y : sys * outc) : Prop := snd y = snd x /\ GoodE (fst x) (fst y).

Lemma GPR sa sr : GoodE sa sr -> PR top top (db sa) (db sr).
Proof. apply GoodE_PR. Qed.

Lemma statF sa sr g : GoodE sa sr -> good g ->
  stat_s sa g false = (sa, stat_form sa g) /\ stat_s sr (psi g) false = (sr, stat_form sr (psi g)) /\
  resrel hrel (stat_form sa g) (stat_form sr (psi g)).
Proof.
  intros HG G. pose proof (GPR _ _ HG) as H.
  split; [exact (stat_false_wr sa sr g H G)|]. split; [exact (stat_false_rd sa sr g H G)|exact (stat_form_rel sa sr g H G)].
Qed.

Lemma statT sa sr g : GoodE sa sr -> good g -> stat_s sa g true = (sa, NoRows) /\ stat_s sr (psi g) true = (sr, NoRows).
Proof. intros HG G. pose proof (GPR _ _ HG) as H. split; [exact (stat_true_wr sa sr g H)|exact (stat_true_rd sa sr g H G)]. Qed.

Lemma stat_form_root sa sr g : GoodE sa sr -> stat_form sa g = NoRows -> g <> [slash].
Proof.
  intros HG E K. subst g. destruct (find_root _ _ (GPR _ _ HG)) as (d & Ed). unfold stat_form in E. rewrite Ed in E. discriminate.
Qed.

(* facts about a header returned by Stat on the twin *)
Lemma stat_form_ok sa sr g h : GoodE sa sr -> stat_form sa g = Ok h ->
  exists d, h = hdr_of_row d /\ In d (rows (db sa)) /\ live d = true /\ r_name d = g /\ r_link d = [] /\ rowok d.
Proof.
  intros HG E. unfold stat_form in E. destruct (find_rows (rows (db sa)) g) as [d|] eqn:Ef; [|discriminate]. injection E as <-.
  exists d. split; [reflexivity|]. exact (find_rows_row top _ _ g d (GPR _ _ HG) Ef).
Qed.

Lemma parent_check_sim sa sr name : GoodE sa sr -> good name ->
  exists o, parent_check sa name = (sa, o) /\ parent_check sr (psi name) = (sr, o).
Proof.
  intros HG G. unfold parent_check.
  assert (Gd : good (path_dir name)) by (apply path_dir_good; apply good_abs; exact G).
  destruct (statF sa sr (path_dir name) HG Gd) as (Ea & Er & HR).
  assert (Er' : stat_s sr (path_dir (psi name)) false = (sr, stat_form sr (psi (path_dir name)))).
  { unfold stat_s in *. rewrite (inv_stat_parent _ _ name (GPR _ _ HG) G). exact Er. }
  rewrite Ea, Er'. destruct (stat_form sa (path_dir name)) as [h| | |e]; inversion HR as [? hr Hh| | |]; subst.
  - rewrite (hr_tf _ _ _ Hh). destruct (h_tf h =? TypeDir); eexists; (split; reflexivity).
  - eexists. split; reflexivity.
  - eexists. split; reflexivity.
  - eexists. split; reflexivity.
Qed.

Ltac sim_done HG := split; [reflexivity|exact HG].
Ltac bad_form Es := exfalso; unfold stat_form in Es; destruct (find_rows _ _); discriminate Es.

(* ---------- Mkdir *)
Lemma fs_mkdir_sim sa sr n perm : GoodE sa sr -> good n -> SIM (fs_mkdir c sa n perm) (fs_mkdir c sr (psi n) perm).
Proof.
  intros HG G. unfold fs_mkdir. rewrite Hro, (path_clean_good n G), (psi_clean n G).
  destruct (parent_check_sim sa sr n HG G) as (o & Ea & Er). rewrite Ea, Er.
  destruct o; try sim_done HG.
  destruct (statF sa sr n HG G) as (Ea2 & Er2 & HR). rewrite Ea2, Er2.
  destruct (stat_form sa n) as [h| | |e] eqn:Es; inversion HR; subst; try sim_done HG; try bad_form Es.
  destruct (statT sa sr n HG G) as (Ea3 & Er3). rewrite Ea3, Er3.
  destruct (mknode_simr sa sr true n perm HG G) as (sa' & sr' & E1 & E2 & HG' & _). rewrite E1, E2. sim_done HG'.
Qed.

(* ---------- MkdirAll *)
Lemma mkdirall_loop_sim perm parts : Forall okc parts -> forall sa sr cur, GoodE sa sr -> good cur ->
  SIM (mkdirall_loop c sa cur false parts perm) (mkdirall_loop c sr (psi cur) false parts perm).
Proof.
  induction 1 as [|part rest Hp _ IH]; intros sa sr cur HG G; cbn [mkdirall_loop]; [sim_done HG|].
  cbn [andb].
  destruct (psi_good cur G) as (q & Hq & Ec & Ep).
  assert (Fq : Forall okc (q ++ [part])) by (apply Forall_app; split; [exact Hq|constructor; [exact Hp|constructor]]).
  match goal with |- context [stat_s sa ?x false] => set (ca := x) end.
  match goal with |- context [stat_s sr ?x false] => set (cr := x) end.
  assert (Ea0 : ca = pth (q ++ [part])).
  { unfold ca. rewrite Ec. unfold pth at 1. apply (path_join2_pth q part Hq Hp). }
  assert (Er0 : cr = psi (pth (q ++ [part]))).
  { unfold cr. destruct (psi cur) eqn:Ej; [exfalso; exact (psi_nonempty cur G Ej)|]. rewrite Ep, (psi_pth (q ++ [part]) Fq).
    change (top :: q ++ [part]) with ((top :: q) ++ [part]). apply path_join2_rel; [discriminate|apply tcs_okc; exact Hq|exact Hp]. }
  rewrite Ea0, Er0. clear ca cr Ea0 Er0. set (cur' := pth (q ++ [part])).
  assert (G' : good cur') by (apply good_pth; exact Fq).
  destruct (statF sa sr cur' HG G') as (Ea & Er & HR). rewrite Ea, Er.
  destruct (stat_form sa cur') as [h| | |e] eqn:Es; inversion HR as [? hr Hh| | |]; subst; try sim_done HG.
  - rewrite (hr_tf _ _ _ Hh). destruct (h_tf h =? TypeDir); [apply IH; assumption|sim_done HG].
  - destruct (statT sa sr cur' HG G') as (Ea2 & Er2). rewrite Ea2, Er2.
    destruct (mknode_simr sa sr true cur' perm HG G') as (sa' & sr' & E1 & E2 & HG' & _). rewrite E1, E2.
    apply IH; assumption.
Qed.

Lemma fs_mkdirall_sim sa sr n perm : GoodE sa sr -> good n -> SIM (fs_mkdirall c sa n perm) (fs_mkdirall c sr (psi n) perm).
Proof.
  intros HG G. unfold fs_mkdirall. rewrite Hro, (path_clean_good n G), (psi_clean n G).
  destruct (psi_good n G) as (cs & Hcs & -> & Ep). rewrite Ep. unfold pth. rewrite split_slash_cons_slash.
  rewrite (split_join (top :: cs)) by (discriminate || apply okc_noslash; apply tcs_okc; exact Hcs).
  cbn [mkdirall_loop andb eqb_str].
  replace (eqb_str top []) with false by (symmetry; apply eqb_str_neq; exact top_nonempty). cbn [andb].
  destruct (statF sa sr [slash] HG good_root) as (Ea & Er & HR). rewrite psi_root in Er, HR. rewrite Ea, Er.
  destruct (stat_form sa [slash]) as [h| | |e] eqn:Es; inversion HR as [? hr Hh| | |]; subst; try sim_done HG.
  - rewrite (hr_tf _ _ _ Hh). destruct (h_tf h =? TypeDir) eqn:Ed; [|sim_done HG].
    destruct cs as [|c0 cs'].
    + (* the root itself: the twin looks "/" up once more *)
      cbn [join_slash]. change (split_slash []) with [@nil N]. cbn [mkdirall_loop andb].
      change (path_join2 [slash] []) with [slash]. rewrite Ea, Ed. sim_done HG.
    + rewrite (split_join (c0 :: cs')) by (discriminate || apply okc_noslash; exact Hcs).
      rewrite <- psi_root. apply mkdirall_loop_sim; [exact Hcs|exact HG|exact good_root].
  - exfalso. exact (stat_form_root _ _ _ HG Es eq_refl).
Qed.

(* ---------- Remove / RemoveAll *)
Lemma stat2_sim sa sr g : GoodE sa sr -> good g ->
  (match stat_s sa g false with (s, NoRows) => stat_s s g true | x => x end) = (sa, stat_form sa g) /\
  (match stat_s sr (psi g) false with (s, NoRows) => stat_s s (psi g) true | x => x end) = (sr, stat_form sr (psi g)) /\
  resrel hrel (stat_form sa g) (stat_form sr (psi g)).
Proof.
  intros HG G. destruct (statF sa sr g HG G) as (Ea & Er & HR). rewrite Ea, Er. destruct (statT sa sr g HG G) as (Ea2 & Er2).
  destruct (stat_form sa g) as [h| | |e] eqn:Es; inversion HR as [? hr Hh| | |]; subst; rewrite ?Ea2, ?Er2; repeat split; try reflexivity; try assumption; constructor; assumption.
Qed.

Lemma delete_sim sa sr name : GoodE sa sr -> good name -> name <> [slash] -> SIM (delete_op c sa name) (delete_op c sr (psi name)).
Proof.
  intros HG G Hn. destruct (delete_op_simr sa sr name HG G Hn) as (sa' & sr' & o & E1 & E2 & HG'). rewrite E1, E2. sim_done HG'.
Qed.

Lemma fs_remove_nl_sim sa sr name : GoodE sa sr -> good name -> name <> [slash] ->
  SIM (fs_remove_nl c sa name) (fs_remove_nl c sr (psi name)).
Proof.
  intros HG G Hn. unfold fs_remove_nl. rewrite Hro.
  destruct (stat2_sim sa sr name HG G) as (Ea & Er & HR). rewrite Ea, Er.
  destruct (stat_form sa name) as [h| | |e] eqn:Es; inversion HR as [? hr Hh| | |]; subst; try sim_done HG.
  rewrite (hr_tf _ _ _ Hh), (hr_link _ _ _ Hh).
  destruct ((h_tf h =? TypeDir) && eqb_str (h_link h) []); [|apply delete_sim; assumption].
  rewrite (inv_list_wr top (db sa) (db sr) name (GPR _ _ HG) G).
  destruct (inv_list_rd (db sa) (db sr) name (GPR _ _ HG) G) as (lr & Er2 & Hrows). rewrite Er2. rewrite !set_db_same.
  destruct Hrows as [|a r la lr' Har Hl]; cbn [map].
  - apply delete_sim; assumption.
  - sim_done HG.
Qed.

Lemma fs_remove_sim sa sr n : GoodE sa sr -> good n -> n <> [slash] -> SIM (fs_remove c sa n) (fs_remove c sr (psi n)).
Proof. intros HG G Hn. unfold fs_remove. rewrite Hro, (path_clean_good n G), (psi_clean n G). apply fs_remove_nl_sim; assumption. Qed.

Lemma fs_removeall_sim sa sr n : GoodE sa sr -> good n -> n <> [slash] ->
  SIM (fs_removeall c sa n) (fs_removeall c sr (psi n)).
Proof.
  intros HG G Hn. unfold fs_removeall. rewrite Hro, (path_clean_good n G), (psi_clean n G).
  destruct (delete_op_simr sa sr n HG G Hn) as (sa' & sr' & o & E1 & E2 & HG'). rewrite E1, E2.
  destruct o; sim_done HG'.
Qed.

(* ---------- Chmod / Chown / Chtimes *)
Lemma fs_update_meta_sim sa sr n patch : GoodE sa sr -> good n ->
  (forall h, h_name (patch h) = h_name h /\ h_link (patch h) = h_link h /\ h_pax (patch h) = h_pax h) ->
  (forall ha hr, hrel ha hr -> hrel (patch ha) (patch hr)) ->
  SIM (fs_update_meta c sa n patch) (fs_update_meta c sr (psi n) patch).
Proof.
  intros HG G Hp1 Hp2. unfold fs_update_meta. rewrite Hro.
  destruct n as [|n0 n']; [exfalso; exact (good_nonempty _ G eq_refl)|].
  destruct (psi (n0 :: n')) as [|p0 p'] eqn:Ep; [exfalso; exact (psi_nonempty _ G Ep)|]. rewrite <- Ep.
  rewrite (path_clean_good _ G), (psi_clean _ G). set (name := n0 :: n') in *.
  destruct (statF sa sr name HG G) as (Ea & Er & HR). destruct (statT sa sr name HG G) as (Ea2 & Er2).
  assert (K : (match stat_s sa name false with
      | (s, NoRows) => match stat_s s name true with (s, Ok lh) => stat_s s (h_link lh) false | x => x end
      | x => x end) = (sa, stat_form sa name) /\
     (match stat_s sr (psi name) false with
      | (s, NoRows) => match stat_s s (psi name) true with (s, Ok lh) => stat_s s (h_link lh) false | x => x end
      | x => x end) = (sr, stat_form sr (psi name))).
  { rewrite Ea, Er. destruct (stat_form sa name) as [h| | |e] eqn:Es; inversion HR as [? hr Hh| | |]; subst; rewrite ?Ea2, ?Er2; split; reflexivity. }
  destruct K as (-> & ->).
  destruct (stat_form sa name) as [h| | |e] eqn:Es; inversion HR as [? hr Hh| | |]; subst; try sim_done HG.
  destruct (stat_form_ok _ _ _ _ HG Es) as (d & -> & Hin & Hlv & Hnm & Hlk & Hok).
  destruct (Hp1 (hdr_of_row d)) as (P1 & P2 & P3).
  destruct (update_simr sa sr {| f_hdr := patch (hdr_of_row d); f_data := [] |} {| f_hdr := patch hr; f_data := [] |} false false HG)
    as (sa' & sr' & E1 & E2 & HG').
  - cbn [f_hdr]. apply Hp2. exact Hh.
  - reflexivity.
  - cbn [f_hdr]. rewrite P1. apply Hok.
  - cbn [f_hdr]. rewrite P2. exact Hlk.
  - cbn [f_hdr]. rewrite P3. apply Hok.
  - cbn [f_hdr]. rewrite P1. cbn [h_name hdr_of_row]. unfold live_name. apply existsb_exists. exists d. split; [exact Hin|].
    rewrite Hlv, eqb_str_refl. reflexivity.
  - rewrite E1, E2. sim_done HG'.
Qed.

(* ---------- Rename *)
Lemma spelling_psi g : good g -> spelling (psi g) = slash :: psi g.
Proof.
  intro G. unfold spelling. rewrite (psi_clean g G).
  replace (eqb_str (psi g) [46]) with false.
  - f_equal. destruct (psi_good g G) as (cs & Hcs & _ & ->). apply trim_slash_rel. apply tcs_okc. exact Hcs.
  - symmetry. apply eqb_str_neq. intro K. pose proof (psi_is_root g G) as R. rewrite K in R. discriminate.
Qed.

Lemma get_root_path_rd p : root p = top -> get_root_path p = (p, Some top).
Proof. intro H. unfold get_root_path. rewrite H. destruct (okc_head top Htop) as (x & t & E & _). rewrite E. reflexivity. Qed.

Lemma psi_slash_pth g : good g -> slash :: psi g = pth (split_slash (psi g)).
Proof.
  intro G. destruct (psi_good g G) as (cs & Hcs & _ & ->). rewrite split_join by (discriminate || apply okc_noslash; apply tcs_okc; exact Hcs).
  reflexivity.
Qed.

Lemma fs_rename_sim sa sr a b : GoodE sa sr -> good a -> good b -> b <> [slash] ->
  SIM (fs_rename c sa a b) (fs_rename c sr (psi a) (psi b)).
Proof.
  intros HG Go Gn Hnb. unfold fs_rename. rewrite Hro.
  destruct a as [|a0 a']; [exfalso; exact (good_nonempty _ Go eq_refl)|]. destruct b as [|b0 b']; [exfalso; exact (good_nonempty _ Gn eq_refl)|].
  destruct (psi (a0 :: a')) as [|pa0 pa'] eqn:Epa; [exfalso; exact (psi_nonempty _ Go Epa)|]. rewrite <- Epa.
  destruct (psi (b0 :: b')) as [|pb0 pb'] eqn:Epb; [exfalso; exact (psi_nonempty _ Gn Epb)|]. rewrite <- Epb.
  rewrite (path_clean_good _ Go), (path_clean_good _ Gn), (psi_clean _ Go), (psi_clean _ Gn).
  set (old := a0 :: a') in *. set (new := b0 :: b') in *. clear Epa Epb.
  pose proof (GPR _ _ HG) as HQ.
  rewrite (get_root_path_lv true (db sa) (PR_li _ _ _ _ HQ)).
  rewrite (get_root_path_rd (db sr) (pr_root_r _ _ _ _ (PR_rel _ _ _ _ HQ))). rewrite !set_db_same.
  assert (Eb : eqb_str top (psi old) || eqb_str (spelling top) (spelling (psi old)) = eqb_str [slash] old || eqb_str (spelling [slash]) (spelling old)).
  { pose proof (spelling_psi [slash] good_root) as Es1. rewrite psi_root in Es1.
    pose proof (psi_eqb [slash] old eq_refl (good_abs _ Go)) as Et1. rewrite psi_root in Et1.
    rewrite Es1, (spelling_psi old Go). cbn [eqb_str]. rewrite N.eqb_refl. cbn [andb].
    rewrite Et1, Bool.orb_diag.
    rewrite Spelling.spelling_root, (Spelling.spelling_good old Go), Bool.orb_diag. reflexivity. }
  rewrite Eb. destruct (eqb_str [slash] old || eqb_str (spelling [slash]) (spelling old)) eqn:Eroot; [sim_done HG|].
  assert (Ho : old <> [slash]).
  { intro K. rewrite K in Eroot. cbn in Eroot. discriminate. }
  destruct (stat2_sim sa sr old HG Go) as (Ea & Er & HR). rewrite Ea, Er.
  destruct (stat_form sa old) as [sh| | |e] eqn:Es; inversion HR as [? shr Hsh| | |]; subst; try sim_done HG.
  assert (Esm : eqb_str (psi old) (psi new) || eqb_str (spelling (psi old)) (spelling (psi new)) = eqb_str old new || eqb_str (spelling old) (spelling new)).
  { rewrite (spelling_psi old Go), (spelling_psi new Gn). cbn [eqb_str]. rewrite N.eqb_refl. cbn [andb].
    rewrite (psi_eqb old new (good_abs _ Go) (good_abs _ Gn)), Bool.orb_diag.
    rewrite (Spelling.spelling_good old Go), (Spelling.spelling_good new Gn), Bool.orb_diag. reflexivity. }
  rewrite Esm. destruct (eqb_str old new || eqb_str (spelling old) (spelling new)) eqn:Esame; [sim_done HG|].
  assert (Hon : old <> new).
  { intro K. rewrite K, eqb_str_refl in Esame. discriminate. }
  rewrite (hr_tf _ _ _ Hsh).
  assert (Epre : has_prefix (trim_suffix [slash] (spelling (psi old)) ++ [slash]) (spelling (psi new))
                 = has_prefix (trim_suffix [slash] (spelling old) ++ [slash]) (spelling new)).
  { rewrite (spelling_psi old Go), (spelling_psi new Gn), (Spelling.spelling_good old Go), (Spelling.spelling_good new Gn).
    rewrite (good_trim_slash old Go Ho).
    assert (T : trim_suffix [slash] (slash :: psi old) = slash :: psi old).
    { rewrite (psi_slash_pth old Go). destruct (psi_good old Go) as (cs & Hcs & _ & Ep). rewrite Ep.
      rewrite split_join by (discriminate || apply okc_noslash; apply tcs_okc; exact Hcs).
      apply good_trim_slash; [apply good_pth; apply tcs_okc; exact Hcs|]. intro K. apply pth_root_iff in K; [discriminate|apply tcs_okc; exact Hcs]. }
    rewrite T. cbn [app has_prefix]. rewrite N.eqb_refl. cbn [andb].
    rewrite (psi_nonroot old Ho), (psi_nonroot new Hnb). rewrite <- app_assoc. apply has_prefix_app_same. }
  rewrite Epre.
  destruct ((h_tf sh =? TypeDir) && has_prefix (trim_suffix [slash] (spelling old) ++ [slash]) (spelling new)); [sim_done HG|].
  destruct (parent_check_sim sa sr new HG Gn) as (o & Ea2 & Er2). rewrite Ea2, Er2.
  destruct o; try sim_done HG.
  destruct (statF sa sr new HG Gn) as (Ea3 & Er3 & HR3). rewrite Ea3, Er3.
  assert (MV : forall xa xr, GoodE xa xr -> SIM (move_op c xa old new) (move_op c xr (psi old) (psi new))).
  { intros xa xr HX. destruct (move_op_simr xa xr old new HX Go Gn Ho Hnb Hon) as (sa' & sr' & o & E1 & E2 & HG'). rewrite E1, E2. sim_done HG'. }
  destruct (stat_form sa new) as [th| | |e] eqn:Et; inversion HR3 as [? thr Hth| | |]; subst; try (apply MV; exact HG).
  rewrite (hr_tf _ _ _ Hth). destruct (negb (h_tf th =? h_tf sh)); [sim_done HG|].
  pose proof (fs_remove_nl_sim sa sr new HG Gn Hnb) as [K1 K2].
  destruct (fs_remove_nl c sa new) as [sa4 o4]. destruct (fs_remove_nl c sr (psi new)) as [sr4 o4']. cbn [fst snd] in K1, K2. subst o4'.
  destruct o4; try sim_done K2. apply MV. exact K2.
Qed.
End Fs.
End Top.
