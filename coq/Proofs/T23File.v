(* T23 / File: OpenFile / Create / Write / Close on related instances (the calls CCreateFile and CWriteFile). *)
From Coq Require Import List NArith ZArith Bool Lia.
From Coq Require Import ZifyN ZifyBool.
Import ListNotations.
From STFS Require T19Db.
From STFS Require Import Str Db Tape Index Ops Fs Diff Norm StrLemmas C01Str C01Db C01Inv C01Sim C01Tape C01Hdr C01Ops C01Ops2
  C01Reads C01Fs C01Fs2 T13Path T17Str T23Rel T23Base T23Db T23Index T23Append T23Ops T23Reads T23Fs.
Open Scope N_scope.
Set Default Proof Using "All".

Section Top.
Variable top : str.
Hypothesis Htop : okc top.

(* related handles: the named instance's handle carries the psi-image in hd_path and in the name of hd_info *)
Record hdrel (a r : handle) : Prop := {
  hd_p : hd_path r = psi top (hd_path a);
  hd_l : hd_link r = hd_link a;
  hd_f : hd_flags r = hd_flags a;
  hd_i : hrel top (hd_info a) (hd_info r);
  hd_b : hd_buf r = hd_buf a }.

Definition HD (sa : sys) (ha hr : handle) : Prop := hd_good sa ha /\ hdrel ha hr.

Inductive hopt (sa : sys) : option handle -> option handle -> Prop :=
| hopt_none : hopt sa None None
| hopt_some a r : HD sa a r -> hopt sa (Some a) (Some r).

Section File.
Variable c : cfg.
Hypothesis HP : plain c.
Hypothesis Hrs : 0 < c_rs c.
Hypothesis Hro : c_readonly c = false.

Notation psi := (psi top).
Notation rowrel := (rowrel top).
Notation hrel := (hrel top).
Notation rows_rel := (rows_rel top).
Notation GoodE := (GoodE top c).
Notation resrel := T19Db.resrel.
Notation SIM := (T23Fs.SIM top c).
Notation top_nonempty := (T23Base.top_nonempty top Htop).
Notation psi_root := (T23Base.psi_root top Htop).
Notation psi_pth := (T23Base.psi_pth top Htop).
Notation psi_good := (T23Base.psi_good top Htop).
Notation psi_nonroot := (T23Base.psi_nonroot top Htop).
Notation psi_inj := (T23Base.psi_inj top Htop).
Notation psi_eqb := (T23Base.psi_eqb top Htop).
Notation tcs_okc := (T23Base.tcs_okc top Htop).
Notation psi_not_abs := (T23Base.psi_not_abs top Htop).
Notation psi_nonempty := (T23Base.psi_nonempty top Htop).
Notation psi_is_root := (T23Base.psi_is_root top Htop).
Notation psi_clean := (T23Base.psi_clean top Htop).
Notation psi_trim_slash := (T23Base.psi_trim_slash top Htop).
Notation vrel_refl := (T23Base.vrel_refl top Htop).
Notation pax_rel_nil := (T23Base.pax_rel_nil top Htop).
Notation pax_get_rel := (T23Base.pax_get_rel top Htop).
Notation pax_get_rel_rn := (T23Base.pax_get_rel_rn top Htop).
Notation pax_set_rel := (T23Base.pax_set_rel top Htop).
Notation pax_set_rel_eq := (T23Base.pax_set_rel_eq top Htop).
Notation pax_del_rel := (T23Base.pax_del_rel top Htop).
Notation pax_rel_fun := (T23Base.pax_rel_fun top Htop).
Notation hrel_of_rowrel := (T23Base.hrel_of_rowrel top Htop).
Notation rowrel_of_hrel := (T23Base.rowrel_of_hrel top Htop).
Notation rowrel_set_lk := (T23Base.rowrel_set_lk top Htop).
Notation rowrel_set_name := (T23Base.rowrel_set_name top Htop).
Notation rowrel_fun := (T23Base.rowrel_fun top Htop).
Notation rows_rel_fun := (T23Base.rows_rel_fun top Htop).
Notation hrel_wsn := (T23Base.hrel_wsn top Htop).
Notation hrel_wsn_self := (T23Base.hrel_wsn_self top Htop).
Notation hrel_set_pax := (T23Base.hrel_set_pax top Htop).
Notation keep_size_rel := (T23Base.keep_size_rel top Htop).
Notation hrel_patch_mode := (T23Base.hrel_patch_mode top Htop).
Notation hrel_patch_owner := (T23Base.hrel_patch_owner top Htop).
Notation hrel_patch_times := (T23Base.hrel_patch_times top Htop).
Notation hrel_stamp := (T23Base.hrel_stamp top Htop).
Notation rowrel_name_eqb := (T23Base.rowrel_name_eqb top Htop).
Notation rowrel_key_eq := (T23Base.rowrel_key_eq top Htop).
Notation rowrel_live := (T23Base.rowrel_live top Htop).
Notation last_indexed_rel := (T23Base.last_indexed_rel top Htop).
Notation PR_rowok := (T23Db.PR_rowok top Htop).
Notation PR_good_r := (T23Db.PR_good_r top Htop).
Notation prel_with := (T23Db.prel_with top Htop).
Notation sanitize_wr := (T23Db.sanitize_wr top Htop).
Notation sanitize_top := (T23Db.sanitize_top top Htop).
Notation sanitize_nil := (T23Db.sanitize_nil top Htop).
Notation sanitize_rd := (T23Db.sanitize_rd top Htop).
Notation psi_slash_not_root := (T23Db.psi_slash_not_root top Htop).
Notation sanitize_rd_slash := (T23Db.sanitize_rd_slash top Htop).
Notation min_link_rel := (T23Db.min_link_rel top Htop).
Notation find_rows_rel := (T23Db.find_rows_rel top Htop).
Notation get_header_wr := (T23Db.get_header_wr top Htop).
Notation get_header_rd := (T23Db.get_header_rd top Htop).
Notation find_rel := (T23Db.find_rel top Htop).
Notation find_rows_trailing_rd := (T23Db.find_rows_trailing_rd top Htop).
Notation get_header_slash_rd := (T23Db.get_header_slash_rd top Htop).
Notation find_rows_row := (T23Db.find_rows_row top Htop).
Notation inv_stat_false_wr := (T23Db.inv_stat_false_wr top Htop).
Notation inv_stat_false_rd := (T23Db.inv_stat_false_rd top Htop).
Notation stat_res_rel := (T23Db.stat_res_rel top Htop).
Notation links_nil := (T23Db.links_nil top Htop).
Notation gh_link_rd := (T23Db.gh_link_rd top Htop).
Notation inv_stat_true_rd := (T23Db.inv_stat_true_rd top Htop).
Notation lookup_entry_wr := (T23Db.lookup_entry_wr top Htop).
Notation lookup_entry_rd := (T23Db.lookup_entry_rd top Htop).
Notation psi_pth_app := (T23Db.psi_pth_app top Htop).
Notation kid_filter_rel := (T23Db.kid_filter_rel top Htop).
Notation get_children_wr := (T23Db.get_children_wr top Htop).
Notation get_children_rd := (T23Db.get_children_rd top Htop).
Notation kids_rel := (T23Db.kids_rel top Htop).
Notation direct_pred_rel := (T23Db.direct_pred_rel top Htop).
Notation gdc_wr := (T23Db.gdc_wr top Htop).
Notation gdc_rd := (T23Db.gdc_rd top Htop).
Notation inv_list_wr := (T23Db.inv_list_wr top Htop).
Notation inv_list_rd := (T23Db.inv_list_rd top Htop).
Notation replace_row_rel := (T23Db.replace_row_rel top Htop).
Notation has_key_rel := (T23Db.has_key_rel top Htop).
Notation upsert_rows_rel := (T23Db.upsert_rows_rel top Htop).
Notation move_list_rel := (T23Db.move_list_rel top Htop).
Notation REB_same := (T23Ops.REB_same top Htop).
Notation GoodE_PR := (T23Ops.GoodE_PR top Htop).
Notation GoodE_frame := (T23Ops.GoodE_frame top Htop).
Notation root_live_name := (T23Ops.root_live_name top Htop).
Notation mk_member_rel := (T23Ops.mk_member_rel top Htop).
Notation plain_members_rel := (T23Ops.plain_members_rel top Htop).
Notation trim_slash_psi := (T23Ops.trim_slash_psi top Htop).
Notation is_abs_app_rel := (T23Ops.is_abs_app_rel top Htop).
Notation move_name_rd := (T23Ops.move_name_rd top Htop).
Notation finish_simr := (T23Ops.finish_simr top Htop c HP Hrs Hro).
Notation mknode_hdr_rel := (T23Ops.mknode_hdr_rel top Htop c HP Hrs Hro).
Notation mknode_simr := (T23Ops.mknode_simr top Htop c HP Hrs Hro).
Notation encode_rel := (T23Ops.encode_rel top Htop c HP Hrs Hro).
Notation update_members_rel := (T23Ops.update_members_rel top Htop c HP Hrs Hro).
Notation update_simr := (T23Ops.update_simr top Htop c HP Hrs Hro).
Notation del_hdr_rel := (T23Ops.del_hdr_rel top Htop c HP Hrs Hro).
Notation optrel_of_find := (T23Ops.optrel_of_find top Htop c HP Hrs Hro).
Notation delete_op_rel := (T23Ops.delete_op_rel top Htop c HP Hrs Hro).
Notation delete_op_simr := (T23Ops.delete_op_simr top Htop c HP Hrs Hro).
Notation mov_hdr_rel := (T23Ops.mov_hdr_rel top Htop c HP Hrs Hro).
Notation move_op_rel := (T23Ops.move_op_rel top Htop c HP Hrs Hro).
Notation move_op_simr := (T23Ops.move_op_simr top Htop c HP Hrs Hro).
Notation find_root := (T23Reads.find_root top Htop).
Notation find_root_rd := (T23Reads.find_root_rd top Htop).
Notation get_header_dot := (T23Reads.get_header_dot top Htop).
Notation inv_stat_dot := (T23Reads.inv_stat_dot top Htop).
Notation path_dir_join := (T23Reads.path_dir_join top Htop).
Notation path_dir_top := (T23Reads.path_dir_top top Htop).
Notation path_dir_psi := (T23Reads.path_dir_psi top Htop).
Notation inv_stat_parent := (T23Reads.inv_stat_parent top Htop).
Notation read_path_sim := (T23Reads.read_path_sim top Htop c).
Notation entry_of_sim := (T23Reads.entry_of_sim top Htop c).
Notation childp_facts := (T23Reads.childp_facts top Htop c).
Notation walk_sim := (T23Reads.walk_sim top Htop c).
Notation stat_false_wr := (T23Reads.stat_false_wr top Htop c).
Notation stat_false_rd := (T23Reads.stat_false_rd top Htop c).
Notation stat_form_rel := (T23Reads.stat_form_rel top Htop c).
Notation stat_true_wr := (T23Reads.stat_true_wr top Htop c).
Notation stat_true_rd := (T23Reads.stat_true_rd top Htop c).
Notation view_sim := (T23Reads.view_sim top Htop c).
Notation GPR := (T23Fs.GPR top Htop c HP Hrs Hro).
Notation statF := (T23Fs.statF top Htop c HP Hrs Hro).
Notation statT := (T23Fs.statT top Htop c HP Hrs Hro).
Notation stat_form_root := (T23Fs.stat_form_root top Htop c HP Hrs Hro).
Notation stat_form_ok := (T23Fs.stat_form_ok top Htop c HP Hrs Hro).
Notation parent_check_sim := (T23Fs.parent_check_sim top Htop c HP Hrs Hro).
Notation fs_mkdir_sim := (T23Fs.fs_mkdir_sim top Htop c HP Hrs Hro).
Notation mkdirall_loop_sim := (T23Fs.mkdirall_loop_sim top Htop c HP Hrs Hro).
Notation fs_mkdirall_sim := (T23Fs.fs_mkdirall_sim top Htop c HP Hrs Hro).
Notation stat2_sim := (T23Fs.stat2_sim top Htop c HP Hrs Hro).
Notation delete_sim := (T23Fs.delete_sim top Htop c HP Hrs Hro).
Notation fs_remove_nl_sim := (T23Fs.fs_remove_nl_sim top Htop c HP Hrs Hro).
Notation fs_remove_sim := (T23Fs.fs_remove_sim top Htop c HP Hrs Hro).
Notation fs_removeall_sim := (T23Fs.fs_removeall_sim top Htop c HP Hrs Hro).
Notation fs_update_meta_sim := (T23Fs.fs_update_meta_sim top Htop c HP Hrs Hro).
Notation spelling_psi := (T23Fs.spelling_psi top Htop c HP Hrs Hro).
Notation get_root_path_rd := (T23Fs.get_root_path_rd top Htop c HP Hrs Hro).
Notation psi_slash_pth := (T23Fs.psi_slash_pth top Htop c HP Hrs Hro).
Notation fs_rename_sim := (T23Fs.fs_rename_sim top Htop c HP Hrs Hro).

Definition SIMH (x y : sys * outc * option handle) : Prop :=
  snd (fst y) = snd (fst x) /\ GoodE (fst (fst x)) (fst (fst y)) /\ hopt (fst (fst x)) (snd x) (snd y).

Ltac simh_none HG := split; [reflexivity|split; [exact HG|constructor]].
Ltac k3 := split; [reflexivity|split; [reflexivity|reflexivity]].

Lemma HD_good_name sa sr ha hr : GoodE sa sr -> HD sa ha hr ->
  good (hd_path ha) /\ hd_link ha = [] /\ live_name (rows (db sa)) (hd_path ha) = true /\ usize_ok (h_pax (hd_info ha)).
Proof.
  intros HG [(Hfr & E1 & E2) _]. destruct (from_row_facts true _ _ (PR_li _ _ _ _ (GPR _ _ HG)) Hfr) as (A & B & C & D).
  rewrite E1, E2. repeat split; assumption.
Qed.

(* the first Write on a handle *)
Lemma handle_write_all_sim sa sr ha hr d : GoodE sa sr -> HD sa ha hr ->
  exists o b, handle_write_all c sa ha d = (sa, o, b) /\ handle_write_all c sr hr d = (sr, o, b).
Proof.
  intros HG HH. pose proof HH as [Hgd Hrel]. destruct (HD_good_name sa sr ha hr HG HH) as (G & _).
  pose proof (handle_write_all_lv true c sa ha d (PR_li _ _ _ _ (GPR _ _ HG))) as Hfst.
  assert (K : snd (fst (handle_write_all c sr hr d)) = snd (fst (handle_write_all c sa ha d)) /\
              snd (handle_write_all c sr hr d) = snd (handle_write_all c sa ha d) /\
              fst (fst (handle_write_all c sr hr d)) = sr).
  { unfold handle_write_all. rewrite (hr_tf _ _ _ (hd_i _ _ Hrel)), (hd_f _ _ Hrel), (hd_b _ _ Hrel).
    destruct (h_tf (hd_info ha) =? TypeDir); [k3|].
    destruct (negb (fl_write (hd_flags ha))); [k3|].
    destruct (hd_buf ha) as [b0|]; [k3|].
    rewrite (hd_p _ _ Hrel).
    destruct (statF sa sr (hd_path ha) HG G) as (Ea & Er & HR). rewrite Ea, Er.
    destruct (stat_form sa (hd_path ha)) as [h| | |e] eqn:Es; inversion HR as [? h' Hh| | |]; subst; try k3.
    rewrite (hr_size _ _ _ Hh). destruct (negb (h_size h =? 0)); [|k3].
    destruct (read_path_sim sa sr (hd_path ha) (GPR _ _ HG) (R_tp _ _ _ (ge_R _ _ _ _ HG)) G) as (E1 & E3).
    pose proof (read_path_lv true c sa (hd_path ha) (PR_li _ _ _ _ (GPR _ _ HG))) as E2.
    destruct (read_path c sa (hd_path ha)) as [xa ya]. destruct (read_path c sr (psi (hd_path ha))) as [xr yr]. cbn [fst snd] in *. subst.
    destruct ya as [x| | |e]; k3. }
  destruct K as (K1 & K2 & K3).
  destruct (handle_write_all c sa ha d) as [[xa oa] ba]. destruct (handle_write_all c sr hr d) as [[xr or_] br]. cbn [fst snd] in *. subst.
  exists oa, ba. split; reflexivity.
Qed.

(* Close: one Update(replace = true) of the handle's entry *)
Lemma flush_hdr_rel ha hr sz : hdrel ha hr -> hrel (flush_hdr ha sz) (flush_hdr hr sz).
Proof.
  intros [P L F I B]. pose proof I as []. constructor; cbn; try assumption; try reflexivity; [congruence|constructor].
Qed.

Lemma handle_close_sim sa sr ha hr buf : GoodE sa sr -> HD sa ha hr ->
  SIM (handle_close c sa ha buf) (handle_close c sr hr buf).
Proof.
  intros HG HH. destruct (HD_good_name sa sr ha hr HG HH) as (G & Lk & Lv & Hu). destruct HH as [_ Hrel].
  unfold handle_close. destruct buf as [b|]; [|split; [reflexivity|exact HG]].
  destruct (ge_env _ _ _ _ HG) as (_ & _ & Eclk). rewrite Eclk.
  destruct (update_simr sa sr {| f_hdr := stamp_mtime (flush_hdr ha (clen b)) (clk sa); f_data := b |}
              {| f_hdr := stamp_mtime (flush_hdr hr (clen b)) (clk sa); f_data := b |} true true HG) as (sa' & sr' & E1 & E2 & HG').
  - cbn [f_hdr]. apply hrel_stamp. apply flush_hdr_rel. exact Hrel.
  - reflexivity.
  - exact G.
  - exact Lk.
  - exact I.
  - exact Lv.
  - rewrite E1, E2. split; [reflexivity|exact HG'].
Qed.

Lemma write_close_sim sa sr ha hr d force : GoodE sa sr -> HD sa ha hr ->
  SIM (write_close c sa ha d force) (write_close c sr hr d force).
Proof.
  intros HG HH. unfold write_close.
  assert (K : SIM (match handle_write_all c sa ha d with (s, OOk, Some b) => handle_close c s ha (Some b) | (s, e, _) => (s, e) end)
                  (match handle_write_all c sr hr d with (s, OOk, Some b) => handle_close c s hr (Some b) | (s, e, _) => (s, e) end)).
  { destruct (handle_write_all_sim sa sr ha hr d HG HH) as (o & b & Ea & Er). rewrite Ea, Er.
    destruct o; try (split; [reflexivity|exact HG]). destruct b as [b|]; [|split; [reflexivity|exact HG]].
    apply handle_close_sim; assumption. }
  destruct d as [|d0 d'].
  - destruct force; [exact K|]. rewrite (hd_b _ _ (proj2 HH)). apply handle_close_sim; assumption.
  - exact K.
Qed.

(* OpenFile *)
Lemma fs_openfile_sim sa sr n o perm : GoodE sa sr -> good n ->
  SIMH (fs_openfile c sa n o perm) (fs_openfile c sr (psi n) o perm).
Proof.
  intros HG G. unfold fs_openfile.
  destruct n as [|n0 n']; [exfalso; exact (good_nonempty _ G eq_refl)|].
  destruct (psi (n0 :: n')) as [|p0 p'] eqn:Ep; [exfalso; exact (psi_nonempty _ G Ep)|]. rewrite <- Ep.
  rewrite (path_clean_good _ G), (psi_clean _ G). set (name := n0 :: n') in *. clear Ep. set (fl := decode_flags c o).
  assert (FIN : forall xa xr h hr cr, GoodE xa xr -> from_row (db xa) h -> hrel h hr ->
    SIMH (if negb cr && negb (c_readonly c) && o_create o && o_excl o then (xa, OExist, None)
          else if (h_tf h =? TypeDir) && (fl_write fl || fl_append fl || fl_trunc fl) then (xa, OIsDir, None)
          else (xa, OOk, Some {| hd_path := h_name h; hd_link := h_link h; hd_flags := fl; hd_info := h;
                                 hd_buf := if fl_write fl && fl_trunc fl && negb (h_tf h =? TypeDir) && negb (h_size h =? 0) then Some [] else None |}))
         (if negb cr && negb (c_readonly c) && o_create o && o_excl o then (xr, OExist, None)
          else if (h_tf hr =? TypeDir) && (fl_write fl || fl_append fl || fl_trunc fl) then (xr, OIsDir, None)
          else (xr, OOk, Some {| hd_path := h_name hr; hd_link := h_link hr; hd_flags := fl; hd_info := hr;
                                 hd_buf := if fl_write fl && fl_trunc fl && negb (h_tf hr =? TypeDir) && negb (h_size hr =? 0) then Some [] else None |}))).
  { intros xa xr h hr cr HX Hfr Hh. rewrite (hr_tf _ _ _ Hh), (hr_size _ _ _ Hh).
    destruct (negb cr && negb (c_readonly c) && o_create o && o_excl o); [simh_none HX|].
    destruct ((h_tf h =? TypeDir) && (fl_write fl || fl_append fl || fl_trunc fl)); [simh_none HX|].
    split; [reflexivity|]. split; [exact HX|]. constructor. split.
    - split; [exact Hfr|split; reflexivity].
    - constructor; cbn; try reflexivity; [exact (hr_name _ _ _ Hh)|exact (hr_link _ _ _ Hh)|exact Hh]. }
  assert (FR : forall xa xr g h, GoodE xa xr -> stat_form xa g = Ok h -> from_row (db xa) h).
  { intros xa xr g h HX E. destruct (stat_form_ok _ _ _ _ HX E) as (d & -> & Hin & Hlv & _). exists d. repeat split; assumption. }
  destruct (statF sa sr name HG G) as (Ea & Er & HR). rewrite Ea, Er.
  destruct (stat_form sa name) as [h| | |e] eqn:Es; inversion HR as [? hr Hh| | |]; subst; try simh_none HG.
  - apply FIN; [exact HG|exact (FR _ _ _ _ HG Es)|exact Hh].
  - destruct (statT sa sr name HG G) as (Ea2 & Er2). rewrite Ea2, Er2.
    destruct (negb (c_readonly c) && o_create o); [|simh_none HG].
    destruct (parent_check_sim sa sr name HG G) as (o3 & Ea3 & Er3). rewrite Ea3, Er3.
    destruct o3; try simh_none HG.
    destruct (mknode_simr sa sr false name perm HG G) as (sa4 & sr4 & E1 & E2 & HG4 & _). rewrite E1, E2.
    destruct (statF sa4 sr4 name HG4 G) as (Ea5 & Er5 & HR5). rewrite Ea5, Er5.
    destruct (stat_form sa4 name) as [h| | |e] eqn:Es5; inversion HR5 as [? hr Hh| | |]; subst; try simh_none HG4.
    apply FIN; [exact HG4|exact (FR _ _ _ _ HG4 Es5)|exact Hh].
Qed.

Lemma fs_create_sim sa sr n : GoodE sa sr -> good n -> SIMH (fs_create c sa n) (fs_create c sr (psi n)).
Proof.
  intros HG G. unfold fs_create. rewrite Hro.
  destruct n as [|n0 n'] eqn:En; [exfalso; exact (good_nonempty _ G eq_refl)|]. rewrite <- En in *.
  destruct (psi n) as [|p0 p'] eqn:Ep; [exfalso; exact (psi_nonempty _ G Ep)|]. rewrite <- Ep.
  rewrite (path_clean_good _ G), (psi_clean _ G).
  destruct (parent_check_sim sa sr n HG G) as (o1 & Ea & Er). rewrite Ea, Er.
  destruct o1; try simh_none HG. apply fs_openfile_sim; assumption.
Qed.

(* the two file calls of the alphabet *)
Lemma open_then_write_sim (x y : sys * outc * option handle) d force : SIMH x y ->
  SIM (match x with (s, OOk, Some hd) => write_close c s hd d force | (s, e, _) => (s, e) end)
      (match y with (s, OOk, Some hd) => write_close c s hd d force | (s, e, _) => (s, e) end).
Proof.
  destruct x as [[xa oa] ha]. destruct y as [[xr or_] hr]. intros (E & HG & HO). cbn [fst snd] in *. subst or_.
  destruct oa; try (split; [reflexivity|exact HG]). destruct HO as [|a r HH]; [split; [reflexivity|exact HG]|].
  apply write_close_sim; assumption.
Qed.
End File.
End Top.
