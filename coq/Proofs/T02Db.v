(* T02 / index level: on a live index (names unique, no link names) a lookup by name is a [find];
   the abstraction [absp] is that lookup; what the row operations do to it; and what
   recovery.indexHeader does, exactly, for each kind of record the filesystem calls write. *)
From Coq Require Import List NArith ZArith Bool Lia.
From Coq Require Import ZifyN ZifyBool.
Import ListNotations.
From STFS Require Import Str Db Tape Index Ops Fs Diff Norm C01Str C01Db C01Inv C01Sim C01Hdr T02Ns.
Open Scope N_scope.

Ltac eqs :=
  repeat match goal with
  | H : eqb_str _ _ = true |- _ => apply eqb_str_eq in H
  | H : eqb_str _ _ = false |- _ => apply eqb_str_neq in H
  end.

Lemma eqb_str_true a b : a = b -> eqb_str a b = true.
Proof. intros ->. apply eqb_str_refl. Qed.
Lemma eqb_str_false a b : a <> b -> eqb_str a b = false.
Proof. apply eqb_str_neq. Qed.

(* ---------- lookup by name *)
Definition byname (l : list row) (m : str) : option row := find (fun r => eqb_str (r_name r) m) l.

Lemma byname_none l m : byname l m = None <-> ~ In m (map r_name l).
Proof.
  unfold byname. induction l as [|x t IH]; cbn; [tauto|].
  destruct (eqb_str (r_name x) m) eqn:E; eqs.
  - split; [discriminate|]. intro H. exfalso. apply H. left. exact E.
  - rewrite IH. tauto.
Qed.

Lemma byname_some l m r : byname l m = Some r -> In r l /\ r_name r = m.
Proof.
  unfold byname. intro H. apply find_some in H as [A B]. eqs. auto.
Qed.

Lemma byname_has l m : has_name l m = true <-> exists r, byname l m = Some r.
Proof.
  rewrite has_name_in. destruct (byname l m) as [r|] eqn:E.
  - split; [intros _; eexists; reflexivity|]. intros _. apply byname_some in E as [A B]. rewrite <- B. apply in_map. exact A.
  - apply byname_none in E. split; [contradiction|]. intros (r & K). discriminate.
Qed.

Lemma filter_notin f l m : ~ In m (map r_name l) -> filter (fun r => f r && eqb_str (r_name r) m) l = [].
Proof.
  induction l as [|x t IH]; cbn; intro H; [reflexivity|].
  assert (E : eqb_str (r_name x) m = false) by (apply eqb_str_neq; intro K; apply H; left; exact K).
  rewrite E, andb_false_r. apply IH. intro K. apply H. right. exact K.
Qed.

Lemma filter_unique f l m : NoDup (map r_name l) ->
  filter (fun r => f r && eqb_str (r_name r) m) l =
  match byname l m with Some r => if f r then [r] else [] | None => [] end.
Proof.
  unfold byname. induction l as [|x t IH]; cbn [map filter find]; intro H; [reflexivity|].
  inversion H as [|? ? Hn Ht]; subst.
  destruct (eqb_str (r_name x) m) eqn:E.
  - eqs. rewrite andb_true_r. rewrite filter_notin by (rewrite <- E; exact Hn). destruct (f x); reflexivity.
  - rewrite andb_false_r. apply IH. exact Ht.
Qed.

Lemma find_rows_byname l m : NoDup (map r_name l) ->
  find_rows l m = match byname l m with Some r => if live r then Some r else None | None => None end.
Proof.
  intro H. unfold find_rows. rewrite filter_unique by exact H.
  destruct (byname l m) as [r|]; [|reflexivity]. destruct (live r); reflexivity.
Qed.

Definition look (l : list row) (m : str) : option node := option_map node_of (find_rows l m).

Lemma lookup_absp p m : NoDup (map r_name (rows p)) -> lookup (absp p) m = look (rows p) m.
Proof.
  intro H. unfold look. rewrite find_rows_byname by exact H. unfold lookup, absp, byname.
  induction (rows p) as [|x t IH]; cbn [filter map find]; [reflexivity|].
  inversion H as [|? ? Hn Ht]; subst.
  destruct (live x) eqn:Lx; cbn [map find fst].
  - destruct (eqb_str (r_name x) m); [rewrite Lx; reflexivity|]. apply IH. exact Ht.
  - destruct (eqb_str (r_name x) m) eqn:E.
    + eqs. rewrite Lx. cbn. rewrite IH by exact Ht.
      assert (K : find (fun r => eqb_str (r_name r) m) t = None) by (apply byname_none; rewrite <- E; exact Hn).
      rewrite K. reflexivity.
    + apply IH. exact Ht.
Qed.

(* ---------- the row operations on the lookup *)
Definition nolinks (l : list row) : Prop := Forall (fun r => r_link r = []) l.

Lemma rowok_nolinks l : Forall rowok l -> nolinks l.
Proof. intro H. eapply Forall_impl; [|exact H]. intros a (_ & K & _). exact K. Qed.

Lemma byname_replace l n new m : nolinks l -> r_name new = n ->
  byname (replace_row n [] new l) m =
  if eqb_str m n then match byname l n with Some _ => Some new | None => None end else byname l m.
Proof.
  intros Hl Hn. unfold byname. induction l as [|x t IH]; cbn [replace_row find].
  - destruct (eqb_str m n); reflexivity.
  - inversion Hl as [|? ? Hx Ht]; subst. rewrite (key_eq_nil _ x Hx).
    destruct (eqb_str (r_name x) (r_name new)) eqn:E1; cbn [find].
    + eqs. rewrite eqb_str_sym. destruct (eqb_str m (r_name new)) eqn:E2; [reflexivity|].
      rewrite E1, eqb_str_sym, E2. reflexivity.
    + destruct (eqb_str (r_name x) m) eqn:E2.
      * eqs. assert (E3 : eqb_str m (r_name new) = false) by (apply eqb_str_neq; congruence). rewrite E3. reflexivity.
      * apply IH. exact Ht.
Qed.

Lemma byname_app l r m :
  byname (l ++ [r]) m = match byname l m with Some x => Some x | None => if eqb_str (r_name r) m then Some r else None end.
Proof.
  unfold byname. induction l as [|x t IH]; cbn [app find]; [reflexivity|].
  destruct (eqb_str (r_name x) m); [reflexivity|exact IH].
Qed.

Lemma byname_upsert l r m : Forall rowok l -> r_link r = [] ->
  byname (upsert_rows l r) m = if eqb_str m (r_name r) then Some r else byname l m.
Proof.
  intros Hl Hk. unfold upsert_rows. rewrite Hk, (has_key_nil l _ Hl).
  destruct (has_name l (r_name r)) eqn:E.
  - rewrite byname_replace; [|apply rowok_nolinks; exact Hl|reflexivity].
    apply byname_has in E as (x & ->). reflexivity.
  - rewrite byname_app.
    assert (K : byname l (r_name r) = None).
    { destruct (byname l (r_name r)) eqn:K; [|reflexivity]. assert (has_name l (r_name r) = true) by (apply byname_has; eexists; exact K). congruence. }
    destruct (eqb_str m (r_name r)) eqn:E2.
    + eqs. subst m. rewrite K, eqb_str_refl. reflexivity.
    + destruct (byname l m); [reflexivity|]. rewrite eqb_str_sym, E2. reflexivity.
Qed.

Lemma upsert_rows_names_nodup l r : Forall rowok l -> r_link r = [] -> NoDup (map r_name l) ->
  NoDup (map r_name (upsert_rows l r)).
Proof.
  intros Hl Hk Hnd. unfold upsert_rows. rewrite Hk, (has_key_nil l _ Hl).
  destruct (has_name l (r_name r)) eqn:E.
  - rewrite replace_row_names; [exact Hnd|exact Hl|reflexivity].
  - rewrite map_app. cbn. apply NoDup_app_one; [exact Hnd|]. intro K. apply has_name_in in K. congruence.
Qed.

Lemma find_rows_upsert l r m : Forall rowok l -> NoDup (map r_name l) -> r_link r = [] -> r_del r = false ->
  find_rows (upsert_rows l r) m = if eqb_str m (r_name r) then Some r else find_rows l m.
Proof.
  intros Hl Hnd Hk Hd. rewrite find_rows_byname by (apply upsert_rows_names_nodup; assumption).
  rewrite byname_upsert by assumption. rewrite (find_rows_byname l m Hnd).
  destruct (eqb_str m (r_name r)); [|reflexivity]. unfold live. rewrite Hd. reflexivity.
Qed.

Lemma find_rows_replace l n new m : Forall rowok l -> NoDup (map r_name l) -> r_name new = n ->
  has_name l n = true ->
  find_rows (replace_row n [] new l) m = if eqb_str m n then (if live new then Some new else None) else find_rows l m.
Proof.
  intros Hl Hnd Hn Hh. rewrite find_rows_byname by (rewrite replace_row_names; assumption).
  rewrite byname_replace; [|apply rowok_nolinks; exact Hl|exact Hn]. rewrite (find_rows_byname l m Hnd).
  apply byname_has in Hh as (x & ->). destruct (eqb_str m n); reflexivity.
Qed.

Lemma find_rows_has l n d : find_rows l n = Some d -> has_name l n = true.
Proof. intro H. apply find_rows_some in H as (A & _ & B). apply has_name_in. rewrite <- B. apply in_map. exact A. Qed.

(* ---------- sizes: the index stores the size a replay of the record would store.
   A row either carries the size record STFS.UncompressedSize, which then decodes to the stored size, or it has none:
   rows written by STFS without the record are empty; rows indexed from a foreign archive have none and keep the size of
   their tape header; a later content-less record (metadata update, move) adds the record from that size ([keep_size]),
   which decodes back to it below the 40 digits the encoder writes. *)
Definition size_ok (r : row) : Prop :=
  match pax_get K_usize (r_pax r) with Some v => undecimal v = Some (r_size r) | None => r_size r < 10 ^ 40 end.
Definition sizes_ok (l : list row) : Prop := Forall size_ok l.

(* a header whose replayed size is determined: it carries the size record, or it is empty *)
Definition hsize (h : hdr) : option N :=
  match pax_get K_usize (h_pax h) with Some v => undecimal v | None => Some (h_size h) end.
Lemma usz_hsize h : usz h = hsize h.
Proof. unfold usz, hsize. destruct (pax_get K_usize (h_pax h)) as [v|]; [|reflexivity]. destruct (undecimal v); reflexivity. Qed.

Lemma size_ok_row_of_hdr_lt a b c d h sz nm : hsize h = Some sz ->
  (pax_get K_usize (h_pax h) = None -> h_size h < 10 ^ 40) ->
  size_ok (row_of_hdr a b c d (with_size_name h sz nm)).
Proof.
  intros H1 H2. unfold size_ok.
  change (r_pax (row_of_hdr a b c d (with_size_name h sz nm))) with (h_pax h).
  change (r_size (row_of_hdr a b c d (with_size_name h sz nm))) with sz.
  unfold hsize in H1. destruct (pax_get K_usize (h_pax h)) as [v|]; [exact H1|].
  specialize (H2 eq_refl). inversion H1; subst sz. exact H2.
Qed.

Lemma size_ok_row_of_hdr a b c d h sz nm : hsize h = Some sz ->
  (pax_get K_usize (h_pax h) = None -> h_size h = 0) ->
  size_ok (row_of_hdr a b c d (with_size_name h sz nm)).
Proof.
  intros H1 H2. apply size_ok_row_of_hdr_lt; [exact H1|]. intro K. rewrite (H2 K). reflexivity.
Qed.

Lemma size_ok_set_lk r a b d : size_ok r -> size_ok (set_lk r a b d).
Proof. intro H. exact H. Qed.
Lemma size_ok_set_name r n : size_ok r -> size_ok (set_name r n).
Proof. intro H. exact H. Qed.

(* ---------- indexHeader, exactly *)
Section Exact.
Variables (hr : bool) (c : cfg) (rec blk : N) (h : hdr) (lv : pstate).
Hypothesis HP : plain c.
Hypothesis HL : LI hr lv.
Hypothesis HN : hnames_ok hr h.
Hypothesis HV : ver_ok h.

Lemma ih_start sz : usz h = Some sz ->
  index_header c rec blk h false lv = ih_body rec blk (with_size_name h sz (h_name h)) false lv.
Proof. intro E. rewrite index_header_plain by exact HP. rewrite E. reflexivity. Qed.

Lemma ih_create_exact sz : h_act h = V_create -> usz h = Some sz ->
  index_header c rec blk h false lv =
  (with_rows lv (upsert_rows (rows lv) (row_of_hdr rec rec blk blk (with_size_name h sz (h_name h)))), Ok tt).
Proof.
  intros Ha Hs. rewrite (ih_start sz Hs). unfold ih_body.
  change (h_pax (with_size_name h sz (h_name h))) with (h_pax h).
  rewrite (ver_ok_test h HV).
  change (h_act (with_size_name h sz (h_name h))) with (h_act h). rewrite Ha.
  change (eqb_str V_create V_create) with true. cbn iota.
  rewrite (upsert_lv hr); [reflexivity|exact HL|apply HN].
Qed.

Lemma ih_delete_exact sz d : h_act h = V_delete -> usz h = Some sz -> find_rows (rows lv) (h_name h) = Some d ->
  index_header c rec blk h false lv =
  (with_rows lv (replace_row (h_name h) [] (set_lk d rec blk true) (rows lv)), Ok tt).
Proof.
  intros Ha Hs Hf. rewrite (ih_start sz Hs). unfold ih_body.
  change (h_pax (with_size_name h sz (h_name h))) with (h_pax h).
  rewrite (ver_ok_test h HV).
  change (h_act (with_size_name h sz (h_name h))) with (h_act h). rewrite Ha.
  change (eqb_str V_delete V_create) with false. change (eqb_str V_delete V_delete) with true. cbn iota.
  change (h_name (with_size_name h sz (h_name h))) with (h_name h).
  rewrite (delete_row_lv hr); [|exact HL|apply HN]. rewrite Hf. reflexivity.
Qed.

(* an Update record without a rename; [keep] = true: the metadata-only form (Chmod, Chown, Chtimes),
   which keeps the position of the content; false: the content-replacing form (Write) *)
Lemma ih_update_exact sz d : h_act h = V_update -> h_rep h = None -> usz h = Some sz ->
  find_rows (rows lv) (h_name h) = Some d ->
  let keep := match pax_get K_replaces_content (h_pax h) with Some v => negb (eqb_str v V_true) | None => true end in
  index_header c rec blk h false lv =
  (with_rows lv (replace_row (h_name h) []
     (row_of_hdr (if keep then r_rec d else rec) rec (if keep then r_blk d else blk) blk (with_size_name h sz (h_name h)))
     (rows lv)), Ok tt).
Proof.
  intros Ha Hr Hs Hf. cbn zeta. rewrite (ih_start sz Hs). unfold ih_body.
  change (h_pax (with_size_name h sz (h_name h))) with (h_pax h).
  rewrite (ver_ok_test h HV).
  change (h_act (with_size_name h sz (h_name h))) with (h_act h). rewrite Ha.
  change (eqb_str V_update V_create) with false. change (eqb_str V_update V_delete) with false.
  change (eqb_str V_update V_update) with true. cbn iota.
  unfold upd_body.
  change (h_rep (with_size_name h sz (h_name h))) with (h_rep h). rewrite Hr.
  change (h_pax (with_size_name h sz (h_name h))) with (h_pax h).
  change (h_name (with_size_name h sz (h_name h))) with (h_name h).
  assert (G : good (h_name h)) by apply HN.
  assert (Hlk : h_link h = []) by apply HN.
  assert (CU : forall r1 r2,
     lift (lv, Ok tt) (fun p _ => update_meta p (row_of_hdr r1 rec r2 blk (with_size_name h sz (h_name h))))
     = (with_rows lv (replace_row (h_name h) [] (row_of_hdr r1 rec r2 blk (with_size_name h sz (h_name h))) (rows lv)), Ok tt)).
  { intros r1 r2. cbn [lift]. rewrite (update_meta_lv hr); [|exact HL|exact G].
    change (r_link (row_of_hdr r1 rec r2 blk (with_size_name h sz (h_name h)))) with (h_link h). rewrite Hlk. reflexivity. }
  rewrite (get_header_lv hr); [|exact HL|exact G]. rewrite Hf.
  destruct (pax_get K_replaces_content (h_pax h)) as [v|]; [|apply CU].
  destruct (eqb_str v V_true); cbn [negb]; apply CU.
Qed.

(* a Move record for a live entry: rows at the new name go away, the row is renamed, then rewritten
   from the header (which Move took from that same row), keeping the position of its content *)
Lemma ih_move_exact sz o d : h_act h = V_update -> h_rep h = Some o -> usz h = Some sz ->
  pax_get K_replaces_content (h_pax h) = None ->
  find_rows (rows lv) o = Some d ->
  index_header c rec blk h false lv =
  (with_rows lv (replace_row (h_name h) []
     (row_of_hdr (r_rec d) rec (r_blk d) blk (with_size_name h sz (h_name h)))
     (map (mv_fun o (h_name h) rec blk) (mv_rows1 (rows lv) o (h_name h)))), Ok tt).
Proof.
  intros Ha Hr Hs Hrc Hf. rewrite (ih_start sz Hs). unfold ih_body.
  change (h_pax (with_size_name h sz (h_name h))) with (h_pax h).
  rewrite (ver_ok_test h HV).
  change (h_act (with_size_name h sz (h_name h))) with (h_act h). rewrite Ha.
  change (eqb_str V_update V_create) with false. change (eqb_str V_update V_delete) with false.
  change (eqb_str V_update V_update) with true. cbn iota.
  unfold upd_body.
  change (h_rep (with_size_name h sz (h_name h))) with (h_rep h). rewrite Hr.
  change (h_pax (with_size_name h sz (h_name h))) with (h_pax h). rewrite Hrc.
  change (h_name (with_size_name h sz (h_name h))) with (h_name h).
  destruct (hn_rep hr h HN Ha o Hr) as (Go & Ho & Hn & Hne).
  assert (G : good (h_name h)) by apply HN.
  assert (Hlk : h_link h = []) by apply HN.
  assert (Hrows : Forall rowok (rows lv)) by apply HL.
  pose proof (move_list_live (rows lv) o (h_name h) rec blk Hrows Hne) as EM.
  set (l1 := map (mv_fun o (h_name h) rec blk) (mv_rows1 (rows lv) o (h_name h))) in *.
  assert (LL1 : LL hr l1) by (apply mv_result_LL; try assumption; apply HL).
  rewrite (get_header_lv hr); [|exact HL|exact Go]. rewrite Hf.
  rewrite (move_rows_lv hr) by assumption. rewrite EM. cbn [fst snd lift].
  rewrite (update_meta_lv hr); [|apply LI_with; [exact HL|exact LL1]|exact G].
  change (r_link (row_of_hdr (r_rec d) rec (r_blk d) blk (with_size_name h sz (h_name h)))) with (h_link h). rewrite Hlk.
  reflexivity.
Qed.
End Exact.
