(* T15 / Step: one call on a read-only instance, from EVERY state (no reachability hypothesis).
   - the nine mutators return the state they were given (the whole [sys], not only tape and rows) and OPerm;
   - CWriteFile (OpenFile with any flag combination, then a write, then Close): the exact outcome table; it does not depend on
     the flags or the permission argument; only the root cache of the index may be filled ([frame]);
   - CArchive: refused; CNop: nothing; CReopen: the cache is recomputed from the same rows;
   - CInitialize: never writes; the index is kept if it has a root, otherwise it is the index built from the unchanged tape. *)
From Coq Require Import List NArith ZArith Bool.
Import ListNotations.
From STFS Require Import Str Db Tape Index Ops Fs File Diff Norm T15Def T15Db.
Open Scope N_scope.

(* ---------------------------------------------------------------- mutators *)
Theorem T15_mutator_id c s k : ro c -> mutator k = true -> step c s k = (s, OPerm).
Proof.
  unfold ro. intros R M. destruct k; try discriminate M; cbn [step];
    unfold fs_mkdir, fs_mkdirall, fs_remove, fs_removeall, fs_rename, fs_update_meta, fs_create; rewrite R; reflexivity.
Qed.

Theorem T15_archive_refused c s fs : ro c -> step c s (CArchive fs) = (s, OOther 40).
Proof. unfold ro. intro R. cbn [step]. rewrite R. reflexivity. Qed.

(* the node-creating primitive itself refuses too (used by OpenFile with O_CREATE, MkdirAll, Initialize) *)
Lemma mknode_ro c s dir name perm ov link ini : ro c -> mknode c s dir name perm ov link ini = (s, OPerm).
Proof. unfold ro, mknode. intros ->. reflexivity. Qed.

(* ---------------------------------------------------------------- OpenFile *)
Definition ro_flags (o : oflag) : flags :=
  {| fl_read := (o_acc o =? 0) || (o_acc o =? 2); fl_write := false; fl_append := false; fl_trunc := false |}.

Lemma decode_flags_ro c o : ro c -> decode_flags c o = ro_flags o.
Proof. unfold ro, decode_flags. intros ->. reflexivity. Qed.

Definition ro_handle (o : oflag) (h : hdr) : handle :=
  {| hd_path := h_name h; hd_link := h_link h; hd_flags := ro_flags o; hd_info := h; hd_buf := None |}.

(* OpenFile on a read-only instance, for EVERY flag combination: two lookups, no creation, never a write flag *)
Theorem T15_openfile_ro c s n o perm : ro c -> n <> [] ->
  fs_openfile c s n o perm =
    match stat_s s (path_clean n) false with
    | (s1, Ok h) => (s1, OOk, Some (ro_handle o h))
    | (s1, NoRows) =>
      match stat_s s1 (path_clean n) true with
      | (s2, NoRows) => (s2, ONotExist, None)
      | (s2, Ok _) => (s2, OOther E_unmodelled, None)
      | (s2, e) => (s2, outc_of_res e, None)
      end
    | (s1, e) => (s1, outc_of_res e, None)
    end.
Proof.
  intros R N. unfold fs_openfile. destruct n as [|a n']; [congruence|].
  rewrite (decode_flags_ro c o R). unfold ro in R. rewrite R. cbn [negb andb orb fl_write fl_append fl_trunc ro_flags].
  destruct (stat_s s (path_clean (a :: n')) false) as [s1 [h| | |e]]; try reflexivity.
  rewrite andb_false_r. reflexivity.
Qed.

Lemma openfile_handle c s n o perm s' hd : ro c -> fs_openfile c s n o perm = (s', OOk, Some hd) ->
  fl_write (hd_flags hd) = false /\ fl_append (hd_flags hd) = false /\ fl_trunc (hd_flags hd) = false /\ hd_buf hd = None
  /\ fl_read (hd_flags hd) = ((o_acc o =? 0) || (o_acc o =? 2)).
Proof.
  intros R H. destruct n as [|a n']; [discriminate H|].
  rewrite (T15_openfile_ro c s (a :: n') o perm R) in H by congruence.
  destruct (stat_s s (path_clean (a :: n')) false) as [s1 [h| | |e]]; try discriminate H.
  - inversion H; subst. repeat split; reflexivity.
  - destruct (stat_s s1 (path_clean (a :: n')) true) as [s2 [h| | |e]]; discriminate H.
Qed.

(* ---------------------------------------------------------------- writes and Close on a handle without the write flag *)
Definition empty_write (d : content) (force : bool) : bool := match d, force with [], false => true | _, _ => false end.

(* for ANY configuration and state: a handle without write flag refuses; the state is returned as it was *)
Theorem T15_handle_write_refused c s hd d : fl_write (hd_flags hd) = false ->
  handle_write_all c s hd d = (s, if h_tf (hd_info hd) =? TypeDir then OIsDir else OPerm, None).
Proof. intro W. unfold handle_write_all. rewrite W. destruct (h_tf (hd_info hd) =? TypeDir); reflexivity. Qed.

Theorem T15_handle_close_nobuf c s hd : hd_buf hd = None -> handle_close c s hd (hd_buf hd) = (s, OOk).
Proof. intros ->. reflexivity. Qed.

Theorem T15_write_close_ro c s hd d force : fl_write (hd_flags hd) = false -> hd_buf hd = None ->
  write_close c s hd d force =
    (s, if empty_write d force then OOk else if h_tf (hd_info hd) =? TypeDir then OIsDir else OPerm).
Proof.
  intros W B. unfold write_close. rewrite (T15_handle_write_refused c s hd d W), B.
  destruct d, force; cbn [empty_write handle_close]; try reflexivity;
    destruct (h_tf (hd_info hd) =? TypeDir); reflexivity.
Qed.

(* ---------------------------------------------------------------- CWriteFile: the exact table *)
Definition writefile_outcome (h : hdr) (d : content) (force : bool) : outc :=
  if empty_write d force then OOk else if h_tf h =? TypeDir then OIsDir else OPerm.

Theorem T15_writefile_table c s n o perm d force : ro c -> n <> [] ->
  step c s (CWriteFile n o perm d force) =
    match stat_s s (path_clean n) false with
    | (s1, Ok h) => (s1, writefile_outcome h d force)
    | (s1, NoRows) =>
      match stat_s s1 (path_clean n) true with
      | (s2, NoRows) => (s2, ONotExist)
      | (s2, Ok _) => (s2, OOther E_unmodelled)
      | (s2, e) => (s2, outc_of_res e)
      end
    | (s1, e) => (s1, outc_of_res e)
    end.
Proof.
  intros R N. cbn [step]. rewrite (T15_openfile_ro c s n o perm R N).
  destruct (stat_s s (path_clean n) false) as [s1 [h| | |e]]; try reflexivity.
  - rewrite T15_write_close_ro by reflexivity. reflexivity.
  - destruct (stat_s s1 (path_clean n) true) as [s2 [h| | |e]]; reflexivity.
Qed.

Theorem T15_writefile_empty_name c s o perm d force : step c s (CWriteFile [] o perm d force) = (s, OInvalid).
Proof. reflexivity. Qed.

(* the flags and the permission argument are irrelevant on a read-only instance *)
Corollary T15_writefile_flags_irrelevant c s n o perm o' perm' d force : ro c ->
  step c s (CWriteFile n o perm d force) = step c s (CWriteFile n o' perm' d force).
Proof.
  intro R. destruct n as [|a n']; [reflexivity|].
  rewrite !(T15_writefile_table c s (a :: n')) by (auto; congruence). reflexivity.
Qed.

(* a write (non-empty, or forced) never succeeds: it answers OPerm on an existing non-directory, OIsDir on a directory,
   ONotExist on a missing name (O_CREATE is dropped), or the lookup's error *)
Corollary T15_writefile_never_ok c s n o perm d force : ro c -> empty_write d force = false ->
  snd (step c s (CWriteFile n o perm d force)) <> OOk.
Proof.
  intros R E. destruct n as [|a n']; [cbn; congruence|].
  rewrite (T15_writefile_table c s (a :: n')) by (auto; congruence).
  destruct (stat_s s (path_clean (a :: n')) false) as [s1 [h| | |e]]; cbn [snd outc_of_res]; try congruence.
  - unfold writefile_outcome. rewrite E. destruct (h_tf h =? TypeDir); congruence.
  - destruct (stat_s s1 (path_clean (a :: n')) true) as [s2 [h| | |e]]; cbn [snd outc_of_res]; congruence.
Qed.

Corollary T15_writefile_perm c s n o perm d force s1 h : ro c -> n <> [] -> empty_write d force = false ->
  stat_s s (path_clean n) false = (s1, Ok h) -> (h_tf h =? TypeDir) = false ->
  step c s (CWriteFile n o perm d force) = (s1, OPerm).
Proof.
  intros R N E S D. rewrite (T15_writefile_table c s n) by auto. rewrite S. unfold writefile_outcome. rewrite E, D. reflexivity.
Qed.

(* ---------------------------------------------------------------- every call but CInitialize / CReopen: the state changes only
   through [sanitize] (generic in the relation, see T15Db) *)
Section GenStep.
Variable Rel : pstate -> pstate -> Prop.
Hypothesis Rel_refl : forall p, Rel p p.
Hypothesis Rel_trans : forall p q r, Rel p q -> Rel q r -> Rel p r.
Hypothesis Rel_san : forall p n, Rel p (fst (sanitize p n)).
Let gf := gframe Rel.
Let gf_refl := gframe_refl Rel Rel_refl.
Let gf_trans := gframe_trans Rel Rel_trans.
Let gf_stat := stat_s_gframe Rel Rel_trans Rel_san.

Lemma openfile_gframe c s n o perm : ro c -> gf s (fst (fst (fs_openfile c s n o perm))).
Proof.
  intro R. destruct n as [|a n']; [apply gf_refl|].
  rewrite (T15_openfile_ro c s (a :: n') o perm R) by congruence.
  pose proof (gf_stat s (path_clean (a :: n')) false) as H.
  destruct (stat_s s (path_clean (a :: n')) false) as [s1 [h| | |e]]; cbn [fst] in *; try exact H.
  pose proof (gf_stat s1 (path_clean (a :: n')) true) as H2.
  destruct (stat_s s1 (path_clean (a :: n')) true) as [s2 [h| | |e]]; cbn [fst] in *; eapply gf_trans; eauto.
Qed.

Lemma writefile_gframe c s n o perm d force : ro c -> gf s (fst (step c s (CWriteFile n o perm d force))).
Proof.
  intro R. pose proof (openfile_gframe c s n o perm R) as F. cbn [step].
  destruct (fs_openfile c s n o perm) as [[s1 oc] ohd] eqn:E. cbn [fst] in F.
  destruct oc; try exact F. destruct ohd as [hd|]; [|exact F].
  destruct (openfile_handle c s n o perm s1 hd R E) as (W & _ & _ & B & _).
  rewrite T15_write_close_ro by assumption. exact F.
Qed.

Theorem step_gframe c s k : ro c -> ro_call k = true -> is_init k = false -> is_reopen k = false ->
  gf s (fst (step c s k)).
Proof.
  intros R C I O. destruct k; try discriminate;
    try (rewrite T15_mutator_id by (auto; reflexivity); apply gf_refl).
  - apply writefile_gframe; exact R.
  - rewrite T15_archive_refused by exact R. apply gf_refl.
  - apply gf_refl.
Qed.
End GenStep.

Lemma openfile_frame c s n o perm : ro c -> frame s (fst (fst (fs_openfile c s n o perm))).
Proof. apply (openfile_gframe cachefill cachefill_refl cachefill_trans sanitize_cf). Qed.

Theorem T15_step_frame c s k : ro c -> ro_call k = true -> is_init k = false -> is_reopen k = false ->
  frame s (fst (step c s k)).
Proof. apply (step_gframe cachefill cachefill_refl cachefill_trans sanitize_cf). Qed.

Theorem T15_step_reopen c s : step c s CReopen = (set_db s (p_open (rows (db s))), OOk).
Proof. reflexivity. Qed.

Lemma p_open_rows l : rows (p_open l) = l.
Proof.
  unfold p_open. pose proof (get_root_path_cf {| rows := l; root := []; root_empty := false |}) as [H _]. exact H.
Qed.

(* ---------------------------------------------------------------- CInitialize *)
Lemma min_depth_row_some l : forall b, min_depth_row l (Some b) <> None.
Proof.
  induction l as [|r l IH]; intros b; cbn; [congruence|].
  destruct (slash_count (r_name r) <? slash_count (r_name b)); apply IH.
Qed.
Lemma min_depth_row_none l : min_depth_row l None = None -> l = [].
Proof. destruct l as [|r l]; [reflexivity|]. cbn. intro H. exfalso. exact (min_depth_row_some l r H). Qed.

(* "the index has no root" = nothing cached and no live row *)
Lemma get_root_path_none p : snd (get_root_path p) = None <-> root p = [] /\ filter live (rows p) = [].
Proof.
  unfold get_root_path. destruct (root p) eqn:R.
  - destruct (min_depth_row (filter live (rows p)) None) eqn:M; cbn [snd].
    + split; [congruence|]. intros [_ E]. rewrite E in M. discriminate M.
    + split; [|reflexivity]. intros _. split; [reflexivity|]. apply min_depth_row_none. exact M.
  - cbn [snd]. split; [congruence|]. intros [E _]. congruence.
Qed.
Lemma get_root_path_none_id p : snd (get_root_path p) = None -> fst (get_root_path p) = p.
Proof.
  unfold get_root_path. destruct (root p); [|discriminate].
  destruct (min_depth_row (filter live (rows p)) None); [discriminate|reflexivity].
Qed.

Lemma index_tape_rebuild c t p : index_tape c t 0 0 None true false p = rebuild c t.
Proof. reflexivity. Qed.

Definition has_root (p : pstate) : Prop := snd (get_root_path p) <> None.

Theorem T15_initialize c s r : ro c ->
  let s' := fst (fs_initialize c s r) in
  tp s' = tp s /\ hbq s' = hbq s /\ encq s' = encq s /\ clk s' = clk s /\
  (has_root (db s) -> cachefill (db s) (db s') /\ snd (fs_initialize c s r) = OOk) /\
  (~ has_root (db s) -> tp s = [] -> s' = s /\ snd (fs_initialize c s r) = OPerm) /\
  (~ has_root (db s) -> tp s <> [] ->
     cachefill (fst (rebuild c (tp s))) (db s') /\
     snd (fs_initialize c s r) =
       if (match snd (get_root_path (fst (rebuild c (tp s)))) with Some _ => true | None => false end) then OOk
       else match snd (rebuild c (tp s)) with Ok _ => OOther 30 | _ => OPerm end).
Proof.
  intros R s'. subst s'. unfold has_root, fs_initialize.
  pose proof (get_root_path_cf (db s)) as CF. pose proof (get_root_path_none_id (db s)) as ID.
  destruct (get_root_path (db s)) as [p rt]. cbn [fst snd] in *. destruct rt as [x|].
  - cbn [fst snd tp hbq encq clk set_db db].
    split; [reflexivity|]. split; [reflexivity|]. split; [reflexivity|]. split; [reflexivity|].
    split; [|split].
    + intros _. split; [exact CF|reflexivity].
    + intro H. exfalso. apply H. congruence.
    + intro H. exfalso. apply H. congruence.
  - specialize (ID eq_refl). subst p.
    assert (SD : set_db s (db s) = s) by (destruct s; reflexivity). rewrite SD.
    unfold ro in R. rewrite R. destruct (tp s) as [|i t] eqn:T.
    + cbn [fst snd].
      split; [exact T|]. split; [reflexivity|]. split; [reflexivity|]. split; [reflexivity|].
      split; [|split].
      * intro H. exfalso. apply H. reflexivity.
      * intros _ _. split; reflexivity.
      * intros _ H. congruence.
    + rewrite <- T. rewrite index_tape_rebuild. destruct (rebuild c (tp s)) as [p1 r1]. cbn [fst snd].
      pose proof (get_root_path_cf p1) as CF1. destruct (get_root_path p1) as [p2 r2]. cbn [fst snd] in *.
      assert (G : forall x : sys * outc, fst x = set_db s p2 ->
                tp (fst x) = tp s /\ hbq (fst x) = hbq s /\ encq (fst x) = encq s /\ clk (fst x) = clk s /\ db (fst x) = p2).
      { intros x ->. repeat split. }
      match goal with |- tp (fst ?x) = _ /\ _ => assert (GX : fst x = set_db s p2 /\
          snd x = if (match r2 with Some _ => true | None => false end) then OOk
                  else match r1 with Ok _ => OOther 30 | _ => OPerm end) end.
      { destruct r1 as [u| | |e]; destruct r2 as [y|]; split; reflexivity. }
      destruct GX as [GX1 GX2]. destruct (G _ GX1) as (G1 & G2 & G3 & G4 & G5).
      split; [exact G1|]. split; [exact G2|]. split; [exact G3|]. split; [exact G4|].
      split; [|split].
      * intro H. exfalso. apply H. reflexivity.
      * intros _ H. rewrite T in H. discriminate H.
      * intros _ _. rewrite G5. split; [exact CF1|exact GX2].
Qed.
