(* T25 / Test: the transfer theorems applied to concrete histories (their hypotheses are decidable there), and the
   computed facts they imply - checked by vm_compute.
   Reader: T19Test.rC1 / rC2 under the codec suffix ".gz" (names with LIKE wildcards, uncleaned spellings, WriteFile,
   Reopen), T19Test.rA1 / rA2 under ".z".  Foreign archive: T20Test.tdemo, style "./" and "/". *)
From Coq Require Import String List NArith ZArith Bool.
Import ListNotations.
From STFS Require Import Str Db Tape Index Ops Fs File Diff Norm C01Str C01Sim C01Fs2 C01Rows
  T02Ns T02Spec T02Demo T04Def T04Content T04Demo T13Def
  T17Tree T17Test T19Rel T19Test T19Cfg T20Twin T20Good T20Test T20Demo T20Counter
  T25Core T25Abs T25Reader T25Foreign.
Open Scope string_scope.
Open Scope N_scope.

(* ---------- decidable forms of the reader-side preconditions *)
Fixpoint ok_run_rdb (c : cfg) (st : sys) (r : list (call * env)) : bool :=
  match r with
  | [] => true
  | (k, e) :: r' => forallb (fun x => 0 <? x) (ev_hb e) && call_preb (abs_rd st) k && ok_run_rdb c (fst (step c (with_env st e) k)) r'
  end.
Lemma ok_run_rdb_sound c r : forall st, ok_run_rdb c st r = true -> ok_run_rd c st r.
Proof.
  induction r as [|[k e] r IH]; intros st H; cbn [ok_run_rdb ok_run_rd] in *; [exact I|].
  apply andb_true_iff in H as [H H3]. apply andb_true_iff in H as [H1 H2].
  split; [exact H1|]. split; [apply call_preb_sound; exact H2|apply IH; exact H3].
Qed.

Definition names (l : list row) : list str := map r_name l.
Definition listing (p : pstate) (n : string) : option (list str) :=
  match snd (get_direct_children p (s n) None) with Ok l => Some (names l) | _ => None end.

(* ========== the instance continuing from a rebuilt index ========== *)
Definition cg : cfg := cfz ".gz".
Definition wC : sys := writer cg rC1.
Definition rdC : sys := reader_of cg wC (s "/") [] [] 0%Z.

(* C13 after rC2 (codec suffix ".gz"): the tree in the relative spelling, and the walk *)
Example test_reader_C13 :
  let sr' := final cg rdC rC2 in
  wf_tree_rel (db sr') /\ view cg sr' = view cg (final cg wC rC2) /\
  (forall d nr, good d -> nrel d nr -> exists l, snd (get_direct_children (db sr') nr None) = Ok l /\
      forall x, In x l <-> (In x (lrows (db sr')) /\ r_name x <> [] /\ path_dir (slash :: r_name x) = d)).
Proof.
  destruct (T25_reader_C13 cg eq_refl eq_refl (e0 1) rC1 rC2 eq_refl eq_refl eq_refl eq_refl eq_refl eq_refl (s "/") [] [] 0%Z)
    as (A & B & C & _).
  split; [exact A|]. split; [exact C|]. intros d nr G Hn. destruct (B d nr G Hn) as (l & E & _ & _ & Hl & _). exists l. split; assumption.
Qed.

(* the computed facts: the live names are relative, both spellings of a directory list the same rows *)
Example test_reader_C13_facts :
  let p := db (final cg rdC rC2) in
  names (lrows p) = [s ""; s "a"; s "a/ba"; s "a/ba/a"; s "a/ba/a/ba"; s "a/ba/a/ba/x"] /\
  listing p "/a/ba/a" = Some [s "a/ba/a/ba"] /\ listing p "a/ba/a" = Some [s "a/ba/a/ba"] /\
  listing p "/" = Some [s "a"] /\ listing p "" = Some [s "a"] /\
  map e_path (view cg (final cg rdC rC2)) = map (fun r => slash :: r_name r) (lrows p).
Proof. vm_compute. repeat split; reflexivity. Qed.

(* C02 after the nine-call part of rA2, ".z": conformance to the reference run on the reader's own namespace *)
Definition cz : cfg := cfz ".z".
Definition s0z : sys := fst (step cz (with_env init_sys (e0 1)) (CInitialize [slash])).
Definition rdA : sys := reader_of cz (final cz s0z rA1) (s "/") [] [] 0%Z.

Example test_reader_C02 :
  conforms_rd cz rdA (tl rA2) /\
  map ob_out (run cz rdA (tl rA2)) = map ob_out (run cz (final cz s0z rA1) (tl rA2)) /\
  abs_rd (final cz rdA (tl rA2)) = abs (final cz (final cz s0z rA1) (tl rA2)).
Proof.
  destruct (T25_reader_C02 cz eq_refl eq_refl (e0 1) rA1 (tl rA2) eq_refl) with (rootp := s "/") (q1 := @nil N) (q2 := @nil N) (k := 0%Z)
    as (A & B & _ & _ & C).
  - apply ok_runb_sound. vm_compute. reflexivity.
  - apply ok_run_rdb_sound. vm_compute. reflexivity.
  - split; [exact A|]. split; [exact B|exact C].
Qed.

Example test_reader_C02_facts :
  map ob_out (run cz rdA (tl rA2)) = [OOk; OOk; OOk; OOk; OOk; OOk; OOk; OOk; OOk] /\
  map fst (abs_rd (final cz rdA (tl rA2))) = [s "/"; s "/c"; s "/x"; s "/q"; s "/q/z"] /\
  map fst (abs (final cz rdA (tl rA2))) = [s ""; s "c"; s "x"; s "q"; s "q/z"].
Proof. vm_compute. repeat split; reflexivity. Qed.

(* C04 after rA2, ".z": a read in either spelling returns what was last written *)
Example test_reader_C04 :
  let h := (CInitialize [slash], e0 1) :: rA1 in
  let sr := reader_of cz (final cz init_sys h) (s "/") [] [] 0%Z in
  let w0 := last_written cz init_sys h w_empty in
  (forall m nr, good m -> nrel m nr -> content_eq (content_of cz (final cz sr rA2) nr) (last_written cz sr rA2 w0 m)) /\
  last_written cz sr rA2 w0 = last_written cz init_sys (h ++ rA2) w_empty.
Proof.
  destruct (T25_reader_C04 cz eq_refl eq_refl (e0 1) rA1 rA2 eq_refl) with (rootp := s "/") (q1 := @nil N) (q2 := @nil N) (k := 0%Z)
    as (A & _ & _ & B).
  - apply ok_run4b_sound. vm_compute. reflexivity.
  - reflexivity.
  - apply ok_run4b_sound. vm_compute. reflexivity.
  - reflexivity.
  - split; [exact A|exact B].
Qed.

(* one step earlier the file written by the WRITER is read through the reader, in both spellings *)
Example test_reader_C04_facts :
  let h := (CInitialize [slash], e0 1) :: rA1 in
  let sr := reader_of cz (final cz init_sys h) (s "/") [] [] 0%Z in
  let w0 := last_written cz init_sys h w_empty in
  let r2 := firstn 3 rA2 in
  content_of cz (final cz sr r2) (s "/c/f") = Some [(2, 0, 10)] /\ content_of cz (final cz sr r2) (s "c/f") = Some [(2, 0, 10)] /\
  last_written cz sr r2 w0 (s "/c/f") = Some [(2, 0, 10)] /\
  content_of cz (final cz sr r2) (s "c/d/g") = Some [(3, 0, 70)] /\ last_written cz sr r2 w0 (s "/c/d/g") = Some [(3, 0, 70)].
Proof. vm_compute. repeat split; reflexivity. Qed.

(* ========== an opened foreign archive ========== *)
Definition cc : cfg := tcf 20.
Definition arD : sys := opened cc (archive_of DotSlash tdemo).

(* C13 after the 18 calls of T20Test.hD (WriteFile, Rename / RemoveAll of original members, Reopen) *)
Example test_foreign_C13 :
  let sr' := final cc arD hD in
  wf_tree_rel (db sr') /\ view cc sr' = view cc (final cc (twin cc DotSlash tdemo) hD) /\
  (forall d nr, good d -> nrel d nr -> exists l, snd (get_direct_children (db sr') nr None) = Ok l /\
      forall x, In x l <-> (In x (lrows (db sr')) /\ r_name x <> [] /\ path_dir (slash :: r_name x) = d)).
Proof.
  destruct (T25_foreign_C13 cc DotSlash tdemo cc_plain eq_refl I eq_refl tdemo_wf eq_refl hD eq_refl eq_refl eq_refl) as (A & B & C & _).
  split; [exact A|]. split; [exact C|]. intros d nr G Hn. destruct (B d nr G Hn) as (l & E & _ & _ & Hl & _). exists l. split; assumption.
Qed.

Example test_foreign_C13_facts :
  let p := db (final cc arD (firstn 13 hD)) in
  names (lrows p) = [s ""; s "dd"; s "g"] /\ listing p "/" = Some [s "dd"; s "g"] /\ listing p "" = Some [s "dd"; s "g"] /\
  listing p "/dd" = Some [] /\ listing p "dd" = Some [].
Proof. vm_compute. repeat split; reflexivity. Qed.

(* C02 / C04: a history of the nine calls over the archive (both styles) *)
Definition hF : list (call * env) :=
  [(CMkdir (s "/d/new") 493, e0 2); (CCreateFile (s "/d/new/h") [(7, 0, 600)], e0 3);
   (CChmod (s "/d/f") 384, e0 4); (CChown (s "/g") 5 6, e0 5); (CChtimes (s "/d") 7 8, e0 6);
   (CRename (s "/d") (s "/dd"), e0 9); (CCreateFile (s "/dd/f") [(10, 0, 50)], e1 10 [2; 2] [50]);
   (CMkdirAll (s "/dd/new/x/y") 493, e0 11); (CRemove (s "/g"), e0 12); (CRename (s "/dd/new/h") (s "/g"), e0 13);
   (CRemoveAll (s "/dd/new"), e0 14); (CChmod (s "/") 448, e0 16); (CMkdir (s "/d") 493, e0 18); (CCreateFile (s "/d/f") [], e0 19)].

Example test_foreign_C02 :
  abs_rd arD = T20Abs.namespace_of cc tdemo /\ conforms_rd cc arD hF /\
  abs_rd (final cc arD hF) = abs (final cc (twin cc DotSlash tdemo) hF).
Proof.
  destruct (T25_foreign_C02 cc DotSlash tdemo cc_plain eq_refl I eq_refl tdemo_wf eq_refl tdemo_bounded hF) as (A & B & _ & _ & C).
  - apply ok_run_rdb_sound. vm_compute. reflexivity.
  - split; [exact A|]. split; [exact B|exact C].
Qed.

Example test_foreign_C04 :
  (forall m nr, good m -> nrel m nr -> content_of cc arD nr = w_tree tdemo m) /\
  (forall m nr, good m -> nrel m nr -> content_eq (content_of cc (final cc arD hF) nr) (last_written cc arD hF (w_tree tdemo) m)).
Proof.
  destruct (T25_foreign_C04 cc DotSlash tdemo cc_plain eq_refl I eq_refl tdemo_wf eq_refl tdemo_bounded hF) as (A & B & _).
  - apply ok_run4b_sound. vm_compute. reflexivity.
  - reflexivity.
  - split; [exact A|exact B].
Qed.

Example test_foreign_C04_facts :
  let arS := opened (tcf 3) (archive_of Slash tdemo) in
  w_tree tdemo (s "/d/f") = Some [(1, 0, 700)] /\ w_tree tdemo (s "/d") = None /\
  content_of cc arD (s "d/f") = Some [(1, 0, 700)] /\ content_of (tcf 3) arS (s "/d/f") = Some [(1, 0, 700)] /\
  (* after hF: the member /d/f moved to /dd/f and was overwritten, /g is the file created as /d/new/h *)
  content_of cc (final cc arD hF) (s "dd/f") = Some [(10, 0, 50)] /\ last_written cc arD hF (w_tree tdemo) (s "/dd/f") = Some [(10, 0, 50)] /\
  content_of cc (final cc arD hF) (s "g") = Some [(7, 0, 600)] /\ last_written cc arD hF (w_tree tdemo) (s "/g") = Some [(7, 0, 600)] /\
  content_of (tcf 3) (final (tcf 3) arS hF) (s "/g") = Some [(7, 0, 600)] /\
  map ob_out (run cc arD hF) = map (fun _ => OOk) hF.
Proof. vm_compute. repeat split; reflexivity. Qed.

(* ========== a foreign archive below the named top directory "top" ========== *)
From STFS Require Import T23Rel T23Main T25Named.
Definition tp_ : str := s "top".
Lemma okc_tp : okc tp_.
Proof.
  split; [discriminate|]. split; [discriminate|]. split; [discriminate|].
  intro K. cbn in K. repeat (destruct K as [K|K]; [discriminate|]). exact K.
Qed.
Definition arN : sys := opened cc (archive_of (Named tp_) tdemo).

Fixpoint ok_run_namedb (c : cfg) (st : sys) (r : list (call * env)) : bool :=
  match r with
  | [] => true
  | (k, e) :: r' => forallb (fun x => 0 <? x) (ev_hb e) && call_preb (abs_named tp_ st) k
                    && ok_run_namedb c (fst (step c (with_env st e) (ren_call tp_ k))) r'
  end.
Lemma ok_run_namedb_sound c r : forall st, ok_run_namedb c st r = true -> ok_run_named tp_ c st r.
Proof.
  induction r as [|[k e] r IH]; intros st H; cbn [ok_run_namedb ok_run_named] in *; [exact I|].
  apply andb_true_iff in H as [H H3]. apply andb_true_iff in H as [H1 H2].
  split; [exact H1|]. split; [apply call_preb_sound; exact H2|apply IH; exact H3].
Qed.

(* C13 after hD, given in absolute names; the named instance receives "top/..." *)
Example test_named_C13 :
  let sn' := final cc arN (ren_hist tp_ hD) in
  wf_tree_named tp_ (db sn') /\
  view_at cc sn' tp_ = map (ren_entry tp_) (view cc (final cc (twin cc Slash tdemo) hD)) /\
  (forall d, good d -> exists l, snd (get_direct_children (db sn') (psi tp_ d) None) = Ok l /\
      forall x, In x l <-> (In x (lrows (db sn')) /\ r_name x <> tp_ /\ path_dir (r_name x) = psi tp_ d)).
Proof.
  destruct (T25_named_C13 cc tp_ Slash tdemo cc_plain eq_refl eq_refl okc_tp I eq_refl tdemo_wf hD eq_refl eq_refl eq_refl eq_refl) as (A & B & C & _).
  split; [exact A|]. split; [exact C|]. intros d G. destruct (B d G) as (l & E & _ & _ & Hl & _). exists l. split; assumption.
Qed.

Example test_named_C13_facts :
  let p := db (final cc arN (ren_hist tp_ (firstn 13 hD))) in
  names (lrows p) = [s "top"; s "top/dd"; s "top/g"] /\ listing p "top" = Some [s "top/dd"; s "top/g"] /\ listing p "top/dd" = Some [] /\
  map e_path (view_at cc (final cc arN (ren_hist tp_ (firstn 13 hD))) tp_) = [s "top"; s "top/dd"; s "top/g"].
Proof. vm_compute. repeat split; reflexivity. Qed.

Example test_named_C02 :
  abs_named tp_ arN = T20Abs.namespace_of cc tdemo /\ conforms_named tp_ cc arN hF /\
  abs_named tp_ (final cc arN (ren_hist tp_ hF)) = abs (final cc (twin cc Slash tdemo) hF).
Proof.
  destruct (T25_named_C02 cc tp_ Slash tdemo cc_plain eq_refl eq_refl okc_tp I eq_refl tdemo_wf tdemo_bounded hF) as (A & B & _ & _ & C).
  - apply ok_run_namedb_sound. vm_compute. reflexivity.
  - split; [exact A|]. split; [exact B|exact C].
Qed.

Example test_named_C04 :
  (forall m, good m -> content_of cc arN (psi tp_ m) = w_tree tdemo m) /\
  (forall m, good m -> content_eq (content_of cc (final cc arN (ren_hist tp_ hF)) (psi tp_ m))
                                  (last_written_named tp_ cc arN hF (w_tree tdemo) m)).
Proof.
  destruct (T25_named_C04 cc tp_ Slash tdemo cc_plain eq_refl eq_refl okc_tp I eq_refl tdemo_wf tdemo_bounded hF) as (A & B & _).
  - apply ok_run4b_sound. vm_compute. reflexivity.
  - reflexivity.
  - split; [exact A|exact B].
Qed.

Example test_named_C04_facts :
  content_of cc arN (s "top/d/f") = Some [(1, 0, 700)] /\
  content_of cc (final cc arN (ren_hist tp_ hF)) (s "top/dd/f") = Some [(10, 0, 50)] /\
  last_written_named tp_ cc arN hF (w_tree tdemo) (s "/dd/f") = Some [(10, 0, 50)] /\
  content_of cc (final cc arN (ren_hist tp_ hF)) (s "top/g") = Some [(7, 0, 600)] /\
  last_written_named tp_ cc arN hF (w_tree tdemo) (s "/g") = Some [(7, 0, 600)] /\
  map ob_out (run cc arN (ren_hist tp_ hF)) = map (fun _ => OOk) hF.
Proof. vm_compute. repeat split; reflexivity. Qed.
