(* T19 / Demo: the theorems of T19Main applied to a concrete history (their hypotheses are decidable there): a test of
   the statements, and the computed facts the theorems imply. *)
From Coq Require Import String List NArith ZArith Bool.
Import ListNotations.
From STFS Require Import Str Db Tape Index Ops Fs Diff Norm C01Sim C01Fs2 C01Rows T19Rel T19Index T19Append T19Test T19Main.
Open Scope string_scope.
Open Scope N_scope.

Definition c0 : cfg := cfz "".
Lemma c0_plain : plain c0. Proof. split; reflexivity. Qed.

(* the writer after rA1 and the instance opened over its tape without an index are in [Sim] ... *)
Example demo_init : snd (fs_initialize c0 {| tp := tp (writer c0 rA1); db := p_empty; hbq := []; encq := []; clk := 0%Z |} (s "/")) = OOk /\
  Sim c0 (writer c0 rA1) (reader c0 rA1).
Proof. apply (T19_rel_init c0 (e0 1) rA1 c0_plain); reflexivity. Qed.

(* ... and stay so along the continuation rA2, with equal outcomes, views and tape lengths *)
Example demo_run : Forall2 (obs_rel) (run c0 (writer c0 rA1) rA2) (run c0 (reader c0 rA1) rA2) /\
  Sim c0 (final c0 (writer c0 rA1) rA2) (final c0 (reader c0 rA1) rA2).
Proof. apply (T19_run_sim c0 c0_plain); try reflexivity. apply demo_init. Qed.

(* the computed facts agree with what the theorems say *)
Example demo_facts :
  map ob_out (run c0 (reader c0 rA1) rA2) = map ob_out (run c0 (writer c0 rA1) rA2) /\
  map ob_view (run c0 (reader c0 rA1) rA2) = map ob_view (run c0 (writer c0 rA1) rA2) /\
  (* the reader's rebuild rows are exactly its index rows (T19_rebuilt_continuation_keeps_C01) *)
  (match rebuild c0 (tp (final c0 (reader c0 rA1) rA2)) with
   | (p, Ok _) => eqb_list eqb_row (rows p) (rows (db (final c0 (reader c0 rA1) rA2)))
   | _ => false end) = true.
Proof. vm_compute. repeat split; reflexivity. Qed.

(* any configuration: a codec suffix ".gz", names that end in it or contain LIKE wildcards, oracle-supplied header blocks
   and encoded sizes, Reopen in the continuation (T19Test.rC1 / rC2) *)
From STFS Require Import T19Cfg.
Example demo_any_config :
  let c := cfz ".gz" in
  map ob_out (run c (reader c rC1) rC2) = map ob_out (run c (writer c rC1) rC2) /\
  map ob_view (run c (reader c rC1) rC2) = map ob_view (run c (writer c rC1) rC2) /\
  map ob_blocks (run c (reader c rC1) rC2) = map ob_blocks (run c (writer c rC1) rC2) /\
  Forall2 rows_rel (map ob_rows (run c (writer c rC1) rC2)) (map ob_rows (run c (reader c rC1) rC2)) /\
  SimC c (final c (writer c rC1) rC2) (final c (reader c rC1) rC2).
Proof. apply (T19_rebuilt_instance_simulates_writer_any_config (cfz ".gz")); reflexivity. Qed.

Example demo_survive_any_config :
  let c := cfz ".gz" in
  let sr' := final c (reader c rC1) rC2 in
  let s2 := {| tp := tp sr'; db := p_empty; hbq := []; encq := []; clk := 0%Z |} in
  view c sr' = view c (final c (writer c rC1) rC2) /\
  snd (fs_initialize c s2 (s "/")) = OOk /\ tp (fst (fs_initialize c s2 (s "/"))) = tp sr' /\
  view c (fst (fs_initialize c s2 (s "/"))) = view c sr' /\
  exists p, rebuild c (tp sr') = (p, Ok tt) /\ rows p = rows (db sr').
Proof. apply (T19_written_after_opening_survive_rebuild_any_config (cfz ".gz")); reflexivity. Qed.
