(* T20 / Demo: the theorems applied to the C17_demo archive (their hypotheses are decidable there): a test of the
   statements. *)
From Coq Require Import String List NArith ZArith Bool.
Import ListNotations.
From STFS Require Import Str Db Tape Index Ops Fs Diff Norm C01Str C01Sim C01Ops C01Fs2 C01Rows
  T17Tree T17Forest T17Rebuild T17View T17Test T19Rel T19Test T19Main T20Twin T20Inv T20Main T20Test.
Open Scope string_scope.
Open Scope N_scope.

Lemma okc_s1 a : a <> dot -> a <> slash -> okc [a].
Proof.
  intros H1 H2. split; [discriminate|]. split; [intro E; injection E as E; congruence|]. split; [discriminate|].
  intros [E|[]]. apply H2. congruence.
Qed.

Lemma tdemo_wf : wf tdemo.
Proof.
  assert (Kd : okc (s "d")) by (apply okc_s1; discriminate).
  assert (Kf : okc (s "f")) by (apply okc_s1; discriminate).
  assert (Kg : okc (s "g")) by (apply okc_s1; discriminate).
  split; [cbn; discriminate|]. split.
  - constructor; [|constructor; [|constructor]].
    + constructor; [exact Kd|cbn; discriminate| |].
      * constructor; [|constructor]. constructor; [exact Kf|cbn; discriminate].
      * constructor; [intros []|constructor].
    + constructor; [exact Kg|cbn; discriminate].
  - cbn. constructor; [intros [E|[]]; discriminate|]. constructor; [intros []|constructor].
Qed.

Lemma cc_plain : plain (tcf 20). Proof. split; reflexivity. Qed.

Example demo_sim : Sim (tcf 20) (twin (tcf 20) DotSlash tdemo) (opened (tcf 20) (archive_of DotSlash tdemo)).
Proof. apply T20_foreign_sim; [exact cc_plain|reflexivity|exact I|reflexivity|exact tdemo_wf]. Qed.

(* the 18-call history hD of T20Test.v: Mkdir, Create with content, Chmod / Chown / Chtimes / WriteFile / Rename / RemoveAll
   of original members, Reopen, ... *)
Example demo_continuation :
  let c := tcf 20 in
  let sr' := final c (opened c (archive_of DotSlash tdemo)) hD in
  let sa' := final c (twin c DotSlash tdemo) hD in
  map ob_out (run c (opened c (archive_of DotSlash tdemo)) hD) = map ob_out (run c (twin c DotSlash tdemo) hD) /\
  view c sr' = view c sa' /\
  exists p, rebuild c (tp sr') = (p, Ok tt) /\ rows p = rows (db sr') /\ rows_rel (rows (db sa')) (rows (db sr')).
Proof.
  destruct (T20_foreign_continuation (tcf 20) DotSlash tdemo hD cc_plain eq_refl eq_refl I eq_refl tdemo_wf eq_refl eq_refl eq_refl)
    as (A & _ & _ & _ & B & _ & _ & C & _).
  split; [exact A|]. split; [exact B|exact C].
Qed.

(* the computed facts agree *)
Example demo_facts :
  let c := tcf 20 in
  eqb_list eqb_entry (view c (final c (opened c (archive_of DotSlash tdemo)) hD)) (view c (final c (twin c DotSlash tdemo) hD)) = true /\
  map (fun e => (e_path e, e_size e)) (view c (final c (opened c (archive_of DotSlash tdemo)) hD))
  = [(s "/", 0); (s "/g", 50); (s "/d", 0); (s "/d/f", 0)].
Proof. vm_compute. split; reflexivity. Qed.
