(* C04: for every history of calls, every index row (live or tombstoned) has block components below
   the record size, and both its content position and its last-known position are starts of members
   of the tape.  Second invariant: the content position never lies after the last-known position.

   No hypothesis on the environment oracle is needed (header block counts may even be 0): the FIRST
   item starting at the start of a member is always a member, because an item sharing its start
   with a later item has no blocks, whereas the trailer has two (C04Index.ws_first_member). *)
From Coq Require Import List NArith ZArith Bool Lia.
From Coq Require Import ZifyN ZifyBool.
Import ListNotations.
From STFS Require Import Str Db Tape Index Ops Fs Diff TapeLemmas C04Db C04Index C04Fs.
Open Scope N_scope.

Definition pos_wf (c : cfg) (s : sys) : Prop :=
  forall r, In r (rows (db s)) ->
    r_blk r < c_rs c /\ r_lkblk r < c_rs c /\
    (exists m, member_at (tp s) (off_of (c_rs c) (r_rec r) (r_blk r)) = Some m) /\
    (exists m, member_at (tp s) (off_of (c_rs c) (r_lkrec r) (r_lkblk r)) = Some m).

Lemma pos_wf_allP c s : pos_wf c s <-> allP (P1 (c_rs c) (tp s)) (rows (db s)).
Proof.
  unfold pos_wf, allP, rowP, P1, okpos. split; intros H r I; specialize (H r I); tauto.
Qed.

Lemma pos_wf_eqv c s s' : eqv s s' -> pos_wf c s -> pos_wf c s'.
Proof. intros [Ht Hr]. unfold pos_wf. rewrite Ht, Hr. auto. Qed.

Lemma pos_wf_append c s last ms hs (ow ini : bool) : 0 < c_rs c ->
  pos_wf c s -> pos_wf c (fst (append_and_index c s last ms hs ow ini)).
Proof. intros Hrs H. apply pos_wf_allP. apply append_and_index_P1; [exact Hrs|]. apply pos_wf_allP. exact H. Qed.

Lemma pos_wf_rebuild c s : 0 < c_rs c ->
  pos_wf c s -> pos_wf c (set_db s (fst (index_tape c (tp s) 0 0 None true false (db s)))).
Proof.
  intros Hrs H. apply pos_wf_allP. cbn [tp db set_db].
  apply index_tape_P1; [exact Hrs|]. apply pos_wf_allP. exact H.
Qed.

Theorem C04_pos_wf_step : forall c s k, 0 < c_rs c -> pos_wf c s -> pos_wf c (fst (step c s k)).
Proof.
  intros c s k Hrs. apply (step_Inv c (pos_wf c)).
  - apply pos_wf_eqv.
  - intros. apply pos_wf_append; assumption.
  - intros. apply pos_wf_rebuild; assumption.
Qed.

Lemma pos_wf_init c : pos_wf c init_sys.
Proof. intros r []. Qed.

Theorem C04_pos_wf_final : forall c h s, 0 < c_rs c -> pos_wf c s -> pos_wf c (final c s h).
Proof.
  intros c h s Hrs. apply (final_Inv c (pos_wf c)).
  - apply pos_wf_eqv.
  - intros. apply pos_wf_append; assumption.
  - intros. apply pos_wf_rebuild; assumption.
Qed.

Theorem C04_pos_wf_reachable : forall c h, 0 < c_rs c -> pos_wf c (final c init_sys h).
Proof. intros c h Hrs. apply C04_pos_wf_final; [exact Hrs|apply pos_wf_init]. Qed.

(* ---- the ordering part: content position <= last-known position, for every row *)

Definition pos_ord (c : cfg) (s : sys) : Prop :=
  forall r, In r (rows (db s)) ->
    off_of (c_rs c) (r_rec r) (r_blk r) <= off_of (c_rs c) (r_lkrec r) (r_lkblk r).

Lemma pos_ord_eqv c s s' : eqv s s' -> pos_ord c s -> pos_ord c s'.
Proof. intros [Ht Hr]. unfold pos_ord. rewrite Hr. auto. Qed.

Lemma pos_ord_append c s last ms hs (ow ini : bool) : 0 < c_rs c ->
  last = (if ow then (0, 0) else last_indexed (db s) (c_rs c)) ->
  pos_ord c s -> pos_ord c (fst (append_and_index c s last ms hs ow ini)).
Proof. intros Hrs El H. exact (append_and_index_Pord c s last ms hs ow ini Hrs El H). Qed.

Lemma pos_ord_rebuild c s : 0 < c_rs c ->
  pos_ord c (set_db s (fst (index_tape c (tp s) 0 0 None true false (db s)))).
Proof. intro Hrs. exact (rebuild_Pord c (tp s) (db s) Hrs). Qed.

Theorem C04_pos_ord_step : forall c s k, 0 < c_rs c -> pos_ord c s -> pos_ord c (fst (step c s k)).
Proof.
  intros c s k Hrs. apply (step_Inv c (pos_ord c)).
  - apply pos_ord_eqv.
  - intros. apply pos_ord_append; assumption.
  - intros. apply pos_ord_rebuild; assumption.
Qed.

Theorem C04_pos_ord_final : forall c h s, 0 < c_rs c -> pos_ord c s -> pos_ord c (final c s h).
Proof.
  intros c h s Hrs. apply (final_Inv c (pos_ord c)).
  - apply pos_ord_eqv.
  - intros. apply pos_ord_append; assumption.
  - intros. apply pos_ord_rebuild; assumption.
Qed.

Theorem C04_pos_ord_reachable : forall c h, 0 < c_rs c -> pos_ord c (final c init_sys h).
Proof. intros c h Hrs. apply C04_pos_ord_final; [exact Hrs|]. intros r []. Qed.

(* both together, in the shape the property is usually quoted *)
Corollary C04_reachable : forall c h r, 0 < c_rs c -> In r (rows (db (final c init_sys h))) ->
  r_blk r < c_rs c /\ r_lkblk r < c_rs c /\
  (exists m, member_at (tp (final c init_sys h)) (off_of (c_rs c) (r_rec r) (r_blk r)) = Some m) /\
  (exists m, member_at (tp (final c init_sys h)) (off_of (c_rs c) (r_lkrec r) (r_lkblk r)) = Some m) /\
  off_of (c_rs c) (r_rec r) (r_blk r) <= off_of (c_rs c) (r_lkrec r) (r_lkblk r).
Proof.
  intros c h r Hrs I.
  pose proof (C04_pos_wf_reachable c h Hrs r I) as [H1 [H2 [H3 H4]]].
  pose proof (C04_pos_ord_reachable c h Hrs r I) as H5. tauto.
Qed.

Print Assumptions C04_pos_wf_step.
Print Assumptions C04_pos_ord_reachable.
Print Assumptions C04_reachable.
Print Assumptions C04_pos_wf_reachable.
