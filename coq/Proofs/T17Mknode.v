(* T17 / Mknode: the state invariant [Live] of a foreign archive in use (index = members of a tree, contents on
   tape, index in step with the tape, rebuild of the tape = the index rows), and one mknode (the operation behind
   Mkdir and Create) under an existing directory: the new member is appended as the last member of that directory,
   every old member is kept, and the invariant - including "a rebuild gives the same rows" - holds again. *)
From Coq Require Import List NArith ZArith Bool Lia.
From Coq Require Import ZifyN ZifyBool.
Import ListNotations.
From STFS Require Import Str Db Tape Index Ops Fs TapeLemmas StrLemmas C01Str C01Db C01Inv C01Sim C01Tape C01Ops T04Def T04Tape
  T13Path T13ListStr T13List T13View T17Tree T17Str T17Forest T17Db T17Rebuild T17View T17Main T17Gen T17Insert T17Keep.
Open Scope N_scope.

Record Live (c : cfg) (st : style) (t : tree) (L : list (N * item)) (s : sys) : Prop := {
  lv_idx : GenIdx c st t L (db s);
  lv_data : GenData c st L (tp s);
  lv_sync : exists pre m, tp s = pre ++ [TM m; TT] /\ pos_items (tp s) /\
            lk_le (c_rs c) (rows (db s)) (tape_blocks pre) /\ In (pos_of (c_rs c) (tape_blocks pre)) (lks (rows (db s)));
  lv_reb : exists rb, rebuild c (tp s) = (rb, Ok tt) /\ rows rb = rows (db s) /\ root rb = [] }.

Lemma Live_db c st t L s s' : Live c st t L s -> keeps (db s) (db s') -> tp s' = tp s -> Live c st t L s'.
Proof.
  intros [A B C D] [Kr Kt] Et. split.
  - eapply GenIdx_same; eassumption.
  - rewrite Et. exact B.
  - rewrite Et, Kr. exact C.
  - rewrite Et, Kr. exact D.
Qed.

Lemma Live_settled c st t L s : wf_style st -> Live c st t L s -> settled (db s).
Proof.
  intros Hs [A _ _ _] E. apply (gen_foreign c st t L Hs (db s) A). rewrite <- (g_root _ _ _ _ _ A). exact E.
Qed.

(* ---------- the opened archive is live *)
Lemma istarts_le l : forall a x, In x (istarts a l) -> fst x + iblocks (snd x) <= a + fold_right (fun i s => iblocks i + s) 0 l.
Proof.
  induction l as [|i l IH]; intros a x H; [contradiction|]. cbn [istarts fold_right] in *. destruct H as [<-|H].
  - cbn [fst snd]. lia.
  - specialize (IH _ _ H). lia.
Qed.

Lemma lks_srow st rs L : lks (map (srow st rs) L) = map (fun x => pos_of rs (fst x)) L.
Proof.
  unfold lks. rewrite map_map. apply map_ext. intro x.
  change (r_lkrec (srow st rs x), r_lkblk (srow st rs x)) with (fst (pos_of rs (fst x)), snd (pos_of rs (fst x))).
  destruct (pos_of rs (fst x)); reflexivity.
Qed.

Lemma Live_opened c st t s : plain c -> 0 < c_rs c -> wf_style st -> wf t -> is_open c st t s ->
  Live c st t (istarts 0 (items t)) s.
Proof.
  intros HP Hrs Hs Hw [Ho Ht]. split.
  - apply opened_GenIdx; assumption.
  - rewrite Ht. apply opened_GenData; assumption.
  - destruct (exists_last (l := items t) ltac:(discriminate)) as (l0 & il & El).
    exists (tape_items st l0), (member_of_item st il).
    assert (Et : tp s = tape_items st l0 ++ [TM (member_of_item st il); TT]).
    { rewrite Ht. unfold archive_of. fold (tape_items st (items t)). rewrite El. unfold tape_items. rewrite map_app. cbn [map].
      rewrite <- app_assoc. reflexivity. }
    assert (Hb : forall i, In i (items t) -> 1 <= mt_hb (i_meta i)) by (intros i Hi; apply (items_hb t i Hw Hi)).
    split; [exact Et|]. split; [|split].
    + rewrite Ht. unfold archive_of. fold (tape_items st (items t)). apply Forall_app. split.
      * apply pos_items_items. exact Hb.
      * constructor; [cbn; lia|constructor].
    + destruct Ho as [Hrows _]. rewrite Hrows. unfold archive_rows. intros y Hy. rewrite lks_srow in Hy.
      apply in_map_iff in Hy as (x & <- & Hx). rewrite pos_of_roundtrip by exact Hrs.
      rewrite El, istarts_app in Hx. apply in_app_or in Hx as [Hx|Hx].
      * pose proof (istarts_le l0 0 x Hx). rewrite tape_blocks_items. lia.
      * cbn [istarts] in Hx. destruct Hx as [<-|[]]. cbn [fst]. rewrite tape_blocks_items. lia.
    + destruct Ho as [Hrows _]. rewrite Hrows. unfold archive_rows. rewrite lks_srow.
      apply in_map_iff. exists (0 + fold_right (fun i s => iblocks i + s) 0 l0, il). split.
      * cbn [fst]. rewrite tape_blocks_items. reflexivity.
      * rewrite El, istarts_app. apply in_or_app. right. left. reflexivity.
  - destruct (T17_rebuild_rows c st t HP Hs Hw) as (p & Hreb & Hrows & Hroot). exists p. rewrite Ht.
    split; [exact Hreb|]. split; [|exact Hroot]. destruct Ho as [Hr _]. rewrite Hr. exact Hrows.
Qed.

(* ---------- the header mknode writes and the row it becomes *)
Definition mk_meta (c : cfg) (perm : N) (now : Z) (hb : N) : meta :=
  {| mt_mode := perm_bits perm; mt_uid := c_uid c; mt_gid := c_gid c; mt_uname := c_uname c; mt_gname := c_gname c;
     mt_mtime := now; mt_atime := 0%Z; mt_ctime := 0%Z; mt_hb := hb |}.
Definition new_node (dir : bool) (nm : str) (mt : meta) : node := if dir then Dir nm mt [] else File nm mt [].

Lemma new_node_leaf dir nm mt : leaf (new_node dir nm mt).
Proof. destruct dir; cbn; [reflexivity|exact I]. Qed.
Lemma new_node_name dir nm mt : node_name (new_node dir nm mt) = nm.
Proof. destruct dir; reflexivity. Qed.
Lemma new_node_item q dir nm mt : item_of q (new_node dir nm mt) = {| i_path := q ++ [nm]; i_dir := dir; i_meta := mt; i_data := [] |}.
Proof. destruct dir; reflexivity. Qed.
Lemma new_node_wf dir nm mt : okc nm -> 1 <= mt_hb mt -> wf_node (new_node dir nm mt).
Proof. intros H1 H2. destruct dir; cbn; constructor; try assumption; constructor. Qed.

(* a name under which the filesystem may create q': it is stored as the relative cleaned name; under a named
   top (names are used as they are) it must be that name *)
Definition NameOk (st : style) (q' : list str) (name : str) : Prop :=
  rel_name name = stored_name st q' /\ match st with Named _ => name = stored_name st q' | _ => True end.

Lemma nameok_sanitize_live c st t L p q' name : wf_style st -> GenIdx c st t L p -> q' <> [] -> Forall okc q' ->
  NameOk st q' name -> snd (sanitize p name) = stored_name st q'.
Proof.
  intros Hs G Hn Hq [R1 R2]. destruct st as [| |top].
  - destruct (sanitize_foreign p name (gen_foreign c _ t L Hs p G eq_refl)) as (p' & E & _). rewrite E. exact R1.
  - destruct (sanitize_foreign p name (gen_foreign c _ t L Hs p G eq_refl)) as (p' & E & _). rewrite E. exact R1.
  - pose proof (g_root _ _ _ _ _ G) as Hr. cbn in Hr, Hs. rewrite sanitize_named by (rewrite Hr; exact Hs). cbn [snd].
    rewrite R2, Hr. unfold stored_name. cbn [stored_comps].
    assert (F : Forall okc (top :: q')) by (constructor; assumption).
    rewrite join_is_root by (exact F || discriminate). cbn [orb].
    replace (eqb_str (join_slash (top :: q')) top) with false; [reflexivity|].
    symmetry. apply eqb_str_neq. intro K. change top with (join_slash [top]) in K at 2.
    apply join_inj in K; [inversion K; contradiction|exact F|constructor; [exact Hs|constructor]].
Qed.

Lemma nameok_not_abs st q' name : wf_style st -> Forall okc q' -> NameOk st q' name -> is_abs name = true -> style_root st = [].
Proof.
  intros Hs Hq [_ R2] A. destruct st as [| |top]; try reflexivity. exfalso. rewrite R2 in A.
  unfold stored_name in A. rewrite join_not_abs in A; [discriminate|]. apply stored_okc; assumption.
Qed.

Lemma index_new_row c st L p p1 name q' dir perm now hb a :
  plain c -> wf_style st -> rows p = map (srow st (c_rs c)) L ->
  (forall x, In x L -> Forall okc (i_path (snd x))) -> Forall okc q' ->
  (forall x, In x L -> i_path (snd x) <> q') ->
  sanitize p name = (p1, stored_name st q') -> rows p1 = rows p ->
  index_header c (fst (pos_of (c_rs c) a)) (snd (pos_of (c_rs c) a)) (mknode_hdr c dir name [] perm now) false p
  = (with_rows p1 (rows p1 ++ [srow st (c_rs c) (a, {| i_path := q'; i_dir := dir; i_meta := mk_meta c perm now hb; i_data := [] |})]), Ok tt).
Proof.
  intros HP Hs Hrows Hok Hq Hfresh Hsan Hr1. rewrite index_header_plain by exact HP.
  unfold usz. cbn [mknode_hdr h_pax pax_get h_size].
  unfold ih_body, h_act. cbn [with_size_name mknode_hdr h_pax pax_get].
  change (negb (eqb_str V_1 V_1)) with false. change (eqb_str V_create V_create) with true. cbv iota.
  unfold upsert. cbn [row_of_hdr r_name h_name].
  change (h_name (with_size_name (mknode_hdr c dir name [] perm now) 0 (h_name (mknode_hdr c dir name [] perm now)))) with name.
  rewrite Hsan.
  match goal with |- context [has_key _ _ ?l] => change l with (@nil N) end.
  rewrite Hr1, Hrows.
  pose proof (has_key_fresh st (c_rs c) L (a, {| i_path := q'; i_dir := dir; i_meta := mk_meta c perm now hb; i_data := [] |}) Hs) as HK.
  cbn [snd i_path] in HK. rewrite HK.
  - unfold srow. cbn [fst snd]. destruct dir; reflexivity.
  - intros y [<-|Hy]; [exact Hq|apply Hok; exact Hy].
  - intro K. apply in_map_iff in K as (i & Ei & Hi). apply in_map_iff in Hi as (x & <- & Hx). exact (Hfresh x Hx Ei).
Qed.

(* ---------- one mknode *)
Section Mknode.
  Variables (c : cfg) (st : style) (t : tree) (L : list (N * item)) (s : sys).
  Hypothesis HP : plain c.
  Hypothesis Hrs : 0 < c_rs c.
  Hypothesis Hro : c_readonly c = false.
  Hypothesis Hst : wf_style st.
  Hypothesis Hwf : wf t.
  Hypothesis HL : Live c st t L s.
  Hypothesis Hhb : hbok s.
  Variables (q : list str) (nm : str) (ks0 : list node) (name : str) (dir : bool) (perm : N).
  Hypothesis Hl : lookup q (t_kids t) = Some ks0.
  Hypothesis Hnm : okc nm.
  Hypothesis Hfresh : ~ In nm (map node_name ks0).
  Hypothesis Hname : NameOk st (q ++ [nm]) name.

  Let hb := fst (pop_hb s).
  Let n := new_node dir nm (mk_meta c perm (clk s) hb).
  Let a := tape_blocks (tp s).

  Lemma mk_q_okc : Forall okc (q ++ [nm]).
  Proof. destruct (lookup_wf q _ _ (proj2 Hwf) Hl) as [_ Hq]. apply Forall_app. split; [exact Hq|constructor; [exact Hnm|constructor]]. Qed.

  Lemma mk_fresh_path : forall x, In x L -> i_path (snd x) <> q ++ [nm].
  Proof.
    intros x Hx E. apply Hfresh.
    pose proof (g_kids _ _ _ _ _ (lv_idx _ _ _ _ _ HL) q) as C. rewrite (children_items t q ks0 Hwf Hl) in C.
    assert (K : In (snd x) (map snd (filter (fun x => childb q (i_path (snd x))) L))).
    { apply in_map. apply filter_In. split; [exact Hx|]. rewrite E. apply childb_snoc. }
    rewrite C in K. apply in_map_iff in K as (k & Ek & Hk). rewrite <- Ek in E. cbn [item_of i_path] in E.
    apply app_inj_tail in E as [_ E]. rewrite <- E. apply in_map. exact Hk.
  Qed.

  Theorem mknode_live :
    exists s', mknode c s dir name perm false [] false = (s', OOk) /\
               Live c st (tinsert q n t) (L ++ [(a, item_of q n)]) s' /\ hbok s' /\
               tp s' = tp s ++ [TM {| m_hdr := mknode_hdr c dir name [] perm (clk s); m_hb := hb; m_data := None; m_enc := 0 |}; TT] /\
               clk s' = clk s.
  Proof.
    pose proof HL as [Gi Gd (pre & m0 & Et & Hpos & Hle & Hlast) (rb & Hreb & Hrbrows & Hrbroot)].
    pose proof (Live_settled c st t L s Hst HL) as Hset.
    pose proof mk_q_okc as Hq'. pose proof mk_fresh_path as Hfp.
    unfold mknode. rewrite Hro. unfold archive_op. cbn [archive_members f_hdr f_data].
    set (h := mknode_hdr c dir name [] perm (clk s)).
    assert (Esz : is_reg h && (0 <? h_size h) = false) by (cbn; apply andb_false_r).
    rewrite Esz. unfold mk_member.
    destruct (pop_hb_spec s Hhb) as (Hb0 & Htp1 & Hdb1 & Hhb1). fold hb in Hb0.
    assert (Hclk1 : clk (snd (pop_hb s)) = clk s) by (unfold pop_hb; destruct (hbq s); reflexivity).
    rewrite (surjective_pairing (pop_hb s)). fold hb. set (s1 := snd (pop_hb s)) in *.
    set (m := {| m_hdr := h; m_hb := hb; m_data := None; m_enc := 0 |}).
    unfold append_and_index. cbn [map]. rewrite Htp1, Hdb1.
    (* the replay starts at the last indexed member *)
    assert (Eoff : off_of (c_rs c) (fst (last_indexed (db s) (c_rs c))) (snd (last_indexed (db s) (c_rs c))) = tape_blocks pre).
    { apply (last_indexed_max (c_rs c) (db s) (tape_blocks pre) (pos_of (c_rs c) (tape_blocks pre)) Hle Hlast).
      apply pos_of_roundtrip. exact Hrs. }
    rewrite Eoff.
    assert (Hpre : pos_items pre). { rewrite Et in Hpos. apply Forall_app in Hpos as [Hp _]. exact Hp. }
    rewrite Et. change ([TM m] ++ [TT]) with (new_items [m]).
    pose proof (live_replay c pre m0 [m] (db s) Hpre) as LR. cbn [map m_hdr] in LR. cbn [m_hdr m] in LR.
    rewrite LR. clear LR. rewrite <- ?Et. cbn [mstarts hd_of map fst snd m_hdr m loop0]. fold a.
    (* live side *)
    pose proof (nameok_sanitize_live c st t L (db s) (q ++ [nm]) name Hst Gi ltac:(destruct q; discriminate) Hq' Hname) as Hsan.
    pose proof (sanitize_keeps (db s) name Hset) as [Kr Kt].
    destruct (sanitize (db s) name) as [p1 n1] eqn:Esan. cbn [fst snd] in Hsan, Kr, Kt. subst n1.
    unfold h at 1. rewrite (index_new_row c st L (db s) p1 name (q ++ [nm]) dir perm (clk s) hb a HP Hst (g_rows _ _ _ _ _ Gi)
               (g_okc _ _ _ _ _ Gi) Hq' Hfp Esan Kr).
    eexists. split; [reflexivity|]. cbn [tp db hbq clk]. split; [|split; [exact Hhb1|split; [reflexivity|]]].
    2:{ exact Hclk1. }
    assert (Ein : item_of q n = {| i_path := q ++ [nm]; i_dir := dir; i_meta := mk_meta c perm (clk s) hb; i_data := [] |})
      by apply new_node_item.
    assert (Erows : rows p1 ++ [srow st (c_rs c) (a, {| i_path := q ++ [nm]; i_dir := dir; i_meta := mk_meta c perm (clk s) hb; i_data := [] |})]
                    = map (srow st (c_rs c)) (L ++ [(a, item_of q n)]))
      by (rewrite Kr, (g_rows _ _ _ _ _ Gi), map_app, Ein; reflexivity).
    assert (Wn : wf_node n) by (apply new_node_wf; [exact Hnm|cbn [mk_meta mt_hb]; lia]).
    assert (Fn : ~ In (node_name n) (map node_name ks0)) by (unfold n; rewrite new_node_name; exact Hfresh).
    split.
    - (* the index *)
      cbn [db]. split.
      + intros x Hx. apply in_app_or in Hx as [Hx|[<-|[]]]; [apply (g_okc _ _ _ _ _ Gi); exact Hx|].
        cbn [snd]. rewrite Ein. exact Hq'.
      + rewrite !map_app. cbn [map snd]. rewrite Ein. cbn [i_path].
        apply NoDup_app_intro; [exact (g_nd _ _ _ _ _ Gi)|constructor; [intros []|constructor]|].
        intros pth0 Hp [<-|[]]. apply in_map_iff in Hp as (i & Ei & Hi). apply in_map_iff in Hi as (x & <- & Hx). exact (Hfp x Hx Ei).
      + destruct (g_top _ _ _ _ _ Gi) as (a0 & Ha0). exists a0. apply in_or_app. left. exact Ha0.
      + intro q0. rewrite filter_app, map_app. rewrite (g_kids _ _ _ _ _ Gi q0).
        rewrite <- (tinsert_children q n t ks0 q0 (new_node_leaf _ _ _) Hwf Hl). f_equal.
        cbn [filter snd item_of i_path]. destruct (childb q0 (q ++ [node_name n])); reflexivity.
      + cbn [with_rows rows]. exact Erows.
      + cbn [with_rows root]. rewrite Kt. exact (g_root _ _ _ _ _ Gi).
    - (* contents *)
      cbn [tp]. intros x Hx Hd. apply in_app_or in Hx as [Hx|[<-|[]]].
      + pose proof (Gd x Hx Hd) as F. rewrite <- ?Et.
        assert (exists m', member_at (tp s) (off_of (c_rs c) (r_rec (srow st (c_rs c) x)) (r_blk (srow st (c_rs c) x))) = Some m') as (m' & Hm').
        { unfold fetch_at in F. destruct (member_at (tp s) _) as [m'|]; [exists m'; reflexivity|discriminate]. }
        rewrite (fetch_at_app c (tp s) _ _ _ m' Hm'). exact F.
      + rewrite <- ?Et. cbn [snd] in Hd |- *. rewrite Ein in Hd |- *. cbn [i_dir i_data] in *.
        change (r_rec (srow st (c_rs c) (a, _))) with (fst (pos_of (c_rs c) a)).
        change (r_blk (srow st (c_rs c) (a, _))) with (snd (pos_of (c_rs c) a)).
        exact (fetch_at_new c (tp s) m [TT] Hrs Hpos).
    - (* in step with the tape *)
      cbn [tp db]. exists (tp s), m. rewrite <- ?Et. split; [reflexivity|]. split; [|split].
      + apply Forall_app. split; [exact Hpos|]. constructor; [cbn; lia|constructor; [cbn; lia|constructor]].
      + cbn [with_rows rows]. rewrite Erows. intros y Hy. rewrite lks_srow in Hy.
        apply in_map_iff in Hy as (x & <- & Hx). rewrite pos_of_roundtrip by exact Hrs.
        apply in_app_or in Hx as [Hx|[<-|[]]]; [|cbn [fst]; unfold a; lia].
        assert (In (pos_of (c_rs c) (fst x)) (lks (rows (db s)))).
        { rewrite (g_rows _ _ _ _ _ Gi), lks_srow. apply in_map_iff. exists x. split; [reflexivity|exact Hx]. }
        pose proof (Hle _ H) as Hle'. rewrite pos_of_roundtrip in Hle' by exact Hrs.
        rewrite Et, tape_blocks_app. lia.
      + cbn [with_rows rows]. rewrite Erows, lks_srow.
        apply in_map_iff. exists (a, item_of q n). split; [reflexivity|]. apply in_or_app. right. left. reflexivity.
    - (* a rebuild of the new tape gives the new rows *)
      cbn [tp db]. rewrite <- ?Et. change ([TM m; TT]) with (new_items [m]). rewrite rebuild_extend, Hreb.
      cbn [mstarts hd_of map fst snd m_hdr m loop0]. fold a.
      destruct (sanitize_empty_root rb name Hrbroot) as (rb1 & Hs1 & Hr1 & Ht1).
      { intros _ A _. pose proof (nameok_not_abs st _ name Hst Hq' Hname A) as Er.
        destruct (gen_foreign c st t L Hst (db s) Gi Er) as [_ Hex]. unfold exists_exact in *. rewrite Hrbrows. exact Hex. }
      destruct Hname as [R1 _]. rewrite R1 in Hs1.
      unfold h at 1. rewrite (index_new_row c st L rb rb1 name (q ++ [nm]) dir perm (clk s) hb a HP Hst
                 (eq_trans Hrbrows (g_rows _ _ _ _ _ Gi)) (g_okc _ _ _ _ _ Gi) Hq' Hfp Hs1 Hr1).
      eexists. split; [reflexivity|]. cbn [with_rows rows root]. split; [|exact Ht1].
      rewrite Hr1, Hrbrows, Kr. reflexivity.
  Qed.
End Mknode.
