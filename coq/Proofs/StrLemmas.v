(* String facts behind C12 / C13: LIKE versus exact prefix, component prefixes. *)
From Coq Require Import String List NArith ZArith Bool Lia.
Import ListNotations.
From STFS Require Import Str Db.
Open Scope N_scope.

Lemma lower_refl c : (lower c =? lower c) = true.
Proof. apply N.eqb_refl. Qed.

Lemma sql_like_pct_cons pat c x :
  sql_like (pct :: pat) (c :: x) = sql_like pat (c :: x) || sql_like (pct :: pat) x.
Proof. reflexivity. Qed.
Lemma sql_like_pct_nil pat : sql_like (pct :: pat) [] = sql_like pat [] || false.
Proof. reflexivity. Qed.

(* % matches the empty string *)
Lemma sql_like_pct_skip pat x : sql_like pat x = true -> sql_like (pct :: pat) x = true.
Proof.
  intro H. destruct x as [|c x].
  - rewrite sql_like_pct_nil, H. reflexivity.
  - rewrite sql_like_pct_cons, H. reflexivity.
Qed.

(* x LIKE '%' for every x *)
Lemma like_pct_any x : sql_like [pct] x = true.
Proof.
  induction x as [|c x IH]; [reflexivity|]. rewrite sql_like_pct_cons, IH. apply orb_true_r.
Qed.

Lemma sql_like_lit_cons a pat c x : (a =? pct) = false ->
  sql_like (a :: pat) (c :: x) = ((a =? usc) || (lower a =? lower c)) && sql_like pat x.
Proof. intro H. cbn [sql_like]. rewrite H. reflexivity. Qed.

(* an exact prefix match implies the LIKE match of <prefix>% : the SQL pre-filter never loses a child *)
Lemma like_of_prefix p : forall x, has_prefix p x = true -> sql_like (p ++ [pct]) x = true.
Proof.
  induction p as [|a p IH]; intros x H.
  - cbn [app]. apply like_pct_any.
  - destruct x as [|b x]; cbn in H; [discriminate|].
    apply andb_true_iff in H as [Hab Hp]. apply N.eqb_eq in Hab; subst b.
    cbn [app].
    destruct (a =? pct) eqn:Ea.
    + (* the prefix itself contains a % : let it match the empty string *)
      apply N.eqb_eq in Ea; subst a.
      rewrite sql_like_pct_cons. rewrite (sql_like_pct_skip _ _ (IH x Hp)). apply orb_true_r.
    + rewrite (sql_like_lit_cons _ _ _ _ Ea), lower_refl, orb_true_r. cbn. apply IH. exact Hp.
Qed.

(* ... so GetHeaderChildren is exactly "live rows below the directory prefix, except the directory itself" *)
Lemma get_children_spec p name r :
  let '(p', n) := sanitize p name in
  let prefix := trim_suffix [slash] n ++ [slash] in
  In r (snd (get_children p name)) <->
  (In r (rows p') /\ live r = true /\ has_prefix prefix (r_name r) = true /\ not_self n r = true).
Proof.
  unfold get_children. destruct (sanitize p name) as [p' n]. cbn [snd].
  rewrite filter_In. split.
  - intros [Hin H]. repeat (apply andb_true_iff in H as [H ?]). repeat split; assumption.
  - intros (Hin & Hl & Hp & Hs). split; [exact Hin|].
    rewrite Hl, Hp, Hs. rewrite (like_of_prefix _ _ Hp). reflexivity.
Qed.

(* the raw LIKE over-matches: `_`, `%` and ASCII case (the defect fixed by the exact-prefix filter) *)
Open Scope string_scope.
Example like_underscore_overmatch :
  sql_like (s "/a_/%") (s "/ab/x") = true /\ has_prefix (s "/a_/") (s "/ab/x") = false.
Proof. split; reflexivity. Qed.
Example like_percent_overmatch :
  sql_like (s "/a%/%") (s "/abc/d/x") = true /\ has_prefix (s "/a%/") (s "/abc/d/x") = false.
Proof. split; reflexivity. Qed.
Example like_case_overmatch :
  sql_like (s "/a/%") (s "/A/x") = true /\ has_prefix (s "/a/") (s "/A/x") = false.
Proof. split; reflexivity. Qed.
Close Scope string_scope.

(* has_prefix basics *)
Lemma has_prefix_app p x : has_prefix p (p ++ x) = true.
Proof. induction p as [|a p IH]; cbn; [reflexivity|]. now rewrite N.eqb_refl, IH. Qed.

Lemma has_prefix_split p x : has_prefix p x = true -> exists y, x = p ++ y.
Proof.
  revert x. induction p as [|a p IH]; intros x H; [exists x; reflexivity|].
  destruct x as [|b x]; cbn in H; [discriminate|].
  apply andb_true_iff in H as [Hab Hp]. apply N.eqb_eq in Hab; subst b.
  destruct (IH x Hp) as [y ->]. exists y. reflexivity.
Qed.

Lemma has_prefix_trans p q x : has_prefix p q = true -> has_prefix q x = true -> has_prefix p x = true.
Proof.
  intros H1 H2. destruct (has_prefix_split _ _ H1) as [y ->]. destruct (has_prefix_split _ _ H2) as [z ->].
  rewrite <- app_assoc. apply has_prefix_app.
Qed.

(* the depth expression counts the slashes left after removing the prefix; removing only the leading
   occurrence and every occurrence differ (the phantom-child defect fixed by the Go-side re-check) *)
Open Scope string_scope.
Example depth_phantom :
  sql_depth (s "/a/x/a/y") (s "/a/") = sql_depth (s "/a/y") (s "/a/") /\ slash_count (trim_prefix (s "/a/") (s "/a/x/a/y")) = 2
  /\ is_direct_child (s "/a/") (s "/a/x/a/y") = false.
Proof. vm_compute. repeat split; reflexivity. Qed.
Close Scope string_scope.

(* is_direct_child = "starts with the prefix and has no further separator (bar a trailing one)" *)
Lemma direct_child_prefix prefix n : prefix <> [] -> is_direct_child prefix n = true -> has_prefix prefix n = true.
Proof. intros Hp H. destruct prefix; [contradiction|]. cbn in H. apply andb_true_iff in H as [H _]. exact H. Qed.
