(* T23 / Counter: what the hypotheses of the T23 theorems exclude, as compiled facts about the model.
   Archive (the C17-style one):  top/  top/d/  top/d/f (700 bytes)  top/g (10 bytes), opened by the raw STFS (no base-path
   layer: the documented composition afero.BasePathFs(stfs, "top") hands STFS the names "top/..." and never any other).

   (1) A NAME THAT IS NOT BELOW "top"  (Mkdir "other", or Mkdir "/other"): under the cached root "top" getSanitizedPath
       returns the name unchanged, its parent "." (or "/") resolves to the root row, so the call SUCCEEDS and stores a row
       "other" ("/other") BESIDE the tree: it is in the index, it survives a rebuild, but no walk from "top" shows it.  On
       the twin (and on the "./" or "/" archive of the same tree) Mkdir "/other" shows "/other".  Excluded by
       [named_call]: every name is "top" or "top/q".
   (2) A NAME THAT LEAVES "top" THROUGH ".."  (Mkdir "top/../n"): path.Clean gives "n", stored beside the tree as in (1);
       the twin's "/../n" cleans to "/n" and is visible.  Excluded by [named_call] (cleaned names).
   (3) NOT COVERED, BUT AGREEING on this input (evidence only): uncleaned names that stay below "top" ("top/d/../n" against
       "/d/../n", "top/d/" against "/d/") give the same outcome and the same tree; removing "top" itself (RemoveAll "top"
       against RemoveAll "/") and renaming onto it (Rename "top/d" "top" against Rename "/d" "/") return the same outcomes
       here - they are excluded because the twin's C01 invariant (root row live and first) does not survive them
       (Proofs/C01Counter.v, Proofs/T19Counter.v). *)
From Coq Require Import String List NArith ZArith Bool.
Import ListNotations.
From STFS Require Import Str Db Tape Index Ops Fs Diff Norm T17Tree T17Forest T17Rebuild T17Test T19Test T20Twin T20Test T23Rel T23Main.
Open Scope N_scope.
Open Scope string_scope.

Definition kc : cfg := tcf 20.
Definition ktop : str := s "top".
Definition kn : sys := opened kc (archive_of (Named ktop) tdemo).
Definition ka : sys := twin kc Slash tdemo.
Definition shown (st : sys) : list str := map e_path (view_at kc st ktop).
Definition rebuilt_names (st : sys) : list str := map r_name (rows (fst (rebuild kc (tp st)))).

(* (1) *)
Example T23_counter_outside_top :
  let '(s1, o1) := step kc (with_env kn (e0 2)) (CMkdir (s "other") 493) in
  let '(s2, o2) := step kc (with_env kn (e0 2)) (CMkdir (s "/other") 493) in
  let '(s3, o3) := step kc (with_env ka (e0 2)) (CMkdir (s "/other") 493) in
  named_call ktop (CMkdir (s "other") 493) = false /\ named_call ktop (CMkdir (s "/other") 493) = false
  /\ o1 = OOk /\ o2 = OOk /\ o3 = OOk
  /\ map r_name (rows (db s1)) = [s "top"; s "top/d"; s "top/d/f"; s "top/g"; s "other"]
  /\ rebuilt_names s1 = [s "top"; s "top/d"; s "top/d/f"; s "top/g"; s "other"]
  /\ map r_name (rows (db s2)) = [s "top"; s "top/d"; s "top/d/f"; s "top/g"; s "/other"]
  /\ shown s1 = [s "top"; s "top/d"; s "top/d/f"; s "top/g"]
  /\ shown s2 = [s "top"; s "top/d"; s "top/d/f"; s "top/g"]
  /\ map e_path (view kc s3) = [s "/"; s "/d"; s "/d/f"; s "/g"; s "/other"].
Proof. vm_compute. repeat split; reflexivity. Qed.

(* (2) *)
Example T23_counter_dotdot :
  let '(s1, o1) := step kc (with_env kn (e0 2)) (CMkdir (s "top/../n") 493) in
  let '(s3, o3) := step kc (with_env ka (e0 2)) (CMkdir (s "/../n") 493) in
  named_call ktop (CMkdir (s "top/../n") 493) = false
  /\ o1 = OOk /\ o3 = OOk
  /\ map r_name (rows (db s1)) = [s "top"; s "top/d"; s "top/d/f"; s "top/g"; s "n"]
  /\ shown s1 = [s "top"; s "top/d"; s "top/d/f"; s "top/g"]
  /\ map e_path (view kc s3) = [s "/"; s "/d"; s "/d/f"; s "/g"; s "/n"].
Proof. vm_compute. repeat split; reflexivity. Qed.

(* (3) evidence only *)
Definition agree (kn_call ka_call : call) : bool :=
  let '(s1, o1) := step kc (with_env kn (e0 2)) kn_call in
  let '(s3, o3) := step kc (with_env ka (e0 2)) ka_call in
  eqb_outc o1 o3 && eqb_list eqb_entry (view_at kc s1 ktop) (map (ren_entry ktop) (view kc s3)).
Example T23_evidence_uncleaned :
  agree (CMkdir (s "top/d/../n") 493) (CMkdir (s "/d/../n") 493) = true
  /\ agree (CMkdir (s "top/d/") 493) (CMkdir (s "/d/") 493) = true
  /\ agree (CCreateFile (s "top//d/./h") [(5, 0, 9)]) (CCreateFile (s "//d/./h") [(5, 0, 9)]) = true
  /\ agree (CRemoveAll (s "top")) (CRemoveAll (s "/")) = true
  /\ agree (CRename (s "top/d") (s "top")) (CRename (s "/d") (s "/")) = true.
Proof. vm_compute. repeat split; reflexivity. Qed.
