(* C01 / operations: Delete and Move (several members per archive). *)
From Coq Require Import List NArith ZArith Bool Lia.
From Coq Require Import ZifyN ZifyBool.
Import ListNotations.
From STFS Require Import Str Db Tape Index Ops Fs Norm TapeLemmas C01Str C01Db C01Inv C01Sim C01Tape C01Hdr C01Ops.
Open Scope N_scope.

(* ---------- reads of the live index leave it alone *)
Lemma gh_link_none hr lv n : LI hr lv -> get_header_by_linkname lv n = (lv, NoRows).
Proof.
  intro HL. unfold get_header_by_linkname.
  pose proof (sanitize_root_fst lv n (li_root hr lv HL)) as E1.
  pose proof (sanitize_root_snd lv n (li_root hr lv HL)) as E2.
  destruct (sanitize lv n) as [p1 l]. cbn [fst snd] in *. subst p1.
  assert (E : filter (fun r => live r && eqb_str (r_link r) l) (rows lv) = []).
  { assert (H : Forall rowok (rows lv)) by apply HL.
    induction (rows lv) as [|x t IH]; cbn; [reflexivity|]. inversion H as [|? ? Hx Ht]; subst.
    destruct Hx as (_ & Hk & _). rewrite Hk.
    assert (El : eqb_str [] l = false) by (apply eqb_str_neq; congruence). rewrite El, andb_false_r. apply IH. exact Ht. }
  rewrite E. reflexivity.
Qed.

Lemma lookup_entry_lv hr lv n : LI hr lv -> good n ->
  lookup_entry lv n = (lv, match find_rows (rows lv) n with Some r => Ok r | None => NoRows end).
Proof.
  intros HL G. unfold lookup_entry. rewrite (get_header_lv hr lv n HL G).
  destruct (find_rows (rows lv) n); [reflexivity|]. eapply gh_link_none. exact HL.
Qed.

Definition kid_filter (name : str) (r : row) : bool :=
  live r && sql_like ((trim_suffix [slash] name ++ [slash]) ++ [pct]) (r_name r)
  && has_prefix (trim_suffix [slash] name ++ [slash]) (r_name r) && not_self name r.

Lemma get_children_lv hr lv name : LI hr lv -> good name ->
  get_children lv name = (lv, filter (kid_filter name) (rows lv)).
Proof.
  intros HL G. unfold get_children. rewrite (sanitize_lv hr lv name HL G). reflexivity.
Qed.

(* for any directory name, the root included: children are live and differ from the directory *)
Lemma kid_filter_basic name x : good name -> kid_filter name x = true -> live x = true /\ r_name x <> name.
Proof.
  intros G H. unfold kid_filter in H.
  apply andb_true_iff in H as [H H4]. apply andb_true_iff in H as [H H3]. apply andb_true_iff in H as [H1 _].
  split; [exact H1|]. intro E. unfold not_self in H4. rewrite E in H4.
  destruct (eqb_str name [slash]) eqn:En.
  - apply eqb_str_eq in En. rewrite En in H4. vm_compute in H4. discriminate.
  - apply eqb_str_neq in En. rewrite (good_trim_slash name G En) in H4. rewrite eqb_str_refl in H4. discriminate.
Qed.

Lemma kid_filter_facts name x : good name -> name <> [slash] -> good (r_name x) -> kid_filter name x = true ->
  live x = true /\ has_prefix (name ++ [slash]) (r_name x) = true /\ r_name x <> name.
Proof.
  intros G Hn Gx H. unfold kid_filter in H. rewrite (good_trim_slash name G Hn) in H.
  apply andb_true_iff in H as [H H4]. apply andb_true_iff in H as [H H3]. apply andb_true_iff in H as [H1 _].
  split; [exact H1|]. split; [exact H3|].
  intro E. unfold not_self in H4. rewrite E in H4. rewrite (good_trim_slash name G Hn) in H4.
  rewrite eqb_str_refl in H4. discriminate.
Qed.

Lemma nonroot_of_prefix name z : name <> [] -> has_prefix (name ++ [slash]) z = true -> z <> [slash].
Proof.
  intros Hn H E. subst z. apply has_prefix_length in H. rewrite app_length in H. cbn in H.
  destruct name; [contradiction|]. cbn in H. lia.
Qed.

(* ---------- Delete *)
Section Del.
Variable hr : bool.
Variable c : cfg.
Hypothesis HP : plain c.
Hypothesis Hrs : 0 < c_rs c.

Definition Qdelete (hs : list hdr) (lv : pstate) : Prop :=
  Forall (fun h => hnames_ok hr h /\ ver_ok h /\ h_act h = V_delete /\ live_name (rows lv) (h_name h) = true) hs
  /\ NoDup (map h_name hs).

Lemma Qdelete_step rec blk h rest lv : LI hr lv -> Qdelete (h :: rest) lv ->
  exists lv', index_header c rec blk h false lv = (lv', Ok tt) /\ In (rec, blk) (lks (rows lv')) /\ Qdelete rest lv'.
Proof.
  intros HL [HQ Hnd]. inversion HQ as [|? ? (A & B & C & D) Hr]; subst.
  cbn [map] in Hnd. inversion Hnd as [|? ? Hnotin Hnd']; subst.
  destruct (live_delete hr c rec blk h lv HP HL A B C D) as (lv' & E & St & Fr).
  exists lv'. split; [exact E|]. split; [exact St|]. split; [|exact Hnd'].
  apply Forall_forall. intros h' Hh'. rewrite Forall_forall in Hr. destruct (Hr h' Hh') as (A' & B' & C' & D').
  split; [exact A'|]. split; [exact B'|]. split; [exact C'|].
  rewrite Fr; [exact D'|]. intro K. apply Hnotin. rewrite <- K. apply in_map. exact Hh'.
Qed.

Lemma delete_hdrs_eq (l : list row) :
  map (fun x => let h := hdr_of_row x in
                with_size_name (set_pax h (pax_set K_action V_delete (pax_set K_version V_1 (h_pax h)))) 0 (h_name h)) l
  = map del_hdr l.
Proof. reflexivity. Qed.

Lemma delete_ok s name : Inv hr c s -> hbok s -> good name -> (hr = true -> name <> [slash]) ->
  exists s' o, delete_op c s name = (s', o) /\ Inv hr c s' /\ hbok s'.
Proof.
  intros HI Hhb G Hn. pose proof (iv_li hr c s HI) as HL. unfold delete_op.
  rewrite (lookup_entry_lv hr (db s) name HL G).
  destruct (find_rows (rows (db s)) name) as [r|] eqn:Ef.
  2:{ eexists _, _. split; [reflexivity|]. rewrite set_db_same. split; assumption. }
  destruct (find_rows_some _ _ _ Ef) as (Hin & Hlive & Hrn).
  assert (Hrows : Forall rowok (rows (db s))) by apply HL.
  assert (KK : exists kids,
    (if (r_tf r =? TypeDir) && eqb_str (r_link r) [] then get_children (db s) name else (db s, [])) = (db s, kids) /\
    Forall (fun x => In x (rows (db s)) /\ kid_filter name x = true) kids /\ NoDup (map r_name kids)).
  { destruct ((r_tf r =? TypeDir) && eqb_str (r_link r) []).
    - rewrite (get_children_lv hr (db s) name HL G). eexists. split; [reflexivity|]. split.
      + apply Forall_forall. intros x Hx. apply filter_In in Hx. exact Hx.
      + apply NoDup_map_filter. apply HL.
    - exists []. split; [reflexivity|]. split; constructor. }
  destruct KK as (kids & -> & Hkids & Hnd).
  rewrite delete_hdrs_eq. rewrite set_db_same.
  destruct (plain_members_spec (map del_hdr (r :: kids)) s Hhb) as (A & B & T1 & T2 & T3).
  destruct (plain_members s (map del_hdr (r :: kids))) as [ms s1]. cbn [fst snd] in *.
  assert (HI1 : Inv hr c s1) by (eapply Inv_ext; eassumption).
  assert (HkidF : Forall (fun x => In x (rows (db s)) /\ rowok x /\ live x = true /\ r_name x <> name) kids).
  { apply Forall_forall. intros x Hx. rewrite Forall_forall in Hkids. destruct (Hkids x Hx) as (Hxin & Hxf).
    rewrite Forall_forall in Hrows. pose proof (Hrows x Hxin) as Hok.
    destruct (kid_filter_basic name x G Hxf) as (L1 & L3). exact (conj Hxin (conj Hok (conj L1 L3))). }
  assert (Hkid_nonroot : forall x, In x kids -> r_name x <> [slash]).
  { intros x Hx. rewrite Forall_forall in Hkids. destruct (Hkids x Hx) as (Hxin & Hxf).
    rewrite Forall_forall in HkidF. destruct (HkidF x Hx) as (_ & Hok & _ & Hne).
    destruct (eqb_str name [slash]) eqn:En.
    - apply eqb_str_eq in En. congruence.
    - apply eqb_str_neq in En. destruct (kid_filter_facts name x G En (proj1 Hok) Hxf) as (_ & L2 & _).
      eapply nonroot_of_prefix; [|exact L2]. apply good_nonempty. exact G. }
  assert (Hall : Forall (fun x => rowok x /\ (hr = true -> r_name x <> [slash]) /\ live x = true) (r :: kids)).
  { constructor.
    - rewrite Forall_forall in Hrows. split; [apply Hrows; exact Hin|]. split; [rewrite Hrn; exact Hn|exact Hlive].
    - apply Forall_forall. intros x Hx. rewrite Forall_forall in HkidF. destruct (HkidF x Hx) as (_ & Hok & Hl & _).
      split; [exact Hok|]. split; [intros _; apply Hkid_nonroot; exact Hx|exact Hl]. }
  assert (Hnd2 : NoDup (map r_name (r :: kids))).
  { cbn [map]. constructor; [|exact Hnd]. intro K. apply in_map_iff in K as (x & Ex & Hx).
    rewrite Forall_forall in HkidF. destruct (HkidF x Hx) as (_ & _ & _ & L3). congruence. }
  destruct (append_ok hr c HP Hrs Qdelete Qdelete_step s1 ms HI1) as (lv' & E1 & HI' & _).
  { intro K. subst ms. discriminate. }
  { exact B. }
  { rewrite A. apply Forall_forall. intros h Hh. apply in_map_iff in Hh as (x & <- & Hx).
    rewrite Forall_forall in Hall. destruct (Hall x Hx) as (K1 & K2 & _). apply del_hdr_ok; assumption. }
  { rewrite A. split.
    - apply Forall_forall. intros h Hh. apply in_map_iff in Hh as (x & <- & Hx).
      rewrite Forall_forall in Hall. destruct (Hall x Hx) as (K1 & K2 & K3).
      destruct (del_hdr_ok hr x K1 K2) as (D1 & D2 & D3 & D4). split; [exact D1|]. split; [exact D2|]. split; [exact D3|].
      rewrite D4, T2. unfold live_name. apply existsb_exists. exists x. split.
      + destruct Hx as [<-|Hx]; [exact Hin|]. rewrite Forall_forall in Hkids. apply (Hkids x Hx).
      + rewrite K3, eqb_str_refl. reflexivity.
    - rewrite map_map. exact Hnd2. }
  { intros rb B0 HR. rewrite T2 in HR |- *.
    assert (Ems : map m_hdr ms = map del_hdr (r :: kids)) by exact A.
    destruct kids as [|k0 kids'].
    - destruct ms as [|m0 [|m1 ms']]; try discriminate. cbn. cbn in Ems. inversion Ems as [Em0].
      destruct (eqb_str name [slash]) eqn:En.
      + apply eqb_str_eq in En. right. right. rewrite Em0. split; [rewrite del_hdr_name; congruence|].
        intro Hu. assert (Hrok : rowok r) by (rewrite Forall_forall in Hrows; apply Hrows; exact Hin).
        destruct (del_hdr_ok hr r Hrok ltac:(rewrite Hrn; exact Hn)) as (_ & _ & D3 & _). rewrite D3 in Hu. discriminate.
      + apply eqb_str_neq in En. left. eapply R_nonroot; [exact HR|]. exists r. split; [exact Hin|congruence].
    - assert (Hre : root_empty rb = true).
      { eapply R_nonroot; [exact HR|]. exists k0. split.
        - rewrite Forall_forall in Hkids. apply (Hkids k0). left. reflexivity.
        - apply Hkid_nonroot. left. reflexivity. }
      destruct ms as [|m0 [|m1 ms']]; try discriminate. cbn. exact Hre. }
  rewrite A in E1. rewrite <- T2. rewrite E1.
  eexists _, _. split; [reflexivity|]. split; [exact HI'|exact T3].
Qed.
End Del.

(* ---------- Move *)
Section Mov.
Variable hr : bool.
Variable c : cfg.
Hypothesis HP : plain c.
Hypothesis Hrs : 0 < c_rs c.

Fixpoint mvq (hs : list hdr) : Prop :=
  match hs with
  | [] => True
  | h :: rest => (forall h' o o', In h' rest -> h_rep h = Some o -> h_rep h' = Some o' -> o' <> o)
                 /\ mvq rest
  end.

Definition Qmove (hs : list hdr) (lv : pstate) : Prop :=
  Forall (fun h => hnames_ok hr h /\ ver_ok h /\ h_act h = V_update /\
                   exists o, h_rep h = Some o /\ has_name (rows lv) o = true) hs /\ mvq hs.

Lemma Qmove_step rec blk h rest lv : LI hr lv -> Qmove (h :: rest) lv ->
  exists lv', index_header c rec blk h false lv = (lv', Ok tt) /\ In (rec, blk) (lks (rows lv')) /\ Qmove rest lv'.
Proof.
  intros HL [HQ [Hq1 Hq2]]. inversion HQ as [|? ? (A & B & C & o & D & F) Hr]; subst.
  destruct (live_update_rep hr c rec blk h lv HP HL A B o C D F) as (lv' & E & St & Fr).
  exists lv'. split; [exact E|]. split; [exact St|]. split; [|exact Hq2].
  apply Forall_forall. intros h' Hh'. rewrite Forall_forall in Hr. destruct (Hr h' Hh') as (A' & B' & C' & o' & D' & F').
  split; [exact A'|]. split; [exact B'|]. split; [exact C'|]. exists o'. split; [exact D'|].
  pose proof (Hq1 h' o o' Hh' D D') as N1. apply Fr; assumption.
Qed.

Variables (from to : str).
Hypothesis Gf : good from.
Hypothesis Gt : good to.
Hypothesis Hf : from <> [slash].
Hypothesis Ht : to <> [slash].
Hypothesis Hft : from <> to.

Definition nn (x : row) : str :=
  path_join2 to (trim_prefix (trim_prefix [slash] from) (trim_prefix [slash] (r_name x))).
Definition mk (x : row) : hdr := mov_hdr x (nn x).
Definition Kid (x : row) : Prop := has_prefix (from ++ [slash]) (r_name x) = true.
Definition PP (x : row) : Prop :=
  rowok x /\ ((r_name x = from /\ nn x = to) \/
              (exists rest, r_name x = from ++ [slash] ++ rest /\ nn x = to ++ [slash] ++ rest)).

Lemma PP_facts x : PP x -> r_name x <> [slash] /\ good (nn x) /\ nn x <> [slash] /\ nn x <> r_name x.
Proof.
  intros (Hok & [[E1 E2]|(rest & K1 & K2)]).
  - rewrite E1, E2. repeat split; try assumption. congruence.
  - split.
    { eapply (nonroot_of_prefix from); [apply good_nonempty; exact Gf|]. rewrite K1, app_assoc. apply has_prefix_app'. }
    split; [apply path_join2_good; exact Gt|].
    split.
    { eapply (nonroot_of_prefix to); [apply good_nonempty; exact Gt|]. rewrite K2, app_assoc. apply has_prefix_app'. }
    intro E. rewrite K1, K2 in E. apply app_inv_tail in E. congruence.
Qed.

Lemma mvq_gen L : NoDup (map r_name L) -> Forall PP L -> mvq (map mk L).
Proof.
  induction L as [|x L IH]; intros Hnd HP'; cbn [map mvq]; [exact I|].
  inversion Hnd as [|? ? Hnotin Hnd']; subst. inversion HP' as [|? ? Hx HL']; subst.
  split.
  - intros h' o o' Hh' Eo Eo'. apply in_map_iff in Hh' as (x' & <- & Hx').
    unfold mk in Eo, Eo'.
    destruct (PP_facts x Hx) as (F1 & F2 & F3 & F4).
    rewrite Forall_forall in HL'. pose proof (HL' x' Hx') as Hx'P. destruct (PP_facts x' Hx'P) as (F1' & F2' & F3' & F4').
    destruct (mov_hdr_ok hr x (nn x) (proj1 Hx) F1 F2 F3 F4) as (_ & _ & _ & R1 & N1).
    destruct (mov_hdr_ok hr x' (nn x') (proj1 Hx'P) F1' F2' F3' F4') as (_ & _ & _ & R1' & _).
    rewrite R1 in Eo. rewrite R1' in Eo'. inversion Eo; inversion Eo'; subst o o'.
    intro K. apply Hnotin. rewrite <- K. apply in_map. exact Hx'.
  - apply IH; [exact Hnd'|exact HL'].
Qed.

Lemma move_hdrs_eq (l : list row) :
  map (fun x =>
         let h := hdr_of_row x in
         let nn := path_join2 to (trim_prefix (trim_prefix [slash] from) (trim_prefix [slash] (r_name x))) in
         with_size_name (set_pax h (pax_set K_replaces_name (r_name x)
                                     (pax_set K_action V_update (pax_set K_version V_1
                                        (pax_del K_replaces_content (keep_size h)))))) 0 nn) l
  = map mk l.
Proof. reflexivity. Qed.

Lemma move_ok s : Inv hr c s -> hbok s ->
  exists s' o, move_op c s from to = (s', o) /\ Inv hr c s' /\ hbok s'.
Proof.
  intros HI Hhb. pose proof (iv_li hr c s HI) as HL. unfold move_op.
  assert (Eft : eqb_str from to = false) by (apply eqb_str_neq; exact Hft). rewrite Eft.
  rewrite (lookup_entry_lv hr (db s) from HL Gf).
  destruct (find_rows (rows (db s)) from) as [r|] eqn:Ef.
  2:{ eexists _, _. split; [reflexivity|]. rewrite set_db_same. split; assumption. }
  destruct (find_rows_some _ _ _ Ef) as (Hin & Hlive & Hrn).
  assert (Hrows : Forall rowok (rows (db s))) by apply HL.
  assert (Hrok : rowok r) by (rewrite Forall_forall in Hrows; apply Hrows; exact Hin).
  assert (Eabs : is_abs to && negb (is_abs (r_name r)) = false).
  { rewrite (good_abs _ (proj1 Hrok)). apply andb_false_r. }
  rewrite Eabs, Eft.
  assert (KK : exists kids,
    (if r_tf r =? TypeDir then get_children (db s) from else (db s, [])) = (db s, kids) /\
    Forall (fun x => In x (rows (db s)) /\ kid_filter from x = true) kids /\ NoDup (map r_name kids)).
  { destruct (r_tf r =? TypeDir).
    - rewrite (get_children_lv hr (db s) from HL Gf). eexists. split; [reflexivity|]. split.
      + apply Forall_forall. intros x Hx. apply filter_In in Hx. exact Hx.
      + apply NoDup_map_filter. apply HL.
    - exists []. split; [reflexivity|]. split; constructor. }
  destruct KK as (kids & -> & Hkids & Hnd).
  rewrite move_hdrs_eq. rewrite set_db_same.
  destruct (plain_members_spec (map mk (r :: kids)) s Hhb) as (A & B & T1 & T2 & T3).
  destruct (plain_members s (map mk (r :: kids))) as [ms s1]. cbn [fst snd] in *.
  assert (HI1 : Inv hr c s1) by (eapply Inv_ext; eassumption).
  assert (HkidF : Forall (fun x => In x (rows (db s)) /\ rowok x /\ Kid x /\ r_name x <> from) kids).
  { apply Forall_forall. intros x Hx. rewrite Forall_forall in Hkids. destruct (Hkids x Hx) as (Hxin & Hxf).
    rewrite Forall_forall in Hrows. pose proof (Hrows x Hxin) as Hok.
    destruct (kid_filter_facts from x Gf Hf (proj1 Hok) Hxf) as (L1 & L2 & L3).
    split; [exact Hxin|]. split; [exact Hok|]. split; [exact L2|exact L3]. }
  assert (HPP : Forall PP (r :: kids)).
  { constructor.
    - split; [exact Hrok|]. left. split; [exact Hrn|]. unfold nn. rewrite Hrn. apply move_name_self; assumption.
    - apply Forall_forall. intros x Hx. rewrite Forall_forall in HkidF. destruct (HkidF x Hx) as (_ & Hok & Kx & _).
      split; [exact Hok|]. right. unfold nn. apply move_name_below; try assumption. apply Hok. }
  assert (Hnd2 : NoDup (map r_name (r :: kids))).
  { cbn [map]. constructor; [|exact Hnd]. intro K. apply in_map_iff in K as (x & Ex & Hx).
    rewrite Forall_forall in HkidF. destruct (HkidF x Hx) as (_ & _ & _ & L3). congruence. }
  assert (Hhdr : forall x, In x (r :: kids) ->
     hnames_ok hr (mk x) /\ ver_ok (mk x) /\ h_act (mk x) = V_update /\ h_rep (mk x) = Some (r_name x)).
  { intros x Hx. rewrite Forall_forall in HPP. pose proof (HPP x Hx) as Px. destruct (PP_facts x Px) as (F1 & F2 & F3 & F4).
    destruct (mov_hdr_ok hr x (nn x) (proj1 Px) F1 F2 F3 F4) as (M1 & M2 & M3 & M4 & _). exact (conj M1 (conj M2 (conj M3 M4))). }
  destruct (append_ok hr c HP Hrs Qmove Qmove_step s1 ms HI1) as (lv' & E1 & HI' & _).
  { intro K. subst ms. discriminate. }
  { exact B. }
  { rewrite A. apply Forall_forall. intros h Hh. apply in_map_iff in Hh as (x & <- & Hx). apply Hhdr. exact Hx. }
  { rewrite A. split.
    - apply Forall_forall. intros h Hh. apply in_map_iff in Hh as (x & <- & Hx).
      destruct (Hhdr x Hx) as (M1 & M2 & M3 & M4). split; [exact M1|]. split; [exact M2|]. split; [exact M3|].
      exists (r_name x). split; [exact M4|]. rewrite T2. apply has_name_in. apply in_map.
      destruct Hx as [<-|Hx]; [exact Hin|]. rewrite Forall_forall in HkidF. apply (HkidF x Hx).
    - apply mvq_gen; assumption. }
  { intros rb B0 HR. rewrite T2 in HR |- *.
    assert (Hre : root_empty rb = true).
    { eapply R_nonroot; [exact HR|]. exists r. split; [exact Hin|congruence]. }
    destruct ms as [|m0 [|m1 ms']]; cbn; [exact I|left; exact Hre|exact Hre]. }
  rewrite A in E1. rewrite <- T2. rewrite E1.
  eexists _, _. split; [reflexivity|]. split; [exact HI'|exact T3].
Qed.
End Mov.
