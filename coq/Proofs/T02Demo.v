(* T02 / the hypotheses of T02_history are decidable on concrete histories; an instance. *)
From Coq Require Import String List NArith ZArith Bool Lia.
From Coq Require Import ZifyN ZifyBool.
Import ListNotations.
From STFS Require Import Str Db Tape Index Ops Fs Diff Norm C01Str C01Sim C01Rows T02Ns T02Db T02Spec T02Test.
Open Scope N_scope.

Definition goodb (n : str) : bool := is_abs n && eqb_str (path_clean n) n.
Lemma goodb_good n : goodb n = true -> good n.
Proof.
  unfold goodb. intro H. apply andb_true_iff in H as [A B]. apply eqb_str_eq in B. rewrite <- B. apply path_clean_abs_good. exact A.
Qed.

Definition nonrootb (n : str) : bool := negb (eqb_str n [slash]).
Lemma nonrootb_ok n : nonrootb n = true -> n <> [slash].
Proof. unfold nonrootb. intro H. apply negb_true_iff in H. apply eqb_str_neq. exact H. Qed.

Definition create_preb (c : cfg) (a : ns) (n : str) (d : content) : bool :=
  (clen d <? 10 ^ 40)
  && match lookup a n with Some v => is_dir v | None => true end
  && (match d with [] => true | _ => false end
      || ((c_uid c =? 0) && (c_gid c =? 0) && eqb_str (c_uname c) [] && eqb_str (c_gname c) [])).

Definition call_preb (c : cfg) (a : ns) (k : call) : bool :=
  match k with
  | CMkdir n _ | CMkdirAll n _ | CChmod n _ | CChown n _ _ | CChtimes n _ _ => goodb n
  | CRemove n | CRemoveAll n => goodb n && nonrootb n
  | CRename x y => goodb x && goodb y && nonrootb y
  | CCreateFile n d => goodb n && create_preb c a n d
  | _ => false
  end.

Lemma create_preb_sound c a n d : create_preb c a n d = true -> create_pre c a n d.
Proof.
  unfold create_preb, create_pre. intro H. apply andb_true_iff in H as [H H2]. apply andb_true_iff in H as [H0 H1].
  split; [apply N.ltb_lt; exact H0|]. split.
  - destruct (lookup a n); [exact H1|exact I].
  - apply orb_true_iff in H2 as [H2|H2]; [left; destruct d; [reflexivity|discriminate]|right].
    apply andb_true_iff in H2 as [H2 H5]. apply andb_true_iff in H2 as [H2 H4]. apply andb_true_iff in H2 as [H2 H3].
    apply N.eqb_eq in H2, H3. apply eqb_str_eq in H4, H5. auto.
Qed.

Lemma call_preb_sound c a k : call_preb c a k = true -> call_pre c a k.
Proof.
  destruct k; cbn [call_preb call_pre]; try discriminate; intro H.
  - apply goodb_good; exact H.
  - apply goodb_good; exact H.
  - apply andb_true_iff in H as [A B]. split; [apply goodb_good; exact A|apply nonrootb_ok; exact B].
  - apply andb_true_iff in H as [A B]. split; [apply goodb_good; exact A|apply nonrootb_ok; exact B].
  - apply andb_true_iff in H as [H C]. apply andb_true_iff in H as [A B].
    split; [apply goodb_good; exact A|]. split; [apply goodb_good; exact B|apply nonrootb_ok; exact C].
  - apply goodb_good; exact H.
  - apply goodb_good; exact H.
  - apply goodb_good; exact H.
  - apply andb_true_iff in H as [A B]. split; [apply goodb_good; exact A|apply create_preb_sound; exact B].
Qed.

Fixpoint ok_runb (c : cfg) (s : sys) (r : list (call * env)) : bool :=
  match r with
  | [] => true
  | (k, e) :: r' => forallb (fun x => 0 <? x) (ev_hb e) && call_preb c (abs s) k && ok_runb c (fst (step c (with_env s e) k)) r'
  end.

Lemma ok_runb_sound c r : forall s, ok_runb c s r = true -> ok_run c s r.
Proof.
  induction r as [|[k e] r IH]; intros s H; cbn [ok_runb ok_run] in *; [exact I|].
  apply andb_true_iff in H as [H H3]. apply andb_true_iff in H as [H1 H2].
  split; [exact H1|]. split; [apply call_preb_sound; exact H2|apply IH; exact H3].
Qed.

(* an instance: the 12 calls of T02Test.h2 after Initialize "/" (Mkdir, CreateFile with and without content, RemoveAll,
   Remove, Rename onto a removed name, Chmod), run by a process with identity 0/0/""/"" *)
Definition s_init : sys := fst (step rcfg (with_env init_sys (e0 1)) (CInitialize [slash])).
Example demo_history : conforms rcfg s_init (tl h2) /\ Good true rcfg (final rcfg s_init (tl h2)).
Proof.
  apply T02_history.
  - split; reflexivity.
  - reflexivity.
  - reflexivity.
  - apply Good_init; reflexivity.
  - apply ok_runb_sound. vm_compute. reflexivity.
Qed.
