(* T02 / the hypotheses of T02_history are decidable on concrete histories; an instance. *)
From Coq Require Import String List NArith ZArith Bool Lia.
From Coq Require Import ZifyN ZifyBool.
Import ListNotations.
From STFS Require Import Str Db Tape Index Ops Fs Diff Norm C01Str C01Sim C01Rows T02Ns T02Db T02Create T02Spec T02Test.
Open Scope N_scope.

Definition goodb (n : str) : bool := is_abs n && eqb_str (path_clean n) n.
Lemma goodb_good n : goodb n = true -> good n.
Proof.
  unfold goodb. intro H. apply andb_true_iff in H as [A B]. apply eqb_str_eq in B. rewrite <- B. apply path_clean_abs_good. exact A.
Qed.

Definition nonrootb (n : str) : bool := negb (eqb_str n [slash]).
Lemma nonrootb_ok n : nonrootb n = true -> n <> [slash].
Proof. unfold nonrootb. intro H. apply negb_true_iff in H. apply eqb_str_neq. exact H. Qed.

Definition create_preb (a : ns) (n : str) (d : content) : bool :=
  (clen d <? 10 ^ 40)
  && match lookup a n with Some v => is_dir v || negb ((n_size v =? 0) && no_content d) | None => true end.

Definition call_preb (a : ns) (k : call) : bool :=
  match k with
  | CMkdir n _ | CMkdirAll n _ | CChmod n _ | CChown n _ _ | CChtimes n _ _ => goodb n
  | CRemove n | CRemoveAll n => goodb n && nonrootb n
  | CRename x y => goodb x && goodb y && nonrootb y
  | CCreateFile n d => goodb n && create_preb a n d
  | _ => false
  end.

Lemma create_preb_sound a n d : create_preb a n d = true -> create_pre a n d.
Proof.
  unfold create_preb, create_pre. intro H. apply andb_true_iff in H as [H0 H1].
  split; [apply N.ltb_lt; exact H0|]. destruct (lookup a n); [|exact I].
  apply orb_true_iff in H1 as [H1|H1]; [left; exact H1|right; apply negb_true_iff; exact H1].
Qed.

Lemma call_preb_sound a k : call_preb a k = true -> call_pre a k.
Proof.
  destruct k; cbn [call_preb call_pre]; try discriminate; intro H.
  - apply goodb_good; exact H.
  - apply goodb_good; exact H.
  - apply andb_true_iff in H as [A B]. split; [apply goodb_good; exact A|apply nonrootb_ok; exact B].
  - apply andb_true_iff in H as [A B]. split; [apply goodb_good; exact A|apply nonrootb_ok; exact B].
  - apply andb_true_iff in H as [H C]. apply andb_true_iff in H as [A B].
    split; [apply goodb_good; exact A|]. split; [apply goodb_good; exact B|apply nonrootb_ok; exact C].
  - apply goodb_good; exact H.
  - apply goodb_good; exact H.
  - apply goodb_good; exact H.
  - apply andb_true_iff in H as [A B]. split; [apply goodb_good; exact A|apply create_preb_sound; exact B].
Qed.

Fixpoint ok_runb (c : cfg) (s : sys) (r : list (call * env)) : bool :=
  match r with
  | [] => true
  | (k, e) :: r' => forallb (fun x => 0 <? x) (ev_hb e) && call_preb (abs s) k && ok_runb c (fst (step c (with_env s e) k)) r'
  end.

Lemma ok_runb_sound c r : forall s, ok_runb c s r = true -> ok_run c s r.
Proof.
  induction r as [|[k e] r IH]; intros s H; cbn [ok_runb ok_run] in *; [exact I|].
  apply andb_true_iff in H as [H H3]. apply andb_true_iff in H as [H1 H2].
  split; [exact H1|]. split; [apply call_preb_sound; exact H2|apply IH; exact H3].
Qed.

(* an instance: the 12 calls of T02Test.h2 after Initialize "/" (Mkdir, CreateFile with and without content, RemoveAll,
   Remove, Rename onto a removed name, Chmod), run by a process with identity 7/8/"u"/"g" ... *)
Definition s_init_t : sys := fst (step tcfg (with_env init_sys (e0 1)) (CInitialize [slash])).
Example demo_history_any_identity : conforms tcfg s_init_t (tl h2) /\ Good true tcfg (final tcfg s_init_t (tl h2)).
Proof.
  apply T02_history.
  - split; reflexivity.
  - reflexivity.
  - reflexivity.
  - apply Good_init; reflexivity.
  - apply ok_runb_sound. vm_compute. reflexivity.
Qed.
(* ... and by a process with identity 0/0/""/"" *)
Definition s_init : sys := fst (step rcfg (with_env init_sys (e0 1)) (CInitialize [slash])).
Example demo_history : conforms rcfg s_init (tl h2) /\ Good true rcfg (final rcfg s_init (tl h2)).
Proof.
  apply T02_history.
  - split; reflexivity.
  - reflexivity.
  - reflexivity.
  - apply Good_init; reflexivity.
  - apply ok_runb_sound. vm_compute. reflexivity.
Qed.
