(* C01 / Db layer: the index operations on a live index (root "/") and on a rebuilt one (root "")
   are the same list functions applied to a name and to its normalised spelling; these list
   functions commute with [map norm_row]. *)
From Coq Require Import List NArith ZArith Bool Lia.
From Coq Require Import ZifyN ZifyBool.
Import ListNotations.
From STFS Require Import Str Db Tape Index Norm C01Str.
Open Scope N_scope.

Definition NR (l : list row) : list row := map norm_row l.
Definition absr (r : row) : Prop := is_abs (r_name r) = true.

(* ---------- rows *)
Lemma set_name_id r : set_name r (r_name r) = r.
Proof. destruct r; reflexivity. Qed.
Lemma norm_row_set_name r n : norm_row (set_name r n) = set_name r (norm_name n).
Proof. reflexivity. Qed.
Lemma norm_row_set_lk r a b d : norm_row (set_lk r a b d) = set_lk (norm_row r) a b d.
Proof. reflexivity. Qed.

Lemma key_eq_norm n k r : is_abs n = true -> absr r -> key_eq (norm_name n) k (norm_row r) = key_eq n k r.
Proof. intros Hn Hr. unfold key_eq. cbn. rewrite norm_eqb by assumption. reflexivity. Qed.

Lemma name_eq_norm n r : is_abs n = true -> absr r ->
  eqb_str (r_name (norm_row r)) (norm_name n) = eqb_str (r_name r) n.
Proof. intros Hn Hr. cbn. apply norm_eqb; assumption. Qed.

(* ---------- generic list facts *)
Lemma filter_map_comm {A B} (f : B -> bool) (f' : A -> bool) (g : A -> B) l :
  (forall x, In x l -> f (g x) = f' x) -> filter f (map g l) = map g (filter f' l).
Proof.
  induction l as [|x l IH]; intro H; cbn; [reflexivity|].
  rewrite (H x (or_introl eq_refl)). rewrite IH by (intros; apply H; right; assumption).
  destruct (f' x); reflexivity.
Qed.

Lemma existsb_map_comm {A B} (f : B -> bool) (f' : A -> bool) (g : A -> B) l :
  (forall x, In x l -> f (g x) = f' x) -> existsb f (map g l) = existsb f' l.
Proof.
  induction l as [|x l IH]; intro H; cbn; [reflexivity|].
  rewrite (H x (or_introl eq_refl)). rewrite IH by (intros; apply H; right; assumption). reflexivity.
Qed.

Lemma existsb_ext_in {A} (f g : A -> bool) l : (forall x, In x l -> f x = g x) -> existsb f l = existsb g l.
Proof.
  induction l as [|x l IH]; intro H; cbn; [reflexivity|].
  rewrite (H x (or_introl eq_refl)), IH by (intros; apply H; right; assumption). reflexivity.
Qed.

Lemma filter_ext_in' {A} (f g : A -> bool) l : (forall x, In x l -> f x = g x) -> filter f l = filter g l.
Proof.
  induction l as [|x l IH]; intro H; cbn; [reflexivity|].
  rewrite (H x (or_introl eq_refl)), IH by (intros; apply H; right; assumption). reflexivity.
Qed.

Lemma map_ext_in' {A B} (f g : A -> B) l : (forall x, In x l -> f x = g x) -> map f l = map g l.
Proof.
  induction l as [|x l IH]; intro H; cbn; [reflexivity|].
  rewrite (H x (or_introl eq_refl)), IH by (intros; apply H; right; assumption). reflexivity.
Qed.

Lemma Forall_filter {A} (P : A -> Prop) f l : Forall P l -> Forall P (filter f l).
Proof.
  induction l as [|x l IH]; intro H; cbn; [constructor|].
  inversion H; subst. destruct (f x); [constructor|]; auto.
Qed.

(* ---------- the list functions behind the operations *)
Definition upsert_rows (l : list row) (r : row) : list row :=
  if has_key l (r_name r) (r_link r) then replace_row (r_name r) (r_link r) r l else l ++ [r].

Definition find_rows (l : list row) (n : str) : option row :=
  min_link (filter (fun r => live r && eqb_str (r_name r) n) l) None.

Definition move_list (l : list row) (old' new' : str) (lkrec lkblk : N) : list row * res unit :=
  let moved := filter (fun r => eqb_str (r_name r) old') l in
  let rows1 := if eqb_str new' old' then l
               else filter (fun r => negb (eqb_str (r_name r) new'
                                           && existsb (fun m => eqb_str (r_link m) (r_link r)) moved)) l in
  let stay := filter (fun r => negb (eqb_str (r_name r) old')) rows1 in
  if existsb (fun m => has_key stay new' (r_link m)) moved then (rows1, Unique)
  else (map (fun r => if eqb_str (r_name r) old'
                      then set_lk (set_name r new') lkrec lkblk (r_del r) else r) rows1, Ok tt).

Lemma find_by_name_rows p n : find_by_name p n = find_rows (rows p) n.
Proof. reflexivity. Qed.

(* ---------- commutation with NR *)
Section Comm.
Variable l : list row.
Hypothesis Hl : Forall absr l.

Lemma absr_in x : In x l -> absr x.
Proof. intro H. rewrite Forall_forall in Hl. apply Hl. exact H. Qed.

Lemma has_key_NR n k : is_abs n = true -> has_key (NR l) (norm_name n) k = has_key l n k.
Proof.
  intro Hn. unfold has_key, NR. apply existsb_map_comm. intros x Hx. apply key_eq_norm; [exact Hn|apply absr_in; exact Hx].
Qed.

Lemma filter_name_NR n : is_abs n = true ->
  filter (fun r => eqb_str (r_name r) (norm_name n)) (NR l) = NR (filter (fun r => eqb_str (r_name r) n) l).
Proof.
  intro Hn. unfold NR. apply filter_map_comm. intros x Hx. apply name_eq_norm; [exact Hn|apply absr_in; exact Hx].
Qed.

Lemma filter_live_name_NR n : is_abs n = true ->
  filter (fun r => live r && eqb_str (r_name r) (norm_name n)) (NR l)
  = NR (filter (fun r => live r && eqb_str (r_name r) n) l).
Proof.
  intro Hn. unfold NR. apply filter_map_comm. intros x Hx.
  rewrite name_eq_norm; [reflexivity|exact Hn|apply absr_in; exact Hx].
Qed.

Lemma exists_exact_NR n : is_abs n = true ->
  existsb (fun r => live r && eqb_str (r_name r) (norm_name n)) (NR l)
  = existsb (fun r => live r && eqb_str (r_name r) n) l.
Proof.
  intro Hn. unfold NR. apply existsb_map_comm. intros x Hx.
  rewrite name_eq_norm; [reflexivity|exact Hn|apply absr_in; exact Hx].
Qed.
End Comm.

Lemma replace_row_NR l n k new : Forall absr l -> is_abs n = true ->
  NR (replace_row n k new l) = replace_row (norm_name n) k (norm_row new) (NR l).
Proof.
  intros Hl Hn. unfold NR. induction l as [|r t IH]; cbn [replace_row map]; [reflexivity|].
  inversion Hl as [|? ? Hr Ht]; subst.
  rewrite key_eq_norm by assumption. destruct (key_eq n k r); cbn [map]; [reflexivity|].
  rewrite IH by exact Ht. reflexivity.
Qed.

Lemma min_link_NR l : forall b, min_link (NR l) (option_map norm_row b) = option_map norm_row (min_link l b).
Proof.
  unfold NR. induction l as [|r t IH]; intro b; cbn [map min_link]; [reflexivity|].
  destruct b as [b|]; cbn [option_map].
  - change (r_link (norm_row r)) with (r_link r). change (r_link (norm_row b)) with (r_link b).
    destruct (ltb_str (r_link r) (r_link b)).
    + apply (IH (Some r)).
    + apply (IH (Some b)).
  - apply (IH (Some r)).
Qed.

Lemma find_rows_NR l n : Forall absr l -> is_abs n = true ->
  find_rows (NR l) (norm_name n) = option_map norm_row (find_rows l n).
Proof.
  intros Hl Hn. unfold find_rows. rewrite filter_live_name_NR by assumption.
  apply (min_link_NR _ None).
Qed.

Lemma upsert_rows_NR l r : Forall absr l -> absr r ->
  NR (upsert_rows l r) = upsert_rows (NR l) (norm_row r).
Proof.
  intros Hl Hr. unfold upsert_rows.
  change (r_name (norm_row r)) with (norm_name (r_name r)). change (r_link (norm_row r)) with (r_link r).
  rewrite has_key_NR by assumption. destruct (has_key l (r_name r) (r_link r)).
  - apply replace_row_NR; assumption.
  - unfold NR. rewrite map_app. reflexivity.
Qed.

Lemma move_list_NR l old new a b : Forall absr l -> is_abs old = true -> is_abs new = true ->
  move_list (NR l) (norm_name old) (norm_name new) a b
  = (NR (fst (move_list l old new a b)), snd (move_list l old new a b)).
Proof.
  intros Hl Ho Hn. unfold move_list.
  rewrite (filter_name_NR l Hl old Ho).
  rewrite (norm_eqb new old Hn Ho).
  set (moved := filter (fun r => eqb_str (r_name r) old) l).
  assert (E1 : (if eqb_str new old then NR l
                else filter (fun r => negb (eqb_str (r_name r) (norm_name new)
                        && existsb (fun m => eqb_str (r_link m) (r_link r)) (NR moved))) (NR l))
               = NR (if eqb_str new old then l
                     else filter (fun r => negb (eqb_str (r_name r) new
                        && existsb (fun m => eqb_str (r_link m) (r_link r)) moved)) l)).
  { destruct (eqb_str new old); [reflexivity|]. unfold NR at 2. unfold NR at 2. apply filter_map_comm.
    intros x Hx. rewrite name_eq_norm; [|exact Hn|exact (absr_in l Hl x Hx)].
    f_equal. f_equal. unfold NR. apply existsb_map_comm. intros; reflexivity. }
  rewrite E1.
  set (rows1 := if eqb_str new old then l else filter _ l).
  assert (H1 : Forall absr rows1).
  { unfold rows1. destruct (eqb_str new old); [exact Hl|apply Forall_filter; exact Hl]. }
  assert (E2 : filter (fun r => negb (eqb_str (r_name r) (norm_name old))) (NR rows1)
               = NR (filter (fun r => negb (eqb_str (r_name r) old)) rows1)).
  { unfold NR. apply filter_map_comm. intros x Hx. rewrite name_eq_norm; [reflexivity|exact Ho|exact (absr_in rows1 H1 x Hx)]. }
  rewrite E2.
  set (stay := filter (fun r => negb (eqb_str (r_name r) old)) rows1).
  assert (H2 : Forall absr stay) by (apply Forall_filter; exact H1).
  assert (E3 : existsb (fun m => has_key (NR stay) (norm_name new) (r_link m)) (NR moved)
               = existsb (fun m => has_key stay new (r_link m)) moved).
  { unfold NR at 2. apply existsb_map_comm. intros x Hx.
    change (r_link (norm_row x)) with (r_link x). apply has_key_NR; assumption. }
  rewrite E3.
  destruct (existsb (fun m => has_key stay new (r_link m)) moved); cbn [fst snd]; [reflexivity|].
  f_equal. unfold NR. rewrite !map_map. apply map_ext_in'. intros x Hx.
  rewrite name_eq_norm; [|exact Ho|exact (absr_in rows1 H1 x Hx)].
  destruct (eqb_str (r_name x) old); reflexivity.
Qed.

(* ---------- sanitize on the live side *)
Lemma sanitize_root_eq p n : root p = [slash] ->
  sanitize p n = if is_root_name n || eqb_str n [slash] then (p, [slash])
                 else if is_abs n then (p, n) else (p, path_join2 [slash] (trim_prefix [slash] n)).
Proof.
  intro H. destruct p as [rw rt re]. cbn [root] in H. subst rt. unfold sanitize. cbn [root rows root_empty].
  destruct (is_root_name n || eqb_str n [slash]); [reflexivity|].
  change (eqb_str [slash] []) with false. cbn [andb].
  change (is_abs [slash]) with true. cbn [andb]. destruct (is_abs n); [reflexivity|].
  reflexivity.
Qed.

Lemma sanitize_root_fst p n : root p = [slash] -> fst (sanitize p n) = p.
Proof.
  intro H. rewrite (sanitize_root_eq p n H).
  destruct (is_root_name n || eqb_str n [slash]); [reflexivity|]. destruct (is_abs n); reflexivity.
Qed.

Lemma path_clean_nonempty x : path_clean x <> [].
Proof.
  unfold path_clean. destruct x as [|c y]; [discriminate|].
  destruct (c =? slash); [discriminate|].
  destruct (join_slash _); discriminate.
Qed.

Lemma sanitize_root_snd p n : root p = [slash] -> snd (sanitize p n) <> [].
Proof.
  intro H. rewrite (sanitize_root_eq p n H).
  destruct (is_root_name n || eqb_str n [slash]); [discriminate|]. destruct (is_abs n) eqn:E; cbn [snd].
  - destruct n; discriminate.
  - unfold path_join2. destruct (trim_prefix [slash] n); apply path_clean_nonempty.
Qed.

Lemma sanitize_live p n : root p = [slash] -> good n -> sanitize p n = (p, n).
Proof.
  intros H G. rewrite (sanitize_root_eq p n H).
  destruct (eqb_str n [slash]) eqn:E.
  - apply eqb_str_eq in E. subst. reflexivity.
  - apply eqb_str_neq in E. rewrite (good_is_root_false n G E). cbn [orb].
    rewrite (good_abs n G). reflexivity.
Qed.

(* ---------- sanitize on the rebuilt side *)
Definition mark (p : pstate) (n : str) : pstate :=
  if eqb_str n [slash] then p else
  if root_empty p then p else {| rows := rows p; root := root p; root_empty := true |}.

Lemma mark_rows p n : rows (mark p n) = rows p.
Proof. unfold mark. destruct (eqb_str n [slash]), (root_empty p); reflexivity. Qed.
Lemma mark_root p n : root (mark p n) = root p.
Proof. unfold mark. destruct (eqb_str n [slash]), (root_empty p); reflexivity. Qed.
Lemma mark_mono p n : root_empty p = true -> root_empty (mark p n) = true.
Proof. unfold mark. intro H. destruct (eqb_str n [slash]); [exact H|]. rewrite H. exact H. Qed.
Lemma mark_nonroot p n : n <> [slash] -> root_empty (mark p n) = true.
Proof.
  unfold mark. intro H. apply eqb_str_neq in H. rewrite H. destruct (root_empty p) eqn:E; [exact E|reflexivity].
Qed.
Lemma mark_root_name p : mark p [slash] = p.
Proof. reflexivity. Qed.

Lemma sanitize_reb p n : root p = [] -> good n ->
  (n = [slash] \/ root_empty p = true \/ exists_exact p [] = true) ->
  sanitize p n = (mark p n, norm_name n).
Proof.
  intros H G Hpre. destruct p as [rw rt re]. cbn [root] in H. subst rt.
  unfold sanitize, mark. cbn [root rows root_empty] in *.
  destruct (eqb_str n [slash]) eqn:E.
  - apply eqb_str_eq in E. subst. reflexivity.
  - apply eqb_str_neq in E. rewrite (good_is_root_false n G E).
    assert (En : eqb_str n [] = false) by (apply eqb_str_neq; apply good_nonempty; exact G).
    rewrite En. cbn [orb eqb_str andb]. rewrite (good_abs n G). cbn [andb].
    destruct re; cbn [negb].
    + cbn [root is_abs andb eqb_str]. rewrite (reb_spelling n G E). reflexivity.
    + destruct Hpre as [K|[K|K]]; [contradiction|discriminate|].
      rewrite K. cbn [root is_abs andb eqb_str]. rewrite (reb_spelling n G E). reflexivity.
Qed.

(* ---------- the operations as list functions, generic in the state *)
Lemma upsert_form p r0 : upsert p r0 false =
  (with_rows (fst (sanitize p (r_name r0)))
     (upsert_rows (rows (fst (sanitize p (r_name r0)))) (set_name r0 (snd (sanitize p (r_name r0))))), Ok tt).
Proof.
  unfold upsert, upsert_rows. destruct (sanitize p (r_name r0)) as [p1 n]. cbn [fst snd r_name set_name r_link].
  destruct (has_key (rows p1) n (r_link r0)); reflexivity.
Qed.

Lemma update_meta_form p r0 : update_meta p r0 =
  (with_rows (fst (sanitize p (r_name r0)))
     (replace_row (snd (sanitize p (r_name r0))) (r_link r0) (set_name r0 (snd (sanitize p (r_name r0))))
        (rows (fst (sanitize p (r_name r0))))), Ok tt).
Proof. unfold update_meta. destruct (sanitize p (r_name r0)) as [p1 n]. reflexivity. Qed.

Lemma get_header_form p n : get_header p n =
  (fst (sanitize p n), match find_rows (rows (fst (sanitize p n))) (snd (sanitize p n)) with
                       | Some r => Ok r | None => NoRows end).
Proof.
  unfold get_header. destruct (sanitize p n) as [p1 n1]. cbn [fst snd]. rewrite find_by_name_rows.
  destruct (find_rows (rows p1) n1); reflexivity.
Qed.

Lemma delete_row_form p n a b : delete_row p n a b =
  match find_rows (rows (fst (sanitize p n))) (snd (sanitize p n)) with
  | None => (fst (sanitize p n), NoRows)
  | Some r => (with_rows (fst (sanitize p n))
                 (replace_row (snd (sanitize p n)) (r_link r) (set_lk r a b true) (rows (fst (sanitize p n)))),
               Ok (set_lk r a b true))
  end.
Proof.
  unfold delete_row. destruct (sanitize p n) as [p1 n1]. cbn [fst snd]. rewrite find_by_name_rows.
  destruct (find_rows (rows p1) n1); reflexivity.
Qed.

Lemma move_rows_form p old new a b : move_rows p old new a b =
  let p1 := fst (sanitize p new) in let new' := snd (sanitize p new) in
  let p2 := fst (sanitize p1 old) in let old' := snd (sanitize p1 old) in
  (with_rows p2 (fst (move_list (rows p2) old' new' a b)), snd (move_list (rows p2) old' new' a b)).
Proof.
  unfold move_rows, move_list. destruct (sanitize p new) as [p1 new']. cbn [fst snd].
  destruct (sanitize p1 old) as [p2 old']. cbn [fst snd].
  match goal with |- context [if ?c then (with_rows p2 ?x, Unique) else _] => destruct c end; reflexivity.
Qed.
