(* C01: machine-checked counterexamples to the UNRESTRICTED statement
     forall c e r, 0 < c_rs c -> c_readonly c = false -> forallb (fun ke => fs_call (fst ke)) r = true ->
       let s := final c init_sys ((CInitialize [slash], e) :: r) in
       exists p, rebuild c (tp s) = (p, Ok tt) /\ rows p = map norm_row (rows (db s)).
   Each example satisfies all hypotheses of C01_rows_norm (Proofs/C01Rows.v) except the one named.
   (For (a) and (b) the stronger side condition [call_ok] = rename_ok && root_kept is shown to hold.) *)
From Coq Require Import String List NArith ZArith Bool.
Import ListNotations.
From STFS Require Import Str Db Tape Index Ops Fs Diff Norm C01Fs2 C01Rows.
Open Scope string_scope.
Open Scope N_scope.

Definition concl (c : cfg) (h : list (call * env)) : Prop :=
  let st := final c init_sys h in
  exists p, rebuild c (tp st) = (p, Ok tt) /\ rows p = map norm_row (rows (db st)).

Definition side (c : cfg) (e : env) (r : list (call * env)) : bool :=
  (0 <? c_rs c) && negb (c_readonly c)
  && forallb (fun ke => fs_call (fst ke)) r.

Definition e0 (n : Z) : env := {| ev_hb := []; ev_enc := []; ev_now := n |}.
Definition cf (csuf : string) : cfg :=
  {| c_rs := 3; c_csuf := s csuf; c_esuf := []; c_readonly := false; c_uid := 0; c_gid := 0;
     c_uname := s "root"; c_gname := s "0" |}.

Ltac refute :=
  let p := fresh "p" in let E := fresh "E" in let H := fresh "H" in
  intros (p & E & H); vm_compute in E;
  first [ discriminate E | inversion E; subst p; vm_compute in H; discriminate H ].

(* (a) a compression suffix: on the pinned tree the indexer stripped the suffix from every regular member, so the
       empty member "/a/x" was indexed live under "/a/" and rebuilt as "a" (a counterexample to the unrestricted
       statement; repaired in /repo by "fix: strip codec suffixes only from records that carry encoded content",
       mirrored in Model/Index.v indexed_name).  With the repair the instance satisfies the conclusion; the
       plain-configuration hypothesis of C01_rows_norm is kept because the proof uses it, no counterexample is known. *)
Definition r_a : list (call * env) := [(CMkdir (s "/a") 493, e0 2); (CCreateFile (s "/a/x") [], e0 3)].
Example suffix_instance_holds :
  side (cf "x") (e0 1) r_a = true /\
  forallb hb_ok ((CInitialize [slash], e0 1) :: r_a) = true /\
  forallb (fun ke => call_ok (fst ke)) r_a = true /\
  concl (cf "x") ((CInitialize [slash], e0 1) :: r_a).
Proof.
  split; [reflexivity|]. split; [reflexivity|]. split; [reflexivity|]. unfold concl.
  eexists. split; vm_compute; reflexivity.
Qed.

(* (b) header-block counts of zero: the two members of RemoveAll "/a" start at the same block, the next
       replay from the last indexed position is misaligned *)
Definition ez (n : Z) : env := {| ev_hb := [0; 0; 0; 0]; ev_enc := []; ev_now := n |}.
Definition r_b : list (call * env) :=
  [(CMkdir (s "/a") 493, e0 2); (CMkdir (s "/a/b") 493, e0 2); (CRemoveAll (s "/a"), ez 3); (CMkdir (s "/c") 493, e0 4)].
Example counter_zero_header_blocks :
  side (cf "") (e0 1) r_b = true /\
  forallb (fun ke => call_ok (fst ke)) r_b = true /\
  ~ concl (cf "") ((CInitialize [slash], e0 1) :: r_b).
Proof. split; [reflexivity|]. split; [reflexivity|]. unfold concl. refute. Qed.

(* (c) removing the root and reopening: the cached root becomes "", MkdirAll "/" then appends a row ""
       next to the tombstone "/", while the rebuild revives the single row "" in place *)
Definition r_c : list (call * env) := [(CRemove (s "/"), e0 2); (CReopen, e0 3); (CMkdirAll (s "/") 493, e0 4)].
Example counter_remove_root_reopen :
  side (cf "") (e0 1) r_c = true /\
  forallb hb_ok ((CInitialize [slash], e0 1) :: r_c) = true /\
  forallb (fun ke => rename_ok (fst ke)) r_c = true /\
  safe true r_c = false /\
  ~ concl (cf "") ((CInitialize [slash], e0 1) :: r_c).
Proof. split; [reflexivity|]. split; [reflexivity|]. split; [reflexivity|]. split; [reflexivity|]. unfold concl. refute. Qed.

(* [safe] is conservative: a Reopen after the root was removed AND re-created is excluded by [safe]
   although the conclusion holds on this history (checked by computation) *)
Definition r_c' : list (call * env) := [(CRemove (s "/"), e0 2); (CMkdirAll (s "/") 493, e0 4); (CReopen, e0 5)].
Example safe_is_conservative : safe true r_c' = false /\ concl (cf "") ((CInitialize [slash], e0 1) :: r_c').
Proof. split; [reflexivity|]. unfold concl. eexists. split; vm_compute; reflexivity. Qed.
(* a Reopen before the root is removed is fine, and root removal without a later Reopen is covered *)
Definition r_c'' : list (call * env) := [(CReopen, e0 2); (CRemove (s "/"), e0 2); (CMkdirAll (s "/a") 493, e0 4)].
Example reopen_before_root_removal_is_safe :
  safe true r_c'' = true /\ concl (cf "") ((CInitialize [slash], e0 1) :: r_c'').
Proof.
  split; [reflexivity|]. apply (C01_rows_norm (cf "") (e0 1) r_c''); reflexivity.
Qed.
