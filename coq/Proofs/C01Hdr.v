(* C01 / the headers written by the operations satisfy the preconditions of the simulation. *)
From Coq Require Import List NArith ZArith Bool Lia.
From Coq Require Import ZifyN ZifyBool.
Import ListNotations.
From STFS Require Import Str Db Tape Index Ops Fs Norm C01Str C01Db C01Inv C01Sim.
Open Scope N_scope.

(* ---------- pax *)
Lemma pax_get_set k k' v p : pax_get k (pax_set k' v p) = if eqb_str k k' then Some v else pax_get k p.
Proof.
  induction p as [|[k0 v0] r IH]; cbn.
  - destruct (eqb_str k k'); reflexivity.
  - destruct (eqb_str k' k0) eqn:E1.
    + cbn. apply eqb_str_eq in E1. subst k0. destruct (eqb_str k k'); reflexivity.
    + destruct (ltb_str k' k0).
      * cbn. destruct (eqb_str k k'); reflexivity.
      * cbn. destruct (eqb_str k k0) eqn:E2.
        -- apply eqb_str_eq in E2. subst k0. rewrite eqb_str_sym, E1. reflexivity.
        -- exact IH.
Qed.

Lemma pax_get_del k k' p : pax_get k (pax_del k' p) = if eqb_str k k' then None else pax_get k p.
Proof.
  unfold pax_del. induction p as [|[k0 v0] r IH]; cbn.
  - destruct (eqb_str k k'); reflexivity.
  - destruct (eqb_str k' k0) eqn:E1; cbn.
    + apply eqb_str_eq in E1. subst k0. rewrite IH. destruct (eqb_str k k'); reflexivity.
    + destruct (eqb_str k k0) eqn:E2.
      * apply eqb_str_eq in E2. subst k0. rewrite eqb_str_sym, E1. reflexivity.
      * exact IH.
Qed.

(* ---------- decimal *)
Definition digit (c : N) : Prop := 48 <= c /\ c <= 57.

Lemma digits_aux_digits fuel : forall n acc, Forall digit acc -> Forall digit (digits_aux fuel n acc).
Proof.
  induction fuel as [|f IH]; intros n acc H; cbn [digits_aux]; [exact H|].
  assert (D : digit (48 + n mod 10)).
  { unfold digit. pose proof (N.mod_lt n 10 ltac:(lia)). lia. }
  destruct (n / 10 =? 0); [constructor; assumption|]. apply IH. constructor; assumption.
Qed.

Lemma digits_aux_nonempty fuel : forall n acc, (fuel <> 0)%nat \/ acc <> [] -> digits_aux fuel n acc <> [].
Proof.
  induction fuel as [|f IH]; intros n acc H; cbn [digits_aux].
  - destruct H as [H|H]; [contradiction|exact H].
  - destruct (n / 10 =? 0); [discriminate|]. apply IH. right. discriminate.
Qed.

Lemma undecimal_aux_digits x : forall acc, Forall digit x -> undecimal_aux x acc <> None.
Proof.
  induction x as [|c r IH]; intros acc H; cbn; [discriminate|].
  inversion H as [|? ? Hc Hr]; subst. destruct Hc as [A B].
  replace ((48 <=? c) && (c <=? 57)) with true by lia. apply IH. exact Hr.
Qed.

Lemma undecimal_decimal n : undecimal (decimal n) <> None.
Proof.
  unfold undecimal, decimal.
  pose proof (digits_aux_nonempty 40 n [] ltac:(left; discriminate)) as H1.
  pose proof (digits_aux_digits 40 n [] ltac:(constructor)) as H2.
  destruct (digits_aux 40 n []) as [|c r]; [contradiction|]. apply undecimal_aux_digits. exact H2.
Qed.

(* ---------- the size record round-trips (sizes below 10^40: the rendering has 40 digits at most) *)
Lemma undecimal_digits fuel : forall n acc, n < 10 ^ N.of_nat fuel ->
  exists k, forall a, undecimal_aux (digits_aux fuel n acc) a = undecimal_aux acc (a * 10 ^ k + n).
Proof.
  induction fuel as [|f IH]; intros n acc Hn.
  - cbn in Hn. assert (n = 0) by lia. subst n. exists 0. intro a. cbn [digits_aux]. f_equal. cbn. lia.
  - cbn [digits_aux].
    assert (Hd : n mod 10 < 10) by (apply N.mod_lt; lia).
    assert (Hdm : n = 10 * (n / 10) + n mod 10) by (apply N.div_mod; lia).
    assert (STEP : forall a, undecimal_aux ((48 + n mod 10) :: acc) a = undecimal_aux acc (a * 10 + n mod 10)).
    { intro a. cbn [undecimal_aux]. replace ((48 <=? 48 + n mod 10) && (48 + n mod 10 <=? 57)) with true by lia.
      f_equal. lia. }
    destruct (n / 10 =? 0) eqn:E.
    + exists 1. intro a. rewrite STEP. f_equal. apply N.eqb_eq in E. cbn. lia.
    + assert (Hq : n / 10 < 10 ^ N.of_nat f).
      { rewrite Nat2N.inj_succ, N.pow_succ_r' in Hn. apply N.div_lt_upper_bound; lia. }
      destruct (IH (n / 10) ((48 + n mod 10) :: acc) Hq) as (k & Hk). exists (N.succ k). intro a.
      rewrite Hk, STEP. f_equal. rewrite N.pow_succ_r'. lia.
Qed.

Lemma undecimal_decimal_eq n : n < 10 ^ 40 -> undecimal (decimal n) = Some n.
Proof.
  intro Hn. unfold undecimal, decimal.
  pose proof (digits_aux_nonempty 40 n [] ltac:(left; discriminate)) as H1.
  destruct (undecimal_digits 40 n [] Hn) as (k & Hk).
  destruct (digits_aux 40 n []) as [|c0 r] eqn:E; [contradiction|].
  rewrite Hk. cbn [undecimal_aux]. reflexivity.
Qed.

(* ---------- key facts (computed) *)
Lemma K_ne_1 : eqb_str K_usize K_version = false. Proof. reflexivity. Qed.
Lemma K_ne_2 : eqb_str K_usize K_action = false. Proof. reflexivity. Qed.
Lemma K_ne_3 : eqb_str K_usize K_replaces_name = false. Proof. reflexivity. Qed.
Lemma K_ne_4 : eqb_str K_usize K_replaces_content = false. Proof. reflexivity. Qed.

Ltac paxs := repeat (rewrite ?pax_get_set, ?pax_get_del;
  repeat match goal with
  | |- context [eqb_str ?a ?b] =>
      first [ is_var a; fail 1 | is_var b; fail 1 |
              let r := eval vm_compute in (eqb_str a b) in change (eqb_str a b) with r ]
  end; cbn iota).

(* ---------- creation (mknode) *)
Lemma mknode_hdr_ok hr c dir name perm now : good name ->
  let h := mknode_hdr c dir name [] perm now in
  hnames_ok hr h /\ ver_ok h /\ h_act h = V_create.
Proof.
  intro G. cbn zeta. split; [|split; [exact I|reflexivity]].
  split; cbn; try assumption; try reflexivity; try exact I.
  - unfold h_act. cbn. discriminate.
  - unfold h_act. cbn. discriminate.
Qed.

(* ---------- update *)
Definition upd_pax (p : pax) : pax := pax_del K_replaces_name (pax_set K_action V_update (pax_set K_version V_1 p)).

Lemma upd_hdr_ok hr (h : hdr) (px : pax) : good (h_name h) -> h_link h = [] -> usize_ok px ->
  pax_get K_action px = Some V_update -> pax_get K_version px = Some V_1 -> pax_get K_replaces_name px = None ->
  h_pax h = px ->
  hnames_ok hr h /\ ver_ok h /\ h_act h = V_update /\ h_rep h = None.
Proof.
  intros G Hk Hu Ha Hv Hr Hp.
  assert (A : h_act h = V_update) by (unfold h_act; rewrite Hp, Ha; reflexivity).
  assert (B : h_rep h = None) by (unfold h_rep; rewrite Hp; exact Hr).
  split; [|split; [|split]]; try assumption.
  - split; try assumption.
    + rewrite Hp. exact Hu.
    + rewrite A. discriminate.
    + intros _ o Ho. rewrite B in Ho. discriminate.
  - unfold ver_ok. rewrite Hp, Hv. reflexivity.
Qed.

Lemma usize_ok_set k v p : eqb_str K_usize k = false -> usize_ok p -> usize_ok (pax_set k v p).
Proof. unfold usize_ok. intros E H. rewrite pax_get_set, E. exact H. Qed.
Lemma usize_ok_del k p : eqb_str K_usize k = false -> usize_ok p -> usize_ok (pax_del k p).
Proof. unfold usize_ok. intros E H. rewrite pax_get_del, E. exact H. Qed.
Lemma usize_ok_put n p : usize_ok (pax_set K_usize (decimal n) p).
Proof. unfold usize_ok. rewrite pax_get_set, eqb_str_refl. apply undecimal_decimal. Qed.

(* ---------- keep_size (the size record added to content-less records when missing) *)
Lemma keep_size_id h : pax_get K_usize (h_pax h) <> None \/ h_size h = 0 -> keep_size h = h_pax h.
Proof.
  unfold keep_size. intros [H|H].
  - destruct (0 <? h_size h); [|reflexivity]. destruct (pax_get K_usize (h_pax h)); [reflexivity|contradiction].
  - rewrite H. reflexivity.
Qed.

Lemma keep_size_cases h : keep_size h = h_pax h \/
  (0 < h_size h /\ pax_get K_usize (h_pax h) = None /\ keep_size h = pax_set K_usize (decimal (h_size h)) (h_pax h)).
Proof.
  unfold keep_size. destruct (0 <? h_size h) eqn:E; [|left; reflexivity].
  destruct (pax_get K_usize (h_pax h)) eqn:G; [left; reflexivity|]. right. split; [lia|]. split; reflexivity.
Qed.

Lemma keep_size_get k h : eqb_str k K_usize = false -> pax_get k (keep_size h) = pax_get k (h_pax h).
Proof.
  intro E. destruct (keep_size_cases h) as [->|(_ & _ & ->)]; [reflexivity|]. rewrite pax_get_set, E. reflexivity.
Qed.

Lemma keep_size_usize h : pax_get K_usize (keep_size h) =
  match pax_get K_usize (h_pax h) with
  | Some v => Some v
  | None => if 0 <? h_size h then Some (decimal (h_size h)) else None
  end.
Proof.
  unfold keep_size. destruct (0 <? h_size h).
  - destruct (pax_get K_usize (h_pax h)) as [v|] eqn:G; [exact G|]. rewrite pax_get_set, eqb_str_refl. reflexivity.
  - destruct (pax_get K_usize (h_pax h)); reflexivity.
Qed.

Lemma usize_ok_keep h : usize_ok (h_pax h) -> usize_ok (keep_size h).
Proof.
  intro H. destruct (keep_size_cases h) as [->|(_ & _ & ->)]; [exact H|]. apply usize_ok_put.
Qed.

(* ---------- delete *)
Definition del_hdr (x : row) : hdr :=
  let h := hdr_of_row x in
  with_size_name (set_pax h (pax_set K_action V_delete (pax_set K_version V_1 (h_pax h)))) 0 (h_name h).

Lemma del_hdr_pax x : h_pax (del_hdr x) = pax_set K_action V_delete (pax_set K_version V_1 (r_pax x)).
Proof. reflexivity. Qed.
Lemma del_hdr_name x : h_name (del_hdr x) = r_name x. Proof. reflexivity. Qed.
Lemma del_hdr_link x : h_link (del_hdr x) = r_link x. Proof. reflexivity. Qed.

Lemma del_hdr_ok hr x : rowok x -> (hr = true -> r_name x <> [slash]) ->
  hnames_ok hr (del_hdr x) /\ ver_ok (del_hdr x) /\ h_act (del_hdr x) = V_delete /\ h_name (del_hdr x) = r_name x.
Proof.
  intros (G & Hk & Hu) Hn.
  assert (A : h_act (del_hdr x) = V_delete) by (unfold h_act; rewrite del_hdr_pax; paxs; reflexivity).
  split; [|split; [|split]]; try assumption; try reflexivity.
  - split; rewrite ?del_hdr_pax, ?del_hdr_name, ?del_hdr_link; try assumption.
    + apply usize_ok_set; [reflexivity|]. apply usize_ok_set; [reflexivity|]. exact Hu.
    + intros Hhr _. exact (Hn Hhr).
    + rewrite A. discriminate.
  - unfold ver_ok. rewrite del_hdr_pax. paxs. reflexivity.
Qed.

(* ---------- move *)
Definition mov_hdr (x : row) (nn : str) : hdr :=
  let h := hdr_of_row x in
  with_size_name (set_pax h (pax_set K_replaces_name (r_name x)
                               (pax_set K_action V_update (pax_set K_version V_1
                                  (pax_del K_replaces_content (keep_size h)))))) 0 nn.

Lemma mov_hdr_pax x nn : h_pax (mov_hdr x nn) =
  pax_set K_replaces_name (r_name x) (pax_set K_action V_update (pax_set K_version V_1 (pax_del K_replaces_content (keep_size (hdr_of_row x))))).
Proof. reflexivity. Qed.
Lemma mov_hdr_name x nn : h_name (mov_hdr x nn) = nn. Proof. reflexivity. Qed.
Lemma mov_hdr_link x nn : h_link (mov_hdr x nn) = r_link x. Proof. reflexivity. Qed.

Lemma mov_hdr_ok hr x nn : rowok x -> r_name x <> [slash] -> good nn -> nn <> [slash] -> nn <> r_name x ->
  hnames_ok hr (mov_hdr x nn) /\ ver_ok (mov_hdr x nn) /\ h_act (mov_hdr x nn) = V_update /\
  h_rep (mov_hdr x nn) = Some (r_name x) /\ h_name (mov_hdr x nn) = nn.
Proof.
  intros (G & Hk & Hu) Hn Gn Hnn Hne.
  assert (A : h_act (mov_hdr x nn) = V_update) by (unfold h_act; rewrite mov_hdr_pax; paxs; reflexivity).
  assert (B : h_rep (mov_hdr x nn) = Some (r_name x)) by (unfold h_rep; rewrite mov_hdr_pax; paxs; reflexivity).
  split; [|split; [|split; [|split]]]; try assumption; try reflexivity.
  - split; rewrite ?mov_hdr_pax, ?mov_hdr_name, ?mov_hdr_link; try assumption.
    + apply usize_ok_set; [reflexivity|]. apply usize_ok_set; [reflexivity|]. apply usize_ok_set; [reflexivity|].
      apply usize_ok_del; [reflexivity|]. apply usize_ok_keep. exact Hu.
    + rewrite A. discriminate.
    + intros _ o Ho. rewrite B in Ho. inversion Ho; subst o. repeat split; assumption.
  - unfold ver_ok. rewrite mov_hdr_pax. paxs. reflexivity.
Qed.
