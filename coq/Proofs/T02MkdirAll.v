(* T02 / MkdirAll: every missing directory on the way from the root to the name is created; nothing
   changes when one of the names on the way is a regular file. *)
From Coq Require Import List NArith ZArith Bool Lia.
From Coq Require Import ZifyN ZifyBool.
Import ListNotations.
From STFS Require Import Str Db Tape Index Ops Fs Diff Norm TapeLemmas StrLemmas
  C01Str C01Db C01Inv C01Sim C01Tape C01Hdr C01Ops C01Ops2 C01Reads C01Fs
  T02Ns T02Db T02Ops T02Reads T02Str T02Closed T02Calls.
Open Scope N_scope.

(* ---------- the loop of STFS.MkdirAll over the names it visits *)
Fixpoint curs (cur : str) (first : bool) (parts : list str) : list str :=
  match parts with
  | [] => []
  | part :: rest =>
    let cur' := if first && eqb_str part [] then [slash]
                else match cur with [] => part | _ => path_join2 cur part end in
    cur' :: curs cur' false rest
  end.

Fixpoint mloop (c : cfg) (s : sys) (ps : list str) (perm : N) : sys * outc :=
  match ps with
  | [] => (s, OOk)
  | p :: rest =>
    match stat_s s p false with
    | (s, Ok h) => if h_tf h =? TypeDir then mloop c s rest perm else (s, OIsFile)
    | (s, NoRows) =>
      match stat_s s p true with
      | (s, Ok h) => if h_tf h =? TypeDir then mloop c s rest perm else (s, OIsFile)
      | (s, NoRows) =>
        match mknode c s true p perm false [] false with
        | (s, OOk) => mloop c s rest perm
        | x => x
        end
      | (s, e) => (s, outc_of_res e)
      end
    | (s, e) => (s, outc_of_res e)
    end
  end.

Lemma mkdirall_loop_mloop c perm parts : forall s cur first,
  mkdirall_loop c s cur first parts perm = mloop c s (curs cur first parts) perm.
Proof.
  induction parts as [|part rest IH]; intros s cur first; [reflexivity|].
  cbn [mkdirall_loop curs mloop].
  set (cur' := if first && eqb_str part [] then [slash] else match cur with [] => part | _ :: _ => path_join2 cur part end).
  destruct (stat_s s cur' false) as [s1 [h| | |e]]; try reflexivity.
  - destruct (h_tf h =? TypeDir); [apply IH|reflexivity].
  - destruct (stat_s s1 cur' true) as [s2 [h| | |e]]; try reflexivity.
    + destruct (h_tf h =? TypeDir); [apply IH|reflexivity].
    + destruct (mknode c s2 true cur' perm false [] false) as [s3 o]. destruct o; try reflexivity. apply IH.
Qed.

(* ---------- the names visited *)
Lemma path_join2_P done c0 : Forall okc done -> okc c0 -> path_join2 (P done) c0 = P (done ++ [c0]).
Proof.
  intros Hd Hc. destruct (okc_head c0 Hc) as (x & t & Ec & _).
  unfold path_join2, P. rewrite Ec. rewrite <- Ec.
  destruct done as [|d0 dr].
  - cbn [join_slash app]. unfold path_clean. rewrite N.eqb_refl.
    rewrite !split_slash_cons_slash. unfold split_slash. rewrite split_aux_noslash by apply Hc. cbn [rev app].
    rewrite clean_comps_ok.
    + cbn [rev app filter eqb_str]. destruct Hc as (H1 & _). apply eqb_str_neq in H1. rewrite H1. reflexivity.
    + constructor; [right; reflexivity|]. constructor; [right; reflexivity|]. constructor; [left; exact Hc|constructor].
  - change ((slash :: join_slash (d0 :: dr)) ++ slash :: c0) with (slash :: (join_slash (d0 :: dr) ++ slash :: c0)).
    rewrite <- join_snoc by discriminate. apply path_clean_good. apply good_P. apply Forall_app. split; [exact Hd|constructor; [exact Hc|constructor]].
Qed.

Lemma curs_paths_from cs : forall done, Forall okc done -> Forall okc cs ->
  curs (P done) false cs = paths_from done cs.
Proof.
  induction cs as [|c0 r IH]; intros done Hd Hc; [reflexivity|]. inversion Hc as [|? ? Hc0 Hr]; subst.
  cbn [curs paths_from andb]. unfold P at 1. cbn iota. fold (P done). rewrite (path_join2_P done c0 Hd Hc0).
  unfold P at 1. f_equal. apply IH; [apply Forall_app; split; [exact Hd|constructor; [exact Hc0|constructor]]|exact Hr].
Qed.

Lemma comps_P cs : Forall okc cs -> comps (P cs) = cs.
Proof.
  intro H. unfold comps, P. destruct cs as [|a r]; [reflexivity|].
  inversion H as [|? ? Ha Hr]; subst. destruct (join_head a r Ha) as (x & t & E & _). rewrite E. rewrite <- E.
  apply split_join; [discriminate|apply okc_noslash; exact H].
Qed.

Lemma curs_top cs : Forall okc cs -> cs <> [] -> curs [] true (split_slash (P cs)) = paths (P cs).
Proof.
  intros H Hne. unfold paths. rewrite (comps_P cs H). unfold P at 1. rewrite split_slash_cons_slash.
  rewrite split_join; [|exact Hne|apply okc_noslash; exact H].
  cbn [curs andb eqb_str]. f_equal. apply (curs_paths_from cs []); [constructor|exact H].
Qed.

Lemma curs_root : curs [] true (split_slash [slash]) = [[slash]; [slash]].
Proof. reflexivity. Qed.

(* ---------- the reference loop *)
Lemma spec_loop_eq c perm now ps : forall a b, ns_eq a b ->
  ns_eq (fst (spec_mkdirall_loop c a ps perm now)) (fst (spec_mkdirall_loop c b ps perm now)) /\
  snd (spec_mkdirall_loop c a ps perm now) = snd (spec_mkdirall_loop c b ps perm now).
Proof.
  induction ps as [|p rest IH]; intros a b E; cbn [spec_mkdirall_loop]; [split; [exact E|reflexivity]|].
  rewrite <- (E p). destruct (lookup a p) as [v|].
  - destruct (is_dir v); [apply IH; exact E|split; [exact E|reflexivity]].
  - apply IH. intro m. rewrite !lookup_ns_set, E. reflexivity.
Qed.

Lemma spec_loop_root_twice c a perm now :
  spec_mkdirall_loop c a [[slash]; [slash]] perm now = spec_mkdirall_loop c a [[slash]] perm now.
Proof.
  cbn [spec_mkdirall_loop]. destruct (lookup a [slash]) as [v|] eqn:E.
  - destruct (is_dir v) eqn:Ed; reflexivity.
  - rewrite lookup_ns_set, eqb_str_refl. reflexivity.
Qed.

(* when every name on the way is missing or a directory, the loop succeeds *)
Lemma spec_loop_ok c perm now ps : forall a,
  (forall q, In q ps -> match lookup a q with Some v => is_dir v = true | None => True end) ->
  snd (spec_mkdirall_loop c a ps perm now) = OOk.
Proof.
  induction ps as [|p rest IH]; intros a H; cbn [spec_mkdirall_loop]; [reflexivity|].
  pose proof (H p (or_introl eq_refl)) as Hp. destruct (lookup a p) as [v|].
  - rewrite Hp. apply IH. intros q Hq. apply H. right. exact Hq.
  - apply IH. intros q Hq. rewrite lookup_ns_set. destruct (eqb_str q p); [reflexivity|]. apply H. right. exact Hq.
Qed.

Fixpoint chain (ps : list str) : Prop :=
  match ps with
  | [] => True
  | p :: rest => good p /\ (forall q, In q rest -> below p q = true) /\ chain rest
  end.

(* in a tree, a failing MkdirAll has created nothing before it fails *)
Lemma spec_loop_fail c perm now ps : forall a, closed a -> chain ps ->
  snd (spec_mkdirall_loop c a ps perm now) <> OOk -> fst (spec_mkdirall_loop c a ps perm now) = a.
Proof.
  induction ps as [|p rest IH]; intros a Hcl Hch Hf; cbn [spec_mkdirall_loop] in *; [reflexivity|].
  destruct Hch as (Gp & Hb & Hch).
  destruct (lookup a p) as [v|] eqn:Ep.
  - destruct (is_dir v); [apply IH; assumption|reflexivity].
  - exfalso. apply Hf. apply spec_loop_ok. intros q Hq. rewrite lookup_ns_set.
    destruct (eqb_str q p); [reflexivity|].
    destruct (lookup a q) as [w|] eqn:Eq; [|exact I]. exfalso.
    destruct (Hcl q w Eq p Gp (Hb q Hq)) as (d & Hd & _). congruence.
Qed.

Lemma in_paths_from cs : forall done q, In q (paths_from done cs) ->
  exists t, t <> [] /\ q = P (done ++ t) /\ exists r, cs = t ++ r.
Proof.
  induction cs as [|c0 r IH]; intros done q H; [contradiction|]. cbn [paths_from] in H. destruct H as [<-|H].
  - exists [c0]. split; [discriminate|]. split; [reflexivity|]. exists r. reflexivity.
  - destruct (IH _ _ H) as (t & Ht & Eq & (r' & Er)). exists (c0 :: t). split; [discriminate|].
    split; [rewrite Eq, <- app_assoc; reflexivity|]. exists r'. rewrite Er. reflexivity.
Qed.

Lemma chain_paths_from cs : forall done, Forall okc done -> Forall okc cs -> chain (paths_from done cs).
Proof.
  induction cs as [|c0 r IH]; intros done Hd Hc; [exact I|]. inversion Hc as [|? ? Hc0 Hr]; subst.
  assert (Hd' : Forall okc (done ++ [c0])) by (apply Forall_app; split; [exact Hd|constructor; [exact Hc0|constructor]]).
  cbn [paths_from chain]. split; [apply (good_P _ Hd')|]. split; [|apply IH; assumption].
  intros q Hq. destruct (in_paths_from r _ q Hq) as (t & Ht & -> & (r' & Er)).
  apply below_comps; [exact Hd'| |exact Ht]. rewrite Er in Hr. apply Forall_app in Hr. apply Hr.
Qed.

Lemma chain_paths n : good n -> chain (paths n).
Proof.
  intros (cs & Hcs & ->). fold (P cs). unfold paths. rewrite (comps_P cs Hcs). cbn [chain].
  split; [apply good_root|]. split; [|apply chain_paths_from; [constructor|exact Hcs]].
  intros q Hq. destruct (in_paths_from cs [] q Hq) as (t & Ht & -> & (r' & Er)). cbn [app].
  change [slash] with (P []). change t with ([] ++ t) at 1. apply below_comps; [constructor| |exact Ht].
  rewrite Er in Hcs. apply Forall_app in Hcs. apply Hcs.
Qed.

Section MkdirAll.
Variable hr : bool.
Variable c : cfg.
Hypothesis HP : plain c.
Hypothesis Hrs : 0 < c_rs c.
Hypothesis Hro : c_readonly c = false.

Lemma mloop_sim perm now ps : forall s a, Wf hr c s -> hbok s -> clk s = now -> ns_eq (abs s) a -> Forall good ps ->
  match ps with p :: _ => p = [slash] \/ alive (db s) | [] => True end ->
  exists s', mloop c s ps perm = (s', snd (spec_mkdirall_loop c a ps perm now)) /\
    Wf hr c s' /\ hbok s' /\ ns_eq (abs s') (fst (spec_mkdirall_loop c a ps perm now)).
Proof.
  induction ps as [|p rest IH]; intros s a HW Hhb Hclk Ea Hg Hal; cbn [mloop spec_mkdirall_loop].
  { exists s. split; [reflexivity|]. split; [exact HW|]. split; [exact Hhb|exact Ea]. }
  inversion Hg as [|? ? Gp Hrest]; subst.
  pose proof (wf_inv hr c s HW) as HI. pose proof (iv_li hr c s HI) as HL.
  assert (Hrows : Forall rowok (rows (db s))) by apply HL.
  assert (Hnd : NoDup (map r_name (rows (db s)))) by apply HL.
  rewrite (stat_false_exact hr s p HL Gp). rewrite <- (Ea p), (lookup_abs hr c s p HI). unfold look.
  assert (NEXT : forall s1 a1, Wf hr c s1 -> hbok s1 -> clk s1 = clk s -> ns_eq (abs s1) a1 -> alive (db s1) ->
     exists s', mloop c s1 rest perm = (s', snd (spec_mkdirall_loop c a1 rest perm (clk s))) /\
       Wf hr c s' /\ hbok s' /\ ns_eq (abs s') (fst (spec_mkdirall_loop c a1 rest perm (clk s)))).
  { intros s1 a1 A B C D F. apply IH; try assumption. destruct rest; [exact I|right; exact F]. }
  destruct (find_rows (rows (db s)) p) as [d|] eqn:Ep; cbn [option_map].
  - change (h_tf (hdr_of_row d)) with (r_tf d). change (is_dir (node_of d)) with (r_tf d =? TypeDir).
    destruct (r_tf d =? TypeDir).
    + apply NEXT; try assumption; [reflexivity|]. apply (live_alive _ p). eapply find_live. exact Ep.
    + exists s. split; [reflexivity|]. split; [exact HW|]. split; [exact Hhb|exact Ea].
  - rewrite (stat_s_true hr s p HL).
    destruct (mknode_exact hr c HP Hrs Hro s true p perm HI Hhb Gp) as (s1 & rec & blk & E & HI1 & Hhb1 & Eclk & Edb).
    { destruct Hal as [->|Hal]; [left; reflexivity|apply alive_cpre; exact Hal]. }
    rewrite E.
    assert (HW1 : Wf hr c s1).
    { split; [exact HI1|]. rewrite Edb, with_rows_rows. apply sizes_upsert; [apply HW|]. reflexivity. }
    assert (Ea1 : ns_eq (abs s1) (ns_set a p (new_node c true perm (clk s) (0, 0)))).
    { intro m. rewrite (lookup_abs hr c s1 m HI1), Edb, with_rows_rows.
      rewrite look_upsert; [|exact Hrows|exact Hnd|reflexivity|reflexivity].
      rewrite lookup_ns_set, <- (Ea m), (lookup_abs hr c s m HI). change (r_name (new_row c true p perm (clk s) rec blk)) with p.
      destruct (eqb_str m p); [|reflexivity]. rewrite node_of_new_row. reflexivity. }
    apply NEXT; try assumption.
    apply (live_alive _ p). rewrite Edb, with_rows_rows.
    apply (upsert_rows_live (rows (db s)) (new_row c true p perm (clk s) rec blk)). reflexivity.
Qed.

Theorem T02_mkdirall s n perm : Wf hr c s -> closed (abs s) -> hbok s -> good n ->
  exists s', step c s (CMkdirAll n perm) = (s', snd (spec_mkdirall c (abs s) n perm (clk s))) /\
    Wf hr c s' /\ hbok s' /\ ns_eq (abs s') (fst (spec_mkdirall c (abs s) n perm (clk s))).
Proof.
  intros HW Hcl Hhb G. cbn [step]. unfold fs_mkdirall. rewrite Hro, (path_clean_good n G), mkdirall_loop_mloop.
  pose proof (chain_paths n G) as Hch. destruct G as (cs & Hcs & ->). fold (P cs) in *.
  assert (SIM : exists s', mloop c s (curs [] true (split_slash (P cs))) perm = (s', snd (spec_mkdirall_loop c (abs s) (paths (P cs)) perm (clk s))) /\
    Wf hr c s' /\ hbok s' /\ ns_eq (abs s') (fst (spec_mkdirall_loop c (abs s) (paths (P cs)) perm (clk s)))).
  { destruct cs as [|c0 r].
    - change (P []) with [slash]. rewrite curs_root. change (paths [slash]) with [[slash]].
      rewrite <- spec_loop_root_twice. apply mloop_sim; try assumption; [reflexivity|apply ns_eq_refl| |left; reflexivity].
      constructor; [apply good_root|constructor; [apply good_root|constructor]].
    - rewrite curs_top by (try assumption; discriminate).
      apply mloop_sim; try assumption; [reflexivity|apply ns_eq_refl| |left; reflexivity].
      clear - Hch. induction (paths (P (c0 :: r))) as [|p ps IH]; [constructor|]. destruct Hch as (A & _ & B). constructor; [exact A|apply IH; exact B]. }
  destruct SIM as (s' & E & HW' & Hhb' & Eq). rewrite E. exists s'. unfold spec_mkdirall.
  destruct (spec_mkdirall_loop c (abs s) (paths (P cs)) perm (clk s)) as [a' o] eqn:Es. cbn [fst snd] in *.
  assert (Hfail : o <> OOk -> a' = abs s).
  { intro Ho. pose proof (spec_loop_fail c perm (clk s) (paths (P cs)) (abs s) Hcl Hch) as K. rewrite Es in K. apply K. exact Ho. }
  destruct o; cbn [fst snd]; (split; [reflexivity|]); (split; [exact HW'|]); (split; [exact Hhb'|]);
    try exact Eq; rewrite <- Hfail by discriminate; exact Eq.
Qed.
End MkdirAll.

(* ---------- MkdirAll keeps the tree shape *)
Lemma closed_loop_from c perm now cs : forall done a, names_good a -> closed a -> Forall okc done -> Forall okc cs ->
  (exists v, lookup a (P done) = Some v /\ is_dir v = true) ->
  closed (fst (spec_mkdirall_loop c a (paths_from done cs) perm now)).
Proof.
  induction cs as [|c0 r IH]; intros done a Hg Hc Hd Hcs (pv & Hpv & Hpd); [exact Hc|].
  inversion Hcs as [|? ? Hc0 Hr]; subst. cbn [paths_from spec_mkdirall_loop]. fold (P (done ++ [c0])).
  assert (Hd' : Forall okc (done ++ [c0])) by (apply Forall_app; split; [exact Hd|constructor; [exact Hc0|constructor]]).
  destruct (lookup a (P (done ++ [c0]))) as [v|] eqn:Ep.
  - destruct (is_dir v) eqn:Ev; [|exact Hc]. apply IH; try assumption. exists v. split; assumption.
  - apply IH; try assumption.
    + apply names_good_set; [exact Hg|apply good_P; exact Hd'].
    + apply (closed_set_dir a (P (done ++ [c0])) _ pv); try assumption; [apply good_P; exact Hd'|].
      rewrite path_dir_snoc by assumption. exact Hpv.
    + eexists. split; [rewrite lookup_ns_set, eqb_str_refl; reflexivity|reflexivity].
Qed.

Lemma closed_mkdirall c a n perm now : names_good a -> good n -> closed a -> closed (fst (spec_mkdirall c a n perm now)).
Proof.
  intros Hg G Hc. unfold spec_mkdirall.
  assert (K : closed (fst (spec_mkdirall_loop c a (paths n) perm now))).
  { destruct G as (cs & Hcs & ->). fold (P cs). unfold paths. rewrite (comps_P cs Hcs). cbn [spec_mkdirall_loop].
    destruct (lookup a [slash]) as [v|] eqn:Er.
    - destruct (is_dir v) eqn:Ev; [|exact Hc]. apply closed_loop_from; try assumption; [constructor|]. exists v. split; assumption.
    - apply closed_loop_from; try assumption.
      + apply names_good_set; [exact Hg|apply good_root].
      + apply closed_set_root; assumption.
      + constructor.
      + eexists. split; [change (P []) with [slash]; rewrite lookup_ns_set, eqb_str_refl; reflexivity|reflexivity]. }
  destruct (spec_mkdirall_loop c a (paths n) perm now) as [a' o]. cbn [fst] in K. destruct o; cbn [fst]; assumption.
Qed.
