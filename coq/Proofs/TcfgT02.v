(* Tcfg / C02 (T02): the per-call refinement to the reference namespace, for arbitrary codec suffixes.
   The state hypothesis [Good hr c s] is literally the one of T02Spec.v; it is equivalent to [Good] of the image state
   under the plain configuration ([Good_Pl]).  NO hypothesis replaces "plain configuration". *)
From Coq Require Import List NArith ZArith Bool Lia.
From Coq Require Import ZifyN ZifyBool.
Import ListNotations.
From STFS Require Import Str Db Tape Index Ops Fs Diff Norm TapeLemmas
  C01Str C01Db C01Inv C01Sim C01Tape C01Ops C01Rows T02Ns T02Db T02Calls T02Create T02Spec
  TcfgSim TcfgOps TcfgFs TcfgHist.
Open Scope N_scope.

(* ---------- the C01 invariant does not see the suffixes *)
Lemma pos_items_efft c t : pos_items (efft c t) <-> pos_items t.
Proof.
  unfold pos_items, efft. rewrite Forall_map. split; apply Forall_impl; intros i; rewrite item_blocks_effi; auto.
Qed.

Lemma efft_split c t pre0 m0 : efft c t = pre0 ++ [TM m0; TT] ->
  exists pre m, t = pre ++ [TM m; TT] /\ pre0 = efft c pre /\ m0 = effm c m.
Proof.
  intro E. unfold efft in E. apply map_eq_app in E as (pre & tl & -> & E1 & E2).
  destruct tl as [|i [|j [|k tl]]]; try discriminate. cbn [map] in E2. inversion E2 as [[Ei Ej]].
  destruct i as [m|]; [|discriminate]. destruct j; [discriminate|]. cbn [effi] in Ei. inversion Ei.
  exists pre, m. split; [reflexivity|]. split; [symmetry; exact E1|reflexivity].
Qed.

Lemma Inv_Pl hr c s : Inv hr c s <-> Inv hr (plain_of c) (Pl c s).
Proof.
  split; intros [A B C D]; split; cbn [tp db Pl] in *.
  - exact A.
  - rewrite rebuild_eff. exact B.
  - apply pos_items_efft. exact C.
  - destruct D as (pre & m & E & D1 & D2). exists (efft c pre), (effm c m). rewrite E, efft_app, tape_blocks_efft.
    split; [reflexivity|]. split; assumption.
  - exact A.
  - rewrite rebuild_eff in B. exact B.
  - apply pos_items_efft in C. exact C.
  - destruct D as (pre0 & m0 & E & D1 & D2). apply efft_split in E as (pre & m & E & -> & ->).
    rewrite tape_blocks_efft in D1, D2. exists pre, m. split; [exact E|]. split; assumption.
Qed.

Lemma Wf_Pl hr c s : Wf hr c s <-> Wf hr (plain_of c) (Pl c s).
Proof.
  split; intros [A B]; split; try exact B; [apply (proj1 (Inv_Pl hr c s))|apply (proj2 (Inv_Pl hr c s))]; exact A.
Qed.

Lemma Good_Pl hr c s : Good hr c s <-> Good hr (plain_of c) (Pl c s).
Proof.
  split; intros [A B]; split; try exact B; [apply (proj1 (Wf_Pl hr c s))|apply (proj2 (Wf_Pl hr c s))]; exact A.
Qed.

Lemma spec_mkdirall_loop_plain_of c ps perm now : forall a,
  spec_mkdirall_loop (plain_of c) a ps perm now = spec_mkdirall_loop c a ps perm now.
Proof.
  induction ps as [|p rest IH]; intro a; [reflexivity|]. cbn [spec_mkdirall_loop].
  destruct (lookup a p) as [v|]; [destruct (is_dir v); [apply IH|reflexivity]|].
  change (new_node (plain_of c) true perm now (0, 0)) with (new_node c true perm now (0, 0)). apply IH.
Qed.

Lemma spec_call_plain_of c a k now cid : spec_call (plain_of c) a k now cid = spec_call c a k now cid.
Proof.
  destruct k; try reflexivity. cbn [spec_call]. unfold spec_mkdirall. rewrite spec_mkdirall_loop_plain_of. reflexivity.
Qed.

Section Any.
Variable hr : bool.
Variable c : cfg.
Hypothesis Hrs : 0 < c_rs c.
Hypothesis Hro : c_readonly c = false.

(* ---------- one call *)
Theorem T02_step_any_config : forall s e k, Good hr c s -> hb_env e -> call_pre (abs s) k ->
  let '(s', o) := step c (with_env s e) k in
  exists cid sp, spec_call c (abs s) k (ev_now e) cid = Some sp /\
    Good hr c s' /\ o = snd sp /\ ns_eq (abs s') (fst sp).
Proof.
  intros s e k HG Hhb Hpre.
  pose proof (T02_step hr (plain_of c) (plain_of_plain c) Hrs Hro (Pl c s) e k (proj1 (Good_Pl hr c s) HG) Hhb Hpre) as K.
  rewrite with_env_Pl, (step_Pl c (with_env s e) k) in K.
  destruct (step c (with_env s e) k) as [s' o]. unfold liftP in K. cbn [fst snd] in K.
  destruct K as (cid & sp & E & HG' & Eo & Eq). exists cid, sp.
  rewrite spec_call_plain_of in E. split; [exact E|]. split; [apply Good_Pl; exact HG'|]. split; [exact Eo|exact Eq].
Qed.

(* ---------- CreateFile on an existing regular file (the corner excluded from [call_pre] included) *)
Theorem T02_create_file_existing_any_config : forall s e n d v, Good hr c s -> hb_env e ->
  good n -> n <> [slash] -> clen d < 10 ^ 40 ->
  lookup (abs s) n = Some v -> is_dir v = false ->
  let '(s', o) := step c (with_env s e) (CCreateFile n d) in
  exists cid, Good hr c s' /\ o = OOk /\
    ns_eq (abs s') (if (n_size v =? 0) && no_content d
                    then abs s else ns_upd (abs s) n (flushed_node (clen d) (ev_now e) cid)).
Proof.
  intros s e n d v HG Hhb G Hn Hlen Hv Hnd.
  pose proof (T02_create_file_existing hr (plain_of c) (plain_of_plain c) Hrs Hro (Pl c s) e n d v
                (proj1 (Good_Pl hr c s) HG) Hhb G Hn Hlen Hv Hnd) as K.
  rewrite with_env_Pl, (step_Pl c (with_env s e) _) in K.
  destruct (step c (with_env s e) (CCreateFile n d)) as [s' o]. unfold liftP in K. cbn [fst snd] in K.
  destruct K as (cid & HG' & Eo & Eq). exists cid. split; [apply Good_Pl; exact HG'|]. split; [exact Eo|exact Eq].
Qed.

Theorem T02_create_file_existing_reference_any_config : forall s e n d v, Good hr c s -> hb_env e ->
  good n -> n <> [slash] -> clen d < 10 ^ 40 ->
  lookup (abs s) n = Some v -> is_dir v = false ->
  let '(s', o) := step c (with_env s e) (CCreateFile n d) in
  exists cid, Good hr c s' /\ o = snd (spec_create_file c (abs s) n (clen d) (ev_now e) cid) /\
    if (n_size v =? 0) && no_content d then ns_eq (abs s') (abs s)
    else ns_eq (abs s') (fst (spec_create_file c (abs s) n (clen d) (ev_now e) cid)).
Proof.
  intros s e n d v HG Hhb G Hn Hlen Hv Hnd.
  pose proof (T02_create_file_existing_reference hr (plain_of c) (plain_of_plain c) Hrs Hro (Pl c s) e n d v
                (proj1 (Good_Pl hr c s) HG) Hhb G Hn Hlen Hv Hnd) as K.
  rewrite with_env_Pl, (step_Pl c (with_env s e) _) in K.
  destruct (step c (with_env s e) (CCreateFile n d)) as [s' o]. unfold liftP in K. cbn [fst snd] in K.
  destruct K as (cid & HG' & Eo & Eq). exists cid. split; [apply Good_Pl; exact HG'|]. split; [exact Eo|exact Eq].
Qed.

(* ---------- histories *)
Lemma ok_run_Pl r : forall s, ok_run c s r <-> ok_run (plain_of c) (Pl c s) r.
Proof.
  induction r as [|[k e] r IH]; intros s; cbn [ok_run]; [tauto|].
  rewrite with_env_Pl, (step_Pl c (with_env s e) k). unfold liftP. cbn [fst].
  rewrite (IH (fst (step c (with_env s e) k))). change (abs (Pl c s)) with (abs s). tauto.
Qed.

Lemma conforms_Pl r : forall s, conforms c s r <-> conforms (plain_of c) (Pl c s) r.
Proof.
  induction r as [|[k e] r IH]; intros s; cbn [conforms]; [tauto|].
  rewrite with_env_Pl, (step_Pl c (with_env s e) k).
  destruct (step c (with_env s e) k) as [s' o]. unfold liftP. cbn [fst snd].
  rewrite (IH s'). change (abs (Pl c s)) with (abs s). change (abs (Pl c s')) with (abs s').
  split; intros ((cid & sp & E & K) & C); (split; [|exact C]); exists cid, sp;
    [rewrite spec_call_plain_of|rewrite spec_call_plain_of in E]; (split; [exact E|exact K]).
Qed.

Theorem T02_history_any_config : forall r s, Good hr c s -> ok_run c s r ->
  conforms c s r /\ Good hr c (final c s r).
Proof.
  intros r s HG Hok.
  destruct (T02_history hr (plain_of c) (plain_of_plain c) Hrs Hro r (Pl c s) (proj1 (Good_Pl hr c s) HG)
              (proj1 (ok_run_Pl r s) Hok)) as (A & B).
  split; [apply (conforms_Pl r s); exact A|]. apply Good_Pl. rewrite <- (final_Pl c r s). exact B.
Qed.
End Any.

Print Assumptions T02_step_any_config.
Print Assumptions T02_history_any_config.
Print Assumptions T02_create_file_existing_any_config.
