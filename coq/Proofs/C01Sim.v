(* C01 / simulation: index operations and indexHeader on a live index (LI) and on the rebuilt
   one related by R. *)
From Coq Require Import List NArith ZArith Bool Lia.
From Coq Require Import ZifyN ZifyBool.
Import ListNotations.
From STFS Require Import Str Db Tape Index Norm C01Str C01Db C01Inv.
Open Scope N_scope.

Definition plain (c : cfg) : Prop := c_csuf c = [] /\ c_esuf c = [].

Lemma remove_suffix_plain c n : plain c -> remove_suffix c n = n.
Proof. intros [A B]. unfold remove_suffix. rewrite A, B, !trim_suffix_nil. reflexivity. Qed.
Lemma add_suffix_plain c n : plain c -> add_suffix c n = n.
Proof. intros [A B]. unfold add_suffix. rewrite A, B, !app_nil_r. reflexivity. Qed.
Lemma suffix_if_plain c (b : bool) n : plain c -> (if b then add_suffix c n else n) = n.
Proof. intro HP. destruct b; [apply add_suffix_plain; exact HP|reflexivity]. Qed.


(* ---------- state plumbing *)
Lemma with_rows_rows p l : rows (with_rows p l) = l. Proof. reflexivity. Qed.
Lemma with_rows_root p l : root (with_rows p l) = root p. Proof. reflexivity. Qed.
Lemma with_rows_re p l : root_empty (with_rows p l) = root_empty p. Proof. reflexivity. Qed.

Lemma LI_with hr lv l : LI hr lv -> LL hr l -> LI hr (with_rows lv l).
Proof. intros [A B C] H. split; assumption. Qed.

Lemma R_with lv rbm l : root rbm = [] -> (root_empty rbm = true \/ allroot l) ->
  R (with_rows lv l) (with_rows rbm (NR l)).
Proof. intros H H3. split; [reflexivity|exact H|exact H3]. Qed.

Lemma R_mark lv rb n : R lv rb -> R lv (mark rb n).
Proof.
  intros [A B C]. split; [rewrite mark_rows; exact A|rewrite mark_root; exact B|].
  destruct C as [C|C]; [left; apply mark_mono; exact C|right; exact C].
Qed.

Lemma R3_mark lv rb n l' : R lv rb -> (n = [slash] -> allroot (rows lv) -> allroot l') ->
  root_empty (mark rb n) = true \/ allroot l'.
Proof.
  intros [_ _ C] H. destruct (eqb_str n [slash]) eqn:E.
  - apply eqb_str_eq in E. subst n. rewrite mark_root_name. destruct C as [C|C]; [left; exact C|right; apply H; [reflexivity|exact C]].
  - left. apply mark_nonroot. apply eqb_str_neq. exact E.
Qed.

Lemma LI_absr hr lv : LI hr lv -> Forall absr (rows lv).
Proof. intros [_ _ H]. eapply LL_absr. exact H. Qed.

(* when may the rebuilt side sanitize a name: the root itself, or the "" row is live, or the
   root-empty flag is already cached *)
Definition pre (lv rb : pstate) (n : str) : Prop :=
  n = [slash] \/ root_empty rb = true \/ live_name (rows lv) [slash] = true.

Lemma pre_hr lv rb n : LI true lv -> pre lv rb n.
Proof.
  intros [_ _ [_ _ H]]. destruct (H eq_refl) as (r0 & tl & E & A & B). right. right.
  unfold live_name. rewrite E. cbn [existsb]. unfold live. rewrite B, A. reflexivity.
Qed.

Lemma pre_mark lv rb m n : pre lv rb n -> pre lv (mark rb m) n.
Proof. intros [H|[H|H]]; [left; exact H|right; left; apply mark_mono; exact H|right; right; exact H]. Qed.

Lemma pre_re lv rb n : root_empty rb = true -> pre lv rb n.
Proof. intro H. right. left. exact H. Qed.

Lemma sanitize_rb hr lv rb n : LI hr lv -> R lv rb -> good n -> pre lv rb n ->
  sanitize rb n = (mark rb n, norm_name n).
Proof.
  intros HL HR G Hpre. apply sanitize_reb; [apply HR|exact G|].
  destruct Hpre as [H|[H|H]]; [left; exact H|right; left; exact H|right; right].
  unfold exists_exact. rewrite (r_rows lv rb HR).
  pose proof (exists_exact_NR (rows lv) (LI_absr hr lv HL) [slash] eq_refl) as E.
  change (norm_name [slash]) with (@nil N) in E. rewrite E. exact H.
Qed.

Lemma sanitize_lv hr lv n : LI hr lv -> good n -> sanitize lv n = (lv, n).
Proof. intros HL G. apply sanitize_live; [apply HL|exact G]. Qed.

(* ---------- upsert *)
Lemma upsert_lv hr lv r0 : LI hr lv -> good (r_name r0) ->
  upsert lv r0 false = (with_rows lv (upsert_rows (rows lv) r0), Ok tt).
Proof.
  intros HL G. rewrite upsert_form, (sanitize_lv hr lv _ HL G). cbn [fst snd]. rewrite set_name_id. reflexivity.
Qed.

Lemma upsert_rb hr lv rb r0 : LI hr lv -> R lv rb -> good (r_name r0) -> pre lv rb (r_name r0) ->
  upsert rb r0 false = (with_rows (mark rb (r_name r0)) (NR (upsert_rows (rows lv) r0)), Ok tt).
Proof.
  intros HL HR G Hp. rewrite upsert_form, (sanitize_rb hr lv rb _ HL HR G Hp). cbn [fst snd].
  rewrite mark_rows. rewrite (r_rows lv rb HR).
  rewrite upsert_rows_NR; [reflexivity|eapply LI_absr; exact HL|apply good_abs; exact G].
Qed.

(* ---------- update_meta *)
Lemma update_meta_lv hr lv r0 : LI hr lv -> good (r_name r0) ->
  update_meta lv r0 = (with_rows lv (replace_row (r_name r0) (r_link r0) r0 (rows lv)), Ok tt).
Proof.
  intros HL G. rewrite update_meta_form, (sanitize_lv hr lv _ HL G). cbn [fst snd]. rewrite set_name_id. reflexivity.
Qed.

Lemma update_meta_rb hr lv rb r0 : LI hr lv -> R lv rb -> good (r_name r0) -> pre lv rb (r_name r0) ->
  update_meta rb r0 = (with_rows (mark rb (r_name r0)) (NR (replace_row (r_name r0) (r_link r0) r0 (rows lv))), Ok tt).
Proof.
  intros HL HR G Hp. rewrite update_meta_form, (sanitize_rb hr lv rb _ HL HR G Hp). cbn [fst snd].
  rewrite mark_rows. rewrite (r_rows lv rb HR).
  rewrite replace_row_NR; [reflexivity|eapply LI_absr; exact HL|apply good_abs; exact G].
Qed.

(* ---------- get_header *)
Lemma get_header_lv hr lv n : LI hr lv -> good n ->
  get_header lv n = (lv, match find_rows (rows lv) n with Some r => Ok r | None => NoRows end).
Proof. intros HL G. rewrite get_header_form, (sanitize_lv hr lv _ HL G). reflexivity. Qed.

Lemma get_header_rb hr lv rb n : LI hr lv -> R lv rb -> good n -> pre lv rb n ->
  get_header rb n = (mark rb n, match find_rows (rows lv) n with Some r => Ok (norm_row r) | None => NoRows end).
Proof.
  intros HL HR G Hp. rewrite get_header_form, (sanitize_rb hr lv rb _ HL HR G Hp). cbn [fst snd].
  rewrite mark_rows. rewrite (r_rows lv rb HR).
  rewrite find_rows_NR; [|eapply LI_absr; exact HL|apply good_abs; exact G].
  destruct (find_rows (rows lv) n); reflexivity.
Qed.

(* ---------- delete_row *)
Lemma find_rows_link hr lv n r : LI hr lv -> find_rows (rows lv) n = Some r -> r_link r = [] /\ r_name r = n /\ rowok r.
Proof.
  intros [_ _ [H _ _]] E. apply find_rows_some in E as (Hin & _ & Hn).
  rewrite Forall_forall in H. pose proof (H r Hin) as K. destruct K as (G & Hk & U). repeat split; assumption.
Qed.

Lemma delete_row_lv hr lv n a b : LI hr lv -> good n ->
  delete_row lv n a b =
  match find_rows (rows lv) n with
  | None => (lv, NoRows)
  | Some r => (with_rows lv (replace_row n [] (set_lk r a b true) (rows lv)), Ok (set_lk r a b true))
  end.
Proof.
  intros HL G. rewrite delete_row_form, (sanitize_lv hr lv _ HL G). cbn [fst snd].
  destruct (find_rows (rows lv) n) as [r|] eqn:E; [|reflexivity].
  destruct (find_rows_link hr lv n r HL E) as (Hk & _). rewrite Hk. reflexivity.
Qed.

Lemma delete_row_rb hr lv rb n a b : LI hr lv -> R lv rb -> good n -> pre lv rb n ->
  delete_row rb n a b =
  match find_rows (rows lv) n with
  | None => (mark rb n, NoRows)
  | Some r => (with_rows (mark rb n) (NR (replace_row n [] (set_lk r a b true) (rows lv))),
               Ok (norm_row (set_lk r a b true)))
  end.
Proof.
  intros HL HR G Hp. rewrite delete_row_form, (sanitize_rb hr lv rb _ HL HR G Hp). cbn [fst snd].
  rewrite mark_rows. rewrite (r_rows lv rb HR).
  rewrite find_rows_NR; [|eapply LI_absr; exact HL|apply good_abs; exact G].
  destruct (find_rows (rows lv) n) as [r|] eqn:E; cbn [option_map]; [|reflexivity].
  destruct (find_rows_link hr lv n r HL E) as (Hk & _).
  change (r_link (norm_row r)) with (r_link r). rewrite Hk.
  rewrite replace_row_NR; [reflexivity|eapply LI_absr; exact HL|apply good_abs; exact G].
Qed.

(* ---------- move_rows *)
Lemma move_rows_lv hr lv old new a b : LI hr lv -> good old -> good new ->
  move_rows lv old new a b =
  (with_rows lv (fst (move_list (rows lv) old new a b)), snd (move_list (rows lv) old new a b)).
Proof.
  intros HL Go Gn. rewrite move_rows_form. cbn zeta.
  rewrite (sanitize_lv hr lv new HL Gn). cbn [fst snd]. rewrite (sanitize_lv hr lv old HL Go). reflexivity.
Qed.

Lemma move_rows_rb hr lv rb old new a b : LI hr lv -> R lv rb -> good old -> good new ->
  pre lv rb new -> pre lv rb old ->
  move_rows rb old new a b =
  (with_rows (mark (mark rb new) old) (NR (fst (move_list (rows lv) old new a b))),
   snd (move_list (rows lv) old new a b)).
Proof.
  intros HL HR Go Gn Hpn Hpo. rewrite move_rows_form. cbn zeta.
  rewrite (sanitize_rb hr lv rb new HL HR Gn Hpn). cbn [fst snd].
  rewrite (sanitize_rb hr lv (mark rb new) old HL (R_mark lv rb new HR) Go (pre_mark lv rb new old Hpo)). cbn [fst snd].
  rewrite !mark_rows. rewrite (r_rows lv rb HR).
  rewrite move_list_NR; [reflexivity|eapply LI_absr; exact HL|apply good_abs; exact Go|apply good_abs; exact Gn].
Qed.

(* ---------- indexHeader, restated for a plain configuration *)
Definition h_act (h : hdr) : str := match pax_get K_action (h_pax h) with Some v => v | None => V_create end.
Definition h_rep (h : hdr) : option str := pax_get K_replaces_name (h_pax h).
Definition usz (h0 : hdr) : option N :=
  match pax_get K_usize (h_pax h0) with
  | Some v => match undecimal v with Some n => Some n | None => None end
  | None => Some (h_size h0) end.

Definition upd_body (rec blk : N) (h : hdr) (p : pstate) : pstate * res unit :=
  let old_name := match h_rep h with Some o => o | None => h_name h end in
  let moves := match h_rep h with Some _ => true | None => false end in
  let move (p : pstate) : pstate * res unit :=
    if moves then move_rows p old_name (h_name h) rec blk else (p, Ok tt) in
  let content_update (p : pstate) : pstate * res unit :=
    lift (move p) (fun p _ => update_meta p (row_of_hdr rec rec blk blk h)) in
  let meta_update (p : pstate) : pstate * res unit :=
    match get_header p old_name with
    | (p, Ok o) => lift (move p) (fun p _ => update_meta p (row_of_hdr (r_rec o) rec (r_blk o) blk h))
    | (p, NoRows) => move p
    | (p, Unique) => (p, Unique)
    | (p, Fail e) => (p, Fail e)
    end in
  match pax_get K_replaces_content (h_pax h) with
  | Some v => if eqb_str v V_true then content_update p else meta_update p
  | None => meta_update p
  end.

Definition ih_body (rec blk : N) (h : hdr) (init : bool) (p : pstate) : pstate * res unit :=
  let ver := match pax_get K_version (h_pax h) with Some v => v | None => V_1 end in
  if negb (eqb_str ver V_1) then (p, Fail E_version) else
  if eqb_str (h_act h) V_create then upsert p (row_of_hdr rec rec blk blk h) init
  else if eqb_str (h_act h) V_delete then lift (delete_row p (h_name h) rec blk) (fun p _ => (p, Ok tt))
  else if eqb_str (h_act h) V_update then upd_body rec blk h p
  else (p, Fail E_action).

Lemma index_header_plain c rec blk h0 init p : plain c ->
  index_header c rec blk h0 init p =
  match usz h0 with
  | None => (p, Fail E_atoi)
  | Some sz => ih_body rec blk (with_size_name h0 sz (h_name h0)) init p
  end.
Proof.
  intro HP. unfold index_header, usz.
  destruct (match pax_get K_usize (h_pax h0) with
            | Some v => match undecimal v with Some n => Some n | None => None end
            | None => Some (h_size h0) end) as [sz|]; [|reflexivity].
  unfold indexed_name. rewrite remove_suffix_plain by exact HP.
  replace (if tf_regular (h_tf h0) && (0 <? h_size h0) then h_name h0 else h_name h0) with (h_name h0)
    by (destruct (tf_regular (h_tf h0) && (0 <? h_size h0)); reflexivity).
  reflexivity.
Qed.

Record hnames_ok (hr : bool) (h : hdr) : Prop := {
  hn_name : good (h_name h);
  hn_link : h_link h = [];
  hn_usize : usize_ok (h_pax h);
  hn_del : hr = true -> h_act h = V_delete -> h_name h <> [slash];
  hn_rep : h_act h = V_update -> forall o, h_rep h = Some o ->
           good o /\ o <> [slash] /\ h_name h <> [slash] /\ h_name h <> o }.

Lemma hnames_ok_wsn hr h sz : hnames_ok hr h -> hnames_ok hr (with_size_name h sz (h_name h)).
Proof. intros [A B C D E]. split; assumption. Qed.

Lemma hnames_ok_weaken hr h : hnames_ok hr h -> hnames_ok false h.
Proof. intros [A B C D E]. split; try assumption. discriminate. Qed.

(* precondition of a header on the rebuilt side *)
Definition hpre (lv rb : pstate) (h : hdr) : Prop :=
  root_empty rb = true \/ live_name (rows lv) [slash] = true \/
  (h_name h = [slash] /\ (h_act h = V_update -> h_rep h = None)).

Lemma hpre_hr lv rb h : LI true lv -> hpre lv rb h.
Proof. intro HL. destruct (pre_hr lv rb [] HL) as [K|[K|K]]; [discriminate|left; exact K|right; left; exact K]. Qed.

Definition lksub (l l' : list row) (x : N * N) : Prop := forall y, In y (lks l') -> In y (lks l) \/ y = x.

Lemma lksub_refl l x : lksub l l x.
Proof. intros y H. left. exact H. Qed.
Lemma lksub_trans l l1 l2 x : lksub l l1 x -> lksub l1 l2 x -> lksub l l2 x.
Proof. intros H1 H2 y Hy. destruct (H2 y Hy) as [K|K]; [apply H1; exact K|right; exact K]. Qed.

Definition remono (rb rb' : pstate) : Prop := root_empty rb = true -> root_empty rb' = true.

(* ---------- simulation of the pieces *)
Lemma rowok_row_of_hdr hr a b c d h : hnames_ok hr h -> rowok (row_of_hdr a b c d h) /\ r_del (row_of_hdr a b c d h) = false.
Proof. intros [A B C _ _]. split; [repeat split; assumption|reflexivity]. Qed.

Lemma upsert_sim hr lv rb r0 : LI hr lv -> R lv rb -> rowok r0 -> r_del r0 = false -> pre lv rb (r_name r0) ->
  exists lv' rb', upsert lv r0 false = (lv', Ok tt) /\ upsert rb r0 false = (rb', Ok tt) /\
    LI hr lv' /\ R lv' rb' /\ lksub (rows lv) (rows lv') (r_lkrec r0, r_lkblk r0) /\ remono rb rb' /\
    lv' = with_rows lv (upsert_rows (rows lv) r0).
Proof.
  intros HL HR Hok Hd Hp. pose proof Hok as (G & _).
  eexists _, _. split; [eapply upsert_lv; eassumption|]. split; [eapply upsert_rb; eassumption|].
  split; [apply LI_with; [exact HL|apply upsert_rows_LL; [apply HL|exact Hok|exact Hd]]|].
  split; [apply R_with; [rewrite mark_root; apply HR|]|].
  { apply (R3_mark lv rb _ _ HR). intros E A. apply upsert_rows_allroot; assumption. }
  split; [intros y Hy; apply upsert_rows_lks; exact Hy|].
  split; [|reflexivity]. intro K. cbn. apply mark_mono. exact K.
Qed.

Lemma update_meta_sim hr lv rb r0 : LI hr lv -> R lv rb -> rowok r0 -> r_del r0 = false -> pre lv rb (r_name r0) ->
  exists lv' rb', update_meta lv r0 = (lv', Ok tt) /\ update_meta rb r0 = (rb', Ok tt) /\
    LI hr lv' /\ R lv' rb' /\ lksub (rows lv) (rows lv') (r_lkrec r0, r_lkblk r0) /\ remono rb rb' /\
    lv' = with_rows lv (replace_row (r_name r0) [] r0 (rows lv)).
Proof.
  intros HL HR Hok Hd Hp. pose proof Hok as (G & Hk & _).
  eexists _, _. split; [eapply update_meta_lv; eassumption|]. split; [eapply update_meta_rb; eassumption|].
  rewrite Hk.
  split; [apply LI_with; [exact HL|apply replace_row_LL; [apply HL|exact Hok|reflexivity|auto]]|].
  split; [apply R_with; [rewrite mark_root; apply HR|]|].
  { apply (R3_mark lv rb _ _ HR). intros E A. apply replace_row_allroot; assumption. }
  split; [intros y Hy; eapply replace_row_lks; exact Hy|].
  split; [|reflexivity]. intro K. cbn. apply mark_mono. exact K.
Qed.

Lemma move_sim hr lv rb old new a b : LI hr lv -> R lv rb -> good old -> good new ->
  old <> [slash] -> new <> [slash] -> new <> old -> pre lv rb new ->
  exists lv' rb', move_rows lv old new a b = (lv', Ok tt) /\ move_rows rb old new a b = (rb', Ok tt) /\
    LI hr lv' /\ R lv' rb' /\ lksub (rows lv) (rows lv') (a, b) /\ root_empty rb' = true /\
    lv' = with_rows lv (map (mv_fun old new a b) (mv_rows1 (rows lv) old new)).
Proof.
  intros HL HR Go Gn Ho Hn Hne Hp.
  pose proof (move_list_live (rows lv) old new a b ltac:(apply HL) Hne) as E.
  assert (Hre : root_empty (mark (mark rb new) old) = true) by (apply mark_mono; apply mark_nonroot; exact Hn).
  assert (Hpo : pre lv rb old).
  { destruct Hp as [K|[K|K]]; [contradiction|right; left; exact K|right; right; exact K]. }
  eexists _, _. split; [rewrite (move_rows_lv hr) by assumption; rewrite E; reflexivity|].
  split; [rewrite (move_rows_rb hr lv rb) by assumption; rewrite E; reflexivity|]. cbn [fst snd].
  split; [apply LI_with; [exact HL|apply mv_result_LL; try assumption; apply HL]|].
  split; [apply R_with; [rewrite !mark_root; apply HR|left; exact Hre]|].
  split; [intros y Hy; eapply mv_result_lks; exact Hy|].
  split; [exact Hre|reflexivity].
Qed.

Lemma delete_sim hr lv rb n a b : LI hr lv -> R lv rb -> good n -> (hr = true -> n <> [slash]) -> pre lv rb n ->
  exists lv' rb' res, lift (delete_row lv n a b) (fun p _ => (p, Ok tt)) = (lv', res) /\
    lift (delete_row rb n a b) (fun p _ => (p, Ok tt)) = (rb', res) /\
    (res = Ok tt -> LI hr lv' /\ R lv' rb' /\ lksub (rows lv) (rows lv') (a, b) /\ remono rb rb').
Proof.
  intros HL HR G Hn Hp. rewrite (delete_row_lv hr lv n a b HL G), (delete_row_rb hr lv rb n a b HL HR G Hp).
  destruct (find_rows (rows lv) n) as [r|] eqn:E; cbn [lift].
  - eexists _, _, _. split; [reflexivity|]. split; [reflexivity|]. intros _.
    destruct (find_rows_link hr lv n r HL E) as (Hk & Hrn & (G' & _ & U)).
    split; [apply LI_with; [exact HL|apply replace_row_LL; [apply HL|repeat split; assumption|exact Hrn|]]|].
    { intros Hhr K. exfalso. exact (Hn Hhr K). }
    split; [apply R_with; [rewrite mark_root; apply HR|]|].
    { apply (R3_mark lv rb _ _ HR). intros En A. apply replace_row_allroot; [exact A|]. cbn. congruence. }
    split; [intros y Hy; exact (replace_row_lks n [] (set_lk r a b true) (rows lv) y Hy)|].
    intro K. cbn. apply mark_mono. exact K.
  - eexists _, _, _. split; [reflexivity|]. split; [reflexivity|]. discriminate.
Qed.

(* ---------- simulation of indexHeader *)
Lemma upd_body_sim hr rec blk h lv rb : LI hr lv -> R lv rb -> hnames_ok hr h -> h_act h = V_update -> hpre lv rb h ->
  exists lv' rb' res, upd_body rec blk h lv = (lv', res) /\ upd_body rec blk h rb = (rb', res) /\
    (res = Ok tt -> LI hr lv' /\ R lv' rb' /\ lksub (rows lv) (rows lv') (rec, blk) /\ remono rb rb').
Proof.
  intros HL HR HN Hact Hpre. unfold upd_body.
  pose proof (hn_rep hr h HN Hact) as Hrep. pose proof (hn_name hr h HN) as Gn.
  assert (Pn : pre lv rb (h_name h)).
  { destruct Hpre as [K|[K|[K _]]]; [right; left; exact K|right; right; exact K|left; exact K]. }
  assert (Po : forall o, h_rep h = Some o -> pre lv rb o).
  { intros o Eo. destruct Hpre as [K|[K|[_ K]]]; [right; left; exact K|right; right; exact K|]. specialize (K Hact). congruence. }
  (* the rename step, on related states *)
  assert (MV : forall lv0 rb0, LI hr lv0 -> R lv0 rb0 -> pre lv0 rb0 (h_name h) ->
     exists lv1 rb1,
       (if match h_rep h with Some _ => true | None => false end
        then move_rows lv0 (match h_rep h with Some o => o | None => h_name h end) (h_name h) rec blk else (lv0, Ok tt)) = (lv1, Ok tt) /\
       (if match h_rep h with Some _ => true | None => false end
        then move_rows rb0 (match h_rep h with Some o => o | None => h_name h end) (h_name h) rec blk else (rb0, Ok tt)) = (rb1, Ok tt) /\
       LI hr lv1 /\ R lv1 rb1 /\ lksub (rows lv0) (rows lv1) (rec, blk) /\ remono rb0 rb1 /\ pre lv1 rb1 (h_name h)).
  { intros lv0 rb0 HL0 HR0 Hp0. destruct (h_rep h) as [o|] eqn:Er.
    - destruct (Hrep o eq_refl) as (Go & Ho & Hn & Hne).
      destruct (move_sim hr lv0 rb0 o (h_name h) rec blk HL0 HR0 Go Gn Ho Hn Hne Hp0) as (lv1 & rb1 & A & B & C & D & E & F & _).
      exists lv1, rb1. split; [exact A|]. split; [exact B|]. split; [exact C|]. split; [exact D|]. split; [exact E|].
      split; [intros _; exact F|apply pre_re; exact F].
    - exists lv0, rb0. split; [reflexivity|]. split; [reflexivity|]. split; [exact HL0|]. split; [exact HR0|].
      split; [apply lksub_refl|]. split; [intro K; exact K|exact Hp0]. }
  (* rename then edit *)
  assert (CU : forall lv0 rb0 r1 r2, LI hr lv0 -> R lv0 rb0 -> pre lv0 rb0 (h_name h) ->
     exists lv' rb',
       lift (if match h_rep h with Some _ => true | None => false end
             then move_rows lv0 (match h_rep h with Some o => o | None => h_name h end) (h_name h) rec blk else (lv0, Ok tt))
            (fun p _ => update_meta p (row_of_hdr r1 rec r2 blk h)) = (lv', Ok tt) /\
       lift (if match h_rep h with Some _ => true | None => false end
             then move_rows rb0 (match h_rep h with Some o => o | None => h_name h end) (h_name h) rec blk else (rb0, Ok tt))
            (fun p _ => update_meta p (row_of_hdr r1 rec r2 blk h)) = (rb', Ok tt) /\
       LI hr lv' /\ R lv' rb' /\ lksub (rows lv0) (rows lv') (rec, blk) /\ remono rb0 rb').
  { intros lv0 rb0 r1 r2 HL0 HR0 Hp0. destruct (MV lv0 rb0 HL0 HR0 Hp0) as (lv1 & rb1 & A & B & C & D & E & F & P1).
    rewrite A, B. cbn [lift].
    destruct (rowok_row_of_hdr hr r1 rec r2 blk h HN) as (Hok & Hd).
    destruct (update_meta_sim hr lv1 rb1 _ C D Hok Hd P1) as (lv2 & rb2 & A2 & B2 & C2 & D2 & E2 & F2 & _).
    exists lv2, rb2. split; [exact A2|]. split; [exact B2|]. split; [exact C2|]. split; [exact D2|].
    split; [eapply lksub_trans; [exact E|exact E2]|]. intro K. apply F2. apply F. exact K. }
  assert (MU : exists lv' rb' res,
     match get_header lv (match h_rep h with Some o => o | None => h_name h end) with
     | (p, Ok o) => lift (if match h_rep h with Some _ => true | None => false end
             then move_rows p (match h_rep h with Some o => o | None => h_name h end) (h_name h) rec blk else (p, Ok tt))
            (fun p _ => update_meta p (row_of_hdr (r_rec o) rec (r_blk o) blk h))
     | (p, NoRows) => (if match h_rep h with Some _ => true | None => false end
             then move_rows p (match h_rep h with Some o => o | None => h_name h end) (h_name h) rec blk else (p, Ok tt))
     | (p, Unique) => (p, Unique) | (p, Fail e) => (p, Fail e) end = (lv', res) /\
     match get_header rb (match h_rep h with Some o => o | None => h_name h end) with
     | (p, Ok o) => lift (if match h_rep h with Some _ => true | None => false end
             then move_rows p (match h_rep h with Some o => o | None => h_name h end) (h_name h) rec blk else (p, Ok tt))
            (fun p _ => update_meta p (row_of_hdr (r_rec o) rec (r_blk o) blk h))
     | (p, NoRows) => (if match h_rep h with Some _ => true | None => false end
             then move_rows p (match h_rep h with Some o => o | None => h_name h end) (h_name h) rec blk else (p, Ok tt))
     | (p, Unique) => (p, Unique) | (p, Fail e) => (p, Fail e) end = (rb', res) /\
     (res = Ok tt -> LI hr lv' /\ R lv' rb' /\ lksub (rows lv) (rows lv') (rec, blk) /\ remono rb rb')).
  { assert (Gold : good (match h_rep h with Some o => o | None => h_name h end)).
    { destruct (h_rep h) as [o|]; [apply (Hrep o eq_refl)|exact Gn]. }
    assert (Pold : pre lv rb (match h_rep h with Some o => o | None => h_name h end)).
    { destruct (h_rep h) as [o|]; [apply Po; reflexivity|exact Pn]. }
    rewrite (get_header_lv hr lv _ HL Gold), (get_header_rb hr lv rb _ HL HR Gold Pold).
    set (on := match h_rep h with Some o => o | None => h_name h end) in *.
    destruct (find_rows (rows lv) on) as [o|].
    - change (r_rec (norm_row o)) with (r_rec o). change (r_blk (norm_row o)) with (r_blk o).
      destruct (CU lv (mark rb on) (r_rec o) (r_blk o) HL (R_mark lv rb on HR) (pre_mark lv rb on _ Pn)) as (lv' & rb' & A & B & C & D & E & F).
      exists lv', rb', (Ok tt). split; [exact A|]. split; [exact B|]. intros _. split; [exact C|]. split; [exact D|].
      split; [exact E|]. intro K. apply F. apply mark_mono. exact K.
    - destruct (MV lv (mark rb on) HL (R_mark lv rb on HR) (pre_mark lv rb on _ Pn)) as (lv' & rb' & A & B & C & D & E & F & _).
      exists lv', rb', (Ok tt). split; [exact A|]. split; [exact B|]. intros _. split; [exact C|]. split; [exact D|].
      split; [exact E|]. intro K. apply F. apply mark_mono. exact K. }
  destruct (pax_get K_replaces_content (h_pax h)) as [v|]; [|exact MU].
  destruct (eqb_str v V_true); [|exact MU].
  destruct (CU lv rb rec blk HL HR Pn) as (lv' & rb' & A & B & C & D & E & F).
  exists lv', rb', (Ok tt). split; [exact A|]. split; [exact B|]. intros _. split; [exact C|]. split; [exact D|]. split; [exact E|exact F].
Qed.

Lemma ih_body_sim hr rec blk h lv rb : LI hr lv -> R lv rb -> hnames_ok hr h -> hpre lv rb h ->
  exists lv' rb' res, ih_body rec blk h false lv = (lv', res) /\ ih_body rec blk h false rb = (rb', res) /\
    (res = Ok tt -> LI hr lv' /\ R lv' rb' /\ lksub (rows lv) (rows lv') (rec, blk) /\ remono rb rb').
Proof.
  intros HL HR HN Hpre. unfold ih_body.
  assert (Pn : pre lv rb (h_name h)).
  { destruct Hpre as [K|[K|[K _]]]; [right; left; exact K|right; right; exact K|left; exact K]. }
  destruct (negb (eqb_str match pax_get K_version (h_pax h) with Some v => v | None => V_1 end V_1)).
  { eexists _, _, _. split; [reflexivity|]. split; [reflexivity|]. discriminate. }
  destruct (eqb_str (h_act h) V_create) eqn:Ec.
  { destruct (rowok_row_of_hdr hr rec rec blk blk h HN) as (Hok & Hd).
    destruct (upsert_sim hr lv rb _ HL HR Hok Hd Pn) as (lv' & rb' & A & B & C & D & E & F & _).
    exists lv', rb', (Ok tt). split; [exact A|]. split; [exact B|]. intros _. split; [exact C|]. split; [exact D|]. split; [exact E|exact F]. }
  destruct (eqb_str (h_act h) V_delete) eqn:Ed.
  { apply eqb_str_eq in Ed. apply delete_sim; try assumption; [apply HN|]. intro Hhr. apply (hn_del hr h HN Hhr Ed). }
  destruct (eqb_str (h_act h) V_update) eqn:Eu.
  { apply eqb_str_eq in Eu. apply upd_body_sim; assumption. }
  eexists _, _, _. split; [reflexivity|]. split; [reflexivity|]. discriminate.
Qed.

Theorem index_header_sim hr c rec blk h lv rb : plain c -> LI hr lv -> R lv rb -> hnames_ok hr h -> hpre lv rb h ->
  exists lv' rb' res, index_header c rec blk h false lv = (lv', res) /\
    index_header c rec blk h false rb = (rb', res) /\
    (res = Ok tt -> LI hr lv' /\ R lv' rb' /\ lksub (rows lv) (rows lv') (rec, blk) /\ remono rb rb').
Proof.
  intros HP HL HR HN Hpre. rewrite !index_header_plain by exact HP.
  destruct (usz h) as [sz|].
  - apply ih_body_sim; try assumption. apply hnames_ok_wsn. exact HN.
  - eexists _, _, _. split; [reflexivity|]. split; [reflexivity|]. discriminate.
Qed.

(* ---------- live side only: success, stamping, frame *)
Definition ver_ok (h : hdr) : Prop :=
  match pax_get K_version (h_pax h) with Some v => v = V_1 | None => True end.

Lemma usz_some h : usize_ok (h_pax h) -> exists sz, usz h = Some sz.
Proof.
  unfold usize_ok, usz. destruct (pax_get K_usize (h_pax h)) as [v|]; [|eexists; reflexivity].
  intro H. destruct (undecimal v) as [n|]; [eexists; reflexivity|contradiction].
Qed.

Lemma ver_ok_test h : ver_ok h ->
  negb (eqb_str match pax_get K_version (h_pax h) with Some v => v | None => V_1 end V_1) = false.
Proof.
  unfold ver_ok. destruct (pax_get K_version (h_pax h)) as [v|]; [intros ->|intros _]; reflexivity.
Qed.

Lemma stamped_replace n new l : Forall rowok l -> has_name l n = true ->
  In (r_lkrec new, r_lkblk new) (lks (replace_row n [] new l)).
Proof.
  intros Hl H. unfold lks. apply in_map_iff. exists new. split; [reflexivity|].
  apply replace_row_in. rewrite has_key_nil by exact Hl. exact H.
Qed.

Lemma has_name_replace n new l m : Forall rowok l -> r_name new = n ->
  has_name (replace_row n [] new l) m = has_name l m.
Proof.
  intros Hl Hn. destruct (has_name l m) eqn:E.
  - apply has_name_in. rewrite replace_row_names by assumption. apply has_name_in. exact E.
  - apply not_true_is_false. intro K. apply has_name_in in K. rewrite replace_row_names in K by assumption.
    apply has_name_in in K. congruence.
Qed.

Section Live.
Variables (hr : bool) (c : cfg) (rec blk : N) (h : hdr) (lv : pstate).
Hypothesis HP : plain c.
Hypothesis HL : LI hr lv.
Hypothesis HN : hnames_ok hr h.
Hypothesis HV : ver_ok h.

Lemma ih_live_start : exists sz,
  index_header c rec blk h false lv = ih_body rec blk (with_size_name h sz (h_name h)) false lv.
Proof.
  destruct (usz_some h (hn_usize hr h HN)) as (sz & E). exists sz.
  rewrite index_header_plain by exact HP. rewrite E. reflexivity.
Qed.

Lemma live_create : h_act h = V_create ->
  exists lv', index_header c rec blk h false lv = (lv', Ok tt) /\ In (rec, blk) (lks (rows lv')) /\
    live_name (rows lv') (h_name h) = true.
Proof.
  intro Ha. destruct ih_live_start as (sz & ->). unfold ih_body.
  change (h_pax (with_size_name h sz (h_name h))) with (h_pax h).
  rewrite (ver_ok_test h HV).
  change (h_act (with_size_name h sz (h_name h))) with (h_act h). rewrite Ha.
  change (eqb_str V_create V_create) with true. cbn iota.
  rewrite (upsert_lv hr); [|exact HL|apply HN].
  eexists. split; [reflexivity|]. rewrite with_rows_rows. split.
  - unfold lks. apply in_map_iff. eexists. split; [|apply upsert_rows_in]. reflexivity.
  - apply (upsert_rows_live (rows lv) (row_of_hdr rec rec blk blk (with_size_name h sz (h_name h)))). reflexivity.
Qed.

Lemma live_delete : h_act h = V_delete -> live_name (rows lv) (h_name h) = true ->
  exists lv', index_header c rec blk h false lv = (lv', Ok tt) /\ In (rec, blk) (lks (rows lv')) /\
    forall m, m <> h_name h -> live_name (rows lv') m = live_name (rows lv) m.
Proof.
  intros Ha Hlive. destruct ih_live_start as (sz & ->). unfold ih_body.
  change (h_pax (with_size_name h sz (h_name h))) with (h_pax h).
  rewrite (ver_ok_test h HV).
  change (h_act (with_size_name h sz (h_name h))) with (h_act h). rewrite Ha.
  change (eqb_str V_delete V_create) with false. change (eqb_str V_delete V_delete) with true. cbn iota.
  change (h_name (with_size_name h sz (h_name h))) with (h_name h).
  rewrite (delete_row_lv hr); [|exact HL|apply HN].
  destruct (find_rows_live _ _ Hlive) as (r & E). rewrite E. cbn [lift].
  destruct (find_rows_link hr lv _ r HL E) as (Hk & Hrn & Hok).
  assert (Hrows : Forall rowok (rows lv)) by apply HL.
  eexists. split; [reflexivity|]. rewrite with_rows_rows. split.
  - apply (stamped_replace (h_name h) (set_lk r rec blk true) (rows lv) Hrows).
    apply live_name_has. exact Hlive.
  - intros m Hm. unfold live_name. apply replace_row_existsb.
    + reflexivity.
    + intros r' Hr' K. rewrite Forall_forall in Hrows. destruct (Hrows r' Hr') as (_ & Hk' & _).
      rewrite (key_eq_nil _ r' Hk') in K. apply eqb_str_eq in K. rewrite K.
      apply andb_false_iff. right. apply eqb_str_neq. congruence.
Qed.

Lemma live_update_norep : h_act h = V_update -> h_rep h = None -> live_name (rows lv) (h_name h) = true ->
  exists lv', index_header c rec blk h false lv = (lv', Ok tt) /\ In (rec, blk) (lks (rows lv')).
Proof.
  intros Ha Hr Hlive. destruct ih_live_start as (sz & ->). unfold ih_body.
  change (h_pax (with_size_name h sz (h_name h))) with (h_pax h).
  rewrite (ver_ok_test h HV).
  change (h_act (with_size_name h sz (h_name h))) with (h_act h). rewrite Ha.
  change (eqb_str V_update V_create) with false. change (eqb_str V_update V_delete) with false.
  change (eqb_str V_update V_update) with true. cbn iota.
  unfold upd_body.
  change (h_rep (with_size_name h sz (h_name h))) with (h_rep h). rewrite Hr.
  change (h_pax (with_size_name h sz (h_name h))) with (h_pax h).
  change (h_name (with_size_name h sz (h_name h))) with (h_name h).
  assert (Hrows : Forall rowok (rows lv)) by apply HL.
  assert (Hhas : has_name (rows lv) (h_name h) = true) by (apply live_name_has; exact Hlive).
  assert (G : good (h_name h)) by apply HN.
  assert (Hlk : h_link h = []) by apply HN.
  assert (CU : forall r1 r2, exists lv',
     lift (lv, Ok tt) (fun p _ => update_meta p (row_of_hdr r1 rec r2 blk (with_size_name h sz (h_name h)))) = (lv', Ok tt)
     /\ In (rec, blk) (lks (rows lv'))).
  { intros r1 r2. cbn [lift]. rewrite (update_meta_lv hr); [|exact HL|exact G].
    eexists. split; [reflexivity|]. rewrite with_rows_rows.
    change (r_link (row_of_hdr r1 rec r2 blk (with_size_name h sz (h_name h)))) with (h_link h). rewrite Hlk.
    apply (stamped_replace (h_name h) (row_of_hdr r1 rec r2 blk (with_size_name h sz (h_name h))) (rows lv) Hrows Hhas). }
  assert (MU : exists lv',
     match get_header lv (h_name h) with
     | (p, Ok o) => lift (p, Ok tt) (fun p _ => update_meta p (row_of_hdr (r_rec o) rec (r_blk o) blk (with_size_name h sz (h_name h))))
     | (p, NoRows) => (p, Ok tt) | (p, Unique) => (p, Unique) | (p, Fail e) => (p, Fail e) end = (lv', Ok tt)
     /\ In (rec, blk) (lks (rows lv'))).
  { rewrite (get_header_lv hr); [|exact HL|exact G].
    destruct (find_rows_live _ _ Hlive) as (r & E). rewrite E. apply CU. }
  destruct (pax_get K_replaces_content (h_pax h)) as [v|]; [|exact MU].
  destruct (eqb_str v V_true); [apply CU|exact MU].
Qed.

Lemma live_update_rep o : h_act h = V_update -> h_rep h = Some o -> has_name (rows lv) o = true ->
  exists lv', index_header c rec blk h false lv = (lv', Ok tt) /\ In (rec, blk) (lks (rows lv')) /\
    forall m, m <> o -> has_name (rows lv) m = true -> has_name (rows lv') m = true.
Proof.
  intros Ha Hr Hhas. destruct ih_live_start as (sz & ->). unfold ih_body.
  change (h_pax (with_size_name h sz (h_name h))) with (h_pax h).
  rewrite (ver_ok_test h HV).
  change (h_act (with_size_name h sz (h_name h))) with (h_act h). rewrite Ha.
  change (eqb_str V_update V_create) with false. change (eqb_str V_update V_delete) with false.
  change (eqb_str V_update V_update) with true. cbn iota.
  unfold upd_body.
  change (h_rep (with_size_name h sz (h_name h))) with (h_rep h). rewrite Hr.
  change (h_pax (with_size_name h sz (h_name h))) with (h_pax h).
  change (h_name (with_size_name h sz (h_name h))) with (h_name h).
  destruct (hn_rep hr h HN Ha o Hr) as (Go & Ho & Hn & Hne).
  assert (G : good (h_name h)) by apply HN.
  assert (Hlk : h_link h = []) by apply HN.
  assert (Hrows : Forall rowok (rows lv)) by apply HL.
  pose proof (move_list_live (rows lv) o (h_name h) rec blk Hrows Hne) as EM.
  set (l1 := map (mv_fun o (h_name h) rec blk) (mv_rows1 (rows lv) o (h_name h))) in *.
  assert (LL1 : LL hr l1) by (apply mv_result_LL; try assumption; apply HL).
  destruct (mv_result_stamp (rows lv) o (h_name h) rec blk Hne Hhas) as (St1 & Hn1). fold l1 in St1, Hn1.
  assert (MVE : move_rows lv o (h_name h) rec blk = (with_rows lv l1, Ok tt)).
  { rewrite (move_rows_lv hr) by assumption. rewrite EM. reflexivity. }
  assert (Fr1 : forall m, m <> o -> has_name (rows lv) m = true -> has_name l1 m = true).
  { intros m A B. apply mv_result_mono; assumption. }
  assert (CU : forall r1 r2, exists lv',
     lift (move_rows lv o (h_name h) rec blk) (fun p _ => update_meta p (row_of_hdr r1 rec r2 blk (with_size_name h sz (h_name h)))) = (lv', Ok tt)
     /\ In (rec, blk) (lks (rows lv')) /\
     forall m, m <> o -> has_name (rows lv) m = true -> has_name (rows lv') m = true).
  { intros r1 r2. rewrite MVE. cbn [lift].
    rewrite (update_meta_lv hr); [|apply LI_with; [exact HL|exact LL1]|exact G].
    eexists. split; [reflexivity|]. rewrite !with_rows_rows.
    change (r_link (row_of_hdr r1 rec r2 blk (with_size_name h sz (h_name h)))) with (h_link h). rewrite Hlk.
    change (r_name (row_of_hdr r1 rec r2 blk (with_size_name h sz (h_name h)))) with (h_name h).
    split.
    - apply (stamped_replace (h_name h) (row_of_hdr r1 rec r2 blk (with_size_name h sz (h_name h))) l1); [apply LL1|exact Hn1].
    - intros m A B. rewrite has_name_replace; [apply Fr1; assumption|apply LL1|reflexivity]. }
  assert (MU : exists lv',
     match get_header lv o with
     | (p, Ok o') => lift (move_rows p o (h_name h) rec blk) (fun p _ => update_meta p (row_of_hdr (r_rec o') rec (r_blk o') blk (with_size_name h sz (h_name h))))
     | (p, NoRows) => move_rows p o (h_name h) rec blk | (p, Unique) => (p, Unique) | (p, Fail e) => (p, Fail e) end = (lv', Ok tt)
     /\ In (rec, blk) (lks (rows lv')) /\
     forall m, m <> o -> has_name (rows lv) m = true -> has_name (rows lv') m = true).
  { rewrite (get_header_lv hr); [|exact HL|exact Go].
    destruct (find_rows (rows lv) o) as [r|]; [apply CU|].
    rewrite MVE. eexists. split; [reflexivity|]. rewrite with_rows_rows. split; [exact St1|exact Fr1]. }
  destruct (pax_get K_replaces_content (h_pax h)) as [v|]; [|exact MU].
  destruct (eqb_str v V_true); [apply CU|exact MU].
Qed.
End Live.
