(* T05 / block arithmetic of a tape of archives (C05): the number of blocks is the sum over the members of
   (header blocks + data blocks rounded up) plus two per archive, so the byte length is a multiple of 512 by
   construction; every member starts at the block offset the indexer computes for it, and -- when header groups
   are not empty -- the position recorded for it designates it. *)
From Coq Require Import List NArith ZArith Bool Lia.
From Coq Require Import ZifyN ZifyBool.
Import ListNotations.
From STFS Require Import Str Db Tape Index Ops Prefix TapeLemmas PrefixLemmas C04Index T05Shape.
Open Scope N_scope.
Ltac Zify.zify_post_hook ::= Z.div_mod_to_equations.

(* blocks of one member: its header group and its data rounded up to whole blocks *)
Definition mblocks (m : member) : N := item_blocks (TM m).
Definition ms_blocks (ms : list member) : N := fold_right (fun m a => mblocks m + a) 0 ms.
Definition arch_blocks (ms : list member) : N := ms_blocks ms + 2.

Lemma mblocks_eq m : mblocks m = m_hb m + cdiv (m_enc m) 512.
Proof. reflexivity. Qed.

Lemma tape_blocks_cons i t : tape_blocks (i :: t) = item_blocks i + tape_blocks t.
Proof. reflexivity. Qed.

Lemma tape_blocks_members ms : tape_blocks (map TM ms) = ms_blocks ms.
Proof. induction ms as [|m ms IH]; [reflexivity|]. cbn [map ms_blocks fold_right]. rewrite tape_blocks_cons, IH. reflexivity. Qed.

Lemma tape_blocks_arch ms : tape_blocks (arch ms) = arch_blocks ms.
Proof. unfold arch, arch_blocks. rewrite tape_blocks_app, tape_blocks_members. reflexivity. Qed.

(* the blocks of a tape of archives *)
Theorem tape_blocks_archs l : tape_blocks (archs l) = fold_right (fun ms a => arch_blocks ms + a) 0 l.
Proof.
  induction l as [|ms l IH]; [reflexivity|]. change (archs (ms :: l)) with (arch ms ++ archs l).
  rewrite tape_blocks_app, tape_blocks_arch, IH. reflexivity.
Qed.

Corollary tape_blocks_archs_sum l :
  tape_blocks (archs l) = fold_right (fun ms a => ms_blocks ms + a) 0 l + 2 * N.of_nat (length l).
Proof.
  rewrite tape_blocks_archs. induction l as [|ms l IH]; [reflexivity|]. cbn [fold_right length]. rewrite IH. unfold arch_blocks. lia.
Qed.

(* ---- bytes: what the writer puts on the medium for one item *)
Definition pad512 (n : N) : N := (512 - n mod 512) mod 512.
Definition item_bytes (i : titem) : N :=
  match i with TM m => m_hb m * 512 + m_enc m + pad512 (m_enc m) | TT => 1024 end.
Definition tape_bytes (t : tape) : N := fold_right (fun i a => item_bytes i + a) 0 t.

Lemma item_bytes_blocks i : item_bytes i = item_blocks i * 512.
Proof. destruct i as [m|]; [|reflexivity]. unfold item_bytes, item_blocks, pad512, cdiv. lia. Qed.

Theorem tape_bytes_blocks t : tape_bytes t = tape_blocks t * 512.
Proof.
  induction t as [|i t IH]; [reflexivity|]. cbn [tape_bytes fold_right]. fold (tape_bytes t).
  rewrite tape_blocks_cons, IH, item_bytes_blocks. lia.
Qed.

Corollary tape_bytes_aligned t : tape_bytes t mod 512 = 0.
Proof. rewrite tape_bytes_blocks. apply N.mod_mul. discriminate. Qed.

(* ---- positions *)

(* the indexer of a rebuild walks exactly the members with their start blocks *)
Lemma members_from_zero t : members_from t 0 = Some (all_members t).
Proof.
  unfold members_from, all_members.
  assert (C : (0 =? tape_blocks t) || existsb (fun p : N * titem => fst p =? 0) (with_starts t 0) = true).
  { destruct t as [|i t]; [reflexivity|]. cbn [with_starts existsb fst]. rewrite N.eqb_refl. cbn. apply orb_true_r. }
  rewrite C. f_equal. apply flat_map_ext. intros [a i]. cbn [fst snd]. destruct i; [|reflexivity]. destruct a; reflexivity.
Qed.

Lemma members_at_app t1 t2 a : members_at (t1 ++ t2) a = members_at t1 a ++ members_at t2 (a + tape_blocks t1).
Proof.
  revert a. induction t1 as [|[m|] t1 IH]; intro a; cbn [app members_at].
  - f_equal. unfold tape_blocks. cbn. lia.
  - rewrite IH, tape_blocks_cons. cbn [app]. do 3 f_equal. lia.
  - rewrite IH, tape_blocks_cons. do 2 f_equal. cbn [item_blocks]. lia.
Qed.

Lemma all_members_app t1 t2 : all_members (t1 ++ t2) = all_members t1 ++ members_at t2 (tape_blocks t1).
Proof. rewrite !all_members_eq, members_at_app. reflexivity. Qed.

(* members of one archive written at block [a]: each starts where the previous one ends *)
Fixpoint starts_from (a : N) (ms : list member) : list (N * member) :=
  match ms with [] => [] | m :: r => (a, m) :: starts_from (a + mblocks m) r end.

Lemma members_at_members ms a : members_at (map TM ms) a = starts_from a ms.
Proof. revert a. induction ms as [|m ms IH]; intro a; [reflexivity|]. cbn [map members_at starts_from]. rewrite IH. reflexivity. Qed.

Lemma members_at_arch ms a : members_at (arch ms) a = starts_from a ms.
Proof. unfold arch. rewrite members_at_app, members_at_members. cbn [members_at]. apply app_nil_r. Qed.

(* the member table of a tape of archives: archive by archive, each archive starting after the previous
   archive's trailer *)
Fixpoint archs_starts (a : N) (l : list (list member)) : list (N * member) :=
  match l with [] => [] | ms :: r => starts_from a ms ++ archs_starts (a + arch_blocks ms) r end.

Theorem members_at_archs l : forall a, members_at (archs l) a = archs_starts a l.
Proof.
  induction l as [|ms l IH]; intro a; [reflexivity|]. change (archs (ms :: l)) with (arch ms ++ archs l).
  rewrite members_at_app, members_at_arch, IH, tape_blocks_arch. reflexivity.
Qed.

Corollary all_members_archs l : all_members (archs l) = archs_starts 0 l.
Proof. rewrite all_members_eq. apply members_at_archs. Qed.

(* appending an operation's archive at the end of the tape: its members start at the old end of the tape *)
Corollary all_members_append t ms :
  all_members (t ++ arch ms) = all_members t ++ starts_from (tape_blocks t) ms.
Proof. rewrite all_members_app, members_at_arch. reflexivity. Qed.

Lemma starts_from_nth ms : forall a j m, nth_error ms j = Some m ->
  nth_error (starts_from a ms) j = Some (a + ms_blocks (firstn j ms), m).
Proof.
  induction ms as [|m0 ms IH]; intros a j m H; [destruct j; discriminate|].
  destruct j as [|j]; cbn [nth_error starts_from firstn ms_blocks fold_right] in *.
  - inversion H; subst. do 2 f_equal. lia.
  - rewrite (IH _ _ _ H). do 2 f_equal. fold (ms_blocks (firstn j ms)). lia.
Qed.

(* the j-th member of the archive after the archives [l1] starts at: all blocks of [l1] (members and trailers)
   plus the blocks of the members before it in its own archive *)
Theorem T05_member_start l1 ms l2 j m : nth_error ms j = Some m ->
  In (tape_blocks (archs l1) + ms_blocks (firstn j ms), m) (all_members (archs (l1 ++ ms :: l2))).
Proof.
  intro H. rewrite archs_app. change (archs (ms :: l2)) with (arch ms ++ archs l2).
  rewrite all_members_app, members_at_app, members_at_arch. apply in_or_app. right. apply in_or_app. left.
  eapply nth_error_In. apply starts_from_nth. exact H.
Qed.

(* ---- the recorded position designates the member (needs non-empty header groups: an item without
        blocks shares its start with the next one; see T05Counter.v) *)

Definition hb_pos (t : tape) : Prop := Forall (fun m => 0 < m_hb m) (members_of t).

Lemma hb_pos_app t1 t2 : hb_pos (t1 ++ t2) <-> hb_pos t1 /\ hb_pos t2.
Proof. unfold hb_pos, members_of. rewrite flat_map_app. apply Forall_app. Qed.

Lemma hb_pos_members ms : hb_pos (map TM ms) <-> Forall (fun m => 0 < m_hb m) ms.
Proof.
  unfold hb_pos, members_of. induction ms as [|m ms IH]; cbn [map flat_map app]; [split; constructor|].
  split; intro H; inversion H; subst; constructor; try assumption; apply IH; assumption.
Qed.

Lemma hb_pos_items t : hb_pos t -> forall i, In i t -> 0 < item_blocks i.
Proof.
  unfold hb_pos, members_of. intros H [m|] I; [|cbn; lia]. rewrite Forall_forall in H.
  assert (0 < m_hb m) by (apply H; apply in_flat_map; exists (TM m); split; [exact I|left; reflexivity]).
  cbn. lia.
Qed.

Lemma with_starts_first t : forall b a i, (forall j, In j t -> 0 < item_blocks j) ->
  In (a, i) (with_starts t b) ->
  exists l, filter (fun p => fst p =? a) (with_starts t b) = (a, i) :: l /\
            forall q, In q l -> False.
Proof.
  induction t as [|i0 r IH]; intros b a i Hp I; cbn [with_starts] in I; [contradiction|].
  cbn [with_starts filter fst].
  assert (Hr : forall j, In j r -> 0 < item_blocks j) by (intros; apply Hp; right; assumption).
  assert (Hlater : forall q, In q (with_starts r (b + item_blocks i0)) -> b < fst q).
  { intros q Q. apply with_starts_lt in Q. pose proof (Hp i0 (or_introl eq_refl)). lia. }
  destruct I as [E|I].
  - inversion E; subst. rewrite N.eqb_refl. eexists. split; [reflexivity|].
    intros q Q. apply filter_In in Q as [Q1 Q2]. apply Hlater in Q1. lia.
  - pose proof (Hlater _ I) as L. cbn [fst] in L. assert ((b =? a) = false) as -> by lia.
    apply IH; assumption.
Qed.

Theorem member_at_start t st m : hb_pos t -> In (st, m) (all_members t) -> member_at t st = Some m.
Proof.
  intros H I. unfold all_members in I. apply in_flat_map in I as [[a i] [I J]]. cbn [fst snd] in J.
  destruct i as [m0|]; [|contradiction]. destruct J as [J|[]]. inversion J; subst.
  destruct (with_starts_first t 0 st (TM m) (hb_pos_items t H) I) as [l [E _]].
  unfold member_at. rewrite E. reflexivity.
Qed.

(* the (record, block) pair the indexer stores for a member reads that member back *)
Theorem T05_position_designates c t st m : 0 < c_rs c -> hb_pos t -> In (st, m) (all_members t) ->
  member_at t (off_of (c_rs c) (fst (pos_of (c_rs c) st)) (snd (pos_of (c_rs c) st))) = Some m
  /\ snd (pos_of (c_rs c) st) < c_rs c
  /\ fetch_at c t (fst (pos_of (c_rs c) st)) (snd (pos_of (c_rs c) st)) = Some (match m_data m with Some d => d | None => [] end).
Proof.
  intros Hrs H I. rewrite (pos_of_roundtrip _ _ Hrs). pose proof (member_at_start t st m H I) as E.
  split; [exact E|]. split; [apply pos_of_blk_lt; exact Hrs|].
  unfold fetch_at. rewrite (pos_of_roundtrip _ _ Hrs), E. destruct (m_data m); reflexivity.
Qed.

(* distinct members have distinct positions *)
Theorem T05_starts_distinct t : hb_pos t -> NoDup (map fst (all_members t)).
Proof.
  intro H. rewrite all_members_eq. pose proof (hb_pos_items t H) as Hp. clear H. generalize 0.
  induction t as [|[m|] t IH]; intro a; cbn [members_at map fst]; [constructor| |].
  - constructor.
    + intro I. apply in_map_iff in I as [[a' m'] [E I]]. cbn in E. subst a'. apply members_at_ge in I. cbn [fst] in I.
      pose proof (Hp (TM m) (or_introl eq_refl)). lia.
    + apply IH. intros; apply Hp; right; assumption.
  - apply IH. intros; apply Hp; right; assumption.
Qed.
