(* C04, part 2: the replay loop only ever hands out starts of members of the tape it reads, and it
   hands them out in increasing order starting at the last indexed position. *)
From Coq Require Import List NArith ZArith Bool Lia.
From Coq Require Import ZifyN ZifyBool.
Import ListNotations.
From STFS Require Import Str Db Tape Index Ops TapeLemmas C04Db.
Open Scope N_scope.

Lemma allP_impl (P P' : N -> N -> N -> N -> Prop) l :
  (forall a b c d, P a b c d -> P' a b c d) -> allP P l -> allP P' l.
Proof. intros H A r I. apply H. apply A. exact I. Qed.

(* ---- tape facts *)

(* the FIRST item starting at the start of a member is a member: an item that starts where a
   later item starts has no blocks, and the trailer has two *)
Lemma ws_first_member t : forall b a m, In (a, TM m) (with_starts t b) ->
  exists a' m' l, filter (fun p => fst p =? a) (with_starts t b) = (a', TM m') :: l.
Proof.
  induction t as [|i r IH]; intros b a m I; cbn in I; [contradiction|].
  cbn [with_starts filter fst].
  destruct I as [E|I].
  - inversion E; subst. rewrite N.eqb_refl. eauto.
  - destruct (b =? a) eqn:Eb.
    + apply N.eqb_eq in Eb. subst b. apply with_starts_lt in I. cbn [fst snd] in I.
      destruct i as [m0|]; [eauto|]. cbn in I. lia.
    + eapply IH. exact I.
Qed.

Lemma member_at_of_ws t a m : In (a, TM m) (with_starts t 0) -> exists m', member_at t a = Some m'.
Proof.
  intro I. apply ws_first_member in I. destruct I as [a' [m' [l E]]].
  unfold member_at. rewrite E. eauto.
Qed.

Lemma members_from_in t from ms st m :
  members_from t from = Some ms -> In (st, m) ms -> In (st, TM m) (with_starts t 0) /\ from <= st.
Proof.
  unfold members_from. destruct (_ || _); [|discriminate]. intro E. inversion E; subst; clear E.
  intro I. apply in_flat_map in I. destruct I as [[a i] [I J]]. cbn [fst snd] in J.
  destruct i as [m0|]; [|contradiction].
  destruct (from <=? a) eqn:L; [|contradiction]. destruct J as [J|[]]. inversion J; subst.
  split; [exact I|lia].
Qed.

(* starts are handed out in non-decreasing order *)
Fixpoint mono (ms : list (N * member)) : Prop :=
  match ms with
  | [] => True
  | (st, _) :: rest => (forall st' m', In (st', m') rest -> st <= st') /\ mono rest
  end.

Lemma mono_flat from t : forall b,
  mono (flat_map (fun p : N * titem => match snd p with
                           | TM m => if from <=? fst p then [(fst p, m)] else []
                           | TT => [] end) (with_starts t b)).
Proof.
  induction t as [|i r IH]; intro b; cbn [with_starts flat_map]; [exact I|].
  cbn [fst snd].
  assert (G : forall st' m', In (st', m') (flat_map (fun p : N * titem => match snd p with
                           | TM m => if from <=? fst p then [(fst p, m)] else []
                           | TT => [] end) (with_starts r (b + item_blocks i))) -> b <= st').
  { intros st' m' J. apply in_flat_map in J. destruct J as [[a j] [J K]]. cbn [fst snd] in K.
    apply with_starts_lt in J. cbn [fst snd] in J.
    destruct j; [|contradiction]. destruct (from <=? a); [|contradiction]. destruct K as [K|[]]. inversion K; subst. lia. }
  destruct i as [m|]; [|apply IH].
  destruct (from <=? b); [|apply IH].
  cbn [app mono]. split; [exact G|apply IH].
Qed.

Lemma members_from_mono t from ms : members_from t from = Some ms -> mono ms.
Proof.
  unfold members_from. destruct (_ || _); [|discriminate]. intro E. inversion E; subst. apply mono_flat.
Qed.

(* ---- invariant 1: positions designate members of tape [t] *)

Definition okpos (rs : N) (t : tape) (rec blk : N) : Prop :=
  blk < rs /\ exists m, member_at t (off_of rs rec blk) = Some m.
Definition P1 (rs : N) (t : tape) (a b c d : N) : Prop := okpos rs t a b /\ okpos rs t c d.

Lemma okpos_app rs t suf a b : okpos rs t a b -> okpos rs (t ++ suf) a b.
Proof. intros [H [m E]]. split; [exact H|]. exists m. apply member_at_app. exact E. Qed.

Lemma P1_app rs t suf a b c d : P1 rs t a b c d -> P1 rs (t ++ suf) a b c d.
Proof. intros [H K]. split; apply okpos_app; assumption. Qed.

Lemma okpos_start rs t st m : 0 < rs -> In (st, TM m) (with_starts t 0) ->
  okpos rs t (fst (pos_of rs st)) (snd (pos_of rs st)).
Proof.
  intros Hrs I. split; [apply pos_of_blk_lt; exact Hrs|].
  rewrite pos_of_roundtrip by exact Hrs. eapply member_at_of_ws. exact I.
Qed.

Lemma index_loop_P1 c t offset subst ini : 0 < c_rs c -> forall ms i p,
  (forall st m, In (st, m) ms -> In (st, TM m) (with_starts t 0)) ->
  allP (P1 (c_rs c) t) (rows p) ->
  allP (P1 (c_rs c) t) (rows (fst (index_loop c ms i offset subst ini p))).
Proof.
  intro Hrs. induction ms as [|[st m] rest IH]; intros i p Hms A; cbn [index_loop]; [exact A|].
  assert (Hrest : forall st0 m0, In (st0, m0) rest -> In (st0, TM m0) (with_starts t 0)).
  { intros; apply Hms; right; assumption. }
  destruct (i <? offset)%nat; [apply IH; assumption|].
  destruct (match subst with None => Some (m_hdr m) | Some l => nth_error l (i - offset) end) as [h|]; [|exact A].
  pose proof (okpos_start (c_rs c) t st m Hrs (Hms st m (or_introl eq_refl))) as Hok.
  destruct (pos_of (c_rs c) st) as [rec blk]. cbn [fst snd] in Hok.
  pose proof (index_header_P (P1 (c_rs c) t) c rec blk h ini p) as K.
  assert (A1 : allP (P1 (c_rs c) t) (rows (fst (index_header c rec blk h ini p)))).
  { apply K; [split; exact Hok| |exact A]. intros a b c0 d [H1 _]. split; assumption. }
  destruct (index_header c rec blk h ini p) as [p1 [u| | |e]]; cbn [fst] in A1; try exact A1.
  apply IH; assumption.
Qed.

Lemma index_tape_P1 c t from offset subst ow ini p : 0 < c_rs c ->
  allP (P1 (c_rs c) t) (rows p) ->
  allP (P1 (c_rs c) t) (rows (fst (index_tape c t from offset subst ow ini p))).
Proof.
  intros Hrs A. unfold index_tape.
  assert (A' : allP (P1 (c_rs c) t) (rows (if ow then purge p else p))).
  { destruct ow; [intros x []|exact A]. }
  destruct (members_from t from) as [ms|] eqn:E; [|exact A'].
  apply index_loop_P1; [exact Hrs| |exact A'].
  intros st m I. eapply members_from_in in I; [|exact E]. tauto.
Qed.

Lemma append_and_index_P1 c s last ms hs ow ini : 0 < c_rs c ->
  allP (P1 (c_rs c) (tp s)) (rows (db s)) ->
  allP (P1 (c_rs c) (tp (fst (append_and_index c s last ms hs ow ini))))
       (rows (db (fst (append_and_index c s last ms hs ow ini)))).
Proof.
  intros Hrs A. unfold append_and_index.
  set (t' := tp s ++ map TM ms ++ match ms with [] => [] | _ :: _ => [TT] end).
  assert (A' : allP (P1 (c_rs c) t') (rows (db s))).
  { eapply allP_impl; [|exact A]. intros a b c0 d. apply P1_app. }
  pose proof (index_tape_P1 c t' (off_of (c_rs c) (fst last) (snd last)) (if ow then 0 else 1)%nat
                            (Some hs) ow ini (db s) Hrs A') as K.
  destruct (index_tape c t' _ _ _ _ _ _) as [p r]. cbn [fst tp db] in *. exact K.
Qed.

(* ---- invariant 2: content position <= last-known position (<= a bound that moves with the loop) *)

Definition P2 (rs B : N) (a b c d : N) : Prop := off_of rs a b <= off_of rs c d /\ off_of rs c d <= B.
Definition Pord (rs : N) (a b c d : N) : Prop := off_of rs a b <= off_of rs c d.

Lemma index_loop_P2 c offset subst ini : 0 < c_rs c -> forall ms i p B,
  mono ms -> (forall st m, In (st, m) ms -> B <= st) ->
  allP (P2 (c_rs c) B) (rows p) ->
  exists B', allP (P2 (c_rs c) B') (rows (fst (index_loop c ms i offset subst ini p))).
Proof.
  intro Hrs. induction ms as [|[st m] rest IH]; intros i p B Hmono Hge A; cbn [index_loop]; [eauto|].
  destruct Hmono as [Hfirst Hmono].
  assert (Hge' : forall st0 m0, In (st0, m0) rest -> B <= st0) by (intros; eapply Hge; right; eassumption).
  destruct (i <? offset)%nat; [eapply IH; eassumption|].
  destruct (match subst with None => Some (m_hdr m) | Some l => nth_error l (i - offset) end) as [h|]; [|eauto].
  pose proof (pos_of_roundtrip (c_rs c) st Hrs) as Hoff.
  destruct (pos_of (c_rs c) st) as [rec blk]. cbn [fst snd] in Hoff.
  assert (Hst : B <= st) by (eapply Hge; left; reflexivity).
  assert (A0 : allP (P2 (c_rs c) st) (rows p)).
  { eapply allP_impl; [|exact A]. unfold P2. intros a b c0 d [H1 H2]. split; lia. }
  pose proof (index_header_P (P2 (c_rs c) st) c rec blk h ini p) as K.
  assert (A1 : allP (P2 (c_rs c) st) (rows (fst (index_header c rec blk h ini p)))).
  { apply K; [unfold P2; lia| |exact A0]. unfold P2. intros a b c0 d [H1 H2]. lia. }
  destruct (index_header c rec blk h ini p) as [p1 [u| | |e]]; cbn [fst] in A1; eauto.
Qed.

Lemma index_tape_P2 c t from offset subst (ow : bool) ini p : 0 < c_rs c ->
  allP (P2 (c_rs c) from) (rows (if ow then purge p else p)) ->
  exists B, allP (P2 (c_rs c) B) (rows (fst (index_tape c t from offset subst ow ini p))).
Proof.
  intros Hrs A. unfold index_tape.
  destruct (members_from t from) as [ms|] eqn:E; [|eauto].
  eapply index_loop_P2; [exact Hrs|eapply members_from_mono; exact E| |exact A].
  intros st m I. eapply members_from_in in I; [|exact E]. tauto.
Qed.

(* GetLastIndexedRecordAndBlock is an upper bound of every last-known position *)
Lemma last_indexed_fold rs (l : list row) : forall best,
  let f := fun (best : N * N) r => if fst best * rs + snd best <? r_lkrec r * rs + r_lkblk r
                                   then (r_lkrec r, r_lkblk r) else best in
  off_of rs (fst best) (snd best) <= off_of rs (fst (fold_left f l best)) (snd (fold_left f l best)) /\
  forall r, In r l -> off_of rs (r_lkrec r) (r_lkblk r) <= off_of rs (fst (fold_left f l best)) (snd (fold_left f l best)).
Proof.
  induction l as [|x l IH]; intro best; cbn zeta; cbn [fold_left]; [split; [lia|intros r []]|].
  specialize (IH (if fst best * rs + snd best <? r_lkrec x * rs + r_lkblk x then (r_lkrec x, r_lkblk x) else best)).
  cbn zeta in IH. destruct IH as [IH1 IH2].
  destruct (fst best * rs + snd best <? r_lkrec x * rs + r_lkblk x) eqn:L; cbn [fst snd] in *; unfold off_of in *.
  - split; [lia|]. intros r [<-|I]; [exact IH1|apply IH2; exact I].
  - split; [exact IH1|]. intros r [<-|I]; [lia|apply IH2; exact I].
Qed.

Lemma last_indexed_max p rs r : In r (rows p) ->
  off_of rs (r_lkrec r) (r_lkblk r) <= off_of rs (fst (last_indexed p rs)) (snd (last_indexed p rs)).
Proof. intro I. unfold last_indexed. apply (last_indexed_fold rs (rows p) (0, 0)). exact I. Qed.

Lemma last_indexed_rows p p' rs : rows p = rows p' -> last_indexed p rs = last_indexed p' rs.
Proof. unfold last_indexed. intros ->. reflexivity. Qed.

Lemma append_and_index_Pord c s last ms hs (ow : bool) ini : 0 < c_rs c ->
  last = (if ow then (0, 0) else last_indexed (db s) (c_rs c)) ->
  allP (Pord (c_rs c)) (rows (db s)) ->
  allP (Pord (c_rs c)) (rows (db (fst (append_and_index c s last ms hs ow ini)))).
Proof.
  intros Hrs El A. unfold append_and_index.
  set (t' := tp s ++ map TM ms ++ match ms with [] => [] | _ :: _ => [TT] end).
  set (from := off_of (c_rs c) (fst last) (snd last)).
  assert (A' : allP (P2 (c_rs c) from) (rows (if ow then purge (db s) else db s))).
  { destruct ow; [intros x []|]. intros r I. unfold rowP, P2. split; [apply A; exact I|].
    unfold from. rewrite El. apply last_indexed_max. exact I. }
  pose proof (index_tape_P2 c t' from (if ow then 0 else 1)%nat (Some hs) ow ini (db s) Hrs A') as [B K].
  destruct (index_tape c t' _ _ _ _ _ _) as [p r]. cbn [fst tp db] in *.
  eapply allP_impl; [|exact K]. unfold P2, Pord. tauto.
Qed.

Lemma rebuild_Pord c t p : 0 < c_rs c ->
  allP (Pord (c_rs c)) (rows (fst (index_tape c t 0 0 None true false p))).
Proof.
  intro Hrs. destruct (index_tape_P2 c t 0 0 None true false p Hrs) as [B K]; [intros x []|].
  eapply allP_impl; [|exact K]. unfold P2, Pord. tauto.
Qed.
