(* T19 / Ops: the four operations (Archive of one node, Update of one file, Delete, Move) on related instances:
   same outcome, related results.  The writer side's invariant comes from C01Ops/C01Ops2. Plain configuration. *)
From Coq Require Import List NArith ZArith Bool Lia.
From Coq Require Import ZifyN ZifyBool.
Import ListNotations.
From STFS Require Import Str Db Tape Index Ops Fs Diff Norm StrLemmas C01Str C01Db C01Inv C01Sim C01Tape C01Hdr C01Ops C01Ops2 C01Fs
  T05Sync T13Path T17Str T19Rel T19Base T19Db T19Index T19Append.
Open Scope N_scope.

(* equal oracle queues and clocks *)
Definition envq (sa sr : sys) : Prop := hbq sr = hbq sa /\ encq sr = encq sa /\ clk sr = clk sa.
Definition frame (s s' : sys) : Prop := tp s' = tp s /\ db s' = db s.

Record GoodE (c : cfg) (sa sr : sys) : Prop := {
  ge_inv : Inv true c sa; ge_hb : hbok sa; ge_R : R sa sr; ge_env : envq sa sr; ge_reb : REB c sa sr }.

Lemma REB_same c sa sr sa1 sr1 : REB c sa sr -> tp sr1 = tp sr -> db sa1 = db sa -> same (db sr) (db sr1) -> REB c sa1 sr1.
Proof. intros (qr & A & B & C) E1 E2 [S1 S2]. exists qr. rewrite E1, E2, S1. split; [exact A|split; [exact B|exact C]]. Qed.

Lemma GoodE_Good c sa sr : GoodE c sa sr -> Good c sa sr.
Proof. intros [A _ B _ _]. split; assumption. Qed.
Lemma GoodE_PR c sa sr : GoodE c sa sr -> PR (db sa) (db sr).
Proof. intro H. apply (Good_PR c). apply GoodE_Good. exact H. Qed.

Lemma GoodE_set_db c sa sr pr' : GoodE c sa sr -> same (db sr) pr' -> GoodE c sa (set_db sr pr').
Proof.
  intros [A B [C D] E F] S. split; [exact A|exact B| |exact E|apply (REB_same c sa sr); [exact F|reflexivity|reflexivity|exact S]].
  split; [exact C|]. cbn [db set_db]. eapply prel_same; eassumption.
Qed.

Lemma GoodE_frame c sa sr sa1 sr1 : GoodE c sa sr -> frame sa sa1 -> frame sr sr1 -> hbok sa1 -> envq sa1 sr1 -> GoodE c sa1 sr1.
Proof.
  intros [A B [C D] E F] [F1 F2] [G1 G2] Hb He. split; [eapply Inv_ext; eassumption|exact Hb| |exact He|].
  - split; [rewrite F1, G1; exact C|rewrite F2, G2; exact D].
  - apply (REB_same c sa sr); [exact F|exact G1|exact F2|rewrite G2; apply same_refl].
Qed.

Lemma last_indexed_same p p' rs : same p p' -> last_indexed p' rs = last_indexed p rs.
Proof. intros [E _]. unfold last_indexed. rewrite E. reflexivity. Qed.

Lemma root_live_name c sa sr : GoodE c sa sr -> live_name (rows (db sa)) [slash] = true.
Proof.
  intro H. destruct (PR_head _ _ (GoodE_PR _ _ _ H)) as (a0 & ta & _ & _ & E & _ & _ & N & D & _). unfold live_name. rewrite E.
  cbn [existsb]. unfold live. rewrite D, N. reflexivity.
Qed.

(* ---------- members *)
Lemma mk_member_rel sa sr ha hr d e : envq sa sr -> hrel ha hr ->
  mrel (fst (mk_member sa ha d e)) (fst (mk_member sr hr d e)) /\
  envq (snd (mk_member sa ha d e)) (snd (mk_member sr hr d e)) /\
  frame sa (snd (mk_member sa ha d e)) /\ frame sr (snd (mk_member sr hr d e)).
Proof.
  intros (E1 & E2 & E3) Hh. unfold mk_member, pop_hb. rewrite E1. destruct (hbq sa) as [|x q] eqn:Eq; cbn [fst snd].
  - split; [constructor; cbn; (exact Hh || reflexivity)|]. split; [unfold envq; cbn; repeat split; congruence|]. split; split; reflexivity.
  - split; [constructor; cbn; (exact Hh || reflexivity)|]. split; [unfold envq; cbn; repeat split; congruence|]. split; split; reflexivity.
Qed.

Lemma plain_members_rel hsa hsr : Forall2 hrel hsa hsr -> forall sa sr, envq sa sr ->
  Forall2 mrel (fst (plain_members sa hsa)) (fst (plain_members sr hsr)) /\
  envq (snd (plain_members sa hsa)) (snd (plain_members sr hsr)) /\
  frame sa (snd (plain_members sa hsa)) /\ frame sr (snd (plain_members sr hsr)).
Proof.
  induction 1 as [|ha hr hsa hsr Hh _ IH]; intros sa sr He; cbn [plain_members].
  - cbn [fst snd]. repeat split; try apply He; constructor.
  - destruct (mk_member_rel sa sr ha hr None 0 He Hh) as (M1 & M2 & [F1 F2] & [G1 G2]).
    destruct (mk_member sa ha None 0) as [ma sa1]. destruct (mk_member sr hr None 0) as [mr sr1]. cbn [fst snd] in *.
    destruct (IH sa1 sr1 M2) as (N1 & N2 & [F3 F4] & [G3 G4]).
    destruct (plain_members sa1 hsa) as [msa sa2]. destruct (plain_members sr1 hsr) as [msr sr2]. cbn [fst snd] in *.
    split; [constructor; assumption|]. split; [exact N2|]. split; split; congruence.
Qed.

Lemma mk_member_hdr s h d e : m_hdr (fst (mk_member s h d e)) = h.
Proof. unfold mk_member. destruct (pop_hb s). reflexivity. Qed.

Lemma plain_members_hdrs hs : forall s, map m_hdr (fst (plain_members s hs)) = hs.
Proof.
  induction hs as [|h r IH]; intro s; cbn [plain_members]; [reflexivity|].
  pose proof (mk_member_hdr s h None 0) as A. destruct (mk_member s h None 0) as [m s1]. cbn [fst] in A.
  specialize (IH s1). destruct (plain_members s1 r) as [ms s2]. cbn [fst map] in *. congruence.
Qed.

Lemma outc_ok (res : Db.res unit) : outc_of_res res = OOk -> res = Ok tt.
Proof. destruct res as [[]| | |e]; cbn; congruence. Qed.

(* ---------- the new name Move computes for an entry, on the reader's spelling *)
Lemma is_abs_app_rel a b : a <> [] -> is_abs a = false -> is_abs (a ++ b) = false.
Proof. destruct a; [contradiction|]. intros _ H. exact H. Qed.

Lemma move_name_rd from to k : good from -> from <> [slash] -> good to -> to <> [slash] -> good k ->
  (k = from \/ has_prefix (from ++ [slash]) k = true) ->
  path_join2 (trim_prefix [slash] to) (trim_prefix (trim_prefix [slash] from) (trim_prefix [slash] (norm_name k)))
  = norm_name (path_join2 to (trim_prefix (trim_prefix [slash] from) (trim_prefix [slash] k))).
Proof.
  intros Gf Hf Gt Ht Gk Hk. destruct (good_inv to Gt) as (tcs & Ft & Et).
  assert (Htn : tcs <> []) by (intro K; subst tcs; apply Ht; exact Et).
  assert (Tt : trim_prefix [slash] to = join_slash tcs) by (rewrite Et; apply trim_prefix_slash).
  destruct Hk as [->|Hp].
  - rewrite (move_name_self from to Gf Gt). destruct (good_inv from Gf) as (fcs & Ff & ->).
    unfold pth at 2. rewrite norm_name_good, trim_slash_rel by exact Ff. unfold pth. rewrite trim_prefix_slash, trim_prefix_self.
    rewrite Tt, Et. unfold pth. rewrite norm_name_good. unfold path_join2.
    destruct (join_slash tcs) eqn:Ej; [exfalso; apply (join_nonempty tcs Htn Ft); exact Ej|]. rewrite <- Ej.
    apply path_clean_rel; assumption.
  - destruct (below_decompose from k Gf Hf Gk Hp) as (fcs & rcs & Hfn & Hrn & Ff & Fr & -> & ->).
    destruct (move_name_below _ to _ Gf Hf Gt Ht Gk Hp) as (rest & Ek & ->).
    assert (Er : rest = join_slash rcs).
    { rewrite (join_app fcs rcs Hfn Hrn) in Ek. cbn [app] in Ek. injection Ek as Ek. apply app_inv_head in Ek. injection Ek as Ek. symmetry. exact Ek. }
    subst rest. rewrite norm_name_good. rewrite trim_slash_rel by (apply Forall_app; split; assumption).
    rewrite trim_prefix_slash. rewrite (join_app fcs rcs Hfn Hrn), trim_prefix_app.
    rewrite Tt, Et. unfold pth. cbn [app norm_name]. rewrite N.eqb_refl.
    unfold path_join2. destruct (join_slash tcs) eqn:Ej; [exfalso; apply (join_nonempty tcs Htn Ft); exact Ej|]. rewrite <- Ej.
    rewrite <- (join_app tcs rcs Htn Hrn).
    apply (path_clean_rel_gen _ (tcs ++ [] :: rcs)).
    + apply is_abs_app_rel; [apply join_nonempty; assumption|apply join_not_abs; exact Ft].
    + intro K. apply app_eq_nil in K as [K _]. apply (join_nonempty tcs Htn Ft). exact K.
    + rewrite split_slash_app, split_slash_cons_slash. rewrite split_join by (assumption || apply okc_noslash; assumption).
      rewrite split_join by (assumption || apply okc_noslash; assumption). reflexivity.
    + apply Forall_app. split; [apply okc_or; exact Ft|]. constructor; [right; left; reflexivity|apply okc_or; exact Fr].
    + rewrite filter_app. cbn [filter]. change (keepb []) with false. cbv iota.
      rewrite (filter_keepb_okc tcs Ft), (filter_keepb_okc rcs Fr). reflexivity.
    + intro K. apply app_eq_nil in K as [K _]. contradiction.
Qed.

Section Ops.
Variable c : cfg.
Hypothesis HP : plain c.
Hypothesis Hrs : 0 < c_rs c.
Hypothesis Hro : c_readonly c = false.

(* the common tail of every operation *)
Lemma finish_simr sa sr msa msr : Inv true c sa -> R sa sr -> envq sa sr -> REB c sa sr -> msa <> [] -> Forall2 mrel msa msr ->
  Forall (hnames_ok true) (map m_hdr msa) -> Forall (fun m => 0 < m_hb m) msa ->
  exists sa' sr' o, append_and_index c sa (last_indexed (db sa) (c_rs c)) msa (map m_hdr msa) false false = (sa', o) /\
    append_and_index c sr (last_indexed (db sr) (c_rs c)) msr (map m_hdr msr) false false = (sr', o) /\
    R sa' sr' /\ envq sa' sr' /\ (Sync c sa' -> REB c sa' sr').
Proof.
  intros HI HR He Hq Hne Hms Hok Hhb.
  destruct (append_simr c HP Hrs sa sr msa msr (conj HI HR) Hne Hms Hok) as (pa' & pr' & res & E1 & E2 & Tr & Hp & Hreb).
  eexists _, _, _. split; [exact E1|]. split; [exact E2|]. split; [split; [exact Tr|exact Hp]|]. split; [exact He|].
  intro HS. pose proof (replay_ok_of_sync c sa msa Hrs (Inv_Sync _ _ _ HI) Hne Hhb) as K. rewrite E1 in K. cbn [fst snd] in K.
  apply Hreb; [exact Hq|apply outc_ok; apply K; exact HS].
Qed.

(* ---------- Archive of one directory / empty file (mknodeWithoutLocking) *)
Lemma mknode_simr sa sr dir name perm : GoodE c sa sr -> good name ->
  exists sa' sr', mknode c sa dir name perm false [] false = (sa', OOk) /\
    mknode c sr dir name perm false [] false = (sr', OOk) /\ GoodE c sa' sr' /\ live_name (rows (db sa')) name = true.
Proof.
  intros HG G. pose proof HG as [HI Hhb HR He].
  destruct (mknode_ok true c HP Hrs Hro sa dir name perm HI Hhb G) as (sa' & Ea & HI' & Hhb' & Hlv).
  { right. left. exact (root_live_name c sa sr HG). }
  exists sa'. revert Ea. unfold mknode. rewrite Hro. unfold archive_op. cbn [archive_members f_hdr f_data].
  pose proof He as (E1 & E2 & E3). rewrite E3.
  set (h := mknode_hdr c dir name [] perm (clk sa)).
  assert (Esz : is_reg h && (0 <? h_size h) = false) by (cbn; apply andb_false_r). rewrite Esz.
  assert (Hh : hrel h h) by apply hrel_refl.
  destruct (mk_member_rel sa sr h h None 0 He Hh) as (M1 & M2 & [F1 F2] & [G1 G2]).
  pose proof (mk_member_hdr sa h None 0) as A. pose proof (mk_member_hdr sr h None 0) as Ar.
  destruct (mk_member_spec sa h None 0 Hhb) as (_ & B & _).
  destruct (mk_member sa h None 0) as [ma sa1]. destruct (mk_member sr h None 0) as [mr sr1]. cbn [fst snd] in *.
  intro Ea.
  destruct (finish_simr sa1 sr1 [ma] [mr]) as (sa'' & sr' & o & Fa & Fr & HR' & He' & Hq').
  { eapply Inv_ext; eassumption. }
  { destruct HR as [C D]. split; [rewrite F1, G1; exact C|rewrite F2, G2; exact D]. }
  { exact M2. }
  { apply (REB_same c sa sr); [exact (ge_reb _ _ _ HG)|exact G1|exact F2|rewrite G2; apply same_refl]. }
  { discriminate. }
  { constructor; [exact M1|constructor]. }
  { cbn [map]. rewrite A. constructor; [|constructor]. apply (mknode_hdr_ok true c dir name perm (clk sa) G). }
  { constructor; [exact B|constructor]. }
  cbn [map] in Fa, Fr. rewrite A, F2 in Fa. rewrite Ar, G2 in Fr. rewrite Ea in Fa. injection Fa as <- <-.
  exists sr'. split; [exact Ea|]. split; [exact Fr|]. split; [|exact Hlv]. split; try assumption. apply Hq'. eapply Inv_Sync. exact HI'.
Qed.

(* ---------- Update of one file *)
Lemma pop_enc_rel sa sr n : envq sa sr ->
  fst (pop_enc sr n) = fst (pop_enc sa n) /\ envq (snd (pop_enc sa n)) (snd (pop_enc sr n)) /\
  frame sa (snd (pop_enc sa n)) /\ frame sr (snd (pop_enc sr n)).
Proof.
  intros (E1 & E2 & E3). unfold pop_enc. rewrite E2. destruct (encq sa) as [|x q] eqn:Eq; cbn [fst snd];
    (split; [reflexivity|]; split; [unfold envq; cbn; repeat split; congruence|]; split; split; reflexivity).
Qed.

Lemma encode_rel sa sr ha hr : envq sa sr -> hrel ha hr ->
  hrel (fst (fst (encode c sa ha))) (fst (fst (encode c sr hr))) /\
  snd (fst (encode c sr hr)) = snd (fst (encode c sa ha)) /\
  envq (snd (encode c sa ha)) (snd (encode c sr hr)) /\
  frame sa (snd (encode c sa ha)) /\ frame sr (snd (encode c sr hr)).
Proof.
  intros He Hh. unfold encode. rewrite (hr_size _ _ Hh).
  destruct (pop_enc_rel sa sr (h_size ha) He) as (P1 & P2 & P3 & P4).
  destruct (pop_enc sa (h_size ha)) as [ea sa1]. destruct (pop_enc sr (h_size ha)) as [er sr1]. cbn [fst snd] in *. subst er.
  split; [|split; [reflexivity|]; split; [exact P2|]; split; assumption].
  rewrite !(suffix_if_plain c _ _ HP). cbn [h_name set_pax].
  apply hrel_wsn; [|exact (hr_name _ _ Hh)].
  apply hrel_set_pax; [exact Hh|]. apply pax_set_rel_eq. exact (hr_pax _ _ Hh).
Qed.

Lemma frame_trans s1 s2 s3 : frame s1 s2 -> frame s2 s3 -> frame s1 s3.
Proof. intros [A B] [C D]. split; congruence. Qed.
Lemma frame_refl s : frame s s.
Proof. split; reflexivity. Qed.

Lemma update_members_rel sa sr fa fr rp sk : envq sa sr -> hrel (f_hdr fa) (f_hdr fr) -> f_data fr = f_data fa ->
  exists ma mr sa1 sr1, update_members c sa [fa] rp sk = ([ma], [m_hdr ma], sa1) /\
    update_members c sr [fr] rp sk = ([mr], [m_hdr mr], sr1) /\
    mrel ma mr /\ envq sa1 sr1 /\ frame sa sa1 /\ frame sr sr1.
Proof.
  intros He Hh Hd. cbn [update_members].
  set (h1a := set_pax (f_hdr fa) (pax_del K_replaces_name (pax_set K_action V_update (pax_set K_version V_1 (h_pax (f_hdr fa)))))).
  set (h1r := set_pax (f_hdr fr) (pax_del K_replaces_name (pax_set K_action V_update (pax_set K_version V_1 (h_pax (f_hdr fr)))))).
  assert (H1 : hrel h1a h1r).
  { apply hrel_set_pax; [exact Hh|]. apply pax_del_rel. apply pax_set_rel_eq. apply pax_set_rel_eq. exact (hr_pax _ _ Hh). }
  assert (Ereg : is_reg h1r = is_reg h1a) by (unfold is_reg; rewrite (hr_tf _ _ H1); reflexivity).
  rewrite Ereg, (hr_size _ _ H1).
  assert (ENC : exists h2a h2r enc sa1 sr1,
     (if is_reg h1a && rp && ((0 <? h_size h1a) || sk) then encode c sa h1a else (h1a, 0, sa)) = (h2a, enc, sa1) /\
     (if is_reg h1a && rp && ((0 <? h_size h1a) || sk) then encode c sr h1r else (h1r, 0, sr)) = (h2r, enc, sr1) /\
     hrel h2a h2r /\ envq sa1 sr1 /\ frame sa sa1 /\ frame sr sr1).
  { destruct (is_reg h1a && rp && ((0 <? h_size h1a) || sk)).
    - destruct (encode_rel sa sr h1a h1r He H1) as (X1 & X2 & X3 & X4 & X5).
      destruct (encode c sa h1a) as [[h2a ea] sa1]. destruct (encode c sr h1r) as [[h2r er] sr1]. cbn [fst snd] in *. subst er.
      eexists _, _, _, _, _. split; [reflexivity|]. split; [reflexivity|]. split; [exact X1|]. split; [exact X3|]. split; assumption.
    - eexists _, _, _, _, _. split; [reflexivity|]. split; [reflexivity|]. split; [exact H1|]. split; [exact He|]. split; apply frame_refl. }
  destruct ENC as (h2a & h2r & enc & sa1 & sr1 & -> & -> & H2 & He1 & Fa1 & Fr1). rewrite Hd.
  destruct rp.
  - set (h3a := set_pax h2a (pax_set K_replaces_content V_true (h_pax h2a))).
    set (h3r := set_pax h2r (pax_set K_replaces_content V_true (h_pax h2r))).
    assert (H3 : hrel h3a h3r) by (apply hrel_set_pax; [exact H2|apply pax_set_rel_eq; exact (hr_pax _ _ H2)]).
    match goal with |- context [mk_member sa1 h3a ?d ?e] =>
      destruct (mk_member_rel sa1 sr1 h3a h3r d e He1 H3) as (M1 & M2 & M3 & M4);
      pose proof (mk_member_hdr sa1 h3a d e) as A; pose proof (mk_member_hdr sr1 h3r d e) as Ar;
      destruct (mk_member sa1 h3a d e) as [ma sa2]; destruct (mk_member sr1 h3r d e) as [mr sr2] end.
    cbn [fst snd] in *. exists ma, mr, sa2, sr2. rewrite A, Ar.
    split; [reflexivity|]. split; [reflexivity|]. split; [exact M1|]. split; [exact M2|].
    split; eapply frame_trans; eassumption.
  - set (h3a := with_size_name (set_pax h2a (pax_set K_replaces_content V_false (keep_size h2a))) 0 (h_name h2a)).
    set (h3r := with_size_name (set_pax h2r (pax_set K_replaces_content V_false (keep_size h2r))) 0 (h_name h2r)).
    assert (H3 : hrel h3a h3r).
    { apply hrel_wsn; [|exact (hr_name _ _ H2)]. apply hrel_set_pax; [exact H2|apply pax_set_rel_eq; apply keep_size_rel; exact H2]. }
    destruct (mk_member_rel sa1 sr1 h3a h3r None 0 He1 H3) as (M1 & M2 & M3 & M4).
    pose proof (mk_member_hdr sa1 h3a None 0) as A. pose proof (mk_member_hdr sr1 h3r None 0) as Ar.
    destruct (mk_member sa1 h3a None 0) as [ma sa2]. destruct (mk_member sr1 h3r None 0) as [mr sr2].
    cbn [fst snd] in *. exists ma, mr, sa2, sr2. rewrite A, Ar.
    split; [reflexivity|]. split; [reflexivity|]. split; [exact M1|]. split; [exact M2|].
    split; eapply frame_trans; eassumption.
Qed.

Lemma update_simr sa sr fa fr rp sk : GoodE c sa sr -> hrel (f_hdr fa) (f_hdr fr) -> f_data fr = f_data fa ->
  good (h_name (f_hdr fa)) -> h_link (f_hdr fa) = [] -> usize_ok (h_pax (f_hdr fa)) ->
  live_name (rows (db sa)) (h_name (f_hdr fa)) = true ->
  exists sa' sr', update_op c sa [fa] rp sk = (sa', OOk) /\ update_op c sr [fr] rp sk = (sr', OOk) /\ GoodE c sa' sr'.
Proof.
  intros HG Hh Hd G Hk Hu Hlive. pose proof HG as [HI Hhb HR He].
  destruct (update_ok true c HP Hrs sa fa rp sk HI Hhb G Hk Hu Hlive) as (sa' & Ea & HI' & Hhb').
  destruct (update_members_single true c HP sa fa rp sk Hhb G Hk Hu) as (m0 & s0 & Em0 & B & _ & _ & _ & X1 & _).
  exists sa'. revert Ea. unfold update_op.
  destruct (update_members_rel sa sr fa fr rp sk He Hh Hd) as (ma & mr & sa1 & sr1 & Ua & Ur & M1 & M2 & [F1 F2] & [G1 G2]).
  rewrite Ua in Em0. injection Em0 as -> _ _. rewrite Ua, Ur. intro Ea.
  destruct (finish_simr sa1 sr1 [m0] [mr]) as (sa'' & sr' & o & Fa & Fr & HR' & He' & Hq').
  { eapply Inv_ext; eassumption. }
  { destruct HR as [C D]. split; [rewrite F1, G1; exact C|rewrite F2, G2; exact D]. }
  { exact M2. }
  { apply (REB_same c sa sr); [exact (ge_reb _ _ _ HG)|exact G1|exact F2|rewrite G2; apply same_refl]. }
  { discriminate. }
  { constructor; [exact M1|constructor]. }
  { constructor; [exact X1|constructor]. }
  { constructor; [exact B|constructor]. }
  cbn [map] in Fa, Fr. rewrite F2 in Fa. rewrite G2 in Fr. rewrite Ea in Fa. injection Fa as <- <-.
  exists sr'. split; [exact Ea|]. split; [exact Fr|]. split; try assumption. apply Hq'. eapply Inv_Sync. exact HI'.
Qed.
(* ---------- Delete *)
Lemma del_hdr_rel a r : rowrel a r -> hrel (del_hdr a) (del_hdr r).
Proof.
  intro H. pose proof (hrel_of_rowrel a r H) as Hh. unfold del_hdr.
  apply hrel_wsn; [|exact (hr_name _ _ Hh)].
  apply hrel_set_pax; [exact Hh|]. apply pax_set_rel_eq. apply pax_set_rel_eq. exact (hr_pax _ _ Hh).
Qed.

Lemma envq_set_db sa sr pa pr : envq sa sr -> envq (set_db sa pa) (set_db sr pr).
Proof. intro H. exact H. Qed.

(* the relational half: outcomes agree and the results are related *)
Lemma delete_op_rel sa sr name : GoodE c sa sr -> good name -> name <> [slash] ->
  exists sa' sr' o, delete_op c sa name = (sa', o) /\ delete_op c sr name = (sr', o) /\ R sa' sr' /\ envq sa' sr' /\
    (Sync c sa' -> REB c sa' sr').
Proof.
  intros HG G Hn. pose proof HG as [HI Hhb HR He]. pose proof (GoodE_PR _ _ _ HG) as HQ.
  unfold delete_op.
  destruct (lookup_entry_sim (db sa) (db sr) name name HQ G Hn (nrel_refl _)) as (pr1 & rr & Ea & Er & S1 & Hrr). rewrite Ea, Er.
  destruct (find_rows (rows (db sa)) name) as [r|] eqn:Ef; cbn [of_find] in *; inversion Hrr as [? r' Hr'| | |]; subst.
  2:{ eexists _, _, _. split; [reflexivity|]. split; [reflexivity|]. rewrite set_db_same. split; [|split; [exact He|intros _; apply (REB_same c sa sr); [exact (ge_reb _ _ _ HG)|reflexivity|reflexivity|exact S1]]].
      split; [exact (R_tp _ _ HR)|]. cbn [db set_db]. eapply prel_same; [exact (R_db _ _ HR)|exact S1]. }
  destruct (find_rows_row _ _ name r HQ Ef) as (Hin & Hlive & Hrn & Hlk & Hrok).
  pose proof (PR_same _ _ _ HQ S1) as HQ1. pose proof (PR_rowok _ _ HQ) as Hrows.
  rewrite (rr_tf _ _ Hr'), (rr_link _ _ Hr').
  assert (KK : exists kids pr2 kids', (if (r_tf r =? TypeDir) && eqb_str (r_link r) [] then get_children (db sa) name else (db sa, [])) = (db sa, kids) /\
             (if (r_tf r =? TypeDir) && eqb_str (r_link r) [] then get_children pr1 name else (pr1, [])) = (pr2, kids') /\
             same (db sr) pr2 /\ rows_rel kids kids' /\ Forall (fun x => In x (rows (db sa)) /\ kid_filter name x = true) kids).
  { destruct ((r_tf r =? TypeDir) && eqb_str (r_link r) []).
    - destruct (get_children_sim (db sa) pr1 name name HQ1 G Hn (nrel_refl _)) as (pr2 & lr & E1 & E2 & S2 & Hk).
      eexists _, _, _. split; [exact E1|]. split; [exact E2|]. split; [eapply same_trans; eassumption|]. split; [exact Hk|].
      apply Forall_forall. intros x Hx. apply filter_In in Hx. exact Hx.
    - eexists _, _, _. split; [reflexivity|]. split; [reflexivity|]. split; [exact S1|]. split; constructor. }
  destruct KK as (kids & pr2 & kids' & -> & -> & S2 & Hkids & HkF).
  change (fun x : row => with_size_name (set_pax (hdr_of_row x) (pax_set K_action V_delete (pax_set K_version V_1 (h_pax (hdr_of_row x))))) 0
            (h_name (hdr_of_row x))) with del_hdr.
  rewrite set_db_same.
  assert (Hhs : Forall2 hrel (map del_hdr (r :: kids)) (map del_hdr (r' :: kids'))).
  { apply (F2_map rowrel hrel); [constructor; assumption|]. intros x y _ _ K. apply del_hdr_rel. exact K. }
  destruct (plain_members_rel _ _ Hhs sa (set_db sr pr2) He) as (M1 & M2 & [F1 F2] & [G1 G2]).
  pose proof (plain_members_hdrs (map del_hdr (r :: kids)) sa) as A. pose proof (plain_members_hdrs (map del_hdr (r' :: kids')) (set_db sr pr2)) as Ar.
  set (HDRS := map del_hdr (r :: kids)) in *.
  destruct (plain_members sa HDRS) as [msa sa1] eqn:EPM. destruct (plain_members (set_db sr pr2) (map del_hdr (r' :: kids'))) as [msr sr1].
  cbn [fst snd] in *. cbn [tp db set_db] in G1, G2.
  destruct (plain_members_spec HDRS sa Hhb) as (_ & B & _). rewrite EPM in B. cbn [fst] in B.
  destruct (finish_simr sa1 sr1 msa msr) as (sa' & sr' & o & Fa & Fr & HR' & He' & Hq').
  { eapply Inv_ext; eassumption. }
  { destruct HR as [C D]. split; [rewrite F1, G1; exact C|rewrite F2, G2; eapply prel_same; eassumption]. }
  { exact M2. }
  { apply (REB_same c sa sr); [exact (ge_reb _ _ _ HG)|exact G1|exact F2|rewrite G2; exact S2]. }
  { intro K. subst msa. discriminate. }
  { exact M1. }
  { rewrite A. rewrite Forall_forall in Hrows, HkF. apply Forall_forall. intros h Hh. apply in_map_iff in Hh as (x & <- & Hx).
    apply (del_hdr_ok true).
    - destruct Hx as [<-|Hx]; [exact Hrok|apply Hrows; apply (HkF x Hx)].
    - intros _. destruct Hx as [<-|Hx]; [rewrite Hrn; exact Hn|].
      destruct (HkF x Hx) as (Hxin & Hxf). destruct (kid_filter_facts name x G Hn (proj1 (Hrows x Hxin)) Hxf) as (_ & L2 & _).
      eapply nonroot_of_prefix; [|exact L2]. apply good_nonempty. exact G. }
  { exact B. }
  rewrite A, F2 in Fa. rewrite Ar, G2, (last_indexed_same _ _ _ S2) in Fr.
  exists sa', sr', o. split; [exact Fa|]. split; [exact Fr|]. split; [exact HR'|]. split; assumption.
Qed.

Lemma delete_op_simr sa sr name : GoodE c sa sr -> good name -> name <> [slash] ->
  exists sa' sr' o, delete_op c sa name = (sa', o) /\ delete_op c sr name = (sr', o) /\ GoodE c sa' sr'.
Proof.
  intros HG G Hn. destruct (delete_op_rel sa sr name HG G Hn) as (sa' & sr' & o & Ea & Er & HR' & He' & Hq').
  destruct (delete_ok true c HP Hrs sa name (ge_inv _ _ _ HG) (ge_hb _ _ _ HG) G (fun _ => Hn)) as (s' & o' & E & HI' & Hhb').
  rewrite Ea in E. injection E as <- <-. exists sa', sr', o. split; [exact Ea|]. split; [exact Er|]. split; try assumption.
  apply Hq'. eapply Inv_Sync. exact HI'.
Qed.

(* ---------- Move *)
Lemma mov_hdr_rel a r na : rowrel a r -> is_abs na = true -> hrel (mov_hdr a na) (mov_hdr r (norm_name na)).
Proof.
  intros H Hna. pose proof (hrel_of_rowrel a r H) as Hh. unfold mov_hdr.
  apply hrel_wsn; [|apply nrel_norm].
  apply hrel_set_pax; [exact Hh|]. apply pax_set_rel.
  - apply pax_set_rel_eq. apply pax_set_rel_eq. apply pax_del_rel. apply keep_size_rel. exact Hh.
  - right. split; [reflexivity|exact (rr_name _ _ H)].
Qed.

Lemma move_op_rel sa sr from to : GoodE c sa sr -> good from -> good to -> from <> [slash] -> to <> [slash] -> from <> to ->
  exists sa' sr' o, move_op c sa from to = (sa', o) /\ move_op c sr from to = (sr', o) /\ R sa' sr' /\ envq sa' sr' /\
    (Sync c sa' -> REB c sa' sr').
Proof.
  intros HG Gf Gt Hf Ht Hft. pose proof HG as [HI Hhb HR He]. pose proof (GoodE_PR _ _ _ HG) as HQ.
  unfold move_op. assert (Eft : eqb_str from to = false) by (apply eqb_str_neq; exact Hft). rewrite Eft.
  destruct (lookup_entry_sim (db sa) (db sr) from from HQ Gf Hf (nrel_refl _)) as (pr1 & rr & Ea & Er & S1 & Hrr). rewrite Ea, Er.
  destruct (find_rows (rows (db sa)) from) as [r|] eqn:Ef; cbn [of_find] in *; inversion Hrr as [? r' Hr'| | |]; subst.
  2:{ eexists _, _, _. split; [reflexivity|]. split; [reflexivity|]. rewrite set_db_same. split; [|split; [exact He|intros _; apply (REB_same c sa sr); [exact (ge_reb _ _ _ HG)|reflexivity|reflexivity|exact S1]]].
      split; [exact (R_tp _ _ HR)|]. cbn [db set_db]. eapply prel_same; [exact (R_db _ _ HR)|exact S1]. }
  destruct (find_rows_row _ _ from r HQ Ef) as (Hin & Hlive & Hrn & Hlk & Hrok).
  pose proof (PR_same _ _ _ HQ S1) as HQ1. pose proof (PR_rowok _ _ HQ) as Hrows.
  assert (Eabs : is_abs to && negb (is_abs (r_name r)) = false) by (rewrite (good_abs _ (proj1 Hrok)); apply andb_false_r).
  assert (Eabs' : is_abs to && negb (is_abs (r_name r')) = true).
  { rewrite (good_abs _ Gt), (rr_name _ _ Hr'). destruct (good_inv _ (proj1 Hrok)) as (cs & Hcs & ->). unfold pth. rewrite norm_name_good.
    rewrite join_not_abs by exact Hcs. reflexivity. }
  rewrite Eabs, Eabs', Eft.
  assert (Eft' : eqb_str from (trim_prefix [slash] to) = false).
  { apply eqb_str_neq. intro K. pose proof (good_abs _ Gf) as A1. rewrite K in A1. destruct (good_inv _ Gt) as (cs & Hcs & ->).
    unfold pth in A1. rewrite trim_prefix_slash, join_not_abs in A1 by exact Hcs. discriminate. }
  rewrite Eft'. rewrite (rr_tf _ _ Hr').
  assert (KK : exists kids pr2 kids', (if r_tf r =? TypeDir then get_children (db sa) from else (db sa, [])) = (db sa, kids) /\
             (if r_tf r =? TypeDir then get_children pr1 from else (pr1, [])) = (pr2, kids') /\
             same (db sr) pr2 /\ rows_rel kids kids' /\ Forall (fun x => In x (rows (db sa)) /\ kid_filter from x = true) kids).
  { destruct (r_tf r =? TypeDir).
    - destruct (get_children_sim (db sa) pr1 from from HQ1 Gf Hf (nrel_refl _)) as (pr2 & lr & E1 & E2 & S2 & Hk).
      eexists _, _, _. split; [exact E1|]. split; [exact E2|]. split; [eapply same_trans; eassumption|]. split; [exact Hk|].
      apply Forall_forall. intros x Hx. apply filter_In in Hx. exact Hx.
    - eexists _, _, _. split; [reflexivity|]. split; [reflexivity|]. split; [exact S1|]. split; constructor. }
  destruct KK as (kids & pr2 & kids' & -> & -> & S2 & Hkids & HkF).
  rewrite (move_hdrs_eq from to). rewrite (move_hdrs_eq from (trim_prefix [slash] to)). rewrite set_db_same.
  assert (HPP : Forall (PP from to) (r :: kids)).
  { rewrite Forall_forall in Hrows, HkF. constructor.
    - split; [exact Hrok|]. left. split; [exact Hrn|]. unfold nn. rewrite Hrn. apply move_name_self; assumption.
    - apply Forall_forall. intros x Hx. destruct (HkF x Hx) as (Hxin & Hxf). pose proof (Hrows x Hxin) as Hok.
      destruct (kid_filter_facts from x Gf Hf (proj1 Hok) Hxf) as (_ & L2 & _).
      split; [exact Hok|]. right. unfold nn. apply move_name_below; try assumption. apply Hok. }
  assert (Hhs : Forall2 hrel (map (mk from to) (r :: kids)) (map (mk from (trim_prefix [slash] to)) (r' :: kids'))).
  { apply (F2_map rowrel hrel); [constructor; assumption|]. intros x y Hx _ K. unfold mk.
    rewrite Forall_forall in HPP. pose proof (HPP x Hx) as Px. destruct (PP_facts from to Gf Gt Hf Ht Hft x Px) as (_ & F2 & _ & _).
    replace (nn from (trim_prefix [slash] to) y) with (norm_name (nn from to x)); [apply mov_hdr_rel; [exact K|apply good_abs; exact F2]|].
    unfold nn. rewrite (rr_name _ _ K). symmetry. apply move_name_rd; try assumption; [apply Px|].
    destruct Px as (_ & [[E _]|[rest [E _]]]); [left; exact E|right]. rewrite E. rewrite app_assoc. apply has_prefix_app'. }
  destruct (plain_members_rel _ _ Hhs sa (set_db sr pr2) He) as (M1 & M2 & [F1 F2] & [G1 G2]).
  pose proof (plain_members_hdrs (map (mk from to) (r :: kids)) sa) as A.
  pose proof (plain_members_hdrs (map (mk from (trim_prefix [slash] to)) (r' :: kids')) (set_db sr pr2)) as Ar.
  set (HDRS := map (mk from to) (r :: kids)) in *.
  destruct (plain_members sa HDRS) as [msa sa1] eqn:EPM.
  destruct (plain_members (set_db sr pr2) (map (mk from (trim_prefix [slash] to)) (r' :: kids'))) as [msr sr1].
  cbn [fst snd] in *. cbn [tp db set_db] in G1, G2.
  destruct (plain_members_spec HDRS sa Hhb) as (_ & B & _). rewrite EPM in B. cbn [fst] in B.
  destruct (finish_simr sa1 sr1 msa msr) as (sa' & sr' & o & Fa & Fr & HR' & He' & Hq').
  { eapply Inv_ext; eassumption. }
  { destruct HR as [C D]. split; [rewrite F1, G1; exact C|rewrite F2, G2; eapply prel_same; eassumption]. }
  { exact M2. }
  { apply (REB_same c sa sr); [exact (ge_reb _ _ _ HG)|exact G1|exact F2|rewrite G2; exact S2]. }
  { intro K. subst msa. discriminate. }
  { exact M1. }
  { rewrite A. apply Forall_forall. intros h Hh. apply in_map_iff in Hh as (x & <- & Hx).
    rewrite Forall_forall in HPP. pose proof (HPP x Hx) as Px. destruct (PP_facts from to Gf Gt Hf Ht Hft x Px) as (F1' & F2' & F3' & F4').
    apply (mov_hdr_ok true x (nn from to x) (proj1 Px) F1' F2' F3' F4'). }
  { exact B. }
  rewrite A, F2 in Fa. rewrite Ar, G2, (last_indexed_same _ _ _ S2) in Fr.
  exists sa', sr', o. split; [exact Fa|]. split; [exact Fr|]. split; [exact HR'|]. split; assumption.
Qed.

Lemma move_op_simr sa sr from to : GoodE c sa sr -> good from -> good to -> from <> [slash] -> to <> [slash] -> from <> to ->
  exists sa' sr' o, move_op c sa from to = (sa', o) /\ move_op c sr from to = (sr', o) /\ GoodE c sa' sr'.
Proof.
  intros HG Gf Gt Hf Ht Hft. destruct (move_op_rel sa sr from to HG Gf Gt Hf Ht Hft) as (sa' & sr' & o & Ea & Er & HR' & He' & Hq').
  destruct (move_ok true c HP Hrs from to Gf Gt Hf Ht Hft sa (ge_inv _ _ _ HG) (ge_hb _ _ _ HG)) as (s' & o' & E & HI' & Hhb').
  rewrite Ea in E. injection E as <- <-. exists sa', sr', o. split; [exact Ea|]. split; [exact Er|]. split; try assumption.
  apply Hq'. eapply Inv_Sync. exact HI'.
Qed.
End Ops.
