(* T23 / Append: append_and_index on related instances: the same tape shape and last indexed position on both sides,
   related results; and the named instance's own tape keeps rebuilding to EXACTLY the rows of its index ([REB]):
   the relation is functional, so the rebuild (cached root "") and the running index (cached root "top"), both related
   to the twin's index, hold the same rows. *)
From Coq Require Import List NArith ZArith Bool Lia.
From Coq Require Import ZifyN ZifyBool.
Import ListNotations.
From STFS Require Import Str Db Tape Index Ops Fs Diff Norm StrLemmas C01Str C01Db C01Inv C01Sim C01Tape C01Hdr C01Ops C01Ops2
  T23Rel T23Base T23Db T23Index.
Open Scope N_scope.
Set Default Proof Using "All".

(* the named instance's own tape rebuilds to exactly the rows of its index (a rebuild leaves the cached root unread) *)
Definition REB (c : cfg) (sr : sys) : Prop :=
  exists qr, rebuild c (tp sr) = (qr, Ok tt) /\ rows qr = rows (db sr) /\ root qr = [].

Section Top.
Variable top : str.
Hypothesis Htop : okc top.

Notation psi := (psi top).
Notation rowrel := (rowrel top).
Notation hrel := (hrel top).
Notation mrel := (mrel top).
Notation rows_rel := (rows_rel top).
Notation prel := (prel top).
Notation PR := (PR top).
Notation RT := (RT top).
Notation R := (R top).
Notation top_nonempty := (T23Base.top_nonempty top Htop).
Notation psi_root := (T23Base.psi_root top Htop).
Notation psi_pth := (T23Base.psi_pth top Htop).
Notation psi_good := (T23Base.psi_good top Htop).
Notation psi_nonroot := (T23Base.psi_nonroot top Htop).
Notation psi_inj := (T23Base.psi_inj top Htop).
Notation psi_eqb := (T23Base.psi_eqb top Htop).
Notation tcs_okc := (T23Base.tcs_okc top Htop).
Notation psi_not_abs := (T23Base.psi_not_abs top Htop).
Notation psi_nonempty := (T23Base.psi_nonempty top Htop).
Notation psi_is_root := (T23Base.psi_is_root top Htop).
Notation psi_clean := (T23Base.psi_clean top Htop).
Notation psi_trim_slash := (T23Base.psi_trim_slash top Htop).
Notation vrel_refl := (T23Base.vrel_refl top Htop).
Notation pax_rel_nil := (T23Base.pax_rel_nil top Htop).
Notation pax_get_rel := (T23Base.pax_get_rel top Htop).
Notation pax_get_rel_rn := (T23Base.pax_get_rel_rn top Htop).
Notation pax_set_rel := (T23Base.pax_set_rel top Htop).
Notation pax_set_rel_eq := (T23Base.pax_set_rel_eq top Htop).
Notation pax_del_rel := (T23Base.pax_del_rel top Htop).
Notation pax_rel_fun := (T23Base.pax_rel_fun top Htop).
Notation hrel_of_rowrel := (T23Base.hrel_of_rowrel top Htop).
Notation rowrel_of_hrel := (T23Base.rowrel_of_hrel top Htop).
Notation rowrel_set_lk := (T23Base.rowrel_set_lk top Htop).
Notation rowrel_set_name := (T23Base.rowrel_set_name top Htop).
Notation rowrel_fun := (T23Base.rowrel_fun top Htop).
Notation rows_rel_fun := (T23Base.rows_rel_fun top Htop).
Notation hrel_wsn := (T23Base.hrel_wsn top Htop).
Notation hrel_wsn_self := (T23Base.hrel_wsn_self top Htop).
Notation hrel_set_pax := (T23Base.hrel_set_pax top Htop).
Notation keep_size_rel := (T23Base.keep_size_rel top Htop).
Notation hrel_patch_mode := (T23Base.hrel_patch_mode top Htop).
Notation hrel_patch_owner := (T23Base.hrel_patch_owner top Htop).
Notation hrel_patch_times := (T23Base.hrel_patch_times top Htop).
Notation hrel_stamp := (T23Base.hrel_stamp top Htop).
Notation rowrel_name_eqb := (T23Base.rowrel_name_eqb top Htop).
Notation rowrel_key_eq := (T23Base.rowrel_key_eq top Htop).
Notation rowrel_live := (T23Base.rowrel_live top Htop).
Notation last_indexed_rel := (T23Base.last_indexed_rel top Htop).
Notation PR_rowok := (T23Db.PR_rowok top Htop).
Notation PR_good_r := (T23Db.PR_good_r top Htop).
Notation prel_with := (T23Db.prel_with top Htop).
Notation sanitize_wr := (T23Db.sanitize_wr top Htop).
Notation sanitize_top := (T23Db.sanitize_top top Htop).
Notation sanitize_nil := (T23Db.sanitize_nil top Htop).
Notation sanitize_rd := (T23Db.sanitize_rd top Htop).
Notation psi_slash_not_root := (T23Db.psi_slash_not_root top Htop).
Notation sanitize_rd_slash := (T23Db.sanitize_rd_slash top Htop).
Notation min_link_rel := (T23Db.min_link_rel top Htop).
Notation find_rows_rel := (T23Db.find_rows_rel top Htop).
Notation get_header_wr := (T23Db.get_header_wr top Htop).
Notation get_header_rd := (T23Db.get_header_rd top Htop).
Notation find_rel := (T23Db.find_rel top Htop).
Notation find_rows_trailing_rd := (T23Db.find_rows_trailing_rd top Htop).
Notation get_header_slash_rd := (T23Db.get_header_slash_rd top Htop).
Notation find_rows_row := (T23Db.find_rows_row top Htop).
Notation inv_stat_false_wr := (T23Db.inv_stat_false_wr top Htop).
Notation inv_stat_false_rd := (T23Db.inv_stat_false_rd top Htop).
Notation stat_res_rel := (T23Db.stat_res_rel top Htop).
Notation links_nil := (T23Db.links_nil top Htop).
Notation gh_link_rd := (T23Db.gh_link_rd top Htop).
Notation inv_stat_true_rd := (T23Db.inv_stat_true_rd top Htop).
Notation lookup_entry_wr := (T23Db.lookup_entry_wr top Htop).
Notation lookup_entry_rd := (T23Db.lookup_entry_rd top Htop).
Notation psi_pth_app := (T23Db.psi_pth_app top Htop).
Notation kid_filter_rel := (T23Db.kid_filter_rel top Htop).
Notation get_children_wr := (T23Db.get_children_wr top Htop).
Notation get_children_rd := (T23Db.get_children_rd top Htop).
Notation kids_rel := (T23Db.kids_rel top Htop).
Notation direct_pred_rel := (T23Db.direct_pred_rel top Htop).
Notation gdc_wr := (T23Db.gdc_wr top Htop).
Notation gdc_rd := (T23Db.gdc_rd top Htop).
Notation inv_list_wr := (T23Db.inv_list_wr top Htop).
Notation inv_list_rd := (T23Db.inv_list_rd top Htop).
Notation replace_row_rel := (T23Db.replace_row_rel top Htop).
Notation has_key_rel := (T23Db.has_key_rel top Htop).
Notation upsert_rows_rel := (T23Db.upsert_rows_rel top Htop).
Notation move_list_rel := (T23Db.move_list_rel top Htop).
Notation PR_PRw := (T23Index.PR_PRw top Htop).
Notation PRw_PR := (T23Index.PRw_PR top Htop).
Notation upsert_simr := (T23Index.upsert_simr top Htop).
Notation update_meta_simr := (T23Index.update_meta_simr top Htop).
Notation delete_simr := (T23Index.delete_simr top Htop).
Notation move_simr := (T23Index.move_simr top Htop).
Notation usz_rel := (T23Index.usz_rel top Htop).
Notation h_act_rel := (T23Index.h_act_rel top Htop).
Notation upd_body_simr := (T23Index.upd_body_simr top Htop).
Notation ih_body_simr := (T23Index.ih_body_simr top Htop).
Notation index_header_simr := (T23Index.index_header_simr top Htop).
Notation loop0_simr := (T23Index.loop0_simr top Htop).
Notation mstarts_rel := (T23Index.mstarts_rel top Htop).
Notation tape_rel_split := (T23Index.tape_rel_split top Htop).
Notation pos_items_rel := (T23Index.pos_items_rel top Htop).
Notation irel_of_mrel := (T23Index.irel_of_mrel top Htop).
Notation tape_rel_new := (T23Index.tape_rel_new top Htop).

Definition Good (c : cfg) (sa sr : sys) : Prop := Inv true c sa /\ R sa sr.

Lemma Good_PR c sa sr : Good c sa sr -> PR top (db sa) (db sr).
Proof. intros [HI HR]. split; [exact (iv_li _ _ _ HI)|exact (R_db _ _ _ HR)]. Qed.

Section Append.
Variable c : cfg.
Hypothesis HP : plain c.
Hypothesis Hrs : 0 < c_rs c.

Lemma append_simr sa sr msa msr : Good c sa sr -> msa <> [] -> Forall2 mrel msa msr ->
  Forall (hnames_ok true) (map m_hdr msa) ->
  exists pa' pr' (res : Db.res unit),
    append_and_index c sa (last_indexed (db sa) (c_rs c)) msa (map m_hdr msa) false false =
      ({| tp := tp sa ++ map TM msa ++ [TT]; db := pa'; hbq := hbq sa; encq := encq sa; clk := clk sa |}, outc_of_res res) /\
    append_and_index c sr (last_indexed (db sr) (c_rs c)) msr (map m_hdr msr) false false =
      ({| tp := tp sr ++ map TM msr ++ [TT]; db := pr'; hbq := hbq sr; encq := encq sr; clk := clk sr |}, outc_of_res res) /\
    tape_rel (tp sa ++ map TM msa ++ [TT]) (tp sr ++ map TM msr ++ [TT]) /\
    prel top pa' pr' /\
    (REB c sr -> res = Ok tt ->
     exists qr', rebuild c (tp sr ++ map TM msr ++ [TT]) = (qr', Ok tt) /\ rows qr' = rows pr' /\ root qr' = []).
Proof.
  intros HG Hne Hms Hok. pose proof (Good_PR _ _ _ HG) as HQ. destruct HG as [HI HR].
  destruct (iv_sync _ _ _ HI) as (pre & m & Et & Hle & Hin).
  destruct (tape_rel_split pre m (tp sr)) as (pre' & m' & Et' & Hpre & Hm); [rewrite <- Et; exact (R_tp _ _ _ HR)|].
  assert (Hpos : pos_items pre). { pose proof (iv_pos _ _ _ HI) as K. rewrite Et in K. apply pos_items_app in K. apply K. }
  assert (Hpos' : pos_items pre') by (eapply pos_items_rel; eassumption).
  assert (Hoff : off_of (c_rs c) (fst (last_indexed (db sa) (c_rs c))) (snd (last_indexed (db sa) (c_rs c))) = tape_blocks pre).
  { apply (last_indexed_max (c_rs c) (db sa) (tape_blocks pre) (pos_of (c_rs c) (tape_blocks pre))); [exact Hle|exact Hin|].
    unfold pos_of, off_of. cbn [fst snd]. pose proof (N.div_mod (tape_blocks pre) (c_rs c)). nia. }
  assert (Hne' : msr <> []) by (destruct Hms; [contradiction|discriminate]).
  assert (Tr : tape_rel (tp sa ++ map TM msa ++ [TT]) (tp sr ++ map TM msr ++ [TT])).
  { pose proof (tape_rel_new _ _ _ _ (R_tp _ _ _ HR) Hms Hne) as K. destruct msa; [contradiction|]. destruct msr; [contradiction|]. exact K. }
  destruct (loop0_simr top c (or_introl eq_refl) HP _ _ (mstarts_rel msa msr Hms (tape_blocks (pre ++ [TM m; TT])))
              ltac:(rewrite hd_of_mstarts_snd; exact Hok) _ _ HQ) as (pa' & pr' & res & E1 & E2 & HQ').
  exists pa', pr', res. split; [|split; [|split; [exact Tr|split; [exact (proj1 HQ')|]]]].
  3:{ intros (qr & Eq & Hrw & Hroot) Eres. change (map TM msr ++ [TT]) with (new_items msr). rewrite rebuild_extend, Eq.
      assert (HQq : PR [] (db sa) qr).
      { split; [exact (PR_li _ _ _ _ HQ)|]. split; [rewrite Hrw; exact (pr_rows _ _ _ _ (PR_rel _ _ _ _ HQ))|exact (pr_root_a _ _ _ _ (PR_rel _ _ _ _ HQ))|exact Hroot]. }
      destruct (loop0_simr [] c (or_intror eq_refl) HP _ _ (mstarts_rel msa msr Hms (tape_blocks (tp sa)))
                  ltac:(rewrite hd_of_mstarts_snd; exact Hok) (db sa) qr HQq) as (pa2 & qr' & res2 & X1 & X2 & X3).
      rewrite Et in X1 at 1. rewrite E1 in X1. injection X1 as <- <-.
      rewrite <- (tape_rel_blocks _ _ (R_tp _ _ _ HR)) in X2. rewrite X2, Eres. eexists. split; [reflexivity|].
      split; [|exact (pr_root_r _ _ _ _ (proj1 X3))].
      apply (rows_rel_fun (rows pa')); [exact (pr_rows _ _ _ _ (proj1 X3))|exact (pr_rows _ _ _ _ (proj1 HQ'))]. }
  - unfold append_and_index. destruct msa as [|m0 msa0]; [contradiction|]. set (ms := m0 :: msa0) in *.
    rewrite Hoff, Et. change (map TM ms ++ [TT]) with (new_items ms).
    rewrite (live_replay c pre m ms (db sa) Hpos), E1. reflexivity.
  - unfold append_and_index. destruct msr as [|m0 msr0]; [contradiction|]. set (ms := m0 :: msr0) in *.
    rewrite (last_indexed_rel (db sa) (db sr) (c_rs c) (pr_rows _ _ _ _ (R_db _ _ _ HR))), Hoff, Et'.
    rewrite <- (tape_rel_blocks _ _ Hpre).
    change (map TM ms ++ [TT]) with (new_items ms).
    rewrite (live_replay c pre' m' ms (db sr) Hpos').
    replace (tape_blocks (pre' ++ [TM m'; TT])) with (tape_blocks (pre ++ [TM m; TT])).
    + rewrite E2. reflexivity.
    + symmetry. apply tape_rel_blocks. apply Forall2_app; [exact Hpre|]. constructor; [exact Hm|constructor; [constructor|constructor]].
Qed.
End Append.
End Top.
