(* Names under codec suffixes in the M1 model: what the indexer stores for a record. *)
From Coq Require Import List Bool Arith NArith Lia.
Import ListNotations.
From STFS Require Import Str Db Tape Index.
Open Scope N_scope.

Lemma has_prefix_app p x : has_prefix p (p ++ x) = true.
Proof. induction p as [|a p IH]; cbn [has_prefix app]; [reflexivity|]. rewrite N.eqb_refl, IH. reflexivity. Qed.

Lemma trim_suffix_app s n : trim_suffix s (n ++ s) = n.
Proof.
  unfold trim_suffix, has_suffix. rewrite rev_app_distr, has_prefix_app.
  rewrite app_length. replace (List.length n + List.length s - List.length s)%nat with (List.length n) by lia.
  rewrite firstn_app, firstn_all, Nat.sub_diag. cbn. apply app_nil_r.
Qed.

Lemma remove_add_suffix c n : remove_suffix c (add_suffix c n) = n.
Proof.
  unfold remove_suffix, add_suffix. rewrite app_assoc, trim_suffix_app, trim_suffix_app. reflexivity.
Qed.

(* a record that carries encoded content was written under AddSuffix(name): it is indexed under name *)
Lemma indexed_name_encoded c h n :
  tf_regular (h_tf h) = true -> 0 < h_size h -> h_name h = add_suffix c n -> indexed_name c h = n.
Proof.
  intros Hr Hs Hn. unfold indexed_name. rewrite Hr. apply N.ltb_lt in Hs. rewrite Hs. cbn [andb].
  rewrite Hn. apply remove_add_suffix.
Qed.
(* a record without content (empty files, metadata updates, moves, deletes) and every record of another
   kind (directories, links) carries the plain name: it is indexed unchanged, whatever it ends in *)
Lemma indexed_name_plain c h :
  h_size h = 0 \/ tf_regular (h_tf h) = false -> indexed_name c h = h_name h.
Proof.
  intros [Hs|Hr]; unfold indexed_name.
  - rewrite Hs. rewrite andb_false_r. reflexivity.
  - rewrite Hr. reflexivity.
Qed.
