(* T02 / names as component lists: filepath.Dir of a cleaned absolute name drops the last component;
   "strictly below" is "proper extension of the component list". *)
From Coq Require Import List NArith ZArith Bool Lia.
From Coq Require Import ZifyN ZifyBool.
Import ListNotations.
From STFS Require Import Str Db Tape Index Ops Fs Diff Norm StrLemmas C01Str C01Db C01Inv C01Ops2 T02Ns T02Db T02Reads.
Open Scope N_scope.

Definition P (cs : list str) : str := slash :: join_slash cs.

Lemma good_P cs : Forall okc cs -> good (P cs).
Proof. intro H. exists cs. split; [exact H|reflexivity]. Qed.

Lemma join_nonempty a r : okc a -> join_slash (a :: r) <> [].
Proof. intros H K. destruct (join_head a r H) as (x & t & E & _). rewrite E in K. discriminate. Qed.

Lemma P_root_iff cs : Forall okc cs -> (P cs = [slash] <-> cs = []).
Proof.
  intro H. split; [|intros ->; reflexivity]. intro E. destruct cs as [|a r]; [reflexivity|].
  inversion H; subst. inversion E as [E']. exfalso. eapply join_nonempty; eassumption.
Qed.

Lemma join_inj cs cs' : Forall okc cs -> Forall okc cs' -> join_slash cs = join_slash cs' -> cs = cs'.
Proof.
  intros H H' E. destruct cs as [|a r], cs' as [|a' r']; [reflexivity| | |].
  - inversion H'; subst. exfalso. symmetry in E. eapply join_nonempty; eassumption.
  - inversion H; subst. exfalso. eapply join_nonempty; eassumption.
  - rewrite <- (split_join (a :: r)), <- (split_join (a' :: r')), E; [reflexivity|discriminate|apply okc_noslash; exact H'|discriminate|apply okc_noslash; exact H].
Qed.

Lemma P_inj cs cs' : Forall okc cs -> Forall okc cs' -> P cs = P cs' -> cs = cs'.
Proof. intros H H' E. inversion E. apply join_inj; assumption. Qed.

(* ---------- filepath.Dir *)
Lemma last_slash_noslash c : forall i best, noslash c -> last_slash_aux c i best = best.
Proof.
  induction c as [|a r IH]; intros i best H; cbn [last_slash_aux]; [reflexivity|].
  assert (E : (a =? slash) = false).
  { destruct (a =? slash) eqn:E; [|reflexivity]. apply N.eqb_eq in E. exfalso. apply H. left. exact E. }
  rewrite E. apply IH. intro K. apply H. right. exact K.
Qed.

Lemma last_slash_app A c : forall i best, noslash c ->
  last_slash_aux (A ++ slash :: c) i best = (i + length A + 1)%nat.
Proof.
  induction A as [|a A IH]; intros i best H; cbn [app last_slash_aux length].
  - rewrite N.eqb_refl. rewrite last_slash_noslash by exact H. lia.
  - rewrite IH by exact H. lia.
Qed.

Lemma upto_last_slash_app A c : noslash c -> upto_last_slash (A ++ slash :: c) = A ++ [slash].
Proof.
  intro H. unfold upto_last_slash. rewrite last_slash_app by exact H. cbn [Nat.add].
  replace (length A + 1)%nat with (length (A ++ [slash])) by (rewrite app_length; reflexivity).
  change (A ++ slash :: c) with (A ++ [slash] ++ c). rewrite app_assoc. rewrite firstn_app, firstn_all, Nat.sub_diag. cbn. apply app_nil_r.
Qed.

Lemma path_clean_trailing cs : Forall okc cs -> cs <> [] -> path_clean (P cs ++ [slash]) = P cs.
Proof.
  intros H Hne. unfold path_clean, P. cbn [app]. rewrite N.eqb_refl.
  rewrite split_slash_cons_slash. change (join_slash cs ++ [slash]) with (join_slash cs ++ slash :: []).
  rewrite split_slash_app, split_join; [|exact Hne|apply okc_noslash; exact H].
  change (split_slash []) with [@nil N]. cbn [clean_comps eqb_str orb].
  rewrite clean_comps_ok.
  - cbn [rev app]. rewrite filter_app. rewrite filter_nonempty_okc by exact H. cbn. rewrite app_nil_r. reflexivity.
  - apply Forall_app. split; [|constructor; [right; reflexivity|constructor]].
    eapply Forall_impl; [|exact H]. intros a Ha. left. exact Ha.
Qed.

Lemma path_dir_snoc cs c : Forall okc cs -> okc c -> path_dir (P (cs ++ [c])) = P cs.
Proof.
  intros H Hc. unfold path_dir. destruct cs as [|a r].
  - unfold P. cbn [app join_slash]. change (slash :: c) with ([] ++ slash :: c).
    rewrite upto_last_slash_app by apply Hc. reflexivity.
  - unfold P. rewrite join_snoc by discriminate.
    change (slash :: join_slash (a :: r) ++ slash :: c) with (P (a :: r) ++ slash :: c).
    rewrite upto_last_slash_app by apply Hc. apply path_clean_trailing; [exact H|discriminate].
Qed.

Lemma path_dir_root : path_dir [slash] = [slash].
Proof. reflexivity. Qed.

(* ---------- strictly below *)
Lemma below_comps ps t : Forall okc ps -> Forall okc t -> t <> [] -> below (P ps) (P (ps ++ t)) = true.
Proof.
  intros Hp Ht Hne. destruct t as [|t0 tr]; [contradiction|]. inversion Ht; subst.
  destruct ps as [|a r].
  - unfold below. cbn [app]. change (pfx (P [])) with [slash]. unfold P. cbn [has_prefix]. rewrite N.eqb_refl. cbn [andb].
    apply negb_true_iff. apply eqb_str_neq. intro K. inversion K. eapply join_nonempty; eassumption.
  - assert (Hr : P (a :: r) <> [slash]).
    { intro K. apply (P_root_iff (a :: r) Hp) in K. discriminate. }
    rewrite (below_good _ _ (good_P _ Hp) Hr). unfold P. rewrite join_app by discriminate.
    change ((slash :: join_slash (a :: r)) ++ [slash]) with (slash :: join_slash (a :: r) ++ [slash]).
    cbn [has_prefix]. rewrite N.eqb_refl. cbn [andb].
    change (slash :: join_slash (t0 :: tr)) with ([slash] ++ join_slash (t0 :: tr)). rewrite app_assoc. apply has_prefix_app'.
Qed.

Lemma below_inv p n : good p -> good n -> below p n = true ->
  exists ps t, Forall okc ps /\ Forall okc t /\ t <> [] /\ p = P ps /\ n = P (ps ++ t).
Proof.
  intros Gp Gn H. destruct (eqb_str p [slash]) eqn:E.
  - apply eqb_str_eq in E. subst p. destruct Gn as (cs & Hcs & ->). exists [], cs. split; [constructor|]. split; [exact Hcs|].
    split; [|split; reflexivity]. intro K. subst cs. unfold below in H. cbn in H. discriminate.
  - apply eqb_str_neq in E. rewrite (below_good p n Gp E) in H.
    destruct (below_decompose p n Gp E Gn H) as (fcs & rcs & Hf & Hr & Of & Or & Ep & En).
    exists fcs, rcs. repeat split; assumption.
Qed.

Lemma below_trans a b d : good a -> good b -> good d -> below a b = true -> below b d = true -> below a d = true.
Proof.
  intros Ga Gb Gd H1 H2.
  destruct (below_inv a b Ga Gb H1) as (ps & t & Hps & Ht & Hne & -> & Eb).
  destruct (below_inv b d Gb Gd H2) as (ps' & t' & Hps' & Ht' & Hne' & Eb' & ->).
  rewrite Eb in Eb'. apply P_inj in Eb'; [|apply Forall_app; split; assumption|exact Hps']. subst ps'.
  rewrite <- app_assoc. apply below_comps; [exact Hps|apply Forall_app; split; assumption|].
  intro K. apply app_eq_nil in K as [K _]. contradiction.
Qed.

Lemma below_irrefl a : below a a = false.
Proof. unfold below. rewrite eqb_str_refl. apply andb_false_r. Qed.

Lemma below_asym a b : good a -> good b -> below a b = true -> below b a = false.
Proof.
  intros Ga Gb H. destruct (below b a) eqn:K; [|reflexivity].
  pose proof (below_trans a b a Ga Gb Ga H K) as C. rewrite below_irrefl in C. discriminate.
Qed.

Lemma below_root_false a : good a -> below a [slash] = false.
Proof.
  intro G. destruct (below a [slash]) eqn:K; [|reflexivity]. exfalso.
  destruct (below_inv a [slash] G good_root K) as (ps & t & Hps & Ht & Hne & -> & E).
  change [slash] with (P []) in E. apply P_inj in E; [|constructor|apply Forall_app; split; assumption].
  symmetry in E. apply app_eq_nil in E as [_ E]. contradiction.
Qed.

(* the ancestors of n are its parent and the ancestors of the parent *)
Lemma below_parent p n : good p -> good n -> below p n = true -> p = path_dir n \/ below p (path_dir n) = true.
Proof.
  intros Gp Gn H. destruct (below_inv p n Gp Gn H) as (ps & t & Hps & Ht & Hne & -> & ->).
  destruct (exists_last Hne) as (t' & c & ->).
  apply Forall_app in Ht as [Ht' Hc]. inversion Hc as [|? ? Hc' _]; subst.
  rewrite app_assoc. rewrite path_dir_snoc; [|apply Forall_app; split; assumption|exact Hc'].
  destruct t' as [|t0 tr]; [left; rewrite app_nil_r; reflexivity|right].
  apply below_comps; [exact Hps|exact Ht'|discriminate].
Qed.

Lemma parent_below n : good n -> n <> [slash] -> below (path_dir n) n = true /\ good (path_dir n).
Proof.
  intros (cs & Hcs & ->) Hn. fold (P cs) in *.
  assert (Hne : cs <> []) by (intro K; subst cs; apply Hn; reflexivity).
  destruct (exists_last Hne) as (cs' & c & ->).
  apply Forall_app in Hcs as [Hcs' Hc]. inversion Hc as [|? ? Hc' _]; subst.
  rewrite path_dir_snoc by assumption. split; [|apply good_P; exact Hcs'].
  apply below_comps; [exact Hcs'|constructor; [exact Hc'|constructor]|discriminate].
Qed.

(* names at or below a directory name *)
Definition inside (d x : str) : bool := eqb_str x d || below d x.

Lemma inside_trans d p x : good d -> good p -> good x -> inside d p = true -> below p x = true -> below d x = true.
Proof.
  intros Gd Gp Gx H1 H2. unfold inside in H1. apply orb_true_iff in H1 as [H1|H1].
  - apply eqb_str_eq in H1. subst p. exact H2.
  - apply (below_trans d p x); assumption.
Qed.

(* ---------- at-or-below as "prefix plus a suffix that is empty or starts a new component" *)
Definition sfx_ok (s : str) : bool := match s with [] => true | c :: _ => c =? slash end.

Lemma inside_iff d x : good d -> d <> [slash] ->
  (inside d x = true <-> exists s, x = d ++ s /\ sfx_ok s = true).
Proof.
  intros G Hd. split.
  - unfold inside. intro H. apply orb_true_iff in H as [H|H].
    + apply eqb_str_eq in H. subst x. exists []. split; [symmetry; apply app_nil_r|reflexivity].
    + rewrite (below_good d x G Hd) in H. apply has_prefix_split' in H as (y & ->).
      exists (slash :: y). split; [rewrite <- app_assoc; reflexivity|apply N.eqb_refl].
  - intros (s & -> & Hs). unfold inside. destruct s as [|a r].
    + rewrite app_nil_r, eqb_str_refl. reflexivity.
    + cbn in Hs. apply N.eqb_eq in Hs. subst a. apply orb_true_iff. right. rewrite (below_good d _ G Hd).
      change (d ++ slash :: r) with (d ++ [slash] ++ r). rewrite app_assoc. apply has_prefix_app'.
Qed.

Lemma moved_name_app old new s : moved_name old new (old ++ s) = new ++ s.
Proof. unfold moved_name. rewrite skipn_app_len. reflexivity. Qed.

Lemma inside_refl d : inside d d = true.
Proof. unfold inside. rewrite eqb_str_refl. reflexivity. Qed.

Lemma inside_comparable a b z : good a -> good b -> good z ->
  inside a z = true -> inside b z = true -> inside a b = true \/ inside b a = true.
Proof.
  intros Ga Gb Gz Ha Hb. unfold inside in Ha, Hb.
  apply orb_true_iff in Ha as [Ha|Ha].
  { apply eqb_str_eq in Ha. subst z. right. unfold inside. rewrite Hb. reflexivity. }
  apply orb_true_iff in Hb as [Hb|Hb].
  { apply eqb_str_eq in Hb. subst z. left. unfold inside. rewrite Ha. apply orb_true_r. }
  destruct (below_inv a z Ga Gz Ha) as (ps & t & Hps & Ht & Hne & -> & Ez).
  destruct (below_inv b z Gb Gz Hb) as (ps' & t' & Hps' & Ht' & Hne' & -> & Ez').
  rewrite Ez in Ez'. apply P_inj in Ez'; [|apply Forall_app; split; assumption|apply Forall_app; split; assumption].
  apply app_eq_app in Ez' as (l & [[E1 E2]|[E1 E2]]).
  - right. subst ps. destruct l as [|l0 lr]; [rewrite app_nil_r; apply inside_refl|].
    unfold inside. apply orb_true_iff. right. apply Forall_app in Hps as [_ Hl]. apply below_comps; [exact Hps'|exact Hl|discriminate].
  - left. subst ps'. destruct l as [|l0 lr]; [rewrite app_nil_r; apply inside_refl|].
    unfold inside. apply orb_true_iff. right. apply Forall_app in Hps' as [_ Hl]. apply below_comps; [exact Hps|exact Hl|discriminate].
Qed.

(* disjoint subtrees have no name in common *)
Lemma inside_disjoint a b z : good a -> good b -> good z -> inside a b = false -> inside b a = false ->
  inside a z = true -> inside b z = false.
Proof.
  intros Ga Gb Gz H1 H2 Ha. destruct (inside b z) eqn:Hb; [|reflexivity].
  destruct (inside_comparable a b z Ga Gb Gz Ha Hb); congruence.
Qed.

(* ---------- names at or below a directory, by components *)
Definition sfx_of (t : list str) : str := match t with [] => [] | _ => slash :: join_slash t end.

Lemma sfx_of_ok t : sfx_ok (sfx_of t) = true.
Proof. destruct t; [reflexivity|apply N.eqb_refl]. Qed.

Lemma P_app cs t : cs <> [] -> P (cs ++ t) = P cs ++ sfx_of t.
Proof.
  intro H. destruct t as [|t0 tr]; [rewrite app_nil_r; unfold sfx_of; rewrite app_nil_r; reflexivity|].
  unfold P, sfx_of. rewrite join_app by (try assumption; discriminate). reflexivity.
Qed.

Lemma inside_comps d x : good d -> d <> [slash] -> good x -> inside d x = true ->
  exists cd t, Forall okc cd /\ cd <> [] /\ Forall okc t /\ d = P cd /\ x = P (cd ++ t).
Proof.
  intros Gd Hd Gx H. unfold inside in H. apply orb_true_iff in H as [H|H].
  - apply eqb_str_eq in H. subst x. destruct Gd as (cd & Hcd & ->). fold (P cd) in *. exists cd, [].
    split; [exact Hcd|]. split; [intro K; subst cd; apply Hd; reflexivity|]. split; [constructor|]. split; [reflexivity|rewrite app_nil_r; reflexivity].
  - destruct (below_inv d x Gd Gx H) as (ps & t & Hps & Ht & Hne & -> & ->). exists ps, t.
    split; [exact Hps|]. split; [intro K; subst ps; apply Hd; reflexivity|]. split; [exact Ht|]. split; reflexivity.
Qed.
