(* T05 / generic step lemma: any reflexive, transitive relation on tapes that admits the one tape write of the
   model (append_and_index: the members of one operation followed by one trailer, or nothing at all) is
   established by every call and every history.  Proof text = Proofs/Append.v with [extends] abstracted. *)
From Coq Require Import List NArith ZArith Bool Lia.
Import ListNotations.
From STFS Require Import Str Db Tape Index Ops Fs Diff TapeLemmas Append.
Open Scope N_scope.

Section Gen.
Variable R : tape -> tape -> Prop.
Hypothesis R_refl : forall t, R t t.
Hypothesis R_trans : forall a b c, R a b -> R b c -> R a c.
Hypothesis R_app : forall t ms, R t (t ++ map TM ms ++ (match ms with [] => [] | _ => [TT] end)).

Lemma R_eq a b : a = b -> R a b.
Proof. intros ->. apply R_refl. Qed.

Lemma append_and_index_R c s last ms hs o i : R (tp s) (tp (fst (append_and_index c s last ms hs o i))).
Proof. rewrite append_and_index_tp. apply R_app. Qed.

Lemma archive_op_R c s fs o i : R (tp s) (tp (fst (archive_op c s fs o i))).
Proof.
  unfold archive_op. pose proof (archive_members_tp c fs s) as H.
  destruct (archive_members c s fs) as [[ms hs] s1]; cbn in H. rewrite <- H. apply append_and_index_R.
Qed.

Lemma update_op_R c s fs r k : R (tp s) (tp (fst (update_op c s fs r k))).
Proof.
  unfold update_op. pose proof (update_members_tp c fs r k s) as H.
  destruct (update_members c s fs r k) as [[ms hs] s1]; cbn in H. rewrite <- H. apply append_and_index_R.
Qed.

Lemma plain_tail_R c s s0 last hs o i : tp s0 = tp s ->
  R (tp s) (tp (fst (let '(ms, s1) := plain_members s0 hs in append_and_index c s1 last ms hs o i))).
Proof.
  intro E. pose proof (plain_members_tp hs s0) as H. destruct (plain_members s0 hs) as [ms s1]; cbn in H.
  eapply R_trans; [|apply append_and_index_R]. apply R_eq; congruence.
Qed.

Lemma delete_op_R c s n : R (tp s) (tp (fst (delete_op c s n))).
Proof.
  unfold delete_op. destruct (lookup_entry (db s) n) as [p [r| | |e]]; try apply R_refl.
  destruct ((r_tf r =? TypeDir) && eqb_str (r_link r) []).
  - destruct (get_children p n) as [p' kids]. apply plain_tail_R. reflexivity.
  - apply plain_tail_R. reflexivity.
Qed.

Lemma move_op_R c s a b : R (tp s) (tp (fst (move_op c s a b))).
Proof.
  unfold move_op. destruct (eqb_str a b); [apply R_refl|].
  destruct (lookup_entry (db s) a) as [p [r| | |e]]; try apply R_refl.
  destruct (eqb_str a (if is_abs b && negb (is_abs (r_name r)) then trim_prefix [slash] b else b)); [apply R_refl|].
  destruct (r_tf r =? TypeDir).
  - destruct (get_children p a) as [p' kids]. apply plain_tail_R. reflexivity.
  - apply plain_tail_R. reflexivity.
Qed.

Lemma mknode_R c s d n perm o l i : R (tp s) (tp (fst (mknode c s d n perm o l i))).
Proof. unfold mknode. destruct (c_readonly c); [apply R_refl|apply archive_op_R]. Qed.

Lemma fs_mkdir_R c s n perm : R (tp s) (tp (fst (fs_mkdir c s n perm))).
Proof.
  unfold fs_mkdir. destruct (c_readonly c); [apply R_refl|].
  thread; try (apply R_eq; cbn; congruence);
  (eapply R_trans; [|apply mknode_R]; apply R_eq; congruence).
Qed.

Lemma mkdirall_loop_R c parts : forall s cur first perm, R (tp s) (tp (fst (mkdirall_loop c s cur first parts perm))).
Proof.
  induction parts as [|part rest IH]; intros s cur first perm; cbn; [apply R_refl|].
  set (cur' := if first && eqb_str part [] then [slash] else match cur with [] => part | _ :: _ => path_join2 cur part end). clearbody cur'.
  pose proof (stat_s_tp s cur' false) as H1. destruct (stat_s s cur' false) as [s1 [h| | |e]]; cbn in H1; cbn.
  - destruct (h_tf h =? TypeDir); [|apply R_eq; cbn; congruence].
    eapply R_trans; [|apply IH]. apply R_eq; congruence.
  - pose proof (stat_s_tp s1 cur' true) as H2. destruct (stat_s s1 cur' true) as [s2 [h| | |e]]; cbn in H2; cbn.
    + destruct (h_tf h =? TypeDir); [|apply R_eq; cbn; congruence].
      eapply R_trans; [|apply IH]. apply R_eq; congruence.
    + pose proof (mknode_R c s2 true cur' perm false [] false) as H3.
      destruct (mknode c s2 true cur' perm false [] false) as [s3 o]; cbn in H3.
      assert (H4 : R (tp s) (tp s3)) by (eapply R_trans; [|exact H3]; apply R_eq; congruence).
      destruct o; cbn; try exact H4. eapply R_trans; [exact H4|apply IH].
    + apply R_eq; cbn; congruence.
    + apply R_eq; cbn; congruence.
  - apply R_eq; cbn; congruence.
  - apply R_eq; cbn; congruence.
Qed.

Lemma fs_mkdirall_R c s n perm : R (tp s) (tp (fst (fs_mkdirall c s n perm))).
Proof. unfold fs_mkdirall. destruct (c_readonly c); [apply R_refl|apply mkdirall_loop_R]. Qed.

Lemma fs_remove_nl_R c s n : R (tp s) (tp (fst (fs_remove_nl c s n))).
Proof.
  unfold fs_remove_nl. destruct (c_readonly c); [apply R_refl|].
  pose proof (stat_s_tp s n false) as H1. destruct (stat_s s n false) as [s1 r1]; cbn in H1.
  assert (forall s2 r, tp s2 = tp s ->
            R (tp s) (tp (fst (match r with
              | Ok h => if (h_tf h =? TypeDir) && eqb_str (h_link h) []
                        then match inv_list (db s2) n None with
                             | (p, Ok l) => match l with [] => delete_op c (set_db s2 p) n | _ :: _ => (set_db s2 p, ONotEmpty) end
                             | (p, e) => (set_db s2 p, outc_of_res e) end
                        else delete_op c s2 n
              | NoRows => (s2, ONotExist)
              | e => (s2, outc_of_res e) end)))) as K.
  { intros s2 r E. destruct r as [h| | |e]; cbn; try (apply R_eq; congruence).
    destruct ((h_tf h =? TypeDir) && eqb_str (h_link h) []).
    - destruct (inv_list (db s2) n None) as [p [l| | |e]]; cbn; try (apply R_eq; congruence).
      destruct l; cbn; [|apply R_eq; congruence].
      eapply R_trans; [|apply delete_op_R]. apply R_eq; cbn; congruence.
    - eapply R_trans; [|apply delete_op_R]. apply R_eq; congruence. }
  destruct r1 as [h| | |e].
  - exact (K s1 (Ok h) H1).
  - pose proof (stat_s_tp s1 n true) as H2. destruct (stat_s s1 n true) as [s2 r2]; cbn in H2.
    exact (K s2 r2 (eq_trans H2 H1)).
  - exact (K s1 Unique H1).
  - exact (K s1 (Fail e) H1).
Qed.

Lemma fs_remove_R c s n : R (tp s) (tp (fst (fs_remove c s n))).
Proof. unfold fs_remove. destruct (c_readonly c); [apply R_refl|apply fs_remove_nl_R]. Qed.

Lemma fs_removeall_R c s n : R (tp s) (tp (fst (fs_removeall c s n))).
Proof.
  unfold fs_removeall. destruct (c_readonly c); [apply R_refl|].
  pose proof (delete_op_R c s (path_clean n)) as H. destruct (delete_op c s (path_clean n)) as [s1 o]; cbn in H.
  destruct o; exact H.
Qed.

Lemma fs_rename_R c s a b : R (tp s) (tp (fst (fs_rename c s a b))).
Proof.
  unfold fs_rename. destruct (c_readonly c); [apply R_refl|].
  destruct a as [|a0 a']; [apply R_refl|]. destruct b as [|b0 b']; [apply R_refl|].
  set (old := path_clean (a0 :: a')). set (new := path_clean (b0 :: b')). clearbody old new.
  destruct (get_root_path (db s)) as [p rt]. destruct rt as [r|]; [|apply R_refl].
  destruct (eqb_str r old || eqb_str (spelling r) (spelling old)); [apply R_refl|].
  set (s0 := set_db s p). assert (E0 : tp s0 = tp s) by reflexivity.
  pose proof (stat_s_tp s0 old false) as H1. destruct (stat_s s0 old false) as [s1 r1]; cbn in H1.
  assert (forall s2 src, tp s2 = tp s ->
     R (tp s) (tp (fst (match src with
      | Ok sh =>
        if eqb_str old new || eqb_str (spelling old) (spelling new) then (s2, OOk) else
        if (h_tf sh =? TypeDir) && has_prefix (trim_suffix [slash] (spelling old) ++ [slash]) (spelling new) then (s2, OInvalid) else
        match parent_check s2 new with
        | (s, OOk) =>
          match stat_s s new false with
          | (s, Ok th) =>
            if negb (h_tf th =? h_tf sh) then (s, OExist)
            else match fs_remove_nl c s new with
                 | (s, OOk) => move_op c s old new
                 | x => x
                 end
          | (s, _) => move_op c s old new
          end
        | x => x
        end
      | NoRows => (s2, ONotExist)
      | e => (s2, outc_of_res e) end)))) as K.
  { intros s2 src E. destruct src as [sh| | |e]; cbn; try (apply R_eq; congruence).
    destruct (eqb_str old new || eqb_str (spelling old) (spelling new)); [apply R_eq; cbn; congruence|].
    destruct ((h_tf sh =? TypeDir) && has_prefix (trim_suffix [slash] (spelling old) ++ [slash]) (spelling new)); [apply R_eq; cbn; congruence|].
    pose proof (parent_check_tp s2 new) as H2. destruct (parent_check s2 new) as [s3 o3]; cbn in H2.
    destruct o3; cbn; try (apply R_eq; congruence).
    pose proof (stat_s_tp s3 new false) as H3. destruct (stat_s s3 new false) as [s4 r4]; cbn in H3.
    destruct r4 as [th| | |e]; cbn;
      try (eapply R_trans; [|apply move_op_R]; apply R_eq; congruence).
    destruct (negb (h_tf th =? h_tf sh)); [apply R_eq; cbn; congruence|].
    pose proof (fs_remove_nl_R c s4 new) as H4. destruct (fs_remove_nl c s4 new) as [s5 o5]; cbn in H4.
    assert (H5 : R (tp s) (tp s5)) by (eapply R_trans; [|exact H4]; apply R_eq; congruence).
    destruct o5; cbn; try exact H5. eapply R_trans; [exact H5|apply move_op_R]. }
  assert (E1 : tp s1 = tp s) by congruence.
  destruct r1 as [h| | |e].
  - exact (K s1 (Ok h) E1).
  - pose proof (stat_s_tp s1 old true) as H2. destruct (stat_s s1 old true) as [s2 r2]; cbn in H2.
    exact (K s2 r2 (eq_trans H2 E1)).
  - exact (K s1 Unique E1).
  - exact (K s1 (Fail e) E1).
Qed.

Lemma fs_update_meta_R c s n f : R (tp s) (tp (fst (fs_update_meta c s n f))).
Proof.
  unfold fs_update_meta. destruct (c_readonly c); [apply R_refl|].
  destruct n as [|n0 n']; [apply R_refl|]. set (name := path_clean (n0 :: n')). clearbody name.
  assert (forall s2 r, tp s2 = tp s ->
    R (tp s) (tp (fst (match r with
      | Ok h => update_op c s2 [{| f_hdr := f h; f_data := [] |}] false false
      | NoRows => (s2, ONotExist)
      | e => (s2, outc_of_res e) end)))) as K.
  { intros s2 r E. destruct r; cbn; try (apply R_eq; congruence).
    eapply R_trans; [|apply update_op_R]. apply R_eq; congruence. }
  pose proof (stat_s_tp s name false) as H1. destruct (stat_s s name false) as [s1 r1]; cbn in H1.
  destruct r1 as [h| | |e]; [exact (K s1 (Ok h) H1)| |exact (K s1 Unique H1)|exact (K s1 (Fail e) H1)].
  pose proof (stat_s_tp s1 name true) as H2. destruct (stat_s s1 name true) as [s2 r2]; cbn in H2.
  assert (E2 : tp s2 = tp s) by congruence.
  destruct r2 as [lh| | |e]; [|exact (K s2 NoRows E2)|exact (K s2 Unique E2)|exact (K s2 (Fail e) E2)].
  pose proof (stat_s_tp s2 (h_link lh) false) as H3. destruct (stat_s s2 (h_link lh) false) as [s3 r3]; cbn in H3.
  exact (K s3 r3 (eq_trans H3 E2)).
Qed.

Lemma fs_openfile_R c s n o perm : R (tp s) (tp (fst (fst (fs_openfile c s n o perm)))).
Proof.
  unfold fs_openfile. destruct n as [|n0 n']; [apply R_refl|]. set (name := path_clean (n0 :: n')). clearbody name.
  set (fl := decode_flags c o). clearbody fl.
  assert (forall s2 h cr, R (tp s) (tp s2) ->
    R (tp s) (tp (fst (fst (
      if negb cr && negb (c_readonly c) && o_create o && o_excl o then (s2, OExist, None)
      else if (h_tf h =? TypeDir) && (fl_write fl || fl_append fl || fl_trunc fl) then (s2, OIsDir, None)
      else (s2, OOk, Some {| hd_path := h_name h; hd_link := h_link h; hd_flags := fl; hd_info := h;
                             hd_buf := if fl_write fl && fl_trunc fl && negb (h_tf h =? TypeDir) && negb (h_size h =? 0) then Some [] else None |})))))) as Fin.
  { intros s2 h cr E. destruct (negb cr && negb (c_readonly c) && o_create o && o_excl o); [exact E|].
    destruct ((h_tf h =? TypeDir) && (fl_write fl || fl_append fl || fl_trunc fl)); exact E. }
  pose proof (stat_s_tp s name false) as H1. destruct (stat_s s name false) as [s1 r1]; cbn in H1.
  destruct r1 as [h| | |e]; cbn; try (apply R_eq; congruence).
  - exact (Fin s1 h false (R_eq _ _ (eq_sym H1))).
  - pose proof (stat_s_tp s1 name true) as H2. destruct (stat_s s1 name true) as [s2 r2]; cbn in H2.
    destruct r2 as [h| | |e]; cbn; try (apply R_eq; congruence).
    destruct (negb (c_readonly c) && o_create o); cbn; [|apply R_eq; congruence].
    pose proof (parent_check_tp s2 name) as H3. destruct (parent_check s2 name) as [s3 o3]; cbn in H3.
    destruct o3; cbn; try (apply R_eq; congruence).
    pose proof (mknode_R c s3 false name perm false [] false) as H4.
    destruct (mknode c s3 false name perm false [] false) as [s4 o4]; cbn in H4.
    assert (H5 : R (tp s) (tp s4)) by (eapply R_trans; [|exact H4]; apply R_eq; congruence).
    destruct o4; cbn; try exact H5.
    pose proof (stat_s_tp s4 name false) as H6. destruct (stat_s s4 name false) as [s5 r5]; cbn in H6.
    destruct r5 as [h| | |e]; cbn; try (rewrite H6; exact H5).
    rewrite <- H6 in H5. exact (Fin s5 h true H5).
Qed.

Lemma fs_create_R c s n : R (tp s) (tp (fst (fst (fs_create c s n)))).
Proof.
  unfold fs_create. destruct (c_readonly c); [apply R_refl|].
  destruct n as [|n0 n']; [apply R_refl|].
  pose proof (parent_check_tp s (path_clean (n0 :: n'))) as H. destruct (parent_check s (path_clean (n0 :: n'))) as [s1 o1]; cbn in H.
  destruct o1; cbn; try (apply R_eq; congruence).
  eapply R_trans; [|apply fs_openfile_R]. apply R_eq; congruence.
Qed.

Lemma handle_close_R c s hd b : R (tp s) (tp (fst (handle_close c s hd b))).
Proof. unfold handle_close. destruct b; [apply update_op_R|apply R_refl]. Qed.

Lemma write_close_R c s hd d f : R (tp s) (tp (fst (write_close c s hd d f))).
Proof.
  unfold write_close.
  assert (K : R (tp s) (tp (fst (match handle_write_all c s hd d with
      | (s0, OOk, Some b) => handle_close c s0 hd (Some b)
      | (s0, e, _) => (s0, e) end)))).
  { pose proof (handle_write_all_tp c s hd d) as H. destruct (handle_write_all c s hd d) as [[s1 o] b]; cbn in H.
    destruct o; cbn; try (apply R_eq; congruence).
    destruct b as [c0|]; cbn -[handle_close]; [|apply R_eq; cbn; congruence].
    eapply R_trans; [|exact (handle_close_R c s1 hd (Some c0))]. apply R_eq; congruence. }
  destruct d; [destruct f; [exact K|apply handle_close_R]|exact K].
Qed.

Lemma fs_initialize_R c s r : R (tp s) (tp (fst (fs_initialize c s r))).
Proof.
  unfold fs_initialize. destruct (get_root_path (db s)) as [p rt]. destruct rt; [apply R_refl|].
  assert (K : forall s0, tp s0 = tp s -> R (tp s) (tp (fst (
     if c_readonly c then (s0, OPerm) else
      match mknode c s0 true r 511 true [] true with
      | (s1, OOk) => let '(p1, _) := get_root_path (db s1) in (set_db s1 p1, OOk)
      | x => x end)))).
  { intros s0 E. destruct (c_readonly c); [apply R_eq; cbn; congruence|].
    pose proof (mknode_R c s0 true r 511 true [] true) as H. destruct (mknode c s0 true r 511 true [] true) as [s1 o1]; cbn in H.
    assert (R (tp s) (tp s1)) by (eapply R_trans; [|exact H]; apply R_eq; congruence).
    destruct o1; cbn; try assumption. destruct (get_root_path (db s1)); cbn. assumption. }
  destruct (tp (set_db s p)) eqn:Et.
  - apply K. reflexivity.
  - destruct (index_tape c (t :: t0) 0 0 None true false (db (set_db s p))) as [p2 [u| | |e]].
    + destruct (get_root_path p2); cbn. apply R_refl.
    + destruct (get_root_path p2) as [p3 [r1|]]; [apply R_refl|apply K; reflexivity].
    + destruct (get_root_path p2) as [p3 [r1|]]; [apply R_refl|apply K; reflexivity].
    + destruct (get_root_path p2) as [p3 [r1|]]; [apply R_refl|apply K; reflexivity].
Qed.

Theorem step_R c s k : R (tp s) (tp (fst (step c s k))).
Proof.
  destruct k; cbn [step].
  - apply fs_mkdir_R.
  - apply fs_mkdirall_R.
  - apply fs_remove_R.
  - apply fs_removeall_R.
  - apply fs_rename_R.
  - apply fs_update_meta_R.
  - apply fs_update_meta_R.
  - apply fs_update_meta_R.
  - pose proof (fs_create_R c s n) as H. destruct (fs_create c s n) as [[s1 o] hd]; cbn in H.
    destruct o; cbn; try exact H. destruct hd; cbn; [|exact H].
    eapply R_trans; [exact H|apply write_close_R].
  - pose proof (fs_openfile_R c s n o perm) as H. destruct (fs_openfile c s n o perm) as [[s1 o1] hd]; cbn in H.
    destruct o1; cbn; try exact H. destruct hd; cbn; [|exact H].
    eapply R_trans; [exact H|apply write_close_R].
  - destruct (c_readonly c); [apply R_refl|apply archive_op_R].
  - apply update_op_R.
  - apply delete_op_R.
  - apply move_op_R.
  - apply fs_initialize_R.
  - apply R_refl.
  - apply R_refl.
Qed.

(* every reachable state: the tape after any history is related to the tape before it *)
Theorem final_R c h : forall s, R (tp s) (tp (final c s h)).
Proof.
  induction h as [|[k e] r IH]; intro s; cbn; [apply R_refl|].
  eapply R_trans; [|apply IH].
  pose proof (step_R c (with_env s e) k) as H. rewrite with_env_tp in H. exact H.
Qed.

End Gen.
