(* T17 / Keep: the lookups of inventory.Stat leave rows and cached root of the index alone, as soon as the cached
   root is non-empty or the row "" exists (both shapes of an opened foreign archive). *)
From Coq Require Import List NArith ZArith Bool Lia.
Import ListNotations.
From STFS Require Import Str Db Tape Index Ops Fs C01Str.
Open Scope N_scope.

Definition keeps (p p' : pstate) : Prop := rows p' = rows p /\ root p' = root p.
Definition settled (p : pstate) : Prop := root p = [] -> exists_exact p [] = true.

Lemma keeps_refl p : keeps p p.
Proof. split; reflexivity. Qed.
Lemma keeps_trans p1 p2 p3 : keeps p1 p2 -> keeps p2 p3 -> keeps p1 p3.
Proof. intros [A B] [C D]. split; congruence. Qed.
Lemma settled_keeps p p' : settled p -> keeps p p' -> settled p'.
Proof. intros H [A B] E. unfold exists_exact. rewrite A. apply H. congruence. Qed.

Lemma sanitize_keeps p name : settled p -> keeps p (fst (sanitize p name)).
Proof.
  intro Hs. unfold sanitize. destruct (is_root_name name || eqb_str name (root p)); [apply keeps_refl|].
  destruct (eqb_str (root p) [] && is_abs name && negb (root_empty p)) eqn:E.
  - apply andb_true_iff in E as [E _]. apply andb_true_iff in E as [E _]. apply eqb_str_eq in E.
    rewrite (Hs E). cbv beta iota zeta. cbn [root rows].
    repeat match goal with |- context [if ?b then _ else _] => destruct b end; split; reflexivity.
  - cbv beta iota zeta.
    repeat match goal with |- context [if ?b then _ else _] => destruct b end; split; reflexivity.
Qed.

Lemma get_header_keeps p name : settled p -> keeps p (fst (get_header p name)).
Proof.
  intro Hs. unfold get_header. pose proof (sanitize_keeps p name Hs) as K. destruct (sanitize p name) as [p1 n]. cbn [fst] in K.
  destruct (find_by_name p1 n); exact K.
Qed.

Lemma get_header_by_linkname_keeps p name : settled p -> keeps p (fst (get_header_by_linkname p name)).
Proof.
  intro Hs. unfold get_header_by_linkname. pose proof (sanitize_keeps p name Hs) as K. destruct (sanitize p name) as [p1 n]. cbn [fst] in K.
  destruct (filter _ (rows p1)); exact K.
Qed.

Lemma get_header_retry_keeps p a b : settled p ->
  keeps p (fst (match get_header p a with (p1, NoRows) => get_header p1 b | x => x end)).
Proof.
  intro Hs. pose proof (get_header_keeps p a Hs) as K. destruct (get_header p a) as [p1 r]. cbn [fst] in K.
  destruct r; try exact K. eapply keeps_trans; [exact K|]. apply get_header_keeps. eapply settled_keeps; eassumption.
Qed.

Lemma inv_stat_keeps p name b : settled p -> keeps p (fst (inv_stat p name b)).
Proof.
  intro Hs. unfold inv_stat.
  assert (P : forall p0 nm link, settled p0 -> keeps p0 (fst (
     let '(p1, r) := match get_header p0 nm with
                     | (p1, NoRows) => get_header p1 (trim_suffix [slash] nm ++ [slash])
                     | x => x end in
     match r with
     | Ok d => match link with
               | None => if negb (eqb_str (r_link d) []) then (p1, NoRows) else (p1, Ok (hdr_of_row d))
               | Some l => (p1, Ok (hdr_of_row (set_link (set_name d (r_link l)) (r_name l))))
               end
     | NoRows => (p1, NoRows) | Unique => (p1, Unique) | Fail e => (p1, Fail e)
     end))).
  { intros p0 nm link H0. pose proof (get_header_retry_keeps p0 nm (trim_suffix [slash] nm ++ [slash]) H0) as K.
    destruct (match get_header p0 nm with (p1, NoRows) => _ | x => x end) as [p1 r]. cbn [fst] in K.
    destruct r as [d| | |e]; try exact K. destruct link; [exact K|]. destruct (negb (eqb_str (r_link d) [])); exact K. }
  destruct b.
  - assert (K : keeps p (fst (match get_header_by_linkname p name with
                               | (p1, NoRows) => get_header_by_linkname p1 (trim_suffix [slash] name ++ [slash])
                               | x => x end))).
    { pose proof (get_header_by_linkname_keeps p name Hs) as K. destruct (get_header_by_linkname p name) as [p1 r]. cbn [fst] in K.
      destruct r; try exact K. eapply keeps_trans; [exact K|]. apply get_header_by_linkname_keeps. eapply settled_keeps; eassumption. }
    destruct (match get_header_by_linkname p name with (p1, NoRows) => _ | x => x end) as [p1 lk]. cbn [fst] in K.
    destruct lk as [l| | |e]; try exact K.
    eapply keeps_trans; [exact K|]. exact (P p1 (r_name l) (Some l) (settled_keeps _ _ Hs K)).
  - exact (P p name None Hs).
Qed.

Lemma stat_s_keeps s name b : settled (db s) ->
  keeps (db s) (db (fst (stat_s s name b))) /\ tp (fst (stat_s s name b)) = tp s /\
  hbq (fst (stat_s s name b)) = hbq s /\ encq (fst (stat_s s name b)) = encq s /\ clk (fst (stat_s s name b)) = clk s.
Proof.
  intro Hs. unfold stat_s. pose proof (inv_stat_keeps (db s) name b Hs) as K.
  destruct (inv_stat (db s) name b) as [p r]. cbn [fst set_db db tp hbq encq clk] in *. repeat split; try reflexivity; apply K.
Qed.
