(* T19 / Index: replaying RELATED headers into RELATED indexes gives related indexes and the same result
   (index_header, the replay loop, append_and_index). Plain configuration. *)
From Coq Require Import List NArith ZArith Bool Lia.
From Coq Require Import ZifyN ZifyBool.
Import ListNotations.
From STFS Require Import Str Db Tape Index Ops Fs Diff Norm StrLemmas C01Str C01Db C01Inv C01Sim C01Tape C01Hdr C01Ops C01Ops2
  T19Rel T19Base T19Db.
Open Scope N_scope.

(* the C01 twin of a writer index (used to obtain the preservation of the C01 invariant from C01Sim) *)
Definition canon (pa : pstate) : pstate := {| rows := NR (rows pa); root := []; root_empty := true |}.
Lemma R_canon pa : C01Inv.R pa (canon pa).
Proof. split; [reflexivity|reflexivity|left; reflexivity]. Qed.
Lemma pre_canon pa n : pre pa (canon pa) n.
Proof. apply pre_re. reflexivity. Qed.

Lemma prel_with pa pr la lr : prel pa pr -> rows_rel la lr -> prel (with_rows pa la) (with_rows pr lr).
Proof. intros [A B C] H. split; [exact H|exact B|exact C]. Qed.

(* what a replay step leaves: the indexes stay related whatever the result; the writer's invariant is kept on success *)
Definition PRw (res : res unit) (pa pr : pstate) : Prop := prel pa pr /\ (res = Ok tt -> LI true pa).
Lemma PR_PRw res pa pr : PR pa pr -> PRw res pa pr.
Proof. intros [A B]. split; [exact B|intros _; exact A]. Qed.
Lemma PRw_PR pa pr : PRw (Ok tt) pa pr -> PR pa pr.
Proof. intros [A B]. split; [apply B; reflexivity|exact A]. Qed.

(* ---------- the write operations of the index *)
Lemma upsert_simr pa pr ha hr a b c d : PR pa pr -> hnames_ok true ha -> hrel ha hr ->
  exists pa' pr', upsert pa (row_of_hdr a b c d ha) false = (pa', Ok tt) /\
    upsert pr (row_of_hdr a b c d hr) false = (pr', Ok tt) /\ PR pa' pr'.
Proof.
  intros H Hok Hh. pose proof (hn_name _ _ Hok) as G.
  destruct (rowok_row_of_hdr true a b c d ha Hok) as (Rok & Rdel).
  destruct (C01Sim.upsert_sim true pa (canon pa) _ (PR_li _ _ H) (R_canon pa) Rok Rdel (pre_canon _ _))
    as (lv' & rb' & E1 & _ & HL & _ & _ & _ & Elv).
  destruct (sanitize_rd pa pr (h_name ha) (h_name hr) H G (hr_name _ _ Hh)) as (pr1 & Es & S).
  exists lv', (with_rows pr1 (upsert_rows (rows pr1) (set_name (row_of_hdr a b c d hr) (norm_name (h_name ha))))).
  split; [exact E1|]. split.
  - rewrite upsert_form. change (r_name (row_of_hdr a b c d hr)) with (h_name hr). rewrite Es. reflexivity.
  - split; [exact HL|]. rewrite Elv. apply prel_with; [eapply prel_same; [exact (PR_rel _ _ H)|exact S]|].
    rewrite (proj1 S). apply upsert_rows_rel; [exact (pr_rows _ _ (PR_rel _ _ H))|].
    rewrite <- (set_name_id (row_of_hdr a b c d ha)) at 1. apply rowrel_of_hrel; [exact Hh|apply good_abs; exact G].
Qed.

Lemma update_meta_simr pa pr ha hr a b c d : PR pa pr -> hnames_ok true ha -> hrel ha hr ->
  exists pa' pr', update_meta pa (row_of_hdr a b c d ha) = (pa', Ok tt) /\
    update_meta pr (row_of_hdr a b c d hr) = (pr', Ok tt) /\ PR pa' pr'.
Proof.
  intros H Hok Hh. pose proof (hn_name _ _ Hok) as G.
  destruct (rowok_row_of_hdr true a b c d ha Hok) as (Rok & Rdel).
  destruct (C01Sim.update_meta_sim true pa (canon pa) _ (PR_li _ _ H) (R_canon pa) Rok Rdel (pre_canon _ _))
    as (lv' & rb' & E1 & _ & HL & _ & _ & _ & Elv).
  destruct (sanitize_rd pa pr (h_name ha) (h_name hr) H G (hr_name _ _ Hh)) as (pr1 & Es & S).
  eexists lv', _. split; [exact E1|]. split.
  - rewrite update_meta_form. change (r_name (row_of_hdr a b c d hr)) with (h_name hr). rewrite Es. reflexivity.
  - split; [exact HL|]. rewrite Elv. cbn [fst snd]. apply prel_with; [eapply prel_same; [exact (PR_rel _ _ H)|exact S]|].
    rewrite (proj1 S). change (r_link (row_of_hdr a b c d hr)) with (h_link hr). rewrite (hr_link _ _ Hh), (hn_link _ _ Hok).
    change (r_name (row_of_hdr a b c d ha)) with (h_name ha).
    apply replace_row_rel; [exact (pr_rows _ _ (PR_rel _ _ H))|apply good_abs; exact G|].
    rewrite <- (set_name_id (row_of_hdr a b c d ha)) at 1. apply rowrel_of_hrel; [exact Hh|apply good_abs; exact G].
Qed.

Lemma delete_simr pa pr g nr x y : PR pa pr -> good g -> g <> [slash] -> nrel g nr ->
  exists pa' pr' res, lift (delete_row pa g x y) (fun p _ => (p, Ok tt)) = (pa', res) /\
    lift (delete_row pr nr x y) (fun p _ => (p, Ok tt)) = (pr', res) /\ PRw res pa' pr'.
Proof.
  intros H G Hg Hn.
  destruct (C01Sim.delete_sim true pa (canon pa) g x y (PR_li _ _ H) (R_canon pa) G (fun _ => Hg) (pre_canon _ _))
    as (lv' & rb' & res & E1 & _ & HL).
  destruct (sanitize_rd pa pr g nr H G Hn) as (pr1 & Es & S).
  assert (Er : delete_row pr nr x y =
               match find_rows (rows pr) (norm_name g) with
               | None => (pr1, NoRows)
               | Some r => (with_rows pr1 (replace_row (norm_name g) (r_link r) (set_lk r x y true) (rows pr)), Ok (set_lk r x y true))
               end).
  { rewrite delete_row_form, Es. cbn [fst snd]. rewrite (proj1 S). reflexivity. }
  rewrite (delete_row_lv true pa g x y (PR_li _ _ H) G) in E1. rewrite Er.
  pose proof (find_rows_rel (rows pa) (rows pr) g (pr_rows _ _ (PR_rel _ _ H)) (good_abs g G)) as K.
  destruct (find_rows (rows pa) g) as [d|] eqn:Ef; destruct (find_rows (rows pr) (norm_name g)) as [d'|] eqn:Efr;
    inversion K as [|? ? Hd]; subst; cbn [lift] in *.
  - inversion E1; subst. eexists _, _, _. split; [rewrite (delete_row_lv true pa g x y (PR_li _ _ H) G), Ef; reflexivity|].
    split; [reflexivity|]. apply PR_PRw.
    split; [apply HL; reflexivity|]. apply prel_with; [eapply prel_same; [exact (PR_rel _ _ H)|exact S]|].
    destruct (find_rows_row pa pr g d H Ef) as (_ & _ & _ & Lk & _). rewrite (rr_link _ _ Hd), Lk.
    apply replace_row_rel; [exact (pr_rows _ _ (PR_rel _ _ H))|apply good_abs; exact G|apply rowrel_set_lk; exact Hd].
  - eexists _, _, _. split; [rewrite (delete_row_lv true pa g x y (PR_li _ _ H) G), Ef; reflexivity|]. split; [reflexivity|].
    split; [eapply prel_same; [exact (PR_rel _ _ H)|exact S]|discriminate].
Qed.

Lemma move_simr pa pr old new no nn x y : PR pa pr -> good old -> good new -> old <> [slash] -> new <> [slash] -> new <> old ->
  nrel old no -> nrel new nn ->
  exists pa' pr', move_rows pa old new x y = (pa', Ok tt) /\ move_rows pr no nn x y = (pr', Ok tt) /\ PR pa' pr'.
Proof.
  intros H Go Gn Ho Hnw Hne Hno Hnn.
  destruct (C01Sim.move_sim true pa (canon pa) old new x y (PR_li _ _ H) (R_canon pa) Go Gn Ho Hnw Hne (pre_canon _ _))
    as (lv' & rb' & E1 & _ & HL & _ & _ & _ & _).
  destruct (sanitize_rd pa pr new nn H Gn Hnn) as (pr1 & Es1 & S1).
  destruct (sanitize_rd pa pr1 old no (PR_same _ _ _ H S1) Go Hno) as (pr2 & Es2 & S2).
  pose proof (same_trans _ _ _ S1 S2) as S.
  pose proof E1 as E1'. rewrite (move_rows_lv true pa old new x y (PR_li _ _ H) Go Gn) in E1.
  destruct (move_list_rel (rows pa) (rows pr) old new x y (pr_rows _ _ (PR_rel _ _ H)) (good_abs _ Go) (good_abs _ Gn)) as (Hrows & Hres).
  injection E1 as Elv Eres.
  eexists _, _. split; [exact E1'|]. split.
  - rewrite move_rows_form, Es1. cbn [fst snd]. rewrite Es2. cbn [fst snd]. rewrite (proj1 S), Hres, Eres. reflexivity.
  - split; [exact HL|]. rewrite <- Elv. apply prel_with; [eapply prel_same; [exact (PR_rel _ _ H)|exact S]|exact Hrows].
Qed.

(* ---------- index_header *)
Lemma usz_rel ha hr : hrel ha hr -> usz hr = usz ha.
Proof.
  intro H. unfold usz. rewrite (pax_get_rel K_usize _ _ (hr_pax _ _ H)) by discriminate. rewrite (hr_size _ _ H). reflexivity.
Qed.

Lemma h_act_rel ha hr : hrel ha hr -> h_act hr = h_act ha.
Proof. intro H. unfold h_act. rewrite (pax_get_rel K_action _ _ (hr_pax _ _ H)) by discriminate. reflexivity. Qed.

Lemma upd_body_simr rec blk ha hr pa pr : PR pa pr -> hnames_ok true ha -> h_act ha = V_update -> hrel ha hr ->
  exists pa' pr' res, upd_body rec blk ha pa = (pa', res) /\ upd_body rec blk hr pr = (pr', res) /\ PRw res pa' pr'.
Proof.
  intros H Hok Hact Hh. unfold upd_body, h_rep.
  pose proof (pax_get_rel_rn _ _ (hr_pax _ _ Hh)) as Hrn.
  rewrite (pax_get_rel K_replaces_content _ _ (hr_pax _ _ Hh)) by discriminate.
  pose proof (hn_name _ _ Hok) as G.
  destruct (pax_get K_replaces_name (h_pax ha)) as [oa|] eqn:Ea; destruct (pax_get K_replaces_name (h_pax hr)) as [or_|] eqn:Er;
    try contradiction.
  - (* a move record *)
    destruct (hn_rep _ _ Hok Hact oa Ea) as (Go & Ho & Hnw & Hne).
    assert (MV : forall qa qr, PR qa qr -> exists qa' qr', move_rows qa oa (h_name ha) rec blk = (qa', Ok tt) /\
               move_rows qr or_ (h_name hr) rec blk = (qr', Ok tt) /\ PR qa' qr').
    { intros qa qr HQ. apply move_simr; try assumption. exact (hr_name _ _ Hh). }
    assert (CU : forall a b c d qa qr, PR qa qr -> exists qa' qr' res,
               lift (move_rows qa oa (h_name ha) rec blk) (fun p _ => update_meta p (row_of_hdr a b c d ha)) = (qa', res) /\
               lift (move_rows qr or_ (h_name hr) rec blk) (fun p _ => update_meta p (row_of_hdr a b c d hr)) = (qr', res) /\
               PRw res qa' qr').
    { intros a b c d qa qr HQ. destruct (MV qa qr HQ) as (qa1 & qr1 & E1 & E2 & HQ1). rewrite E1, E2. cbn [lift].
      destruct (update_meta_simr qa1 qr1 ha hr a b c d HQ1 Hok Hh) as (qa2 & qr2 & E3 & E4 & HQ2). rewrite E3, E4.
      eexists _, _, _. split; [reflexivity|]. split; [reflexivity|]. apply PR_PRw. exact HQ2. }
    assert (MU : exists pa' pr' res,
               match get_header pa oa with
               | (p, Ok o) => lift (move_rows p oa (h_name ha) rec blk) (fun p _ => update_meta p (row_of_hdr (r_rec o) rec (r_blk o) blk ha))
               | (p, NoRows) => move_rows p oa (h_name ha) rec blk
               | (p, Unique) => (p, Unique) | (p, Fail e) => (p, Fail e) end = (pa', res) /\
               match get_header pr or_ with
               | (p, Ok o) => lift (move_rows p or_ (h_name hr) rec blk) (fun p _ => update_meta p (row_of_hdr (r_rec o) rec (r_blk o) blk hr))
               | (p, NoRows) => move_rows p or_ (h_name hr) rec blk
               | (p, Unique) => (p, Unique) | (p, Fail e) => (p, Fail e) end = (pr', res) /\ PRw res pa' pr').
    { destruct (get_header_sim pa pr oa or_ H Go Hrn) as (pr1 & rr & Eg1 & Eg2 & S & HRr). rewrite Eg1, Eg2.
      pose proof (PR_same _ _ _ H S) as H1.
      destruct (find_rows (rows pa) oa) as [o|]; cbn [of_find] in *; inversion HRr as [? o' Ho'| | |]; subst.
      - rewrite (rr_rec _ _ Ho'), (rr_blk _ _ Ho'). apply CU. exact H1.
      - destruct (MV pa pr1 H1) as (qa1 & qr1 & E1 & E2 & HQ1). rewrite E1, E2. eexists _, _, _. split; [reflexivity|]. split; [reflexivity|].
        apply PR_PRw. exact HQ1. }
    destruct (pax_get K_replaces_content (h_pax ha)) as [v|]; [destruct (eqb_str v V_true)|]; [apply CU; exact H|exact MU|exact MU].
  - (* an update in place *)
    assert (CU : forall a b c d qa qr, PR qa qr -> exists qa' qr' res,
               lift (qa, Ok tt) (fun p _ => update_meta p (row_of_hdr a b c d ha)) = (qa', res) /\
               lift (qr, Ok tt) (fun p _ => update_meta p (row_of_hdr a b c d hr)) = (qr', res) /\
               PRw res qa' qr').
    { intros a b c d qa qr HQ. cbn [lift].
      destruct (update_meta_simr qa qr ha hr a b c d HQ Hok Hh) as (qa2 & qr2 & E3 & E4 & HQ2). rewrite E3, E4.
      eexists _, _, _. split; [reflexivity|]. split; [reflexivity|]. apply PR_PRw. exact HQ2. }
    assert (MU : exists pa' pr' res,
               match get_header pa (h_name ha) with
               | (p, Ok o) => lift (p, Ok tt) (fun p _ => update_meta p (row_of_hdr (r_rec o) rec (r_blk o) blk ha))
               | (p, NoRows) => (p, Ok tt)
               | (p, Unique) => (p, Unique) | (p, Fail e) => (p, Fail e) end = (pa', res) /\
               match get_header pr (h_name hr) with
               | (p, Ok o) => lift (p, Ok tt) (fun p _ => update_meta p (row_of_hdr (r_rec o) rec (r_blk o) blk hr))
               | (p, NoRows) => (p, Ok tt)
               | (p, Unique) => (p, Unique) | (p, Fail e) => (p, Fail e) end = (pr', res) /\ PRw res pa' pr').
    { destruct (get_header_sim pa pr (h_name ha) (h_name hr) H G (hr_name _ _ Hh)) as (pr1 & rr & Eg1 & Eg2 & S & HRr). rewrite Eg1, Eg2.
      pose proof (PR_same _ _ _ H S) as H1.
      destruct (find_rows (rows pa) (h_name ha)) as [o|]; cbn [of_find] in *; inversion HRr as [? o' Ho'| | |]; subst.
      - rewrite (rr_rec _ _ Ho'), (rr_blk _ _ Ho'). apply CU. exact H1.
      - eexists _, _, _. split; [reflexivity|]. split; [reflexivity|]. apply PR_PRw. exact H1. }
    destruct (pax_get K_replaces_content (h_pax ha)) as [v|]; [destruct (eqb_str v V_true)|]; [apply CU; exact H|exact MU|exact MU].
Qed.

Lemma ih_body_simr rec blk ha hr pa pr : PR pa pr -> hnames_ok true ha -> hrel ha hr ->
  exists pa' pr' res, ih_body rec blk ha false pa = (pa', res) /\ ih_body rec blk hr false pr = (pr', res) /\ PRw res pa' pr'.
Proof.
  intros H Hok Hh. unfold ih_body. rewrite (pax_get_rel K_version _ _ (hr_pax _ _ Hh)) by discriminate.
  rewrite (h_act_rel _ _ Hh).
  destruct (negb (eqb_str match pax_get K_version (h_pax ha) with Some v => v | None => V_1 end V_1)).
  { eexists _, _, _. split; [reflexivity|]. split; [reflexivity|]. split; [exact (PR_rel _ _ H)|discriminate]. }
  destruct (eqb_str (h_act ha) V_create) eqn:Ec.
  { destruct (upsert_simr pa pr ha hr rec rec blk blk H Hok Hh) as (pa' & pr' & E1 & E2 & HP). rewrite E1, E2.
    eexists _, _, _. split; [reflexivity|]. split; [reflexivity|]. apply PR_PRw. exact HP. }
  destruct (eqb_str (h_act ha) V_delete) eqn:Ed.
  { apply eqb_str_eq in Ed. apply delete_simr; [exact H|exact (hn_name _ _ Hok)|exact (hn_del _ _ Hok eq_refl Ed)|exact (hr_name _ _ Hh)]. }
  destruct (eqb_str (h_act ha) V_update) eqn:Eu.
  { apply eqb_str_eq in Eu. apply upd_body_simr; assumption. }
  eexists _, _, _. split; [reflexivity|]. split; [reflexivity|]. split; [exact (PR_rel _ _ H)|discriminate].
Qed.

Theorem index_header_simr c rec blk ha hr pa pr : plain c -> PR pa pr -> hnames_ok true ha -> hrel ha hr ->
  exists pa' pr' res, index_header c rec blk ha false pa = (pa', res) /\
    index_header c rec blk hr false pr = (pr', res) /\ PRw res pa' pr'.
Proof.
  intros HP H Hok Hh. rewrite !index_header_plain by exact HP. rewrite (usz_rel _ _ Hh).
  destruct (usz ha) as [sz|]; [|eexists _, _, _; split; [reflexivity|]; split; [reflexivity|]; split; [exact (PR_rel _ _ H)|discriminate]].
  apply ih_body_simr; [exact H|apply hnames_ok_wsn; exact Hok|].
  apply hrel_wsn; [exact Hh|exact (hr_name _ _ Hh)].
Qed.

(* ---------- the replay loop over related headers at equal positions *)
Definition shrel (x y : N * hdr) : Prop := fst y = fst x /\ hrel (snd x) (snd y).

Lemma loop0_simr c : plain c -> forall la lr, Forall2 shrel la lr -> Forall (hnames_ok true) (map snd la) ->
  forall pa pr, PR pa pr ->
  exists pa' pr' res, loop0 c la pa = (pa', res) /\ loop0 c lr pr = (pr', res) /\ PRw res pa' pr'.
Proof.
  intros HP la lr H. induction H as [|[sa ha] [sr hr] la lr [Es Hh] _ IH]; intros Hok pa pr HQ; cbn [loop0].
  - eexists _, _, _. split; [reflexivity|]. split; [reflexivity|]. apply PR_PRw. exact HQ.
  - cbn [fst snd] in Es, Hh. subst sr. cbn [map snd] in Hok. inversion Hok as [|? ? Hok1 Hok2]; subst.
    destruct (index_header_simr c (fst (pos_of (c_rs c) sa)) (snd (pos_of (c_rs c) sa)) ha hr pa pr HP HQ Hok1 Hh)
      as (pa1 & pr1 & res & E1 & E2 & HQ1). rewrite E1, E2.
    destruct res as [[]| | |e]; try (eexists _, _, _; split; [reflexivity|]; split; [reflexivity|]; split; [exact (proj1 HQ1)|discriminate]).
    apply IH; [exact Hok2|apply PRw_PR; exact HQ1].
Qed.

Lemma mstarts_rel msa msr : Forall2 mrel msa msr -> forall B, Forall2 shrel (hd_of (mstarts msa B)) (hd_of (mstarts msr B)).
Proof.
  induction 1 as [|a r msa msr Hm _ IH]; intro B; cbn [mstarts hd_of map]; constructor.
  - split; [reflexivity|exact (mr_hdr _ _ Hm)].
  - cbn [item_blocks]. rewrite (mr_hb _ _ Hm), (mr_enc _ _ Hm). apply IH.
Qed.

(* ---------- append_and_index on related states: the same tape shape and last indexed position on both sides *)
Definition Good (c : cfg) (sa sr : sys) : Prop := Inv true c sa /\ R sa sr.

Lemma Good_PR c sa sr : Good c sa sr -> PR (db sa) (db sr).
Proof. intros [HI HR]. split; [exact (iv_li _ _ _ HI)|exact (R_db _ _ HR)]. Qed.

Lemma tape_rel_split pre m t : tape_rel (pre ++ [TM m; TT]) t ->
  exists pre' m', t = pre' ++ [TM m'; TT] /\ tape_rel pre pre' /\ mrel m m'.
Proof.
  intro H. apply Forall2_app_inv_l in H as (pre' & tl & Hp & Ht & ->).
  inversion Ht as [|? i1 ? tl1 H1 Ht1]; subst. inversion Ht1 as [|? i2 ? tl2 H2 Ht2]; subst. inversion Ht2; subst.
  inversion H1 as [|? m' Hm]; subst. inversion H2; subst. exists pre', m'. split; [reflexivity|]. split; assumption.
Qed.

Lemma pos_items_rel a r : tape_rel a r -> pos_items a -> pos_items r.
Proof.
  unfold pos_items. induction 1 as [|x y a r H _ IH]; intro Hp; [constructor|]. inversion Hp; subst.
  constructor; [rewrite (irel_blocks _ _ H); assumption|apply IH; assumption].
Qed.

Lemma tape_rel_new a r msa msr : tape_rel a r -> Forall2 mrel msa msr -> msa <> [] ->
  tape_rel (a ++ map TM msa ++ (match msa with [] => [] | _ => [TT] end)) (r ++ map TM msr ++ (match msr with [] => [] | _ => [TT] end)).
Proof.
  intros H Hm Hne. apply Forall2_app; [exact H|]. apply Forall2_app.
  - apply (F2_map mrel irel); [exact Hm|]. intros x y _ _ K. constructor. exact K.
  - destruct Hm; [contradiction|]. constructor; constructor.
Qed.

