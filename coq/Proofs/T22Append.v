(* T22 / append-and-replay of a BATCH of records while the root row is live ([Inv true]).
   C01Ops.v [append_ok] asks, for a batch of two or more records, that the rebuilt index has already cached
   "the stored root is empty" ([lpre]); that fails for a batched Archive into a tree that only contains the root.
   With the root row live and first ([LI true]) every header may be replayed on the rebuilt side ([hpre_hr]),
   so the side condition disappears: [append_ok_t] (C01 invariant) and [append_ok2_t] (C01 + T07 invariants).
   [append_empty]: an empty batch writes nothing and replays nothing. *)
From Coq Require Import List NArith ZArith Bool Lia.
From Coq Require Import ZifyN ZifyBool.
Import ListNotations.
From STFS Require Import Str Db Tape Index Ops Fs Diff Prefix Replay Norm TapeLemmas
  C01Str C01Db C01Inv C01Sim C01Tape C01Hdr C01Ops C01Ops2 T07Look T07Core T07Sim T07Inv.
Open Scope N_scope.

Section LoopSimT.
Variable c : cfg.
Hypothesis HP : plain c.
Variable Q : list hdr -> pstate -> Prop.
Hypothesis HS : forall rec blk h rest lv, LI true lv -> Q (h :: rest) lv ->
  exists lv', index_header c rec blk h false lv = (lv', Ok tt) /\ In (rec, blk) (lks (rows lv')) /\ Q rest lv'.

Lemma loop_sim_t : forall l lv rb, LI true lv -> R lv rb -> Forall (hnames_ok true) (map snd l) -> Q (map snd l) lv ->
  exists lv' rb', loop0 c l lv = (lv', Ok tt) /\ loop0 c l rb = (rb', Ok tt) /\ LI true lv' /\ R lv' rb' /\
    (forall y, In y (lks (rows lv')) -> In y (lks (rows lv)) \/ exists st, In st (map fst l) /\ y = pos_of (c_rs c) st) /\
    (l <> [] -> In (pos_of (c_rs c) (last (map fst l) 0)) (lks (rows lv'))) /\ Q [] lv'.
Proof.
  induction l as [|[st h] rest IH]; intros lv rb HL HR HF HQ.
  - exists lv, rb. cbn. split; [reflexivity|]. split; [reflexivity|]. split; [exact HL|]. split; [exact HR|].
    split; [intros y Hy; left; exact Hy|]. split; [intro K; contradiction|exact HQ].
  - cbn [map snd fst] in *. inversion HF as [|? ? Hh Hrest]; subst.
    destruct (HS (fst (pos_of (c_rs c) st)) (snd (pos_of (c_rs c) st)) h (map snd rest) lv HL HQ) as (lv1 & E1 & St1 & Q1).
    destruct (index_header_sim true c (fst (pos_of (c_rs c) st)) (snd (pos_of (c_rs c) st)) h lv rb HP HL HR Hh (hpre_hr lv rb h HL))
      as (lv1' & rb1 & res & A & B & C).
    rewrite E1 in A. inversion A; subst lv1' res. destruct (C eq_refl) as (HL1 & HR1 & Sub1 & Mono1).
    destruct (IH lv1 rb1 HL1 HR1 Hrest Q1) as (lv' & rb' & A2 & B2 & HL2 & HR2 & Sub2 & Last2 & Q2).
    exists lv', rb'. cbn [loop0]. rewrite E1, B.
    split; [exact A2|]. split; [exact B2|]. split; [exact HL2|]. split; [exact HR2|]. split; [|split; [|exact Q2]].
    + intros y Hy. destruct (Sub2 y Hy) as [K|(st' & Hst & ->)].
      * destruct (Sub1 y K) as [K1|K1]; [left; exact K1|]. right. exists st. split; [left; reflexivity|].
        rewrite K1. destruct (pos_of (c_rs c) st); reflexivity.
      * right. exists st'. split; [right; exact Hst|reflexivity].
    + intros _. destruct rest as [|x rest'].
      * cbn in A2. inversion A2; subst lv'. cbn. destruct (pos_of (c_rs c) st); exact St1.
      * change (last (st :: map fst (x :: rest')) 0) with (last (map fst (x :: rest')) 0).
        apply Last2. discriminate.
Qed.
End LoopSimT.

(* ---------- the empty batch *)
Lemma members_from_only_last pre m : pos_items pre ->
  members_from (pre ++ [TM m; TT]) (tape_blocks pre) = Some [(tape_blocks pre, m)].
Proof.
  intro Hp. unfold members_from. rewrite with_starts_app. cbn [N.add].
  remember (tape_blocks pre) as L eqn:EL.
  assert (E : existsb (fun p => fst p =? L) (with_starts pre 0 ++ with_starts [TM m; TT] L) = true).
  { rewrite existsb_app. cbn. rewrite N.eqb_refl. cbn. apply orb_true_r. }
  rewrite E, orb_true_r. f_equal. rewrite flat_map_app.
  rewrite ms_of_filter_lt; [|exact Hp|lia]. cbn [app].
  rewrite ms_of_filter_ge by lia. reflexivity.
Qed.

Lemma append_empty hr c s : 0 < c_rs c -> Inv hr c s ->
  append_and_index c s (last_indexed (db s) (c_rs c)) [] [] false false
  = ({| tp := tp s ++ []; db := db s; hbq := hbq s; encq := encq s; clk := clk s |}, OOk).
Proof.
  intros Hrs [HL _ Hpos (pre & m & Etp & Hle & Hin)]. unfold append_and_index. cbn [map app].
  assert (Eoff : off_of (c_rs c) (fst (last_indexed (db s) (c_rs c))) (snd (last_indexed (db s) (c_rs c))) = tape_blocks pre).
  { eapply last_indexed_max; [exact Hle|exact Hin|]. apply pos_of_roundtrip. exact Hrs. }
  rewrite Eoff.
  assert (Hpre : pos_items pre) by (rewrite Etp in Hpos; apply pos_items_app in Hpos; tauto).
  assert (EI : index_tape c (tp s ++ []) (tape_blocks pre) 1 (Some []) false false (db s) = (db s, Ok tt)).
  { rewrite app_nil_r, Etp. unfold index_tape. rewrite (members_from_only_last pre m Hpre).
    cbn [index_loop]. replace (0 <? 1)%nat with true by reflexivity. reflexivity. }
  rewrite EI. reflexivity.
Qed.

Lemma Inv_app_nil hr c s : Inv hr c s -> Inv hr c {| tp := tp s ++ []; db := db s; hbq := hbq s; encq := encq s; clk := clk s |}.
Proof. intro H. eapply Inv_ext; [| |exact H]; cbn [tp db]; [apply app_nil_r|reflexivity]. Qed.

Lemma TWs_app_nil c s : TWs c s -> TWs c {| tp := tp s ++ []; db := db s; hbq := hbq s; encq := encq s; clk := clk s |}.
Proof. intro H. eapply TWs_ext; [| |exact H]; cbn [tp db]; [apply app_nil_r|reflexivity]. Qed.

(* ---------- non-empty batches, C01 invariant *)
Section AppendT.
Variable c : cfg.
Hypothesis HP : plain c.
Hypothesis Hrs : 0 < c_rs c.
Variable Q : list hdr -> pstate -> Prop.
Hypothesis HS : forall rec blk h rest lv, LI true lv -> Q (h :: rest) lv ->
  exists lv', index_header c rec blk h false lv = (lv', Ok tt) /\ In (rec, blk) (lks (rows lv')) /\ Q rest lv'.

Lemma append_ok_t s ms : Inv true c s -> ms <> [] -> Forall (fun m => 0 < m_hb m) ms ->
  Forall (hnames_ok true) (map m_hdr ms) -> Q (map m_hdr ms) (db s) ->
  exists lv', append_and_index c s (last_indexed (db s) (c_rs c)) ms (map m_hdr ms) false false
      = ({| tp := tp s ++ map TM ms ++ [TT]; db := lv'; hbq := hbq s; encq := encq s; clk := clk s |}, OOk) /\
    Inv true c {| tp := tp s ++ map TM ms ++ [TT]; db := lv'; hbq := hbq s; encq := encq s; clk := clk s |} /\
    Q [] lv' /\
    loop0 c (hd_of (mstarts ms (tape_blocks (tp s)))) (db s) = (lv', Ok tt).
Proof.
  intros [HL (rb & Hreb & HR) Hpos (pre & m & Etp & Hle & Hin)] Hne Hhb Hok HQ.
  unfold append_and_index.
  replace (match ms with [] => [] | _ :: _ => [TT] end) with [TT] by (destruct ms; [contradiction|reflexivity]).
  cbn [Nat.eqb]. replace (if false then 0%nat else 1%nat) with 1%nat by reflexivity.
  assert (Eoff : off_of (c_rs c) (fst (last_indexed (db s) (c_rs c))) (snd (last_indexed (db s) (c_rs c))) = tape_blocks pre).
  { eapply last_indexed_max; [exact Hle|exact Hin|]. apply pos_of_roundtrip. exact Hrs. }
  rewrite Eoff.
  assert (Hpre : pos_items pre) by (rewrite Etp in Hpos; apply pos_items_app in Hpos; tauto).
  change (map TM ms ++ [TT]) with (new_items ms).
  assert (Eidx : index_tape c (tp s ++ new_items ms) (tape_blocks pre) 1 (Some (map m_hdr ms)) false false (db s)
                 = loop0 c (hd_of (mstarts ms (tape_blocks (tp s)))) (db s)).
  { rewrite Etp. apply live_replay. exact Hpre. }
  rewrite Eidx.
  set (B := tape_blocks (tp s)).
  assert (HB : tape_blocks pre <= B) by (unfold B; rewrite Etp, tape_blocks_app; lia).
  destruct (loop_sim_t c HP Q HS (hd_of (mstarts ms B)) (db s) rb HL HR) as (lv' & rb' & A1 & A2 & HL' & HR' & Sub & Last & Q').
  { rewrite hd_of_mstarts_snd. exact Hok. }
  { rewrite hd_of_mstarts_snd. exact HQ. }
  rewrite A1. cbn [outc_of_res]. exists lv'. split; [reflexivity|]. split; [|split; [exact Q'|reflexivity]].
  destruct (exists_last Hne) as (ms0 & ml & Ems).
  assert (Estarts : map fst (mstarts ms B) = map fst (mstarts ms0 B) ++ [B + tape_blocks (map TM ms0)]).
  { rewrite Ems, mstarts_app, map_app. reflexivity. }
  split; cbn [tp db].
  - exact HL'.
  - exists rb'. split; [|exact HR']. rewrite rebuild_extend, Hreb. exact A2.
  - apply pos_items_app. split; [exact Hpos|]. apply pos_items_app. split.
    + unfold pos_items. apply Forall_forall. intros i Hi. apply in_map_iff in Hi as (x & <- & Hx).
      rewrite Forall_forall in Hhb. specialize (Hhb x Hx). cbn. lia.
    + constructor; [cbn; lia|constructor].
  - exists (tp s ++ map TM ms0), ml. split; [|split].
    + unfold new_items. rewrite Ems, map_app. cbn [map]. rewrite <- !app_assoc. reflexivity.
    + rewrite tape_blocks_app. fold B. intros y Hy. destruct (Sub y Hy) as [K|(st & Hst & ->)].
      * specialize (Hle y K). lia.
      * rewrite pos_of_roundtrip by exact Hrs. rewrite hd_of_fst in Hst.
        apply in_map_iff in Hst as (x & <- & Hx). rewrite Ems in Hx. rewrite mstarts_app in Hx.
        apply in_app_or in Hx as [Hx|Hx].
        -- apply mstarts_le in Hx. exact Hx.
        -- cbn in Hx. destruct Hx as [<-|[]]. cbn [fst]. lia.
    + rewrite tape_blocks_app. fold B.
      assert (Hl : hd_of (mstarts ms B) <> []).
      { rewrite Ems, mstarts_app. unfold hd_of. rewrite map_app. cbn. intro K. apply app_eq_nil in K as [_ K]. discriminate. }
      specialize (Last Hl). rewrite hd_of_fst, Estarts, last_last in Last. exact Last.
Qed.

(* ---------- C01 + T07 invariants *)
Hypothesis QW : forall h rest lv, Q (h :: rest) lv -> Wh h lv.

Lemma tw_of_Q_t : forall l lv, LI true lv -> Q (map snd l) lv -> twrun c l lv.
Proof.
  induction l as [|[st h] l IH]; intros lv HL HQ; cbn [twrun]; [exact I|]. cbn [map snd] in HQ.
  pose proof (QW _ _ _ HQ) as W. split; [exact W|].
  destruct (HS (fst (pos_of (c_rs c) st)) (snd (pos_of (c_rs c) st)) h (map snd l) lv HL HQ) as (lv' & E & _ & Q').
  exists lv'. split; [exact E|]. apply IH; [|exact Q'].
  destruct W as (HN & _). rewrite (index_header_live true c _ _ h lv HP HN) in E.
  eapply ih_body_LI; [exact HL|apply hsz_ok; exact HN|exact E].
Qed.

Lemma append_ok2_t s ms : Inv true c s -> TWs c s -> ms <> [] -> Forall (fun m => 0 < m_hb m) ms ->
  Forall (hnames_ok true) (map m_hdr ms) -> Q (map m_hdr ms) (db s) ->
  exists lv', append_and_index c s (last_indexed (db s) (c_rs c)) ms (map m_hdr ms) false false
      = ({| tp := tp s ++ map TM ms ++ [TT]; db := lv'; hbq := hbq s; encq := encq s; clk := clk s |}, OOk) /\
    Inv true c {| tp := tp s ++ map TM ms ++ [TT]; db := lv'; hbq := hbq s; encq := encq s; clk := clk s |} /\
    Q [] lv' /\
    TWs c {| tp := tp s ++ map TM ms ++ [TT]; db := lv'; hbq := hbq s; encq := encq s; clk := clk s |}.
Proof.
  intros HI [HT HG] Hne Hhb Hok HQ.
  destruct (append_ok_t s ms HI Hne Hhb Hok HQ) as (lv' & E1 & HI' & Q' & EL).
  exists lv'. split; [exact E1|]. split; [exact HI'|]. split; [exact Q'|].
  split; cbn [tp db]; rewrite hdrs_extend.
  - destruct HT as (HT1 & st & h & l' & El & Hn & Ha). split.
    + apply twrun_app. split; [exact HT1|]. intros lv1 E. rewrite HG in E. inversion E; subst lv1.
      apply tw_of_Q_t; [apply HI|]. rewrite hd_of_mstarts_snd. exact HQ.
    + exists st, h, (l' ++ hd_of (mstarts ms (tape_blocks (tp s)))). rewrite El. split; [reflexivity|split; assumption].
  - rewrite loop0_app, HG. exact EL.
Qed.
End AppendT.
