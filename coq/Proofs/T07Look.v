(* T07 / lookup layer: a live-style index (root "/", all link names empty, names pairwise distinct) seen as a
   finite map name -> row ([look]); the list functions behind the index operations described pointwise on
   that map; indexHeader on a live-style index as one list function per action. *)
From Coq Require Import List NArith ZArith Bool Lia.
From Coq Require Import ZifyN ZifyBool.
Import ListNotations.
From STFS Require Import Str Db Tape Index Ops Fs Diff Prefix Replay Norm C01Str C01Db C01Inv C01Sim.
Open Scope N_scope.

Definition look (l : list row) (n : str) : option row := find (fun r => eqb_str (r_name r) n) l.

Lemma look_cons x t n : look (x :: t) n = if eqb_str (r_name x) n then Some x else look t n.
Proof. reflexivity. Qed.

Lemma look_has l n : has_name l n = match look l n with Some _ => true | None => false end.
Proof.
  induction l as [|x t IH]; [reflexivity|]. rewrite look_cons. unfold has_name in *. cbn [existsb].
  destruct (eqb_str (r_name x) n); [reflexivity|exact IH].
Qed.

Lemma look_none_has l n : look l n = None <-> has_name l n = false.
Proof. rewrite look_has. destruct (look l n); split; congruence. Qed.

Lemma look_some l n r : look l n = Some r -> In r l /\ r_name r = n.
Proof. unfold look. intro H. apply find_some in H as [A B]. apply eqb_str_eq in B. auto. Qed.

Lemma look_in l r : NoDup (map r_name l) -> In r l -> look l (r_name r) = Some r.
Proof.
  induction l as [|x t IH]; intros Hnd Hin; [contradiction|]. rewrite look_cons.
  cbn [map] in Hnd. inversion Hnd as [|? ? Hn Ht]; subst.
  destruct Hin as [->|Hin]; [rewrite eqb_str_refl; reflexivity|].
  destruct (eqb_str (r_name x) (r_name r)) eqn:E; [|apply IH; assumption].
  apply eqb_str_eq in E. exfalso. apply Hn. rewrite E. apply in_map. exact Hin.
Qed.

Lemma look_ext_in A B : NoDup (map r_name A) -> NoDup (map r_name B) ->
  (forall n, look A n = look B n) -> forall x, In x A <-> In x B.
Proof.
  intros HA HB H x. split; intro Hx.
  - apply (look_in _ _ HA) in Hx. rewrite H in Hx. apply look_some in Hx. apply Hx.
  - apply (look_in _ _ HB) in Hx. rewrite <- H in Hx. apply look_some in Hx. apply Hx.
Qed.

(* ---------- find_rows *)
Lemma filter_name_nil t n : ~ In n (map r_name t) -> filter (fun r => live r && eqb_str (r_name r) n) t = [].
Proof.
  induction t as [|x t IH]; intro H; cbn; [reflexivity|].
  destruct (eqb_str (r_name x) n) eqn:E.
  - apply eqb_str_eq in E. exfalso. apply H. left. exact E.
  - rewrite andb_false_r. apply IH. intro K. apply H. right. exact K.
Qed.

Lemma find_rows_look l n : NoDup (map r_name l) ->
  find_rows l n = match look l n with Some r => if live r then Some r else None | None => None end.
Proof.
  induction l as [|x t IH]; intro Hnd; [reflexivity|]. rewrite look_cons.
  cbn [map] in Hnd. inversion Hnd as [|? ? Hn Ht]; subst.
  unfold find_rows in *. cbn [filter].
  destruct (eqb_str (r_name x) n) eqn:E.
  - apply eqb_str_eq in E. subst n. rewrite (filter_name_nil t (r_name x) Hn). rewrite andb_true_r.
    destruct (live x); reflexivity.
  - rewrite andb_false_r. apply IH. exact Ht.
Qed.

(* ---------- upsert / replace *)
Lemma look_replace l m new n : Forall rowok l -> r_name new = m ->
  look (replace_row m [] new l) n = if eqb_str m n then (if has_name l m then Some new else None) else look l n.
Proof.
  intros Hl Hm. induction l as [|x t IH]; cbn [replace_row].
  - cbn. destruct (eqb_str m n); reflexivity.
  - inversion Hl as [|? ? Hx Ht]; subst. destruct Hx as (_ & Hk & _). rewrite (key_eq_nil _ x Hk).
    unfold has_name. cbn [existsb]. fold (has_name t (r_name new)).
    destruct (eqb_str (r_name x) (r_name new)) eqn:E.
    + apply eqb_str_eq in E. rewrite !look_cons. rewrite E. cbn [orb].
      destruct (eqb_str (r_name new) n); reflexivity.
    + rewrite !look_cons. rewrite (IH Ht). cbn [orb].
      destruct (eqb_str (r_name x) n) eqn:E2; [|reflexivity].
      apply eqb_str_eq in E2. subst n. rewrite eqb_str_sym, E. reflexivity.
Qed.

Lemma look_app_one l r n : look (l ++ [r]) n = match look l n with Some x => Some x | None => if eqb_str (r_name r) n then Some r else None end.
Proof.
  induction l as [|x t IH]; cbn [app]; rewrite ?look_cons.
  - cbn. destruct (eqb_str (r_name r) n); reflexivity.
  - destruct (eqb_str (r_name x) n); [reflexivity|exact IH].
Qed.

Lemma look_upsert l r n : Forall rowok l -> r_link r = [] ->
  look (upsert_rows l r) n = if eqb_str (r_name r) n then Some r else look l n.
Proof.
  intros Hl Hk. unfold upsert_rows. rewrite Hk. rewrite has_key_nil by exact Hl.
  destruct (has_name l (r_name r)) eqn:E.
  - rewrite look_replace by (try assumption; reflexivity). rewrite E. reflexivity.
  - rewrite look_app_one. destruct (eqb_str (r_name r) n) eqn:E2.
    + apply eqb_str_eq in E2. subst n. apply look_none_has in E. rewrite E. reflexivity.
    + destruct (look l n); reflexivity.
Qed.

(* ---------- move *)
Definition mvr (nw : str) (a b : N) (r : row) : row := set_lk (set_name r nw) a b (r_del r).

Lemma look_move_gen o nw a b n l : nw <> o ->
  look (map (mv_fun o nw a b) (filter (fun r => negb (eqb_str (r_name r) nw)) l)) n
  = if eqb_str nw n then option_map (mvr nw a b) (look l o) else if eqb_str o n then None else look l n.
Proof.
  intro Hne. induction l as [|x t IH]; cbn [filter map].
  - cbn. destruct (eqb_str nw n), (eqb_str o n); reflexivity.
  - rewrite !(look_cons x t).
    destruct (eqb_str (r_name x) nw) eqn:E1; cbn [negb].
    + apply eqb_str_eq in E1. rewrite IH.
      assert (E2 : eqb_str (r_name x) o = false) by (apply eqb_str_neq; congruence). rewrite E2.
      destruct (eqb_str nw n) eqn:E3; [reflexivity|].
      destruct (eqb_str o n); [reflexivity|].
      assert (E4 : eqb_str (r_name x) n = false) by (rewrite E1; exact E3). rewrite E4. reflexivity.
    + cbn [map]. rewrite look_cons.
      assert (Emv : mv_fun o nw a b x = if eqb_str (r_name x) o then mvr nw a b x else x) by reflexivity.
      rewrite Emv.
      destruct (eqb_str (r_name x) o) eqn:E2.
      * apply eqb_str_eq in E2. change (r_name (mvr nw a b x)) with nw. rewrite IH.
        destruct (eqb_str nw n) eqn:E3; [reflexivity|].
        rewrite E2. destruct (eqb_str o n); reflexivity.
      * rewrite IH. destruct (eqb_str (r_name x) n) eqn:E3; [|reflexivity].
        apply eqb_str_eq in E3. subst n. rewrite eqb_str_sym, E1. rewrite eqb_str_sym, E2. reflexivity.
Qed.

Lemma look_move l o nw a b n : nw <> o ->
  look (map (mv_fun o nw a b) (mv_rows1 l o nw)) n =
  match look l o with
  | None => look l n
  | Some r => if eqb_str nw n then Some (mvr nw a b r) else if eqb_str o n then None else look l n
  end.
Proof.
  intro Hne. unfold mv_rows1. rewrite (look_has l o). destruct (look l o) as [r|] eqn:E.
  - rewrite look_move_gen by exact Hne. rewrite E. reflexivity.
  - rewrite mv_fun_id; [reflexivity|]. apply look_none_has. exact E.
Qed.

(* ---------- indexHeader on a live-style index, action by action *)
Definition upd_rows (rec blk : N) (h : hdr) (l : list row) : list row :=
  let l1 := match h_rep h with Some o => map (mv_fun o (h_name h) rec blk) (mv_rows1 l o (h_name h)) | None => l end in
  let on := match h_rep h with Some o => o | None => h_name h end in
  let cu := replace_row (h_name h) [] (row_of_hdr rec rec blk blk h) l1 in
  let mu := match find_rows l on with
            | Some x => replace_row (h_name h) [] (row_of_hdr (r_rec x) rec (r_blk x) blk h) l1
            | None => l1
            end in
  match pax_get K_replaces_content (h_pax h) with
  | Some v => if eqb_str v V_true then cu else mu
  | None => mu
  end.

Lemma upd_body_live hr rec blk h lv : LI hr lv -> hnames_ok hr h -> h_act h = V_update ->
  upd_body rec blk h lv = (with_rows lv (upd_rows rec blk h (rows lv)), Ok tt).
Proof.
  intros HL HN Ha. unfold upd_body, upd_rows.
  pose proof (hn_rep hr h HN Ha) as Hrep. pose proof (hn_name hr h HN) as Gn. pose proof (hn_link hr h HN) as Hlk.
  assert (Hrows : Forall rowok (rows lv)) by apply HL.
  set (l1 := match h_rep h with Some o => map (mv_fun o (h_name h) rec blk) (mv_rows1 (rows lv) o (h_name h)) | None => rows lv end).
  assert (MV : (if match h_rep h with Some _ => true | None => false end
                then move_rows lv (match h_rep h with Some o => o | None => h_name h end) (h_name h) rec blk
                else (lv, Ok tt)) = (with_rows lv l1, Ok tt) /\ LI hr (with_rows lv l1)).
  { unfold l1. destruct (h_rep h) as [o|] eqn:Er.
    - destruct (Hrep o eq_refl) as (Go & Ho & Hn & Hne).
      rewrite (move_rows_lv hr) by assumption. rewrite (move_list_live (rows lv) o (h_name h) rec blk Hrows Hne).
      split; [reflexivity|]. apply LI_with; [exact HL|]. apply mv_result_LL; try assumption. apply HL.
    - split; [destruct lv; reflexivity|]. apply LI_with; [exact HL|apply HL]. }
  destruct MV as (MV & HL1).
  assert (CU : forall r1 r2,
     lift (with_rows lv l1, Ok tt) (fun p _ => update_meta p (row_of_hdr r1 rec r2 blk h))
     = (with_rows lv (replace_row (h_name h) [] (row_of_hdr r1 rec r2 blk h) l1), Ok tt)).
  { intros r1 r2. cbn [lift]. rewrite (update_meta_lv hr); [|exact HL1|exact Gn].
    cbn [r_name r_link row_of_hdr]. rewrite Hlk. reflexivity. }
  assert (Gold : good (match h_rep h with Some o => o | None => h_name h end)).
  { destruct (h_rep h) as [o|]; [apply (Hrep o eq_refl)|exact Gn]. }
  assert (MU :
     match get_header lv (match h_rep h with Some o => o | None => h_name h end) with
     | (p, Ok o) => lift (if match h_rep h with Some _ => true | None => false end
             then move_rows p (match h_rep h with Some o => o | None => h_name h end) (h_name h) rec blk else (p, Ok tt))
            (fun p _ => update_meta p (row_of_hdr (r_rec o) rec (r_blk o) blk h))
     | (p, NoRows) => (if match h_rep h with Some _ => true | None => false end
             then move_rows p (match h_rep h with Some o => o | None => h_name h end) (h_name h) rec blk else (p, Ok tt))
     | (p, Unique) => (p, Unique) | (p, Fail e) => (p, Fail e) end
     = (with_rows lv match find_rows (rows lv) (match h_rep h with Some o => o | None => h_name h end) with
                     | Some x => replace_row (h_name h) [] (row_of_hdr (r_rec x) rec (r_blk x) blk h) l1
                     | None => l1 end, Ok tt)).
  { rewrite (get_header_lv hr lv _ HL Gold).
    destruct (find_rows (rows lv) (match h_rep h with Some o => o | None => h_name h end)) as [x|].
    - rewrite MV. apply CU.
    - exact MV. }
  destruct (pax_get K_replaces_content (h_pax h)) as [v|]; [|exact MU].
  destruct (eqb_str v V_true); [|exact MU].
  rewrite MV. apply CU.
Qed.

Definition ih_rows (rec blk : N) (h : hdr) (l : list row) : option (list row) :=
  if eqb_str (h_act h) V_create then Some (upsert_rows l (row_of_hdr rec rec blk blk h))
  else if eqb_str (h_act h) V_delete then
    match find_rows l (h_name h) with
    | None => None
    | Some r => Some (replace_row (h_name h) [] (set_lk r rec blk true) l)
    end
  else if eqb_str (h_act h) V_update then Some (upd_rows rec blk h l)
  else None.

Lemma ih_body_live hr rec blk h lv : LI hr lv -> hnames_ok hr h -> ver_ok h ->
  match ih_rows rec blk h (rows lv) with
  | Some l' => ih_body rec blk h false lv = (with_rows lv l', Ok tt)
  | None => res_ok (snd (ih_body rec blk h false lv)) = false
  end.
Proof.
  intros HL HN HV. unfold ih_rows, ih_body. rewrite (ver_ok_test h HV).
  destruct (eqb_str (h_act h) V_create) eqn:Ec.
  { rewrite (upsert_lv hr); [reflexivity|exact HL|apply HN]. }
  destruct (eqb_str (h_act h) V_delete) eqn:Ed.
  { rewrite (delete_row_lv hr); [|exact HL|apply HN].
    destruct (find_rows (rows lv) (h_name h)); reflexivity. }
  destruct (eqb_str (h_act h) V_update) eqn:Eu; [|reflexivity].
  apply eqb_str_eq in Eu. apply (upd_body_live hr); assumption.
Qed.

(* ---------- the canonical rebuilt-style image of a live-style index, and LI preservation *)
Definition rbof (lv : pstate) : pstate := {| rows := NR (rows lv); root := []; root_empty := true |}.

Lemma R_rbof lv : R lv (rbof lv).
Proof. split; [reflexivity|reflexivity|left; reflexivity]. Qed.

Lemma ih_body_LI hr rec blk h lv lv' : LI hr lv -> hnames_ok hr h ->
  ih_body rec blk h false lv = (lv', Ok tt) -> LI hr lv'.
Proof.
  intros HL HN E.
  destruct (ih_body_sim hr rec blk h lv (rbof lv) HL (R_rbof lv) HN (or_introl eq_refl)) as (lv1 & rb1 & res & A & _ & C).
  rewrite E in A. inversion A; subst. apply (C eq_refl).
Qed.
