(* T07 / core: on live-style indexes, replaying a well-formed record list l into the index G_j produced by
   its first j records ends in the same finite map as replaying l into the empty index.

   Well-formedness of a record list ([twrun]): every header has cleaned absolute names, no link name, a
   parsable size record, version 1; the replay of the list succeeds; and the source of every rename
   record exists (live or tombstoned) in the index at the time the record is replayed.

   Argument: call a name "dirty" while its row in the re-indexed state may differ from the rebuild
   (initially: all names of G_j).  A creation record and a rename record clean the names they write;
   rows only ever appear through such records, so no name of the rebuild is dirty, every record reads
   clean names only, and when the whole list has been replayed all names of G_j have been cleaned. *)
From Coq Require Import List NArith ZArith Bool Lia.
From Coq Require Import ZifyN ZifyBool.
Import ListNotations.
From STFS Require Import Str Db Tape Index Ops Fs Diff Prefix Replay Norm
  C01Str C01Db C01Inv C01Sim C01Tape T07Look.
Open Scope N_scope.

(* ---------- well-formed record lists *)
Definition p_live0 : pstate := {| rows := []; root := [slash]; root_empty := false |}.

Definition Wh (h : hdr) (lv : pstate) : Prop :=
  hnames_ok true h /\ ver_ok h /\
  (h_act h = V_update -> forall o, h_rep h = Some o -> has_name (rows lv) o = true).

Fixpoint twrun (c : cfg) (l : list (N * hdr)) (lv : pstate) : Prop :=
  match l with
  | [] => True
  | (st, h) :: rest =>
    Wh h lv /\
    exists lv', index_header c (fst (pos_of (c_rs c) st)) (snd (pos_of (c_rs c) st)) h false lv = (lv', Ok tt)
                /\ twrun c rest lv'
  end.

Lemma LI_live0 : LI false p_live0.
Proof. split; [reflexivity|reflexivity|]. split; [constructor|constructor|discriminate]. Qed.

Lemma twrun_app c l1 : forall l2 lv, twrun c (l1 ++ l2) lv <->
  twrun c l1 lv /\ (forall lv1, loop0 c l1 lv = (lv1, Ok tt) -> twrun c l2 lv1).
Proof.
  induction l1 as [|[st h] l1 IH]; intros l2 lv; cbn [app twrun loop0].
  - split.
    + intro H. split; [exact I|]. intros lv1 E. inversion E; subst. exact H.
    + intros [_ H]. apply H. reflexivity.
  - split.
    + intros (W & lv' & E & T). apply IH in T as [T1 T2]. split.
      * split; [exact W|]. exists lv'. split; assumption.
      * intros lv1 E1. rewrite E in E1. apply T2. exact E1.
    + intros [(W & lv' & E & T1) T2]. split; [exact W|]. exists lv'. split; [exact E|].
      apply IH. split; [exact T1|]. intros lv1 E1. apply T2. rewrite E. exact E1.
Qed.

Lemma twrun_loop c l : forall lv, twrun c l lv -> exists lv', loop0 c l lv = (lv', Ok tt).
Proof.
  induction l as [|[st h] l IH]; intros lv H; cbn [loop0].
  - eexists. reflexivity.
  - destruct H as (_ & lv1 & E & T). rewrite E. apply IH. exact T.
Qed.

Lemma twrun_hnames c l : forall lv, twrun c l lv -> Forall (hnames_ok true) (map snd l).
Proof.
  induction l as [|[st h] l IH]; intros lv H; cbn [map snd]; [constructor|].
  destruct H as ((A & _) & lv1 & _ & T). constructor; [exact A|]. eapply IH. exact T.
Qed.

(* ---------- dirty names *)
Definition agree (D : str -> Prop) (A B : list row) : Prop := forall n, ~ D n -> look A n = look B n.

Lemma agree_sub (D1 D2 : str -> Prop) A B : (forall n, D1 n -> D2 n) -> agree D1 A B -> agree D2 A B.
Proof. intros H HA n Hn. apply HA. intro K. apply Hn. apply H. exact K. Qed.

(* names a record cleans *)
Definition cl (h : hdr) : list str :=
  if eqb_str (h_act h) V_create then [h_name h]
  else if eqb_str (h_act h) V_update then match h_rep h with Some o => [o; h_name h] | None => [] end
  else [].

Lemma has_name_look_eq A B n : look A n = look B n -> has_name A n = has_name B n.
Proof. intro H. rewrite !look_has, H. reflexivity. Qed.

Lemma agree_replace (D : str -> Prop) M G m new new' :
  Forall rowok M -> Forall rowok G -> r_name new = m -> r_name new' = m ->
  (~ D m -> new = new') -> agree D M G ->
  agree D (replace_row m [] new M) (replace_row m [] new' G).
Proof.
  intros HM HG E1 E2 Hnew HA n Hn. rewrite !look_replace by assumption.
  destruct (eqb_str m n) eqn:E.
  - apply eqb_str_eq in E. subst n. rewrite (has_name_look_eq M G m (HA m Hn)). rewrite (Hnew Hn). reflexivity.
  - apply HA. exact Hn.
Qed.

Lemma V_neq_1 : eqb_str V_delete V_create = false. Proof. reflexivity. Qed.
Lemma V_neq_2 : eqb_str V_update V_create = false. Proof. reflexivity. Qed.
Lemma V_neq_3 : eqb_str V_update V_delete = false. Proof. reflexivity. Qed.
Lemma V_neq_4 : eqb_str V_delete V_update = false. Proof. reflexivity. Qed.

Lemma row_of_hdr_ok hr a b c d h : hnames_ok hr h -> rowok (row_of_hdr a b c d h).
Proof. intro H. apply (rowok_row_of_hdr hr a b c d h H). Qed.

(* the moved list *)
Definition mvl (rec blk : N) (h : hdr) (l : list row) : list row :=
  match h_rep h with Some o => map (mv_fun o (h_name h) rec blk) (mv_rows1 l o (h_name h)) | None => l end.

Lemma mvl_LL rec blk h l : LL false l -> hnames_ok false h -> h_act h = V_update -> LL false (mvl rec blk h l).
Proof.
  intros HL HN Ha. unfold mvl. destruct (h_rep h) as [o|] eqn:Er; [|exact HL].
  destruct (hn_rep false h HN Ha o Er) as (Go & Ho & Hn & Hne).
  apply mv_result_LL; try assumption. apply HN.
Qed.

Lemma look_mvl rec blk h l n : hnames_ok false h -> h_act h = V_update ->
  look (mvl rec blk h l) n =
  match h_rep h with
  | None => look l n
  | Some o => match look l o with
              | None => look l n
              | Some r => if eqb_str (h_name h) n then Some (mvr (h_name h) rec blk r)
                          else if eqb_str o n then None else look l n
              end
  end.
Proof.
  intros HN Ha. unfold mvl. destruct (h_rep h) as [o|] eqn:Er; [|reflexivity].
  destruct (hn_rep false h HN Ha o Er) as (Go & Ho & Hn & Hne).
  apply look_move. exact Hne.
Qed.

(* ---------- names of the result *)
Lemma upd_rows_names rec blk h l n : LL false l -> hnames_ok false h -> h_act h = V_update ->
  has_name (upd_rows rec blk h l) n = true -> has_name l n = true \/ In n (cl h).
Proof.
  intros HL HN Ha. unfold upd_rows. fold (mvl rec blk h l).
  pose proof (mvl_LL rec blk h l HL HN Ha) as HL1.
  assert (K1 : has_name (mvl rec blk h l) n = true -> has_name l n = true \/ In n (cl h)).
  { rewrite (look_has (mvl rec blk h l)). rewrite look_mvl by assumption.
    unfold cl. rewrite Ha, V_neq_2. cbn [eqb_str]. change (eqb_str V_update V_update) with true. cbn iota.
    destruct (h_rep h) as [o|].
    - destruct (look l o) as [r|].
      + destruct (eqb_str (h_name h) n) eqn:E.
        * apply eqb_str_eq in E. intros _. right. right. left. exact E.
        * destruct (eqb_str o n); [discriminate|]. rewrite <- look_has. intro K. left. exact K.
      + rewrite <- look_has. intro K. left. exact K.
    - rewrite <- look_has. intro K. left. exact K. }
  assert (K2 : forall new, r_name new = h_name h ->
     has_name (replace_row (h_name h) [] new (mvl rec blk h l)) n = true -> has_name l n = true \/ In n (cl h)).
  { intros new En H. apply K1. apply has_name_in. apply has_name_in in H.
    rewrite replace_row_names in H; [exact H|apply HL1|exact En]. }
  destruct (pax_get K_replaces_content (h_pax h)) as [v|].
  - destruct (eqb_str v V_true); [apply K2; reflexivity|].
    destruct (find_rows l _); [apply K2; reflexivity|exact K1].
  - destruct (find_rows l _); [apply K2; reflexivity|exact K1].
Qed.

Lemma ih_rows_names rec blk h l l' n : LL false l -> hnames_ok false h ->
  ih_rows rec blk h l = Some l' -> has_name l' n = true -> has_name l n = true \/ In n (cl h).
Proof.
  intros HL HN. unfold ih_rows, cl.
  destruct (eqb_str (h_act h) V_create) eqn:Ec.
  { intro E. inversion E; subst l'. rewrite look_has. rewrite look_upsert; [|apply HL|apply HN].
    cbn [r_name row_of_hdr]. destruct (eqb_str (h_name h) n) eqn:E1.
    - apply eqb_str_eq in E1. intros _. right. left. exact E1.
    - rewrite <- look_has. intro K. left. exact K. }
  destruct (eqb_str (h_act h) V_delete) eqn:Ed.
  { destruct (find_rows l (h_name h)) as [r|] eqn:Ef; [|discriminate]. intro E. inversion E; subst l'.
    destruct (find_rows_some _ _ _ Ef) as (_ & _ & Hrn).
    intro H. left. apply has_name_in. apply has_name_in in H.
    rewrite replace_row_names in H; [exact H|apply HL|exact Hrn]. }
  destruct (eqb_str (h_act h) V_update) eqn:Eu; [|discriminate].
  intro E. inversion E; subst l'. apply eqb_str_eq in Eu.
  intro H. pose proof (upd_rows_names rec blk h l n HL HN Eu H) as K. unfold cl in K. rewrite Ec in K.
  rewrite Eu in K. change (eqb_str V_update V_update) with true in K. exact K.
Qed.

(* ---------- one record *)
Lemma upd_rows_agree rec blk h (D : str -> Prop) M G : LL false M -> LL false G -> hnames_ok false h -> h_act h = V_update ->
  (forall o, h_rep h = Some o -> has_name G o = true) ->
  agree D M G -> (forall n, has_name G n = true -> ~ D n) ->
  agree (fun n => D n /\ ~ In n (cl h)) (upd_rows rec blk h M) (upd_rows rec blk h G).
Proof.
  intros HLM HLG HN Ha HW HA HG.
  pose proof (mvl_LL rec blk h M HLM HN Ha) as HLM1. pose proof (mvl_LL rec blk h G HLG HN Ha) as HLG1.
  set (D' := fun n => D n /\ ~ In n (cl h)).
  assert (Hcl : cl h = match h_rep h with Some o => [o; h_name h] | None => [] end).
  { unfold cl. rewrite Ha. reflexivity. }
  (* after the rename step *)
  assert (A1 : agree D' (mvl rec blk h M) (mvl rec blk h G)).
  { intros n Hn. rewrite !look_mvl by assumption. destruct (h_rep h) as [o|] eqn:Er.
    - pose proof (HW o eq_refl) as K.
      assert (E1 : look M o = look G o) by (apply HA; apply HG; exact K). rewrite E1.
      rewrite look_has in K. destruct (look G o) as [r|]; [|discriminate].
      destruct (eqb_str (h_name h) n) eqn:E3; [reflexivity|].
      destruct (eqb_str o n) eqn:E4; [reflexivity|].
      apply HA. intro F. apply Hn. split; [exact F|]. rewrite Hcl. cbn [In].
      apply eqb_str_neq in E3. apply eqb_str_neq in E4. intros [F1|[F1|[]]]; congruence.
    - apply HA. intro K. apply Hn. split; [exact K|]. rewrite Hcl. intros []. }
  assert (CU : forall new, r_name new = h_name h ->
     agree D' (replace_row (h_name h) [] new (mvl rec blk h M)) (replace_row (h_name h) [] new (mvl rec blk h G))).
  { intros new En. apply agree_replace; try assumption; [apply HLM1|apply HLG1|reflexivity]. }
  unfold upd_rows. fold (mvl rec blk h M). fold (mvl rec blk h G).
  assert (MU : agree D'
     match find_rows M (match h_rep h with Some o => o | None => h_name h end) with
     | Some x => replace_row (h_name h) [] (row_of_hdr (r_rec x) rec (r_blk x) blk h) (mvl rec blk h M)
     | None => mvl rec blk h M end
     match find_rows G (match h_rep h with Some o => o | None => h_name h end) with
     | Some x => replace_row (h_name h) [] (row_of_hdr (r_rec x) rec (r_blk x) blk h) (mvl rec blk h G)
     | None => mvl rec blk h G end).
  { destruct (h_rep h) as [o|] eqn:Er.
    - pose proof (HW o eq_refl) as K.
      assert (E1 : look M o = look G o) by (apply HA; apply HG; exact K).
      assert (E2 : find_rows M o = find_rows G o).
      { rewrite !find_rows_look by (try apply HLM; apply HLG). rewrite E1. reflexivity. }
      rewrite E2. destruct (find_rows G o) as [x|]; [apply CU; reflexivity|exact A1].
    - intros n Hn. destruct (eqb_str (h_name h) n) eqn:E.
      + apply eqb_str_eq in E. subst n.
        assert (E1 : look M (h_name h) = look G (h_name h)).
        { apply HA. intro F. apply Hn. split; [exact F|]. rewrite Hcl. intros []. }
        assert (E2 : find_rows M (h_name h) = find_rows G (h_name h)).
        { rewrite !find_rows_look by (try apply HLM; apply HLG). rewrite E1. reflexivity. }
        rewrite E2. destruct (find_rows G (h_name h)) as [x|]; [apply CU; [reflexivity|exact Hn]|apply A1; exact Hn].
      + assert (L : forall l, Forall rowok (mvl rec blk h l) ->
                    look match find_rows l (h_name h) with
                         | Some x => replace_row (h_name h) [] (row_of_hdr (r_rec x) rec (r_blk x) blk h) (mvl rec blk h l)
                         | None => mvl rec blk h l end n = look (mvl rec blk h l) n).
        { intros l Hl. destruct (find_rows l (h_name h)) as [x|]; [|reflexivity].
          rewrite look_replace; [|exact Hl|reflexivity]. rewrite E. reflexivity. }
        rewrite (L M), (L G); [apply A1; exact Hn|apply HLG1|apply HLM1]. }
  destruct (pax_get K_replaces_content (h_pax h)) as [v|]; [|exact MU].
  destruct (eqb_str v V_true); [apply CU; reflexivity|exact MU].
Qed.

Lemma step_agree rec blk h (D : str -> Prop) M G G' : LL false M -> LL false G -> hnames_ok false h ->
  (h_act h = V_update -> forall o, h_rep h = Some o -> has_name G o = true) ->
  agree D M G -> (forall n, has_name G n = true -> ~ D n) ->
  ih_rows rec blk h G = Some G' ->
  exists M', ih_rows rec blk h M = Some M' /\
    agree (fun n => D n /\ ~ In n (cl h)) M' G' /\
    (forall n, has_name G' n = true -> ~ (D n /\ ~ In n (cl h))).
Proof.
  intros HLM HLG HN HW HA HG E.
  assert (Names : forall n, has_name G' n = true -> ~ (D n /\ ~ In n (cl h))).
  { intros n Hn [K1 K2]. destruct (ih_rows_names rec blk h G G' n HLG HN E Hn) as [K|K]; [exact (HG n K K1)|exact (K2 K)]. }
  revert E. unfold ih_rows.
  destruct (eqb_str (h_act h) V_create) eqn:Ec.
  { intro E. inversion E; subst G'. eexists. split; [reflexivity|]. split; [|exact Names].
    intros n Hn. rewrite !look_upsert; try (apply HN); try (apply HLM); try (apply HLG).
    cbn [r_name row_of_hdr]. destruct (eqb_str (h_name h) n) eqn:E1; [reflexivity|].
    apply HA. intro K. apply Hn. split; [exact K|]. unfold cl. rewrite Ec. cbn [In].
    apply eqb_str_neq in E1. intros [F|[]]. congruence. }
  destruct (eqb_str (h_act h) V_delete) eqn:Ed.
  { destruct (find_rows G (h_name h)) as [r|] eqn:Ef; [|discriminate]. intro E. inversion E; subst G'.
    assert (Hcl : cl h = []).
    { unfold cl. rewrite Ec. apply eqb_str_eq in Ed. rewrite Ed, V_neq_4. reflexivity. }
    destruct (find_rows_some _ _ _ Ef) as (Hin & Hlive & Hrn).
    assert (Hhas : has_name G (h_name h) = true).
    { apply has_name_in. rewrite <- Hrn. apply in_map. exact Hin. }
    assert (E1 : look M (h_name h) = look G (h_name h)) by (apply HA; apply HG; exact Hhas).
    assert (E2 : find_rows M (h_name h) = Some r).
    { rewrite <- Ef. rewrite !find_rows_look by (try apply HLM; apply HLG). rewrite E1. reflexivity. }
    rewrite E2. eexists. split; [reflexivity|]. split; [|exact Names].
    apply agree_replace; try (apply HLM); try (apply HLG); try reflexivity; try exact Hrn.
    eapply agree_sub; [|exact HA]. intros n K. split; [exact K|]. rewrite Hcl. intros []. }
  destruct (eqb_str (h_act h) V_update) eqn:Eu; [|discriminate].
  apply eqb_str_eq in Eu. intro E. inversion E; subst G'. eexists. split; [reflexivity|]. split; [|exact Names].
  apply upd_rows_agree; try assumption. apply HW. exact Eu.
Qed.

(* ---------- the two runs *)
Definition hsz (h : hdr) : hdr :=
  match usz h with Some sz => with_size_name h sz (h_name h) | None => h end.

Lemma hsz_facts h : h_act (hsz h) = h_act h /\ h_rep (hsz h) = h_rep h /\ h_name (hsz h) = h_name h /\ cl (hsz h) = cl h.
Proof. unfold hsz. destruct (usz h); repeat split; reflexivity. Qed.

Lemma hsz_ok hr h : hnames_ok hr h -> hnames_ok hr (hsz h).
Proof. intro H. unfold hsz. destruct (usz h); [apply hnames_ok_wsn|]; exact H. Qed.

Lemma hsz_ver h : ver_ok h -> ver_ok (hsz h).
Proof. intro H. unfold hsz. destruct (usz h); exact H. Qed.

Lemma index_header_live hr c rec blk h lv : plain c -> hnames_ok hr h ->
  index_header c rec blk h false lv = ih_body rec blk (hsz h) false lv.
Proof.
  intros HP HN. destruct (usz_some h (hn_usize hr h HN)) as (sz & E).
  rewrite index_header_plain by exact HP. unfold hsz. rewrite E. reflexivity.
Qed.

Lemma hnames_ok_true hr h : hnames_ok true h -> hnames_ok hr h.
Proof. intros [A B C D E]. split; try assumption. intros _. apply D. reflexivity. Qed.

Lemma run_agree c (HP : plain c) : forall l G M (D : str -> Prop), LI false G -> LI false M -> twrun c l G ->
  agree D (rows M) (rows G) -> (forall n, has_name (rows G) n = true -> ~ D n) ->
  exists G' M', loop0 c l G = (G', Ok tt) /\ loop0 c l M = (M', Ok tt) /\ LI false G' /\ LI false M' /\
    agree (fun n => D n /\ ~ In n (flat_map cl (map snd l))) (rows M') (rows G').
Proof.
  induction l as [|[st h] l IH]; intros G M D HLG HLM HT HA HG.
  - exists G, M. cbn [loop0 map flat_map]. repeat (split; [first [reflexivity|assumption]|]).
    eapply agree_sub; [|exact HA]. intros n K. split; [exact K|intros []].
  - cbn [twrun] in HT. destruct HT as ((HN & HV & HW) & G1 & EG & HT).
    pose proof (hnames_ok_true false h HN) as HNf.
    cbn [loop0 map snd flat_map]. rewrite EG.
    set (rec := fst (pos_of (c_rs c) st)) in *. set (blk := snd (pos_of (c_rs c) st)) in *.
    rewrite (index_header_live false c rec blk h G HP HNf) in EG.
    rewrite (index_header_live false c rec blk h M HP HNf).
    destruct (hsz_facts h) as (Ea & Er & En & Ecl).
    pose proof (hsz_ok false h HNf) as HN'. pose proof (hsz_ver h HV) as HV'.
    pose proof (ih_body_live false rec blk (hsz h) G HLG HN' HV') as LG.
    destruct (ih_rows rec blk (hsz h) (rows G)) as [G'l|] eqn:EGl; [|rewrite EG in LG; discriminate].
    rewrite EG in LG. inversion LG; subst G1.
    destruct (step_agree rec blk (hsz h) D (rows M) (rows G) G'l) as (M'l & EMl & HA' & HG'); try assumption;
      try (apply HLM); try (apply HLG).
    { rewrite Ea, Er. exact HW. }
    pose proof (ih_body_live false rec blk (hsz h) M HLM HN' HV') as LM. rewrite EMl in LM. rewrite LM.
    assert (HLG1 : LI false (with_rows G G'l)) by (eapply ih_body_LI; [exact HLG|exact HN'|exact EG]).
    assert (HLM1 : LI false (with_rows M M'l)) by (eapply ih_body_LI; [exact HLM|exact HN'|exact LM]).
    destruct (IH (with_rows G G'l) (with_rows M M'l) (fun n => D n /\ ~ In n (cl (hsz h))) HLG1 HLM1 HT HA' HG')
      as (G2 & M2 & E1 & E2 & L1 & L2 & HA2).
    exists G2, M2. repeat (split; [assumption|]).
    eapply agree_sub; [|exact HA2]. intros n [[K1 K2] K3]. split; [exact K1|].
    intro F. apply in_app_or in F as [F|F]; [apply K2; rewrite Ecl; exact F|apply K3; exact F].
Qed.

(* names of the index come from the cleaned names of the records replayed *)
Lemma run_names c (HP : plain c) : forall l G G' n, LI false G -> twrun c l G -> loop0 c l G = (G', Ok tt) ->
  has_name (rows G') n = true -> has_name (rows G) n = true \/ In n (flat_map cl (map snd l)).
Proof.
  induction l as [|[st h] l IH]; intros G G' n HLG HT E Hn.
  - cbn in E. inversion E; subst. left. exact Hn.
  - cbn [twrun] in HT. destruct HT as ((HN & HV & HW) & G1 & EG & HT).
    pose proof (hnames_ok_true false h HN) as HNf.
    cbn [loop0] in E. rewrite EG in E. cbn [map snd flat_map].
    set (rec := fst (pos_of (c_rs c) st)) in *. set (blk := snd (pos_of (c_rs c) st)) in *.
    rewrite (index_header_live false c rec blk h G HP HNf) in EG.
    destruct (hsz_facts h) as (Ea & Er & En & Ecl).
    pose proof (hsz_ok false h HNf) as HN'. pose proof (hsz_ver h HV) as HV'.
    pose proof (ih_body_live false rec blk (hsz h) G HLG HN' HV') as LG.
    destruct (ih_rows rec blk (hsz h) (rows G)) as [G'l|] eqn:EGl; [|rewrite EG in LG; discriminate].
    rewrite EG in LG. inversion LG; subst G1.
    assert (HLG1 : LI false (with_rows G G'l)) by (eapply ih_body_LI; [exact HLG|exact HN'|exact EG]).
    destruct (IH _ _ n HLG1 HT E Hn) as [K|K]; [|right; apply in_or_app; right; exact K].
    destruct (ih_rows_names rec blk (hsz h) (rows G) G'l n ltac:(apply HLG) HN' EGl K) as [K1|K1]; [left; exact K1|].
    right. apply in_or_app. left. rewrite <- Ecl. exact K1.
Qed.

Lemma run_LI c (HP : plain c) : forall l G G', LI false G -> twrun c l G -> loop0 c l G = (G', Ok tt) -> LI false G'.
Proof.
  induction l as [|[st h] l IH]; intros G G' HLG HT E.
  - cbn in E. inversion E; subst. exact HLG.
  - cbn [twrun] in HT. destruct HT as ((HN & HV & HW) & G1 & EG & HT).
    cbn [loop0] in E. rewrite EG in E. eapply IH; [|exact HT|exact E].
    pose proof (hnames_ok_true false h HN) as HNf.
    rewrite (index_header_live false c _ _ h G HP HNf) in EG.
    eapply ih_body_LI; [exact HLG|apply hsz_ok; exact HNf|exact EG].
Qed.

(* ---------- the live-style theorem *)
(* every name of the index is written by some record of the list *)
Definition covered (l : list (N * hdr)) (lv : pstate) : Prop :=
  forall n, has_name (rows lv) n = true -> In n (flat_map cl (map snd l)).

Theorem live_converges_gen c l M0 : plain c -> twrun c l p_live0 -> LI false M0 -> covered l M0 ->
  exists Gn Mn, loop0 c l p_live0 = (Gn, Ok tt) /\ loop0 c l M0 = (Mn, Ok tt) /\ LI false Gn /\ LI false Mn /\
    (forall n, look (rows Mn) n = look (rows Gn) n) /\ covered l Gn /\ covered l Mn.
Proof.
  intros HP HT HL0 Hcov.
  destruct (run_agree c HP l p_live0 M0 (fun n => has_name (rows M0) n = true) LI_live0 HL0 HT) as (Gn & Mn & E1 & E2 & L1 & L2 & HA).
  { intros n Hn. cbn [rows p_live0]. apply look_none_has. destruct (has_name (rows M0) n); [exfalso; apply Hn; reflexivity|reflexivity]. }
  { intros n Hn. cbn in Hn. discriminate. }
  assert (Hlook : forall n, look (rows Mn) n = look (rows Gn) n).
  { intro n. apply HA. intros [K1 K2]. apply K2. apply Hcov. exact K1. }
  assert (HcG : covered l Gn).
  { intros n Hn. destruct (run_names c HP _ _ _ n LI_live0 HT E1 Hn) as [K|K]; [cbn in K; discriminate|exact K]. }
  exists Gn, Mn. repeat (split; [assumption|]).
  intros n Hn. apply HcG. rewrite <- Hn. symmetry. apply has_name_look_eq. apply Hlook.
Qed.

Lemma covered_prefix c l j Gj : plain c -> twrun c l p_live0 ->
  loop0 c (firstn j l) p_live0 = (Gj, Ok tt) -> LI false Gj /\ covered l Gj.
Proof.
  intros HP HT Ej.
  assert (HTj : twrun c (firstn j l) p_live0).
  { rewrite <- (firstn_skipn j l) in HT. apply twrun_app in HT. apply HT. }
  split; [exact (run_LI c HP _ _ _ LI_live0 HTj Ej)|].
  intros n Hn. destruct (run_names c HP _ _ _ n LI_live0 HTj Ej Hn) as [K|K]; [cbn in K; discriminate|].
  rewrite <- (firstn_skipn j l). rewrite map_app, flat_map_app. apply in_or_app. left. exact K.
Qed.
