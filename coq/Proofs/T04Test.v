(* T04 / tests: the statements of T04Content.v evaluated with vm_compute on concrete histories before they were
   proved: after EVERY call of the history, for every name of a list, the content read equals the content last
   written (ghost map), and every live regular entry's position designates a content record of its size.
   Record sizes 1, 2, 3, 20; content sizes 0, 1, 511, 512, 513, 1500; header block counts 1, 2, 3 (default). *)
From Coq Require Import String List NArith ZArith Bool.
Import ListNotations.
From STFS Require Import Str Db Tape Index Ops Fs File Diff Norm C01Str T02Ns T02Db T02Str T02Test T04Def.
Open Scope string_scope.
Open Scope N_scope.

Definition cfg_rs (rs : N) : cfg := {| c_rs := rs; c_csuf := []; c_esuf := []; c_readonly := false; c_uid := 7; c_gid := 8;
                                       c_uname := s "u"; c_gname := s "g" |}.
Definition eh (hb : list N) (n : Z) : env := {| ev_hb := hb; ev_enc := []; ev_now := n |}.

Definition eq_optc (a b : option content) : bool := eqb_opt eqb_content a b.

(* after every call: contents = ghost map (as bytes), positions designate content records *)
Fixpoint inv_all (c : cfg) (s : sys) (h : list (call * env)) (w : wmap) (names : list str) : bool :=
  match h with
  | [] => true
  | (k, e) :: r =>
    let '(s', o) := step c (with_env s e) k in
    let w' := upd_w k o w in
    forallb (fun n => content_eqb (content_of c s' n) (w' n)) names && designatesb c s' && inv_all c s' r w' names
  end.
(* the same with equality of piece lists *)
Fixpoint inv_all_strict (c : cfg) (s : sys) (h : list (call * env)) (w : wmap) (names : list str) : bool :=
  match h with
  | [] => true
  | (k, e) :: r =>
    let '(s', o) := step c (with_env s e) k in
    let w' := upd_w k o w in
    forallb (fun n => eq_optc (content_of c s' n) (w' n)) names && inv_all_strict c s' r w' names
  end.

Definition tnames : list str :=
  map s ["/"; "/a"; "/a/f"; "/a/g"; "/a/b"; "/a/b/h"; "/b"; "/b/f"; "/b/b/h"; "/c"; "/c/f"; "/c/b/h"; "/f"; "/g"; "/d"; "/d/f"; "/d/b"; "/d/b/h"; "/e"].

(* create, overwrite, rename of files and of directories with files, remove and re-create, RemoveAll of a subtree,
   metadata calls in between, failing calls *)
Definition hist (hb : list N) : list (call * env) :=
  [(CInitialize (s "/"), eh hb 1);
   (CMkdir (s "/a") 493, eh hb 2);
   (CCreateFile (s "/a/f") [(1, 0, 700)], eh hb 3);
   (CCreateFile (s "/a/g") [], eh hb 4);
   (CMkdir (s "/a/b") 493, eh hb 5);
   (CCreateFile (s "/a/b/h") [(2, 0, 1)], eh hb 6);
   (CCreateFile (s "/f") [(3, 0, 511)], eh hb 7);
   (CCreateFile (s "/g") [(4, 0, 512)], eh hb 8);
   (CChmod (s "/a/f") 256, eh hb 9);
   (CCreateFile (s "/a/f") [(5, 0, 513)], eh hb 10);          (* overwrite *)
   (CChown (s "/a/f") 11 12, eh hb 11);
   (CRename (s "/a") (s "/c"), eh hb 12);                       (* directory with files and a subdirectory *)
   (CChtimes (s "/c/f") 5%Z 6%Z, eh hb 13);
   (CRename (s "/f") (s "/c/g"), eh hb 14);                     (* file onto an existing (empty) file *)
   (CRemove (s "/g"), eh hb 15);
   (CCreateFile (s "/g") [(6, 0, 1500)], eh hb 16);             (* re-create under the same name *)
   (CCreateFile (s "/g") [], eh hb 17);                         (* truncate to empty *)
   (CCreateFile (s "/g") [], eh hb 18);                         (* empty onto empty: nothing is written *)
   (CMkdirAll (s "/d/b") 493, eh hb 19);
   (CRename (s "/c/b/h") (s "/d/b/h"), eh hb 20);
   (CRename (s "/c") (s "/d/b"), eh hb 21);                     (* fails: target not empty *)
   (CRemoveAll (s "/d"), eh hb 22);
   (CCreateFile (s "/c") [(7, 0, 10)], eh hb 23);               (* fails: is a directory *)
   (CCreateFile (s "/e/x") [(7, 0, 10)], eh hb 24);             (* fails: no parent *)
   (CRename (s "/c/f") (s "/c/f"), eh hb 25);
   (CRename (s "/c") (s "/a"), eh hb 26);
   (CCreateFile (s "/a/f") [(8, 3, 20); (9, 0, 30)], eh hb 27);
   (CRemoveAll (s "/a"), eh hb 28);
   (CMkdir (s "/a") 493, eh hb 29);
   (CCreateFile (s "/a/f") [(1, 0, 2)], eh hb 30)].

Definition run_inv (rs : N) (hb : list N) : bool := inv_all (cfg_rs rs) init_sys (hist hb) w_empty tnames.
Definition run_strict (rs : N) (hb : list N) : bool := inv_all_strict (cfg_rs rs) init_sys (hist hb) w_empty tnames.

Example test_rs1 : run_inv 1 [] = true. Proof. vm_compute. reflexivity. Qed.
Example test_rs2 : run_inv 2 [] = true. Proof. vm_compute. reflexivity. Qed.
Example test_rs3 : run_inv 3 [] = true. Proof. vm_compute. reflexivity. Qed.
Example test_rs20 : run_inv 20 [] = true. Proof. vm_compute. reflexivity. Qed.
Example test_rs1_hb1 : run_inv 1 [1] = true. Proof. vm_compute. reflexivity. Qed.
Example test_rs2_hb : run_inv 2 [2; 1] = true. Proof. vm_compute. reflexivity. Qed.
Example test_rs3_hb1 : run_inv 3 [1; 1; 1] = true. Proof. vm_compute. reflexivity. Qed.
Example test_rs20_hb1 : run_inv 20 [1] = true. Proof. vm_compute. reflexivity. Qed.
(* on this history even the piece lists are equal *)
Example test_strict : (run_strict 1 [], run_strict 3 [1], run_strict 20 []) = (true, true, true).
Proof. vm_compute. reflexivity. Qed.

(* the final state: what is read *)
Definition fin (rs : N) := final (cfg_rs rs) init_sys (hist []).
Example test_final_contents :
  map (fun n => content_of (cfg_rs 3) (fin 3) (s n)) ["/a/f"; "/g"; "/a"; "/c/f"; "/zz"]
  = [Some [(1, 0, 2)]; Some []; None; None; None].
Proof. vm_compute. reflexivity. Qed.

(* the calls that change nothing, in between *)
Definition hist_quiet (hb : list N) : list (call * env) :=
  [(CInitialize (s "/"), eh hb 1); (CCreateFile (s "/f") [(3, 0, 511)], eh hb 2); (CNop, eh hb 3); (CReopen, eh hb 4);
   (CInitialize (s "/"), eh hb 5); (CMkdir (s "/a") 493, eh hb 6); (CRename (s "/f") (s "/a/f"), eh hb 7); (CReopen, eh hb 8);
   (CCreateFile (s "/a/f") [(4, 0, 1024)], eh hb 9); (CInitialize (s "/x"), eh hb 10); (CRemove (s "/a/f"), eh hb 11)].
Example test_quiet :
  (inv_all (cfg_rs 1) init_sys (hist_quiet []) w_empty tnames, inv_all_strict (cfg_rs 2) init_sys (hist_quiet [1]) w_empty tnames,
   inv_all (cfg_rs 20) init_sys (hist_quiet [2]) w_empty tnames) = (true, true, true).
Proof. vm_compute. reflexivity. Qed.
