(* T13 / the walk: on a well-formed tree, [Fs.view] (Stat "/" then Readdir recursively, 16 levels deep)
   lists every live row of depth <= 16 exactly once: reachability of the whole namespace from the root. *)
From Coq Require Import List NArith ZArith Bool Lia Permutation.
From Coq Require Import ZifyN ZifyBool.
Import ListNotations.
From STFS Require Import Str Db Tape Index Ops Fs Norm StrLemmas C01Str C01Db C01Inv C01Ops C01Reads
  T13Path T13Def T13ListStr T13List T13Fs.
Open Scope N_scope.

(* ---------- generic list facts *)
Lemma flat_map_ext_in' {A B} (f g : A -> list B) l : (forall x, In x l -> f x = g x) -> flat_map f l = flat_map g l.
Proof.
  induction l as [|a l IH]; intro H; cbn [flat_map]; [reflexivity|].
  rewrite (H a (or_introl eq_refl)), IH by (intros; apply H; right; assumption). reflexivity.
Qed.

Lemma flat_map_map {A B C} (f : A -> B) (g : B -> list C) l : flat_map g (map f l) = flat_map (fun x => g (f x)) l.
Proof. induction l as [|a l IH]; cbn [map flat_map]; [reflexivity|]. rewrite IH. reflexivity. Qed.

Lemma map_flat_map {A B C} (f : B -> C) (g : A -> list B) l : map f (flat_map g l) = flat_map (fun x => map f (g x)) l.
Proof. induction l as [|a l IH]; cbn [map flat_map]; [reflexivity|]. rewrite map_app, IH. reflexivity. Qed.

Lemma NoDup_app_intro {A} (x y : list A) : NoDup x -> NoDup y -> (forall a, In a x -> ~ In a y) -> NoDup (x ++ y).
Proof.
  induction x as [|a x IH]; intros Hx Hy Hd; cbn [app]; [exact Hy|].
  inversion Hx as [|? ? Ha Hx']; subst. constructor.
  - intro K. apply in_app_or in K as [K|K]; [contradiction|]. exact (Hd a (or_introl eq_refl) K).
  - apply IH; [exact Hx'|exact Hy|]. intros b Hb. apply Hd. right. exact Hb.
Qed.

Lemma NoDup_flat_map {A B} (g : A -> list B) l : NoDup l ->
  (forall a, In a l -> NoDup (g a)) ->
  (forall a b x, In a l -> In b l -> a <> b -> In x (g a) -> ~ In x (g b)) ->
  NoDup (flat_map g l).
Proof.
  induction l as [|a l IH]; intros Hl Hg Hd; cbn [flat_map]; [constructor|].
  inversion Hl as [|? ? Ha Hl']; subst. apply NoDup_app_intro.
  - apply Hg. left. reflexivity.
  - apply IH; [exact Hl'|intros; apply Hg; right; assumption|].
    intros x y z Hx Hy. apply Hd; right; assumption.
  - intros x Hx K. apply in_flat_map in K as (b & Hb & Hxb).
    apply (Hd a b x (or_introl eq_refl) (or_intror Hb)); [intro E; subst; contradiction|exact Hx|exact Hxb].
Qed.

(* ---------- depth = number of slashes *)
Lemma sc_join cs : Forall okc cs -> cs <> [] -> slash_count (join_slash cs) + 1 = N.of_nat (length cs).
Proof.
  induction cs as [|a cs IH]; intros H Hn; [contradiction|]. inversion H as [|? ? Ha Hcs]; subst.
  destruct cs as [|b r].
  - cbn [join_slash length]. rewrite sc_noslash by (apply okc_ns; exact Ha). reflexivity.
  - change (join_slash (a :: b :: r)) with (a ++ slash :: join_slash (b :: r)).
    rewrite sc_app, sc_cons_slash, sc_noslash by (apply okc_ns; exact Ha).
    specialize (IH Hcs ltac:(discriminate)). cbn [length] in *. lia.
Qed.

Lemma sc_pth cs : Forall okc cs -> cs <> [] -> slash_count (pth cs) = N.of_nat (length cs).
Proof. intros H Hn. unfold pth. rewrite sc_cons_slash. pose proof (sc_join cs H Hn). lia. Qed.

(* ---------- the type map of the live rows of a well-formed tree *)
Lemma wf_wfm p : wf_tree p -> wfm (tfo (lrows p)).
Proof.
  intros (W1 & W2 & W3) cs c0 Hcs Hc Hl.
  destruct (tfo (lrows p) (pth (cs ++ [c0]))) as [t|] eqn:E; [|contradiction].
  apply tfo_some in E as (x & X1 & _ & X3 & _).
  destruct (W2 x X1) as (q & Q1 & Q2 & Q3).
  { rewrite X3. intro K. apply pth_root_iff in K; [destruct cs; discriminate|].
    apply Forall_app. split; [exact Hcs|constructor; [exact Hc|constructor]]. }
  rewrite X3, path_dir_pth in Q2 by assumption. rewrite <- Q2, <- Q3.
  apply tfo_in; [exact W1|exact Q1|]. apply filter_In in Q1. apply Q1.
Qed.

Lemma lrows_same p x y : wf_tree p -> In x (lrows p) -> In y (lrows p) -> r_name x = r_name y -> x = y.
Proof.
  intros (W1 & _) Hx Hy E. induction (lrows p) as [|a l IH]; [contradiction|].
  cbn [map] in W1. inversion W1 as [|? ? Ha Hl]; subst.
  destruct Hx as [->|Hx], Hy as [->|Hy].
  - reflexivity.
  - exfalso. apply Ha. rewrite E. apply in_map. exact Hy.
  - exfalso. apply Ha. rewrite <- E. apply in_map. exact Hx.
  - apply IH; assumption.
Qed.

(* ---------- the walk on rows *)
Definition ent (c : cfg) (s : sys) (r : row) : entry := entry_of c s (r_name r) (hdr_of_row r).

Fixpoint rwalk (fuel : nat) (p : pstate) (d : str) : list row :=
  match fuel with
  | O => []
  | S f => flat_map (fun r => r :: (if r_tf r =? TypeDir then rwalk f p (r_name r) else [])) (children p d)
  end.

Lemma child_facts p d r : wf_tree p -> In r (children p d) ->
  In r (lrows p) /\ r_name r <> [slash] /\ path_dir (r_name r) = d /\ good (r_name r).
Proof.
  intros (_ & _ & W3) H. unfold children in H. apply filter_In in H as [Hin Hp]. unfold childp in Hp.
  apply andb_true_iff in Hp as [Hp H3]. apply andb_true_iff in Hp as [H1 H2].
  apply negb_true_iff in H2. apply eqb_str_neq in H2. apply eqb_str_eq in H3.
  assert (Hl : In r (lrows p)) by (apply filter_In; split; assumption).
  split; [exact Hl|]. split; [exact H2|]. split; [exact H3|apply W3; exact Hl].
Qed.

Lemma child_intro p d r : In r (lrows p) -> r_name r <> [slash] -> path_dir (r_name r) = d -> In r (children p d).
Proof.
  intros Hl Hn Hd. apply filter_In in Hl as [Hin Hlive]. apply filter_In. split; [exact Hin|].
  unfold childp. rewrite Hlive. cbn [andb]. apply andb_true_iff. split.
  - apply negb_true_iff. apply eqb_str_neq. exact Hn.
  - apply eqb_str_eq. exact Hd.
Qed.

Lemma inv_list_children p d : wf_tree p -> idx_plain p -> good d -> (d <> [slash] \/ lrows p <> []) ->
  exists p', inv_list p d None = (p', Ok (map hdr_of_row (children p d))).
Proof.
  intros W I G H. destruct (T13_listing_total p d None I G H) as (l & El).
  pose proof (T13_listing_exact p d l W I G El) as E. unfold inv_list.
  destruct (get_direct_children p d None) as [p' res]. cbn [snd] in El. subst res.
  exists p'. rewrite E. reflexivity.
Qed.

Lemma child_path d r : good (r_name r) -> r_name r <> [slash] -> path_dir (r_name r) = d ->
  path_join2 d (path_base (r_name r)) = r_name r.
Proof.
  intros G Hn Hd. destruct (good_split _ G Hn) as (cs & c0 & Hcs & Hc & E).
  rewrite E in Hd |- *. rewrite path_dir_pth in Hd by assumption. subst d.
  rewrite path_base_pth by assumption. apply path_join2_pth; assumption.
Qed.

Lemma walk_rwalk c s : wf_tree (db s) -> idx_plain (db s) ->
  forall fuel d, good d -> (d <> [slash] \/ lrows (db s) <> []) ->
  walk fuel c s d = map (ent c s) (rwalk fuel (db s) d).
Proof.
  intros W I. induction fuel as [|f IH]; intros d G H; [reflexivity|].
  cbn [walk rwalk]. destruct (inv_list_children (db s) d W I G H) as (p' & ->).
  rewrite flat_map_map, map_flat_map. apply flat_map_ext_in'. intros r Hr.
  destruct (child_facts (db s) d r W Hr) as (Hl & Hn & Hd & Gr).
  cbn [hdr_of_row h_name h_tf]. rewrite (child_path d r Gr Hn Hd). cbn [map]. unfold ent at 1. f_equal.
  destruct (r_tf r =? TypeDir); [|reflexivity]. apply IH; [exact Gr|left; exact Hn].
Qed.

(* ---------- membership: the rows strictly below d, at most [fuel] levels down *)
Lemma rwalk_in p : wf_tree p -> forall f ds r, Forall okc ds ->
  (In r (rwalk f p (pth ds)) <->
   In r (lrows p) /\ exists rs, rs <> [] /\ (length rs <= f)%nat /\ Forall okc rs /\ r_name r = pth (ds ++ rs)).
Proof.
  intro W. pose proof (wf_wfm p W) as Hw.
  induction f as [|f IH]; intros ds r Hds.
  - cbn [rwalk]. split; [contradiction|]. intros (_ & rs & Hn & Hlen & _). destruct rs; [contradiction|cbn in Hlen; lia].
  - cbn [rwalk]. rewrite in_flat_map. split.
    + intros (k & Hk & Hr). destruct (child_facts p (pth ds) k W Hk) as (Kl & Kn & Kd & Kg).
      destruct (good_split _ Kg Kn) as (cs & c0 & Hcs & Hc & Ek).
      rewrite Ek, path_dir_pth in Kd by assumption. apply pth_inj in Kd; [|exact Hcs|exact Hds]. subst cs.
      destruct Hr as [<-|Hr].
      * split; [exact Kl|]. exists [c0]. split; [discriminate|]. split; [cbn; lia|]. split; [constructor; [exact Hc|constructor]|exact Ek].
      * destruct (r_tf k =? TypeDir); [|contradiction]. rewrite Ek in Hr.
        apply IH in Hr; [|apply Forall_app; split; [exact Hds|constructor; [exact Hc|constructor]]].
        destruct Hr as (Hl & rs & Hn & Hlen & Hrs & En). split; [exact Hl|].
        exists (c0 :: rs). split; [discriminate|]. split; [cbn; lia|]. split; [constructor; assumption|].
        rewrite En, <- app_assoc. reflexivity.
    + intros (Hl & rs & Hn & Hlen & Hrs & En). destruct rs as [|c0 rs']; [contradiction|].
      inversion Hrs as [|? ? Hc Hrs']; subst.
      assert (Fd : Forall okc (ds ++ [c0])) by (apply Forall_app; split; [exact Hds|constructor; [exact Hc|constructor]]).
      destruct rs' as [|c1 rs''].
      * exists r. split; [|left; reflexivity]. apply child_intro; [exact Hl| |].
        -- rewrite En. intro K. apply pth_root_iff in K; [destruct ds; discriminate|exact Fd].
        -- rewrite En. apply path_dir_pth; assumption.
      * assert (K : tfo (lrows p) (pth (ds ++ [c0])) = Some TypeDir).
        { apply (wfm_ancestor _ (ds ++ [c0]) Hw (c1 :: rs'')).
          - rewrite <- app_assoc. apply Forall_app. split; [exact Hds|exact Hrs].
          - discriminate.
          - rewrite <- app_assoc. cbn [app]. rewrite <- En.
            destruct W as (W1 & _). rewrite (tfo_in _ r W1 Hl); [discriminate|]. apply filter_In in Hl. apply Hl. }
        apply tfo_some in K as (k & K1 & K2 & K3 & K4). exists k. split.
        -- apply child_intro; [exact K1| |].
           ++ rewrite K3. intro E. apply pth_root_iff in E; [destruct ds; discriminate|exact Fd].
           ++ rewrite K3. apply path_dir_pth; assumption.
        -- right. rewrite K4, N.eqb_refl. rewrite K3. apply IH; [exact Fd|]. split; [exact Hl|].
           exists (c1 :: rs''). split; [discriminate|]. split; [cbn in *; lia|]. split; [exact Hrs'|].
           rewrite En, <- app_assoc. reflexivity.
Qed.

Lemma children_nodup p d : wf_tree p -> NoDup (children p d).
Proof.
  intros (W1 & _). apply NoDup_map_inv in W1. unfold children, childp.
  rewrite (filter_ext_in' _ (fun r => live r && (negb (eqb_str (r_name r) [slash]) && eqb_str (path_dir (r_name r)) d)))
    by (intros; rewrite andb_assoc; reflexivity).
  rewrite filter_and_live. apply NoDup_filter. exact W1.
Qed.

Lemma rwalk_nodup p : wf_tree p -> forall f ds, Forall okc ds -> NoDup (rwalk f p (pth ds)).
Proof.
  intro W. induction f as [|f IH]; intros ds Hds; [constructor|]. cbn [rwalk].
  assert (Shape : forall k, In k (children p (pth ds)) -> exists c0, okc c0 /\ r_name k = pth (ds ++ [c0]) /\ In k (lrows p)).
  { intros k Hk. destruct (child_facts p (pth ds) k W Hk) as (Kl & Kn & Kd & Kg).
    destruct (good_split _ Kg Kn) as (cs & c0 & Hcs & Hc & Ek).
    rewrite Ek, path_dir_pth in Kd by assumption. apply pth_inj in Kd; [|exact Hcs|exact Hds]. subst cs.
    exists c0. split; [exact Hc|]. split; [exact Ek|exact Kl]. }
  assert (Block : forall k x, In k (children p (pth ds)) ->
            In x (k :: (if r_tf k =? TypeDir then rwalk f p (r_name k) else [])) ->
            exists c0 rs, okc c0 /\ r_name k = pth (ds ++ [c0]) /\ Forall okc rs /\ r_name x = pth (ds ++ c0 :: rs) /\ (rs = [] -> x = k)).
  { intros k x Hk Hx. destruct (Shape k Hk) as (c0 & Hc & Ek & _). exists c0.
    destruct Hx as [<-|Hx]; [exists []; split; [exact Hc|]; split; [exact Ek|]; split; [constructor|]; split; [exact Ek|reflexivity]|].
    destruct (r_tf k =? TypeDir); [|contradiction]. rewrite Ek in Hx.
    apply rwalk_in in Hx; [|exact W|apply Forall_app; split; [exact Hds|constructor; [exact Hc|constructor]]].
    destruct Hx as (_ & rs & Hn & _ & Hrs & En). exists rs. split; [exact Hc|]. split; [exact Ek|]. split; [exact Hrs|].
    split; [rewrite En, <- app_assoc; reflexivity|]. intro K. contradiction. }
  apply NoDup_flat_map.
  - apply children_nodup. exact W.
  - intros k Hk. destruct (Shape k Hk) as (c0 & Hc & Ek & _). constructor.
    + destruct (r_tf k =? TypeDir); [|intros []]. intro K. rewrite Ek in K.
      apply rwalk_in in K; [|exact W|apply Forall_app; split; [exact Hds|constructor; [exact Hc|constructor]]].
      destruct K as (_ & rs & Hn & _ & Hrs & En). rewrite Ek in En.
      apply pth_inj in En; [| |apply Forall_app; split; [|exact Hrs]];
        try (apply Forall_app; split; [exact Hds|constructor; [exact Hc|constructor]]).
      apply (f_equal (@length str)) in En. rewrite !app_length in En. destruct rs; [contradiction|cbn in En; lia].
    + destruct (r_tf k =? TypeDir); [|constructor]. rewrite Ek. apply IH.
      apply Forall_app; split; [exact Hds|constructor; [exact Hc|constructor]].
  - intros k k' x Hk Hk' Hne Hx Hx'.
    destruct (Block k x Hk Hx) as (c0 & rs & Hc & Ek & Hrs & Ex & _).
    destruct (Block k' x Hk' Hx') as (c1 & rs' & Hc' & Ek' & Hrs' & Ex' & _).
    rewrite Ex in Ex'. apply pth_inj in Ex'.
    + apply app_inv_head in Ex'. inversion Ex'; subst c1.
      apply Hne. destruct (Shape k Hk) as (_ & _ & _ & L1). destruct (Shape k' Hk') as (_ & _ & _ & L2).
      apply (lrows_same p k k' W L1 L2). congruence.
    + apply Forall_app. split; [exact Hds|constructor; assumption].
    + apply Forall_app. split; [exact Hds|constructor; assumption].
Qed.

(* ---------- Stat "/" *)
Lemma stat_root s : idx_plain (db s) ->
  stat_s s [slash] false =
  (s, match find_rows (rows (db s)) [slash] with Some d => Ok (hdr_of_row d) | None => NoRows end).
Proof.
  intros [Hr Hk]. unfold stat_s, inv_stat.
  assert (E : get_header (db s) [slash] = (db s, match find_rows (rows (db s)) [slash] with Some r => Ok r | None => NoRows end)).
  { rewrite get_header_form. rewrite (sanitize_root_eq (db s) [slash] Hr). reflexivity. }
  rewrite E. destruct (find_rows (rows (db s)) [slash]) as [d|] eqn:Ef.
  - apply find_rows_some in Ef as (Hin & _). rewrite Forall_forall in Hk. rewrite (Hk d Hin). cbn [eqb_str negb].
    rewrite set_db_same. reflexivity.
  - rewrite root_trim_slash. cbn [app]. rewrite E. rewrite set_db_same. reflexivity.
Qed.

(* ---------- the view *)
Definition vrows (p : pstate) : list row :=
  match find_rows (rows p) [slash] with
  | Some d => d :: (if r_tf d =? TypeDir then rwalk 16 p [slash] else [])
  | None => []
  end.

Lemma view_vrows c s : wf_tree (db s) -> idx_plain (db s) -> view c s = map (ent c s) (vrows (db s)).
Proof.
  intros W I. unfold view, vrows. rewrite (stat_root s I).
  destruct (find_rows (rows (db s)) [slash]) as [d|] eqn:Ef; [|reflexivity].
  destruct (find_rows_some _ _ _ Ef) as (Hin & Hlive & Hn).
  cbn [map hdr_of_row h_tf]. unfold ent at 1. rewrite Hn. f_equal.
  destruct (r_tf d =? TypeDir); [|reflexivity]. apply walk_rwalk; [exact W|exact I|apply good_root|].
  right. intro K. assert (Hl : In d (lrows (db s))) by (apply filter_In; split; assumption). rewrite K in Hl. contradiction.
Qed.

Lemma vrows_in p : wf_tree p -> forall r, In r (vrows p) <-> (In r (lrows p) /\ slash_count (r_name r) <= 16).
Proof.
  intros W r. pose proof (wf_wfm p W) as Hw. pose proof W as (W1 & W2 & W3). unfold vrows.
  destruct (find_rows (rows p) [slash]) as [d|] eqn:Ef.
  - destruct (find_rows_some _ _ _ Ef) as (Hin & Hlive & Hn).
    assert (Hd : In d (lrows p)) by (apply filter_In; split; assumption).
    split.
    + intros [<-|Hr]; [split; [exact Hd|rewrite Hn; cbn; lia]|].
      destruct (r_tf d =? TypeDir); [|contradiction]. change [slash] with (pth []) in Hr.
      apply rwalk_in in Hr; [|exact W|constructor]. destruct Hr as (Hl & rs & Hne & Hlen & Hrs & En).
      split; [exact Hl|]. cbn [app] in En. rewrite En, sc_pth by assumption. lia.
    + intros (Hl & Hdepth). destruct (W3 r Hl) as (cs & Hcs & En).
      destruct cs as [|c0 cs'].
      * left. apply (lrows_same p d r W Hd Hl). rewrite Hn, En. reflexivity.
      * right. assert (K : tfo (lrows p) (pth []) = Some TypeDir).
        { apply (wfm_ancestor _ [] Hw (c0 :: cs')); [exact Hcs|discriminate|].
          cbn [app]. change (slash :: join_slash (c0 :: cs')) with (pth (c0 :: cs')) in En. rewrite <- En.
          rewrite (tfo_in _ r W1 Hl); [discriminate|]. apply filter_In in Hl. apply Hl. }
        apply tfo_some in K as (q & Q1 & _ & Q3 & Q4).
        assert (q = d) by (apply (lrows_same p q d W Q1 Hd); rewrite Q3, Hn; reflexivity). subst q.
        rewrite Q4, N.eqb_refl. change [slash] with (pth []). apply rwalk_in; [exact W|constructor|].
        split; [exact Hl|]. exists (c0 :: cs'). split; [discriminate|].
        change (slash :: join_slash (c0 :: cs')) with (pth (c0 :: cs')) in En.
        rewrite En, sc_pth in Hdepth by (try assumption; discriminate).
        split; [lia|]. split; [exact Hcs|exact En].
  - split; [contradiction|]. intros (Hl & _). exfalso.
    assert (Hne : lrows p <> []) by (intro K; rewrite K in Hl; contradiction).
    destruct (wf_root_live p W Hne) as (q & Q1 & Q2). apply filter_In in Q1 as [Q1 Q3].
    apply find_rows_none in Ef. unfold live_name in Ef.
    assert (existsb (fun r0 => live r0 && eqb_str (r_name r0) [slash]) (rows p) = true).
    { apply existsb_exists. exists q. split; [exact Q1|]. rewrite Q3, Q2. reflexivity. }
    congruence.
Qed.

Lemma vrows_nodup p : wf_tree p -> NoDup (vrows p).
Proof.
  intro W. unfold vrows. destruct (find_rows (rows p) [slash]) as [d|] eqn:Ef; [|constructor].
  destruct (find_rows_some _ _ _ Ef) as (Hin & Hlive & Hn). constructor.
  - destruct (r_tf d =? TypeDir); [|intros []]. change [slash] with (pth []). intro K.
    apply rwalk_in in K; [|exact W|constructor]. destruct K as (_ & rs & Hne & _ & Hrs & En).
    cbn [app] in En. rewrite Hn in En. change [slash] with (pth []) in En. apply pth_inj in En; [|constructor|exact Hrs].
    subst rs. contradiction.
  - destruct (r_tf d =? TypeDir); [|constructor]. change [slash] with (pth []). apply rwalk_nodup; [exact W|constructor].
Qed.

(* TASK.md item 3: the walk lists every live row (of depth <= 16, the fuel of the walk) exactly once, with the
   path, type and attributes of that row *)
Theorem T13_view_exact : forall c s, wf_tree (db s) -> idx_plain (db s) ->
  exists l, view c s = map (ent c s) l /\ NoDup l /\
    forall r, In r l <-> (In r (lrows (db s)) /\ slash_count (r_name r) <= 16).
Proof.
  intros c s W I. exists (vrows (db s)). split; [apply view_vrows; assumption|].
  split; [apply vrows_nodup; exact W|apply vrows_in; exact W].
Qed.

Lemma ent_path c s r : e_path (ent c s r) = r_name r.
Proof. reflexivity. Qed.

(* when no live name is deeper than 16 levels, the paths of the walk are the live names, each once *)
Corollary T13_view_all : forall c s, wf_tree (db s) -> idx_plain (db s) ->
  (forall r, In r (lrows (db s)) -> slash_count (r_name r) <= 16) ->
  Permutation (map e_path (view c s)) (map r_name (lrows (db s))) /\ NoDup (map e_path (view c s)).
Proof.
  intros c s W I Hd. destruct (T13_view_exact c s W I) as (l & E & Hnd & Hin).
  assert (P : Permutation l (lrows (db s))).
  { apply NoDup_Permutation; [exact Hnd|destruct W as (W1 & _); apply NoDup_map_inv in W1; exact W1|].
    intro r. rewrite Hin. split; [tauto|]. intro K. split; [exact K|apply Hd; exact K]. }
  rewrite E, map_map. rewrite (map_ext _ r_name) by (intro; apply ent_path).
  split; [apply Permutation_map; exact P|].
  destruct W as (W1 & _). eapply Permutation_NoDup; [|exact W1]. apply Permutation_map. apply Permutation_sym. exact P.
Qed.

Print Assumptions T13_view_exact.
