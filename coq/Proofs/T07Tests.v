(* T07 / tests: the C07 statement evaluated on concrete histories, for every prefix length j. *)
From Coq Require Import String List NArith ZArith Bool.
Import ListNotations.
From STFS Require Import Str Db Tape Index Ops Fs Diff Prefix Replay.
Open Scope N_scope.
Open Scope string_scope.

Definition tcfg (rs : N) : cfg := {| c_rs := rs; c_csuf := []; c_esuf := []; c_readonly := false; c_uid := 0; c_gid := 0; c_uname := s "root"; c_gname := s "0" |}.
Definition e0 (n : Z) : env := {| ev_hb := []; ev_enc := []; ev_now := n |}.

Definition c07_check (c : cfg) (h : list (call * env)) : bool * nat :=
  let t := tp (final c init_sys h) in
  (forallb (fun j => let '(p, r) := replay_into c t (prefix_index c t j) in
                    res_ok r && eqb_list eqb_row (visible p) (visible (fst (rebuild c t))))
          (seq 0 (S (length (all_members t)))), length (all_members t)).

(* renames onto deleted names, rename then chmod, remove then re-create *)
Definition h1 : list (call * env) :=
  [(CInitialize (s "/"), e0 1); (CMkdir (s "/a") 493, e0 2); (CCreateFile (s "/a/f") [(1, 0, 700)], e0 3);
   (CRemove (s "/a/f"), e0 4); (CCreateFile (s "/g") [(2, 0, 10)], e0 5); (CRename (s "/g") (s "/a/f"), e0 6);
   (CChmod (s "/a/f") 384, e0 7); (CRename (s "/a") (s "/c"), e0 8); (CRemoveAll (s "/c"), e0 9); (CMkdir (s "/c") 448, e0 10);
   (CCreateFile (s "/c/f") [(3, 0, 5)], e0 11); (CRename (s "/c/f") (s "/g"), e0 12); (CCreateFile (s "/g") [(4,0,9)], e0 13)].
Example t1 : c07_check (tcfg 3) h1 = (true, 18%nat). Proof. vm_compute. reflexivity. Qed.

(* directory renames with children; rename back; swap through a temporary *)
Definition h2 : list (call * env) :=
  [(CInitialize (s "/"), e0 1); (CMkdirAll (s "/a/b/c") 493, e0 2); (CCreateFile (s "/a/b/c/f") [(1, 0, 10)], e0 3);
   (CCreateFile (s "/a/x") [], e0 4); (CRename (s "/a") (s "/z"), e0 5); (CMkdir (s "/a") 493, e0 6);
   (CRename (s "/z/b") (s "/a/b"), e0 7); (CRename (s "/z") (s "/t"), e0 8); (CRename (s "/a") (s "/z"), e0 9);
   (CRename (s "/t") (s "/a"), e0 10); (CChmod (s "/") 448, e0 11); (CChown (s "/z/b/c/f") 5 6, e0 12);
   (CRemoveAll (s "/z"), e0 13); (CRename (s "/a/x") (s "/z"), e0 14); (CChtimes (s "/z") 5 6, e0 15)].
Example t2 : fst (c07_check (tcfg 1) h2) = true. Proof. vm_compute. reflexivity. Qed.
Example t2' : fst (c07_check (tcfg 20) h2) = true. Proof. vm_compute. reflexivity. Qed.

(* rename onto an existing file (remove + move), rename onto an existing empty directory, writes *)
Definition h3 : list (call * env) :=
  [(CInitialize (s "/"), e0 1); (CCreateFile (s "/f") [(1, 0, 10)], e0 2); (CCreateFile (s "/g") [(2, 0, 20)], e0 3);
   (CRename (s "/f") (s "/g"), e0 4); (CMkdir (s "/d") 493, e0 5); (CMkdir (s "/e") 493, e0 6);
   (CCreateFile (s "/d/k") [(3, 0, 1)], e0 7); (CRename (s "/d") (s "/e"), e0 8); (CCreateFile (s "/e/k") [(4, 0, 2)], e0 9);
   (CCreateFile (s "/f") [], e0 10); (CRename (s "/g") (s "/f"), e0 11); (CRemove (s "/f"), e0 12);
   (CCreateFile (s "/f") [(5,0,3)], e0 13); (CInitialize (s "/"), e0 14); (CReopen, e0 15); (CMkdirAll (s "/") 1, e0 16);
   (CRename (s "/e/k") (s "/k"), e0 17); (CRename (s "/k") (s "/e/k"), e0 18)].
Example t3 : fst (c07_check (tcfg 4) h3) = true. Proof. vm_compute. reflexivity. Qed.
