(* T22 / the four operation-level calls (CArchive / CUpdate / CDelete / CMove) preserve the state invariants under
   [op_call_ok]:  [T22_step_ok] for the C01 invariant [Inv true] (the statement asked for), [T22_step_ok2] for the
   C01 + T07 invariants [OKs2] = [Inv true /\ hbok /\ TWs] (what the history theorems use). *)
From Coq Require Import List NArith ZArith Bool Lia.
From Coq Require Import ZifyN ZifyBool.
Import ListNotations.
From STFS Require Import Str Db Tape Index Ops Fs Diff Prefix Replay Norm TapeLemmas
  C01Str C01Db C01Inv C01Sim C01Tape C01Hdr C01Ops C01Ops2 C01Reads C01Fs C01Fs2 C01Rows
  T07Look T07Core T07Sim T07Inv T07Fs T22Def T22Append T22Ops.
Open Scope N_scope.

(* ---------- reflection of the boolean preconditions *)
Lemma arch_hdr_okb_ok h : arch_hdr_okb h = true -> arch_ok h.
Proof.
  unfold arch_hdr_okb. intro H. apply andb_true_iff in H as [H C]. apply andb_true_iff in H as [A B].
  split; [apply name_okb_facts; exact A|]. split; [apply act_createb_act; exact B|apply ver_okb_ver; exact C].
Qed.

Lemma arch_batch_ok fs : forallb (fun f => arch_hdr_okb (f_hdr f)) fs = true -> Forall (fun f => arch_ok (f_hdr f)) fs.
Proof.
  intro H. apply Forall_forall. intros f Hf. rewrite forallb_forall in H. apply arch_hdr_okb_ok. apply H. exact Hf.
Qed.

Lemma upd_src_okb_ok p replace n : upd_src_okb p replace n = true -> src_ok p replace n.
Proof.
  unfold upd_src_okb, src_ok. intro H. apply orb_true_iff in H as [H|H]; [left; exact H|].
  apply andb_true_iff in H as [A B]. right. split; assumption.
Qed.

Lemma upd_batch_ok p replace fs : forallb (fun f => upd_hdr_okb p replace (f_hdr f)) fs = true ->
  Forall (fun f => name_ok (f_hdr f) /\ src_ok p replace (h_name (f_hdr f))) fs.
Proof.
  intro H. apply Forall_forall. intros f Hf. rewrite forallb_forall in H. specialize (H f Hf).
  unfold upd_hdr_okb in H. apply andb_true_iff in H as [A B].
  split; [apply name_okb_facts; exact A|apply upd_src_okb_ok; exact B].
Qed.

Lemma op_call_ok_env s e k : op_call_ok (with_env s e) k = op_call_ok s k.
Proof. destruct k; reflexivity. Qed.

(* ---------- Delete of a name in any spelling: the operation only looks the name up through the index *)
Lemma get_header_san hr lv n : LI hr lv ->
  get_header lv n = (lv, match find_rows (rows lv) (san n) with Some r => Ok r | None => NoRows end).
Proof. intro HL. rewrite get_header_form, (san_spec lv n (li_root hr lv HL)). reflexivity. Qed.

Lemma delete_op_san hr c s n : LI hr (db s) -> good (san n) -> delete_op c s n = delete_op c s (san n).
Proof.
  intros HL G.
  assert (EC : get_children (db s) n = get_children (db s) (san n)).
  { unfold get_children. rewrite (san_spec (db s) n (li_root hr _ HL)), (sanitize_lv hr (db s) (san n) HL G). reflexivity. }
  unfold delete_op, lookup_entry.
  rewrite (get_header_san hr (db s) n HL), (get_header_lv hr (db s) (san n) HL G).
  destruct (find_rows (rows (db s)) (san n)) as [r|].
  - rewrite EC. reflexivity.
  - rewrite !(gh_link_none hr (db s) _ HL). reflexivity.
Qed.

Lemma delete_op_refused hr c s n : LI hr (db s) -> ~ good (san n) -> delete_op c s n = (s, ONotExist).
Proof.
  intros HL NG. unfold delete_op, lookup_entry. rewrite (get_header_san hr (db s) n HL).
  destruct (find_rows (rows (db s)) (san n)) as [r|] eqn:Ef.
  - exfalso. apply NG. destruct (find_rows_some _ _ _ Ef) as (Hin & _ & Hrn).
    assert (Hrows : Forall rowok (rows (db s))) by apply HL. rewrite Forall_forall in Hrows.
    rewrite <- Hrn. apply (Hrows r Hin).
  - rewrite (gh_link_none hr (db s) n HL). rewrite set_db_same. reflexivity.
Qed.

Section Step.
Variable c : cfg.
Hypothesis HP : plain c.
Hypothesis Hrs : 0 < c_rs c.
Hypothesis Hro : c_readonly c = false.

(* C01 invariant *)
Lemma op_step_ok s k : Inv true c s -> hbok s -> op_call_ok s k = true ->
  exists s' o, step c s k = (s', o) /\ Inv true c s' /\ hbok s'.
Proof.
  intros HI Hhb Hk. destruct k; cbn [op_call_ok] in Hk; try discriminate; cbn [step].
  - rewrite Hro. destruct (archive_ok c HP Hrs s fs HI Hhb (arch_batch_ok fs Hk)) as (s' & E & A & B).
    exists s', OOk. split; [exact E|split; assumption].
  - destruct (update_ok_batch c HP Hrs s fs replace false HI Hhb (upd_batch_ok (db s) replace fs Hk)) as (s' & E & A & B).
    exists s', OOk. split; [exact E|split; assumption].
  - pose proof (iv_li true c s HI) as HL. destruct (san_cases n) as [G|[Es NG]]; [|rewrite <- Es in NG].
    + rewrite (delete_op_san true c s n HL G).
      apply (delete_ok true c HP Hrs s (san n) HI Hhb G). intros _. apply nonrootb_ne. exact Hk.
    + rewrite (delete_op_refused true c s n HL NG). eexists _, _. split; [reflexivity|split; assumption].
  - destruct (eqb_str a b) eqn:Eab.
    + unfold move_op. rewrite Eab. eexists _, _. split; [reflexivity|split; assumption].
    + cbn [orb] in Hk. apply andb_true_iff in Hk as [Hk Hb]. apply andb_true_iff in Hk as [Hk Ha].
      apply andb_true_iff in Hk as [Ga Gb].
      apply (move_ok true c HP Hrs a b (goodb_good a Ga) (goodb_good b Gb) (nonrootb_ne a Ha) (nonrootb_ne b Hb)); try assumption.
      apply eqb_str_neq. exact Eab.
Qed.

(* C01 + T07 invariants *)
Lemma op_step_ok2 s k : OKs2 c s -> op_call_ok s k = true ->
  exists s' o, step c s k = (s', o) /\ OKs2 c s'.
Proof.
  intros [HI HH] Hk. destruct k; cbn [op_call_ok] in Hk; try discriminate; cbn [step].
  - rewrite Hro. destruct (archive_ok2 c HP Hrs s fs HI HH (arch_batch_ok fs Hk)) as (s' & E & A & B).
    exists s', OOk. split; [exact E|split; assumption].
  - destruct (update_ok2_batch c HP Hrs s fs replace false HI HH (upd_batch_ok (db s) replace fs Hk)) as (s' & E & A & B).
    exists s', OOk. split; [exact E|split; assumption].
  - pose proof (iv_li true c s HI) as HL. destruct (san_cases n) as [G|[Es NG]]; [|rewrite <- Es in NG].
    + rewrite (delete_op_san true c s n HL G).
      destruct (delete_ok2 c HP Hrs s (san n) HI HH G) as (s' & o & E & A & B).
      { intros _. apply nonrootb_ne. exact Hk. }
      exists s', o. split; [exact E|split; assumption].
    + rewrite (delete_op_refused true c s n HL NG). eexists _, _. split; [reflexivity|split; assumption].
  - destruct (eqb_str a b) eqn:Eab.
    + unfold move_op. rewrite Eab. eexists _, _. split; [reflexivity|split; assumption].
    + cbn [orb] in Hk. apply andb_true_iff in Hk as [Hk Hb]. apply andb_true_iff in Hk as [Hk Ha].
      apply andb_true_iff in Hk as [Ga Gb].
      destruct (move_ok2 c HP Hrs a b (goodb_good a Ga) (goodb_good b Gb) (nonrootb_ne a Ha) (nonrootb_ne b Hb)
                  ltac:(apply eqb_str_neq; exact Eab) s HI HH) as (s' & o & E & A & B).
      exists s', o. split; [exact E|split; assumption].
Qed.

(* one call of a mixed history *)
Lemma mixed_step_ok2 s k : OKs2 c s -> call_ok22 s k = true ->
  exists s' o, step c s k = (s', o) /\ OKs2 c s'.
Proof.
  intros HO Hk. unfold call_ok22 in Hk. destruct (op_call k) eqn:Eop.
  - apply op_step_ok2; assumption.
  - apply andb_true_iff in Hk as [K1 K2]. unfold call_ok in K2. apply andb_true_iff in K2 as [K2a K2b].
    apply (step_ok2 c HP Hrs Hro); assumption.
Qed.

Lemma hbok_of_hb_ok s k e : hb_ok (k, e) = true -> hbok (with_env s e).
Proof. intro H. apply (hbok_env c Hrs). exact H. Qed.
End Step.

(* ---------- the statement of TASK.md *)
Theorem T22_step_ok : forall c s k e,
  0 < c_rs c -> c_readonly c = false -> c_csuf c = [] -> c_esuf c = [] ->
  Inv true c s -> op_call_ok s k = true -> hb_ok (k, e) = true ->
  Inv true c (fst (step c (with_env s e) k)).
Proof.
  intros c s k e Hrs Hro Hc He HI Hk Hhb.
  assert (HP : plain c) by (split; assumption).
  assert (HI' : Inv true c (with_env s e)) by (eapply Inv_ext; [| |exact HI]; reflexivity).
  rewrite <- (op_call_ok_env s e k) in Hk.
  destruct (op_step_ok c HP Hrs Hro (with_env s e) k HI' (hbok_of_hb_ok c Hrs s k e Hhb) Hk) as (s' & o & E & A & _).
  rewrite E. exact A.
Qed.

(* with the tape invariant of T07 *)
Theorem T22_step_ok2 : forall c s k e,
  0 < c_rs c -> c_readonly c = false -> c_csuf c = [] -> c_esuf c = [] ->
  Inv true c s -> TWs c s -> op_call_ok s k = true -> hb_ok (k, e) = true ->
  Inv true c (fst (step c (with_env s e) k)) /\ TWs c (fst (step c (with_env s e) k)).
Proof.
  intros c s k e Hrs Hro Hc He HI HT Hk Hhb.
  assert (HP : plain c) by (split; assumption).
  assert (HO : OKs2 c (with_env s e)).
  { split; [eapply Inv_ext; [| |exact HI]; reflexivity|].
    split; [apply (hbok_of_hb_ok c Hrs s k e Hhb)|eapply TWs_ext; [| |exact HT]; reflexivity]. }
  rewrite <- (op_call_ok_env s e k) in Hk.
  destruct (op_step_ok2 c HP Hrs Hro (with_env s e) k HO Hk) as (s' & o & E & A & _ & B).
  rewrite E. split; assumption.
Qed.

Print Assumptions T22_step_ok.
Print Assumptions T22_step_ok2.
