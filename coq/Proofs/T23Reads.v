(* T23 / Reads: what the two instances SHOW.  inventory.Stat / List at the level of whole states, Restore's lookup
   (read_path), the walk and the view: the named instance, walked from its stored root "top", shows exactly the entries
   the twin shows walked from "/", contents included, under the renamed paths ([ren_entry]).  Any configuration. *)
From Coq Require Import List NArith ZArith Bool Lia.
From Coq Require Import ZifyN ZifyBool.
Import ListNotations.
From STFS Require T19Base T19Db T19Reads.
From STFS Require Import Str Db Tape Index Ops Fs Diff Norm StrLemmas C01Str C01Db C01Inv C01Sim C01Ops C01Ops2 C01Reads
  T13Path T13ListStr T17Str T17Db T17Tree T23Rel T23Base T23Db.
Open Scope N_scope.
Set Default Proof Using "All".

Lemma flat_map_F2m {A B C D} (P : A -> B -> Prop) (m : C -> D) (f : A -> list C) (g : B -> list D) la lr :
  Forall2 P la lr -> (forall a r, In a la -> P a r -> g r = map m (f a)) -> flat_map g lr = map m (flat_map f la).
Proof.
  induction 1 as [|a r la lr Har _ IH]; intro H; cbn [flat_map]; [reflexivity|].
  rewrite map_app, (H a r (or_introl eq_refl) Har). f_equal. apply IH. intros x y Hx. apply H. right. exact Hx.
Qed.

Section Top.
Variable top : str.
Hypothesis Htop : okc top.

Notation psi := (psi top).
Notation rowrel := (rowrel top).
Notation hrel := (hrel top).
Notation rows_rel := (rows_rel top).
Notation prel := (prel top).
Notation PR := (PR top top).
Notation ren_entry := (ren_entry top).
Notation top_nonempty := (T23Base.top_nonempty top Htop).
Notation psi_root := (T23Base.psi_root top Htop).
Notation psi_pth := (T23Base.psi_pth top Htop).
Notation psi_good := (T23Base.psi_good top Htop).
Notation psi_nonroot := (T23Base.psi_nonroot top Htop).
Notation psi_inj := (T23Base.psi_inj top Htop).
Notation psi_eqb := (T23Base.psi_eqb top Htop).
Notation tcs_okc := (T23Base.tcs_okc top Htop).
Notation psi_not_abs := (T23Base.psi_not_abs top Htop).
Notation psi_nonempty := (T23Base.psi_nonempty top Htop).
Notation psi_is_root := (T23Base.psi_is_root top Htop).
Notation psi_clean := (T23Base.psi_clean top Htop).
Notation psi_trim_slash := (T23Base.psi_trim_slash top Htop).
Notation vrel_refl := (T23Base.vrel_refl top Htop).
Notation pax_rel_nil := (T23Base.pax_rel_nil top Htop).
Notation pax_get_rel := (T23Base.pax_get_rel top Htop).
Notation pax_get_rel_rn := (T23Base.pax_get_rel_rn top Htop).
Notation pax_set_rel := (T23Base.pax_set_rel top Htop).
Notation pax_set_rel_eq := (T23Base.pax_set_rel_eq top Htop).
Notation pax_del_rel := (T23Base.pax_del_rel top Htop).
Notation pax_rel_fun := (T23Base.pax_rel_fun top Htop).
Notation hrel_of_rowrel := (T23Base.hrel_of_rowrel top Htop).
Notation rowrel_of_hrel := (T23Base.rowrel_of_hrel top Htop).
Notation rowrel_set_lk := (T23Base.rowrel_set_lk top Htop).
Notation rowrel_set_name := (T23Base.rowrel_set_name top Htop).
Notation rowrel_fun := (T23Base.rowrel_fun top Htop).
Notation rows_rel_fun := (T23Base.rows_rel_fun top Htop).
Notation hrel_wsn := (T23Base.hrel_wsn top Htop).
Notation hrel_wsn_self := (T23Base.hrel_wsn_self top Htop).
Notation hrel_set_pax := (T23Base.hrel_set_pax top Htop).
Notation keep_size_rel := (T23Base.keep_size_rel top Htop).
Notation hrel_patch_mode := (T23Base.hrel_patch_mode top Htop).
Notation hrel_patch_owner := (T23Base.hrel_patch_owner top Htop).
Notation hrel_patch_times := (T23Base.hrel_patch_times top Htop).
Notation hrel_stamp := (T23Base.hrel_stamp top Htop).
Notation rowrel_name_eqb := (T23Base.rowrel_name_eqb top Htop).
Notation rowrel_key_eq := (T23Base.rowrel_key_eq top Htop).
Notation rowrel_live := (T23Base.rowrel_live top Htop).
Notation last_indexed_rel := (T23Base.last_indexed_rel top Htop).
Notation PR_rowok := (T23Db.PR_rowok top Htop).
Notation PR_good_r := (T23Db.PR_good_r top Htop).
Notation prel_with := (T23Db.prel_with top Htop).
Notation sanitize_wr := (T23Db.sanitize_wr top Htop).
Notation sanitize_top := (T23Db.sanitize_top top Htop).
Notation sanitize_nil := (T23Db.sanitize_nil top Htop).
Notation sanitize_rd := (T23Db.sanitize_rd top Htop).
Notation psi_slash_not_root := (T23Db.psi_slash_not_root top Htop).
Notation sanitize_rd_slash := (T23Db.sanitize_rd_slash top Htop).
Notation min_link_rel := (T23Db.min_link_rel top Htop).
Notation find_rows_rel := (T23Db.find_rows_rel top Htop).
Notation get_header_wr := (T23Db.get_header_wr top Htop).
Notation get_header_rd := (T23Db.get_header_rd top Htop).
Notation find_rel := (T23Db.find_rel top Htop).
Notation find_rows_trailing_rd := (T23Db.find_rows_trailing_rd top Htop).
Notation get_header_slash_rd := (T23Db.get_header_slash_rd top Htop).
Notation find_rows_row := (T23Db.find_rows_row top Htop).
Notation inv_stat_false_wr := (T23Db.inv_stat_false_wr top Htop).
Notation inv_stat_false_rd := (T23Db.inv_stat_false_rd top Htop).
Notation stat_res_rel := (T23Db.stat_res_rel top Htop).
Notation links_nil := (T23Db.links_nil top Htop).
Notation gh_link_rd := (T23Db.gh_link_rd top Htop).
Notation inv_stat_true_rd := (T23Db.inv_stat_true_rd top Htop).
Notation lookup_entry_wr := (T23Db.lookup_entry_wr top Htop).
Notation lookup_entry_rd := (T23Db.lookup_entry_rd top Htop).
Notation psi_pth_app := (T23Db.psi_pth_app top Htop).
Notation kid_filter_rel := (T23Db.kid_filter_rel top Htop).
Notation get_children_wr := (T23Db.get_children_wr top Htop).
Notation get_children_rd := (T23Db.get_children_rd top Htop).
Notation kids_rel := (T23Db.kids_rel top Htop).
Notation direct_pred_rel := (T23Db.direct_pred_rel top Htop).
Notation gdc_wr := (T23Db.gdc_wr top Htop).
Notation gdc_rd := (T23Db.gdc_rd top Htop).
Notation inv_list_wr := (T23Db.inv_list_wr top Htop).
Notation inv_list_rd := (T23Db.inv_list_rd top Htop).
Notation replace_row_rel := (T23Db.replace_row_rel top Htop).
Notation has_key_rel := (T23Db.has_key_rel top Htop).
Notation upsert_rows_rel := (T23Db.upsert_rows_rel top Htop).
Notation move_list_rel := (T23Db.move_list_rel top Htop).

(* the root row is found by name *)
Lemma find_root pa pr : PR pa pr -> exists d, find_rows (rows pa) [slash] = Some d.
Proof.
  intro H. apply find_rows_live. pose proof (PR_li _ _ _ _ H) as [_ _ [_ _ Hh]]. destruct (Hh eq_refl) as (a0 & ta & E & N & D).
  unfold live_name. rewrite E. cbn [existsb]. unfold live. rewrite D, N. reflexivity.
Qed.

Lemma find_root_rd pa pr : PR pa pr -> exists d, find_rows (rows pr) top = Some d.
Proof.
  intro H. destruct (find_root pa pr H) as (d & Ed). pose proof (find_rel top pa pr [slash] H good_root) as K. rewrite Ed in K.
  rewrite psi_root in K. inversion K; subst. eexists. reflexivity.
Qed.

(* "." (the parent of "top") resolves to the stored root *)
Lemma get_header_dot pr : root pr = top -> get_header pr [dot] = get_header pr top.
Proof.
  intro Hr. rewrite !get_header_form.
  assert (E1 : sanitize pr [dot] = (pr, top)).
  { rewrite sanitize_named by (rewrite Hr; exact Htop). cbn [is_root_name eqb_str orb]. rewrite Hr. reflexivity. }
  assert (E2 : sanitize pr top = (pr, top)).
  { rewrite sanitize_named by (rewrite Hr; exact Htop). rewrite Hr, eqb_str_refl, orb_true_r. reflexivity. }
  rewrite E1, E2. reflexivity.
Qed.

Lemma inv_stat_dot pa pr : PR pa pr -> inv_stat pr [dot] false = inv_stat pr top false.
Proof.
  intro H. unfold inv_stat. rewrite (get_header_dot pr (pr_root_r _ _ _ _ (PR_rel _ _ _ _ H))).
  pose proof (get_header_rd top pa pr [slash] (or_introl eq_refl) H good_root) as E. rewrite psi_root in E. rewrite E.
  destruct (find_root_rd pa pr H) as (d & Ed). rewrite Ed. reflexivity.
Qed.

(* the parent directory of a name, on the named spelling *)
Lemma path_dir_join sc x : sc <> [] -> Forall okc sc -> okc x -> path_dir (join_slash (sc ++ [x])) = join_slash sc.
Proof.
  intros Hn H Hx. unfold path_dir. rewrite join_snoc by exact Hn. rewrite upto_last_slash_app by (apply okc_ns; exact Hx).
  apply path_clean_rel_trailing; assumption.
Qed.

Lemma path_dir_top : path_dir top = [dot].
Proof.
  unfold path_dir, upto_last_slash. rewrite last_slash_aux_noslash by (apply okc_ns; exact Htop). reflexivity.
Qed.

Lemma path_dir_psi g : good g -> g <> [slash] -> path_dir (psi g) = psi (path_dir g).
Proof.
  intros G Hg. destruct (good_split g G Hg) as (cs & x & Hcs & Hx & ->).
  rewrite (path_dir_pth cs x Hcs Hx).
  rewrite (psi_pth (cs ++ [x])) by (apply Forall_app; split; [exact Hcs|constructor; [exact Hx|constructor]]).
  rewrite (psi_pth cs Hcs). change (top :: cs ++ [x]) with ((top :: cs) ++ [x]).
  apply path_dir_join; [discriminate|apply tcs_okc; exact Hcs|exact Hx].
Qed.

Lemma inv_stat_parent pa pr g : PR pa pr -> good g -> inv_stat pr (path_dir (psi g)) false = inv_stat pr (psi (path_dir g)) false.
Proof.
  intros H G. destruct (str_eq_dec g [slash]) as [->|Hg].
  - rewrite psi_root, path_dir_top. change (path_dir [slash]) with [slash]. rewrite psi_root. apply (inv_stat_dot pa pr H).
  - rewrite (path_dir_psi g G Hg). reflexivity.
Qed.

(* ---------- Restore's lookup and fetch *)
Section Read.
Variable c : cfg.

Lemma read_path_sim sa sr g : PR (db sa) (db sr) -> tape_rel (tp sa) (tp sr) -> good g ->
  snd (read_path c sr (psi g)) = snd (read_path c sa g) /\ fst (read_path c sr (psi g)) = sr.
Proof.
  intros H Ht G. unfold read_path. rewrite (psi_trim_slash g G).
  assert (Ka : (match get_header (db sa) (trim_suffix [slash] g) with
                | (p, NoRows) => get_header p (trim_suffix [slash] g ++ [slash]) | x => x end)
               = (db sa, of_find (find_rows (rows (db sa)) g))).
  { destruct (str_eq_dec g [slash]) as [->|Hg].
    - rewrite root_trim_slash. rewrite (T19Reads.get_header_nil_wr _ (pr_root_a _ _ _ _ (PR_rel _ _ _ _ H))).
      rewrite (get_header_wr top _ _ [slash] H good_root). destruct (find_root _ _ H) as (d & Ed). rewrite Ed. reflexivity.
    - rewrite (good_trim_slash g G Hg), (get_header_wr top _ _ g H G).
      destruct (find_rows (rows (db sa)) g) as [d|] eqn:Ed; [reflexivity|]. cbn [of_find].
      pose proof (T19Db.get_header_slash_wr (db sa) (canon19 (db sa)) g (PR19 _ (PR_li _ _ _ _ H)) G Ed) as W.
      rewrite (good_trim_slash g G Hg) in W. exact W. }
  assert (Kr : (match get_header (db sr) (psi g) with
                | (p, NoRows) => get_header p (psi g ++ [slash]) | x => x end)
               = (db sr, of_find (find_rows (rows (db sr)) (psi g)))).
  { rewrite (get_header_rd top _ _ g (or_introl eq_refl) H G).
    destruct (find_rows (rows (db sr)) (psi g)) as [d|] eqn:Ed; [reflexivity|]. cbn [of_find].
    exact (get_header_slash_rd _ _ g H G). }
  rewrite Ka, Kr. pose proof (find_rel top _ _ g H G) as HR.
  destruct (find_rows (rows (db sa)) g) as [d|]; inversion HR as [|? d' Hd]; subst; cbn [of_find]; rewrite ?set_db_same; [|split; reflexivity].
  rewrite (rr_rec _ _ _ Hd), (rr_blk _ _ _ Hd), (fetch_at_rel c _ _ (r_rec d) (r_blk d) Ht).
  destruct (fetch_at c (tp sa) (r_rec d) (r_blk d)); split; reflexivity.
Qed.

Lemma entry_of_sim sa sr path ha hr : PR (db sa) (db sr) -> tape_rel (tp sa) (tp sr) -> good (h_name ha) -> hrel ha hr ->
  entry_of c sr (psi path) hr = ren_entry (entry_of c sa path ha).
Proof.
  intros H Ht G Hh. unfold entry_of, T23Rel.ren_entry. cbn [e_path e_tf e_size e_mode e_uid e_gid e_mtime e_link e_data].
  rewrite (hr_tf _ _ _ Hh), (hr_size _ _ _ Hh), (hr_mode _ _ _ Hh), (hr_uid _ _ _ Hh), (hr_gid _ _ _ Hh), (hr_mtime _ _ _ Hh), (hr_link _ _ _ Hh).
  f_equal. destruct (tf_regular (h_tf ha)); [|reflexivity].
  destruct (read_path_sim sa sr (h_name ha) H Ht G) as (K & _). rewrite <- (hr_name _ _ _ Hh) in K.
  destruct (read_path c sr (h_name hr)) as [x1 y1]. destruct (read_path c sa (h_name ha)) as [x2 y2]. cbn [snd] in K. subst y1. reflexivity.
Qed.

Lemma childp_facts g a : childp g a = true -> live a = true /\ r_name a <> [slash] /\ path_dir (r_name a) = g.
Proof.
  unfold childp. intro H. apply andb_true_iff in H as [H H3]. apply andb_true_iff in H as [H1 H2]. split; [exact H1|].
  apply negb_true_iff in H2. apply eqb_str_neq in H2. split; [exact H2|]. apply eqb_str_eq. exact H3.
Qed.

Lemma walk_sim sa sr : PR (db sa) (db sr) -> tape_rel (tp sa) (tp sr) ->
  forall fuel dir, good dir -> walk fuel c sr (psi dir) = map ren_entry (walk fuel c sa dir).
Proof.
  intros H Ht. induction fuel as [|f IH]; intros dir G; [reflexivity|]. cbn [walk].
  rewrite (inv_list_wr top _ _ dir H G). destruct (inv_list_rd _ _ dir H G) as (lr & Er & Hrows). rewrite Er.
  pose proof (PR_rowok _ _ _ H) as F. rewrite Forall_forall in F.
  apply (flat_map_F2m hrel); [apply (F2_map rowrel hrel); [exact Hrows|intros; apply hrel_of_rowrel; assumption]|].
  intros ha hr Hin Hh. apply in_map_iff in Hin as (a & <- & Ha). apply filter_In in Ha as [Ha Hc].
  destruct (childp_facts dir a Hc) as (_ & Hnr & Hpd). pose proof (proj1 (F a Ha)) as Ga.
  destruct (good_split _ Ga Hnr) as (cs & x & Hcs & Hx & E).
  assert (Fcx : Forall okc (cs ++ [x])) by (apply Forall_app; split; [exact Hcs|constructor; [exact Hx|constructor]]).
  assert (Ed : dir = pth cs) by (rewrite <- Hpd, E; apply path_dir_pth; assumption).
  assert (Ep : path_join2 (psi dir) (path_base (h_name hr)) = psi (path_join2 dir (path_base (r_name a)))).
  { rewrite (hr_name _ _ _ Hh). cbn [h_name hdr_of_row]. rewrite E, (path_base_pth cs x Hcs Hx), (psi_pth (cs ++ [x]) Fcx).
    change (top :: cs ++ [x]) with ((top :: cs) ++ [x]). rewrite (path_base_join (top :: cs) x (tcs_okc cs Hcs) Hx).
    rewrite Ed, (path_join2_pth cs x Hcs Hx), (psi_pth cs Hcs), (psi_pth (cs ++ [x]) Fcx).
    apply (path_join2_rel (top :: cs) x); [discriminate|apply tcs_okc; exact Hcs|exact Hx]. }
  cbn [h_name hdr_of_row] in *. rewrite Ep. rewrite (hr_tf _ _ _ Hh). cbn [map].
  rewrite (entry_of_sim sa sr _ (hdr_of_row a) hr H Ht Ga Hh). f_equal.
  cbn [h_tf hdr_of_row]. destruct (r_tf a =? TypeDir); [|reflexivity]. apply IH. apply path_join2_good. exact G.
Qed.

(* inventory.Stat at the level of whole states *)
Definition stat_form (sa : sys) (g : str) : res hdr := stat_res (find_rows (rows (db sa)) g).

Lemma stat_false_wr sa sr g : PR (db sa) (db sr) -> good g -> stat_s sa g false = (sa, stat_form sa g).
Proof. intros H G. unfold stat_s. rewrite (inv_stat_false_wr top _ _ g H G), set_db_same. reflexivity. Qed.

Lemma stat_false_rd sa sr g : PR (db sa) (db sr) -> good g -> stat_s sr (psi g) false = (sr, stat_form sr (psi g)).
Proof. intros H G. unfold stat_s. rewrite (inv_stat_false_rd _ _ g H G), set_db_same. reflexivity. Qed.

Lemma stat_form_rel sa sr g : PR (db sa) (db sr) -> good g -> T19Db.resrel hrel (stat_form sa g) (stat_form sr (psi g)).
Proof. intros H G. apply stat_res_rel. apply (find_rel top _ _ g H G). Qed.

Lemma stat_true_wr sa sr g : PR (db sa) (db sr) -> stat_s sa g true = (sa, NoRows).
Proof. intro H. apply (stat_s_true true). exact (PR_li _ _ _ _ H). Qed.

Lemma stat_true_rd sa sr g : PR (db sa) (db sr) -> good g -> stat_s sr (psi g) true = (sr, NoRows).
Proof. intros H G. unfold stat_s. rewrite (inv_stat_true_rd _ _ g H G), set_db_same. reflexivity. Qed.

(* ---------- the visible tree: the walk from "top" against the walk from "/" *)
Theorem view_sim sa sr : PR (db sa) (db sr) -> tape_rel (tp sa) (tp sr) -> view_at c sr top = map ren_entry (view c sa).
Proof.
  intros H Ht. unfold view, view_at.
  pose proof (stat_false_rd sa sr [slash] H good_root) as Er. rewrite psi_root in Er.
  rewrite (stat_false_wr sa sr [slash] H good_root), Er.
  pose proof (stat_form_rel sa sr [slash] H good_root) as HR. rewrite psi_root in HR.
  destruct (find_root _ _ H) as (d & Ed). unfold stat_form in *. rewrite Ed in *. cbn [stat_res] in *. inversion HR as [? hr Hh E1 E2| | |]; subst.
  destruct (find_rows_row _ _ _ _ d H Ed) as (_ & _ & Nm & _ & Hok).
  cbn [map]. rewrite <- psi_root at 1. rewrite (entry_of_sim sa sr _ (hdr_of_row d) hr H Ht (proj1 Hok) Hh). f_equal.
  rewrite (hr_tf _ _ _ Hh). destruct (h_tf (hdr_of_row d) =? TypeDir); [|reflexivity].
  rewrite <- psi_root. apply walk_sim; [exact H|exact Ht|exact good_root].
Qed.
End Read.
End Top.
