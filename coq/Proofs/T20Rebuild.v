(* T20 / Rebuild: the rebuild of the twin's tape gives the rows of the foreign index (= the twin's rows normalised),
   stored root "", and the root-empty flag cached unless the archive holds nothing but its top entry. *)
From Coq Require Import List NArith ZArith Bool Lia.
From Coq Require Import ZifyN ZifyBool.
Import ListNotations.
From STFS Require Import Str Db Tape Index Ops Fs Diff Norm TapeLemmas StrLemmas C01Str C01Db C01Sim C01Tape
  T13Path T17Tree T17Str T17Forest T17Db T17Rebuild T17View T20Twin.
Open Scope N_scope.

(* ---------- the twin's tape has the block layout of the archive *)
Definition twin_items (st : style) (l : list item) : tape := map (fun i => TM (twin_member st i)) l.

Lemma item_blocks_twin st i : item_blocks (TM (twin_member st i)) = iblocks i.
Proof. reflexivity. Qed.

Lemma tape_blocks_twin st l : tape_blocks (twin_items st l) = fold_right (fun i s => iblocks i + s) 0 l.
Proof. induction l as [|i l IH]; [reflexivity|]. cbn [twin_items map tape_blocks fold_right]. rewrite item_blocks_twin.
  f_equal. exact IH. Qed.

Lemma tape_blocks_twin_items st l : tape_blocks (twin_items st l) = tape_blocks (tape_items st l).
Proof. rewrite tape_blocks_twin, tape_blocks_items. reflexivity. Qed.

Lemma with_starts_twin st l : forall a suf,
  with_starts (twin_items st l ++ suf) a
  = map (fun x => (fst x, TM (twin_member st (snd x)))) (istarts a l) ++ with_starts suf (a + tape_blocks (twin_items st l)).
Proof.
  induction l as [|i l IH]; intros a suf.
  - cbn. rewrite N.add_0_r. reflexivity.
  - cbn [twin_items map app with_starts istarts fst snd]. fold (twin_items st l). rewrite IH. rewrite item_blocks_twin.
    cbn [tape_blocks fold_right]. fold (tape_blocks (twin_items st l)). rewrite item_blocks_twin. rewrite N.add_assoc. reflexivity.
Qed.

Lemma pos_items_twin st l : (forall i, In i l -> 1 <= mt_hb (i_meta i)) -> pos_items (twin_items st l).
Proof.
  intro H. apply Forall_forall. intros x Hx. apply in_map_iff in Hx as (i & <- & Hi). rewrite item_blocks_twin.
  unfold iblocks. specialize (H i Hi). lia.
Qed.

Lemma members_from_twin st l : l <> [] ->
  members_from (twin_items st l ++ [TT]) 0 = Some (map (fun x => (fst x, twin_member st (snd x))) (istarts 0 l)).
Proof.
  intro Hn. unfold members_from. rewrite with_starts_twin.
  assert (E : existsb (fun p => fst p =? 0) (map (fun x => (fst x, TM (twin_member st (snd x)))) (istarts 0 l) ++
               with_starts [TT] (0 + tape_blocks (twin_items st l))) = true).
  { destruct l as [|i l]; [contradiction|]. reflexivity. }
  rewrite E, orb_true_r. f_equal. rewrite flat_map_app. cbn [with_starts flat_map snd app]. rewrite app_nil_r.
  generalize (istarts 0 l). intro L. induction L as [|x L IH]; [reflexivity|]. cbn [map flat_map snd fst app].
  rewrite IH. replace (0 <=? fst x) with true by (symmetry; apply N.leb_le; lia). reflexivity.
Qed.

(* ---------- getSanitizedPath on the twin's names *)
Lemma is_root_abs2 y r : is_root_name (slash :: y :: r) = false.
Proof. unfold is_root_name. destruct r; reflexivity. Qed.

(* an absolute non-root name during the replay: the flag is cached (the root row is there), the slash stripped *)
Lemma sanitize_abs_replay p n : root p = [] -> is_abs n = true -> is_root_name n = false ->
  (root_empty p = false -> exists_exact p [] = true) ->
  exists p', sanitize p n = (p', path_join2 [] (trim_prefix [slash] n)) /\ rows p' = rows p /\ root p' = [] /\ root_empty p' = true.
Proof.
  intros Hr Ha Hn He. unfold sanitize. rewrite Hn, Hr.
  assert (E2 : eqb_str n [] = false) by (destruct n; [discriminate Ha|reflexivity]).
  rewrite E2. cbn [orb eqb_str andb]. rewrite Ha. cbn [andb].
  destruct (root_empty p) eqn:Ere; cbn [negb].
  - cbv beta iota zeta. rewrite ?Hr. cbn [is_abs andb eqb_str]. exists p. repeat split; assumption.
  - rewrite (He eq_refl). cbv beta iota zeta. cbn [root rows root_empty]. rewrite ?Hr. cbn [is_abs andb eqb_str]. eexists. repeat split; reflexivity.
Qed.

Lemma twin_name_top st i : style_root st = [] -> i_path i = [] -> is_root_name (twin_name st i) = true /\ stored_name st (i_path i) = [].
Proof.
  intros Hs E. unfold twin_name, tape_name, stored_name. rewrite E.
  destruct st; [| |cbn in Hs]; cbn [style_prefix stored_comps join_slash app].
  - destruct (i_dir i); split; reflexivity.
  - destruct (i_dir i); split; reflexivity.
  - subst top. destruct (i_dir i); split; reflexivity.
Qed.

Lemma twin_name_member st i : wf_style st -> style_root st = [] -> Forall okc (i_path i) -> i_path i <> [] ->
  is_abs (twin_name st i) = true /\ is_root_name (twin_name st i) = false /\
  path_join2 [] (trim_prefix [slash] (twin_name st i)) = stored_name st (i_path i) /\
  (tape_name st i = twin_name st i \/ tape_name st i = norm_name (twin_name st i)).
Proof.
  intros Hs Hr Hok Hne. pose proof (rel_tape_name st i Hs Hok) as Hrel.
  unfold twin_name. destruct (i_path i) as [|a r] eqn:Ep; [contradiction|].
  destruct (join_cons_char (a :: r) ltac:(discriminate) Hok) as (x & t & E & Ex).
  unfold tape_name in *. rewrite Ep in *. set (tl := if i_dir i then [slash] else []) in *.
  replace (if i_dir i then match a :: r with [] => [] | _ :: _ => [slash] end else []) with tl in * by (unfold tl; destruct (i_dir i); reflexivity).
  rewrite E in *. destruct st; [| |cbn in Hr; destruct Hs as (K & _); contradiction]; cbn [style_prefix app] in *.
  - change (is_abs (dot :: slash :: x :: t ++ tl)) with false. cbv iota.
    split; [reflexivity|]. split; [apply is_root_long|]. split; [|right; reflexivity].
    rewrite trim_prefix_slash. unfold rel_name in Hrel. rewrite is_root_long in Hrel. exact Hrel.
  - change (is_abs (slash :: x :: t ++ tl)) with true. cbv iota.
    split; [reflexivity|]. split; [apply is_root_abs2|]. split; [|left; reflexivity].
    unfold rel_name in Hrel. rewrite is_root_abs2 in Hrel. exact Hrel.
Qed.

(* ---------- the replay of the twin's tape *)
Lemma index_loop_twin c st : plain c -> wf_style st -> style_root st = [] -> forall l done a p k,
  root p = [] -> rows p = map (srow st (c_rs c)) done ->
  NoDup (map i_path (map snd done ++ l)) ->
  (forall i, In i (map snd done ++ l) -> Forall okc (i_path i)) ->
  (root_empty p = false -> exists_exact p [] = true \/ match l with i :: _ => i_path i = [] | [] => True end) ->
  exists p', index_loop c (map (fun x => (fst x, twin_member st (snd x))) (istarts a l)) k 0 None false p = (p', Ok tt)
             /\ rows p' = map (srow st (c_rs c)) (done ++ istarts a l) /\ root p' = [] /\
             (root_empty p = true -> root_empty p' = true) /\
             (root_empty p' = true \/ Forall (fun i => i_path i = []) l).
Proof.
  intros HP Hs Hsr. induction l as [|i l IH]; intros done a p k Hr Hrows Hnd Hok Hsl.
  - cbn [istarts map index_loop]. exists p. rewrite app_nil_r. split; [reflexivity|]. split; [exact Hrows|]. split; [exact Hr|]. split; [tauto|]. right. constructor.
  - cbn [istarts map index_loop fst snd]. replace (k <? 0)%nat with false by (symmetry; apply Nat.ltb_ge; lia).
    cbn [m_hdr twin_member]. destruct (pos_of (c_rs c) a) as [rec blk] eqn:Epos.
    rewrite index_header_plain by exact HP.
    assert (Oki : Forall okc (i_path i)) by (apply Hok; apply in_or_app; right; left; reflexivity).
    assert (Hsan : exists p1, sanitize p (twin_name st i) = (p1, stored_name st (i_path i)) /\ rows p1 = rows p /\ root p1 = [] /\
                     (root_empty p1 = true \/ root_empty p1 = root_empty p /\ i_path i = [])).
    { assert (Hcase : i_path i = [] \/ i_path i <> []) by (destruct (i_path i); [left; reflexivity|right; discriminate]).
      destruct Hcase as [Ep|Hne].
      - destruct (twin_name_top st i Hsr Ep) as (T1 & T2). exists p. unfold sanitize. rewrite T1. cbn [orb].
        rewrite T2. split; [rewrite Hr; reflexivity|]. split; [reflexivity|]. split; [exact Hr|]. right. split; [reflexivity|exact Ep].
      - destruct (twin_name_member st i Hs Hsr Oki Hne) as (T1 & T2 & T3 & _).
        destruct (sanitize_abs_replay p (twin_name st i) Hr T1 T2) as (p1 & E1 & E2 & E3 & E4).
        { intro Hf. destruct (Hsl Hf) as [K|K]; [exact K|]. contradiction. }
        exists p1. rewrite E1, T3. repeat split; try assumption. left. exact E4. }
    destruct Hsan as (p1 & Hsan & Hrows1 & Hr1 & Hre1).
    assert (Hup : ih_body rec blk (with_size_name (m_hdr (twin_member st i)) (h_size (hdr_of_item st i)) (twin_name st i)) false p
                  = (with_rows p1 (rows p1 ++ [srow st (c_rs c) (a, i)]), Ok tt)).
    { unfold ih_body, h_act. cbn [with_size_name twin_member member_of_item m_hdr hdr_of_item h_pax pax_get].
      change (negb (eqb_str V_1 V_1)) with false. change (eqb_str V_create V_create) with true. cbv iota.
      unfold upsert. cbn [row_of_hdr r_name h_name].
      match goal with |- context [sanitize p ?n] => change n with (twin_name st i) end. rewrite Hsan.
      match goal with |- context [has_key _ _ ?l] => change l with (@nil N) end.
      rewrite Hrows1, Hrows.
      pose proof (has_key_fresh st (c_rs c) done (a, i) Hs) as HK. cbn [snd] in HK. rewrite HK.
      - unfold srow. cbn [fst snd]. rewrite Epos. reflexivity.
      - intros y [<-|Hy]; [exact Oki|]. apply Hok. apply in_or_app. left. apply in_map. exact Hy.
      - cbn [snd]. intro K. rewrite map_app in Hnd. apply NoDup_remove_2 in Hnd. apply Hnd.
        apply in_or_app. left. exact K. }
    unfold usz. cbn [twin_member member_of_item m_hdr with_size_name hdr_of_item h_pax pax_get h_size h_name] in Hup |- *. rewrite Hup.
    destruct (IH (done ++ [(a, i)]) (a + iblocks i) (with_rows p1 (rows p1 ++ [srow st (c_rs c) (a, i)])) (S k)) as (p' & Hl & Hrw & Hrt & Hmono & Hre).
    + exact Hr1.
    + cbn [with_rows rows]. rewrite Hrows1, Hrows, map_app. reflexivity.
    + replace (map snd (done ++ [(a, i)]) ++ l) with (map snd done ++ i :: l)
        by (rewrite (map_app snd), <- app_assoc; reflexivity). exact Hnd.
    + replace (map snd (done ++ [(a, i)]) ++ l) with (map snd done ++ i :: l)
        by (rewrite (map_app snd), <- app_assoc; reflexivity). exact Hok.
    + cbn [with_rows root_empty]. intro Hf. left. destruct Hre1 as [K|[K Ep]]; [congruence|]. rewrite K in Hf.
      destruct (Hsl Hf) as [K2|K2].
      * apply (exists_exact_app p _ [srow st (c_rs c) (a, i)]); [cbn [with_rows rows]; rewrite Hrows1; reflexivity|exact K2].
      * unfold exists_exact. cbn [with_rows rows]. rewrite existsb_app. cbn [existsb].
        change (r_name (srow st (c_rs c) (a, i))) with (stored_name st (i_path i)).
        rewrite Ep. destruct st; [| |cbn in Hsr; destruct Hs as (Kk & _); contradiction]; cbn; apply orb_true_r.
    + cbn [with_rows root_empty] in Hmono. exists p'. split; [exact Hl|]. split; [|split; [exact Hrt|split]].
      * rewrite Hrw. rewrite <- app_assoc. reflexivity.
      * intro Ht. apply Hmono. destruct Hre1 as [K1|[K1 _]]; congruence.
      * destruct Hre as [K|K]; [left; exact K|]. destruct Hre1 as [K1|[K1 Ep]].
        -- left. apply Hmono. exact K1.
        -- right. constructor; assumption.
Qed.

Theorem T20_twin_rebuild : forall c st t, plain c -> wf_style st -> style_root st = [] -> wf t ->
  exists p, rebuild c (twin_tape st t) = (p, Ok tt) /\ rows p = archive_rows c st t /\ root p = [] /\
    (root_empty p = true \/ Forall (fun i => i_path i = []) (items t)).
Proof.
  intros c st t HP Hs Hsr Hwf. unfold rebuild, index_tape, purge, twin_tape. fold (twin_items st (items t)).
  rewrite members_from_twin by discriminate.
  destruct (index_loop_twin c st HP Hs Hsr (items t) [] 0 p_empty 0%nat) as (p' & Hl & Hrw & Hrt & _ & Hre).
  - reflexivity.
  - reflexivity.
  - cbn [map app]. apply items_nodup. exact Hwf.
  - cbn [map app]. intros i Hi. apply (items_okc t i Hwf Hi).
  - intros _. right. reflexivity.
  - exists p'. repeat split; assumption.
Qed.
