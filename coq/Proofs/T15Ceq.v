(* T15 / Ceq: index states that differ only in cache fields no query consults.
   [ceq p q]   same rows, same cached root, and the [root_empty] flags equal unless the flag is never consulted
               (a root is cached) or consulting it re-derives it (a live row named "" exists)
   [cok p]     the cache of p is consistent: a root is cached, or "no root name, the root is the row named ''" is cached or derivable.
               Without it a read CAN change later reads (Proofs/T15Counter.v): with nothing cached and no row named "",
               getSanitizedPath caches the first absolute name it is asked for as the root.
   Queries return equal results on [ceq] states; on a [cok] state every query stays in the [ceq] class. *)
From Coq Require Import List NArith ZArith Bool.
Import ListNotations.
From STFS Require Import Str Db Tape Index Ops Fs File Diff Norm T15Def T15Db.
Open Scope N_scope.

(* the name [sanitize] computes once the cache is settled *)
Definition san_name (rt name : str) : str :=
  if is_abs rt && is_abs name then name else
  if eqb_str rt [] then path_join2 [] (trim_prefix [slash] name) else
  if eqb_str rt [dot] then path_join2 [dot] (trim_prefix [slash] name) else
  if eqb_str rt [dot; slash] then [dot; slash] ++ trim_prefix [slash] (trim_prefix [dot; slash] name) else
  if eqb_str rt [slash] then path_join2 [slash] (trim_prefix [slash] name) else
  if negb (is_abs rt || has_prefix [dot; slash] rt) then name else
  [dot; slash] ++ path_clean (trim_prefix [slash] name).

Lemma sanitize_spec p name : sanitize p name =
  if is_root_name name || eqb_str name (root p) then (p, root p) else
  if eqb_str (root p) [] && is_abs name && negb (root_empty p) then
    if exists_exact p [] then ({| rows := rows p; root := root p; root_empty := true |}, san_name (root p) name)
    else ({| rows := rows p; root := name; root_empty := root_empty p |}, name)
  else (p, san_name (root p) name).
Proof.
  unfold sanitize, san_name. destruct (is_root_name name || eqb_str name (root p)); [reflexivity|].
  destruct (eqb_str (root p) [] && is_abs name && negb (root_empty p)).
  - destruct (exists_exact p []); [|reflexivity]. cbn [root].
    repeat match goal with |- context [if ?b then _ else _] => destruct b end; reflexivity.
  - repeat match goal with |- context [if ?b then _ else _] => destruct b end; reflexivity.
Qed.

Definition ceq (p q : pstate) : Prop :=
  rows p = rows q /\ root p = root q /\ (root p <> [] \/ root_empty p = root_empty q \/ exists_exact p [] = true).
Definition cok (p : pstate) : Prop := root p <> [] \/ root_empty p = true \/ exists_exact p [] = true.

Lemma exists_exact_rows p q n : rows p = rows q -> exists_exact p n = exists_exact q n.
Proof. unfold exists_exact. intros ->. reflexivity. Qed.
Lemma find_by_name_rows p q n : rows p = rows q -> find_by_name p n = find_by_name q n.
Proof. unfold find_by_name. intros ->. reflexivity. Qed.

Lemma ceq_refl p : ceq p p.
Proof. repeat split. right. left. reflexivity. Qed.
Lemma ceq_sym p q : ceq p q -> ceq q p.
Proof.
  intros (A & B & C). repeat split; try congruence. destruct C as [C|[C|C]]; [left; congruence|right; left; congruence|].
  right. right. rewrite <- C. apply exists_exact_rows. congruence.
Qed.
Lemma ceq_trans p q r : ceq p q -> ceq q r -> ceq p r.
Proof.
  intros (A & B & C) (A' & B' & C'). repeat split; try congruence.
  destruct C as [C|[C|C]]; [left; exact C| |right; right; exact C].
  destruct C' as [C'|[C'|C']]; [left; congruence|right; left; congruence|].
  right. right. rewrite <- C'. apply exists_exact_rows. exact A.
Qed.
Lemma ceq_rows_root p q : rows p = rows q -> root p = root q -> root p <> [] -> ceq p q.
Proof. intros A B C. repeat split; auto. Qed.

Lemma root_nil_dec (x : str) : {x = []} + {x <> []}.
Proof. destruct x; [left; reflexivity|right; congruence]. Qed.

(* sanitize on related states *)
Lemma sanitize_ceq p q n : ceq p q ->
  snd (sanitize p n) = snd (sanitize q n) /\ ceq (fst (sanitize p n)) (fst (sanitize q n)).
Proof.
  intros (A & B & C). rewrite !sanitize_spec. rewrite <- B.
  destruct (is_root_name n || eqb_str n (root p)); [split; [reflexivity|repeat split; assumption]|].
  rewrite <- (exists_exact_rows p q [] A).
  destruct (root_nil_dec (root p)) as [Z|NZ].
  - rewrite Z. cbn [eqb_str andb]. destruct (is_abs n); cbn [andb].
    + destruct C as [C|[C|C]]; [congruence| |].
      * rewrite <- C. destruct (root_empty p) eqn:E; cbn [negb].
        -- cbn [fst snd]. split; [reflexivity|]. repeat split; try assumption. right; left; congruence.
        -- destruct (exists_exact p []) eqn:X; cbn [fst snd]; (split; [reflexivity|]).
           ++ repeat split; cbn [rows root root_empty]; try assumption. right; left; reflexivity.
           ++ repeat split; cbn [rows root root_empty]; try assumption. right; left; congruence.
      * rewrite C. destruct (root_empty p), (root_empty q); cbn [negb fst snd]; (split; [reflexivity|]);
          repeat split; cbn [rows root root_empty]; try assumption; try congruence;
          try (right; left; reflexivity); right; right;
          unfold exists_exact in *; cbn [rows]; try rewrite <- A; exact C.
    + cbn [fst snd]. split; [reflexivity|]. repeat split; assumption.
  - rewrite (eqb_str_nil_false _ NZ). cbn [andb fst snd]. split; [reflexivity|]. repeat split; assumption.
Qed.

(* sanitize on a consistent state *)
Lemma sanitize_cok p n : cok p -> ceq p (fst (sanitize p n)) /\ cok (fst (sanitize p n)).
Proof.
  intro K. rewrite sanitize_spec.
  destruct (is_root_name n || eqb_str n (root p)); [split; [apply ceq_refl|exact K]|].
  destruct (eqb_str (root p) [] && is_abs n && negb (root_empty p)) eqn:E; [|split; [apply ceq_refl|exact K]].
  apply andb_true_iff in E as [E E3]. apply andb_true_iff in E as [E1 E2].
  assert (Z : root p = []) by (destruct (root p); [reflexivity|discriminate E1]).
  assert (F : root_empty p = false) by (destruct (root_empty p); [discriminate E3|reflexivity]).
  destruct K as [K|[K|K]]; [congruence|congruence|]. rewrite K. cbn [fst]. split.
  - repeat split. right. right. exact K.
  - right. left. reflexivity.
Qed.

(* the relation the generic query lemmas of T15Db are instantiated with *)
Definition vrel (p p' : pstate) : Prop := cok p -> ceq p p' /\ cok p'.
Lemma vrel_refl p : vrel p p.
Proof. intro K. split; [apply ceq_refl|exact K]. Qed.
Lemma vrel_trans p q r : vrel p q -> vrel q r -> vrel p r.
Proof. intros H1 H2 K. destruct (H1 K) as [A B]. destruct (H2 B) as [A' B']. split; [eapply ceq_trans; eauto|exact B']. Qed.
Lemma vrel_san p n : vrel p (fst (sanitize p n)).
Proof. intro K. apply sanitize_cok. exact K. Qed.
