(* T02w / corners of  OpenFile(flags); Write; Close  ([CWriteFile]), each as a compiled example on a state reached by
   filesystem calls from Initialize "/".  (W1)-(W3): the implementation (model M1) differs from the reference
   [spec_write_file] of T02wNs.v; [write_corner] / [write_pre] exclude exactly these calls from [T02_write_file], and
   [T02_write_file_exact] (reference [spec_write_file_q true]) covers them.  (W4): the call the content HISTORIES exclude
   ([dir_create_corner]).  (N1)-(N6): behaviours where the reference sides with the implementation although an
   ordinary (POSIX) filesystem answers differently or leaves the answer open - recorded, not excluded. *)
From Coq Require Import String List NArith ZArith Bool.
Import ListNotations.
From STFS Require Import Str Db Tape Index Ops Fs File Diff Norm C01Str T02Ns T02Test T04Def T04Test T02wNs T02wTest.
Open Scope string_scope.
Open Scope N_scope.

Definition hroot : list (call * env) := [(CInitialize (s "/"), e0 1)].
(* "/d" a directory, "/f" a file of 10 bytes owned by 3:4 with times 8 / 9, "/g" an empty file *)
Definition hw : list (call * env) :=
  hroot ++ [(CMkdir (s "/d") 493, e0 2); (CCreateFile (s "/f") [(1, 0, 10)], e0 3); (CChown (s "/f") 3 4, e0 4);
            (CChtimes (s "/f") 8%Z 9%Z, e0 5); (CCreateFile (s "/g") [], e0 6)].
Definition stw : sys := final tcfg init_sys hw.
Definition fl (acc : N) (ap cr ex tr : bool) : oflag := {| o_acc := acc; o_append := ap; o_create := cr; o_excl := ex; o_trunc := tr |}.
Definition runw (k : call) (now : Z) : sys * outc := step tcfg (with_env stw (e0 now)) k.
Definition cols (v : node) := (n_size v, n_mtime v, n_atime v, n_ctime v, n_uid v, n_gid v, n_mode v).
Definition after (k : call) (now : Z) (n : str) := option_map cols (lookup (abs (fst (runw k now))) n).
Definition ref_after (k : call) (now : Z) (n : str) :=
  match k with
  | CWriteFile n0 o perm d force =>
    option_map cols (lookup (fst (spec_write_file tcfg (abs stw) n0 o perm d force now (cid_of (abs (fst (runw k now))) n0))) n)
  | _ => None
  end.
Definition ref_outc (k : call) (now : Z) : outc :=
  match k with
  | CWriteFile n0 o perm d force => snd (spec_write_file tcfg (abs stw) n0 o perm d force now (0, 0))
  | _ => OOk
  end.

(* (W1) O_WRONLY|O_TRUNC on an existing EMPTY file, nothing written: the implementation does nothing at all (no record is
        appended, the modification time stays 6); the reference stamps the modification time (50).  This is the corner
        (2) of T02Counter.v seen through OpenFile. *)
Definition kW1 := CWriteFile (s "/g") (fl 1 false false false true) 420 [] false.
Example W1_trunc_empty_is_noop :
  is_wcorner stw kW1 = true /\ wcheck false tcfg stw (e0 50) kW1 = false /\ wcheck true tcfg stw (e0 50) kW1 = true /\
  snd (runw kW1 50) = OOk /\ ref_outc kW1 50 = OOk /\
  tp (fst (runw kW1 50)) = tp stw /\
  option_map n_mtime (lookup (abs (fst (runw kW1 50))) (s "/g")) = Some 6%Z /\
  option_map (fun x => match x with (_, mt, _, _, _, _, _) => mt end) (ref_after kW1 50 (s "/g")) = Some 50%Z.
Proof. vm_compute. repeat split; reflexivity. Qed.

(* (W2) a Write of ZERO bytes (force) through O_WRONLY, no O_TRUNC, on an existing file: the handle enters write mode
        and Close flushes: a new content record is appended and the modification time is stamped (9 -> 50) although no
        byte changed (the content read back is the same); the reference changes nothing. *)
Definition kW2 := CWriteFile (s "/f") (fl 1 false false false false) 420 [] true.
Example W2_empty_write_stamps :
  is_wcorner stw kW2 = true /\ wcheck false tcfg stw (e0 50) kW2 = false /\ wcheck true tcfg stw (e0 50) kW2 = true /\
  snd (runw kW2 50) = OOk /\ ref_outc kW2 50 = OOk /\
  after kW2 50 (s "/f") = Some (10, 50%Z, 8%Z, 0%Z, 3, 4, 438) /\
  ref_after kW2 50 (s "/f") = Some (10, 9%Z, 8%Z, 0%Z, 3, 4, 438) /\
  negb (tape_blocks (tp (fst (runw kW2 50))) =? tape_blocks (tp stw)) = true /\
  content_of tcfg (fst (runw kW2 50)) (s "/f") = content_of tcfg stw (s "/f").
Proof. vm_compute. repeat split; reflexivity. Qed.
(* the same with O_APPEND, and with O_RDWR *)
Example W2_variants :
  forallb (fun o => is_wcorner stw (CWriteFile (s "/f") o 420 [] true) && negb (wcheck false tcfg stw (e0 50) (CWriteFile (s "/f") o 420 [] true))
                    && wcheck true tcfg stw (e0 50) (CWriteFile (s "/f") o 420 [] true))
          [fl 1 true false false false; fl 2 false false false false; fl 2 true true false false] = true.
Proof. vm_compute. reflexivity. Qed.

(* (W3) an existing DIRECTORY opened O_RDONLY|O_APPEND, nothing written: the implementation refuses the open with
        is-a-directory (any of write access, O_APPEND, O_TRUNC on a directory is refused); the reference opens it, as
        afero's OsFs and MemMapFs do.  The namespace is unchanged in both. *)
Definition kW3 := CWriteFile (s "/d") (fl 0 true false false false) 420 [] false.
Example W3_rdonly_append_on_directory :
  is_wcorner stw kW3 = true /\ wcheck false tcfg stw (e0 50) kW3 = false /\ wcheck true tcfg stw (e0 50) kW3 = true /\
  snd (runw kW3 50) = OIsDir /\ ref_outc kW3 50 = OOk /\ tp (fst (runw kW3 50)) = tp stw.
Proof. vm_compute. repeat split; reflexivity. Qed.

(* (W4) the one call the content histories exclude ([dir_create_corner] in T02wHist.v): O_RDONLY|O_CREATE on an existing
        directory, nothing written, succeeds and changes nothing (Linux answers EISDIR here, afero's MemMapFs opens
        the directory).  Outcome and namespace agree with the reference; but the ghost map "content last written" of
        T04 reads None for a directory as for a missing name, so its update would take the successful O_CREATE for a
        creation.  [T04_write_file] covers the call: the name reads no content before and after. *)
Definition kW4 := CWriteFile (s "/d") (fl 0 false true false false) 420 [] false.
Example W4_create_on_directory :
  is_wcorner stw kW4 = false /\ wcheck false tcfg stw (e0 50) kW4 = true /\
  snd (runw kW4 50) = OOk /\ tp (fst (runw kW4 50)) = tp stw /\
  content_of tcfg (fst (runw kW4 50)) (s "/d") = None /\ content_of tcfg stw (s "/d") = None.
Proof. vm_compute. repeat split; reflexivity. Qed.

(* ---------- recorded, not excluded *)
(* (N1) open+write+close is not atomic: O_RDONLY|O_CREATE on a missing name creates the file (mode from perm, owner = the
        creating identity 7:8, times now / 0 / 0), then the Write is refused (permission): the call FAILS and the entry
        stays.  The reference says the same. *)
Definition kN1 := CWriteFile (s "/new") (fl 0 false true false false) 384 [(1, 0, 10)] false.
Example N1_failed_call_creates :
  wcheck false tcfg stw (e0 50) kN1 = true /\ snd (runw kN1 50) = OPerm /\
  after kN1 50 (s "/new") = Some (0, 50%Z, 0%Z, 0%Z, 7, 8, 384) /\ lookup (abs stw) (s "/new") = None /\
  content_of tcfg (fst (runw kN1 50)) (s "/new") = Some [].
Proof. vm_compute. repeat split; reflexivity. Qed.

(* (N2) a name below a regular file: without O_CREATE the answer is not-exist (POSIX: ENOTDIR); with O_CREATE it is
        is-a-file, the parent check of Mkdir / Create ([spec_parent]).  Below a missing parent: not-exist in both. *)
Example N2_below_a_file :
  snd (runw (CWriteFile (s "/f/x") (fl 1 false false false false) 420 [(1, 0, 1)] false) 50) = ONotExist /\
  snd (runw (CWriteFile (s "/f/x") (fl 1 false true false false) 420 [(1, 0, 1)] false) 50) = OIsFile /\
  snd (runw (CWriteFile (s "/q/x") (fl 1 false false false false) 420 [(1, 0, 1)] false) 50) = ONotExist /\
  snd (runw (CWriteFile (s "/q/x") (fl 1 false true false false) 420 [(1, 0, 1)] false) 50) = ONotExist /\
  forallb (fun k => wcheck false tcfg stw (e0 50) k)
    [CWriteFile (s "/f/x") (fl 1 false false false false) 420 [(1, 0, 1)] false; CWriteFile (s "/f/x") (fl 1 false true false false) 420 [(1, 0, 1)] false;
     CWriteFile (s "/q/x") (fl 1 false false false false) 420 [(1, 0, 1)] false; CWriteFile (s "/q/x") (fl 1 false true false false) 420 [(1, 0, 1)] false] = true.
Proof. vm_compute. repeat split; reflexivity. Qed.

(* (N3) O_RDONLY|O_TRUNC does not truncate (POSIX: unspecified; Linux truncates): the file keeps its 10 bytes *)
Definition kN3 := CWriteFile (s "/f") (fl 0 false false false true) 420 [] false.
Example N3_rdonly_trunc_keeps_content :
  wcheck false tcfg stw (e0 50) kN3 = true /\ snd (runw kN3 50) = OOk /\ tp (fst (runw kN3 50)) = tp stw /\
  content_of tcfg (fst (runw kN3 50)) (s "/f") = Some [(1, 0, 10)].
Proof. vm_compute. repeat split; reflexivity. Qed.

(* (N4) a Write through a read-only handle is refused with permission (POSIX: EBADF); on a read-only handle of a
        directory with is-a-directory *)
Example N4_write_without_access :
  snd (runw (CWriteFile (s "/f") (fl 0 false false false false) 420 [(1, 0, 1)] false) 50) = OPerm /\
  snd (runw (CWriteFile (s "/d") (fl 0 false false false false) 420 [(1, 0, 1)] false) 50) = OIsDir /\
  snd (runw (CWriteFile (s "/d") (fl 0 false false false false) 420 [] false) 50) = OOk.
Proof. vm_compute. repeat split; reflexivity. Qed.

(* (N5) what a successful write leaves: O_WRONLY (no O_TRUNC) overwrites the first bytes and keeps the rest, O_APPEND
        appends, O_TRUNC replaces; size = max / sum / length; mode, owner, access and change time are kept, the
        modification time is the clock's *)
Example N5_overlay_append_truncate :
  let d := [(2, 0, 4)] in
  after (CWriteFile (s "/f") (fl 1 false false false false) 420 d false) 50 (s "/f") = Some (10, 50%Z, 8%Z, 0%Z, 3, 4, 438) /\
  after (CWriteFile (s "/f") (fl 1 true false false false) 420 d false) 50 (s "/f") = Some (14, 50%Z, 8%Z, 0%Z, 3, 4, 438) /\
  after (CWriteFile (s "/f") (fl 1 false false false true) 420 d false) 50 (s "/f") = Some (4, 50%Z, 8%Z, 0%Z, 3, 4, 438) /\
  option_map expand (content_of tcfg (fst (runw (CWriteFile (s "/f") (fl 1 false false false false) 420 d false) 50)) (s "/f"))
    = Some (expand [(2, 0, 4); (1, 4, 6)]) /\
  option_map expand (content_of tcfg (fst (runw (CWriteFile (s "/f") (fl 1 true false false false) 420 d false) 50)) (s "/f"))
    = Some (expand [(1, 0, 10); (2, 0, 4)]) /\
  content_of tcfg (fst (runw (CWriteFile (s "/f") (fl 1 false false false true) 420 d false) 50)) (s "/f") = Some [(2, 0, 4)].
Proof. vm_compute. repeat split; reflexivity. Qed.

(* (N6) O_CREATE|O_EXCL on an existing name: exist, whatever the other flags, nothing changes *)
Example N6_excl :
  forallb (fun n => forallb (fun acc => outc_eqb (snd (runw (CWriteFile n (fl acc true true true true) 420 [(1, 0, 1)] true) 50)) OExist)
                            [0; 1; 2]) [s "/f"; s "/g"; s "/d"; s "/"] = true.
Proof. vm_compute. reflexivity. Qed.
