(* T25 / Reader: the history theorems of C13, C02 and C04 for the instance that CONTINUES FROM A REBUILT INDEX.
   Setting (that of T19_rebuilt_instance_simulates_writer): the writer runs Initialize "/" and a history r of
   filesystem-level calls from [init_sys]; the reader [sr] is what Initialize yields over (the writer's tape, an ABSENT
   index: p_empty) - it rebuilds the index from the tape, in the relative spelling -; then ANY further history r2 of
   filesystem-level calls is run on the reader.  Any configuration (codec suffixes, encoded sizes).
   The statements are about the reader's own index, calls and walk, after r2 - hence after every call of r2, every
   prefix of r2 being such a history. *)
From Coq Require Import List NArith ZArith Bool Lia.
From Coq Require Import ZifyN ZifyBool.
Import ListNotations.
From STFS Require Import Str Db Tape Index Ops Fs File Diff Norm TapeLemmas StrLemmas C01Str C01Db C01Inv C01Sim C01Ops C01Fs2 C01Rows
  T02Ns T02Spec T04Def T04Content T13Def T13View
  TcfgSim TcfgFs TcfgHist TcfgThms TcfgT02 TcfgT04
  T19Rel T19Base T19Db T19Main T19Cfg T25Core T25Abs.
From STFS Require T05Open T13ListStr T20Good.
Open Scope N_scope.

Lemma last_written_app c : forall h1 h2 s w,
  last_written c s (h1 ++ h2) w = last_written c (final c s h1) h2 (last_written c s h1 w).
Proof.
  induction h1 as [|[k e] h1 IH]; intros h2 s w; cbn [app last_written final]; [reflexivity|].
  destruct (step c (with_env s e) k) as [s' o]. cbn [fst]. apply IH.
Qed.

(* the reader: Initialize over (tape, absent index) *)
Definition reader_of (c : cfg) (s : sys) (rootp : str) (q1 q2 : list N) (k : Z) : sys :=
  fst (fs_initialize c {| tp := tp s; db := p_empty; hbq := q1; encq := q2; clk := k |} rootp).

Section Reader.
Variable c : cfg.
Hypothesis Hrs : 0 < c_rs c.
Hypothesis Hro : c_readonly c = false.

(* ---------- C13 *)
Theorem T25_reader_C13 : forall e r r2,
  forallb hb_ok ((CInitialize [slash], e) :: r) = true ->
  forallb (fun ke => fs_call (fst ke)) r = true -> forallb (fun ke => call_ok (fst ke)) r = true ->
  forallb (fun ke => fs_call (fst ke)) r2 = true -> forallb (fun ke => call_ok (fst ke)) r2 = true -> forallb hb_ok r2 = true ->
  forall rootp q1 q2 k,
  let s := final c init_sys ((CInitialize [slash], e) :: r) in
  let sr' := final c (reader_of c s rootp q1 q2 k) r2 in
  let s' := final c s r2 in
  let p := db sr' in
  (* (i) the live rows of the reader's index form a tree (relative spelling) *)
  wf_tree_rel p /\
  (* (ii) listing = direct children, for either spelling [nr] of the directory d *)
  (forall d nr, good d -> nrel d nr ->
    exists l, snd (get_direct_children p nr None) = Ok l /\
      l = filter (fun x => live x && negb (eqb_str (r_name x) []) && eqb_str (path_dir (slash :: r_name x)) d) (rows p) /\
      NoDup (map r_name l) /\
      (forall x, In x l <-> (In x (lrows p) /\ r_name x <> [] /\ path_dir (slash :: r_name x) = d)) /\
      (forall j lk, snd (get_direct_children p nr (Some j)) = Ok lk -> exists i, (i <= j)%nat /\ lk = firstn i l) /\
      rows_rel (filter (T13ListStr.childp d) (rows (db s'))) l /\
      snd (inv_list p nr None) = Ok (map hdr_of_row l)) /\
  (* (iii) the walk = the writer's walk = the live rows of the reader's index *)
  view c sr' = view c s' /\
  (exists l, view c sr' = map (ent_rd c sr') l /\ NoDup l /\
     forall x, In x l <-> (In x (lrows p) /\ slash_count (slash :: r_name x) <= 16)).
Proof.
  intros e r r2 Hhb Hfs Hok Hfs2 Hok2 Hhb2 rootp q1 q2 k s sr' s' p.
  destruct (T19_rel_init_any_config c Hrs Hro e r Hhb Hfs Hok rootp q1 q2 k) as (_ & HS). fold s in HS.
  destruct (T19_run_sim_any_config c Hrs Hro r2 s _ HS Hfs2 Hok2 Hhb2) as (_ & HS'). fold s' in HS'.
  assert (Es : s' = final c init_sys ((CInitialize [slash], e) :: (r ++ r2))).
  { unfold s', s. change ((CInitialize [slash], e) :: r ++ r2) with (((CInitialize [slash], e) :: r) ++ r2).
    rewrite T05Open.final_app. reflexivity. }
  assert (Hhb' : forallb hb_ok ((CInitialize [slash], e) :: (r ++ r2)) = true).
  { cbn [forallb] in *. rewrite forallb_app, Hhb2. apply andb_true_iff in Hhb as [A B]. rewrite A, B. reflexivity. }
  assert (Hfs' : forallb (fun ke => fs_call (fst ke)) (r ++ r2) = true) by (rewrite forallb_app, Hfs, Hfs2; reflexivity).
  assert (Hok' : forallb (fun ke => call_ok (fst ke)) (r ++ r2) = true) by (rewrite forallb_app, Hok, Hok2; reflexivity).
  pose proof (T13_wf_all_histories_any_config c e (r ++ r2) Hrs Hro Hhb' Hok' Hfs') as W.
  pose proof (T13_plain_all_histories_any_config c e (r ++ r2) Hrs Hro Hhb' Hok' Hfs') as Ip.
  rewrite <- Es in W, Ip. exact (T25_C13_rd c s' sr' HS' W Ip).
Qed.

(* ---------- C02: every call of r2 on the reader conforms to the reference filesystem operation, run on the reader's
   own namespace (names spelled absolutely: [abs_rd]) *)
Theorem T25_reader_C02 : forall e0 r r2, hb_env e0 ->
  let s0 := fst (step c (with_env init_sys e0) (CInitialize [slash])) in
  ok_run c s0 r ->
  forall rootp q1 q2 k,
  let s := final c s0 r in
  let sr := reader_of c s rootp q1 q2 k in
  ok_run_rd c sr r2 ->
  conforms_rd c sr r2 /\
  (* the same outcomes as the writer would give, the writer conforms too, the namespaces agree *)
  map ob_out (run c sr r2) = map ob_out (run c s r2) /\
  conforms c s r2 /\ abs_rd sr = abs s /\ abs_rd (final c sr r2) = abs (final c s r2).
Proof.
  intros e0 r r2 He s0 Hokr rootp q1 q2 k s sr Hok2.
  pose proof (Good_init c e0 Hrs Hro He) as HG0. fold s0 in HG0.
  destruct (T02_history_any_config true c Hrs Hro r s0 HG0 Hokr) as (_ & HG). fold s in HG.
  destruct (T20Good.ok_run_hyps c r s0 Hokr) as (H1 & H2 & H3).
  assert (Hhb : forallb hb_ok ((CInitialize [slash], e0) :: r) = true).
  { cbn [forallb]. rewrite H3. unfold hb_ok at 1. cbn [snd]. unfold hb_env in He. rewrite He. reflexivity. }
  destruct (T19_rel_init_any_config c Hrs Hro e0 r Hhb H1 H2 rootp q1 q2 k) as (_ & HS).
  change (final c init_sys ((CInitialize [slash], e0) :: r)) with s in HS. fold (reader_of c s rootp q1 q2 k) in HS. fold sr in HS.
  destruct (T25_history_rd c Hrs Hro true r2 s sr HS HG Hok2) as (A & B & C & _).
  split; [exact A|]. split; [exact B|]. split.
  - apply (T25_ok_run_rd c Hrs Hro r2 s sr HS) in Hok2. exact (proj1 (T02_history_any_config true c Hrs Hro r2 s HG Hok2)).
  - split; [exact (abs_rd_eq _ _ (SimC_rows c _ _ HS))|exact (abs_rd_eq _ _ (SimC_rows c _ _ C))].
Qed.

(* ---------- C04: reading through the reader returns what was last written (before or after it took over) *)
Theorem T25_reader_C04 : forall e0 r r2, hb_env e0 ->
  ok_run4 true r -> forallb (fun ke => fs_call (fst ke)) r = true ->
  ok_run4 true r2 -> forallb (fun ke => fs_call (fst ke)) r2 = true ->
  forall rootp q1 q2 k,
  let h := (CInitialize [slash], e0) :: r in
  let s := final c init_sys h in
  let sr := reader_of c s rootp q1 q2 k in
  let sr' := final c sr r2 in
  let w0 := last_written c init_sys h w_empty in          (* what the writer's history had written *)
  (* a read of any name, in either spelling *)
  (forall m nr, good m -> nrel m nr -> content_eq (content_of c sr' nr) (last_written c sr r2 w0 m)) /\
  (* as shown by the walk *)
  (forall e, In e (view c sr') -> content_eq (e_data e) (last_written c sr r2 w0 (e_path e))) /\
  (* the position stored in a live regular row of the reader's index designates a content record of that entry *)
  (forall x, In x (rows (db sr')) -> live x = true -> tf_regular (r_tf x) = true ->
     exists m, member_at (tp sr') (off_of (c_rs c) (r_rec x) (r_blk x)) = Some m /\
               is_content_record m (r_size x) /\
               content_eq (Some (mdata m)) (last_written c sr r2 w0 (slash :: r_name x))) /\
  (* the reference is the one of the whole history run on the writer *)
  last_written c sr r2 w0 = last_written c init_sys (h ++ r2) w_empty.
Proof.
  intros e0 r r2 He Hokr Hfs Hok2 Hfs2 rootp q1 q2 k h s sr sr' w0.
  destruct (T04_reachable_any_config c e0 r Hrs Hro He Hokr) as (H4 & Hc & _). fold h in H4, Hc. fold s in H4, Hc. fold w0 in Hc.
  destruct (ok_run4_hyps true r Hokr) as (Hcok & Hhb0). destruct (ok_run4_hyps true r2 Hok2) as (Hcok2 & Hhb2).
  assert (Hhb : forallb hb_ok ((CInitialize [slash], e0) :: r) = true).
  { cbn [forallb]. rewrite Hhb0. unfold hb_ok at 1. cbn [snd]. unfold hb_env in He. rewrite He. reflexivity. }
  destruct (T19_rel_init_any_config c Hrs Hro e0 r Hhb Hfs Hcok rootp q1 q2 k) as (_ & HS).
  fold h in HS. fold s in HS. fold (reader_of c s rootp q1 q2 k) in HS. fold sr in HS.
  destruct (T25_read_is_last_written_rd c Hrs Hro r2 s sr w0 HS H4 Hc Hok2 Hfs2) as (HS' & H4' & A & B). fold sr' in HS', A, B.
  pose proof (T25_last_written_rd c Hrs Hro r2 s sr w0 HS Hfs2 Hcok2 Hhb2) as El.
  split; [exact A|]. split; [exact B|]. split.
  - intros x Hx Hl Hreg. destruct (F2_in_r _ _ _ x (SimC_rows c _ _ HS') Hx) as (a & Ha & Hax).
    rewrite (rowrel_live a x Hax) in Hl. rewrite (rr_tf _ _ Hax) in Hreg.
    destruct (T04_positions_designate_content_any_config true c Hrs Hro r2 s w0 H4 Hok2 Hc a Ha Hl Hreg) as (ma & Hma & Hrec & Hce).
    destruct (T25_member_rd c (final c s r2) sr' HS' a x ma (r_size a) Hax Hma Hrec) as (mr & Hmr & Hrr & Ed).
    exists mr. split; [exact Hmr|]. split; [rewrite (rr_size _ _ Hax); exact Hrr|].
    rewrite El, <- (rowrel_abs_name a x Hax). unfold mdata in *. rewrite Ed. exact Hce.
  - rewrite El. unfold w0, s. symmetry. apply last_written_app.
Qed.
End Reader.

(* ---------- the plain-configuration forms are instances; for the record, the relation used is T19's [Sim] *)
Theorem T25_reader_sim : forall c e r r2, 0 < c_rs c -> c_readonly c = false ->
  forallb hb_ok ((CInitialize [slash], e) :: r) = true ->
  forallb (fun ke => fs_call (fst ke)) r = true -> forallb (fun ke => call_ok (fst ke)) r = true ->
  forallb (fun ke => fs_call (fst ke)) r2 = true -> forallb (fun ke => call_ok (fst ke)) r2 = true -> forallb hb_ok r2 = true ->
  forall rootp q1 q2 k,
  let s := final c init_sys ((CInitialize [slash], e) :: r) in
  SimC c (final c s r2) (final c (reader_of c s rootp q1 q2 k) r2).
Proof.
  intros c e r r2 Hrs Hro Hhb Hfs Hok Hfs2 Hok2 Hhb2 rootp q1 q2 k s.
  destruct (T19_rel_init_any_config c Hrs Hro e r Hhb Hfs Hok rootp q1 q2 k) as (_ & HS). fold s in HS.
  exact (proj2 (T19_run_sim_any_config c Hrs Hro r2 s _ HS Hfs2 Hok2 Hhb2)).
Qed.

Print Assumptions T25_reader_C13.
Print Assumptions T25_reader_C02.
Print Assumptions T25_reader_C04.
