(* T19 / Det: two READER indexes with the same rows and cached root "" (only root_empty may differ: one is the rebuild
   of the tape, the other the running index) stay so when the same headers are replayed into them.  With T19Index this
   gives the exact C01 statement of the reader: rows (rebuild of its tape) = rows (its index). *)
From Coq Require Import List NArith ZArith Bool Lia.
From Coq Require Import ZifyN ZifyBool.
Import ListNotations.
From STFS Require Import Str Db Tape Index Ops Fs Diff Norm StrLemmas C01Str C01Db C01Inv C01Sim C01Tape C01Hdr
  T17Db T19Rel T19Base T19Db T19Index.
Open Scope N_scope.

Definition heq (p q : pstate) : Prop := rows p = rows q /\ root p = root q.

Lemma heq_refl p : heq p p. Proof. split; reflexivity. Qed.
Lemma heq_foreign p q : Foreign p -> heq p q -> Foreign q.
Proof. intros F [A B]. apply (foreign_rows p q F); congruence. Qed.
Lemma heq_with p q l : heq p q -> heq (with_rows p l) (with_rows q l).
Proof. intros [A B]. split; [reflexivity|exact B]. Qed.

Lemma sanitize_det p q n : Foreign p -> heq p q ->
  snd (sanitize p n) = snd (sanitize q n) /\ heq (fst (sanitize p n)) (fst (sanitize q n)) /\
  rows (fst (sanitize p n)) = rows p /\ rows (fst (sanitize q n)) = rows q.
Proof.
  intros F H. destruct (sanitize_foreign p n F) as (p' & E1 & A1 & B1).
  destruct (sanitize_foreign q n (heq_foreign _ _ F H)) as (q' & E2 & A2 & B2). rewrite E1, E2. cbn [fst snd].
  destruct H as [A B]. repeat split; congruence.
Qed.

Lemma get_header_det p q n : Foreign p -> heq p q ->
  snd (get_header p n) = snd (get_header q n) /\ heq (fst (get_header p n)) (fst (get_header q n)) /\
  rows (fst (get_header p n)) = rows p.
Proof.
  intros F H. destruct (sanitize_det p q n F H) as (A & B & C & D). rewrite !get_header_form. cbn [fst snd].
  rewrite A, C, D, (proj1 H). split; [reflexivity|]. split; [exact B|reflexivity].
Qed.

Lemma gh_same p x : Foreign p -> same p (fst (get_header p x)).
Proof.
  intro F. unfold get_header. destruct (sanitize_foreign p x F) as (p' & E & S1 & S2). rewrite E.
  destruct (find_by_name p' (T17Db.rel_name x)); cbn [fst]; split; assumption.
Qed.

Lemma upsert_det p q r0 : Foreign p -> heq p q ->
  snd (upsert p r0 false) = snd (upsert q r0 false) /\ heq (fst (upsert p r0 false)) (fst (upsert q r0 false)).
Proof.
  intros F H. destruct (sanitize_det p q (r_name r0) F H) as (A & B & C & D). rewrite !upsert_form. cbn [fst snd].
  rewrite A, C, D, (proj1 H). split; [reflexivity|]. apply heq_with. exact B.
Qed.

Lemma update_meta_det p q r0 : Foreign p -> heq p q ->
  snd (update_meta p r0) = snd (update_meta q r0) /\ heq (fst (update_meta p r0)) (fst (update_meta q r0)).
Proof.
  intros F H. destruct (sanitize_det p q (r_name r0) F H) as (A & B & C & D). rewrite !update_meta_form. cbn [fst snd].
  rewrite A, C, D, (proj1 H). split; [reflexivity|]. apply heq_with. exact B.
Qed.

Lemma delete_row_det p q n x y : Foreign p -> heq p q ->
  snd (lift (delete_row p n x y) (fun p _ => (p, Ok tt))) = snd (lift (delete_row q n x y) (fun p _ => (p, Ok tt))) /\
  heq (fst (lift (delete_row p n x y) (fun p _ => (p, Ok tt)))) (fst (lift (delete_row q n x y) (fun p _ => (p, Ok tt)))).
Proof.
  intros F H. destruct (sanitize_det p q n F H) as (A & B & C & D). rewrite !delete_row_form.
  rewrite A, C, D, (proj1 H). destruct (find_rows (rows q) (snd (sanitize q n))); cbn [lift fst snd].
  - split; [reflexivity|]. apply heq_with. exact B.
  - split; [reflexivity|exact B].
Qed.

Lemma move_rows_det p q o n x y : Foreign p -> heq p q ->
  snd (move_rows p o n x y) = snd (move_rows q o n x y) /\ heq (fst (move_rows p o n x y)) (fst (move_rows q o n x y)).
Proof.
  intros F H. destruct (sanitize_det p q n F H) as (A & B & C & D).
  assert (F1 : Foreign (fst (sanitize p n))).
  { destruct (sanitize_foreign p n F) as (p' & E1 & A1 & B1). rewrite E1. cbn [fst]. apply (foreign_rows p p' F A1 B1). }
  destruct (sanitize_det _ _ o F1 B) as (A' & B' & C' & D'). rewrite !move_rows_form. cbv zeta. cbn [fst snd].
  rewrite A, A', C', D', C, D, (proj1 H). split; [reflexivity|]. apply heq_with. exact B'.
Qed.

(* ---------- index_header on two reader indexes related to the same writer index *)
Lemma PR_heq_foreign pa pr : PR pa pr -> Foreign pr.
Proof. apply PR_foreign. Qed.

Lemma PR_of_eq pa pr pr' : PR pa pr -> rows pr' = rows pr -> root pr' = root pr -> PR pa pr'.
Proof. intros H A B. apply (PR_same pa pr pr' H). split; assumption. Qed.

Lemma upd_body_det rec blk ha hr pa pr qr : PR pa pr -> PR pa qr -> heq pr qr -> hnames_ok true ha -> h_act ha = V_update -> hrel ha hr ->
  snd (upd_body rec blk hr pr) = snd (upd_body rec blk hr qr) /\ heq (fst (upd_body rec blk hr pr)) (fst (upd_body rec blk hr qr)).
Proof.
  intros Hp Hq He Hok Hact Hh. unfold upd_body, h_rep.
  pose proof (pax_get_rel_rn _ _ (hr_pax _ _ Hh)) as Hrn. pose proof (hn_name _ _ Hok) as G.
  destruct (pax_get K_replaces_name (h_pax ha)) as [oa|] eqn:Ea; destruct (pax_get K_replaces_name (h_pax hr)) as [or_|] eqn:Er;
    try contradiction.
  - destruct (hn_rep _ _ Hok Hact oa Ea) as (Go & Ho & Hnw & Hne).
    (* move then update_meta, from any pair of equal reader indexes related to the writer index *)
    assert (CU : forall a b c d xa xp xq, PR xa xp -> PR xa xq -> heq xp xq ->
              snd (lift (move_rows xp or_ (h_name hr) rec blk) (fun p _ => update_meta p (row_of_hdr a b c d hr))) =
              snd (lift (move_rows xq or_ (h_name hr) rec blk) (fun p _ => update_meta p (row_of_hdr a b c d hr))) /\
              heq (fst (lift (move_rows xp or_ (h_name hr) rec blk) (fun p _ => update_meta p (row_of_hdr a b c d hr))))
                  (fst (lift (move_rows xq or_ (h_name hr) rec blk) (fun p _ => update_meta p (row_of_hdr a b c d hr))))).
    { intros a b c d xa xp xq Xp Xq Xe.
      destruct (move_simr xa xp oa (h_name ha) or_ (h_name hr) rec blk Xp Go G Ho Hnw Hne Hrn (hr_name _ _ Hh)) as (xa1 & xp1 & _ & E1 & P1).
      destruct (move_simr xa xq oa (h_name ha) or_ (h_name hr) rec blk Xq Go G Ho Hnw Hne Hrn (hr_name _ _ Hh)) as (xa2 & xq1 & _ & E2 & P2).
      destruct (move_rows_det xp xq or_ (h_name hr) rec blk (PR_foreign _ _ Xp) Xe) as (_ & M). rewrite E1, E2 in M |- *. cbn [fst snd lift] in *.
      apply update_meta_det; [exact (PR_foreign _ _ P1)|exact M]. }
    assert (MV : forall xa xp xq, PR xa xp -> PR xa xq -> heq xp xq ->
              snd (move_rows xp or_ (h_name hr) rec blk) = snd (move_rows xq or_ (h_name hr) rec blk) /\
              heq (fst (move_rows xp or_ (h_name hr) rec blk)) (fst (move_rows xq or_ (h_name hr) rec blk))).
    { intros xa xp xq Xp Xq Xe. apply move_rows_det; [exact (PR_foreign _ _ Xp)|exact Xe]. }
    assert (MU : snd (match get_header pr or_ with
               | (p, Ok o) => lift (move_rows p or_ (h_name hr) rec blk) (fun p _ => update_meta p (row_of_hdr (r_rec o) rec (r_blk o) blk hr))
               | (p, NoRows) => move_rows p or_ (h_name hr) rec blk
               | (p, Unique) => (p, Unique) | (p, Fail e) => (p, Fail e) end) =
               snd (match get_header qr or_ with
               | (p, Ok o) => lift (move_rows p or_ (h_name hr) rec blk) (fun p _ => update_meta p (row_of_hdr (r_rec o) rec (r_blk o) blk hr))
               | (p, NoRows) => move_rows p or_ (h_name hr) rec blk
               | (p, Unique) => (p, Unique) | (p, Fail e) => (p, Fail e) end) /\
               heq (fst (match get_header pr or_ with
               | (p, Ok o) => lift (move_rows p or_ (h_name hr) rec blk) (fun p _ => update_meta p (row_of_hdr (r_rec o) rec (r_blk o) blk hr))
               | (p, NoRows) => move_rows p or_ (h_name hr) rec blk
               | (p, Unique) => (p, Unique) | (p, Fail e) => (p, Fail e) end))
               (fst (match get_header qr or_ with
               | (p, Ok o) => lift (move_rows p or_ (h_name hr) rec blk) (fun p _ => update_meta p (row_of_hdr (r_rec o) rec (r_blk o) blk hr))
               | (p, NoRows) => move_rows p or_ (h_name hr) rec blk
               | (p, Unique) => (p, Unique) | (p, Fail e) => (p, Fail e) end))).
    { destruct (get_header_det pr qr or_ (PR_foreign _ _ Hp) He) as (A & B & C).
      pose proof (PR_same _ _ _ Hp (gh_same pr or_ (PR_foreign _ _ Hp))) as P1.
      pose proof (PR_same _ _ _ Hq (gh_same qr or_ (PR_foreign _ _ Hq))) as Q1.
      destruct (get_header pr or_) as [p1 r1]. destruct (get_header qr or_) as [q1 r1']. cbn [fst snd] in *. subst r1'.
      destruct r1 as [o| | |e]; [apply (CU _ _ _ _ pa); assumption|apply (MV pa); assumption|split; [reflexivity|exact B]|split; [reflexivity|exact B]]. }
    destruct (pax_get K_replaces_content (h_pax hr)) as [v|]; [destruct (eqb_str v V_true)|]; [apply (CU _ _ _ _ pa); assumption|exact MU|exact MU].
  - assert (CU : forall a b c d xp xq, Foreign xp -> heq xp xq ->
              snd (lift (xp, Ok tt) (fun p _ => update_meta p (row_of_hdr a b c d hr))) =
              snd (lift (xq, Ok tt) (fun p _ => update_meta p (row_of_hdr a b c d hr))) /\
              heq (fst (lift (xp, Ok tt) (fun p _ => update_meta p (row_of_hdr a b c d hr))))
                  (fst (lift (xq, Ok tt) (fun p _ => update_meta p (row_of_hdr a b c d hr))))).
    { intros a b c d xp xq Xf Xe. cbn [lift]. apply update_meta_det; assumption. }
    assert (MU : snd (match get_header pr (h_name hr) with
               | (p, Ok o) => lift (p, Ok tt) (fun p _ => update_meta p (row_of_hdr (r_rec o) rec (r_blk o) blk hr))
               | (p, NoRows) => (p, Ok tt)
               | (p, Unique) => (p, Unique) | (p, Fail e) => (p, Fail e) end) =
               snd (match get_header qr (h_name hr) with
               | (p, Ok o) => lift (p, Ok tt) (fun p _ => update_meta p (row_of_hdr (r_rec o) rec (r_blk o) blk hr))
               | (p, NoRows) => (p, Ok tt)
               | (p, Unique) => (p, Unique) | (p, Fail e) => (p, Fail e) end) /\
               heq (fst (match get_header pr (h_name hr) with
               | (p, Ok o) => lift (p, Ok tt) (fun p _ => update_meta p (row_of_hdr (r_rec o) rec (r_blk o) blk hr))
               | (p, NoRows) => (p, Ok tt)
               | (p, Unique) => (p, Unique) | (p, Fail e) => (p, Fail e) end))
               (fst (match get_header qr (h_name hr) with
               | (p, Ok o) => lift (p, Ok tt) (fun p _ => update_meta p (row_of_hdr (r_rec o) rec (r_blk o) blk hr))
               | (p, NoRows) => (p, Ok tt)
               | (p, Unique) => (p, Unique) | (p, Fail e) => (p, Fail e) end))).
    { destruct (get_header_det pr qr (h_name hr) (PR_foreign _ _ Hp) He) as (A & B & C).
      pose proof (PR_foreign _ _ (PR_same _ _ _ Hp (gh_same pr (h_name hr) (PR_foreign _ _ Hp)))) as F1.
      destruct (get_header pr (h_name hr)) as [p1 r1]. destruct (get_header qr (h_name hr)) as [q1 r1']. cbn [fst snd] in *. subst r1'.
      destruct r1 as [o| | |e]; [apply CU; assumption|split; [reflexivity|exact B]..]. }
    destruct (pax_get K_replaces_content (h_pax hr)) as [v|]; [destruct (eqb_str v V_true)|]; [apply CU; [exact (PR_foreign _ _ Hp)|exact He]|exact MU|exact MU].
Qed.

Lemma ih_body_det rec blk ha hr pa pr qr : PR pa pr -> PR pa qr -> heq pr qr -> hnames_ok true ha -> hrel ha hr ->
  snd (ih_body rec blk hr false pr) = snd (ih_body rec blk hr false qr) /\
  heq (fst (ih_body rec blk hr false pr)) (fst (ih_body rec blk hr false qr)).
Proof.
  intros Hp Hq He Hok Hh. unfold ih_body.
  destruct (negb (eqb_str match pax_get K_version (h_pax hr) with Some v => v | None => V_1 end V_1)); [split; [reflexivity|exact He]|].
  rewrite (h_act_rel _ _ Hh).
  destruct (eqb_str (h_act ha) V_create); [apply upsert_det; [exact (PR_foreign _ _ Hp)|exact He]|].
  destruct (eqb_str (h_act ha) V_delete); [apply delete_row_det; [exact (PR_foreign _ _ Hp)|exact He]|].
  destruct (eqb_str (h_act ha) V_update) eqn:Eu; [|split; [reflexivity|exact He]].
  apply eqb_str_eq in Eu. apply (upd_body_det rec blk ha hr pa); assumption.
Qed.

Lemma index_header_det c rec blk ha hr pa pr qr : plain c -> PR pa pr -> PR pa qr -> heq pr qr -> hnames_ok true ha -> hrel ha hr ->
  snd (index_header c rec blk hr false pr) = snd (index_header c rec blk hr false qr) /\
  heq (fst (index_header c rec blk hr false pr)) (fst (index_header c rec blk hr false qr)).
Proof.
  intros HP Hp Hq He Hok Hh. rewrite !index_header_plain by exact HP. rewrite (usz_rel _ _ Hh).
  destruct (usz ha) as [sz|]; [|split; [reflexivity|exact He]].
  apply (ih_body_det rec blk (with_size_name ha sz (h_name ha)) _ pa); try assumption; [apply hnames_ok_wsn; exact Hok|].
  apply hrel_wsn; [exact Hh|exact (hr_name _ _ Hh)].
Qed.

(* the replay loop: the same reader headers into two equal reader indexes *)
Lemma loop0_det c : plain c -> forall la lr, Forall2 shrel la lr -> Forall (hnames_ok true) (map snd la) ->
  forall pa pr qr, PR pa pr -> PR pa qr -> heq pr qr ->
  snd (loop0 c lr pr) = snd (loop0 c lr qr) /\ heq (fst (loop0 c lr pr)) (fst (loop0 c lr qr)).
Proof.
  intros HP la lr H. induction H as [|[sa ha] [sr hr] la lr [Es Hh] _ IH]; intros Hok pa pr qr Hp Hq He; cbn [loop0]; [split; [reflexivity|exact He]|].
  cbn [fst snd] in Es, Hh. subst sr. cbn [map snd] in Hok. inversion Hok as [|? ? Hok1 Hok2]; subst.
  set (rec := fst (pos_of (c_rs c) sa)). set (blk := snd (pos_of (c_rs c) sa)).
  destruct (index_header_det c rec blk ha hr pa pr qr HP Hp Hq He Hok1 Hh) as (A & B).
  destruct (index_header_simr c rec blk ha hr pa pr HP Hp Hok1 Hh) as (pa1 & pr1 & res & E1 & E2 & P1).
  destruct (index_header_simr c rec blk ha hr pa qr HP Hq Hok1 Hh) as (pa2 & qr1 & res2 & E1' & E2' & P2).
  rewrite E1 in E1'. injection E1' as <- <-. rewrite E2, E2' in *. cbn [fst snd] in A, B.
  destruct res as [[]| | |e]; try (split; [reflexivity|exact B]).
  apply (IH Hok2 pa1); [apply PRw_PR; exact P1|apply PRw_PR; exact P2|exact B].
Qed.
