(* T22 / tests by evaluation of the candidate statements (run BEFORE the proofs; kept as regression tests). *)
From Coq Require Import String List NArith ZArith Bool.
Import ListNotations.
From STFS Require Import Str Db Tape Index Ops Fs Diff Prefix Replay Norm C01Fs2 C01Rows T22Def.
Open Scope string_scope.
Open Scope N_scope.

Definition cf : cfg :=
  {| c_rs := 3; c_csuf := []; c_esuf := []; c_readonly := false; c_uid := 0; c_gid := 0;
     c_uname := s "root"; c_gname := s "0" |}.
Definition cfx : cfg :=
  {| c_rs := 20; c_csuf := s ".zst"; c_esuf := s ".age"; c_readonly := false; c_uid := 0; c_gid := 0;
     c_uname := s "root"; c_gname := s "0" |}.
Definition e0 (n : Z) : env := {| ev_hb := []; ev_enc := []; ev_now := n |}.
Definition e1 (n : Z) (hb enc : list N) : env := {| ev_hb := hb; ev_enc := enc; ev_now := n |}.

Definition hd (tf : N) (name : string) (size : N) (px : pax) : hdr :=
  {| h_tf := tf; h_name := s name; h_link := []; h_size := size; h_mode := 420; h_uid := 7; h_gid := 8;
     h_uname := s "u"; h_gname := s "g"; h_mtime := 5%Z; h_atime := 6%Z; h_ctime := 7%Z; h_pax := px |}.
Definition fl (tf : N) (name : string) (size : N) (d : content) : file := {| f_hdr := hd tf name size []; f_data := d |}.

Definition hist1 : list (call * env) :=
  [(CInitialize (s "/"), e0 1);
   (CMkdir (s "/x") 493, e0 2);
   (CArchive [fl TypeDir "/a" 0 []; fl TypeReg "/a/f" 700 [(1, 0, 700)]; fl TypeReg "/a/g" 0 []], e1 3 [3; 1; 2] [650]);
   (CUpdate [fl TypeReg "/a/f" 10 [(2, 0, 10)]] true, e0 4);
   (CChmod (s "/a/g") 384, e0 5);
   (CMove (s "/a") (s "/b"), e0 6);
   (CDelete (s "/b/g"), e0 7);
   (CCreateFile (s "/b/h") [(3, 0, 20)], e0 8);
   (CUpdate [fl TypeReg "/b/f" 10 []; fl TypeDir "/b" 0 []; fl TypeDir "/" 0 []] false, e0 9);
   (CArchive [], e0 10);
   (CUpdate [] true, e0 10);
   (CArchive [fl TypeReg "/b/f" 30 [(4, 0, 30)]; fl TypeReg "/b/g" 5 [(5, 0, 5)]; fl TypeDir "/" 0 []], e0 11);
   (CMove (s "/b/h") (s "/b/f"), e0 12);
   (CMkdir (s "/b/c") 493, e0 13);
   (CMove (s "/b") (s "/b/c/d"), e0 14);
   (CDelete (s "/nope"), e0 15);
   (CMove (s "/nope") (s "/q"), e0 16);
   (CMove (s "/x") (s "/x"), e0 17);
   (CArchive [fl TypeReg "/orphan/deep/file" 3 [(6, 0, 3)]; fl TypeReg "/orphan/deep/file" 4 [(6, 0, 4)]], e0 18);
   (CDelete (s "/b/c/d"), e0 19);
   (CReopen, e0 20);
   (CMkdirAll (s "/b/c/d/e") 493, e0 21)].

Definition all_ok (c : cfg) (h : list (call * env)) : bool :=
  forallb hb_ok h && ok_hist c init_sys h && rows_norm_all c init_sys h.

Definition replay_all (c : cfg) (h : list (call * env)) : bool :=
  let t := tp (final c init_sys h) in
  forallb (fun j => let '(p, r) := replay_into c t (prefix_index c t j) in
                    res_ok r && eqb_list eqb_row (visible p) (visible (fst (rebuild c t)))
                    && (let '(p2, r2) := replay_into c t p in res_ok r2 && eqb_list eqb_row (visible p2) (visible p)))
          (seq 0 (S (length (all_members t)))).

Example test_hist1 : all_ok cf hist1 = true /\ replay_all cf hist1 = true.
Proof. vm_compute. split; reflexivity. Qed.
Example test_hist1_codec : all_ok cfx hist1 = true /\ replay_all cfx hist1 = true.
Proof. vm_compute. split; reflexivity. Qed.

Example test_hist1_outcomes :
  map ob_out (run cf init_sys hist1) =
  [OOk; OOk; OOk; OOk; OOk; OOk; OOk; OOk; OOk; OOk; OOk; OOk; OOk; OOk; OOk; ONotExist; ONotExist; OOk; OOk; OOk; OOk; OOk].
Proof. vm_compute. reflexivity. Qed.

(* a tombstoned name in an Update batch with replace (revived), other record sizes and header block counts, nested moves *)
Definition cf7 : cfg :=
  {| c_rs := 7; c_csuf := []; c_esuf := []; c_readonly := false; c_uid := 1; c_gid := 2;
     c_uname := s "u"; c_gname := s "g" |}.
Definition hist2 : list (call * env) :=
  [(CInitialize (s "/"), e1 1 [2] []);
   (CArchive [fl TypeReg "/f" 1000 [(1, 0, 1000)]; fl TypeDir "/d" 0 []; fl TypeReg "/d/g" 513 [(2, 0, 513)]], e1 2 [1; 4; 2] [0; 2000]);
   (CRemove (s "/f"), e0 3);
   (CUpdate [fl TypeReg "/f" 5 [(3, 0, 5)]; fl TypeDir "/d" 0 []; fl TypeReg "/d/g" 0 []] true, e1 4 [5; 1; 1] [7]);
   (CWriteFile (s "/d/g") {| o_acc := 1; o_append := true; o_create := false; o_excl := false; o_trunc := false |} 420 [(4, 0, 9)] false, e0 5);
   (CMove (s "/d") (s "/f"), e1 6 [2; 2] []);
   (CDelete (s "/f"), e1 7 [1; 3] []);
   (CArchive [fl TypeReg "/f/g" 1 [(5, 0, 1)]], e0 8);
   (CUpdate [fl TypeReg "/f/g" 2 [(5, 0, 2)]; fl TypeDir "/f" 0 []] true, e0 9);
   (CDelete (s "f/"), e0 10); (CDelete (s "./f/g"), e0 11); (CDelete (s "/f/"), e0 12); (CDelete (s "//f"), e0 13);
   (CRename (s "/f") (s "/h"), e0 14)].
Example test_hist2 : all_ok cf7 hist2 = true /\ replay_all cf7 hist2 = true /\ all_ok cfx hist2 = true /\ replay_all cfx hist2 = true.
Proof. vm_compute. repeat split; reflexivity. Qed.
Example test_hist2_outcomes :
  map ob_out (run cf7 init_sys hist2) = [OOk; OOk; OOk; OOk; OOk; OOk; OOk; OOk; OOk; OOk; ONotExist; ONotExist; ONotExist; ONotExist].
Proof. vm_compute. reflexivity. Qed.
