(* T23 / Ops: the four operations (Archive of one node, Update of one file, Delete, Move) on related instances, the twin
   called with the absolute name and the named instance with its psi-image: same outcome, related results.  The twin
   side's invariant comes from C01Ops/C01Ops2.  Plain configuration. *)
From Coq Require Import List NArith ZArith Bool Lia.
From Coq Require Import ZifyN ZifyBool.
Import ListNotations.
From STFS Require Import Str Db Tape Index Ops Fs Diff Norm StrLemmas C01Str C01Db C01Inv C01Sim C01Tape C01Hdr C01Ops C01Ops2 C01Fs
  T05Sync T13Path T17Str T23Rel T23Base T23Db T23Index T23Append.
Open Scope N_scope.
Set Default Proof Using "All".

(* equal oracle queues and clocks *)
Definition envq (sa sr : sys) : Prop := hbq sr = hbq sa /\ encq sr = encq sa /\ clk sr = clk sa.
Definition frame (s s' : sys) : Prop := tp s' = tp s /\ db s' = db s.

Lemma frame_trans s1 s2 s3 : frame s1 s2 -> frame s2 s3 -> frame s1 s3.
Proof. intros [A B] [C D]. split; congruence. Qed.
Lemma frame_refl s : frame s s.
Proof. split; reflexivity. Qed.

Lemma mk_member_hdr s h d e : m_hdr (fst (mk_member s h d e)) = h.
Proof. unfold mk_member. destruct (pop_hb s). reflexivity. Qed.

Lemma plain_members_hdrs hs : forall s, map m_hdr (fst (plain_members s hs)) = hs.
Proof.
  induction hs as [|h r IH]; intro s; cbn [plain_members]; [reflexivity|].
  pose proof (mk_member_hdr s h None 0) as A. destruct (mk_member s h None 0) as [m s1]. cbn [fst] in A.
  specialize (IH s1). destruct (plain_members s1 r) as [ms s2]. cbn [fst map] in *. congruence.
Qed.

Lemma outc_ok (res : Db.res unit) : outc_of_res res = OOk -> res = Ok tt.
Proof. destruct res as [[]| | |e]; cbn; congruence. Qed.

Lemma pop_enc_rel sa sr n : envq sa sr ->
  fst (pop_enc sr n) = fst (pop_enc sa n) /\ envq (snd (pop_enc sa n)) (snd (pop_enc sr n)) /\
  frame sa (snd (pop_enc sa n)) /\ frame sr (snd (pop_enc sr n)).
Proof.
  intros (E1 & E2 & E3). unfold pop_enc. rewrite E2. destruct (encq sa) as [|x q] eqn:Eq; cbn [fst snd];
    (split; [reflexivity|]; split; [unfold envq; cbn; repeat split; congruence|]; split; split; reflexivity).
Qed.

Section Top.
Variable top : str.
Hypothesis Htop : okc top.

Notation psi := (psi top).
Notation rowrel := (rowrel top).
Notation hrel := (hrel top).
Notation mrel := (mrel top).
Notation rows_rel := (rows_rel top).
Notation prel := (prel top).
Notation PR := (PR top).
Notation RT := (RT top).
Notation R := (R top).
Notation top_nonempty := (T23Base.top_nonempty top Htop).
Notation psi_root := (T23Base.psi_root top Htop).
Notation psi_pth := (T23Base.psi_pth top Htop).
Notation psi_good := (T23Base.psi_good top Htop).
Notation psi_nonroot := (T23Base.psi_nonroot top Htop).
Notation psi_inj := (T23Base.psi_inj top Htop).
Notation psi_eqb := (T23Base.psi_eqb top Htop).
Notation tcs_okc := (T23Base.tcs_okc top Htop).
Notation psi_not_abs := (T23Base.psi_not_abs top Htop).
Notation psi_nonempty := (T23Base.psi_nonempty top Htop).
Notation psi_is_root := (T23Base.psi_is_root top Htop).
Notation psi_clean := (T23Base.psi_clean top Htop).
Notation psi_trim_slash := (T23Base.psi_trim_slash top Htop).
Notation vrel_refl := (T23Base.vrel_refl top Htop).
Notation pax_rel_nil := (T23Base.pax_rel_nil top Htop).
Notation pax_get_rel := (T23Base.pax_get_rel top Htop).
Notation pax_get_rel_rn := (T23Base.pax_get_rel_rn top Htop).
Notation pax_set_rel := (T23Base.pax_set_rel top Htop).
Notation pax_set_rel_eq := (T23Base.pax_set_rel_eq top Htop).
Notation pax_del_rel := (T23Base.pax_del_rel top Htop).
Notation pax_rel_fun := (T23Base.pax_rel_fun top Htop).
Notation hrel_of_rowrel := (T23Base.hrel_of_rowrel top Htop).
Notation rowrel_of_hrel := (T23Base.rowrel_of_hrel top Htop).
Notation rowrel_set_lk := (T23Base.rowrel_set_lk top Htop).
Notation rowrel_set_name := (T23Base.rowrel_set_name top Htop).
Notation rowrel_fun := (T23Base.rowrel_fun top Htop).
Notation rows_rel_fun := (T23Base.rows_rel_fun top Htop).
Notation hrel_wsn := (T23Base.hrel_wsn top Htop).
Notation hrel_wsn_self := (T23Base.hrel_wsn_self top Htop).
Notation hrel_set_pax := (T23Base.hrel_set_pax top Htop).
Notation keep_size_rel := (T23Base.keep_size_rel top Htop).
Notation hrel_patch_mode := (T23Base.hrel_patch_mode top Htop).
Notation hrel_patch_owner := (T23Base.hrel_patch_owner top Htop).
Notation hrel_patch_times := (T23Base.hrel_patch_times top Htop).
Notation hrel_stamp := (T23Base.hrel_stamp top Htop).
Notation rowrel_name_eqb := (T23Base.rowrel_name_eqb top Htop).
Notation rowrel_key_eq := (T23Base.rowrel_key_eq top Htop).
Notation rowrel_live := (T23Base.rowrel_live top Htop).
Notation last_indexed_rel := (T23Base.last_indexed_rel top Htop).
Notation PR_rowok := (T23Db.PR_rowok top Htop).
Notation PR_good_r := (T23Db.PR_good_r top Htop).
Notation prel_with := (T23Db.prel_with top Htop).
Notation sanitize_wr := (T23Db.sanitize_wr top Htop).
Notation sanitize_top := (T23Db.sanitize_top top Htop).
Notation sanitize_nil := (T23Db.sanitize_nil top Htop).
Notation sanitize_rd := (T23Db.sanitize_rd top Htop).
Notation psi_slash_not_root := (T23Db.psi_slash_not_root top Htop).
Notation sanitize_rd_slash := (T23Db.sanitize_rd_slash top Htop).
Notation min_link_rel := (T23Db.min_link_rel top Htop).
Notation find_rows_rel := (T23Db.find_rows_rel top Htop).
Notation get_header_wr := (T23Db.get_header_wr top Htop).
Notation get_header_rd := (T23Db.get_header_rd top Htop).
Notation find_rel := (T23Db.find_rel top Htop).
Notation find_rows_trailing_rd := (T23Db.find_rows_trailing_rd top Htop).
Notation get_header_slash_rd := (T23Db.get_header_slash_rd top Htop).
Notation find_rows_row := (T23Db.find_rows_row top Htop).
Notation inv_stat_false_wr := (T23Db.inv_stat_false_wr top Htop).
Notation inv_stat_false_rd := (T23Db.inv_stat_false_rd top Htop).
Notation stat_res_rel := (T23Db.stat_res_rel top Htop).
Notation links_nil := (T23Db.links_nil top Htop).
Notation gh_link_rd := (T23Db.gh_link_rd top Htop).
Notation inv_stat_true_rd := (T23Db.inv_stat_true_rd top Htop).
Notation lookup_entry_wr := (T23Db.lookup_entry_wr top Htop).
Notation lookup_entry_rd := (T23Db.lookup_entry_rd top Htop).
Notation psi_pth_app := (T23Db.psi_pth_app top Htop).
Notation kid_filter_rel := (T23Db.kid_filter_rel top Htop).
Notation get_children_wr := (T23Db.get_children_wr top Htop).
Notation get_children_rd := (T23Db.get_children_rd top Htop).
Notation kids_rel := (T23Db.kids_rel top Htop).
Notation direct_pred_rel := (T23Db.direct_pred_rel top Htop).
Notation gdc_wr := (T23Db.gdc_wr top Htop).
Notation gdc_rd := (T23Db.gdc_rd top Htop).
Notation inv_list_wr := (T23Db.inv_list_wr top Htop).
Notation inv_list_rd := (T23Db.inv_list_rd top Htop).
Notation replace_row_rel := (T23Db.replace_row_rel top Htop).
Notation has_key_rel := (T23Db.has_key_rel top Htop).
Notation upsert_rows_rel := (T23Db.upsert_rows_rel top Htop).
Notation move_list_rel := (T23Db.move_list_rel top Htop).
Notation PR_PRw := (T23Index.PR_PRw top Htop).
Notation PRw_PR := (T23Index.PRw_PR top Htop).
Notation upsert_simr := (T23Index.upsert_simr top Htop).
Notation update_meta_simr := (T23Index.update_meta_simr top Htop).
Notation delete_simr := (T23Index.delete_simr top Htop).
Notation move_simr := (T23Index.move_simr top Htop).
Notation usz_rel := (T23Index.usz_rel top Htop).
Notation h_act_rel := (T23Index.h_act_rel top Htop).
Notation upd_body_simr := (T23Index.upd_body_simr top Htop).
Notation ih_body_simr := (T23Index.ih_body_simr top Htop).
Notation index_header_simr := (T23Index.index_header_simr top Htop).
Notation loop0_simr := (T23Index.loop0_simr top Htop).
Notation mstarts_rel := (T23Index.mstarts_rel top Htop).
Notation tape_rel_split := (T23Index.tape_rel_split top Htop).
Notation pos_items_rel := (T23Index.pos_items_rel top Htop).
Notation irel_of_mrel := (T23Index.irel_of_mrel top Htop).
Notation tape_rel_new := (T23Index.tape_rel_new top Htop).
Notation Good_PR := (T23Append.Good_PR top Htop).

Record GoodE (c : cfg) (sa sr : sys) : Prop := {
  ge_inv : Inv true c sa; ge_hb : hbok sa; ge_R : R sa sr; ge_env : envq sa sr; ge_reb : REB c sr }.

Lemma REB_same c sr sr1 : REB c sr -> tp sr1 = tp sr -> db sr1 = db sr -> REB c sr1.
Proof. intros (qr & A & B & C) E1 E2. exists qr. rewrite E1, E2. split; [exact A|split; [exact B|exact C]]. Qed.

Lemma GoodE_PR c sa sr : GoodE c sa sr -> PR top (db sa) (db sr).
Proof. intros [A _ B _ _]. split; [exact (iv_li _ _ _ A)|exact (R_db _ _ _ B)]. Qed.

Lemma GoodE_frame c sa sr sa1 sr1 : GoodE c sa sr -> frame sa sa1 -> frame sr sr1 -> hbok sa1 -> envq sa1 sr1 -> GoodE c sa1 sr1.
Proof.
  intros [A B [C D] E F] [F1 F2] [G1 G2] Hb He. split; [eapply Inv_ext; eassumption|exact Hb| |exact He|].
  - split; [rewrite F1, G1; exact C|rewrite F2, G2; exact D].
  - apply (REB_same c sr); [exact F|exact G1|exact G2].
Qed.

Lemma root_live_name c sa sr : GoodE c sa sr -> live_name (rows (db sa)) [slash] = true.
Proof.
  intro H. pose proof (iv_li _ _ _ (ge_inv _ _ _ H)) as [_ _ [_ _ Hh]]. destruct (Hh eq_refl) as (a0 & ta & E & N & D).
  unfold live_name. rewrite E. cbn [existsb]. unfold live. rewrite D, N. reflexivity.
Qed.

(* ---------- members *)
Lemma mk_member_rel sa sr ha hr d e : envq sa sr -> hrel ha hr ->
  mrel (fst (mk_member sa ha d e)) (fst (mk_member sr hr d e)) /\
  envq (snd (mk_member sa ha d e)) (snd (mk_member sr hr d e)) /\
  frame sa (snd (mk_member sa ha d e)) /\ frame sr (snd (mk_member sr hr d e)).
Proof.
  intros (E1 & E2 & E3) Hh. unfold mk_member, pop_hb. rewrite E1. destruct (hbq sa) as [|x q] eqn:Eq; cbn [fst snd].
  - split; [constructor; cbn; (exact Hh || reflexivity)|]. split; [unfold envq; cbn; repeat split; congruence|]. split; split; reflexivity.
  - split; [constructor; cbn; (exact Hh || reflexivity)|]. split; [unfold envq; cbn; repeat split; congruence|]. split; split; reflexivity.
Qed.

Lemma plain_members_rel hsa hsr : Forall2 hrel hsa hsr -> forall sa sr, envq sa sr ->
  Forall2 mrel (fst (plain_members sa hsa)) (fst (plain_members sr hsr)) /\
  envq (snd (plain_members sa hsa)) (snd (plain_members sr hsr)) /\
  frame sa (snd (plain_members sa hsa)) /\ frame sr (snd (plain_members sr hsr)).
Proof.
  induction 1 as [|ha hr hsa hsr Hh _ IH]; intros sa sr He; cbn [plain_members].
  - cbn [fst snd]. repeat split; try apply He; constructor.
  - destruct (mk_member_rel sa sr ha hr None 0 He Hh) as (M1 & M2 & [F1 F2] & [G1 G2]).
    destruct (mk_member sa ha None 0) as [ma sa1]. destruct (mk_member sr hr None 0) as [mr sr1]. cbn [fst snd] in *.
    destruct (IH sa1 sr1 M2) as (N1 & N2 & [F3 F4] & [G3 G4]).
    destruct (plain_members sa1 hsa) as [msa sa2]. destruct (plain_members sr1 hsr) as [msr sr2]. cbn [fst snd] in *.
    split; [constructor; assumption|]. split; [exact N2|]. split; split; congruence.
Qed.

(* ---------- the new name Move computes for an entry, on the named spelling *)
Lemma trim_slash_psi g : good g -> trim_prefix [slash] (psi g) = psi g.
Proof. intro G. destruct (psi_good g G) as (cs & Hcs & _ & ->). apply trim_slash_rel. apply tcs_okc. exact Hcs. Qed.

Lemma is_abs_app_rel a b : a <> [] -> is_abs a = false -> is_abs (a ++ b) = false.
Proof. destruct a; [contradiction|]. intros _ H. exact H. Qed.

Lemma move_name_rd from to k : good from -> from <> [slash] -> good to -> to <> [slash] -> good k ->
  (k = from \/ has_prefix (from ++ [slash]) k = true) ->
  path_join2 (psi to) (trim_prefix (trim_prefix [slash] (psi from)) (trim_prefix [slash] (psi k)))
  = psi (path_join2 to (trim_prefix (trim_prefix [slash] from) (trim_prefix [slash] k))).
Proof.
  intros Gf Hf Gt Ht Gk Hk. rewrite (trim_slash_psi from Gf), (trim_slash_psi k Gk).
  destruct (good_inv to Gt) as (tcs & Ft & Et).
  assert (Htn : tcs <> []) by (intro K; subst tcs; apply Ht; exact Et).
  destruct Hk as [->|Hp].
  - rewrite (move_name_self from to Gf Gt). rewrite trim_prefix_self.
    unfold path_join2. destruct (psi to) eqn:Ej; [exfalso; exact (psi_nonempty to Gt Ej)|]. rewrite <- Ej. apply psi_clean. exact Gt.
  - destruct (below_decompose from k Gf Hf Gk Hp) as (fcs & rcs & Hfn & Hrn & Ff & Fr & -> & ->).
    destruct (move_name_below _ to _ Gf Hf Gt Ht Gk Hp) as (rest & Ek & ->).
    assert (Er : rest = join_slash rcs).
    { rewrite (join_app fcs rcs Hfn Hrn) in Ek. cbn [app] in Ek. injection Ek as Ek. apply app_inv_head in Ek. injection Ek as Ek. symmetry. exact Ek. }
    subst rest. change (slash :: join_slash fcs) with (pth fcs). change (slash :: join_slash (fcs ++ rcs)) with (pth (fcs ++ rcs)).
    rewrite (psi_pth fcs Ff), (psi_pth (fcs ++ rcs)) by (apply Forall_app; split; assumption).
    change (top :: fcs ++ rcs) with ((top :: fcs) ++ rcs). rewrite (join_app (top :: fcs) rcs) by (discriminate || exact Hrn).
    rewrite trim_prefix_app.
    rewrite Et. replace (pth tcs ++ [slash] ++ join_slash rcs) with (pth (tcs ++ rcs)) by (rewrite (pth_app tcs rcs Htn Hrn); reflexivity).
    rewrite (psi_pth tcs Ft), (psi_pth (tcs ++ rcs)) by (apply Forall_app; split; assumption).
    pose proof (tcs_okc tcs Ft) as Ft'.
    unfold path_join2. destruct (join_slash (top :: tcs)) eqn:Ej; [exfalso; apply (join_nonempty (top :: tcs) ltac:(discriminate) Ft'); exact Ej|]. rewrite <- Ej.
    change (top :: tcs ++ rcs) with ((top :: tcs) ++ rcs).
    apply (path_clean_rel_gen _ ((top :: tcs) ++ [] :: rcs)).
    + apply is_abs_app_rel; [apply join_nonempty; [discriminate|exact Ft']|apply join_not_abs; exact Ft'].
    + intro K. apply app_eq_nil in K as [K _]. apply (join_nonempty (top :: tcs) ltac:(discriminate) Ft'). exact K.
    + rewrite split_slash_app, split_slash_cons_slash. rewrite split_join by (discriminate || apply okc_noslash; assumption).
      rewrite split_join by (assumption || apply okc_noslash; assumption). reflexivity.
    + apply Forall_app. split; [apply okc_or; exact Ft'|]. constructor; [right; left; reflexivity|apply okc_or; exact Fr].
    + rewrite filter_app, (filter_keepb_okc (top :: tcs) Ft'). change (filter keepb ([] :: rcs)) with (filter keepb rcs).
      rewrite (filter_keepb_okc rcs Fr). reflexivity.
    + discriminate.
Qed.

Section Ops.
Variable c : cfg.
Hypothesis HP : plain c.
Hypothesis Hrs : 0 < c_rs c.
Hypothesis Hro : c_readonly c = false.

Notation GoodE := (GoodE c).

(* the common tail of every operation *)
Lemma finish_simr sa sr msa msr : Inv true c sa -> R sa sr -> envq sa sr -> REB c sr -> msa <> [] -> Forall2 mrel msa msr ->
  Forall (hnames_ok true) (map m_hdr msa) -> Forall (fun m => 0 < m_hb m) msa ->
  exists sa' sr' o, append_and_index c sa (last_indexed (db sa) (c_rs c)) msa (map m_hdr msa) false false = (sa', o) /\
    append_and_index c sr (last_indexed (db sr) (c_rs c)) msr (map m_hdr msr) false false = (sr', o) /\
    R sa' sr' /\ envq sa' sr' /\ (Sync c sa' -> REB c sr').
Proof.
  intros HI HR He Hq Hne Hms Hok Hhb.
  destruct (T23Append.append_simr top Htop c HP Hrs sa sr msa msr (conj HI HR) Hne Hms Hok) as (pa' & pr' & res & E1 & E2 & Tr & Hp & Hreb).
  eexists _, _, _. split; [exact E1|]. split; [exact E2|]. split; [split; [exact Tr|exact Hp]|]. split; [exact He|].
  intro HS. pose proof (replay_ok_of_sync c sa msa Hrs (Inv_Sync _ _ _ HI) Hne Hhb) as K. rewrite E1 in K. cbn [fst snd] in K.
  apply Hreb; [exact Hq|apply outc_ok; apply K; exact HS].
Qed.

(* ---------- Archive of one directory / empty file (mknodeWithoutLocking) *)
Lemma mknode_hdr_rel dir name perm now : hrel (mknode_hdr c dir name [] perm now) (mknode_hdr c dir (psi name) [] perm now).
Proof. constructor; cbn; try reflexivity. constructor. Qed.

Lemma mknode_simr sa sr dir name perm : GoodE sa sr -> good name ->
  exists sa' sr', mknode c sa dir name perm false [] false = (sa', OOk) /\
    mknode c sr dir (psi name) perm false [] false = (sr', OOk) /\ GoodE sa' sr' /\ live_name (rows (db sa')) name = true.
Proof.
  intros HG G. pose proof HG as [HI Hhb HR He].
  destruct (mknode_ok true c HP Hrs Hro sa dir name perm HI Hhb G) as (sa' & Ea & HI' & Hhb' & Hlv).
  { right. left. exact (root_live_name c sa sr HG). }
  exists sa'. revert Ea. unfold mknode. rewrite Hro. unfold archive_op. cbn [archive_members f_hdr f_data].
  pose proof He as (E1 & E2 & E3). rewrite E3.
  set (h := mknode_hdr c dir name [] perm (clk sa)). set (h' := mknode_hdr c dir (psi name) [] perm (clk sa)).
  assert (Esz : is_reg h && (0 <? h_size h) = false) by (cbn; apply andb_false_r). rewrite Esz.
  assert (Esz' : is_reg h' && (0 <? h_size h') = false) by (cbn; apply andb_false_r). rewrite Esz'.
  assert (Hh : hrel h h') by apply mknode_hdr_rel.
  destruct (mk_member_rel sa sr h h' None 0 He Hh) as (M1 & M2 & [F1 F2] & [G1 G2]).
  pose proof (mk_member_hdr sa h None 0) as A. pose proof (mk_member_hdr sr h' None 0) as Ar.
  destruct (mk_member_spec sa h None 0 Hhb) as (_ & B & _).
  destruct (mk_member sa h None 0) as [ma sa1]. destruct (mk_member sr h' None 0) as [mr sr1]. cbn [fst snd] in *.
  intro Ea.
  destruct (finish_simr sa1 sr1 [ma] [mr]) as (sa'' & sr' & o & Fa & Fr & HR' & He' & Hq').
  { eapply Inv_ext; eassumption. }
  { destruct HR as [C D]. split; [rewrite F1, G1; exact C|rewrite F2, G2; exact D]. }
  { exact M2. }
  { apply (REB_same c sr); [exact (ge_reb _ _ _ HG)|exact G1|exact G2]. }
  { discriminate. }
  { constructor; [exact M1|constructor]. }
  { cbn [map]. rewrite A. constructor; [|constructor]. apply (mknode_hdr_ok true c dir name perm (clk sa) G). }
  { constructor; [exact B|constructor]. }
  cbn [map] in Fa, Fr. rewrite A, F2 in Fa. rewrite Ar, G2 in Fr. rewrite Ea in Fa. injection Fa as <- <-.
  exists sr'. split; [exact Ea|]. split; [exact Fr|]. split; [|exact Hlv]. split; try assumption. apply Hq'. eapply Inv_Sync. exact HI'.
Qed.

(* ---------- Update of one file *)
Lemma encode_rel sa sr ha hr : envq sa sr -> hrel ha hr ->
  hrel (fst (fst (encode c sa ha))) (fst (fst (encode c sr hr))) /\
  snd (fst (encode c sr hr)) = snd (fst (encode c sa ha)) /\
  envq (snd (encode c sa ha)) (snd (encode c sr hr)) /\
  frame sa (snd (encode c sa ha)) /\ frame sr (snd (encode c sr hr)).
Proof.
  intros He Hh. unfold encode. rewrite (hr_size _ _ _ Hh).
  destruct (pop_enc_rel sa sr (h_size ha) He) as (P1 & P2 & P3 & P4).
  destruct (pop_enc sa (h_size ha)) as [ea sa1]. destruct (pop_enc sr (h_size ha)) as [er sr1]. cbn [fst snd] in *. subst er.
  split; [|split; [reflexivity|]; split; [exact P2|]; split; assumption].
  rewrite !(suffix_if_plain c _ _ HP). cbn [h_name set_pax].
  rewrite (hr_name _ _ _ Hh). apply hrel_wsn.
  apply hrel_set_pax; [exact Hh|]. apply pax_set_rel_eq; [discriminate|]. exact (hr_pax _ _ _ Hh).
Qed.

Lemma update_members_rel sa sr fa fr rp sk : envq sa sr -> hrel (f_hdr fa) (f_hdr fr) -> f_data fr = f_data fa ->
  exists ma mr sa1 sr1, update_members c sa [fa] rp sk = ([ma], [m_hdr ma], sa1) /\
    update_members c sr [fr] rp sk = ([mr], [m_hdr mr], sr1) /\
    mrel ma mr /\ envq sa1 sr1 /\ frame sa sa1 /\ frame sr sr1.
Proof.
  intros He Hh Hd. cbn [update_members].
  set (h1a := set_pax (f_hdr fa) (pax_del K_replaces_name (pax_set K_action V_update (pax_set K_version V_1 (h_pax (f_hdr fa)))))).
  set (h1r := set_pax (f_hdr fr) (pax_del K_replaces_name (pax_set K_action V_update (pax_set K_version V_1 (h_pax (f_hdr fr)))))).
  assert (H1 : hrel h1a h1r).
  { apply hrel_set_pax; [exact Hh|]. apply pax_del_rel. apply pax_set_rel_eq; [discriminate|]. apply pax_set_rel_eq; [discriminate|]. exact (hr_pax _ _ _ Hh). }
  assert (Ereg : is_reg h1r = is_reg h1a) by (unfold is_reg; rewrite (hr_tf _ _ _ H1); reflexivity).
  rewrite Ereg, (hr_size _ _ _ H1).
  assert (ENC : exists h2a h2r enc sa1 sr1,
     (if is_reg h1a && rp && ((0 <? h_size h1a) || sk) then encode c sa h1a else (h1a, 0, sa)) = (h2a, enc, sa1) /\
     (if is_reg h1a && rp && ((0 <? h_size h1a) || sk) then encode c sr h1r else (h1r, 0, sr)) = (h2r, enc, sr1) /\
     hrel h2a h2r /\ envq sa1 sr1 /\ frame sa sa1 /\ frame sr sr1).
  { destruct (is_reg h1a && rp && ((0 <? h_size h1a) || sk)).
    - destruct (encode_rel sa sr h1a h1r He H1) as (X1 & X2 & X3 & X4 & X5).
      destruct (encode c sa h1a) as [[h2a ea] sa1]. destruct (encode c sr h1r) as [[h2r er] sr1]. cbn [fst snd] in *. subst er.
      eexists _, _, _, _, _. split; [reflexivity|]. split; [reflexivity|]. split; [exact X1|]. split; [exact X3|]. split; assumption.
    - eexists _, _, _, _, _. split; [reflexivity|]. split; [reflexivity|]. split; [exact H1|]. split; [exact He|]. split; apply frame_refl. }
  destruct ENC as (h2a & h2r & enc & sa1 & sr1 & -> & -> & H2 & He1 & Fa1 & Fr1). rewrite Hd.
  destruct rp.
  - set (h3a := set_pax h2a (pax_set K_replaces_content V_true (h_pax h2a))).
    set (h3r := set_pax h2r (pax_set K_replaces_content V_true (h_pax h2r))).
    assert (H3 : hrel h3a h3r) by (apply hrel_set_pax; [exact H2|apply pax_set_rel_eq; [discriminate|exact (hr_pax _ _ _ H2)]]).
    match goal with |- context [mk_member sa1 h3a ?d ?e] =>
      destruct (mk_member_rel sa1 sr1 h3a h3r d e He1 H3) as (M1 & M2 & M3 & M4);
      pose proof (mk_member_hdr sa1 h3a d e) as A; pose proof (mk_member_hdr sr1 h3r d e) as Ar;
      destruct (mk_member sa1 h3a d e) as [ma sa2]; destruct (mk_member sr1 h3r d e) as [mr sr2] end.
    cbn [fst snd] in *. exists ma, mr, sa2, sr2. rewrite A, Ar.
    split; [reflexivity|]. split; [reflexivity|]. split; [exact M1|]. split; [exact M2|].
    split; eapply frame_trans; eassumption.
  - set (h3a := with_size_name (set_pax h2a (pax_set K_replaces_content V_false (keep_size h2a))) 0 (h_name h2a)).
    set (h3r := with_size_name (set_pax h2r (pax_set K_replaces_content V_false (keep_size h2r))) 0 (h_name h2r)).
    assert (H3 : hrel h3a h3r).
    { unfold h3a, h3r. rewrite (hr_name _ _ _ H2). apply hrel_wsn. apply hrel_set_pax; [exact H2|apply pax_set_rel_eq; [discriminate|apply keep_size_rel; exact H2]]. }
    destruct (mk_member_rel sa1 sr1 h3a h3r None 0 He1 H3) as (M1 & M2 & M3 & M4).
    pose proof (mk_member_hdr sa1 h3a None 0) as A. pose proof (mk_member_hdr sr1 h3r None 0) as Ar.
    destruct (mk_member sa1 h3a None 0) as [ma sa2]. destruct (mk_member sr1 h3r None 0) as [mr sr2].
    cbn [fst snd] in *. exists ma, mr, sa2, sr2. rewrite A, Ar.
    split; [reflexivity|]. split; [reflexivity|]. split; [exact M1|]. split; [exact M2|].
    split; eapply frame_trans; eassumption.
Qed.

Lemma update_simr sa sr fa fr rp sk : GoodE sa sr -> hrel (f_hdr fa) (f_hdr fr) -> f_data fr = f_data fa ->
  good (h_name (f_hdr fa)) -> h_link (f_hdr fa) = [] -> usize_ok (h_pax (f_hdr fa)) ->
  live_name (rows (db sa)) (h_name (f_hdr fa)) = true ->
  exists sa' sr', update_op c sa [fa] rp sk = (sa', OOk) /\ update_op c sr [fr] rp sk = (sr', OOk) /\ GoodE sa' sr'.
Proof.
  intros HG Hh Hd G Hk Hu Hlive. pose proof HG as [HI Hhb HR He].
  destruct (update_ok true c HP Hrs sa fa rp sk HI Hhb G Hk Hu Hlive) as (sa' & Ea & HI' & Hhb').
  destruct (update_members_single true c HP sa fa rp sk Hhb G Hk Hu) as (m0 & s0 & Em0 & B & _ & _ & _ & X1 & _).
  exists sa'. revert Ea. unfold update_op.
  destruct (update_members_rel sa sr fa fr rp sk He Hh Hd) as (ma & mr & sa1 & sr1 & Ua & Ur & M1 & M2 & [F1 F2] & [G1 G2]).
  rewrite Ua in Em0. injection Em0 as -> _ _. rewrite Ua, Ur. intro Ea.
  destruct (finish_simr sa1 sr1 [m0] [mr]) as (sa'' & sr' & o & Fa & Fr & HR' & He' & Hq').
  { eapply Inv_ext; eassumption. }
  { destruct HR as [C D]. split; [rewrite F1, G1; exact C|rewrite F2, G2; exact D]. }
  { exact M2. }
  { apply (REB_same c sr); [exact (ge_reb _ _ _ HG)|exact G1|exact G2]. }
  { discriminate. }
  { constructor; [exact M1|constructor]. }
  { constructor; [exact X1|constructor]. }
  { constructor; [exact B|constructor]. }
  cbn [map] in Fa, Fr. rewrite F2 in Fa. rewrite G2 in Fr. rewrite Ea in Fa. injection Fa as <- <-.
  exists sr'. split; [exact Ea|]. split; [exact Fr|]. split; try assumption. apply Hq'. eapply Inv_Sync. exact HI'.
Qed.

(* ---------- Delete *)
Lemma del_hdr_rel a r : rowrel a r -> hrel (del_hdr a) (del_hdr r).
Proof.
  intro H. pose proof (hrel_of_rowrel a r H) as Hh. unfold del_hdr.
  rewrite (hr_name _ _ _ Hh). apply hrel_wsn.
  apply hrel_set_pax; [exact Hh|]. apply pax_set_rel_eq; [discriminate|]. apply pax_set_rel_eq; [discriminate|]. exact (hr_pax _ _ _ Hh).
Qed.

Lemma optrel_of_find oa or_ : optrel rowrel oa or_ ->
  match oa, or_ with Some a, Some r => rowrel a r | None, None => True | _, _ => False end.
Proof. intros [|a r H]; [exact I|exact H]. Qed.

(* the relational half: outcomes agree and the results are related *)
Lemma delete_op_rel sa sr name : GoodE sa sr -> good name -> name <> [slash] ->
  exists sa' sr' o, delete_op c sa name = (sa', o) /\ delete_op c sr (psi name) = (sr', o) /\ R sa' sr' /\ envq sa' sr' /\
    (Sync c sa' -> REB c sr').
Proof.
  intros HG G Hn. pose proof HG as [HI Hhb HR He]. pose proof (GoodE_PR _ _ _ HG) as HQ.
  unfold delete_op.
  rewrite (lookup_entry_wr top (db sa) (db sr) name HQ G), (lookup_entry_rd (db sa) (db sr) name HQ G).
  pose proof (optrel_of_find _ _ (find_rel top (db sa) (db sr) name HQ G)) as Hrr.
  destruct (find_rows (rows (db sa)) name) as [r|] eqn:Ef; destruct (find_rows (rows (db sr)) (psi name)) as [r'|] eqn:Efr; try contradiction;
    cbn [of_find].
  2:{ eexists _, _, _. split; [reflexivity|]. split; [reflexivity|]. rewrite !set_db_same. split; [exact HR|]. split; [exact He|]. intros _. exact (ge_reb _ _ _ HG). }
  rename Hrr into Hr'.
  destruct (find_rows_row _ _ _ name r HQ Ef) as (Hin & Hlive & Hrn & Hlk & Hrok).
  pose proof (PR_rowok _ _ _ HQ) as Hrows.
  rewrite (rr_tf _ _ _ Hr'), (rr_link _ _ _ Hr').
  assert (KK : exists kids kids', (if (r_tf r =? TypeDir) && eqb_str (r_link r) [] then get_children (db sa) name else (db sa, [])) = (db sa, kids) /\
             (if (r_tf r =? TypeDir) && eqb_str (r_link r) [] then get_children (db sr) (psi name) else (db sr, [])) = (db sr, kids') /\
             rows_rel kids kids' /\ Forall (fun x => In x (rows (db sa)) /\ kid_filter name x = true) kids).
  { destruct ((r_tf r =? TypeDir) && eqb_str (r_link r) []).
    - eexists _, _. split; [exact (get_children_wr top _ _ name HQ G)|]. split; [exact (get_children_rd _ _ name HQ G)|].
      split; [exact (kids_rel top _ _ name HQ G Hn)|]. apply Forall_forall. intros x Hx. apply filter_In in Hx. exact Hx.
    - eexists _, _. split; [reflexivity|]. split; [reflexivity|]. split; constructor. }
  destruct KK as (kids & kids' & -> & -> & Hkids & HkF).
  change (fun x : row => with_size_name (set_pax (hdr_of_row x) (pax_set K_action V_delete (pax_set K_version V_1 (h_pax (hdr_of_row x))))) 0
            (h_name (hdr_of_row x))) with del_hdr.
  rewrite !set_db_same.
  assert (Hhs : Forall2 hrel (map del_hdr (r :: kids)) (map del_hdr (r' :: kids'))).
  { apply (F2_map rowrel hrel); [constructor; assumption|]. intros x y _ _ K. apply del_hdr_rel. exact K. }
  destruct (plain_members_rel _ _ Hhs sa sr He) as (M1 & M2 & [F1 F2] & [G1 G2]).
  pose proof (plain_members_hdrs (map del_hdr (r :: kids)) sa) as A. pose proof (plain_members_hdrs (map del_hdr (r' :: kids')) sr) as Ar.
  set (HDRS := map del_hdr (r :: kids)) in *.
  destruct (plain_members sa HDRS) as [msa sa1] eqn:EPM. destruct (plain_members sr (map del_hdr (r' :: kids'))) as [msr sr1].
  cbn [fst snd] in *.
  destruct (plain_members_spec HDRS sa Hhb) as (_ & B & _). rewrite EPM in B. cbn [fst] in B.
  destruct (finish_simr sa1 sr1 msa msr) as (sa' & sr' & o & Fa & Fr & HR' & He' & Hq').
  { eapply Inv_ext; eassumption. }
  { destruct HR as [C D]. split; [rewrite F1, G1; exact C|rewrite F2, G2; exact D]. }
  { exact M2. }
  { apply (REB_same c sr); [exact (ge_reb _ _ _ HG)|exact G1|exact G2]. }
  { intro K. subst msa. discriminate. }
  { exact M1. }
  { rewrite A. rewrite Forall_forall in Hrows, HkF. apply Forall_forall. intros h Hh. apply in_map_iff in Hh as (x & <- & Hx).
    apply (del_hdr_ok true).
    - destruct Hx as [<-|Hx]; [exact Hrok|apply Hrows; apply (HkF x Hx)].
    - intros _. destruct Hx as [<-|Hx]; [rewrite Hrn; exact Hn|].
      destruct (HkF x Hx) as (Hxin & Hxf). destruct (kid_filter_facts name x G Hn (proj1 (Hrows x Hxin)) Hxf) as (_ & L2 & _).
      eapply nonroot_of_prefix; [|exact L2]. apply good_nonempty. exact G. }
  { exact B. }
  rewrite A, F2 in Fa. rewrite Ar, G2 in Fr.
  exists sa', sr', o. split; [exact Fa|]. split; [exact Fr|]. split; [exact HR'|]. split; assumption.
Qed.

Lemma delete_op_simr sa sr name : GoodE sa sr -> good name -> name <> [slash] ->
  exists sa' sr' o, delete_op c sa name = (sa', o) /\ delete_op c sr (psi name) = (sr', o) /\ GoodE sa' sr'.
Proof.
  intros HG G Hn. destruct (delete_op_rel sa sr name HG G Hn) as (sa' & sr' & o & Ea & Er & HR' & He' & Hq').
  destruct (delete_ok true c HP Hrs sa name (ge_inv _ _ _ HG) (ge_hb _ _ _ HG) G (fun _ => Hn)) as (s' & o' & E & HI' & Hhb').
  rewrite Ea in E. injection E as <- <-. exists sa', sr', o. split; [exact Ea|]. split; [exact Er|]. split; try assumption.
  apply Hq'. eapply Inv_Sync. exact HI'.
Qed.

(* ---------- Move *)
Lemma mov_hdr_rel a r na : rowrel a r -> hrel (mov_hdr a na) (mov_hdr r (psi na)).
Proof.
  intros H. pose proof (hrel_of_rowrel a r H) as Hh. unfold mov_hdr.
  apply hrel_wsn.
  apply hrel_set_pax; [exact Hh|]. apply pax_set_rel.
  - apply pax_set_rel_eq; [discriminate|]. apply pax_set_rel_eq; [discriminate|]. apply pax_del_rel. apply keep_size_rel. exact Hh.
  - unfold T23Rel.vrel. rewrite eqb_str_refl. exact (rr_name _ _ _ H).
Qed.

Lemma move_op_rel sa sr from to : GoodE sa sr -> good from -> good to -> from <> [slash] -> to <> [slash] -> from <> to ->
  exists sa' sr' o, move_op c sa from to = (sa', o) /\ move_op c sr (psi from) (psi to) = (sr', o) /\ R sa' sr' /\ envq sa' sr' /\
    (Sync c sa' -> REB c sr').
Proof.
  intros HG Gf Gt Hf Ht Hft. pose proof HG as [HI Hhb HR He]. pose proof (GoodE_PR _ _ _ HG) as HQ.
  unfold move_op. assert (Eft : eqb_str from to = false) by (apply eqb_str_neq; exact Hft). rewrite Eft.
  assert (Eft' : eqb_str (psi from) (psi to) = false) by (rewrite (psi_eqb from to (good_abs _ Gf) (good_abs _ Gt)); exact Eft). rewrite Eft'.
  rewrite (lookup_entry_wr top (db sa) (db sr) from HQ Gf), (lookup_entry_rd (db sa) (db sr) from HQ Gf).
  pose proof (optrel_of_find _ _ (find_rel top (db sa) (db sr) from HQ Gf)) as Hrr.
  destruct (find_rows (rows (db sa)) from) as [r|] eqn:Ef; destruct (find_rows (rows (db sr)) (psi from)) as [r'|] eqn:Efr; try contradiction;
    cbn [of_find].
  2:{ eexists _, _, _. split; [reflexivity|]. split; [reflexivity|]. rewrite !set_db_same. split; [exact HR|]. split; [exact He|]. intros _. exact (ge_reb _ _ _ HG). }
  rename Hrr into Hr'.
  destruct (find_rows_row _ _ _ from r HQ Ef) as (Hin & Hlive & Hrn & Hlk & Hrok).
  pose proof (PR_rowok _ _ _ HQ) as Hrows.
  assert (Eabs : is_abs to && negb (is_abs (r_name r)) = false) by (rewrite (good_abs _ (proj1 Hrok)); apply andb_false_r).
  assert (Eabs' : is_abs (psi to) && negb (is_abs (r_name r')) = false) by (rewrite (psi_not_abs to Gt); reflexivity).
  rewrite Eabs, Eabs', Eft, Eft'. rewrite (rr_tf _ _ _ Hr').
  assert (KK : exists kids kids', (if r_tf r =? TypeDir then get_children (db sa) from else (db sa, [])) = (db sa, kids) /\
             (if r_tf r =? TypeDir then get_children (db sr) (psi from) else (db sr, [])) = (db sr, kids') /\
             rows_rel kids kids' /\ Forall (fun x => In x (rows (db sa)) /\ kid_filter from x = true) kids).
  { destruct (r_tf r =? TypeDir).
    - eexists _, _. split; [exact (get_children_wr top _ _ from HQ Gf)|]. split; [exact (get_children_rd _ _ from HQ Gf)|].
      split; [exact (kids_rel top _ _ from HQ Gf Hf)|]. apply Forall_forall. intros x Hx. apply filter_In in Hx. exact Hx.
    - eexists _, _. split; [reflexivity|]. split; [reflexivity|]. split; constructor. }
  destruct KK as (kids & kids' & -> & -> & Hkids & HkF).
  rewrite (move_hdrs_eq from to). rewrite (move_hdrs_eq (psi from) (psi to)). rewrite !set_db_same.
  assert (HPP : Forall (PP from to) (r :: kids)).
  { rewrite Forall_forall in Hrows, HkF. constructor.
    - split; [exact Hrok|]. left. split; [exact Hrn|]. unfold nn. rewrite Hrn. apply move_name_self; assumption.
    - apply Forall_forall. intros x Hx. destruct (HkF x Hx) as (Hxin & Hxf). pose proof (Hrows x Hxin) as Hok.
      destruct (kid_filter_facts from x Gf Hf (proj1 Hok) Hxf) as (_ & L2 & _).
      split; [exact Hok|]. right. unfold nn. apply move_name_below; try assumption. apply Hok. }
  assert (Hhs : Forall2 hrel (map (mk from to) (r :: kids)) (map (mk (psi from) (psi to)) (r' :: kids'))).
  { apply (F2_map rowrel hrel); [constructor; assumption|]. intros x y Hx _ K. unfold mk.
    rewrite Forall_forall in HPP. pose proof (HPP x Hx) as Px.
    replace (nn (psi from) (psi to) y) with (psi (nn from to x)); [apply mov_hdr_rel; exact K|].
    unfold nn. rewrite (rr_name _ _ _ K). symmetry. apply move_name_rd; try assumption; [apply Px|].
    destruct Px as (_ & [[E _]|[rest [E _]]]); [left; exact E|right]. rewrite E. rewrite app_assoc. apply has_prefix_app'. }
  destruct (plain_members_rel _ _ Hhs sa sr He) as (M1 & M2 & [F1 F2] & [G1 G2]).
  pose proof (plain_members_hdrs (map (mk from to) (r :: kids)) sa) as A.
  pose proof (plain_members_hdrs (map (mk (psi from) (psi to)) (r' :: kids')) sr) as Ar.
  set (HDRS := map (mk from to) (r :: kids)) in *.
  destruct (plain_members sa HDRS) as [msa sa1] eqn:EPM.
  destruct (plain_members sr (map (mk (psi from) (psi to)) (r' :: kids'))) as [msr sr1].
  cbn [fst snd] in *.
  destruct (plain_members_spec HDRS sa Hhb) as (_ & B & _). rewrite EPM in B. cbn [fst] in B.
  destruct (finish_simr sa1 sr1 msa msr) as (sa' & sr' & o & Fa & Fr & HR' & He' & Hq').
  { eapply Inv_ext; eassumption. }
  { destruct HR as [C D]. split; [rewrite F1, G1; exact C|rewrite F2, G2; exact D]. }
  { exact M2. }
  { apply (REB_same c sr); [exact (ge_reb _ _ _ HG)|exact G1|exact G2]. }
  { intro K. subst msa. discriminate. }
  { exact M1. }
  { rewrite A. apply Forall_forall. intros h Hh. apply in_map_iff in Hh as (x & <- & Hx).
    rewrite Forall_forall in HPP. pose proof (HPP x Hx) as Px. destruct (PP_facts from to Gf Gt Hf Ht Hft x Px) as (F1' & F2' & F3' & F4').
    apply (mov_hdr_ok true x (nn from to x) (proj1 Px) F1' F2' F3' F4'). }
  { exact B. }
  rewrite A, F2 in Fa. rewrite Ar, G2 in Fr.
  exists sa', sr', o. split; [exact Fa|]. split; [exact Fr|]. split; [exact HR'|]. split; assumption.
Qed.

Lemma move_op_simr sa sr from to : GoodE sa sr -> good from -> good to -> from <> [slash] -> to <> [slash] -> from <> to ->
  exists sa' sr' o, move_op c sa from to = (sa', o) /\ move_op c sr (psi from) (psi to) = (sr', o) /\ GoodE sa' sr'.
Proof.
  intros HG Gf Gt Hf Ht Hft. destruct (move_op_rel sa sr from to HG Gf Gt Hf Ht Hft) as (sa' & sr' & o & Ea & Er & HR' & He' & Hq').
  destruct (move_ok true c HP Hrs from to Gf Gt Hf Ht Hft sa (ge_inv _ _ _ HG) (ge_hb _ _ _ HG)) as (s' & o' & E & HI' & Hhb').
  rewrite Ea in E. injection E as <- <-. exists sa', sr', o. split; [exact Ea|]. split; [exact Er|]. split; try assumption.
  apply Hq'. eapply Inv_Sync. exact HI'.
Qed.
End Ops.
End Top.
