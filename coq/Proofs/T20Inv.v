(* T20 / Inv: the twin of a foreign archive (styles "./" and "/") satisfies the C01 state invariant [Inv true] - proved
   from the definition (no STFS history produced it) - and is related to the opened archive: [Sim]. *)
From Coq Require Import List NArith ZArith Bool Lia.
From Coq Require Import ZifyN ZifyBool.
Import ListNotations.
From STFS Require Import Str Db Tape Index Ops Fs Diff Norm TapeLemmas StrLemmas C01Str C01Db C01Inv C01Sim C01Tape C01Hdr C01Ops
  T13Path T17Tree T17Str T17Forest T17Db T17Rebuild T17View T17Main T17Mknode T19Rel T19Base T19Append T19Main T20Twin T20Rebuild.
Open Scope N_scope.

Section Twin.
Variables (c : cfg) (st : style) (t : tree).
Hypothesis HP : plain c.
Hypothesis Hrs : 0 < c_rs c.
Hypothesis Hs : wf_style st.
Hypothesis Hsr : style_root st = [].
Hypothesis Hwf : wf t.

Let L := istarts 0 (items t).

Lemma L_okc : forall x, In x L -> Forall okc (i_path (snd x)).
Proof. intros x Hx. apply (items_okc t (snd x) Hwf). rewrite <- (istarts_snd (items t) 0). apply in_map. exact Hx. Qed.

Lemma L_shape : forall x, In x L ->
  live (srow st (c_rs c) x) = true /\ r_link (srow st (c_rs c) x) = [] /\ r_name (srow st (c_rs c) x) = join_slash (spc st x) /\ Forall okc (spc st x).
Proof. apply srow_shape; [exact Hs|exact L_okc]. Qed.

Lemma twin_rows_eq : twin_rows c st t = map (fun x => abs_row (srow st (c_rs c) x)) L.
Proof. unfold twin_rows, archive_rows. rewrite map_map. reflexivity. Qed.

Lemma stored_top : stored_name st [] = [].
Proof. destruct st; try reflexivity. cbn in Hsr. destruct Hs as (K & _). contradiction. Qed.

(* ---------- LI *)
Lemma twin_LI : LI true (db (twin c st t)).
Proof.
  split; [reflexivity|reflexivity|]. cbn [twin db rows]. rewrite twin_rows_eq. split.
  - apply Forall_forall. intros r Hr. apply in_map_iff in Hr as (x & <- & Hx). destruct (L_shape x Hx) as (_ & Hl & Hn & Hok).
    split; [|split].
    + exists (spc st x). split; [exact Hok|]. cbn [abs_row set_name r_name]. rewrite Hn. reflexivity.
    + exact Hl.
    + exact I.
  - rewrite map_map.
    assert (E : map (fun x => r_name (abs_row (srow st (c_rs c) x))) L = map (fun cs => slash :: join_slash cs) (map (spc st) L)).
    { rewrite map_map. apply map_ext_in. intros x Hx. destruct (L_shape x Hx) as (_ & _ & Hn & _). cbn [abs_row set_name r_name]. rewrite Hn. reflexivity. }
    rewrite E. apply NoDup_map_inj_in.
    + intros a b Ha Hb Eab. injection Eab as Eab. apply in_map_iff in Ha as (x & <- & Hx). apply in_map_iff in Hb as (y & <- & Hy).
      apply join_inj; [apply (L_shape x Hx)|apply (L_shape y Hy)|exact Eab].
    + apply spc_nodup. unfold L. rewrite istarts_snd. apply items_nodup. exact Hwf.
  - intros _. unfold L, items. cbn [istarts map]. eexists _, _. split; [reflexivity|]. split; [|reflexivity].
    cbn [abs_row set_name r_name]. change (r_name (srow st (c_rs c) (0, top_item t))) with (stored_name st []). rewrite stored_top. reflexivity.
Qed.

Lemma norm_abs_row r : norm_row (abs_row r) = r.
Proof. destruct r. reflexivity. Qed.

Lemma NR_twin_rows : NR (twin_rows c st t) = archive_rows c st t.
Proof. unfold NR, twin_rows. rewrite map_map. rewrite <- (map_id (archive_rows c st t)) at 2. apply map_ext. apply norm_abs_row. Qed.

Lemma lks_abs l : lks (map abs_row l) = lks l.
Proof. unfold lks. rewrite map_map. reflexivity. Qed.

(* ---------- the invariant *)
Theorem T20_twin_Inv : Inv true c (twin c st t).
Proof.
  assert (Hb : forall i, In i (items t) -> 1 <= mt_hb (i_meta i)) by (intros i Hi; apply (items_hb t i Hwf Hi)).
  split.
  - exact twin_LI.
  - destruct (T20_twin_rebuild c st t HP Hs Hsr Hwf) as (p & Hreb & Hrows & Hroot & Hre). exists p. split; [exact Hreb|].
    split; [rewrite Hrows; symmetry; exact NR_twin_rows|exact Hroot|].
    destruct Hre as [K|K]; [left; exact K|right]. cbn [twin db rows]. rewrite twin_rows_eq. unfold allroot. apply Forall_forall.
    intros r Hr. apply in_map_iff in Hr as (x & <- & Hx). cbn [abs_row set_name r_name].
    change (r_name (srow st (c_rs c) x)) with (stored_name st (i_path (snd x))).
    rewrite Forall_forall in K. rewrite (K (snd x)); [rewrite stored_top; reflexivity|].
    rewrite <- (istarts_snd (items t) 0). apply in_map. exact Hx.
  - cbn [twin tp]. unfold twin_tape. fold (twin_items st (items t)). apply Forall_app. split.
    + apply pos_items_twin. exact Hb.
    + constructor; [cbn; lia|constructor].
  - destruct (exists_last (l := items t) ltac:(discriminate)) as (l0 & il & El).
    exists (twin_items st l0), (twin_member st il). split; [|split].
    + cbn [twin tp]. unfold twin_tape. rewrite El. unfold twin_items. rewrite map_app. cbn [map]. rewrite <- app_assoc. reflexivity.
    + cbn [twin db rows]. unfold lk_le, twin_rows. rewrite lks_abs. unfold archive_rows. intros y Hy. rewrite lks_srow in Hy.
      apply in_map_iff in Hy as (x & <- & Hx). rewrite pos_of_roundtrip by exact Hrs.
      rewrite El, istarts_app in Hx. apply in_app_or in Hx as [Hx|Hx].
      * pose proof (istarts_le l0 0 x Hx). rewrite tape_blocks_twin. lia.
      * cbn [istarts] in Hx. destruct Hx as [<-|[]]. cbn [fst]. rewrite tape_blocks_twin. lia.
    + cbn [twin db rows]. unfold twin_rows. rewrite lks_abs. unfold archive_rows. rewrite lks_srow.
      apply in_map_iff. exists (0 + fold_right (fun i s => iblocks i + s) 0 l0, il). split.
      * cbn [fst]. rewrite tape_blocks_twin. reflexivity.
      * rewrite El, istarts_app. apply in_or_app. right. left. reflexivity.
Qed.

(* ---------- the relation with the opened archive *)
Lemma rowrel_abs_row r : rowrel (abs_row r) r.
Proof. constructor; try reflexivity. apply pax_rel_refl. Qed.

Lemma rows_rel_abs l : rows_rel (map abs_row l) l.
Proof. induction l as [|r l IH]; constructor; [apply rowrel_abs_row|exact IH]. Qed.

Lemma twin_mrel i : Forall okc (i_path i) -> mrel (twin_member st i) (member_of_item st i).
Proof.
  intro Hok. constructor; try reflexivity. constructor; try reflexivity; [|constructor].
  cbn [twin_member member_of_item m_hdr with_size_name h_name hdr_of_item]. unfold nrel.
  assert (Hcase : i_path i = [] \/ i_path i <> []) by (destruct (i_path i); [left; reflexivity|right; discriminate]).
  destruct Hcase as [Ep|Hne].
  - left. unfold twin_name. rewrite Ep. reflexivity.
  - destruct (twin_name_member st i Hs Hsr Hok Hne) as (_ & _ & _ & K). exact K.
Qed.

Lemma twin_tape_rel : tape_rel (twin_tape st t) (archive_of st t).
Proof.
  unfold twin_tape, archive_of. apply Forall2_app; [|constructor; [constructor|constructor]].
  assert (H : forall i, In i (items t) -> Forall okc (i_path i)) by (intros i Hi; apply (items_okc t i Hwf Hi)).
  induction (items t) as [|i l IH]; cbn [map]; constructor.
  - constructor. apply twin_mrel. apply H. left. reflexivity.
  - apply IH. intros j Hj. apply H. right. exact Hj.
Qed.

Theorem T20_twin_R : T19Rel.R (twin c st t) (opened c (archive_of st t)).
Proof.
  destruct (opened_Opened c st t HP Hs Hwf) as (Hrows & Hroot). split.
  - exact twin_tape_rel.
  - split; [|reflexivity|rewrite Hroot; exact Hsr]. rewrite Hrows. apply rows_rel_abs.
Qed.

Theorem T20_twin_REB : REB c (twin c st t) (opened c (archive_of st t)).
Proof.
  destruct (T17_rebuild_rows c st t HP Hs Hwf) as (p & Hreb & Hrows & Hroot).
  destruct (opened_Opened c st t HP Hs Hwf) as (Hrows' & _).
  exists p. split; [exact Hreb|]. split; [|rewrite Hrows, Hrows'; reflexivity].
  split; [|reflexivity|exact Hroot]. rewrite Hrows. apply rows_rel_abs.
Qed.

Theorem T20_twin_Sim : Sim c (twin c st t) (opened c (archive_of st t)).
Proof. split; [exact T20_twin_Inv|]. split; [exact T20_twin_R|exact T20_twin_REB]. Qed.
End Twin.

(* the statement of the task *)
Theorem T20_foreign_sim : forall c st t, plain c -> 0 < c_rs c -> wf_style st -> style_root st = [] -> wf t ->
  Sim c (twin c st t) (opened c (archive_of st t)).
Proof. intros. apply T20_twin_Sim; assumption. Qed.

Print Assumptions T20_foreign_sim.
