(* T19 / Counter: why the simulation theorems assume [call_ok] (the root is never removed or renamed onto).
   RemoveAll "/" on the WRITER (stored names "/", "/a", "/a/f": GetHeaderChildren with the prefix "/") tombstones every row;
   on the READER (stored names "", "a", "a/f") the prefix is "/" as well -- trim_suffix("", "/") ++ "/" -- which no stored
   name has, so only the root row "" is tombstoned and the rows below it stay live: the two instances then answer
   DIFFERENTLY (Chmod "/a": ONotExist on the writer, OOk on the reader), their tapes differ in length, and after the next
   Initialize they show different trees.  The model is tied to the implementation by the correspondence runs, so this is
   a statement about the real code path as well: an instance opened over a rebuilt index must not be asked to remove "/". *)
From Coq Require Import String List NArith ZArith Bool.
Import ListNotations.
From STFS Require Import Str Db Tape Index Ops Fs Diff Norm C01Fs2 T19Rel T19Test.
Open Scope string_scope.
Open Scope N_scope.

Definition c0 : cfg := cfz "".
Definition w1 : list (call * env) := [(CMkdir (s "/a") 493, e0 2); (CCreateFile (s "/a/f") [(1, 0, 5)], e0 3)].
Definition k1 : list (call * env) :=
  [(CRemoveAll (s "/"), e0 5); (CChmod (s "/a") 448, e0 6); (CInitialize (s "/"), e0 7)].

Example counter_remove_root :
  (* the two instances are related before the continuation *)
  Rb (writer c0 w1) (reader c0 w1) = true /\
  (* the only call that is not [call_ok] is the first *)
  map (fun ke => call_ok (fst ke)) k1 = [false; true; true] /\
  (* outcomes: equal for RemoveAll "/", different for the Chmod that follows *)
  map ob_out (run c0 (writer c0 w1) k1) = [OOk; ONotExist; OOk] /\
  map ob_out (run c0 (reader c0 w1) k1) = [OOk; OOk; OOk] /\
  (* the relation is lost with the first call already (the reader wrote one Delete record, the writer three) *)
  Rb (final c0 (writer c0 w1) (firstn 1 k1)) (final c0 (reader c0 w1) (firstn 1 k1)) = false /\
  map ob_blocks (run c0 (writer c0 w1) (firstn 1 k1)) <> map ob_blocks (run c0 (reader c0 w1) (firstn 1 k1)) /\
  (* the live names left in the reader's index *)
  map r_name (filter live (rows (db (final c0 (reader c0 w1) (firstn 1 k1))))) = [s "a"; s "a/f"] /\
  filter live (rows (db (final c0 (writer c0 w1) (firstn 1 k1)))) = [].
Proof. vm_compute. repeat split; try reflexivity. discriminate. Qed.

(* removing the root when it is the only entry: outcomes stay equal, but the next absolute name POISONS the reader's root
   cache (getSanitizedPath stores the caller's name as the root when no row "" is live), so [R] fails *)
Definition k2 : list (call * env) := [(CRemove (s "/"), e0 5); (CChmod (s "/a") 448, e0 6)].
Example counter_remove_only_root :
  map ob_out (run c0 (writer c0 []) k2) = map ob_out (run c0 (reader c0 []) k2) /\
  root (db (final c0 (reader c0 []) k2)) = s "/a" /\
  Rb (final c0 (writer c0 []) k2) (final c0 (reader c0 []) k2) = false.
Proof. vm_compute. repeat split; reflexivity. Qed.
