(* T04 / tape: the member appended at the end of the tape is found at the old end; fetches at existing members
   are stable under appending. *)
From Coq Require Import List NArith ZArith Bool Lia.
From Coq Require Import ZifyN ZifyBool.
Import ListNotations.
From STFS Require Import Str Db Tape Index Ops Fs Diff TapeLemmas Append C01Tape T04Def.
Open Scope N_scope.

Lemma filter_none {A} (f : A -> bool) l : (forall x, In x l -> f x = false) -> filter f l = [].
Proof.
  induction l as [|x t IH]; cbn; intro H; [reflexivity|].
  rewrite (H x (or_introl eq_refl)). apply IH. intros y Hy. apply H. right. exact Hy.
Qed.

Lemma with_starts_pos t : forall a p, pos_items t -> In p (with_starts t a) -> fst p < a + tape_blocks t.
Proof.
  induction t as [|i r IH]; intros a p Hp Hin; cbn in Hin; [contradiction|].
  inversion Hp as [|? ? Hi Hr]; subst.
  assert (E : tape_blocks (i :: r) = item_blocks i + tape_blocks r) by reflexivity.
  destruct Hin as [<-|Hin]; cbn [fst].
  - lia.
  - specialize (IH _ _ Hr Hin). lia.
Qed.

(* the member appended to a tape whose items all occupy blocks starts at the old end of the tape *)
Lemma member_at_new t m suf : pos_items t -> member_at (t ++ TM m :: suf) (tape_blocks t) = Some m.
Proof.
  intro Hp. unfold member_at. rewrite with_starts_app, filter_app.
  rewrite filter_none.
  - cbn [app with_starts filter fst N.add]. rewrite N.eqb_refl. reflexivity.
  - intros p Hin. pose proof (with_starts_pos t 0 p Hp Hin). lia.
Qed.

Lemma fetch_at_new c t m suf : 0 < c_rs c -> pos_items t ->
  fetch_at c (t ++ TM m :: suf) (fst (pos_of (c_rs c) (tape_blocks t))) (snd (pos_of (c_rs c) (tape_blocks t)))
  = Some (mdata m).
Proof.
  intros Hrs Hp. unfold fetch_at. rewrite pos_of_roundtrip by exact Hrs. rewrite member_at_new by exact Hp.
  unfold mdata. destruct (m_data m); reflexivity.
Qed.

(* a fetch that found a member finds the same bytes after anything is appended *)
Lemma fetch_at_app c t suf rec blk m : member_at t (off_of (c_rs c) rec blk) = Some m ->
  fetch_at c (t ++ suf) rec blk = fetch_at c t rec blk.
Proof.
  intro H. unfold fetch_at. rewrite (member_at_app t suf _ m H), H. reflexivity.
Qed.

Lemma fetch_at_member c t rec blk m : member_at t (off_of (c_rs c) rec blk) = Some m ->
  fetch_at c t rec blk = Some (mdata m).
Proof. intro H. unfold fetch_at, mdata. rewrite H. destruct (m_data m); reflexivity. Qed.

Lemma fetch_at_extends c t t' rec blk m : extends t t' -> member_at t (off_of (c_rs c) rec blk) = Some m ->
  fetch_at c t' rec blk = fetch_at c t rec blk.
Proof. intros [suf ->]. apply fetch_at_app. Qed.

Lemma member_at_extends t t' off m : extends t t' -> member_at t off = Some m -> member_at t' off = Some m.
Proof. intros [suf ->]. apply member_at_app. Qed.

Lemma mk_member_data s h d e : m_data (fst (mk_member s h d e)) = d.
Proof. unfold mk_member. destruct (pop_hb s). reflexivity. Qed.
