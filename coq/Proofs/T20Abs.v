(* T20 / Abs: the abstract namespace (T02Ns.abs: the live rows projected to name and attributes) of the twin IS the tree:
   every member at "/" ++ its path with its kind, size, permission bits, owner, times, and - for a regular member - the
   tape position of its bytes as content id.  Relation between the namespaces of two instances in [T19Rel.R]. *)
From Coq Require Import List NArith ZArith Bool Lia.
From Coq Require Import ZifyN ZifyBool.
Import ListNotations.
From STFS Require Import Str Db Tape Index Ops Fs Diff Norm C01Str C01Db C01Inv C01Sim C01Ops T02Ns
  T13Path T17Tree T17Str T17Forest T17Rebuild T17View T19Rel T19Base T20Twin.
Open Scope N_scope.

Definition ns_node (rs : N) (x : N * item) : T02Ns.node :=
  let i := snd x in
  {| n_tf := if i_dir i then TypeDir else TypeReg;
     n_size := if i_dir i then 0 else clen (i_data i);
     n_mode := perm_bits (mt_mode (i_meta i));
     n_uid := mt_uid (i_meta i); n_gid := mt_gid (i_meta i); n_uname := mt_uname (i_meta i); n_gname := mt_gname (i_meta i);
     n_mtime := mt_mtime (i_meta i); n_atime := mt_atime (i_meta i); n_ctime := mt_ctime (i_meta i);
     n_cid := if i_dir i then (0, 0) else pos_of rs (fst x) |}.

(* the members of the tree with the block offsets a tar writer gives them, as a namespace *)
Definition namespace_of (c : cfg) (t : tree) : ns :=
  map (fun x => (pth (i_path (snd x)), ns_node (c_rs c) x)) (istarts 0 (items t)).

Lemma filter_live_all l : Forall (fun r => r_del r = false) l -> filter live l = l.
Proof. induction 1 as [|r l Hr _ IH]; [reflexivity|]. cbn [filter]. unfold live at 1. rewrite Hr. cbn. rewrite IH. reflexivity. Qed.

Theorem T20_twin_abs : forall c st t, wf_style st -> style_root st = [] -> abs (twin c st t) = namespace_of c t.
Proof.
  intros c st t Hs Hsr. unfold abs, absp, namespace_of. cbn [twin db rows]. unfold twin_rows, archive_rows.
  rewrite filter_live_all.
  - rewrite !map_map. apply map_ext. intros [a i]. unfold ns_node. cbn [snd fst].
    assert (En : r_name (abs_row (srow st (c_rs c) (a, i))) = pth (i_path i)).
    { cbn [abs_row set_name r_name]. change (r_name (srow st (c_rs c) (a, i))) with (stored_name st (i_path i)).
      destruct st; [reflexivity|reflexivity|]. cbn in Hsr. destruct Hs as (K & _). contradiction. }
    rewrite En. f_equal. unfold node_of, srow. cbn [fst snd]. destruct (pos_of (c_rs c) a) as [rec blk].
    destruct i as [pa d mt da]. destruct d; reflexivity.
  - apply Forall_forall. intros r Hr. apply in_map_iff in Hr as (r0 & <- & Hr0). apply in_map_iff in Hr0 as (x & <- & _). reflexivity.
Qed.

(* ---------- related instances have the same namespace up to the spelling of the names *)
Lemma node_of_rel a r : rowrel a r -> node_of r = node_of a.
Proof.
  intros []. unfold node_of. rewrite rr_tf, rr_size, rr_mode, rr_uid, rr_gid, rr_uname, rr_gname, rr_mtime, rr_atime, rr_ctime, rr_rec, rr_blk.
  reflexivity.
Qed.

Theorem T20_abs_rel : forall sa sr, T19Rel.R sa sr -> abs sr = map (fun e => (norm_name (fst e), snd e)) (abs sa).
Proof.
  intros sa sr [_ [Hrows _ _]]. unfold abs, absp. rewrite map_map. cbn [fst snd].
  induction Hrows as [|a r la lr Har _ IH]; [reflexivity|]. cbn [filter]. rewrite (rowrel_live a r Har).
  destruct (live a); [|exact IH]. cbn [map]. rewrite IH, (node_of_rel a r Har), (rr_name _ _ Har). reflexivity.
Qed.
