(* T07 / counterexamples and boundary instances for C07.

   (1) [C07_full_statement] (Props/C07.v) quantifies over ALL histories, including the archive-level calls
       CArchive / CUpdate that write caller-supplied headers.  It is FALSE: a record "rename /b -> /a" whose source
       does not exist when it is written is a no-op for the rebuild, but when the tape is replayed into an index
       that already contains a later-created /b, the replay finds that FUTURE row, moves it onto /a and destroys
       the row of /a.  [counter_full_statement] is a machine-checked refutation.
       This is exactly the well-formedness condition of Proofs/T07Core.v ([Wh]: the source of every rename record
       exists when the record is replayed), which filesystem-level histories satisfy (Proofs/T07Inv.v, T07Fs.v);
       hence the hypothesis [fs_call] of T07_replay_converges.
   (2) instances of the theorem, and instances outside its hypotheses on which the conclusion was checked by
       evaluation (root removed and re-created: not covered by [call_ok], no counterexample known). *)
From Coq Require Import String List NArith ZArith Bool.
Import ListNotations.
From STFS Require Import Str Db Tape Index Ops Fs Diff Prefix Replay Norm C01Fs2 C01Rows C07Stmt T07Replay.
Open Scope string_scope.
Open Scope N_scope.

Definition cf : cfg :=
  {| c_rs := 3; c_csuf := []; c_esuf := []; c_readonly := false; c_uid := 0; c_gid := 0;
     c_uname := s "root"; c_gname := s "0" |}.
Definition e0 (n : Z) : env := {| ev_hb := []; ev_enc := []; ev_now := n |}.

Definition fhdr (name : string) (px : pax) : hdr :=
  {| h_tf := TypeReg; h_name := s name; h_link := []; h_size := 0; h_mode := 420; h_uid := 0; h_gid := 0;
     h_uname := []; h_gname := []; h_mtime := 5%Z; h_atime := 0%Z; h_ctime := 0%Z; h_pax := px |}.
Definition mv_pax (old : string) : pax :=
  pax_set K_replaces_name (s old) (pax_set K_action V_update (pax_set K_version V_1 [])).

(* Initialize; create /a; a rename record /b -> /a written while /b does not exist; create /b *)
Definition h_bad : list (call * env) :=
  [(CInitialize (s "/"), e0 1);
   (CArchive [{| f_hdr := fhdr "/a" []; f_data := [] |}], e0 2);
   (CArchive [{| f_hdr := fhdr "/a" (mv_pax "/b"); f_data := [] |}], e0 3);
   (CArchive [{| f_hdr := fhdr "/b" []; f_data := [] |}], e0 4)].

Definition c07_instance (c : cfg) (h : list (call * env)) (j : nat) : Prop :=
  let t := tp (final c init_sys h) in
  (j <= length (all_members t))%nat ->
  res_ok (snd (rebuild c t)) = true ->
  let '(p, r) := replay_into c t (prefix_index c t j) in
  res_ok r = true /\ eqb_list eqb_row (visible p) (visible (fst (rebuild c t))) = true.

Example counter_instance : ~ c07_instance cf h_bad 4.
Proof.
  unfold c07_instance. intro H.
  assert (H1 : (4 <= length (all_members (tp (final cf init_sys h_bad))))%nat) by (vm_compute; repeat constructor).
  assert (H2 : res_ok (snd (rebuild cf (tp (final cf init_sys h_bad)))) = true) by (vm_compute; reflexivity).
  specialize (H H1 H2). vm_compute in H. destruct H as [_ H]. discriminate H.
Qed.

Theorem counter_full_statement : ~ C07_full_statement.
Proof.
  intro H. apply counter_instance. unfold c07_instance. apply (H cf h_bad 4%nat). reflexivity.
Qed.

(* the same tape is fine for the prefixes that do not yet contain /b (j <= 3): the damage needs the future row *)
Example bad_tape_short_prefixes :
  forallb (fun j => let t := tp (final cf init_sys h_bad) in
                    let '(p, r) := replay_into cf t (prefix_index cf t j) in
                    res_ok r && eqb_list eqb_row (visible p) (visible (fst (rebuild cf t)))) [0; 1; 2; 3]%nat = true.
Proof. vm_compute. reflexivity. Qed.

(* ---------- instances of the theorem *)
Definition r_fs : list (call * env) :=
  [(CMkdir (s "/a") 493, e0 2); (CCreateFile (s "/a/f") [(1, 0, 700)], e0 3);
   (CRemove (s "/a/f"), e0 4); (CCreateFile (s "/g") [(2, 0, 10)], e0 5); (CRename (s "/g") (s "/a/f"), e0 6);
   (CChmod (s "/a/f") 384, e0 7); (CRename (s "/a") (s "/c"), e0 8); (CRemoveAll (s "/c"), e0 9); (CMkdir (s "/c") 448, e0 10)].

Example theorem_instance : forall j,
  let t := tp (final cf init_sys ((CInitialize [slash], e0 1) :: r_fs)) in
  let '(p, rr) := replay_into cf t (prefix_index cf t j) in
  res_ok rr = true /\ eqb_list eqb_row (visible p) (visible (fst (rebuild cf t))) = true.
Proof. intro j. apply (T07_replay_converges cf (e0 1) r_fs j); reflexivity. Qed.

(* ---------- outside [call_ok]: the root removed and re-created; the conclusion holds on this history for every j
   (by evaluation); [call_ok] is kept because the invariant of the proof tracks a live root row *)
Definition h_root : list (call * env) :=
  [(CInitialize (s "/"), e0 1); (CMkdir (s "/a") 493, e0 2); (CRemoveAll (s "/"), e0 3); (CMkdirAll (s "/") 493, e0 4);
   (CMkdir (s "/b") 493, e0 5); (CRemove (s "/b"), e0 6); (CMkdir (s "/c") 493, e0 7); (CMkdirAll (s "/c/d") 493, e0 8)].
Example root_removed_instance :
  forallb (fun ke => call_ok (fst ke)) (tl h_root) = false /\
  forallb (fun j => let t := tp (final cf init_sys h_root) in
                    let '(p, r) := replay_into cf t (prefix_index cf t j) in
                    res_ok r && eqb_list eqb_row (visible p) (visible (fst (rebuild cf t))))
          (seq 0 (S (length (all_members (tp (final cf init_sys h_root)))))) = true.
Proof. split; vm_compute; reflexivity. Qed.
