(* T15 / Counter: compiled witnesses for the hypotheses of the T15 theorems (all by vm_compute on a populated tape).
   [s1]   the state a writable instance reaches by Initialize, Mkdir /a, Create /a/f (700 bytes), Create /b (10 bytes), Mkdir /d, Remove /d
   [rcfg] the read-only twin of its configuration. *)
From Coq Require Import String List NArith ZArith Bool.
Import ListNotations.
From STFS Require Import Str Db Tape Index Ops Fs File Diff Norm T15Def T15Step T15Hist T15View T15Reads.
Open Scope N_scope.

Definition wcfg : cfg := {| c_rs := 3; c_csuf := []; c_esuf := []; c_readonly := false; c_uid := 0; c_gid := 0; c_uname := s "root"; c_gname := s "0" |}.
Definition rcfg : cfg := set_ro wcfg true.
Definition e0 (n : Z) : env := {| ev_hb := []; ev_enc := []; ev_now := n |}.
Definition whist : list (call * env) :=
  [(CInitialize (s "/"), e0 1); (CMkdir (s "/a") 493, e0 2); (CCreateFile (s "/a/f") [(1, 0, 700)], e0 3);
   (CCreateFile (s "/b") [(2, 0, 10)], e0 5); (CMkdir (s "/d") 493, e0 6); (CRemove (s "/d"), e0 7)].
Definition s1 : sys := final wcfg init_sys whist.
Definition rd : oflag := {| o_acc := 0; o_append := false; o_create := false; o_excl := false; o_trunc := false |}.

(* 1. [opened] cannot be dropped from the view theorem: with nothing cached (the state before Open() has read the root) and no row
      named "", getSanitizedPath caches the first absolute name it sees as the root; one OpenFile O_RDONLY "/a/f" then makes
      "/" resolve to the file.  Tape and rows are unchanged all the same. *)
Definition s1u : sys := set_db s1 {| rows := rows (db s1); root := []; root_empty := false |}.
Definition one_read : list (call * env) := [(CWriteFile (s "/a/f") rd 0 [] false, e0 10)].
Example T15_counter_unopened :
  ~ opened (db s1u) /\ has_live (db s1u) /\
  view rcfg s1u = [] /\ List.length (view rcfg (final rcfg s1u one_read)) = 1%nat /\
  root (db (final rcfg s1u one_read)) = s "/a/f" /\
  tp (final rcfg s1u one_read) = tp s1u /\ rows (db (final rcfg s1u one_read)) = rows (db s1u).
Proof.
  split; [|split].
  - unfold opened. vm_compute. discriminate.
  - unfold has_live. vm_compute. discriminate.
  - vm_compute. repeat split; reflexivity.
Qed.

(* 2. the operation-level calls are outside [ro_call]: update_op / delete_op / move_op of the model do not look at c_readonly
      (the implementation builds a read-only filesystem without a writer for them; every afero-level method that uses them checks
      the switch first, which is what [T15_mutator_id] shows for the model) *)
Example T15_counter_operations :
  List.length (tp (fst (step rcfg s1 (CDelete (s "/b"))))) <> List.length (tp s1) /\
  List.length (tp (fst (step rcfg s1 (CMove (s "/b") (s "/c"))))) <> List.length (tp s1) /\
  List.length (tp (fst (step rcfg s1 (CUpdate [{| f_hdr := mknode_hdr rcfg false (s "/b") [] 420 9; f_data := [] |}] false)))) <> List.length (tp s1).
Proof. vm_compute. repeat split; discriminate. Qed.

(* 3. OpenFile O_RDONLY agrees with the writable twin only for the plain flag word ([plain_rdonly]): with O_TRUNC on a directory,
      or O_CREATE|O_EXCL on an existing name, the writable instance refuses (it honours the bits before looking at the access mode)
      while the read-only instance, which drops every bit but the access mode, opens the entry *)
Definition rd_trunc : oflag := {| o_acc := 0; o_append := false; o_create := false; o_excl := false; o_trunc := true |}.
Definition rd_excl : oflag := {| o_acc := 0; o_append := false; o_create := true; o_excl := true; o_trunc := false |}.
Example T15_counter_openfile_bits :
  snd (fst (fs_openfile rcfg s1 (s "/a") rd_trunc 0)) = OOk /\ snd (fst (fs_openfile wcfg s1 (s "/a") rd_trunc 0)) = OIsDir /\
  snd (fst (fs_openfile rcfg s1 (s "/b") rd_excl 0)) = OOk /\ snd (fst (fs_openfile wcfg s1 (s "/b") rd_excl 0)) = OExist.
Proof. vm_compute. repeat split; reflexivity. Qed.

(* 4. a write through a handle on a DIRECTORY answers OIsDir, not OPerm (File.Write tests the directory bit first) *)
Definition rw : oflag := {| o_acc := 2; o_append := true; o_create := true; o_excl := false; o_trunc := true |}.
Example T15_write_on_directory :
  step rcfg s1 (CWriteFile (s "/a") rw 420 [(9, 0, 3)] false) = (s1, OIsDir) /\
  step rcfg s1 (CWriteFile (s "/a/f") rw 420 [(9, 0, 3)] false) = (s1, OPerm) /\
  step rcfg s1 (CWriteFile (s "/nope") rw 420 [(9, 0, 3)] false) = (s1, ONotExist) /\
  step rcfg s1 (CWriteFile (s "/a/f") rw 420 [] false) = (s1, OOk) /\
  step rcfg s1 (CWriteFile (s "/a/f") rw 420 [] true) = (s1, OPerm).
Proof. vm_compute. repeat split; reflexivity. Qed.

(* 5. "apart from building a missing index on first open": a read-only Initialize over a populated tape with an empty index fills
      the rows (and only then); over an empty tape it fails with the permission error *)
Definition s1_noindex : sys := set_db s1 p_empty.
Example T15_initialize_builds_index :
  rows (db (fst (step rcfg s1_noindex (CInitialize (s "/"))))) = rows (fst (rebuild rcfg (tp s1))) /\
  List.length (rows (db (fst (step rcfg s1_noindex (CInitialize (s "/")))))) = 5%nat /\
  tp (fst (step rcfg s1_noindex (CInitialize (s "/")))) = tp s1 /\
  snd (step rcfg s1_noindex (CInitialize (s "/"))) = OOk /\
  step rcfg init_sys (CInitialize (s "/")) = (init_sys, OPerm).
Proof. vm_compute. repeat split; reflexivity. Qed.
